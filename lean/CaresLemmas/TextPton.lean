import CaresModel.Text.Pton
/-! Helper lemmas for C16 `ntop_pton` (IPv4): decimal rendering of an octet and reading it back. -/
namespace Cares.Text

theorem showDecAux_step (f n : Nat) (acc : Bytes) :
    showDecAux (f + 1) n acc = if n < 10 then (48 + n) :: acc else showDecAux f (n / 10) ((48 + n % 10) :: acc) := rfl

theorem showDec_small (n : Nat) (h : n < 1000) :
    showDec n = if n < 10 then [48 + n] else if n < 100 then [48 + n / 10, 48 + n % 10]
                else [48 + n / 100, 48 + n / 10 % 10, 48 + n % 10] := by
  unfold showDec
  rw [show (40 : Nat) = 37 + 1 + 1 + 1 from rfl, showDecAux_step, showDecAux_step, showDecAux_step]
  by_cases h1 : n < 10
  · simp only [h1, ↓reduceIte]
  · by_cases h2 : n < 100
    · have : n / 10 < 10 := by omega
      simp only [h1, h2, this, ↓reduceIte]
    · have h3 : ¬ n / 10 < 10 := by omega
      have h4 : n / 10 / 10 < 10 := by omega
      have h5 : n / 10 / 10 = n / 100 := by omega
      have h6 : n / 100 < 10 := by omega
      simp only [h1, h2, h3, h5, h6, ↓reduceIte]

theorem isDigit_add (d : Nat) (h : d < 10) : isDigit (48 + d) = true := by
  unfold isDigit; simp; omega

theorem decNum_nil (L tmp ch : Nat) :
    decNum L tmp ch [] = if tmp * 10 + (ch - 48) > L then none else some (tmp * 10 + (ch - 48), 0, []) := by
  simp only [decNum]

theorem decNum_cons (L tmp ch c : Nat) (r : Bytes) :
    decNum L tmp ch (c :: r) = if tmp * 10 + (ch - 48) > L then none
      else if isDigit c then decNum L (tmp * 10 + (ch - 48)) c r else some (tmp * 10 + (ch - 48), c, r) := by
  simp only [decNum]

/-- the last digit of a number: what follows is not a digit -/
theorem decNum_last (L tmp d : Nat) (hd : d < 10) (rest : Bytes) (hr : isDigit (rest.headD 0) = false)
    (hle : tmp * 10 + d ≤ L) :
    decNum L tmp (48 + d) rest = some (tmp * 10 + d, rest.headD 0, rest.drop 1) := by
  have e : 48 + d - 48 = d := by omega
  cases rest with
  | nil => rw [decNum_nil, e]; simp; omega
  | cons c r =>
    have hc : isDigit c = false := by simpa using hr
    rw [decNum_cons, e, hc]; simp; omega

theorem decNum_more (L tmp d c : Nat) (hd : d < 10) (r : Bytes) (hc : isDigit c = true) (hle : tmp * 10 + d ≤ L) :
    decNum L tmp (48 + d) (c :: r) = decNum L (tmp * 10 + d) c r := by
  have e : 48 + d - 48 = d := by omega
  rw [decNum_cons, e, hc]; simp; omega

/-- reading back a rendered octet: `decNum` consumes exactly its digits -/
theorem decNum_octet (n : Nat) (hn : n < 256) (rest : Bytes) (hr : isDigit (rest.headD 0) = false) :
    ∃ d ds, showDec n = d :: ds ∧ isDigit d = true ∧
      decNum 255 0 d (ds ++ rest) = some (n, rest.headD 0, rest.drop 1) := by
  rw [showDec_small n (by omega)]
  by_cases h1 : n < 10
  · refine ⟨48 + n, [], by simp only [h1, ↓reduceIte], isDigit_add n h1, ?_⟩
    rw [List.nil_append, decNum_last 255 0 n h1 rest hr (by omega)]
    simp
  · by_cases h2 : n < 100
    · refine ⟨48 + n / 10, [48 + n % 10], by simp only [h1, h2, ↓reduceIte], isDigit_add _ (by omega), ?_⟩
      rw [List.cons_append, List.nil_append, decNum_more 255 0 (n / 10) _ (by omega) _ (isDigit_add _ (by omega)) (by omega),
          decNum_last 255 _ (n % 10) (by omega) rest hr (by omega)]
      have : (0 * 10 + n / 10) * 10 + n % 10 = n := by omega
      rw [this]
    · refine ⟨48 + n / 100, [48 + n / 10 % 10, 48 + n % 10], by simp only [h1, h2, ↓reduceIte], isDigit_add _ (by omega), ?_⟩
      rw [List.cons_append, List.cons_append, List.nil_append,
          decNum_more 255 0 (n / 100) _ (by omega) _ (isDigit_add _ (by omega)) (by omega),
          decNum_more 255 _ (n / 10 % 10) _ (by omega) _ (isDigit_add _ (by omega)) (by omega),
          decNum_last 255 _ (n % 10) (by omega) rest hr (by omega)]
      have : ((0 * 10 + n / 100) * 10 + n / 10 % 10) * 10 + n % 10 = n := by omega
      rw [this]

theorem showDec_ne_nil (n : Nat) (h : n < 256) : ∃ d ds, showDec n = d :: ds ∧ isDigit d = true ∧ d ≠ 120 ∧ d ≠ 88 ∧
    (∀ x ∈ ds, x ≠ 120 ∧ x ≠ 88) := by
  rw [showDec_small n (by omega)]
  by_cases h1 : n < 10
  · exact ⟨48 + n, [], by simp only [h1, ↓reduceIte], isDigit_add n h1, by omega, by omega, by simp⟩
  · by_cases h2 : n < 100
    · refine ⟨48 + n / 10, [48 + n % 10], by simp only [h1, h2, ↓reduceIte], isDigit_add _ (by omega), by omega, by omega, ?_⟩
      intro x hx; simp at hx; omega
    · refine ⟨48 + n / 100, [48 + n / 10 % 10, 48 + n % 10], by simp only [h1, h2, ↓reduceIte], isDigit_add _ (by omega),
        by omega, by omega, ?_⟩
      intro x hx; simp at hx; omega

/-- one round of the dotted-decimal loop on a rendered octet followed by a dot and more text -/
theorem decOctets_dot (fuel n : Nat) (hn : n < 256) (size : Nat) (hs : size ≠ 0) (out : List Nat)
    (c : Nat) (r : Bytes) (hc : isDigit c = true) (d : Nat) (ds : Bytes) (hd : showDec n = d :: ds) :
    decOctets (fuel + 1) d (ds ++ 46 :: c :: r) size out = decOctets fuel c r (size - 1) (out ++ [n]) := by
  obtain ⟨d', ds', h1, _, h3⟩ := decNum_octet n hn (46 :: c :: r) (by rfl)
  rw [hd] at h1
  simp only [List.cons.injEq] at h1
  obtain ⟨rfl, rfl⟩ := h1
  rw [decOctets, h3]
  simp [hs, hc]

theorem decOctets_end (fuel n : Nat) (hn : n < 256) (size : Nat) (hs : size ≠ 0) (out : List Nat)
    (d : Nat) (ds : Bytes) (hd : showDec n = d :: ds) :
    decOctets (fuel + 1) d (ds ++ []) size out = .ok (0, [], size - 1, out ++ [n]) := by
  obtain ⟨d', ds', h1, _, h3⟩ := decNum_octet n hn [] (by decide)
  rw [hd] at h1
  simp only [List.cons.injEq] at h1
  obtain ⟨rfl, rfl⟩ := h1
  rw [decOctets, h3]
  simp [hs]

theorem classBits_le (out : List Nat) (h : out.length = 4) : classBits out ≤ 32 := by
  unfold classBits
  simp only [h]
  split <;> (try split) <;> (try split) <;> (try split) <;> (try split) <;> (try split) <;> omega

/-- the decimal branch of `ares_inet_net_pton_ipv4` when the octet loop ends at the terminator -/
theorem netPton4_dec (ch : Nat) (src : Bytes) (size0 size : Nat) (out : List Nat)
    (hd : isDigit ch = true) (hnx : src.headD 0 ≠ 120 ∧ src.headD 0 ≠ 88)
    (hr : decOctets ((ch :: src).length + 1) ch src size0 [] = .ok (0, [], size, out))
    (hne : out ≠ []) (hfit : (classBits out + 7) / 8 ≤ out.length + size) :
    netPton4 (ch :: src) size0 = .ok (classBits out, padTo size0 out) := by
  unfold netPton4
  simp only [List.headD_cons, List.drop_succ_cons, List.drop_zero]
  have h1 : (ch == 48 && (src.headD 0 == 120 || src.headD 0 == 88) &&
      isXDigit ((List.drop 1 src).headD 0)) = false := by
    rw [beq_false_of_ne hnx.1, beq_false_of_ne hnx.2]
    simp only [Bool.or_self, Bool.and_false, Bool.false_and]
  rw [h1]
  simp only [Bool.false_eq_true, ↓reduceIte, hd, hr]
  have hne' : out.isEmpty = false := by cases out <;> simp_all
  simp only [show ((0:Nat) == 47) = false by decide, Bool.false_and, Bool.false_eq_true, ↓reduceIte, ne_eq,
    not_true_eq_false, hne']
  have : ¬ ((classBits out + 7) / 8 > out.length + size) := by omega
  simp [this]

/-- IPv4: parsing the rendered address gives the address back -/
theorem pton4_ntop4 (a b c d : Nat) (ha : a < 256) (hb : b < 256) (hc : c < 256) (hd : d < 256) :
    pton4 (ntop4 [a, b, c, d]) = some [a, b, c, d] := by
  obtain ⟨a0, as, ea, da, ax, aX, arest⟩ := showDec_ne_nil a ha
  obtain ⟨b0, bs, eb, db, _⟩ := showDec_ne_nil b hb
  obtain ⟨c0, cs, ec, dc, _⟩ := showDec_ne_nil c hc
  obtain ⟨d0, dds, ed, dd, _⟩ := showDec_ne_nil d hd
  have hsrc : ntop4 [a, b, c, d] = a0 :: (as ++ 46 :: b0 :: (bs ++ 46 :: c0 :: (cs ++ 46 :: d0 :: (dds ++ [])))) := by
    simp [ntop4, ea, eb, ec, ed]
  have hnx : (as ++ 46 :: b0 :: (bs ++ 46 :: c0 :: (cs ++ 46 :: d0 :: (dds ++ [])))).headD 0 ≠ 120 ∧
             (as ++ 46 :: b0 :: (bs ++ 46 :: c0 :: (cs ++ 46 :: d0 :: (dds ++ [])))).headD 0 ≠ 88 := by
    cases as with
    | nil => simp
    | cons x xs => simpa using arest x (by simp)
  have hfuel : ∃ f, (a0 :: (as ++ 46 :: b0 :: (bs ++ 46 :: c0 :: (cs ++ 46 :: d0 :: (dds ++ []))))).length + 1 = f + 1 + 1 + 1 + 1 := by
    refine ⟨as.length + bs.length + cs.length + dds.length + 4, ?_⟩
    simp only [List.length_cons, List.length_append, List.length_nil]; omega
  obtain ⟨f, hf⟩ := hfuel
  have hloop : decOctets ((a0 :: (as ++ 46 :: b0 :: (bs ++ 46 :: c0 :: (cs ++ 46 :: d0 :: (dds ++ []))))).length + 1) a0
      (as ++ 46 :: b0 :: (bs ++ 46 :: c0 :: (cs ++ 46 :: d0 :: (dds ++ [])))) 4 [] = .ok (0, [], 0, [a, b, c, d]) := by
    rw [hf, decOctets_dot _ a ha 4 (by decide) [] b0 _ db a0 as ea,
        decOctets_dot _ b hb 3 (by decide) _ c0 _ dc b0 bs eb,
        decOctets_dot _ c hc 2 (by decide) _ d0 _ dd c0 cs ec,
        decOctets_end _ d hd 1 (by decide) _ d0 dds ed]
    rfl
  unfold pton4
  rw [hsrc, netPton4_dec a0 _ 4 0 [a, b, c, d] da hnx hloop (by simp)
      (by have := classBits_le [a, b, c, d] rfl; simp only [List.length_cons, List.length_nil]; omega)]
  rfl

/-- `ares_dns_pton(AF_UNSPEC)` of a rendered IPv4 address -/
theorem dnsPton_ntop_v4 (a b c d : Nat) (ha : a < 256) (hb : b < 256) (hc : c < 256) (hd : d < 256) :
    dnsPton .unspec (ntop (.v4 [a, b, c, d])) = some (.v4 [a, b, c, d]) := by
  have h := pton4_ntop4 a b c d ha hb hc hd
  unfold pton4 at h
  unfold dnsPton ntop
  simp only
  split at h
  · simp only [Option.some.injEq] at h
    simp [h]
  · simp at h

end Cares.Text
