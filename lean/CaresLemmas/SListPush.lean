import CaresLemmas.SListLevel
/-! Helper lemmas for the skip-list model, part 2: push and pop over all levels. -/
namespace Cares.Dsa.SList

/-- what ares_slist_node_push amounts to: every level below the node's level count gets the node at its sorted
    position, the levels above are untouched -/
def pushSpec (key : Nat → Nat) (k n nl : Nat) : List (List Nat) → List (List Nat)
  | [] => []
  | l :: below => (if below.length ≥ nl then l else specInsert key k n l) :: pushSpec key k n nl below

/-- every level is sorted and duplicate free -/
def AllGood (key : Nat → Nat) (lv : List (List Nat)) : Prop := ∀ l ∈ lv, Sorted key l ∧ l.Nodup

theorem subChain_tail {hi : List Nat} {rest : List (List Nat)} (h : SubChain (hi :: rest)) : SubChain rest := by
  cases rest with
  | nil => trivial
  | cons lo r => exact h.2

/-- every level is a sub-list of level 0 -/
theorem sublist_level0 (lv : List (List Nat)) (h : SubChain lv) : ∀ l ∈ lv, l.Sublist (lv.getLast?.getD []) := by
  induction lv with
  | nil => intro l hl; simp at hl
  | cons hi rest ih =>
    intro l hl
    cases rest with
    | nil =>
      simp only [List.mem_singleton] at hl
      subst hl; simp
    | cons lo r =>
      have ih' := ih h.2
      rw [List.getLast?_cons_cons]
      rcases List.mem_cons.1 hl with rfl | hl
      · exact h.1.trans (ih' lo List.mem_cons_self)
      · exact ih' l hl

theorem allGood_of_level0 (key : Nat → Nat) (lv : List (List Nat)) (h : SubChain lv)
    (hs : Sorted key (lv.getLast?.getD [])) (hn : (lv.getLast?.getD []).Nodup) : AllGood key lv := by
  intro l hl
  have := sublist_level0 lv h l hl
  exact ⟨hs.sublist this, hn.sublist this⟩

/-- the level loop of ares_slist_node_push computes `pushSpec`, whatever `left` it is started with (as long
    as that is a node of the top level with a smaller key) -/
theorem pushLevels_eq (key : Nat → Nat) (k n nl : Nat) (lv : List (List Nat)) (left : Option Nat)
    (hg : AllGood key lv) (hsub : SubChain lv)
    (hleft : ∀ x, left = some x → ∀ l, lv.head? = some l → x ∈ l ∧ key x < k) :
    pushLevels key k n nl lv left = pushSpec key k n nl lv := by
  induction lv generalizing left with
  | nil => rfl
  | cons l below ih =>
    obtain ⟨hs, hnd⟩ := hg l List.mem_cons_self
    obtain ⟨e1, e2⟩ := level_step key k n l hs hnd left (fun x hx => hleft x hx l rfl)
    unfold pushLevels pushSpec
    simp only
    rw [e1]
    congr 1
    apply ih _ (fun l' hl' => hg l' (List.mem_cons_of_mem _ hl')) (subChain_tail hsub)
    intro y hy lo hlo
    cases below with
    | nil => simp at hlo
    | cons lo' r =>
      simp only [List.head?_cons, Option.some.injEq] at hlo
      subst hlo
      obtain ⟨m1, m2⟩ := e2 y hy
      exact ⟨hsub.1.subset m1, m2⟩

theorem pushSpec_length (key : Nat → Nat) (k n nl : Nat) (lv : List (List Nat)) :
    (pushSpec key k n nl lv).length = lv.length := by
  induction lv with
  | nil => rfl
  | cons l below ih => simp [pushSpec, ih]

theorem pushSpec_getLast (key : Nat → Nat) (k n nl : Nat) (lv : List (List Nat)) (hnl : 1 ≤ nl) :
    (pushSpec key k n nl lv).getLast?.getD [] = if lv = [] then [] else specInsert key k n (lv.getLast?.getD []) := by
  induction lv with
  | nil => rfl
  | cons l below ih =>
    cases below with
    | nil =>
      simp only [pushSpec, List.length_nil, ge_iff_le, Nat.le_zero_eq]
      rw [if_neg (by omega)]
      simp
    | cons lo r =>
      rw [pushSpec, List.getLast?_cons_cons]
      rw [show pushSpec key k n nl (lo :: r) = (if r.length ≥ nl then lo else specInsert key k n lo) :: pushSpec key k n nl r from rfl,
        List.getLast?_cons_cons]
      rw [show pushSpec key k n nl (lo :: r) = (if r.length ≥ nl then lo else specInsert key k n lo) :: pushSpec key k n nl r from rfl] at ih
      rw [ih]
      simp

theorem sublist_specInsert (key : Nat → Nat) (k n : Nat) (l : List Nat) : l.Sublist (specInsert key k n l) := by
  rw [specInsert_eq]
  conv => lhs; rw [← List.takeWhile_append_dropWhile (p := Lt key k) (l := l)]
  exact List.Sublist.append (List.Sublist.refl _) (List.sublist_cons_self _ _)

theorem specInsert_sublist (key : Nat → Nat) (k n : Nat) (hi lo : List Nat) (h : hi.Sublist lo)
    (hs1 : Sorted key hi) (hs2 : Sorted key lo) : (specInsert key k n hi).Sublist (specInsert key k n lo) := by
  rw [specInsert_eq, specInsert_eq, (takeWhile_eq_filter key k hi hs1).1, (takeWhile_eq_filter key k hi hs1).2,
    (takeWhile_eq_filter key k lo hs2).1, (takeWhile_eq_filter key k lo hs2).2]
  exact List.Sublist.append (h.filter _) ((h.filter _).cons_cons n)

theorem pushSpec_subChain (key : Nat → Nat) (k n nl : Nat) (lv : List (List Nat)) (hg : AllGood key lv)
    (hsub : SubChain lv) : SubChain (pushSpec key k n nl lv) := by
  induction lv with
  | nil => trivial
  | cons hi rest ih =>
    cases rest with
    | nil => trivial
    | cons lo r =>
      have ih' := ih (fun l' hl' => hg l' (List.mem_cons_of_mem _ hl')) hsub.2
      rw [show pushSpec key k n nl (hi :: lo :: r) =
        (if (lo :: r).length ≥ nl then hi else specInsert key k n hi) ::
        (if r.length ≥ nl then lo else specInsert key k n lo) :: pushSpec key k n nl r from rfl]
      rw [show pushSpec key k n nl (lo :: r) = (if r.length ≥ nl then lo else specInsert key k n lo) :: pushSpec key k n nl r from rfl] at ih'
      refine ⟨?_, ih'⟩
      have hs1 := (hg hi List.mem_cons_self).1
      have hs2 := (hg lo (List.mem_cons_of_mem _ List.mem_cons_self)).1
      simp only [List.length_cons]
      by_cases h1 : r.length ≥ nl
      · rw [if_pos (by omega), if_pos h1]; exact hsub.1
      · rw [if_neg h1]
        by_cases h2 : r.length + 1 ≥ nl
        · rw [if_pos h2]; exact hsub.1.trans (sublist_specInsert key k n lo)
        · rw [if_neg h2]; exact specInsert_sublist key k n hi lo hsub.1 hs1 hs2

theorem mem_specInsert (key : Nat → Nat) (k n : Nat) (l : List Nat) (x : Nat) :
    x ∈ specInsert key k n l ↔ x = n ∨ x ∈ l := by
  rw [specInsert_eq, List.mem_append, List.mem_cons]
  conv => rhs; rw [← List.takeWhile_append_dropWhile (p := Lt key k) (l := l), List.mem_append]
  constructor
  · rintro (h | h | h)
    · exact Or.inr (Or.inl h)
    · exact Or.inl h
    · exact Or.inr (Or.inr h)
  · rintro (h | h | h)
    · exact Or.inr (Or.inl h)
    · exact Or.inl h
    · exact Or.inr (Or.inr h)

theorem pushSpec_levelsOk (key : Nat → Nat) (k n nl : Nat) (nlv : Nat → Nat) (lv : List (List Nat))
    (h : LevelsOk nlv lv) (hn : nlv n = nl) (hfresh : ∀ l ∈ lv, n ∉ l) :
    LevelsOk nlv (pushSpec key k n nl lv) := by
  induction lv with
  | nil => trivial
  | cons l below ih =>
    refine ⟨?_, ih h.2 (fun l' hl' => hfresh l' (List.mem_cons_of_mem _ hl'))⟩
    intro x hx
    rw [pushSpec_length]
    by_cases hb : below.length ≥ nl
    · rw [if_pos hb] at hx; exact h.1 x hx
    · rw [if_neg hb, mem_specInsert] at hx
      rcases hx with hx | hx
      · subst hx; omega
      · exact h.1 x hx

theorem levelsOk_congr (nlv nlv' : Nat → Nat) (lv : List (List Nat)) (h : LevelsOk nlv lv)
    (he : ∀ l ∈ lv, ∀ x ∈ l, nlv' x = nlv x) : LevelsOk nlv' lv := by
  induction lv with
  | nil => trivial
  | cons l below ih =>
    refine ⟨?_, ih h.2 (fun l' hl' => he l' (List.mem_cons_of_mem _ hl'))⟩
    intro x hx
    rw [he l List.mem_cons_self x hx]; exact h.1 x hx

theorem sorted_congr (key key' : Nat → Nat) (l : List Nat) (h : Sorted key l) (he : ∀ x ∈ l, key' x = key x) :
    Sorted key' l := by
  unfold Sorted at *
  induction l with
  | nil => exact List.Pairwise.nil
  | cons a l ih =>
    have hp := List.pairwise_cons.1 h
    refine List.pairwise_cons.2 ⟨?_, ih hp.2 (fun x hx => he x (List.mem_cons_of_mem _ hx))⟩
    intro b hb
    rw [he a List.mem_cons_self, he b (List.mem_cons_of_mem _ hb)]
    exact hp.1 b hb

theorem specInsert_congr (key key' : Nat → Nat) (k n : Nat) (l : List Nat) (he : ∀ x ∈ l, key' x = key x) :
    specInsert key' k n l = specInsert key k n l := by
  unfold specInsert
  have : ∀ l' : List Nat, (∀ x ∈ l', key' x = key x) →
      l'.takeWhile (fun x => decide (key' x < k)) = l'.takeWhile (fun x => decide (key x < k)) ∧
      l'.dropWhile (fun x => decide (key' x < k)) = l'.dropWhile (fun x => decide (key x < k)) := by
    intro l'
    induction l' with
    | nil => intro _; exact ⟨rfl, rfl⟩
    | cons a r ih =>
      intro h
      obtain ⟨i1, i2⟩ := ih (fun x hx => h x (List.mem_cons_of_mem _ hx))
      simp only [List.takeWhile_cons, List.dropWhile_cons, h a List.mem_cons_self, i1, i2]
      exact ⟨trivial, trivial⟩
  obtain ⟨a, b⟩ := this l he
  rw [a, b]

/-- linking a node at its sorted position keeps the list sorted -/
theorem sorted_specInsert (key : Nat → Nat) (k n : Nat) (l : List Nat) (hs : Sorted key l) (hk : key n = k) :
    Sorted key (specInsert key k n l) := by
  rw [specInsert_eq]
  unfold Sorted
  have htd := List.takeWhile_append_dropWhile (p := Lt key k) (l := l)
  rw [List.pairwise_append]
  have hs' : List.Pairwise (fun a b => key a ≤ key b) (l.takeWhile (Lt key k) ++ l.dropWhile (Lt key k)) := by
    rw [htd]; exact hs
  rw [List.pairwise_append] at hs'
  refine ⟨hs'.1, ?_, ?_⟩
  · refine List.pairwise_cons.2 ⟨?_, hs'.2.1⟩
    intro b hb
    rw [(takeWhile_eq_filter key k l hs).2, List.mem_filter] at hb
    have := hb.2
    simp only [Lt, Bool.not_eq_eq_eq_not, Bool.not_true, decide_eq_false_iff_not, Nat.not_lt] at this
    omega
  · intro a ha b hb
    have hak := mem_takeWhile_pos _ _ _ ha
    simp only [Lt, decide_eq_true_eq] at hak
    rcases List.mem_cons.1 hb with rfl | hb
    · omega
    · exact hs'.2.2 a ha b hb

theorem length_specInsert (key : Nat → Nat) (k n : Nat) (l : List Nat) : (specInsert key k n l).length = l.length + 1 := by
  rw [specInsert_eq, List.length_append, List.length_cons]
  have := congrArg List.length (List.takeWhile_append_dropWhile (p := Lt key k) (l := l))
  rw [List.length_append] at this
  omega

theorem nodup_specInsert (key : Nat → Nat) (k n : Nat) (l : List Nat) (hn : l.Nodup) (hf : n ∉ l) :
    (specInsert key k n l).Nodup := by
  have hp : (specInsert key k n l).Perm (n :: l) := by
    rw [specInsert_eq]
    refine List.perm_middle.trans (List.Perm.cons n ?_)
    rw [List.takeWhile_append_dropWhile]
  exact hp.nodup_iff.2 (List.nodup_cons.2 ⟨hf, hn⟩)

/-- the last node after linking: the new node if nothing is left behind it, the old last node otherwise -/
theorem getLast_specInsert (key : Nat → Nat) (k n : Nat) (l : List Nat) (old : Option Nat)
    (hold : old = l.getLast?) :
    (if (specInsert key k n l).getLast? = some n then some n else old) = (specInsert key k n l).getLast? := by
  by_cases h : (specInsert key k n l).getLast? = some n
  · rw [if_pos h, h]
  · rw [if_neg h, hold]
    rw [specInsert_eq] at h ⊢
    cases hd : l.dropWhile (Lt key k) with
    | nil => rw [hd] at h; simp at h
    | cons d r =>
      have htd := List.takeWhile_append_dropWhile (p := Lt key k) (l := l)
      rw [hd] at htd
      conv => lhs; rw [← htd]
      rw [List.getLast?_append, List.getLast?_append, List.getLast?_cons_cons]

end Cares.Dsa.SList
