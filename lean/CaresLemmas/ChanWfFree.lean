import CaresLemmas.ChanWfDetach
/-!
# C01 — releasing a query (`freeQuery` = `detach` + removal from the store)
-/
namespace Cares.Chan

def Sk.dropQ (a : Sk) (k : Nat) : Sk := { a with qs := a.qs.filter (·.key != k) }

theorem Sk.freeQuery_eq (a : Sk) (k : Nat) : a.freeQuery k = (a.detach k).dropQ k := rfl

theorem mem_proj_dropQ {β} (a : Sk) (k : Nat) (g : QSk → β) {x : Nat} {v : β} :
    (x, v) ∈ (a.dropQ k).qs.map (fun e => (e.key, g e)) ↔ (x, v) ∈ a.qs.map (fun e => (e.key, g e)) ∧ x ≠ k := by
  simp only [Sk.dropQ, List.mem_map, List.mem_filter, bne_iff_ne, Prod.mk.injEq]
  constructor
  · rintro ⟨e, ⟨he, hne⟩, rfl, rfl⟩; exact ⟨⟨e, he, rfl, rfl⟩, hne⟩
  · rintro ⟨⟨e, he, rfl, rfl⟩, hne⟩; exact ⟨e, ⟨he, hne⟩, rfl, rfl⟩

theorem mem_proj_dropQ' {β} (a : Sk) (k : Nat) (g : QSk → β) {p : Nat × β} :
    p ∈ (a.dropQ k).qs.map (fun e => (e.key, g e)) ↔ p ∈ a.qs.map (fun e => (e.key, g e)) ∧ p.1 ≠ k :=
  mem_proj_dropQ a k g (x := p.1) (v := p.2)

section
variable {a : Sk} {k : Nat}

theorem dropQ_qK_sub : (a.dropQ k).qK.Sublist a.qK := by
  unfold Sk.qK Sk.dropQ; exact List.Sublist.map _ List.filter_sublist

theorem wf_dropQ (h : WfS a none) (hk : k ∉ a.idx) (hc : ∀ fd, (k, some fd) ∉ a.qKC) : WfS (a.dropQ k) none := by
  have mC : ∀ {p : Nat × Option Nat}, p ∈ (a.dropQ k).qKC ↔ p ∈ a.qKC ∧ p.1 ≠ k := mem_proj_dropQ' a k _
  have mQ : ∀ {p : Nat × Nat}, p ∈ (a.dropQ k).qKQ ↔ p ∈ a.qKQ ∧ p.1 ≠ k := mem_proj_dropQ' a k _
  have mO : ∀ {p : Nat × Owner}, p ∈ (a.dropQ k).qKO ↔ p ∈ a.qKO ∧ p.1 ≠ k := mem_proj_dropQ' a k _
  have ne_of_idx : ∀ x, x ∈ a.idx → x ≠ k := fun x hx he => hk (he ▸ hx)
  refine ⟨⟨dropQ_qK_sub.nodup h.q.nodup, fun x hx => h.q.lt x (dropQ_qK_sub.subset hx)⟩, ?_, ?_, ?_, h.s, h.k, ?_⟩
  · refine ⟨fun p hp => ?_, h.i.allNodup, h.i.allIdx, h.i.lcOk, h.i.disj, h.i.nl⟩
    exact mQ.mpr ⟨h.i.qidLive p hp, ne_of_idx _ (List.mem_map.mpr ⟨p, hp, rfl⟩)⟩
  · refine ⟨h.t.btNodup, fun x hx => ?_, h.t.poNodup, fun x hx => ?_⟩
    · obtain ⟨hi, fd, hm⟩ := h.t.btOk x hx
      exact ⟨hi, fd, mC.mpr ⟨hm, ne_of_idx x hi⟩⟩
    · obtain ⟨hi, ⟨fd, hm⟩, hb⟩ := h.t.poOk x hx
      exact ⟨hi, ⟨fd, mC.mpr ⟨hm, ne_of_idx x hi⟩⟩, hb⟩
  · refine ⟨h.c.nodup, h.c.lt, h.c.sock, h.c.qNodup, fun c hcm x hx => ?_, fun p hp => h.c.qc p (mC.mp hp).1⟩
    obtain ⟨hi, hm⟩ := h.c.cq c hcm x hx
    exact ⟨hi, mC.mpr ⟨hm, ne_of_idx x hi⟩⟩
  · exact h.tok.shrink (fun p hp => (mO.mp hp).1) (fun _ hx => hx)

theorem subs_dropQ (hk : k ∉ a.idx) (id : Nat) : (a.dropQ k).subs id = a.subs id := by
  unfold Sk.subs subsP Sk.qKO Sk.dropQ
  show List.countP _ ((a.qs.filter _).map _) = List.countP _ (a.qs.map _)
  rw [List.countP_map, List.countP_map, List.countP_filter]
  apply List.countP_congr
  intro e _
  simp only [Function.comp, Bool.and_eq_true, decide_eq_true_eq, bne_iff_ne]
  constructor
  · rintro ⟨h1, _⟩; exact h1
  · rintro ⟨h1, h2⟩; exact ⟨⟨h1, h2⟩, fun he => hk (he ▸ h1)⟩

theorem debt_dropQ {x d} (h : DebtOk x d a) (hk : k ∉ a.idx) : DebtOk x d (a.dropQ k) :=
  ⟨h.fresh, fun c hc hp hx => by rw [subs_dropQ hk]; exact h.cnt c hc hp hx⟩

theorem step_dropQ {xf xi d} (hk : k ∉ a.idx) : StepS xf xi d a (a.dropQ k) where
  faults := rfl
  kMono := Nat.le_refl _
  keyMono := Nat.le_refl _
  idxNew := fun _ h => Or.inl h
  unl := fun _ q h _ => ⟨q, h, fun _ hx => hx⟩
  orphan := fun _ _ _ hn => hn.shrink (fun _ hp => ((mem_proj_dropQ' a k _).mp hp).1) (fun _ hx => hx)
  debtAlive := fun _ ha _ => ha
  prog := {
    doneMono := fun _ h => h
    lcRel := forall2_sub_refl _
    allNew := fun _ h => Or.inl h
    keysLt := fun hl p hp => hl p ((mem_proj_dropQ' a k _).mp hp).1
    ownKeep := fun _ p hp hpi => (mem_proj_dropQ' a k _).mpr ⟨hp, fun he => hk (he ▸ hpi)⟩
    done6 := fun _ _ _ hpi hn => absurd hpi hn }

theorem ownerFree_dropQ {o : Owner} (h : a.OwnerFree o) : (a.dropQ k).OwnerFree o := by
  cases o with
  | probe => trivial
  | user tok => exact ⟨h.1, fun p hp => h.2.1 p ((mem_proj_dropQ' a k _).mp hp).1, h.2.2⟩
  | client id => exact h

theorem debtFor_dropQ {d} {o : Owner} (h : a.DebtFor d o) (hk : k ∉ a.idx) : (a.dropQ k).DebtFor d o := by
  cases o <;> exact debt_dropQ h hk

end

/-! ### `freeQuery` -/

section
variable {a : Sk} {k : Nat}

theorem detach_none (hq : a.q? k = none) : a.detach k = a := by unfold Sk.detach; rw [hq]

theorem not_idx_of_dead (h : WfS a none) (hq : a.q? k = none) : k ∉ a.idx := fun hk => by
  obtain ⟨e, he⟩ := h.live_of_idx hk
  rw [hq] at he; cases he

theorem no_conn_of_dead (hq : a.q? k = none) : ∀ fd, (k, some fd) ∉ a.qKC := by
  intro fd hm
  obtain ⟨e, he, hke⟩ := List.mem_map.mp hm
  simp only [Prod.mk.injEq] at hke
  exact Sk.q?_none hq e he hke.1

theorem no_conn_detach {hole} {e : QSk} (hq : a.q? k = some e) (_h : WfS a hole) :
    ∀ fd, (k, some fd) ∉ (a.detach k).qKC := by
  intro fd hm
  have : (a.detach k).qKC = (a.removeFromConn k).qKC := by unfold Sk.qKC; rw [(detach_same hq).1]
  rw [this, rfc_qKC hq] at hm
  rcases mem_map_ifkey.mp hm with ⟨_, h2⟩ | ⟨h1, _⟩
  · exact h2 rfl
  · cases h1

/-- releasing any query keeps the invariant -/
theorem wf_freeQuery (h : WfS a none) : WfS (a.freeQuery k) none := by
  rw [Sk.freeQuery_eq]
  cases hq : a.q? k with
  | none => rw [detach_none hq]; exact wf_dropQ h (not_idx_of_dead h hq) (no_conn_of_dead hq)
  | some e =>
    exact wf_dropQ (wf_detach h (Or.inl rfl) hq) (not_idx_detach h hq) (no_conn_detach hq h)

/-- the token in flight after releasing `k` -/
def freeTok (a : Sk) (k : Nat) : Option Nat :=
  match a.q? k with
  | some e => ownerTok e.owner
  | none => none

theorem step_freeQuery {xf xi d} (h : WfS a none) : StepT xf xi (freeTok a k) d a (a.freeQuery k) := by
  rw [Sk.freeQuery_eq]
  unfold freeTok
  cases hq : a.q? k with
  | none => rw [detach_none hq]; exact step_dropQ (not_idx_of_dead h hq)
  | some e => exact (step_detach h hq).trans (step_dropQ (not_idx_detach h hq)).toT

/-- releasing a query that is not linked (the query whose callback has just run, in `end_query`) does not
    change any count -/
theorem debt_freeQuery_unlinked {x d} (h : WfS a none) (hk : k ∉ a.idx) (hd : DebtOk x d a) :
    DebtOk x d (a.freeQuery k) := by
  rw [Sk.freeQuery_eq]
  cases hq : a.q? k with
  | none => rw [detach_none hq]; exact debt_dropQ hd hk
  | some e =>
    have hs := detach_same hq
    have hi : (a.detach k).idx = a.idx := by
      unfold Sk.idx; rw [hs.2.2.2.2.2.2.2.2.2.2.2.2.2.2.2.2]
      congr 1
      apply List.filter_eq_self.mpr
      intro p hp
      simp only [Bool.not_eq_true', Bool.and_eq_false_iff, beq_eq_false_iff_ne]
      exact Or.inr (fun he => hk (List.mem_map.mpr ⟨p, hp, he⟩))
    have hd' : DebtOk x d (a.detach k) :=
      hd.congr hs.2.2.2.2.2.2.2.2.2.1 (detach_qKO hq) hi hs.2.2.2.2.2.1 hs.2.2.2.2.2.2.2.2.2.2.2.1
    exact debt_dropQ hd' (not_idx_detach h hq)

/-- releasing a linked query (cancel / destroy walk): its owner's callback can be handed over -/
theorem owner_freeQuery {d} {e : QSk} (h : WfS a none) (hq : a.q? k = some e) (hk : k ∈ a.idx)
    (hd : DebtOk none d a) : (a.freeQuery k).OwnerFree e.owner ∧ (a.freeQuery k).DebtFor d e.owner := by
  rw [Sk.freeQuery_eq]
  obtain ⟨h1, h2⟩ := owner_detach h hq hk hd
  exact ⟨ownerFree_dropQ h1, debtFor_dropQ h2 (not_idx_detach h hq)⟩

end

end Cares.Chan
