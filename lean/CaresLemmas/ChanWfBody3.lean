import CaresLemmas.ChanWfBody2
import CaresLemmas.ChanWfNewQ
/-!
# C01 — body lemmas III: `sendNolock`, `probe`, `flush`
-/
namespace Cares.Chan

/-- the result of a sub-call is the result of the procedure (tail call, or the state part of it) -/
theorem Good.tail {d c c' s s1} {r : St × Ret} {ret : Ret} (hg : GoodO d c' s1 r)
    (hs : StepS (exFd c) (exId c) d s.sk s1.sk)
    (hf : exFd c' = none ∨ exFd c' = exFd c) (hi : exId c' = none ∨ exId c' = exId c)
    (hp : Post s (r.1, ret) c) : GoodO d c s (r.1, ret) := by
  rcases hg with hoof | hg
  · exact Or.inl hoof
  · exact Or.inr ⟨hg.wf, hg.debt, hs.trans (hg.step.weaken hf hi (fun _ => Nat.le_refl _)), hp⟩

theorem Good.tail' {d c c' s s1} {r : St × Ret} (hg : GoodO d c' s1 r)
    (hs : StepS (exFd c) (exId c) d s.sk s1.sk)
    (hf : exFd c' = none ∨ exFd c' = exFd c) (hi : exId c' = none ∨ exId c' = exId c)
    (hp : Good d c' s1 r → Post s r c) : GoodO d c s r := by
  rcases hg with hoof | hg
  · exact Or.inl hoof
  · exact Or.inr ⟨hg.wf, hg.debt, hs.trans (hg.step.weaken hf hi (fun _ => Nat.le_refl _)), hp hg⟩

theorem exId_sendNolock (a b c e o r) : exId (.sendNolock a b c e o r) = ownerId o := by cases o <;> rfl

theorem sk_addQuery_st (s : St) (nk qid : Nat) (q : Query) (hnk : nk = s.nextKey) (hk : q.key = nk)
    (hc : q.conn = none) (hq : q.qid = qid) :
    ({ s with lastQid := qid, nextKey := nk + 1, qs := s.qs ++ [q], all := s.all ++ [nk],
              byQid := s.byQid ++ [(qid, nk)] } : St).sk = s.sk.addQuery qid q.owner := by
  subst hnk
  unfold St.sk Sk.addQuery
  simp only [List.map_append, List.map_cons, List.map_nil, Sk.mk.injEq, true_and, and_true]
  unfold Query.sk
  rw [hk, hc, hq]

theorem good_sendNolock {go} (hgo : GoOk go) {d reqSrv nocache noretry spec owner react s}
    (hpre : Pre d s (.sendNolock reqSrv nocache noretry spec owner react)) :
    GoodO d (.sendNolock reqSrv nocache noretry spec owner react) s
      (bodySendNolock go reqSrv nocache noretry spec owner react s) := by
  obtain ⟨hw, hof, hdf⟩ := hpre
  unfold bodySendNolock
  have hsk0 := sk_genQid 70000 s
  generalize genQid 70000 s = r0 at hsk0
  obtain ⟨qid, s0⟩ := r0
  simp only at hsk0 ⊢
  have hw0 : Wf s0 := Wf.of_sk_eq hsk0 hw
  -- the early-failure paths hand the callback over in a state with the same skeleton
  have early : ∀ (s1 : St) (st : Status) (rec : Option Reply) (ret : Ret), s1.sk = s.sk →
      GoodO d (.sendNolock reqSrv nocache noretry spec owner react) s
        ((go (.callback owner react st 0 rec) s1).1, ret) := by
    intro s1 st rec ret h1
    have hg := hgo.2 d (.callback owner react st 0 rec) s1
      ⟨Wf.of_sk_eq h1 hw, by rw [h1]; exact hof, by rw [h1]; exact hdf⟩
    refine Good.tail hg (by rw [h1]; exact StepS.refl _ _ _ _) (Or.inl rfl) (Or.inr ?_) trivial
    rw [exId_callback, exId_sendNolock]
  split
  · exact early s0 _ _ _ hsk0
  · have hsk1 : (if nocache = true then s0 else s0.cacheExpire).sk = s.sk := by
      split
      · exact hsk0
      · rw [sk_cacheExpire]; exact hsk0
    generalize (if nocache = true then s0 else s0.cacheExpire) = s1 at hsk1
    split
    · exact early s1 _ _ _ hsk1
    · split
      · exact early s1 _ _ _ hsk1
      · -- the query is created
        have hsk2 : (if (s1.cfg.dns0x20 && !s1.cfg.usevc && decide (nameTextLen (normEscapes (stripDot spec.name)) > 0)) = true then
              if ((nameTextLen (normEscapes (stripDot spec.name)) + 7) / 8 == 1) = true then s1.draw1.2
              else if ((nameTextLen (normEscapes (stripDot spec.name)) + 7) / 8 == 2) = true then s1.draw2.2 else s1
            else s1).sk = s.sk := by
          split
          · split
            · rw [sk_draw1]; exact hsk1
            · split
              · rw [sk_draw2]; exact hsk1
              · exact hsk1
          · exact hsk1
        have hnk1 : s1.nextKey = s.sk.nextKey := by rw [← hsk1]; rfl
        rw [show s1.nextKey = s.sk.nextKey from hnk1]
        generalize (if (s1.cfg.dns0x20 && !s1.cfg.usevc && decide (nameTextLen (normEscapes (stripDot spec.name)) > 0)) = true then
              if ((nameTextLen (normEscapes (stripDot spec.name)) + 7) / 8 == 1) = true then s1.draw1.2
              else if ((nameTextLen (normEscapes (stripDot spec.name)) + 7) / 8 == 2) = true then s1.draw2.2 else s1
            else s1) = s2 at hsk2
        have hnk2 : s.sk.nextKey = s2.nextKey := by rw [← hsk2]; rfl
        have hsk3 := sk_addQuery_st s2 s.sk.nextKey qid
          { key := s.sk.nextKey, qid := qid, owner := owner, react := react,
            name := normEscapes (stripDot spec.name), qtype := spec.qtype, qclass := spec.qclass, rd := spec.rd,
            edns := spec.edns, usingTcp := s1.cfg.usevc, noRetries := noretry } hnk2 rfl rfl rfl
        rw [hsk2] at hsk3
        simp only at hsk3
        have hg := hgo.2 d (.sendQuery reqSrv s.sk.nextKey) _
          ⟨by unfold Wf; rw [hsk3]; exact wf_addQuery hw hof, by rw [hsk3]; exact idx_addQuery,
           by rw [hsk3]; exact debt_addQuery hw hof hdf⟩
        exact Good.tail' hg (by rw [hsk3, exId_sendNolock]; exact step_addQuery hw) (Or.inl rfl) (Or.inl rfl)
          (fun _ => trivial)

theorem Good.of_sk_eq {d c s s1} {ret : Ret} (hw : Wf s) (hd : DebtOk none d s.sk) (h : s1.sk = s.sk)
    (hp : Post s (s1, ret) c) : GoodO d c s (s1, ret) :=
  Or.inr ⟨Wf.of_sk_eq h hw, by rw [h]; exact hd, by rw [h]; exact StepS.refl _ _ _ _, hp⟩

/-! ### `probe` -/

theorem good_probe {go} (hgo : GoOk go) {d srvId key s} (hpre : Pre d s (.probe srvId key)) :
    GoodO d (.probe srvId key) s (bodyProbe go srvId key s) := by
  obtain ⟨hw, hd⟩ := hpre
  unfold bodyProbe
  split
  · exact Good.of_sk_eq hw hd rfl trivial
  · simp only
    split
    · exact Good.of_sk_eq hw hd rfl trivial
    · split
      · exact Good.of_sk_eq hw hd rfl trivial
      · have hsk0 := sk_draw2 s
        generalize s.draw2 = r0 at hsk0
        obtain ⟨rnd, s0⟩ := r0
        simp only at hsk0 ⊢
        split
        · exact Good.of_sk_eq hw hd hsk0 trivial
        · split
          · exact Good.of_sk_eq hw hd hsk0 trivial
          · split
            · exact Good.of_sk_eq hw hd hsk0 trivial
            · rename_i pv _ _
              have hsk1 : (s0.modServer pv.id fun v => { v with probePending := true }).sk = s.sk := by
                rw [sk_modServer_same]; exact hsk0; intro; rfl
              generalize (s0.modServer pv.id fun v => { v with probePending := true }) = s1 at hsk1
              refine Good.tail (hgo.2 d _ _ ?_) (by rw [hsk1]; exact StepS.refl _ _ _ _) (Or.inl rfl) (Or.inl rfl) trivial
              exact ⟨Wf.of_sk_eq hsk1 hw, trivial, by rw [hsk1]; exact hd⟩

/-! ### `flush` -/

@[simp] theorem sk_modConn_out (s : St) (fd : Nat) (x : List OutFrame) :
    (s.modConn fd fun c => { c with out := x }).sk = s.sk := by
  rw [sk_modConn_same]; intro; rfl

theorem Good.flush_same {d fd s s1} {ret : Ret} (hw : Wf s) (hd : DebtOk none d s.sk) (h : s1.sk = s.sk) :
    GoodO d (.flush fd) s (s1, ret) :=
  Or.inr ⟨Wf.of_sk_eq h hw, by rw [h]; exact hd, by rw [h]; exact StepS.refl _ _ _ _, h⟩

theorem good_flush {go} (hgo : GoOk go) {d fd s} (hpre : Pre d s (.flush fd)) :
    GoodO d (.flush fd) s (bodyFlush go fd s) := by
  obtain ⟨hw, hl, hd⟩ := hpre
  unfold bodyFlush
  split
  · -- the connection is live
    rename_i hnone
    exfalso
    obtain ⟨c, hc, hfd⟩ := List.mem_map.mp hl
    obtain ⟨c0, hc0, rfl⟩ := List.mem_map.mp hc
    obtain ⟨c1, hc1, rfl⟩ := List.mem_map.mp hc0
    have := List.find?_eq_none.mp hnone c1 hc1
    simp only [beq_iff_eq] at this
    exact this hfd
  · split
    · exact Good.flush_same hw hd (by simp)
    · split
      · -- UDP
        have hsk0 := sk_fault s "sendto"
        generalize s.fault "sendto" = r0 at hsk0
        obtain ⟨e, s0⟩ := r0
        simp only at hsk0 ⊢
        split
        · split
          · exact Good.flush_same hw hd (by simp [hsk0])
          · exact Good.flush_same hw hd (by simp [hsk0])
        · have hsk1 : ∀ (f : OutFrame) (rest : List OutFrame),
              (((s0.recordTx fd false f).notify fd true false).modConn fd fun c => { c with out := rest }).sk = s.sk := by
            intros; simp [hsk0]
          have hpre1 : ∀ (f : OutFrame) (rest : List OutFrame), Pre d
              (((s0.recordTx fd false f).notify fd true false).modConn fd fun c => { c with out := rest }) (.flush fd) :=
            fun f rest => ⟨Wf.of_sk_eq (hsk1 f rest) hw, by unfold Sk.liveConn; rw [hsk1]; exact hl,
              by rw [hsk1]; exact hd⟩
          refine Good.tail' (hgo.2 d _ _ (hpre1 _ _)) (by rw [hsk1]; exact StepS.refl _ _ _ _) (Or.inl rfl)
            (Or.inl rfl) ?_
          intro hg
          exact hg.post.trans (hsk1 _ _)
      · split
        · exact Good.flush_same hw hd (by simp)
        · have hsk0 := sk_fault s "sendto"
          generalize s.fault "sendto" = r0 at hsk0
          obtain ⟨e, s0⟩ := r0
          simp only at hsk0 ⊢
          split
          · split
            · exact Good.flush_same hw hd (by simp [hsk0])
            · exact Good.flush_same hw hd (by simp [hsk0])
          · generalize tcpAccept _ _ = r1
            obtain ⟨acc, v⟩ := r1
            simp only
            split
            · exact Good.flush_same hw hd (by simp [hsk0, sk_setSock])
            · refine Good.flush_same hw hd ?_
              simp only [sk_notify]
              split <;> split <;> simp [hsk0, sk_setSock]

end Cares.Chan
