import CaresLemmas.DnsRfcFields
/-!
# One resource record: operational parser vs. RFC reference (helper lemmas for C04)
-/
namespace Cares.Dns
open Cares.Generated

/-- generated-table obligation: every generated parse script is compatible with the RFC format of its type -/
def scriptsCompatible : Bool :=
  parseScript.all fun p =>
    match Rfc.format p.1 with
    | some specs => compatScript p.2 specs && abinOk p.2
    | none => false

theorem scripts_compatible : scriptsCompatible = true := by decide

/-- the RR types the parser accepts are OPT, `*`, RAW_RR and exactly the types that have both a generated
    script and an RFC format -/
theorem types_valid (t : Nat) (h : recTypeValid t false = true) :
    t = 41 ∨ t = 255 ∨ t = 65536 ∨ ((scriptOf parseScript t).isSome = true ∧ (Rfc.format t).isSome = true) := by
  simp only [recTypeValid, Bool.false_eq_true, ↓reduceIte, recTypeValidRR, List.contains_eq_mem,
    List.mem_cons, List.not_mem_nil, or_false, decide_eq_true_eq] at h
  rcases h with h | h | h | h | h | h | h | h | h | h | h | h | h | h | h | h | h | h | h | h <;> subst h <;> decide

theorem format_valid (t : Nat) (h : (Rfc.format t).isSome = true) : recTypeValid t false = true ∧ t ≠ 41 ∧ t ≠ 255 := by
  unfold Rfc.format at h
  split at h <;> first | (simp at h; done) | decide

theorem effectiveType_zero (sect : Sect) (rawType : Nat) :
    effectiveType 0 sect rawType = if recTypeValid rawType false then rawType else RecType.rawRR := by
  unfold effectiveType
  simp

theorem classValid_raw (cls : Nat) : classValid cls RecType.rawRR false = true := by
  unfold classValid; rfl

/-- class check of `ares_dns_class_isvalid` for the decoded types = the RFC reference's class list -/
theorem classValid_decoded (t cls : Nat) (h : (Rfc.format t).isSome = true) :
    classValid cls t false = Rfc.classSupported t cls := by
  unfold Rfc.format at h
  split at h <;> first | (simp at h; done) | skip
  all_goals
    simp [classValid, Rfc.classSupported, List.contains_eq_mem, List.mem_cons, Bool.or_assoc]

theorem scriptOf_compat {t : Nat} {sc : Script} (h : scriptOf parseScript t = some sc) :
    ∃ specs, Rfc.format t = some specs ∧ compatScript sc specs = true ∧ abinOk sc = true := by
  unfold scriptOf at h
  cases hf : parseScript.find? (·.1 == t) with
  | none => rw [hf] at h; simp at h
  | some p =>
    rw [hf] at h
    simp only [Option.map_some, Option.some.injEq] at h
    have hmem := List.mem_of_find?_eq_some hf
    have hty := List.find?_some hf
    have htab := scripts_compatible
    unfold scriptsCompatible at htab
    rw [List.all_eq_true] at htab
    have := htab p hmem
    simp only [beq_iff_eq] at hty
    subst h
    rw [hty] at this
    split at this
    · rename_i specs hs
      simp only [Bool.and_eq_true] at this
      exact ⟨specs, hs, this.1, this.2⟩
    · simp at this

theorem and_ff0_split : ∀ a, a < 256 → ∀ b, b < 16 → (16 * a + b) &&& 0xFF0 = a * 16 := by decide +kernel

theorem and_ff0_all (x : Nat) (h : x < 4096) : x &&& 0xFF0 = x / 16 * 16 := by
  have := and_ff0_split (x / 16) (by omega) (x % 16) (by omega)
  rw [Nat.div_add_mod] at this
  exact this

theorem opt_hi_eq (ttl : Nat) (h : ttl < 4294967296) : (ttl >>> 20) &&& 0x0FF0 = ttl / 16777216 * 16 := by
  rw [Nat.shiftRight_eq_div_pow]
  have hx : ttl / 2 ^ 20 < 4096 := by
    apply Nat.div_lt_of_lt_mul
    omega
  rw [and_ff0_all _ hx, Nat.div_div_eq_div_mul]

theorem opt_version_eq (ttl : Nat) : (ttl >>> 16) &&& 0xFF = ttl / 65536 % 256 := by
  rw [Nat.shiftRight_eq_div_pow]
  exact Nat.and_two_pow_sub_one_eq_mod _ 8

theorem opt_flags_eq (ttl : Nat) : ttl &&& 0xFFFF = ttl % 65536 :=
  Nat.and_two_pow_sub_one_eq_mod _ 16

/-- the fixed part of an RR after the owner name: TYPE CLASS TTL RDLENGTH -/
theorem rrFixed_parse {bs : Bytes} {q : Nat} (h : q + 10 ≤ bs.size) :
    fetchBe16 bs q = .ok (be16At bs q (by omega)) (q + 2) ∧
    fetchBe16 bs (q + 2) = .ok (be16At bs (q + 2) (by omega)) (q + 2 + 2) ∧
    fetchBe32 bs (q + 2 + 2) = .ok (be32At bs (q + 4) (by omega)) (q + 2 + 2 + 4) ∧
    fetchBe16 bs (q + 2 + 2 + 4) = .ok (be16At bs (q + 8) (by omega)) (q + 2 + 2 + 4 + 2) := by
  refine ⟨?_, ?_, ?_, ?_⟩
  · rw [fetchBe16_eq (by omega), dif_pos (by omega)]
  · rw [fetchBe16_eq (by omega), dif_pos (by omega)]
  · rw [fetchBe32_eq (by omega), dif_pos (by omega)]
  · rw [fetchBe16_eq (by omega), dif_pos (by omega)]

/-- if the four fixed fields parse, there were ten bytes -/
theorem rrFixed_ok {bs : Bytes} {q o1 o2 o3 o4 a b c d : Nat} (hq : q ≤ bs.size)
    (h1 : fetchBe16 bs q = .ok a o1) (h2 : fetchBe16 bs o1 = .ok b o2) (h3 : fetchBe32 bs o2 = .ok c o3)
    (h4 : fetchBe16 bs o3 = .ok d o4) : q + 10 ≤ bs.size ∧ o4 = q + 10 := by
  obtain ⟨e1, l1⟩ := fetchBe16_ok h1
  subst e1
  obtain ⟨e2, l2⟩ := fetchBe16_ok h2
  subst e2
  have b3 := (safe_fetchBe32 (by omega : q + 2 + 2 ≤ bs.size)).ok h3
  rw [fetchBe32_eq (by omega)] at h3
  split at h3
  · injection h3 with _ e3
    subst e3
    obtain ⟨e4, l4⟩ := fetchBe16_ok h4
    omega
  · simp at h3

theorem zip_fst_snd {α β : Type} (l : List (α × β)) : (l.map (·.1)).zip (l.map (·.2)) = l := by
  induction l with
  | nil => rfl
  | cons a l ih => simp [ih]

/-- the reference RR for the bytes the parser just read -/
def refRR (bs : Bytes) (owner : List Rfc.Label) (rawType qclass ttl rd rdlength : Nat) : Rfc.RR :=
  { owner := owner, type := rawType, cls := qclass, ttl := ttl, rdata := slice bs rd rdlength,
    view := Rfc.decodeView bs rawType rd (rd + rdlength) }

def optHi (rawType ttl : Nat) : Nat := if rawType = 41 then ttl / 16777216 * 16 else 0

theorem rrData_sound {bs : Bytes} {rd rdlength : Nat} (w : Win bs rd rdlength) (sect : Sect)
    (owner : List Rfc.Label) {rawType qclass ttl : Nat} (ht : rawType < 65536) (httl : ttl < 4294967296)
    (hvalid : rrAddValid (effectiveType 0 sect rawType) (rrClass (effectiveType 0 sect rawType) qclass) = true)
    {fields : List (Nat × Val)} {hi p6 : Nat}
    (hr : parseRRData bs rdlength (effectiveType 0 sect rawType) rawType qclass ttl rd = .ok (fields, hi) p6)
    (hp6 : p6 ≤ rd + rdlength) :
    (refRR bs owner rawType qclass ttl rd rdlength).toRec =
        some ⟨escapeName owner, effectiveType 0 sect rawType, rrClass (effectiveType 0 sect rawType) qclass,
              rrTtl (effectiveType 0 sect rawType) ttl, fields⟩ ∧
      (refRR bs owner rawType qclass ttl rd rdlength).supported = true ∧ hi = optHi rawType ttl := by
  have wf := w.fits
  rw [effectiveType_zero] at hr hvalid ⊢
  by_cases hv : recTypeValid rawType false = true
  · rw [if_pos hv] at hr hvalid ⊢
    rcases types_valid rawType hv with h41 | h255 | h65536 | ⟨hsc, hfm⟩
    · -- OPT
      subst h41
      unfold parseRRData at hr
      rw [if_neg (show ¬ (41 = RecType.any) by decide), if_pos (show 41 = RecType.opt by decide)] at hr
      unfold parseRROpt at hr
      rw [P.bind_ok (bufLen_eq (by omega))] at hr
      obtain ⟨opts, o1, g1, hr⟩ := P.bind_eq_ok hr
      simp only [P.pure_apply] at hr
      injection hr with hr ho; injection hr with hf hh; subst hf; subst hh; subst ho
      obtain ⟨tl, htl, hl, he⟩ := optLoop_sound w [] rd (Nat.le_refl _) (by omega) g1 hp6
      subst hl
      have hview : Rfc.decodeView bs 41 rd (rd + rdlength) = some [.tlvs tl] := by
        simp [Rfc.decodeView, Rfc.typeOPT, Rfc.decodeFields, Rfc.decodeField, htl]
      refine ⟨?_, ?_, ?_⟩
      · simp only [Rfc.RR.toRec, refRR, Rfc.typeOPT, ↓reduceIte, hview, rrClass, rrTtl, RecType.opt,
          opt_version_eq, opt_flags_eq, optFold]
      · simp [Rfc.RR.supported, refRR, Rfc.typeOPT, hview]
      · simp [optHi, opt_hi_eq ttl httl]
    · -- `*` as an RR type is rejected
      subst h255
      unfold parseRRData at hr
      rw [if_pos (show 255 = RecType.any by decide)] at hr
      simp at hr
    · omega
    · -- scripted types
      obtain ⟨h1, h2, h3⟩ := format_valid rawType hfm
      cases hs : scriptOf parseScript rawType with
      | none => rw [hs] at hsc; simp at hsc
      | some sc =>
        obtain ⟨specs, hf, hc, hab⟩ := scriptOf_compat hs
        obtain ⟨hkeys, _⟩ := scriptOf_ok hs
        unfold parseRRData at hr
        have hraw : rawType ≠ RecType.rawRR := by unfold RecType.rawRR; omega
        rw [if_neg (show ¬ rawType = RecType.any from h3), if_neg (show ¬ rawType = RecType.opt from h2), if_neg hraw, hs] at hr
        simp only at hr
        rw [P.bind_ok (bufLen_eq (by omega))] at hr
        obtain ⟨fs, o1, g1, hr⟩ := P.bind_eq_ok hr
        simp only [P.pure_apply] at hr
        injection hr with hr ho; injection hr with hfe hh; subst hfe; subst hh; subst ho
        obtain ⟨vals, d1, t1, s1, k1⟩ := parseFields_sound w sc specs hc (Nat.le_refl _) (by omega)
          (Or.inr ⟨rfl, hab⟩) g1 hp6
        have hview : Rfc.decodeView bs rawType rd (rd + rdlength) = some vals := by
          simp only [Rfc.decodeView, Rfc.typeOPT, if_neg h2, hf, d1]
        have hcls : rrClass rawType qclass = qclass := by simp [rrClass, RecType.opt, h2]
        have httl' : rrTtl rawType ttl = ttl := by simp [rrTtl, RecType.opt, h2]
        refine ⟨?_, ?_, ?_⟩
        · simp only [Rfc.RR.toRec, refRR, Rfc.typeOPT, if_neg h2, hf, hview, t1, hcls, httl']
          rw [← hkeys, ← k1, zip_fst_snd]
        · unfold rrAddValid at hvalid
          rw [Bool.and_eq_true, hcls, classValid_decoded rawType qclass hfm] at hvalid
          simp only [Rfc.RR.supported, refRR, Rfc.typeOPT, if_neg h2, hf, hview, hvalid.2, s1, Bool.and_self]
        · simp [optHi, h2]
  · -- undecoded type: RAW_RR
    rw [if_neg hv] at hr hvalid ⊢
    have hfm : Rfc.format rawType = none := by
      cases hf : Rfc.format rawType with
      | none => rfl
      | some x => exact absurd (format_valid rawType (by rw [hf]; rfl)).1 hv
    have h41 : rawType ≠ 41 := by
      intro h; subst h; exact hv (by decide)
    have h255 : rawType ≠ 255 := by
      intro h; subst h; exact hv (by decide)
    unfold parseRRData at hr
    rw [if_neg (show ¬ RecType.rawRR = RecType.any by decide), if_neg (show ¬ RecType.rawRR = RecType.opt by decide), if_pos rfl] at hr
    obtain ⟨f, o1, g1, hr⟩ := P.bind_eq_ok hr
    simp only [P.pure_apply] at hr
    injection hr with hr ho; injection hr with hfe hh; subst hfe; subst hh; subst ho
    have hcls : rrClass RecType.rawRR qclass = qclass := by simp [rrClass, RecType.opt, RecType.rawRR]
    have httl' : rrTtl RecType.rawRR ttl = ttl := by simp [rrTtl, RecType.opt, RecType.rawRR]
    have hf : f = [(Key.rawRRType, .u16 rawType), (Key.rawRRData, .bin (some (slice bs rd rdlength)))] := by
      unfold parseRRRaw at g1
      split at g1
      · rename_i h0
        simp only [P.pure_apply] at g1
        injection g1 with g1 _
        subst g1; subst h0
        simp [slice_zero]
      · obtain ⟨b, o2, g2, g1⟩ := P.bind_eq_ok g1
        simp only [P.pure_apply] at g1
        injection g1 with g1 _
        subst g1
        rw [(fetchBytes_val (by omega) g2).2.2]
    refine ⟨?_, ?_, ?_⟩
    · simp only [Rfc.RR.toRec, refRR, Rfc.typeOPT, if_neg h41, hfm, hcls, httl', hf]
    · simp [Rfc.RR.supported, refRR, Rfc.typeOPT, h41, hfm, h255]
    · simp [optHi, h41]

theorem format_scriptOf {t : Nat} (h : (Rfc.format t).isSome = true) : (scriptOf parseScript t).isSome = true := by
  have hv := (format_valid t h).1
  rcases types_valid t hv with h1 | h1 | h1 | h1
  · exact absurd h1 (format_valid t h).2.1
  · exact absurd h1 (format_valid t h).2.2
  · subst h1; simp [Rfc.format] at h
  · exact h1.1

theorem refRR_supported (bs : Bytes) (owner : List Rfc.Label) (t c ttl rd n : Nat) :
    (refRR bs owner t c ttl rd n).supported =
      (if t = 41 then (Rfc.decodeView bs t rd (rd + n)).isSome
       else match Rfc.format t with
         | some specs => Rfc.classSupported t c &&
             (match Rfc.decodeView bs t rd (rd + n) with
              | some vals => Rfc.fieldsSupported specs vals
              | none => false)
         | none => t != 255) := rfl

theorem rrData_complete {bs : Bytes} {rd rdlength : Nat} (w : Win bs rd rdlength) (sect : Sect)
    (owner : List Rfc.Label) {rawType qclass ttl : Nat} (ht : rawType < 65536) (httl : ttl < 4294967296)
    (hsup : (refRR bs owner rawType qclass ttl rd rdlength).supported = true) :
    rrAddValid (effectiveType 0 sect rawType) (rrClass (effectiveType 0 sect rawType) qclass) = true ∧
    ∃ fields hi p6,
      parseRRData bs rdlength (effectiveType 0 sect rawType) rawType qclass ttl rd = .ok (fields, hi) p6 ∧
      p6 ≤ rd + rdlength ∧
      (refRR bs owner rawType qclass ttl rd rdlength).toRec =
        some ⟨escapeName owner, effectiveType 0 sect rawType, rrClass (effectiveType 0 sect rawType) qclass,
              rrTtl (effectiveType 0 sect rawType) ttl, fields⟩ ∧
      hi = optHi rawType ttl := by
  have wf := w.fits
  rw [effectiveType_zero]
  by_cases h41 : rawType = 41
  · -- OPT
    subst h41
    rw [if_pos (by decide)]
    rw [refRR_supported, if_pos rfl] at hsup
    cases hview : Rfc.decodeView bs 41 rd (rd + rdlength) with
    | none => rw [hview] at hsup; simp at hsup
    | some vals =>
      simp only [Rfc.decodeView, Rfc.typeOPT, ↓reduceIte, Rfc.decodeFields, Rfc.decodeField] at hview
      cases htl : Rfc.tlvs bs (rd + rdlength) rd with
      | none => rw [htl] at hview; simp at hview
      | some tl =>
        rw [htl] at hview
        simp only [Option.map_some, Option.some.injEq] at hview
        subst hview
        refine ⟨by unfold rrClass; rw [if_pos (by decide)]; decide,
          [(Key.optUdpSize, .u16 qclass), (Key.optVersion, .u8 ((ttl >>> 16) &&& 0xFF)),
           (Key.optFlags, .u16 (ttl &&& 0xFFFF)), (Key.optOptions, .opt (optFold [] tl))],
          (ttl >>> 20) &&& 0x0FF0, rd + rdlength, ?_, Nat.le_refl _, ?_, ?_⟩
        · unfold parseRRData
          rw [if_neg (show ¬ (41 = RecType.any) by decide), if_pos (show 41 = RecType.opt by decide)]
          unfold parseRROpt
          rw [P.bind_ok (bufLen_eq (by omega)), P.bind_ok (optLoop_complete w _ rfl rd (Nat.le_refl _) [] htl)]
          rfl
        · have hv : Rfc.decodeView bs 41 rd (rd + rdlength) = some [.tlvs tl] := by
            simp [Rfc.decodeView, Rfc.typeOPT, Rfc.decodeFields, Rfc.decodeField, htl]
          simp only [Rfc.RR.toRec, refRR, Rfc.typeOPT, ↓reduceIte, hv, rrClass, rrTtl, RecType.opt,
            opt_version_eq, opt_flags_eq, optFold]
        · simp [optHi, opt_hi_eq ttl httl]
  · rw [refRR_supported, if_neg h41] at hsup
    cases hf : Rfc.format rawType with
    | some specs =>
      rw [hf] at hsup
      simp only [Bool.and_eq_true] at hsup
      obtain ⟨hcls, hvs⟩ := hsup
      have hfm : (Rfc.format rawType).isSome = true := by rw [hf]; rfl
      obtain ⟨hv, _, h255⟩ := format_valid rawType hfm
      rw [if_pos hv]
      cases hview : Rfc.decodeView bs rawType rd (rd + rdlength) with
      | none => rw [hview] at hvs; simp at hvs
      | some vals =>
        rw [hview] at hvs
        simp only at hvs
        simp only [Rfc.decodeView, Rfc.typeOPT, if_neg h41, hf] at hview
        cases hs : scriptOf parseScript rawType with
        | none => have := format_scriptOf hfm; rw [hs] at this; simp at this
        | some sc =>
          obtain ⟨specs', hf', hc, hab⟩ := scriptOf_compat hs
          rw [hf] at hf'
          injection hf' with hf'
          subst hf'
          obtain ⟨hkeys, _⟩ := scriptOf_ok hs
          obtain ⟨fs, p6, g1, hp6, t1, k1⟩ := parseFields_complete w sc specs hc (Nat.le_refl _) (by omega)
            (Or.inr ⟨rfl, hab⟩) hview hvs
          have hcl : rrClass rawType qclass = qclass := by simp [rrClass, RecType.opt, h41]
          have httl' : rrTtl rawType ttl = ttl := by simp [rrTtl, RecType.opt, h41]
          refine ⟨?_, fs, 0, p6, ?_, hp6, ?_, ?_⟩
          · unfold rrAddValid
            rw [Bool.and_eq_true, hcl, classValid_decoded rawType qclass hfm]
            exact ⟨hv, hcls⟩
          · unfold parseRRData
            have hraw : rawType ≠ RecType.rawRR := by unfold RecType.rawRR; omega
            rw [if_neg (show ¬ rawType = RecType.any from h255), if_neg (show ¬ rawType = RecType.opt from h41),
              if_neg hraw, hs]
            simp only
            rw [P.bind_ok (bufLen_eq (by omega)), P.bind_ok g1]
            rfl
          · have hv2 : Rfc.decodeView bs rawType rd (rd + rdlength) = some vals := by
              simp only [Rfc.decodeView, Rfc.typeOPT, if_neg h41, hf, hview]
            simp only [Rfc.RR.toRec, refRR, Rfc.typeOPT, if_neg h41, hf, hv2, t1, hcl, httl']
            rw [← hkeys, ← k1, zip_fst_snd]
          · simp [optHi, h41]
    | none =>
      rw [hf] at hsup
      have h255 : rawType ≠ 255 := by simpa using hsup
      have hv : ¬ recTypeValid rawType false = true := by
        intro hv
        rcases types_valid rawType hv with h | h | h | h
        · exact h41 h
        · exact h255 h
        · omega
        · rw [hf] at h; simp at h
      rw [if_neg hv]
      have hcl : rrClass RecType.rawRR qclass = qclass := by simp [rrClass, RecType.opt, RecType.rawRR]
      have httl' : rrTtl RecType.rawRR ttl = ttl := by simp [rrTtl, RecType.opt, RecType.rawRR]
      refine ⟨?_, [(Key.rawRRType, .u16 rawType), (Key.rawRRData, .bin (some (slice bs rd rdlength)))], 0,
        rd + rdlength, ?_, Nat.le_refl _, ?_, ?_⟩
      · unfold rrAddValid
        rw [Bool.and_eq_true]
        exact ⟨by decide, classValid_raw _⟩
      · unfold parseRRData
        rw [if_neg (show ¬ RecType.rawRR = RecType.any by decide),
          if_neg (show ¬ RecType.rawRR = RecType.opt by decide), if_pos rfl]
        unfold parseRRRaw
        by_cases h0 : rdlength = 0
        · rw [if_pos h0]
          subst h0
          rw [P.bind_ok (P.pure_apply _ _)]
          simp [slice_zero]
        · have hfb : fetchBytes bs rdlength rd = .ok (slice bs rd rdlength) (rd + rdlength) := by
            rw [fetchBytes_eq (by omega), if_pos ⟨h0, by omega⟩]
          have hinner : (do
              let b ← fetchBytes bs rdlength
              pure [(Key.rawRRType, Val.u16 rawType), (Key.rawRRData, Val.bin (some b))] : P (List (Nat × Val))) rd =
              .ok [(Key.rawRRType, Val.u16 rawType), (Key.rawRRData, Val.bin (some (slice bs rd rdlength)))]
                (rd + rdlength) := by
            rw [P.bind_ok hfb]; rfl
          rw [if_neg h0, P.bind_ok hinner]
          rfl
      · simp only [Rfc.RR.toRec, refRR, Rfc.typeOPT, if_neg h41, hf, hcl, httl']
      · simp [optHi, h41]

theorem decodeRR_eq {bs : Bytes} {p q : Nat} {owner : List Rfc.Label} (hn : Rfc.name bs p = some (owner, q))
    (h10 : q + 10 ≤ bs.size) :
    Rfc.decodeRR bs p =
      if q + 10 + be16At bs (q + 8) (by omega) ≤ bs.size then
        some (refRR bs owner (be16At bs q (by omega)) (be16At bs (q + 2) (by omega)) (be32At bs (q + 4) (by omega))
                (q + 10) (be16At bs (q + 8) (by omega)), q + 10 + be16At bs (q + 8) (by omega))
      else none := by
  unfold Rfc.decodeRR
  rw [hn]
  simp only [u16At_eq, u32At_eq]
  rw [dif_pos (by omega), dif_pos (by omega), dif_pos (by omega), dif_pos (by omega)]
  rfl

theorem consumeIgnore_eq {bs : Bytes} {off n : Nat} (h : off ≤ bs.size) :
    consumeIgnore bs n off = .ok () (if off + n ≤ bs.size then off + n else off) := by
  unfold consumeIgnore
  rw [consume_eq h]
  by_cases hc : off + n ≤ bs.size
  · rw [if_pos hc, if_pos hc]
  · rw [if_neg hc, if_neg hc]

theorem parseRR_sound {bs : Bytes} {sect : Sect} {p p' hi : Nat} {rr : RR} (hp : p ≤ bs.size)
    (hr : parseRR bs 0 sect p = .ok (rr, hi) p') :
    ∃ m, Rfc.decodeRR bs p = some (m, p') ∧ m.toRec = some rr ∧ m.supported = true ∧
      hi = optHi m.type m.ttl := by
  unfold parseRR at hr
  obtain ⟨name, o1, g1, hr⟩ := P.bind_eq_ok hr
  rw [parseName_eq_rfc bs p hp] at g1
  cases hn : Rfc.name bs p with
  | none => rw [hn] at g1; simp at g1
  | some r =>
    obtain ⟨owner, q⟩ := r
    rw [hn] at g1
    injection g1 with g1 go; subst g1; subst go
    have hq : q ≤ bs.size := by
      have := (safe_parseName (bs := bs) (off := p) false hp)
      unfold SafeAt at this
      rw [parseName_eq_rfc bs p hp, hn] at this
      exact this.2
    obtain ⟨rawType, o2, g2, hr⟩ := P.bind_eq_ok hr
    obtain ⟨qclass, o3, g3, hr⟩ := P.bind_eq_ok hr
    obtain ⟨ttl, o4, g4, hr⟩ := P.bind_eq_ok hr
    obtain ⟨rdlength, o5, g5, hr⟩ := P.bind_eq_ok hr
    obtain ⟨h10, ho5⟩ := rrFixed_ok hq g2 g3 g4 g5
    subst ho5
    obtain ⟨f1, f2, f3, f4⟩ := rrFixed_parse h10
    rw [f1] at g2
    injection g2 with e2 eo2; subst e2; subst eo2
    rw [f2] at g3
    injection g3 with e3 eo3; subst e3; subst eo3
    rw [f3] at g4
    injection g4 with e4 eo4; subst e4; subst eo4
    rw [f4] at g5
    injection g5 with e5 eo5; subst e5
    simp only at hr
    rw [P.bind_ok (bufLen_eq (by omega))] at hr
    split at hr
    · simp at hr
    · rename_i hfit
      split at hr
      · simp at hr
      · rename_i hvalid
        simp only [Bool.not_eq_true, Bool.not_eq_eq_eq_not, Bool.not_not, Bool.not_true,
          Bool.not_eq_false] at hvalid
        rw [P.bind_ok (bufLen_eq (by omega))] at hr
        obtain ⟨fr, o6, g6, hr⟩ := P.bind_eq_ok hr
        obtain ⟨fields, hi'⟩ := fr
        simp only at hr
        have b6 := (safe_parseRRData (be16At bs (q + 8) (by omega))
          (effectiveType 0 sect (be16At bs q (by omega))) (be16At bs q (by omega)) (be16At bs (q + 2) (by omega))
          (be32At bs (q + 4) (by omega)) (by omega : q + 10 ≤ bs.size)).ok g6
        rw [P.bind_ok (bufLen_eq b6.2)] at hr
        obtain ⟨processed, o7, g7, hr2⟩ := P.bind_eq_ok hr
        obtain ⟨e7, hproc, _⟩ := subChecked_ok g7
        have ho7 : o7 ≤ bs.size := by omega
        have w : Win bs (q + 10) (be16At bs (q + 8) (by omega)) := ⟨by omega⟩
        split at hr2
        · simp at hr2
        · rename_i hple
          have hp6 : o6 ≤ q + 10 + be16At bs (q + 8) (by omega) := by omega
          obtain ⟨t1, t2, t3⟩ := rrData_sound w sect owner (be16At_lt _) (be32At_lt _) hvalid g6 hp6
          have hfin : p' = q + 10 + be16At bs (q + 8) (by omega) ∧
              rr = ⟨escapeName owner, effectiveType 0 sect (be16At bs q (by omega)),
                rrClass (effectiveType 0 sect (be16At bs q (by omega))) (be16At bs (q + 2) (by omega)),
                rrTtl (effectiveType 0 sect (be16At bs q (by omega))) (be32At bs (q + 4) (by omega)), fields⟩ ∧
              hi = hi' := by
            split at hr2
            · obtain ⟨_, o8, g8, hr3⟩ := P.bind_eq_ok hr2
              simp only [P.pure_apply] at hr3
              injection hr3 with hr3 ho; injection hr3 with h1 h2
              rw [consumeIgnore_eq ho7] at g8
              injection g8 with _ g8
              have b61 := b6.1
              have b62 := b6.2
              split at g8
              · exact ⟨by omega, h1.symm, h2.symm⟩
              · omega
            · simp only [P.pure_apply] at hr2
              injection hr2 with hr3 ho; injection hr3 with h1 h2
              have b61 := b6.1
              have b62 := b6.2
              exact ⟨by omega, h1.symm, h2.symm⟩
          obtain ⟨hp', hrr, hhi⟩ := hfin
          subst hp'; subst hrr; subst hhi
          refine ⟨_, ?_, t1, t2, t3⟩
          rw [decodeRR_eq hn h10, if_pos (by omega)]

theorem name_next_le {bs : Bytes} {p q : Nat} {owner : List Rfc.Label} (hp : p ≤ bs.size)
    (hn : Rfc.name bs p = some (owner, q)) : p ≤ q ∧ q ≤ bs.size := by
  have := (safe_parseName (bs := bs) (off := p) false hp)
  unfold SafeAt at this
  rw [parseName_eq_rfc bs p hp, hn] at this
  exact this

theorem decodeRR_some {bs : Bytes} {p p' : Nat} {m : Rfc.RR} (hd : Rfc.decodeRR bs p = some (m, p')) :
    ∃ owner q, Rfc.name bs p = some (owner, q) ∧ ∃ h10 : q + 10 ≤ bs.size,
      q + 10 + be16At bs (q + 8) (by omega) ≤ bs.size ∧
      m = refRR bs owner (be16At bs q (by omega)) (be16At bs (q + 2) (by omega)) (be32At bs (q + 4) (by omega))
                (q + 10) (be16At bs (q + 8) (by omega)) ∧
      p' = q + 10 + be16At bs (q + 8) (by omega) := by
  cases hn : Rfc.name bs p with
  | none => unfold Rfc.decodeRR at hd; rw [hn] at hd; simp at hd
  | some r =>
    obtain ⟨owner, q⟩ := r
    refine ⟨owner, q, rfl, ?_⟩
    by_cases h10 : q + 10 ≤ bs.size
    · refine ⟨h10, ?_⟩
      rw [decodeRR_eq hn h10] at hd
      split at hd
      · rename_i hfit
        simp only [Option.some.injEq, Prod.mk.injEq] at hd
        exact ⟨hfit, hd.1.symm, hd.2.symm⟩
      · simp at hd
    · exfalso
      unfold Rfc.decodeRR at hd
      rw [hn] at hd
      simp only [u16At_eq, u32At_eq] at hd
      by_cases h8 : q + 8 + 2 ≤ bs.size
      · omega
      · rw [dif_neg h8] at hd
        split at hd <;> simp_all

theorem parseRR_complete {bs : Bytes} {sect : Sect} {p p' : Nat} {m : Rfc.RR} (hp : p ≤ bs.size)
    (hd : Rfc.decodeRR bs p = some (m, p')) (hs : m.supported = true) :
    ∃ rr hi, parseRR bs 0 sect p = .ok (rr, hi) p' ∧ m.toRec = some rr ∧ hi = optHi m.type m.ttl := by
  obtain ⟨owner, q, hn, h10, hfit, hm, hp'⟩ := decodeRR_some hd
  subst hm; subst hp'
  have hq := name_next_le hp hn
  have w : Win bs (q + 10) (be16At bs (q + 8) (by omega)) := ⟨hfit⟩
  obtain ⟨hvalid, fields, hi, p6, g6, hp6, t1, t2⟩ :=
    rrData_complete w sect owner (be16At_lt _) (be32At_lt _) hs
  obtain ⟨f1, f2, f3, f4⟩ := rrFixed_parse h10
  have b6 := (safe_parseRRData (be16At bs (q + 8) (by omega))
    (effectiveType 0 sect (be16At bs q (by omega))) (be16At bs q (by omega)) (be16At bs (q + 2) (by omega))
    (be32At bs (q + 4) (by omega)) (by omega : q + 10 ≤ bs.size)).ok g6
  refine ⟨_, hi, ?_, t1, t2⟩
  unfold parseRR
  rw [P.bind_ok (by rw [parseName_eq_rfc bs p hp, hn]), P.bind_ok f1, P.bind_ok f2, P.bind_ok f3, P.bind_ok f4]
  simp only
  rw [P.bind_ok (bufLen_eq (by omega)), if_neg (by omega), if_neg (by simp [hvalid]),
    P.bind_ok (bufLen_eq (by omega)), P.bind_ok g6]
  simp only
  rw [P.bind_ok (bufLen_eq b6.2)]
  have hsub : subChecked (bs.size - (q + 2 + 2 + 4 + 2)) (bs.size - p6) p6 = .ok (p6 - (q + 10)) p6 := by
    simp only [subChecked]
    rw [if_pos (by omega)]
    congr 1; omega
  rw [P.bind_ok hsub, if_neg (by omega)]
  by_cases hlt : p6 - (q + 10) < be16At bs (q + 8) (by omega)
  · rw [if_pos hlt, P.bind_ok (consumeIgnore_eq b6.2), if_pos (by omega)]
    simp only [P.pure_apply]
    congr 1; omega
  · rw [if_neg hlt]
    simp only [P.pure_apply]
    congr 1; omega

end Cares.Dns
