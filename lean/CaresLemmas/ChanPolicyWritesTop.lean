import CaresLemmas.ChanPolicyWritesBodies
/-!
# C06 — the accounting invariant at the level of API calls: initial state, a new observation, the bound
-/
namespace Cares.Chan
set_option linter.unusedVariables false

/-- the draws offered by an observation are usable as query ids: pairwise distinct 16-bit-ish values -/
def FreshDraws (l : List Nat) : Prop := l.Nodup ∧ l.length < 70000 ∧ ∀ x ∈ l, x < 70000

/-- a freshly created channel (no queries, no connections) satisfies the invariant -/
theorem CInv.init (s : St) (hq : s.qs = []) (hb : s.byQid = []) (hr : s.requeueArr = []) (hw : s.writeLog = [])
    (hc : s.conns = []) (ht : ∀ v ∈ s.servers, v.tcpConn = none) (hrnd : FreshDraws s.obs.rnd2) :
    CInv s.cfg.tries s.servers.length none none s := by
  right
  have hk : (cproj s).kinds = [] := by show s.conns.map _ = []; rw [hc]; rfl
  exact
    { htries := rfl, hnsrv := rfl
      keysNodup := by show (s.qs.map _).Nodup; rw [hq]; exact List.nodup_nil
      keyLt := fun q hm => by have hm : q ∈ s.qs := hm; rw [hq] at hm; cases hm
      byQidLt := fun e he => by have he : e ∈ s.byQid := he; rw [hb] at he; cases he
      fresh := fun k _ => by show s.writeLog.count k = 0; rw [hw]; rfl
      qidInj := fun a ha => by have ha : a ∈ s.qs := ha; rw [hq] at ha; cases ha
      byQidOk := fun e he => by have he : e ∈ s.byQid := he; rw [hb] at he; cases he
      rndNodup := hrnd.1, rndLen := hrnd.2.1, rndLt := hrnd.2.2
      reqFresh := fun e he => by have he : e ∈ s.requeueArr := he; rw [hr] at he; cases he
      qidFresh := fun q hm => by have hm : q ∈ s.qs := hm; rw [hq] at hm; cases hm
      acct := fun q hm => by have hm : q ∈ s.qs := hm; rw [hq] at hm; cases hm
      ck3 := fun q hm => by have hm : q ∈ s.qs := hm; rw [hq] at hm; cases hm
      ck3tcp := fun q hm => by have hm : q ∈ s.qs := hm; rw [hq] at hm; cases hm
      ckR := fun q hm => by have hm : q ∈ s.qs := hm; rw [hq] at hm; cases hm
      kindLt := fun e he => by rw [hk] at he; cases he
      tcpOk := fun o ho fd hfd => by
        have ho : o ∈ s.servers.map (·.tcpConn) := ho
        obtain ⟨v, hv, rfl⟩ := List.mem_map.1 ho
        rw [ht v hv] at hfd; cases hfd
      attLt := fun q hm => by have hm : q ∈ s.qs := hm; rw [hq] at hm; cases hm
      attTcp := fun q hm => by have hm : q ∈ s.qs := hm; rw [hq] at hm; cases hm
      dead := fun k _ _ => by show s.writeLog.count k ≤ _; rw [hw]; exact Nat.zero_le _ }

/-- a new API call brings a new observation: the invariant survives if its draws are fresh (distinct, and distinct
    from the ids of the live queries and of pending deferred-requeue entries) -/
theorem CInv.newObs {tr ns : Nat} (s : St) (o : Obs) (h : CInv tr ns none none s) (hrnd : FreshDraws o.rnd2)
    (hq : ∀ q ∈ s.qs, q.qid ∉ o.rnd2) (hr : ∀ e ∈ s.requeueArr, e.1 ∉ o.rnd2) :
    CInv tr ns none none { s with obs := o } := by
  refine CInv.lift h rfl ?_
  intro hok
  have : cproj { s with obs := o } = { cproj s with rnd2 := o.rnd2 } := rfl
  rw [this]
  exact { hok with
    rndNodup := hrnd.1, rndLen := hrnd.2.1, rndLt := hrnd.2.2
    reqFresh := fun e he => ⟨hr e he, (hok.reqFresh e he).2⟩
    qidFresh := fun q hm => ⟨hq q hm, (hok.qidFresh q hm).2⟩ }

/-- anything that leaves the projection and the fuel flag alone (advancing the clock, queueing replies on the virtual
    sockets, scripting faults, …) keeps the invariant -/
theorem CInv.ofSameProj {tr ns : Nat} {cw ex : Option Nat} {s s' : St} (h : CInv tr ns cw ex s)
    (h1 : cproj s' = cproj s) (h2 : s'.outOfFuel = s.outOfFuel) : CInv tr ns cw ex s' :=
  CInv.lift h h2 (fun hok => by rw [h1]; exact hok)

/-- **writes_bounded**, state form: in a state that satisfies the invariant (and is not out of fuel) no query's frame
    has been handed to connections more than `servers × tries + 5` times -/
theorem CInv.count_le {tr ns : Nat} {cw ex : Option Nat} {s : St} (h : CInv tr ns cw ex s)
    (hf : s.outOfFuel = false) (k : Nat) : s.writeLog.count k ≤ writeBound tr ns := by
  rcases h with h | hok
  · rw [hf] at h; cases h
  · exact hok.count_le k

/-- the configuration the bound refers to is the state's -/
theorem CInv.cfg_eq {tr ns : Nat} {cw ex : Option Nat} {s : St} (h : CInv tr ns cw ex s)
    (hf : s.outOfFuel = false) : s.cfg.tries = tr ∧ s.servers.length = ns := by
  rcases h with h | hok
  · rw [hf] at h; cases h
  · exact ⟨hok.htries, hok.hnsrv⟩

end Cares.Chan
