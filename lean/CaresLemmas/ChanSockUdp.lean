import CaresLemmas.ChanSockRun
/-!
# `udp_max_queries` is respected (C10)
-/
namespace Cares.Chan

def ukey (c : Conn) : Nat × Bool × Nat := (c.fd, c.tcp, c.total)
def St.ukeys (s : St) : List (Nat × Bool × Nat) := s.conns.map ukey

/-- descriptors are distinct and below the next descriptor number; a server's `tcp_conn` is a TCP connection; no
    UDP connection has carried more than `udp_max_queries` queries (when the limit is set) -/
structure UInvF (cs : List Conn) (sv : List Server) (n um : Nat) : Prop where
  nodup : (cs.map (·.fd)).Nodup
  lt : ∀ c ∈ cs, c.fd < n
  tcpLt : ∀ v ∈ sv, ∀ fd, v.tcpConn = some fd → fd < n
  tcpOk : ∀ v ∈ sv, ∀ fd, v.tcpConn = some fd → ∀ c ∈ cs, c.fd = fd → c.tcp = true
  max : um > 0 → ∀ c ∈ cs, c.tcp = false → c.total ≤ um

abbrev UInv (s : St) : Prop := UInvF s.conns s.servers s.nextFd s.cfg.udpMax

/-- the connection `fd` can take one more query -/
def Room (fd : Nat) (cs : List Conn) (um : Nat) : Prop :=
  um > 0 → ∀ c ∈ cs, c.fd = fd → c.tcp = false → c.total < um

theorem map_ukey_congr {cs cs' : List Conn} (h : cs'.map ukey = cs.map ukey) :
    cs'.map (·.fd) = cs.map (·.fd) := by
  have := congrArg (List.map (·.1)) h
  simp only [List.map_map] at this
  exact this

theorem mem_of_map_ukey {cs cs' : List Conn} (h : cs'.map ukey = cs.map ukey) {c : Conn} (hc : c ∈ cs') :
    ∃ c0 ∈ cs, ukey c0 = ukey c := by
  have : ukey c ∈ cs.map ukey := by rw [← h]; exact List.mem_map_of_mem hc
  simpa [List.mem_map] using this

/-- the invariant only looks at `(fd, tcp, total)` of the connections -/
theorem UInvF.conns_congr {cs cs' : List Conn} {sv : List Server} {n um : Nat} (h : UInvF cs sv n um)
    (he : cs'.map ukey = cs.map ukey) : UInvF cs' sv n um := by
  constructor
  · rw [map_ukey_congr he]; exact h.nodup
  · intro c hc
    obtain ⟨c0, h0, hk⟩ := mem_of_map_ukey he hc
    have : c0.fd = c.fd := congrArg (·.1) hk
    rw [← this]; exact h.lt c0 h0
  · exact h.tcpLt
  · intro v hv fd hfd c hc hcfd
    obtain ⟨c0, h0, hk⟩ := mem_of_map_ukey he hc
    have h1 : c0.fd = c.fd := congrArg (·.1) hk
    have h2 : c0.tcp = c.tcp := congrArg (·.2.1) hk
    rw [← h2]; exact h.tcpOk v hv fd hfd c0 h0 (by rw [h1]; exact hcfd)
  · intro hum c hc ht
    obtain ⟨c0, h0, hk⟩ := mem_of_map_ukey he hc
    have h2 : c0.tcp = c.tcp := congrArg (·.2.1) hk
    have h3 : c0.total = c.total := congrArg (·.2.2) hk
    rw [← h3]; exact h.max hum c0 h0 (by rw [h2]; exact ht)

theorem Room.conns_congr {fd : Nat} {cs cs' : List Conn} {um : Nat} (h : Room fd cs um)
    (he : cs'.map ukey = cs.map ukey) : Room fd cs' um := by
  intro hum c hc hfd ht
  obtain ⟨c0, h0, hk⟩ := mem_of_map_ukey he hc
  have h1 : c0.fd = c.fd := congrArg (·.1) hk
  have h2 : c0.tcp = c.tcp := congrArg (·.2.1) hk
  have h3 : c0.total = c.total := congrArg (·.2.2) hk
  rw [← h3]; exact h hum c0 h0 (by rw [h1]; exact hfd) (by rw [h2]; exact ht)

/-- … and at `tcp_conn` of the servers, which may be dropped -/
theorem UInvF.servers_sub {cs : List Conn} {sv sv' : List Server} {n um : Nat} (h : UInvF cs sv n um)
    (hs : ∀ v' ∈ sv', v'.tcpConn = none ∨ ∃ v ∈ sv, v'.tcpConn = v.tcpConn) : UInvF cs sv' n um := by
  refine ⟨h.nodup, h.lt, ?_, ?_, h.max⟩
  · intro v' hv' fd hfd
    rcases hs v' hv' with h0 | ⟨v, hv, he⟩
    · rw [h0] at hfd; cases hfd
    · exact h.tcpLt v hv fd (by rw [← he]; exact hfd)
  · intro v' hv' fd hfd
    rcases hs v' hv' with h0 | ⟨v, hv, he⟩
    · rw [h0] at hfd; cases hfd
    · exact h.tcpOk v hv fd (by rw [← he]; exact hfd)

theorem ukeys_modConn (s : St) (fd : Nat) (f : Conn → Conn) (hf : ∀ c, ukey (f c) = ukey c) :
    (s.modConn fd f).conns.map ukey = s.conns.map ukey := by
  simp only [St.modConn, List.map_map]
  apply List.map_congr_left
  intro c _
  simp only [Function.comp]
  split
  · exact hf c
  · rfl

theorem ukeys_notify (s : St) (fd : Nat) (r w : Bool) : (s.notify fd r w).conns.map ukey = s.conns.map ukey := by
  unfold St.notify
  split
  · rfl
  · split <;> exact ukeys_modConn _ _ _ (fun _ => rfl)

theorem ukeys_removeFromConn (s : St) (k : Nat) : (s.removeFromConn k).conns.map ukey = s.conns.map ukey := by
  unfold St.removeFromConn
  split
  · rfl
  · simp only [St.modQuery_conns]
    split
    · exact ukeys_modConn _ _ _ (fun _ => rfl)
    · rfl

theorem ukeys_detach (s : St) (k : Nat) : (s.detach k).conns.map ukey = s.conns.map ukey := by
  unfold St.detach
  split
  · rfl
  · exact ukeys_removeFromConn s k

theorem ukeys_freeQuery (s : St) (k : Nat) : (s.freeQuery k).conns.map ukey = s.conns.map ukey := by
  unfold St.freeQuery; exact ukeys_detach s k

theorem ukeys_advanceOut : ∀ (fuel fd : Nat) (s : St) (n : Nat),
    (advanceOut fuel fd s n).conns.map ukey = s.conns.map ukey
  | 0, _, _, _ => rfl
  | fuel + 1, fd, s, n => by
    unfold advanceOut
    split
    · rfl
    · split
      · rfl
      · dsimp only
        split
        · split
          · simp only [St.recordTx_conns]; exact ukeys_modConn _ _ _ (fun _ => rfl)
          · rw [ukeys_advanceOut fuel]; simp only [St.recordTx_conns]; exact ukeys_modConn _ _ _ (fun _ => rfl)
        · exact ukeys_modConn _ _ _ (fun _ => rfl)

theorem servers_setServer_sub (s : St) (v : Server) (v0 : Server) (h0 : v0 ∈ s.servers) (ht : v.tcpConn = v0.tcpConn) :
    ∀ v' ∈ (s.setServer v).servers, v'.tcpConn = none ∨ ∃ x ∈ s.servers, v'.tcpConn = x.tcpConn := by
  intro v' hv'
  simp only [St.setServer, List.mem_map] at hv'
  obtain ⟨x, hx, rfl⟩ := hv'
  split
  · exact .inr ⟨v0, h0, ht⟩
  · exact .inr ⟨x, hx, rfl⟩

theorem servers_modServer_sub (s : St) (id : Nat) (f : Server → Server)
    (hf : ∀ v, (f v).tcpConn = v.tcpConn ∨ (f v).tcpConn = none) :
    ∀ v' ∈ (s.modServer id f).servers, v'.tcpConn = none ∨ ∃ x ∈ s.servers, v'.tcpConn = x.tcpConn := by
  intro v' hv'
  simp only [St.modServer, List.mem_map] at hv'
  obtain ⟨x, hx, rfl⟩ := hv'
  split
  · rcases hf x with h | h
    · exact .inr ⟨x, hx, h⟩
    · exact .inl h
  · exact .inr ⟨x, hx, rfl⟩

theorem server?_mem_servers {s : St} {id : Nat} {v : Server} (h : s.server? id = some v) : v ∈ s.servers :=
  List.mem_of_find?_eq_some h

theorem servers_incFailures_sub (s : St) (id : Nat) (tcp : Bool) :
    ∀ v' ∈ (s.incFailures id tcp).servers, v'.tcpConn = none ∨ ∃ x ∈ s.servers, v'.tcpConn = x.tcpConn := by
  unfold St.incFailures
  split
  · intro v' hv'; exact .inr ⟨v', hv', rfl⟩
  · rename_i v hv
    simp only [St.emit_servers]
    exact servers_setServer_sub s _ v (server?_mem_servers hv) rfl

theorem servers_setGood_sub (s : St) (id : Nat) (tcp : Bool) :
    ∀ v' ∈ (s.setGood id tcp).servers, v'.tcpConn = none ∨ ∃ x ∈ s.servers, v'.tcpConn = x.tcpConn := by
  unfold St.setGood
  split
  · intro v' hv'; exact .inr ⟨v', hv', rfl⟩
  · rename_i v hv
    simp only [St.emit_servers]
    exact servers_setServer_sub s _ v (server?_mem_servers hv) rfl

theorem servers_metricsRecord_sub (s : St) (q : Query) (srv : Option Nat) (st : Status) (rec : Option Reply) :
    ∀ v' ∈ (s.metricsRecord q srv st rec).servers, v'.tcpConn = none ∨ ∃ x ∈ s.servers, v'.tcpConn = x.tcpConn := by
  unfold St.metricsRecord
  split
  · split
    · intro v' hv'; exact .inr ⟨v', hv', rfl⟩
    · exact servers_modServer_sub s _ _ (fun _ => .inl rfl)
  · intro v' hv'; exact .inr ⟨v', hv', rfl⟩

/-! ### steps of the invariant -/
section
variable {sv : List Server} {cs : List Conn} {n um : Nat}

theorem UInvF_modConn (s : St) (fd : Nat) (f : Conn → Conn) (hf : ∀ c, ukey (f c) = ukey c)
    (h : UInvF s.conns sv n um) : UInvF (s.modConn fd f).conns sv n um := h.conns_congr (ukeys_modConn s fd f hf)
theorem UInvF_notify (s : St) (fd : Nat) (r w : Bool) (h : UInvF s.conns sv n um) :
    UInvF (s.notify fd r w).conns sv n um := h.conns_congr (ukeys_notify s fd r w)
theorem UInvF_removeFromConn (s : St) (k : Nat) (h : UInvF s.conns sv n um) :
    UInvF (s.removeFromConn k).conns sv n um := h.conns_congr (ukeys_removeFromConn s k)
theorem UInvF_detach (s : St) (k : Nat) (h : UInvF s.conns sv n um) :
    UInvF (s.detach k).conns sv n um := h.conns_congr (ukeys_detach s k)
theorem UInvF_freeQuery (s : St) (k : Nat) (h : UInvF s.conns sv n um) :
    UInvF (s.freeQuery k).conns sv n um := h.conns_congr (ukeys_freeQuery s k)
theorem UInvF_advanceOut (fuel fd : Nat) (s : St) (k : Nat) (h : UInvF s.conns sv n um) :
    UInvF (advanceOut fuel fd s k).conns sv n um := h.conns_congr (ukeys_advanceOut fuel fd s k)

theorem UInvF_modServer (s : St) (id : Nat) (f : Server → Server)
    (hf : ∀ v, (f v).tcpConn = v.tcpConn ∨ (f v).tcpConn = none) (h : UInvF cs s.servers n um) :
    UInvF cs (s.modServer id f).servers n um := h.servers_sub (servers_modServer_sub s id f hf)
theorem UInvF_incFailures (s : St) (id : Nat) (tcp : Bool) (h : UInvF cs s.servers n um) :
    UInvF cs (s.incFailures id tcp).servers n um := h.servers_sub (servers_incFailures_sub s id tcp)
theorem UInvF_setGood (s : St) (id : Nat) (tcp : Bool) (h : UInvF cs s.servers n um) :
    UInvF cs (s.setGood id tcp).servers n um := h.servers_sub (servers_setGood_sub s id tcp)
theorem UInvF_metricsRecord (s : St) (q : Query) (srv : Option Nat) (st : Status) (rec : Option Reply)
    (h : UInvF cs s.servers n um) : UInvF cs (s.metricsRecord q srv st rec).servers n um :=
  h.servers_sub (servers_metricsRecord_sub s q srv st rec)

/-- dropping connections keeps the invariant -/
theorem UInvF.filter (h : UInvF cs sv n um) (p : Conn → Bool) : UInvF (cs.filter p) sv n um := by
  refine ⟨h.nodup.sublist (List.filter_sublist.map _), ?_, h.tcpLt, ?_, ?_⟩
  · intro c hc; exact h.lt c ((List.mem_filter.mp hc).1)
  · intro v hv fd hfd c hc; exact h.tcpOk v hv fd hfd c ((List.mem_filter.mp hc).1)
  · intro hum c hc; exact h.max hum c ((List.mem_filter.mp hc).1)

end

/-! ### `ares_open_connection` -/

theorem ocSock_fields (s1 : St) (tcp : Bool) (srv : Server) :
    (ocSock s1 tcp srv).conns = s1.conns ∧ (ocSock s1 tcp srv).servers = s1.servers ∧
      (ocSock s1 tcp srv).nextFd = s1.nextFd + 1 ∧ (ocSock s1 tcp srv).cfg = s1.cfg ∧
      (ocSock s1 tcp srv).selfVariant = s1.selfVariant := by
  unfold ocSock; simp only [chan_frame, and_self]

theorem ocConnect_fields (s2 : St) (fd : Nat) (tcp : Bool) (srv : Server) (f : Option Nat) :
    (ocConnect s2 fd tcp srv f).conns = s2.conns ∧ (ocConnect s2 fd tcp srv f).servers = s2.servers ∧
      (ocConnect s2 fd tcp srv f).nextFd = s2.nextFd ∧ (ocConnect s2 fd tcp srv f).cfg = s2.cfg := by
  unfold ocConnect; cases f <;> simp only [chan_frame, and_self]

theorem ocClose_fields (s : St) (fd : Nat) :
    (ocClose s fd).conns = s.conns ∧ (ocClose s fd).servers = s.servers ∧
      (ocClose s fd).nextFd = s.nextFd ∧ (ocClose s fd).cfg = s.cfg := by
  unfold ocClose; simp only [chan_frame, and_self]

/-- what `ares_open_connection` does to connections, servers and the descriptor counter: on failure nothing (a
    descriptor number may be used up); on success the new connection has the next descriptor, the requested transport
    and no queries yet, and is recorded as the server's `tcp_conn` exactly if it is a TCP connection -/
theorem openConn_cases (s : St) (tcp : Bool) (srv : Server) :
    ((∀ fd, (openConn s tcp srv).1 ≠ .ok fd) ∧ (openConn s tcp srv).2.conns = s.conns ∧
        (openConn s tcp srv).2.servers = s.servers ∧ s.nextFd ≤ (openConn s tcp srv).2.nextFd ∧
        (openConn s tcp srv).2.cfg = s.cfg) ∨
    ((openConn s tcp srv).1 = .ok s.nextFd ∧
        (openConn s tcp srv).2.conns.map ukey = s.conns.map ukey ++ [(s.nextFd, tcp, 0)] ∧
        (openConn s tcp srv).2.servers =
          (s.modServer srv.id fun v =>
            { v with conns := if tcp then v.conns ++ [s.nextFd] else s.nextFd :: v.conns,
                     tcpConn := if tcp then some s.nextFd else v.tcpConn }).servers ∧
        (openConn s tcp srv).2.nextFd = s.nextFd + 1 ∧ (openConn s tcp srv).2.cfg = s.cfg) := by
  rw [openConn_eq]
  have hn : (s.fault "socket").2.nextFd = s.nextFd := St.faultsnd_nextFd s "socket"
  cases h1 : (s.fault "socket").1 with
  | some e =>
    left
    simp only [chan_frame, Nat.le_refl, and_self, and_true]
    intro fd h; cases h
  | none =>
    simp only [hn]
    generalize ((ocSock (s.fault "socket").2 tcp srv).fault "connect").1 = f2
    have hs := ocSock_fields (s.fault "socket").2 tcp srv
    simp only [chan_frame] at hs
    have h4 := ocConnect_fields ((ocSock (s.fault "socket").2 tcp srv).fault "connect").2 s.nextFd tcp srv f2
    simp only [chan_frame] at h4
    by_cases hcf : ocFail f2 = true
    · left
      simp only [hcf, ↓reduceIte]
      have h3 := ocClose_fields (ocConnect ((ocSock (s.fault "socket").2 tcp srv).fault "connect").2 s.nextFd tcp srv f2) s.nextFd
      refine ⟨(fun fd h => by cases h), ?_, ?_, ?_, ?_⟩
      · rw [h3.1, h4.1, hs.1]
      · rw [h3.2.1, h4.2.1, hs.2.1]
      · rw [h3.2.2.1, h4.2.2.1, hs.2.2.1]; omega
      · rw [h3.2.2.2, h4.2.2.2, hs.2.2.2.1]
    · simp only [hcf, Bool.false_eq_true, ↓reduceIte]
      cases h3 : ((ocConnect ((ocSock (s.fault "socket").2 tcp srv).fault "connect").2 s.nextFd tcp srv f2).fault
          "getsockname").1 with
      | some e =>
        left
        simp only []
        have h5 := ocClose_fields ((ocConnect ((ocSock (s.fault "socket").2 tcp srv).fault "connect").2 s.nextFd tcp srv f2).fault
          "getsockname").2 s.nextFd
        simp only [chan_frame] at h5
        refine ⟨(fun fd h => by cases h), ?_, ?_, ?_, ?_⟩
        · rw [h5.1, h4.1, hs.1]
        · rw [h5.2.1, h4.2.1, hs.2.1]
        · rw [h5.2.2.1, h4.2.2.1, hs.2.2.1]; omega
        · rw [h5.2.2.2, h4.2.2.2, hs.2.2.2.1]
      | none =>
        right
        simp only [true_and]
        unfold ocFinish
        simp only [chan_frame]
        refine ⟨?_, ?_, ?_, ?_⟩
        · rw [ukeys_notify]
          simp only [chan_frame, h4.1, hs.1, List.map_append, List.map_cons, List.map_nil, ukey]
        · simp only [St.modServer, h4.2.1, hs.2.1, chan_frame]
        · rw [h4.2.2.1, hs.2.2.1]
        · rw [h4.2.2.2, hs.2.2.2.1]

/-- one step of the invariant through a primitive that touches connections or servers -/
macro "uinv_step" : tactic => `(tactic| first
  | ((with_reducible refine UInvF_modConn _ _ _ ?_ ?_); (intro _; rfl))
  | (with_reducible refine UInvF_notify _ _ _ _ ?_)
  | (with_reducible refine UInvF_removeFromConn _ _ ?_)
  | (with_reducible refine UInvF_detach _ _ ?_)
  | (with_reducible refine UInvF_freeQuery _ _ ?_)
  | (with_reducible refine UInvF_advanceOut _ _ _ _ ?_)
  | ((with_reducible refine UInvF_modServer _ _ _ ?_ ?_); (intro _; first | exact .inl rfl | (split <;> simp)))
  | (with_reducible refine UInvF_incFailures _ _ _ ?_)
  | (with_reducible refine UInvF_setGood _ _ _ ?_)
  | (with_reducible refine UInvF_metricsRecord _ _ _ _ _ ?_)
  | (with_reducible refine UInvF.filter ?_ _))

syntax "uinv_peel " ident : tactic
macro_rules
  | `(tactic| uinv_peel $h) =>
    `(tactic| repeat (first
        | with_reducible assumption
        | with_reducible (apply $h)
        | (simp only [UInv, chan_frame])
        | uinv_step
        | (csplit <;> pair_subst)))

theorem eq_of_nodup_fd : ∀ {l : List Conn}, (l.map (·.fd)).Nodup → ∀ {a b : Conn}, a ∈ l → b ∈ l → a.fd = b.fd → a = b
  | [], _, _, _, ha, _, _ => by cases ha
  | x :: r, hn, a, b, ha, hb, hab => by
    simp only [List.map_cons, List.nodup_cons, List.mem_map, not_exists, not_and] at hn
    cases ha with
    | head =>
      cases hb with
      | head => rfl
      | tail _ hb => exact absurd hab.symm (hn.1 b hb)
    | tail _ ha =>
      cases hb with
      | head => exact absurd hab (hn.1 a ha)
      | tail _ hb => exact eq_of_nodup_fd hn.2 ha hb hab

theorem UInvF.mono {cs : List Conn} {sv : List Server} {n n' um : Nat} (h : UInvF cs sv n um) (hn : n ≤ n') :
    UInvF cs sv n' um :=
  ⟨h.nodup, fun c hc => Nat.lt_of_lt_of_le (h.lt c hc) hn,
    fun v hv fd hfd => Nat.lt_of_lt_of_le (h.tcpLt v hv fd hfd) hn, h.tcpOk, h.max⟩

/-- `ares_open_connection` keeps the invariant, and a connection it returns has room for a query -/
theorem UInv_openConn {s : St} (h : UInv s) (tcp : Bool) (srv : Server) :
    UInv (openConn s tcp srv).2 ∧
      ∀ fd, (openConn s tcp srv).1 = .ok fd → Room fd (openConn s tcp srv).2.conns s.cfg.udpMax := by
  rcases openConn_cases s tcp srv with ⟨hne, hc, hsv, hn, hcfg⟩ | ⟨hok, hc, hsv, hn, hcfg⟩
  · refine ⟨?_, fun fd hfd => absurd hfd (hne fd)⟩
    show UInvF _ _ _ _
    rw [hc, hsv, hcfg]; exact h.mono hn
  · have hfresh : ∀ c ∈ s.conns, c.fd ≠ s.nextFd := fun c hc => Nat.ne_of_lt (h.lt c hc)
    -- membership in the new connection table, through the `(fd, tcp, total)` view
    have hmem : ∀ c ∈ (openConn s tcp srv).2.conns,
        (∃ c0 ∈ s.conns, ukey c0 = ukey c) ∨ ukey c = (s.nextFd, tcp, 0) := by
      intro c hcm
      have : ukey c ∈ s.conns.map ukey ++ [(s.nextFd, tcp, 0)] := by rw [← hc]; exact List.mem_map_of_mem hcm
      simp only [List.mem_append, List.mem_map, List.mem_singleton] at this
      rcases this with ⟨c0, h0, hk⟩ | hk
      · exact .inl ⟨c0, h0, hk⟩
      · exact .inr hk
    constructor
    · show UInvF _ _ _ _
      rw [hn, hcfg]
      constructor
      · have : (openConn s tcp srv).2.conns.map (·.fd) = s.conns.map (·.fd) ++ [s.nextFd] := by
          have := congrArg (List.map (·.1)) hc
          simp only [List.map_map, List.map_append, List.map_cons, List.map_nil] at this
          exact this
        rw [this, List.nodup_append]
        refine ⟨h.nodup, by simp, ?_⟩
        intro a ha b hb
        simp only [List.mem_singleton] at hb; subst hb
        simp only [List.mem_map] at ha
        obtain ⟨c, hcm, rfl⟩ := ha
        exact hfresh c hcm
      · intro c hcm
        rcases hmem c hcm with ⟨c0, h0, hk⟩ | hk
        · have : c0.fd = c.fd := congrArg (·.1) hk
          have := h.lt c0 h0; omega
        · have : c.fd = s.nextFd := congrArg (·.1) hk
          omega
      · intro v hv fd hfd
        rw [hsv] at hv
        simp only [St.modServer, List.mem_map] at hv
        obtain ⟨x, hx, rfl⟩ := hv
        split at hfd
        · simp only at hfd
          split at hfd
          · cases hfd; omega
          · have := h.tcpLt x hx fd hfd; omega
        · have := h.tcpLt x hx fd hfd; omega
      · intro v hv fd hfd c hcm hcfd
        rw [hsv] at hv
        simp only [St.modServer, List.mem_map] at hv
        obtain ⟨x, hx, rfl⟩ := hv
        have hold : x.tcpConn = some fd → c.tcp = true := by
          intro hx'
          rcases hmem c hcm with ⟨c0, h0, hk⟩ | hk
          · have h1 : c0.fd = c.fd := congrArg (·.1) hk
            have h2 : c0.tcp = c.tcp := congrArg (·.2.1) hk
            rw [← h2]; exact h.tcpOk x hx fd hx' c0 h0 (by rw [h1]; exact hcfd)
          · have h1 : c.fd = s.nextFd := congrArg (·.1) hk
            have := h.tcpLt x hx fd hx'; omega
        split at hfd
        · simp only at hfd
          split at hfd
          · rename_i htcp
            cases hfd
            rcases hmem c hcm with ⟨c0, h0, hk⟩ | hk
            · have h1 : c0.fd = c.fd := congrArg (·.1) hk
              exact absurd (h1.trans hcfd) (hfresh c0 h0)
            · have h2 : c.tcp = tcp := congrArg (·.2.1) hk
              rw [h2]; exact htcp
          · exact hold hfd
        · exact hold hfd
      · intro hum c hcm ht
        rcases hmem c hcm with ⟨c0, h0, hk⟩ | hk
        · have h2 : c0.tcp = c.tcp := congrArg (·.2.1) hk
          have h3 : c0.total = c.total := congrArg (·.2.2) hk
          rw [← h3]; exact h.max hum c0 h0 (by rw [h2]; exact ht)
        · have h3 : c.total = 0 := congrArg (·.2.2) hk
          omega
    · intro fd hfd
      rw [hok] at hfd
      cases hfd
      intro hum c hcm hcfd ht
      rcases hmem c hcm with ⟨c0, h0, hk⟩ | hk
      · have h1 : c0.fd = c.fd := congrArg (·.1) hk
        exact absurd (h1.trans hcfd) (hfresh c0 h0)
      · have h3 : c.total = 0 := congrArg (·.2.2) hk
        omega

/-- `ares_fetch_connection` only returns a connection that has room (a UDP connection below the limit, or the server's
    TCP connection) -/
theorem fetchConn_room {s : St} (h : UInv s) (q : Query) (srv : Server) (hsrv : srv ∈ s.servers) (fd : Nat)
    (hf : fetchConn s q srv = some fd) : Room fd s.conns s.cfg.udpMax := by
  unfold fetchConn at hf
  intro hum c hc hcfd ht
  split at hf
  · -- TCP: the server's tcp_conn is a TCP connection
    have := h.tcpOk srv hsrv fd hf c hc hcfd
    rw [ht] at this; cases this
  · split at hf
    · cases hf
    · rename_i fd' _
      split at hf
      · cases hf
      · rename_i c' hc'
        split at hf
        · cases hf
        · split at hf
          · cases hf
          · rename_i hnt hlim
            cases hf
            -- `c'` is the connection found for `fd`; descriptors are distinct, so it is `c`
            have hm' := List.mem_of_find?_eq_some hc'
            have hfd' := List.find?_some hc'
            simp only [beq_iff_eq] at hfd'
            have : c' = c := eq_of_nodup_fd h.nodup hm' hc (hfd'.trans hcfd.symm)
            subst this
            simp only [Bool.and_eq_true, decide_eq_true_eq, not_and, Nat.not_le] at hlim
            exact hlim hum

theorem ukeys_sqPrep (key : Nat) (q : Query) (srv : Server) (fd : Nat) (s : St) :
    (sqPrepare key q srv fd s).1.conns.map ukey = s.conns.map ukey := by
  unfold sqPrepare
  simp only []
  show (St.modConn _ fd _).conns.map ukey = _
  rw [ukeys_modConn]
  · simp only [chan_frame]
    repeat' split
    all_goals simp only [chan_frame]
  · intro c; rfl

theorem UInv_sqPrep {s : St} (h : UInv s) (key : Nat) (q : Query) (srv : Server) (fd : Nat) :
    UInv (sqPrepare key q srv fd s).1 := by
  show UInvF _ _ _ _
  simp only [chan_frame]
  refine (h.conns_congr (ukeys_sqPrep key q srv fd s)).servers_sub ?_
  unfold sqPrepare
  simp only [chan_frame]
  intro v' hv'
  have := servers_modServer_sub _ _ _ (by intro v; exact .inl rfl) v' hv'
  revert this
  repeat' split
  all_goals (try simp only [chan_frame])
  all_goals exact id

/-- the bookkeeping of `ares_send_query` before the query is counted on its connection leaves `(fd, tcp, total)`
    alone -/
theorem ukeys_sqLinkPre (key : Nat) (srv : Server) (fd : Nat) (q : Query) (s : St) :
    (sqLinkPre key srv fd q s).conns.map ukey = s.conns.map ukey := by
  unfold sqLinkPre
  cases q.conn with
  | none =>
    simp only [chan_frame]
    split <;> simp only [chan_frame]
  | some old =>
    simp only [chan_frame]
    rw [ukeys_modConn]
    · split <;> simp only [chan_frame]
    · intro c; rfl

theorem sk_mem_insertServer {v x : Server} : ∀ {l : List Server}, x ∈ insertServer v l → x = v ∨ x ∈ l
  | [], h => by simp only [insertServer, List.mem_singleton] at h; exact .inl h
  | y :: r, h => by
    simp only [insertServer] at h
    split at h
    · simp only [List.mem_cons] at h ⊢
      rcases h with h | h | h
      · exact .inl h
      · exact .inr (.inl h)
      · exact .inr (.inr h)
    · simp only [List.mem_cons] at h ⊢
      rcases h with h | h
      · exact .inr (.inl h)
      · rcases sk_mem_insertServer h with h | h
        · exact .inl h
        · exact .inr (.inr h)

theorem sk_mem_foldl_insertServer {x : Server} : ∀ (l acc : List Server),
    x ∈ l.foldl (fun acc v => insertServer v acc) acc → x ∈ l ∨ x ∈ acc
  | [], _, h => .inr h
  | v :: r, acc, h => by
    simp only [List.foldl_cons] at h
    rcases sk_mem_foldl_insertServer r _ h with h | h
    · exact .inl (List.mem_cons_of_mem _ h)
    · rcases sk_mem_insertServer h with h | h
      · exact .inl (by rw [h]; exact List.mem_cons_self ..)
      · exact .inr h

theorem sk_mem_sortedServers {s : St} {x : Server} (h : x ∈ s.sortedServers) : x ∈ s.servers := by
  rcases sk_mem_foldl_insertServer s.servers [] h with h | h
  · exact h
  · cases h

/-- the server `ares_send_query` picks is one of the channel's servers -/
theorem pickServer_mem {s : St} {reqSrv : Option Nat} {srv : Server} (h : (pickServer reqSrv s).1 = some srv) :
    srv ∈ s.servers := by
  unfold pickServer at h
  split at h
  · exact List.mem_of_find?_eq_some h
  · split at h
    · simp only [] at h
      split at h
      · cases h
      · exact sk_mem_sortedServers (List.mem_of_getElem? h)
    · exact sk_mem_sortedServers (List.mem_of_mem_head? h)

section
variable (go : Call → St → St × Ret) (hgo : ∀ c s, UInv s → UInv (go c s).1)
  (hfl : ∀ fd s, (go (.flush fd) s).1.conns.map ukey = s.conns.map ukey ∧ (go (.flush fd) s).1.cfg = s.cfg)
include hgo hfl

theorem sqFlush_UInv (fd : Nat) (s : St) (h : UInv s) :
    UInv (sqFlush go fd s).2 ∧ (sqFlush go fd s).2.conns.map ukey = s.conns.map ukey ∧
      (sqFlush go fd s).2.cfg = s.cfg := by
  unfold sqFlush
  simp only []
  split
  · exact ⟨h, rfl, rfl⟩
  · split
    · exact ⟨by simpa only [UInv, chan_frame] using h, by simp only [chan_frame], by simp only [chan_frame]⟩
    · exact ⟨hgo _ _ h, (hfl fd s).1, (hfl fd s).2⟩

omit hfl in
theorem sqLink_UInv (pd : Bool) (key : Nat) (srv : Server) (fd : Nat) (s : St) (h : UInv s)
    (hroom : Room fd s.conns s.cfg.udpMax) : UInv (sqLink go pd key srv fd s).1 := by
  -- the counting step
  have hcount : ∀ (s' : St), s'.conns.map ukey = s.conns.map ukey → s'.servers = s.servers → s'.nextFd = s.nextFd →
      s'.cfg = s.cfg →
      UInv (s'.modConn fd fun c => { c with queries := c.queries.erase key ++ [key], total := c.total + 1 }) := by
    intro s' hk hsv hn hcfg
    have h' : UInvF s'.conns s.servers s.nextFd s.cfg.udpMax := h.conns_congr hk
    have hroom' : Room fd s'.conns s.cfg.udpMax := hroom.conns_congr hk
    show UInvF _ _ _ _
    simp only [chan_frame, hsv, hn, hcfg]
    have hmem : ∀ c ∈ (s'.modConn fd fun c => { c with queries := c.queries.erase key ++ [key], total := c.total + 1 }).conns,
        ∃ c0 ∈ s'.conns, c.fd = c0.fd ∧ c.tcp = c0.tcp ∧
          ((c0.fd = fd ∧ c.total = c0.total + 1) ∨ (c0.fd ≠ fd ∧ c.total = c0.total)) := by
      intro c hc
      simp only [St.modConn, List.mem_map] at hc
      obtain ⟨c0, h0, rfl⟩ := hc
      refine ⟨c0, h0, ?_⟩
      split
      · rename_i hfd; simp only [beq_iff_eq] at hfd; exact ⟨rfl, rfl, .inl ⟨hfd, rfl⟩⟩
      · rename_i hfd; simp only [beq_iff_eq] at hfd; exact ⟨rfl, rfl, .inr ⟨hfd, rfl⟩⟩
    constructor
    · have : (s'.modConn fd fun c => { c with queries := c.queries.erase key ++ [key], total := c.total + 1 }).conns.map (·.fd)
          = s'.conns.map (·.fd) := by
        simp only [St.modConn, List.map_map]
        apply List.map_congr_left
        intro c _; simp only [Function.comp]; split <;> rfl
      rw [this]; exact h'.nodup
    · intro c hc
      obtain ⟨c0, h0, h1, _, _⟩ := hmem c hc
      rw [h1]; exact h'.lt c0 h0
    · exact h'.tcpLt
    · intro v hv fd' hfd' c hc hcfd
      obtain ⟨c0, h0, h1, h2, _⟩ := hmem c hc
      rw [h2]; exact h'.tcpOk v hv fd' hfd' c0 h0 (by rw [← h1]; exact hcfd)
    · intro hum c hc ht
      obtain ⟨c0, h0, h1, h2, h3⟩ := hmem c hc
      rcases h3 with ⟨hfd, ht3⟩ | ⟨_, ht3⟩
      · have := hroom' hum c0 h0 hfd (by rw [← h2]; exact ht)
        omega
      · rw [ht3]; exact h'.max hum c0 h0 (by rw [← h2]; exact ht)
  unfold sqLink
  split
  · rename_i q _ hq hc
    simp only []
    have hc' := hcount (sqLinkPre key srv fd q s) (ukeys_sqLinkPre key srv fd q s) (by simp only [chan_frame])
      (by simp only [chan_frame]) (by simp only [chan_frame])
    split
    · exact hgo _ _ hc'
    · exact hc'
  · simpa only [UInv, chan_frame] using h
  · simpa only [UInv, chan_frame] using h

theorem sqWriteQ_UInv (reqSrv : Option Nat) (key : Nat) (q : Query) (srv : Server) (fd : Nat) (s : St)
    (h : UInv s) (hroom : Room fd s.conns s.cfg.udpMax) : UInv (sqWriteQ go reqSrv key q srv fd s).1 := by
  have h1 : UInv (sqPrepare key q srv fd s).1 := UInv_sqPrep h key q srv fd
  have hr1 : Room fd (sqPrepare key q srv fd s).1.conns (sqPrepare key q srv fd s).1.cfg.udpMax := by
    simp only [chan_frame]; exact hroom.conns_congr (ukeys_sqPrep key q srv fd s)
  obtain ⟨h2, hk2, hc2⟩ := sqFlush_UInv go hgo hfl fd _ h1
  have hr2 : Room fd (sqFlush go fd (sqPrepare key q srv fd s).1).2.conns
      (sqFlush go fd (sqPrepare key q srv fd s).1).2.cfg.udpMax := by
    rw [hc2]; exact hr1.conns_congr hk2
  unfold sqWriteQ
  simp only []
  split
  · exact sqLink_UInv go hgo _ _ _ _ _ h2 hr2
  · exact hgo _ _ h2
  all_goals uinv_peel hgo

theorem bodySendQuery_UInv (reqSrv : Option Nat) (key : Nat) (s : St) (h : UInv s) :
    UInv (bodySendQuery go reqSrv key s).1 := by
  rw [bodySendQuery_stages]
  split
  · simpa only [UInv, chan_frame] using h
  · rename_i q _
    simp only []
    split
    · exact hgo _ _ (by simpa only [UInv, chan_frame] using h)
    · rename_i srv hsrv
      generalize hs1 : ({ (pickServer reqSrv s).2 with picks := _ } : St) = s1
      have h1 : UInv s1 := by
        rw [← hs1]; simpa only [UInv, chan_frame] using h
      have hmem : srv ∈ s1.servers := by
        rw [← hs1]
        simp only [chan_frame]
        exact pickServer_mem hsrv
      cases hfc : fetchConn s1 q srv with
      | some fd =>
        simp only []
        exact sqWriteQ_UInv go hgo hfl _ _ _ _ _ _ h1 (fetchConn_room h1 q srv hmem fd hfc)
      | none =>
        simp only []
        obtain ⟨h2, hroom⟩ := UInv_openConn h1 q.usingTcp srv
        cases hr : (openConn s1 q.usingTcp srv).1 with
        | error st =>
          simp only []
          apply hgo
          show UInvF _ _ _ _
          simp only [chan_frame]
          refine UInvF_incFailures _ _ _ ?_
          simpa only [UInv, chan_frame] using h2
        | ok fd =>
          simp only []
          have hcfg : (openConn s1 q.usingTcp srv).2.cfg = s1.cfg := by simp only [chan_frame]
          exact sqWriteQ_UInv go hgo hfl _ _ _ _ _ _ h2 (by rw [hcfg]; exact hroom fd hr)


theorem paDeliver_UInv (fd : Nat) (r : Reply) (c : Conn) (key : Nat) (q : Query) (s : St) (h : UInv s) :
    UInv (paDeliver go fd r c key q s).1 := by
  unfold paDeliver
  uinv_peel hgo

theorem bodyProcessAnswer_UInv (fd : Nat) (r : Reply) (s : St) (h : UInv s) :
    UInv (bodyProcessAnswer go fd r s).1 := by
  cases hk : acceptKey s fd r with
  | some key =>
    obtain ⟨c, q, _, _, _, heq⟩ := bodyProcessAnswer_accept go hk
    rw [heq]
    refine paDeliver_UInv go hgo hfl fd r c key q _ ?_
    unfold paPre
    uinv_peel hgo
  | none =>
    rcases bodyProcessAnswer_reject go hk with h' | ⟨e, h'⟩ | ⟨c, key, q, _, _, _, h'⟩
    · rw [h']; exact h
    · rw [h']; exact h
    · rw [h']
      have : UInv (paPre s c key q r) := by unfold paPre; uinv_peel hgo
      split
      · exact hgo _ _ this
      · exact this

omit hgo in
theorem bodyFlush_ukeys (fd : Nat) (s : St) :
    (bodyFlush go fd s).1.conns.map ukey = s.conns.map ukey ∧ (bodyFlush go fd s).1.cfg = s.cfg := by
  have hm : ∀ (s' : St) (f : Conn → Conn), (∀ c, ukey (f c) = ukey c) →
      (s'.modConn fd f).conns.map ukey = s'.conns.map ukey := fun s' f hf => ukeys_modConn s' fd f hf
  constructor
  · unfold bodyFlush
    repeat (first
      | with_reducible rfl
      | (simp only [chan_frame, ukeys_notify, ukeys_advanceOut, (hfl _ _).1])
      | (rw [hm _ _ (by intro c; rfl)])
      | (csplit <;> pair_subst))
  · unfold bodyFlush
    repeat (first
      | with_reducible rfl
      | (simp only [chan_frame, (hfl _ _).2])
      | (csplit <;> pair_subst))

theorem foldl_closeConn_UInv (fds : List Nat) (s : St) (h : UInv s) :
    UInv (fds.foldl (fun s fd => (go (.closeConn fd .ok) s).1) s) := by
  induction fds generalizing s with
  | nil => exact h
  | cons fd rest ih => exact ih _ (hgo _ _ h)

theorem execBody_UInv (c : Call) (s : St) (h : UInv s) : UInv (execBody go c s).1 := by
  cases c <;> simp only [execBody]
  case processAnswer fd r => exact bodyProcessAnswer_UInv go hgo hfl fd r s h
  case sendQuery r k => exact bodySendQuery_UInv go hgo hfl r k s h
  case destroy =>
    unfold bodyDestroy
    simp only []
    have : UInv { s with destroying := true } := h
    have h2 := foldl_closeConn_UInv go hgo hfl
      ((go (Call.cancelLoop Status.destruction true) { s with destroying := true }).1.sortedServers.map (·.conns)).flatten
      (go (Call.cancelLoop Status.destruction true) { s with destroying := true }).1
      (hgo (Call.cancelLoop Status.destruction true) { s with destroying := true } this)
    exact h2
  all_goals (unfold_body; uinv_peel hgo)

end

/-- **`udp_max_queries` along every run**: the invariant is preserved by every procedure at every fuel, and
    `ares_conn_flush` never changes a connection's descriptor, transport or query count -/
theorem exec_UInv (fuel : Nat) (c : Call) (s : St) :
    (UInv s → UInv (exec fuel c s).1) ∧
      (∀ fd, c = .flush fd → (exec fuel c s).1.conns.map ukey = s.conns.map ukey ∧ (exec fuel c s).1.cfg = s.cfg) := by
  refine exec_spec (fun c s out => (UInv s → UInv out.1) ∧
      (∀ fd, c = .flush fd → out.1.conns.map ukey = s.conns.map ukey ∧ out.1.cfg = s.cfg)) ?_ ?_ fuel c s
  · intro c s
    exact ⟨fun h => h, fun fd _ => ⟨rfl, rfl⟩⟩
  · intro go hgo c s
    have hgo1 : ∀ c s, UInv s → UInv (go c s).1 := fun c s => (hgo c s).1
    have hfl : ∀ fd s, (go (.flush fd) s).1.conns.map ukey = s.conns.map ukey ∧ (go (.flush fd) s).1.cfg = s.cfg :=
      fun fd s => (hgo (.flush fd) s).2 fd rfl
    refine ⟨execBody_UInv go hgo1 hfl c s, ?_⟩
    intro fd hc
    subst hc
    simp only [execBody]
    exact bodyFlush_ukeys go hfl fd s

end Cares.Chan
