import CaresLemmas.SListOps
/-! Helper lemmas for the skip-list model, part 4: ares_slist_node_find. -/
namespace Cares.Dsa.SList

/-- the walk along one level: either it stops on a node with the key, or no node of the walked part has the key
    and the node it hands down is a walked node with a smaller key (or the start's predecessor, which happens only
    when the very first node is already larger) -/
theorem walk_spec (key : Nat → Nat) (k : Nat) (prev : Option Nat) (rest : List Nat) (hs : Sorted key rest) :
    match walk key k prev rest with
    | .found x => x ∈ rest ∧ key x = k
    | .cont node' => (∀ y ∈ rest, key y ≠ k) ∧
        ∀ c, node' = some c → (c ∈ rest ∧ key c < k) ∨ (prev = some c ∧ ∀ x, rest.head? = some x → k < key x) := by
  induction rest generalizing prev with
  | nil =>
    simp only [walk]
    exact ⟨fun y hy => by simp at hy, fun c hc => by cases hc⟩
  | cons x r ih =>
    have hp := List.pairwise_cons.1 hs
    unfold walk
    by_cases h1 : k < key x
    · rw [if_pos h1]
      simp only
      refine ⟨?_, ?_⟩
      · intro y hy
        rcases List.mem_cons.1 hy with rfl | hy
        · omega
        · have := hp.1 y hy; omega
      · intro c hc; right; exact ⟨hc, fun x' hx' => by simp at hx'; subst hx'; exact h1⟩
    · rw [if_neg h1]
      by_cases h2 : k = key x
      · rw [if_pos h2]; exact ⟨List.mem_cons_self, h2.symm⟩
      · rw [if_neg h2]
        have := ih (some x) hp.2
        cases hw : walk key k (some x) r with
        | found y =>
          rw [hw] at this
          exact ⟨List.mem_cons_of_mem _ this.1, this.2⟩
        | cont node' =>
          rw [hw] at this
          refine ⟨?_, ?_⟩
          · intro y hy
            rcases List.mem_cons.1 hy with rfl | hy
            · omega
            · exact this.1 y hy
          · intro c hc
            left
            rcases this.2 c hc with ⟨hm, hk⟩ | ⟨hpx, _⟩
            · exact ⟨List.mem_cons_of_mem _ hm, hk⟩
            · cases hpx; exact ⟨List.mem_cons_self, by omega⟩

/-- one level of the find loop -/
theorem findLevel_spec (key : Nat → Nat) (k : Nat) (l : List Nat) (node : Option Nat) (hs : Sorted key l) (hnd : l.Nodup)
    (hnode : ∀ c, node = some c → c ∈ l ∧ key c < k) :
    match findLevel key k l node with
    | .found x => x ∈ l ∧ key x = k
    | .cont node' => (∀ y ∈ l, key y ≠ k) ∧ ∀ c, node' = some c → c ∈ l ∧ key c < k := by
  unfold findLevel
  cases node with
  | none =>
    simp only
    have := walk_spec key k none l hs
    cases hw : walk key k none l with
    | found x => rw [hw] at this; exact this
    | cont node' =>
      rw [hw] at this
      refine ⟨this.1, ?_⟩
      intro c hc
      rcases this.2 c hc with h | ⟨h, _⟩
      · exact h
      · cases h
  | some c =>
    simp only
    obtain ⟨hcl, hck⟩ := hnode c rfl
    obtain ⟨pre, post, e⟩ := List.append_of_mem hcl
    have hcpre : c ∉ pre := by
      rw [e] at hnd
      have := (List.nodup_append.1 hnd).2.2
      intro hm; exact this c hm c List.mem_cons_self rfl
    have hafter : after c l = post := by rw [e]; exact after_split c pre post hcpre
    rw [hafter]
    have hs' : Sorted key (pre ++ c :: post) := by rw [← e]; exact hs
    have hsp := List.pairwise_append.1 hs'
    have hpre : ∀ y ∈ pre, key y ≠ k := by
      intro y hy
      have := hsp.2.2 y hy c List.mem_cons_self
      omega
    have := walk_spec key k (prevOf c l) (c :: post) hsp.2.1
    cases hw : walk key k (prevOf c l) (c :: post) with
    | found x =>
      rw [hw] at this
      refine ⟨?_, this.2⟩
      rw [e]; exact List.mem_append_right _ this.1
    | cont node' =>
      rw [hw] at this
      refine ⟨?_, ?_⟩
      · intro y hy
        rw [e] at hy
        rcases List.mem_append.1 hy with hy | hy
        · exact hpre y hy
        · exact this.1 y hy
      · intro c' hc'
        rcases this.2 c' hc' with ⟨hm, hk⟩ | ⟨_, hh⟩
        · exact ⟨by rw [e]; exact List.mem_append_right _ hm, hk⟩
        · have := hh c rfl; omega

/-- the level loop: it returns a node with the key if and only if level 0 has one -/
theorem findLevels_spec (key : Nat → Nat) (k : Nat) (lv : List (List Nat)) (node : Option Nat)
    (hg : AllGood key lv) (hsub : SubChain lv)
    (hnode : ∀ c, node = some c → ∀ l, lv.head? = some l → c ∈ l ∧ key c < k) :
    match findLevels key k lv node with
    | some x => x ∈ lv.getLast?.getD [] ∧ key x = k
    | none => ∀ y ∈ lv.getLast?.getD [], key y ≠ k := by
  induction lv generalizing node with
  | nil => simp [findLevels]
  | cons l below ih =>
    obtain ⟨hs, hnd⟩ := hg l List.mem_cons_self
    have h1 := findLevel_spec key k l node hs hnd (fun c hc => hnode c hc l rfl)
    unfold findLevels
    cases hf : findLevel key k l node with
    | found x =>
      rw [hf] at h1
      simp only
      exact ⟨(sublist_level0 (l :: below) hsub l List.mem_cons_self).subset h1.1, h1.2⟩
    | cont node' =>
      rw [hf] at h1
      simp only
      cases below with
      | nil =>
        simp only [findLevels, List.getLast?_singleton, Option.getD_some]
        exact h1.1
      | cons lo r =>
        have := ih node' (fun l' hl' => hg l' (List.mem_cons_of_mem _ hl')) hsub.2 (by
          intro c hc l' hl'
          simp only [List.head?_cons, Option.some.injEq] at hl'
          subst hl'
          obtain ⟨m, hk⟩ := h1.2 c hc
          exact ⟨hsub.1.subset m, hk⟩)
        rw [List.getLast?_cons_cons]
        exact this

theorem backToFirst_eq (key : Nat → Nat) (k cur : Nat) (r : List Nat) :
    backToFirst key k cur r = ((r.takeWhile (fun p => key p == k)).getLast?).getD cur := by
  induction r generalizing cur with
  | nil => rfl
  | cons p r ih =>
    unfold backToFirst
    by_cases h : key p = k
    · rw [if_pos h, ih p, List.takeWhile_cons_of_pos (by simpa using h), getLast?_cons_getD]; rfl
    · rw [if_neg h, List.takeWhile_cons_of_neg (by simpa using h)]; rfl

theorem takeWhile_nil_of_all_false (p : Nat → Bool) (l : List Nat) (h : ∀ a ∈ l, p a = false) : l.takeWhile p = [] := by
  cases l with
  | nil => rfl
  | cons a r => rw [List.takeWhile_cons_of_neg (by rw [h a List.mem_cons_self]; simp)]

/-- walking back from a node with the key along a sorted level 0 ends on the first node with the key -/
theorem back_first (key : Nat → Nat) (k x : Nat) (l0 : List Nat) (hs : Sorted key l0) (hnd : l0.Nodup) (hx : x ∈ l0)
    (hk : key x = k) :
    backToFirst key k x (l0.takeWhile (· != x)).reverse = (l0.find? (fun y => key y == k)).getD x ∧
      (l0.find? (fun y => key y == k)).isSome := by
  obtain ⟨pre, post, e⟩ := List.append_of_mem hx
  have hxpre : x ∉ pre := by
    rw [e] at hnd
    have := (List.nodup_append.1 hnd).2.2
    intro hm; exact this x hm x List.mem_cons_self rfl
  have htw : l0.takeWhile (· != x) = pre := by
    rw [e]
    clear e hs hnd hx
    induction pre with
    | nil => simp
    | cons a l ih =>
      have ha : a ≠ x := fun e => hxpre (e ▸ List.mem_cons_self)
      rw [List.cons_append, List.takeWhile_cons_of_pos (by simpa using ha), ih (fun hm => hxpre (List.mem_cons_of_mem _ hm))]
  rw [htw, backToFirst_eq]
  have hs' : Sorted key (pre ++ x :: post) := by rw [← e]; exact hs
  have hsp := List.pairwise_append.1 hs'
  have hprele : ∀ y ∈ pre, key y ≤ k := by
    intro y hy; have := hsp.2.2 y hy x List.mem_cons_self; omega
  -- pre = (smaller keys) ++ (equal keys)
  have htd := List.takeWhile_append_dropWhile (p := Lt key k) (l := pre)
  obtain ⟨f1, f2⟩ := takeWhile_eq_filter key k pre hsp.1
  have hA : ∀ a ∈ pre.takeWhile (Lt key k), (key a == k) = false := by
    intro a ha
    have := mem_takeWhile_pos _ _ _ ha
    simp only [Lt, decide_eq_true_eq] at this
    simp; omega
  have hB : ∀ b ∈ pre.dropWhile (Lt key k), (key b == k) = true := by
    intro b hb
    rw [f2, List.mem_filter] at hb
    have h1 := hprele b hb.1
    have h2 := hb.2
    simp only [Lt, Bool.not_eq_eq_eq_not, Bool.not_true, decide_eq_false_iff_not, Nat.not_lt] at h2
    simp; omega
  have hrev : pre.reverse = (pre.dropWhile (Lt key k)).reverse ++ (pre.takeWhile (Lt key k)).reverse := by
    conv => lhs; rw [← htd]
    rw [List.reverse_append]
  have htwr : pre.reverse.takeWhile (fun p => key p == k) = (pre.dropWhile (Lt key k)).reverse := by
    rw [hrev, List.takeWhile_append_of_pos (fun a ha => hB a (List.mem_reverse.1 ha)),
      takeWhile_nil_of_all_false _ _ (fun a ha => hA a (List.mem_reverse.1 ha)), List.append_nil]
  rw [htwr, List.getLast?_reverse]
  have hfind : l0.find? (fun y => key y == k) = some (((pre.dropWhile (Lt key k)).head?).getD x) := by
    rw [e]
    conv => lhs; rw [← htd]
    rw [List.append_assoc, List.find?_append]
    have hnone : (pre.takeWhile (Lt key k)).find? (fun y => key y == k) = none := by
      rw [List.find?_eq_none]; intro a ha; rw [hA a ha]; simp
    rw [hnone, Option.none_or]
    cases hd : pre.dropWhile (Lt key k) with
    | nil =>
      rw [List.nil_append, List.find?_cons_of_pos (by simpa using hk)]; rfl
    | cons b r =>
      have := hB b (by rw [hd]; exact List.mem_cons_self)
      rw [List.cons_append, List.find?_cons]
      simp only [this]; rfl
  rw [hfind]
  exact ⟨rfl, rfl⟩

/-- ares_slist_node_find returns the first node of the list whose key equals the one looked for -/
theorem find_spec (s : SList) (k : Nat) (h : Inv s) : s.find k = s.level0.find? (fun y => s.key y == k) := by
  have hg := allGood_of_level0 s.key s.lv h.sub h.sorted h.nodup
  have h1 := findLevels_spec s.key k s.lv none hg h.sub (fun c hc => by cases hc)
  unfold find
  cases hf : findLevels s.key k s.lv none with
  | none =>
    rw [hf] at h1
    simp only
    symm
    rw [List.find?_eq_none]
    intro y hy
    have := h1 y hy
    simpa using this
  | some x =>
    rw [hf] at h1
    simp only
    obtain ⟨b1, b2⟩ := back_first s.key k x s.level0 h.sorted h.nodup h1.1 h1.2
    rw [b1]
    cases hfi : s.level0.find? (fun y => s.key y == k) with
    | none => rw [hfi] at b2; cases b2
    | some y => rfl

end Cares.Dsa.SList
