import CaresLemmas.ChanAlignOps
/-!
# TCP read alignment (C20) — every procedure keeps the invariant

`exec_Al`: for every side property `Q` that holds of freshly opened connections (`QFresh Q N0`) and says nothing about
the connection a read call works on (`okCall Q call`), `Al Q N0` is kept by `exec fuel call`.  With `Q := True` this
is the alignment invariant; with a snapshot of one connection's inbound side it is the frame property "procedures
other than `read_conn_packets` / `read_answers` on that connection do not move its read position".
-/
namespace Cares.Chan

/-- `Q` does not look at what a read call changes of the connection it works on -/
def okCall (Q : Nat → SV → CV → Prop) : Call → Prop
  | .processRead fd => QRead Q fd
  | .readAnswers fd => QRead Q fd
  | .sendNolock .. => True | .sendQuery .. => True | .requeue .. => True | .endQuery .. => True | .callback .. => True
  | .reactions .. => True | .closeConn .. => True | .closeLoop .. => True | .connError .. => True | .flush .. => True
  | .processWrite .. => True | .processAnswer .. => True | .flushRequeue => True
  | .processTimeouts => True | .cleanupConns .. => True | .cancel => True | .cancelLoop .. => True | .destroy => True
  | .probe .. => True | .clientStart .. => True | .runActs .. => True | .userCb .. => True

macro "al_step" : tactic => `(tactic| first
  | ((with_reducible refine AlF_modConn _ _ _ ?_ ?_); (intro _; rfl))
  | ((with_reducible refine AlF_modSock _ _ _ ?_ ?_); (intro _; rfl))
  | (with_reducible refine AlF_notify _ _ _ _ ?_)
  | (with_reducible refine AlF_removeFromConn _ _ ?_)
  | (with_reducible refine AlF_detach _ _ ?_)
  | (with_reducible refine AlF_freeQuery _ _ ?_)
  | (with_reducible refine AlF_advanceOut _ _ _ _ ?_)
  | (with_reducible refine AlF_sqPrep _ _ _ _ _ ?_)
  | (with_reducible refine AlF_sqLinkPre _ _ _ _ _ ?_)
  | ((with_reducible refine AlF_unlink _ _ _ ?_ ?_); (intro _; rfl))
  | (with_reducible refine AlF_filter _ _ ?_))

syntax "al_peel " ident : tactic
macro_rules
  | `(tactic| al_peel $h) =>
    `(tactic| repeat (first
        | with_reducible assumption
        | with_reducible (apply $h)
        | (simp only [Al, okCall, chan_frame])
        | al_step
        | (csplit <;> pair_subst)))

section
variable {Q : Nat → SV → CV → Prop} {N0 : Nat} (hQ : QFresh Q N0) (go : Call → St → St × Ret)
  (hgo : ∀ c s, okCall Q c → Al Q N0 s → Al Q N0 (go c s).1)
include hgo

theorem bodyRequeue_Al (a b c d e) (s : St) (h : Al Q N0 s) : Al Q N0 (bodyRequeue go a b c d e s).1 := by
  unfold bodyRequeue
  al_peel hgo

theorem bodyCloseConn_Al (fd : Nat) (st : Status) (s : St) (h : Al Q N0 s) : Al Q N0 (bodyCloseConn go fd st s).1 := by
  unfold bodyCloseConn
  al_peel hgo

theorem bodyCloseLoop_Al (fd : Nat) (st : Status) (s : St) (h : Al Q N0 s) : Al Q N0 (bodyCloseLoop go fd st s).1 := by
  unfold bodyCloseLoop
  al_peel hgo

theorem sqFlush_Al (fd : Nat) (s : St) (h : Al Q N0 s) : Al Q N0 (sqFlush go fd s).2 := by
  unfold sqFlush; al_peel hgo

theorem sqLink_Al (pd : Bool) (key : Nat) (srv : Server) (fd : Nat) (s : St) (h : Al Q N0 s) :
    Al Q N0 (sqLink go pd key srv fd s).1 := by
  unfold sqLink; al_peel hgo

theorem sqWriteQ_Al (reqSrv : Option Nat) (key : Nat) (q : Query) (srv : Server) (fd : Nat) (s : St)
    (h : Al Q N0 s) : Al Q N0 (sqWriteQ go reqSrv key q srv fd s).1 := by
  have h1 : Al Q N0 (sqPrepare key q srv fd s).1 := by
    simp only [Al, chan_frame]; exact AlF_sqPrep _ _ _ _ _ h
  have h2 := sqFlush_Al go hgo fd _ h1
  unfold sqWriteQ
  simp only []
  split
  · exact sqLink_Al go hgo _ _ _ _ _ h2
  · exact hgo _ _ trivial h2
  all_goals al_peel hgo

include hQ in
theorem bodySendQuery_Al (reqSrv : Option Nat) (key : Nat) (s : St) (h : Al Q N0 s) :
    Al Q N0 (bodySendQuery go reqSrv key s).1 := by
  rw [bodySendQuery_stages]
  split
  · simpa only [Al, chan_frame] using h
  · rename_i q _
    simp only []
    split
    · exact hgo _ _ trivial (by simpa only [Al, chan_frame] using h)
    · rename_i srv hsrv
      generalize hs1 : ({ (pickServer reqSrv s).2 with picks := _ } : St) = s1
      have h1 : Al Q N0 s1 := by
        rw [← hs1]; simpa only [Al, chan_frame] using h
      cases hfc : fetchConn s1 q srv with
      | some fd =>
        simp only []
        exact sqWriteQ_Al go hgo _ _ _ _ _ _ h1
      | none =>
        simp only []
        have h2 : Al Q N0 (openConn s1 q.usingTcp srv).2 := Al_openConn hQ _ _ _ h1
        cases hr : (openConn s1 q.usingTcp srv).1 with
        | error st =>
          simp only []
          refine hgo _ _ ?_ ?_
          · trivial
          · simpa only [Al, chan_frame] using h2
        | ok fd =>
          simp only []
          exact sqWriteQ_Al go hgo _ _ _ _ _ _ h2

theorem paDeliver_Al (fd : Nat) (r : Reply) (c : Conn) (key : Nat) (q : Query) (s : St) (h : Al Q N0 s) :
    Al Q N0 (paDeliver go fd r c key q s).1 := by
  unfold paDeliver
  al_peel hgo

theorem bodyProcessAnswer_Al (fd : Nat) (r : Reply) (s : St) (h : Al Q N0 s) :
    Al Q N0 (bodyProcessAnswer go fd r s).1 := by
  cases hk : acceptKey s fd r with
  | some key =>
    obtain ⟨c, q, _, _, _, heq⟩ := bodyProcessAnswer_accept go hk
    rw [heq]
    exact paDeliver_Al go hgo fd r c key q _ h
  | none =>
    rcases bodyProcessAnswer_reject go hk with h' | ⟨e, h'⟩ | ⟨c, key, q, _, _, _, h'⟩
    · rw [h']; exact h
    · rw [h']; exact h
    · rw [h']; split
      · have hp : Al Q N0 (paPre s c key q r) := h
        exact hgo _ _ trivial hp
      · exact h

theorem bodyFlush_Al (fd : Nat) (s : St) (h : Al Q N0 s) : Al Q N0 (bodyFlush go fd s).1 := by
  unfold bodyFlush
  split
  · al_peel hgo
  · rename_i c hc
    have hcy : ∃ y, pfind (s.conns.map rk) fd = some y := ⟨rflag c, by rw [pfind_conns, hc]; rfl⟩
    repeat (first
      | with_reducible assumption
      | with_reducible (apply hgo)
      | (simp only [Al, okCall, chan_frame])
      | al_step
      | (with_reducible refine AlF_setSock_accept _ _ _ hcy ?_)
      | (csplit <;> pair_subst))

theorem foldl_closeConn_Al (fds : List Nat) (s : St) (h : Al Q N0 s) :
    Al Q N0 (fds.foldl (fun s fd => (go (.closeConn fd .ok) s).1) s) := by
  induction fds generalizing s with
  | nil => exact h
  | cons fd rest ih => exact ih _ (hgo _ _ trivial h)

theorem bodyReadAnswers_Al (fd : Nat) (s : St) (hq : QRead Q fd) (h : Al Q N0 s) :
    Al Q N0 (bodyReadAnswers go fd s).1 := by
  unfold bodyReadAnswers
  split
  · rename_i c v hc hv
    simp only []
    split
    · exact hgo _ _ trivial h
    · rename_i r hnext
      have h1 : Al Q N0 (s.modConn fd fun c => { c with inMsgs := c.inMsgs.drop 1, inBytes := c.inBytes - (2 + r.len) }) :=
        Al_consume hq s c v r hc hv (fun ht => by simpa [ht] using hnext) h
      have h2 := hgo (.processAnswer fd r) _ trivial h1
      al_peel hgo
  · simpa only [Al, chan_frame] using h

theorem bodyProcessRead_Al (fd : Nat) (s : St) (hq : QRead Q fd) (h : Al Q N0 s) :
    Al Q N0 (bodyProcessRead go fd s).1 := by
  unfold bodyProcessRead
  split
  · rename_i c v hc hv
    split
    · exact h
    · split
      · rename_i hu ht
        have ht' : c.tcp = false := by simpa using ht
        repeat (first
          | with_reducible assumption
          | with_reducible (apply hgo)
          | (simp only [Al, okCall, chan_frame])
          | al_step
          | ((refine AlF_modConn_at hq _ _ c (fun _ => rfl) hc ⟨rfl, rfl⟩ ?_ ?_); (intro _ _ ht2; exact Bool.noConfusion (ht'.symm.trans ht2)))
          | (csplit <;> pair_subst))
      · rename_i hu ht
        split
        pair_subst
        split
        · al_peel hgo
        · simp only []
          split
          · al_peel hgo
          · split
            · -- no script: everything available is read
              simp only [Bool.false_eq_true, ↓reduceIte]
              refine hgo _ _ hq ?_
              refine Al_readTcp hq _ _ _ v hv (Nat.le_refl _) ?_
              simpa only [Al, chan_frame] using h
            · rename_i k r hch
              by_cases hk : (k == 0) = true
              · simp only [hk, ↓reduceIte]
                al_peel hgo
              · simp only [hk, Bool.false_eq_true, ↓reduceIte]
                refine hgo _ _ hq ?_
                refine Al_readTcp hq _ _ _ v hv (Nat.min_le_right _ _) ?_
                simpa only [Al, chan_frame] using h
  · exact h

include hQ in
theorem execBody_Al (c : Call) (s : St) (hc : okCall Q c) (h : Al Q N0 s) : Al Q N0 (execBody go c s).1 := by
  cases c <;> simp only [execBody]
  case processAnswer fd r => exact bodyProcessAnswer_Al go hgo fd r s h
  case sendQuery r k => exact bodySendQuery_Al hQ go hgo r k s h
  case flush fd => exact bodyFlush_Al go hgo fd s h
  case processRead fd => exact bodyProcessRead_Al go hgo fd s hc h
  case readAnswers fd => exact bodyReadAnswers_Al go hgo fd s hc h
  case destroy =>
    unfold bodyDestroy
    simp only []
    have h0 : Al Q N0 { s with destroying := true } := h
    have h1 := hgo (Call.cancelLoop Status.destruction true) { s with destroying := true } trivial h0
    exact foldl_closeConn_Al go hgo
      ((go (Call.cancelLoop Status.destruction true) { s with destroying := true }).1.sortedServers.map (·.conns)).flatten
      _ h1
  all_goals (unfold_body; al_peel hgo)

end

/-- **Every procedure keeps the alignment invariant and the side property** (any fuel; the statement is conditional on
    fuel not having run out, see `AlF`) -/
theorem exec_Al {Q : Nat → SV → CV → Prop} {N0 : Nat} (hQ : QFresh Q N0) (fuel : Nat) (c : Call) (s : St)
    (hc : okCall Q c) (h : Al Q N0 s) : Al Q N0 (exec fuel c s).1 :=
  exec_spec (fun c s out => okCall Q c → Al Q N0 s → Al Q N0 out.1)
    (fun _ _ _ _ => AlF_oof _ _ _) (fun go hgo c s hc h => execBody_Al hQ go hgo c s hc h) fuel c s hc h

end Cares.Chan
