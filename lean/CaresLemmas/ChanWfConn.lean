import CaresLemmas.ChanWfStep
/-!
# C01 — closing a connection on the skeleton: unlinking it from its server, removing it from the store
-/
namespace Cares.Chan

theorem WfS.fds_nodup {a : Sk} {hole} (h : WfS a hole) : (a.conns.map (·.fd)).Nodup := by
  have := h.c.nodup
  have e : a.cFQ.map (·.1) = a.conns.map fun c => c.fd := by unfold Sk.cFQ; rw [List.map_map]; rfl
  rwa [e] at this

theorem WfS.conn_unique {a : Sk} {hole} (h : WfS a hole) {c1 c2 : CSk} (h1 : c1 ∈ a.conns) (h2 : c2 ∈ a.conns)
    (he : c1.fd = c2.fd) : c1 = c2 := eq_of_nodup_map (·.fd) a.conns h.fds_nodup c1 h1 c2 h2 he

theorem mem_cF4 {a : Sk} {x : Nat × Bool × Nat × Bool} :
    x ∈ a.cF4 ↔ ∃ c ∈ a.conns, x = (c.fd, c.unlinked, c.srv, c.tcp) := by
  simp only [Sk.cF4, List.mem_map]; constructor <;> rintro ⟨c, hc, h⟩ <;> exact ⟨c, hc, h.symm⟩
theorem mem_cFQ {a : Sk} {x : Nat × List Nat} : x ∈ a.cFQ ↔ ∃ c ∈ a.conns, x = (c.fd, c.queries) := by
  simp only [Sk.cFQ, List.mem_map]; constructor <;> rintro ⟨c, hc, h⟩ <;> exact ⟨c, hc, h.symm⟩
theorem mem_cFUQ {a : Sk} {x : Nat × Bool × List Nat} :
    x ∈ a.cFUQ ↔ ∃ c ∈ a.conns, x = (c.fd, c.unlinked, c.queries) := by
  simp only [Sk.cFUQ, List.mem_map]; constructor <;> rintro ⟨c, hc, h⟩ <;> exact ⟨c, hc, h.symm⟩

/-- `ares_close_connection`, first half: the connection leaves its server's lists -/
def Sk.markUnlinked (a : Sk) (fd srv : Nat) (tcp : Bool) : Sk :=
  (a.modS srv fun v => { v with conns := v.conns.erase fd, tcpConn := if tcp then none else v.tcpConn }).modC fd
    fun c => { c with unlinked := true }

/-- `ares_close_connection`, last step: the connection is released -/
def Sk.removeConn (a : Sk) (fd : Nat) : Sk := { a with conns := a.conns.filter (·.fd != fd) }

section mark
variable {a : Sk} {c0 : CSk}

theorem mem_conns_mark {c : CSk} : c ∈ (a.markUnlinked c0.fd c0.srv c0.tcp).conns ↔
    ∃ c1 ∈ a.conns, c = if c1.fd = c0.fd then { c1 with unlinked := true } else c1 := by
  simp only [Sk.markUnlinked, Sk.modC, Sk.modS, List.mem_map, beq_iff_eq]
  constructor <;> rintro ⟨c1, h1, rfl⟩ <;> exact ⟨c1, h1, rfl⟩

theorem mem_servers_mark {v : SSk} : v ∈ (a.markUnlinked c0.fd c0.srv c0.tcp).servers ↔
    ∃ v1 ∈ a.servers, v = if v1.id = c0.srv then
      { v1 with conns := v1.conns.erase c0.fd, tcpConn := if c0.tcp then none else v1.tcpConn } else v1 := by
  simp only [Sk.markUnlinked, Sk.modC, Sk.modS, List.mem_map, beq_iff_eq]
  constructor <;> rintro ⟨c1, h1, rfl⟩ <;> exact ⟨c1, h1, rfl⟩

theorem mark_cFQ : (a.markUnlinked c0.fd c0.srv c0.tcp).cFQ = a.cFQ := by
  unfold Sk.markUnlinked Sk.cFQ
  exact proj_modC _ _ _ _ (fun _ => rfl)

theorem mark_server_ids : (a.markUnlinked c0.fd c0.srv c0.tcp).servers.map (·.id) = a.servers.map (·.id) := by
  simp only [Sk.markUnlinked, Sk.modC, Sk.modS, List.map_map]
  apply List.map_congr_left; intro x _; simp only [Function.comp]; split <;> rfl

theorem wf_mark (h : WfS a none) (hc0 : c0 ∈ a.conns) : WfS (a.markUnlinked c0.fd c0.srv c0.tcp) none := by
  have hs := h.s
  refine ⟨h.q, h.i, h.t, ?_, ?_, h.k, h.tok⟩
  · rw [mark_cFQ]; exact h.c
  · -- entry of the connection table for a descriptor other than `c0.fd` is unchanged
    have keep : ∀ fd' u v t, (fd', u, v, t) ∈ a.cF4 → fd' ≠ c0.fd →
        (fd', u, v, t) ∈ (a.markUnlinked c0.fd c0.srv c0.tcp).cF4 := by
      intro fd' u v t hm hne
      obtain ⟨c, hc, he⟩ := mem_cF4.mp hm
      simp only [Prod.mk.injEq] at he
      refine mem_cF4.mpr ⟨c, mem_conns_mark.mpr ⟨c, hc, ?_⟩, by simp [he]⟩
      rw [if_neg (by rw [← he.1]; exact hne)]
    -- an entry for `c0.fd` is `c0`'s
    have own : ∀ u v t, (c0.fd, u, v, t) ∈ a.cF4 → u = c0.unlinked ∧ v = c0.srv ∧ t = c0.tcp := by
      intro u v t hm
      obtain ⟨c, hc, he⟩ := mem_cF4.mp hm
      simp only [Prod.mk.injEq] at he
      have := h.conn_unique hc hc0 he.1.symm
      subst this
      exact ⟨he.2.1, he.2.2.1, he.2.2.2⟩
    refine ⟨by rw [mark_server_ids]; exact hs.nodup, ?_, ?_, ?_, ?_⟩
    rotate_left 3
    · -- a connection that is still linked is another one; its server still lists it
      intro fd' srv t hm
      obtain ⟨c, hc, he⟩ := mem_cF4.mp hm
      obtain ⟨c1, hc1, rfl⟩ := mem_conns_mark.mp hc
      simp only [Prod.mk.injEq] at he
      by_cases hfd : c1.fd = c0.fd
      · simp only [hfd, ↓reduceIte] at he
        exact absurd he.2.1 (by simp)
      · simp only [hfd, ↓reduceIte] at he
        obtain ⟨v, hv, hvid, hvc⟩ := hs.linked c1.fd c1.srv c1.tcp (mem_cF4.mpr ⟨c1, hc1, by
          have : c1.unlinked = false := he.2.1.symm
          rw [this]⟩)
        refine ⟨_, mem_servers_mark.mpr ⟨v, hv, rfl⟩, ?_, ?_⟩
        · rw [he.2.2.1, ← hvid]; split <;> rfl
        · rw [he.1]
          split
          · exact (List.mem_erase_of_ne hfd).mpr hvc
          · exact hvc
    · intro v hv
      obtain ⟨v1, hv1, rfl⟩ := mem_servers_mark.mp hv
      split
      · exact (hs.connsNodup v1 hv1).erase _
      · exact hs.connsNodup v1 hv1
    · intro v hv fd' hfd'
      obtain ⟨v1, hv1, rfl⟩ := mem_servers_mark.mp hv
      by_cases hid : v1.id = c0.srv
      · simp only [hid, ↓reduceIte] at hfd' ⊢
        have hm := (List.Nodup.mem_erase_iff (hs.connsNodup v1 hv1)).mp hfd'
        obtain ⟨t, ht⟩ := hs.conns v1 hv1 fd' hm.2
        exact ⟨t, by rw [← hid]; exact keep _ _ _ _ ht hm.1⟩
      · simp only [hid, ↓reduceIte] at hfd' ⊢
        obtain ⟨t, ht⟩ := hs.conns v1 hv1 fd' hfd'
        refine ⟨t, keep _ _ _ _ ht (fun he => ?_)⟩
        rw [he] at ht
        exact hid (own _ _ _ ht).2.1
    · intro v hv fd' hfd'
      obtain ⟨v1, hv1, rfl⟩ := mem_servers_mark.mp hv
      by_cases hid : v1.id = c0.srv
      · simp only [hid, ↓reduceIte] at hfd' ⊢
        by_cases htcp : c0.tcp = true
        · simp [htcp] at hfd'
        · simp only [htcp, Bool.false_eq_true, ↓reduceIte] at hfd'
          have ht := hs.tcp v1 hv1 fd' hfd'
          rw [← hid]
          refine keep _ _ _ _ ht (fun he => ?_)
          rw [he] at ht
          exact htcp (own _ _ _ ht).2.2.symm
      · simp only [hid, ↓reduceIte] at hfd' ⊢
        have ht := hs.tcp v1 hv1 fd' hfd'
        refine keep _ _ _ _ ht (fun he => ?_)
        rw [he] at ht
        exact hid (own _ _ _ ht).2.1

theorem mark_same : (a.markUnlinked c0.fd c0.srv c0.tcp).qKO = a.qKO ∧ (a.markUnlinked c0.fd c0.srv c0.tcp).idx = a.idx ∧
    (a.markUnlinked c0.fd c0.srv c0.tcp).clients = a.clients ∧
    (a.markUnlinked c0.fd c0.srv c0.tcp).pendingToks = a.pendingToks ∧
    (a.markUnlinked c0.fd c0.srv c0.tcp).nextClient = a.nextClient ∧
    (a.markUnlinked c0.fd c0.srv c0.tcp).nextKey = a.nextKey ∧
    (a.markUnlinked c0.fd c0.srv c0.tcp).faults = a.faults := ⟨rfl, rfl, rfl, rfl, rfl, rfl, rfl⟩

theorem step_mark {xf xi d} : StepS xf xi d a (a.markUnlinked c0.fd c0.srv c0.tcp) := by
  refine StepS.of_same rfl rfl rfl rfl rfl rfl rfl ?_
  intro fd q hm _
  obtain ⟨c, hc, he⟩ := mem_cFUQ.mp hm
  simp only [Prod.mk.injEq] at he
  refine ⟨q, mem_cFUQ.mpr ⟨_, mem_conns_mark.mpr ⟨c, hc, rfl⟩, ?_⟩, fun _ hx => hx⟩
  split <;> simp [he]

theorem filter_mark_aux (l : List CSk) (fd : Nat) :
    ((l.map fun e => if e.fd == fd then { e with unlinked := true } else e).map
        fun c => (c.fd, c.unlinked, c.queries)).filter (fun x => x.1 != fd) =
      (l.map fun c => (c.fd, c.unlinked, c.queries)).filter (fun x => x.1 != fd) := by
  induction l with
  | nil => rfl
  | cons e r ih =>
    simp only [List.map_cons, List.filter_cons, ih]
    by_cases he : e.fd = fd
    · have h1 : (e.fd == fd) = true := by simpa using he
      have h2 : (e.fd != fd) = false := by simp [he]
      simp only [h1, ↓reduceIte, h2, Bool.false_eq_true]
    · have h1 : (e.fd == fd) = false := by simpa using he
      simp only [h1, Bool.false_eq_true, ↓reduceIte]

/-- unlinking only changes the entry of the connection itself -/
theorem mark_cFUQ_filter :
    (a.markUnlinked c0.fd c0.srv c0.tcp).cFUQ.filter (fun x => x.1 != c0.fd) = a.cFUQ.filter (fun x => x.1 != c0.fd) :=
  filter_mark_aux a.conns c0.fd

theorem debt_mark {x d} (hd : DebtOk x d a) : DebtOk x d (a.markUnlinked c0.fd c0.srv c0.tcp) :=
  hd.congr rfl rfl rfl rfl rfl

theorem hasConn_mark (hc0 : c0 ∈ a.conns) : (a.markUnlinked c0.fd c0.srv c0.tcp).hasConn c0.fd true :=
  ⟨c0.queries, mem_cFUQ.mpr ⟨_, mem_conns_mark.mpr ⟨c0, hc0, rfl⟩, by simp⟩⟩

end mark

section remove
variable {a : Sk} {c0 : CSk}

theorem mem_conns_remove {c : CSk} : c ∈ (a.removeConn c0.fd).conns ↔ c ∈ a.conns ∧ c.fd ≠ c0.fd := by
  simp [Sk.removeConn, List.mem_filter]

theorem wf_removeConn (h : WfS a none) (hc0 : c0 ∈ a.conns) (hu : c0.unlinked = true) (hq : c0.queries = []) :
    WfS (a.removeConn c0.fd) none := by
  have hc := h.c
  have sub : ∀ x ∈ (a.removeConn c0.fd).cFQ, x ∈ a.cFQ := by
    intro x hx
    obtain ⟨c, hcm, rfl⟩ := mem_cFQ.mp hx
    exact mem_cFQ.mpr ⟨c, (mem_conns_remove.mp hcm).1, rfl⟩
  refine ⟨h.q, h.i, h.t, ?_, ?_, h.k, h.tok⟩
  · refine ⟨?_, fun c hcm => hc.lt c (sub c hcm), fun c hcm => hc.sock c (sub c hcm),
      fun c hcm => hc.qNodup c (sub c hcm), fun c hcm => hc.cq c (sub c hcm), ?_⟩
    · have : ((a.removeConn c0.fd).cFQ.map (·.1)).Sublist (a.cFQ.map (·.1)) := by
        unfold Sk.cFQ Sk.removeConn
        exact List.Sublist.map _ (List.Sublist.map _ List.filter_sublist)
      exact this.nodup hc.nodup
    · intro p hp fd hfd
      obtain ⟨c, hcm, hcfd, hor⟩ := hc.qc p hp fd hfd
      obtain ⟨c1, hc1, rfl⟩ := mem_cFQ.mp hcm
      refine ⟨_, mem_cFQ.mpr ⟨c1, mem_conns_remove.mpr ⟨hc1, fun he => ?_⟩, rfl⟩, hcfd, hor⟩
      have := h.conn_unique hc1 hc0 he
      subst this
      rcases hor with hor | hor
      · simp only [hq] at hor; cases hor
      · cases hor
  · have hs := h.s
    have keep : ∀ fd' v t, (fd', false, v, t) ∈ a.cF4 → (fd', false, v, t) ∈ (a.removeConn c0.fd).cF4 := by
      intro fd' v t hm
      obtain ⟨c, hcm, he⟩ := mem_cF4.mp hm
      simp only [Prod.mk.injEq] at he
      refine mem_cF4.mpr ⟨c, mem_conns_remove.mpr ⟨hcm, fun hfd => ?_⟩, by simp [he]⟩
      have := h.conn_unique hcm hc0 hfd
      subst this
      rw [hu] at he; exact absurd he.2.1 (by simp)
    exact ⟨hs.nodup, hs.connsNodup, fun v hv fd' hfd' => by
      obtain ⟨t, ht⟩ := hs.conns v hv fd' hfd'; exact ⟨t, keep _ _ _ ht⟩,
      fun v hv fd' hfd' => keep _ _ _ (hs.tcp v hv fd' hfd'),
      fun fd' srv t hm => by
        obtain ⟨c, hcm, he⟩ := mem_cF4.mp hm
        exact hs.linked fd' srv t (mem_cF4.mpr ⟨c, (mem_conns_remove.mp hcm).1, he⟩)⟩

theorem step_removeConn {xi d} : StepS (some c0.fd) xi d a (a.removeConn c0.fd) := by
  refine StepS.of_same rfl rfl rfl rfl rfl rfl rfl ?_
  intro fd q hm hne
  obtain ⟨c, hc, he⟩ := mem_cFUQ.mp hm
  simp only [Prod.mk.injEq] at he
  refine ⟨q, mem_cFUQ.mpr ⟨c, mem_conns_remove.mpr ⟨hc, fun hfd => hne ?_⟩, by simp [he]⟩, fun _ hx => hx⟩
  rw [he.1, hfd]

theorem removeConn_cFUQ : (a.removeConn c0.fd).cFUQ = a.cFUQ.filter (fun x => x.1 != c0.fd) := by
  unfold Sk.removeConn Sk.cFUQ
  simp only [List.filter_map]
  rfl

theorem debt_removeConn {x d} (hd : DebtOk x d a) : DebtOk x d (a.removeConn c0.fd) :=
  hd.congr rfl rfl rfl rfl rfl

end remove

end Cares.Chan
