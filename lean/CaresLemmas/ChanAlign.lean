import CaresLemmas.ChanSockFrame
/-!
# TCP read alignment (C20) — pure part

The inbound side of a TCP connection of the channel model is described by three numbers and a list:
`VSock.stream` (end offset of every message the peer has written), `VSock.slen` (bytes written), `VSock.spos` (bytes the
connection has read) and `Conn.inBytes` (bytes still in in_buf).  The connection has *consumed* the stream up to
`spos - inBytes`.  The alignment invariant says that this position is a message boundary of the stream.

This file: the per-connection predicates (`StreamOk`, `Boundary`, `AlignedV`), their relation to `Split` of
`ChanSockFrame.lean`, the effect of one read / one consumed frame / one message written by the peer, and the
invariant `AlCore` over *lookup functions* (descriptor ↦ view of the connection / of the socket) with its step lemmas.
`AlCore` carries a parameter `Q` (a property of every live connection together with its socket) so that one induction
over the procedures yields the invariant and the frame properties needed for whole-run statements.
-/
namespace Cares.Chan

/-- end offset of the last message of a stream (`0` for the empty stream) -/
def lastEnd (st : List (Nat × Reply)) : Nat := (st.getLast?.map (·.1)).getD 0

/-- what the invariant looks at of a virtual socket -/
structure SV where
  stream : List (Nat × Reply)
  slen : Nat
  spos : Nat

/-- … and of a connection -/
structure CV where
  tcp : Bool
  unlinked : Bool
  inBytes : Nat

def vflag (v : VSock) : SV := ⟨v.stream, v.slen, v.spos⟩
def rflag (c : Conn) : CV := ⟨c.tcp, c.unlinked, c.inBytes⟩

/-- `pos` is a message boundary of `stream`: its start, or the end offset of one of its messages -/
def Boundary (stream : List (Nat × Reply)) (pos : Nat) : Prop := pos = 0 ∨ ∃ x ∈ stream, x.1 = pos

/-- the stream is what the virtual server builds (`WfStream`), `slen` is its length in bytes, and no more has been read
    than written -/
structure StreamOk (x : SV) : Prop where
  wf : WfStream 0 x.stream
  slen : x.slen = lastEnd x.stream
  le : x.spos ≤ x.slen

/-- **alignment** of a connection with its socket: the bytes buffered have been read, and the consumed position
    `spos - inBytes` is a message boundary -/
structure AlignedV (x : SV) (y : CV) : Prop where
  le : y.inBytes ≤ x.spos
  bd : Boundary x.stream (x.spos - y.inBytes)

theorem split_of_boundary_aux : ∀ (st : List (Nat × Reply)) (base pos : Nat), WfStream base st →
    (pos = base ∨ ∃ x ∈ st, x.1 = pos) →
    ∃ done todo, st = done ++ todo ∧ (∀ x ∈ done, base < x.1 ∧ x.1 ≤ pos) ∧ WfStream pos todo ∧ base ≤ pos
  | [], base, pos, _, h => by
    rcases h with h | ⟨x, hx, _⟩
    · exact ⟨[], [], rfl, (fun _ hx => by cases hx), trivial, by omega⟩
    · cases hx
  | (e, r) :: rest, base, pos, hw, h => by
    by_cases hp : pos = base
    · subst hp
      exact ⟨[], (e, r) :: rest, rfl, (fun _ hx => by cases hx), hw, Nat.le_refl _⟩
    · have h' : pos = e ∨ ∃ x ∈ rest, x.1 = pos := by
        rcases h with h | ⟨x, hx, hxe⟩
        · exact absurd h hp
        · cases hx with
          | head => exact .inl hxe.symm
          | tail _ hx' => exact .inr ⟨x, hx', hxe⟩
      obtain ⟨done, todo, he, hd, hwt, hle⟩ := split_of_boundary_aux rest e pos hw.2 h'
      have hbe : base < e := by have := hw.1; omega
      refine ⟨(e, r) :: done, todo, by rw [he]; rfl, ?_, hwt, by omega⟩
      intro x hx
      cases hx with
      | head => exact ⟨hbe, hle⟩
      | tail _ hx' => have := hd x hx'; exact ⟨by omega, this.2⟩

/-- a boundary of a well-formed stream splits it: the messages before it end at or before it, the others follow it
    without gap (`Split` of `ChanSockFrame.lean`) -/
theorem Boundary.split {st : List (Nat × Reply)} {pos : Nat} (hw : WfStream 0 st) (hb : Boundary st pos) :
    ∃ done todo, Split st pos done todo := by
  obtain ⟨done, todo, he, hd, hwt, _⟩ := split_of_boundary_aux st 0 pos hw hb
  exact ⟨done, todo, ⟨he, fun x hx => (hd x hx).2, hwt⟩⟩

theorem AlignedV.split {x : SV} {y : CV} (hs : StreamOk x) (ha : AlignedV x y) :
    ∃ done todo, Split x.stream (x.spos - y.inBytes) done todo := ha.bd.split hs.wf

/-- conversely the consumed position of a `Split` whose `done` part ends exactly there is a boundary -/
theorem Boundary.of_mem {st : List (Nat × Reply)} {e : Nat} {r : Reply} (h : (e, r) ∈ st) : Boundary st e :=
  .inr ⟨(e, r), h, rfl⟩

theorem Boundary.append {st : List (Nat × Reply)} {pos : Nat} (h : Boundary st pos) (l : List (Nat × Reply)) :
    Boundary (st ++ l) pos := by
  rcases h with h | ⟨x, hx, he⟩
  · exact .inl h
  · exact .inr ⟨x, List.mem_append_left _ hx, he⟩

/-- **one frame taken by `read_answers`** (list level): if the consumed position splits the stream and `nextTcpFrame`
    returns `r`, then `r` is the first message not yet taken, it is complete, in_buf holds it (`2 + len ≤ buffered`), and
    after removing it from in_buf the consumed position is its end offset -/
theorem consume_split {st done todo : List (Nat × Reply)} {spos ib : Nat} {r : Reply}
    (h : Split st (spos - ib) done todo) (hb : ib ≤ spos) (hn : nextTcpFrame st spos ib = some r) :
    ∃ e rest, todo = (e, r) :: rest ∧ e ≤ spos ∧ e = spos - ib + 2 + r.len ∧ 2 + r.len ≤ ib ∧
      spos - (ib - (2 + r.len)) = e ∧ Split st e (done ++ [(e, r)]) rest := by
  rw [nextTcpFrame_spec h] at hn
  cases todo with
  | nil => cases hn
  | cons x rest =>
    obtain ⟨e, r0⟩ := x
    simp only at hn
    split at hn
    · rename_i hle
      cases hn
      have he : e = spos - ib + 2 + r.len := h.wf.1
      refine ⟨e, rest, rfl, hle, he, by omega, by omega, ?_⟩
      refine ⟨by rw [h.eq]; simp, ?_, h.wf.2⟩
      intro x hx
      rw [List.mem_append] at hx
      cases hx with
      | inl hx => have := h.done_le x hx; omega
      | inr hx => simp only [List.mem_singleton] at hx; subst hx; exact Nat.le_refl _
    · cases hn

/-- … hence alignment is kept when `read_answers` takes a frame out of in_buf -/
theorem AlignedV.consume {x : SV} {y : CV} {r : Reply} (hs : StreamOk x) (ha : AlignedV x y)
    (hn : nextTcpFrame x.stream x.spos y.inBytes = some r) :
    AlignedV x { y with inBytes := y.inBytes - (2 + r.len) } := by
  obtain ⟨done, todo, hsp⟩ := ha.split hs
  obtain ⟨e, rest, hto, hle, he, h2, hc, hsp'⟩ := consume_split hsp ha.le hn
  refine ⟨by have := ha.le; show y.inBytes - (2 + r.len) ≤ x.spos; omega, ?_⟩
  show Boundary x.stream (x.spos - (y.inBytes - (2 + r.len)))
  rw [hc]
  apply Boundary.of_mem (r := r)
  rw [hsp.eq, hto]; simp

/-- one `recv` of `n` bytes (not more than the peer has written): both the read position and in_buf grow by `n` -/
theorem StreamOk.read {x : SV} (hs : StreamOk x) {n : Nat} (hn : n ≤ x.slen - x.spos) :
    StreamOk { x with spos := x.spos + n } :=
  ⟨hs.wf, hs.slen, by have := hs.le; show x.spos + n ≤ x.slen; omega⟩

theorem AlignedV.read {x : SV} {y : CV} (ha : AlignedV x y) (n : Nat) :
    AlignedV { x with spos := x.spos + n } { y with inBytes := y.inBytes + n } := by
  refine ⟨by have := ha.le; show y.inBytes + n ≤ x.spos + n; omega, ?_⟩
  show Boundary x.stream (x.spos + n - (y.inBytes + n))
  have : x.spos + n - (y.inBytes + n) = x.spos - y.inBytes := by omega
  rw [this]; exact ha.bd

theorem lastEnd_append_one (st : List (Nat × Reply)) (a : Nat × Reply) : lastEnd (st ++ [a]) = a.1 := by
  simp [lastEnd]

/-- the peer writes one more message (the driver's `reply` on a TCP socket) -/
theorem StreamOk.peer {x : SV} (hs : StreamOk x) (r : Reply) :
    StreamOk { x with stream := x.stream ++ [(x.slen + 2 + r.len, r)], slen := x.slen + 2 + r.len } := by
  refine ⟨?_, ?_, ?_⟩
  · exact WfStream.append_one r hs.wf hs.slen
  · show x.slen + 2 + r.len = lastEnd (x.stream ++ [(x.slen + 2 + r.len, r)])
    rw [lastEnd_append_one]
  · have := hs.le; show x.spos ≤ x.slen + 2 + r.len; omega

theorem AlignedV.peer {x : SV} {y : CV} (ha : AlignedV x y) (r : Reply) :
    AlignedV { x with stream := x.stream ++ [(x.slen + 2 + r.len, r)], slen := x.slen + 2 + r.len } y :=
  ⟨ha.le, ha.bd.append _⟩

theorem StreamOk.fresh : StreamOk ⟨[], 0, 0⟩ := ⟨trivial, rfl, Nat.le_refl _⟩
theorem AlignedV.fresh (tcp : Bool) : AlignedV ⟨[], 0, 0⟩ ⟨tcp, false, 0⟩ := ⟨Nat.le_refl _, .inl rfl⟩

/-! ## the invariant over lookup functions -/

/-- `cf fd` / `sf fd`: view of the connection / the virtual socket with descriptor `fd`; `nfd`: next unused descriptor.
    `Q fd x y` is an additional property of every connection that is not being closed (used with a snapshot of one
    connection to obtain frame properties); `N0` bounds the descriptors for which `Q` has to hold of a new connection. -/
structure AlCore (Q : Nat → SV → CV → Prop) (N0 : Nat) (cf : Nat → Option CV) (sf : Nat → Option SV) (nfd : Nat) :
    Prop where
  n0 : N0 ≤ nfd
  fresh : ∀ fd x, sf fd = some x → fd < nfd
  hasSock : ∀ fd y, cf fd = some y → ∃ x, sf fd = some x
  stream : ∀ fd x, sf fd = some x → StreamOk x
  al : ∀ fd y x, cf fd = some y → sf fd = some x → y.tcp = true → y.unlinked = false → AlignedV x y
  q : ∀ fd y x, cf fd = some y → sf fd = some x → y.unlinked = false → Q fd x y

/-- `Q` holds of a freshly opened connection with a descriptor `≥ N0` -/
def QFresh (Q : Nat → SV → CV → Prop) (N0 : Nat) : Prop := ∀ fd, N0 ≤ fd → ∀ tcp, Q fd ⟨[], 0, 0⟩ ⟨tcp, false, 0⟩

/-- `Q` at `fd` does not look at the read position and at the number of buffered bytes (what read calls on `fd` change) -/
def QRead (Q : Nat → SV → CV → Prop) (fd : Nat) : Prop :=
  ∀ x y sp ib, Q fd x y → Q fd { x with spos := sp } { y with inBytes := ib }

section
variable {Q : Nat → SV → CV → Prop} {N0 : Nat} {cf : Nat → Option CV} {sf : Nat → Option SV} {nfd : Nat}

/-- connection `fd` and its socket are updated by `g` / `k` -/
theorem AlCore.upd (h : AlCore Q N0 cf sf nfd) (fd : Nat) (g : CV → CV) (k : SV → SV)
    (hk : ∀ x, sf fd = some x → StreamOk (k x))
    (hal : ∀ y x, cf fd = some y → sf fd = some x → (g y).tcp = true → (g y).unlinked = false → AlignedV (k x) (g y))
    (hq : ∀ y x, cf fd = some y → sf fd = some x → (g y).unlinked = false → Q fd (k x) (g y)) :
    AlCore Q N0 (fun fd' => if fd' = fd then (cf fd').map g else cf fd')
      (fun fd' => if fd' = fd then (sf fd').map k else sf fd') nfd := by
  refine ⟨h.n0, ?_, ?_, ?_, ?_, ?_⟩
  · intro fd' x hx
    by_cases hfd : fd' = fd
    · simp only [hfd, ↓reduceIte, Option.map_eq_some_iff] at hx
      obtain ⟨x0, hx0, _⟩ := hx
      rw [hfd]; exact h.fresh fd x0 hx0
    · simp only [hfd, ↓reduceIte] at hx; exact h.fresh fd' x hx
  · intro fd' y hy
    by_cases hfd : fd' = fd
    · simp only [hfd, ↓reduceIte, Option.map_eq_some_iff] at hy ⊢
      obtain ⟨y0, hy0, _⟩ := hy
      obtain ⟨x0, hx0⟩ := h.hasSock fd y0 hy0
      exact ⟨k x0, x0, hx0, rfl⟩
    · simp only [hfd, ↓reduceIte] at hy ⊢; exact h.hasSock fd' y hy
  · intro fd' x hx
    by_cases hfd : fd' = fd
    · simp only [hfd, ↓reduceIte, Option.map_eq_some_iff] at hx
      obtain ⟨x0, hx0, rfl⟩ := hx
      exact hk x0 hx0
    · simp only [hfd, ↓reduceIte] at hx; exact h.stream fd' x hx
  · intro fd' y x hy hx ht hu
    by_cases hfd : fd' = fd
    · simp only [hfd, ↓reduceIte, Option.map_eq_some_iff] at hy hx
      obtain ⟨y0, hy0, rfl⟩ := hy
      obtain ⟨x0, hx0, rfl⟩ := hx
      exact hal y0 x0 hy0 hx0 ht hu
    · simp only [hfd, ↓reduceIte] at hy hx; exact h.al fd' y x hy hx ht hu
  · intro fd' y x hy hx hu
    by_cases hfd : fd' = fd
    · simp only [hfd, ↓reduceIte, Option.map_eq_some_iff] at hy hx
      obtain ⟨y0, hy0, rfl⟩ := hy
      obtain ⟨x0, hx0, rfl⟩ := hx
      rw [hfd]; exact hq y0 x0 hy0 hx0 hu
    · simp only [hfd, ↓reduceIte] at hy hx; exact h.q fd' y x hy hx hu

/-- connection `fd` is released -/
theorem AlCore.del (h : AlCore Q N0 cf sf nfd) (fd : Nat) :
    AlCore Q N0 (fun fd' => if fd' = fd then none else cf fd') sf nfd := by
  refine ⟨h.n0, h.fresh, ?_, h.stream, ?_, ?_⟩
  · intro fd' y hy
    by_cases hfd : fd' = fd
    · simp only [hfd, ↓reduceIte] at hy; cases hy
    · simp only [hfd, ↓reduceIte] at hy; exact h.hasSock fd' y hy
  · intro fd' y x hy hx ht hu
    by_cases hfd : fd' = fd
    · simp only [hfd, ↓reduceIte] at hy; cases hy
    · simp only [hfd, ↓reduceIte] at hy; exact h.al fd' y x hy hx ht hu
  · intro fd' y x hy hx hu
    by_cases hfd : fd' = fd
    · simp only [hfd, ↓reduceIte] at hy; cases hy
    · simp only [hfd, ↓reduceIte] at hy; exact h.q fd' y x hy hx hu

/-- `socket()`: a new virtual socket with the next descriptor -/
theorem AlCore.newSock (h : AlCore Q N0 cf sf nfd) :
    AlCore Q N0 cf (fun fd' => if fd' = nfd then some ⟨[], 0, 0⟩ else sf fd') (nfd + 1) := by
  have hcn : cf nfd = none := by
    cases hc : cf nfd with
    | none => rfl
    | some y =>
      obtain ⟨x, hx⟩ := h.hasSock nfd y hc
      exact absurd (h.fresh nfd x hx) (Nat.lt_irrefl _)
  refine ⟨Nat.le_succ_of_le h.n0, ?_, ?_, ?_, ?_, ?_⟩
  · intro fd' x hx
    by_cases hfd : fd' = nfd
    · omega
    · simp only [hfd, ↓reduceIte] at hx; have := h.fresh fd' x hx; omega
  · intro fd' y hy
    by_cases hfd : fd' = nfd
    · rw [hfd, hcn] at hy; cases hy
    · simp only [hfd, ↓reduceIte]; exact h.hasSock fd' y hy
  · intro fd' x hx
    by_cases hfd : fd' = nfd
    · simp only [hfd, ↓reduceIte, Option.some.injEq] at hx; subst hx; exact StreamOk.fresh
    · simp only [hfd, ↓reduceIte] at hx; exact h.stream fd' x hx
  · intro fd' y x hy hx ht hu
    by_cases hfd : fd' = nfd
    · rw [hfd, hcn] at hy; cases hy
    · simp only [hfd, ↓reduceIte] at hx; exact h.al fd' y x hy hx ht hu
  · intro fd' y x hy hx hu
    by_cases hfd : fd' = nfd
    · rw [hfd, hcn] at hy; cases hy
    · simp only [hfd, ↓reduceIte] at hx; exact h.q fd' y x hy hx hu

/-- … and the connection on it -/
theorem AlCore.newConn (h : AlCore Q N0 cf sf nfd) (hQ : QFresh Q N0) (tcp : Bool) :
    AlCore Q N0 (fun fd' => if fd' = nfd then some ⟨tcp, false, 0⟩ else cf fd')
      (fun fd' => if fd' = nfd then some ⟨[], 0, 0⟩ else sf fd') (nfd + 1) := by
  have h1 := h.newSock
  refine ⟨h1.n0, h1.fresh, ?_, h1.stream, ?_, ?_⟩
  · intro fd' y hy
    by_cases hfd : fd' = nfd
    · simp only [hfd, ↓reduceIte]; exact ⟨_, rfl⟩
    · simp only [hfd, ↓reduceIte] at hy ⊢; exact h.hasSock fd' y hy
  · intro fd' y x hy hx ht hu
    by_cases hfd : fd' = nfd
    · simp only [hfd, ↓reduceIte, Option.some.injEq] at hy hx; subst hy; subst hx; exact AlignedV.fresh tcp
    · simp only [hfd, ↓reduceIte] at hy hx; exact h.al fd' y x hy hx ht hu
  · intro fd' y x hy hx hu
    by_cases hfd : fd' = nfd
    · simp only [hfd, ↓reduceIte, Option.some.injEq] at hy hx; subst hy; subst hx
      rw [hfd]; exact hQ nfd h.n0 tcp
    · simp only [hfd, ↓reduceIte] at hy hx; exact h.q fd' y x hy hx hu

end

end Cares.Chan
