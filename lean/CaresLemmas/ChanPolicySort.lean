import CaresModel.Chan.Core
/-!
# Server priority order (`server_sort_cb`, `ares_slist` of servers) — list lemmas for C09

`St.sortedServers` is the insertion sort of `s.servers` by `(failures, id)`; the lemmas here are pure list facts:
permutation, sortedness, position (`rank`) = number of strictly better servers, `countBest`.
-/
namespace Cares.Chan

/-- strict priority order: fewer consecutive failures first, configuration index breaks ties -/
def srvLt (a b : Server) : Prop := a.failures < b.failures ∨ (a.failures = b.failures ∧ a.id < b.id)
/-- non-strict version -/
def srvLe (a b : Server) : Prop := a.failures < b.failures ∨ (a.failures = b.failures ∧ a.id ≤ b.id)

instance (a b : Server) : Decidable (srvLt a b) := by unfold srvLt; infer_instance
instance (a b : Server) : Decidable (srvLe a b) := by unfold srvLe; infer_instance

theorem srvLt_iff_cond (v x : Server) :
    (v.failures < x.failures || (v.failures == x.failures && v.id < x.id)) = true ↔ srvLt v x := by
  simp [srvLt]

theorem srvLe_of_not_lt {v x : Server} (h : ¬ srvLt v x) : srvLe x v := by
  unfold srvLt at h; unfold srvLe; omega

theorem srvLe_of_lt {v x : Server} (h : srvLt v x) : srvLe v x := by
  unfold srvLt at h; unfold srvLe; omega

theorem srvLe_trans {a b c : Server} (h1 : srvLe a b) (h2 : srvLe b c) : srvLe a c := by
  unfold srvLe at *; omega

theorem srvLt_trans {a b c : Server} (h1 : srvLt a b) (h2 : srvLt b c) : srvLt a c := by
  unfold srvLt at *; omega

theorem srvLt_irrefl (a : Server) : ¬ srvLt a a := by unfold srvLt; omega

theorem srvLt_asymm {a b : Server} (h : srvLt a b) : ¬ srvLt b a := by unfold srvLt at *; omega

theorem srvLt_of_le_of_ne {a b : Server} (h : srvLe a b) (hne : a.id ≠ b.id) : srvLt a b := by
  unfold srvLe at h; unfold srvLt; omega

theorem srvLt_total {a b : Server} (hne : a.id ≠ b.id) : srvLt a b ∨ srvLt b a := by
  unfold srvLt; omega

/-! ### `insertServer` -/

theorem insertServer_perm (v : Server) (l : List Server) : (insertServer v l).Perm (v :: l) := by
  induction l with
  | nil => exact List.Perm.refl _
  | cons x r ih =>
    unfold insertServer
    split
    · exact List.Perm.refl _
    · exact (List.Perm.cons x ih).trans (List.Perm.swap v x r)

theorem mem_insertServer {v w : Server} {l : List Server} : w ∈ insertServer v l ↔ w = v ∨ w ∈ l := by
  rw [(insertServer_perm v l).mem_iff]; simp

theorem insertServer_sorted (v : Server) (l : List Server) (h : l.Pairwise srvLe) :
    (insertServer v l).Pairwise srvLe := by
  induction l with
  | nil => simp [insertServer]
  | cons x r ih =>
    unfold insertServer
    split
    · rename_i hc
      have hvx : srvLt v x := (srvLt_iff_cond v x).1 hc
      rw [List.pairwise_cons] at h
      refine List.pairwise_cons.2 ⟨?_, List.pairwise_cons.2 h⟩
      intro y hy
      rcases List.mem_cons.1 hy with rfl | hy
      · exact srvLe_of_lt hvx
      · exact srvLe_trans (srvLe_of_lt hvx) (h.1 y hy)
    · rename_i hc
      have hvx : ¬ srvLt v x := fun hh => hc ((srvLt_iff_cond v x).2 hh)
      rw [List.pairwise_cons] at h
      refine List.pairwise_cons.2 ⟨?_, ih h.2⟩
      intro y hy
      rcases mem_insertServer.1 hy with rfl | hy
      · exact srvLe_of_not_lt hvx
      · exact h.1 y hy

/-! ### `sortedServers` -/

theorem foldl_insert_perm (l acc : List Server) :
    (l.foldl (fun acc v => insertServer v acc) acc).Perm (l ++ acc) := by
  induction l generalizing acc with
  | nil => exact List.Perm.refl _
  | cons x r ih =>
    simp only [List.foldl_cons, List.cons_append]
    refine (ih _).trans ?_
    exact (List.Perm.append_left r (insertServer_perm x acc)).trans List.perm_middle

theorem foldl_insert_sorted (l acc : List Server) (h : acc.Pairwise srvLe) :
    (l.foldl (fun acc v => insertServer v acc) acc).Pairwise srvLe := by
  induction l generalizing acc with
  | nil => exact h
  | cons x r ih => exact ih _ (insertServer_sorted x acc h)

/-- C09: the priority list is a permutation of the configured servers … -/
theorem sortedServers_perm (s : St) : s.sortedServers.Perm s.servers := by
  have := foldl_insert_perm s.servers []
  simpa [St.sortedServers] using this

/-- … sorted by `(failures, id)` -/
theorem sortedServers_sorted (s : St) : s.sortedServers.Pairwise srvLe :=
  foldl_insert_sorted s.servers [] List.Pairwise.nil

theorem mem_sortedServers {s : St} {v : Server} : v ∈ s.sortedServers ↔ v ∈ s.servers :=
  (sortedServers_perm s).mem_iff

theorem sortedServers_length (s : St) : s.sortedServers.length = s.servers.length :=
  (sortedServers_perm s).length_eq

/-- distinct configuration indices -/
def St.IdsNodup (s : St) : Prop := (s.servers.map (·.id)).Nodup

theorem sortedServers_ids_nodup {s : St} (h : s.IdsNodup) : (s.sortedServers.map (·.id)).Nodup :=
  ((sortedServers_perm s).map _).nodup_iff.2 h

/-- with distinct indices the order is strict -/
theorem sortedServers_strict {s : St} (h : s.IdsNodup) : s.sortedServers.Pairwise srvLt := by
  have hs := sortedServers_sorted s
  have hn := sortedServers_ids_nodup h
  rw [List.Nodup, List.pairwise_map] at hn
  exact (hs.and hn).imp (fun ⟨a, b⟩ => srvLt_of_le_of_ne a b)

/-! ### position in a strictly sorted list = number of strictly smaller elements -/

theorem filter_lt_length_of_sorted (l : List Server) (hs : l.Pairwise srvLt) (i : Nat) (v : Server)
    (hv : l[i]? = some v) : (l.filter (fun w => decide (srvLt w v))).length = i := by
  induction l generalizing i with
  | nil => simp at hv
  | cons x r ih =>
    rw [List.pairwise_cons] at hs
    cases i with
    | zero =>
      simp only [List.getElem?_cons_zero, Option.some.injEq] at hv
      subst hv
      have : r.filter (fun w => decide (srvLt w x)) = [] := by
        rw [List.filter_eq_nil_iff]
        intro w hw
        simpa using srvLt_asymm (hs.1 w hw)
      simp [srvLt_irrefl, this]
    | succ j =>
      simp only [List.getElem?_cons_succ] at hv
      have hmem : v ∈ r := List.mem_of_getElem? hv
      have hx : srvLt x v := hs.1 v hmem
      simp [hx, ih hs.2 j hv]

/-- the servers strictly better than `v` -/
def St.better (s : St) (v : Server) : List Server := s.servers.filter (fun w => decide (srvLt w v))

/-- with distinct ids: the server at position `i` of the priority list has exactly `i` strictly better servers -/
theorem sortedServers_pos {s : St} (h : s.IdsNodup) (i : Nat) (v : Server) (hv : s.sortedServers[i]? = some v) :
    (s.better v).length = i := by
  have := filter_lt_length_of_sorted s.sortedServers (sortedServers_strict h) i v hv
  rw [← this]
  exact ((sortedServers_perm s).filter _).length_eq.symm

/-! ### `countBest` -/

theorem countBest_pos (l : List Server) (h : l ≠ []) : 0 < countBest l := by
  cases l with
  | nil => exact absurd rfl h
  | cons x r => simp [countBest]; omega

theorem countBest_le (l : List Server) : countBest l ≤ l.length := by
  cases l with
  | nil => simp [countBest]
  | cons x r =>
    simp only [countBest, List.length_cons]
    have := (List.takeWhile_prefix (l := r) (fun y => y.failures == x.failures)).length_le
    omega

theorem getElem?_takeWhile_holds {α : Type} (p : α → Bool) (l : List α) (i : Nat) (v : α)
    (hi : i < (l.takeWhile p).length) (hv : l[i]? = some v) : p v = true := by
  induction l generalizing i with
  | nil => simp at hv
  | cons x r ih =>
    rw [List.takeWhile_cons] at hi
    split at hi
    · rename_i hp
      cases i with
      | zero => simp at hv; subst hv; exact hp
      | succ j =>
        simp only [List.getElem?_cons_succ] at hv
        simp only [List.length_cons] at hi
        exact ih j (by omega) hv
    · simp at hi

/-- every entry of the `countBest` prefix has the head's failure count -/
theorem countBest_prefix_failures (x : Server) (r : List Server) (i : Nat) (hi : i < countBest (x :: r))
    (v : Server) (hv : (x :: r)[i]? = some v) : v.failures = x.failures := by
  cases i with
  | zero => simp at hv; subst hv; rfl
  | succ j =>
    simp only [List.getElem?_cons_succ] at hv
    simp only [countBest] at hi
    have hj : j < (r.takeWhile (fun y => y.failures == x.failures)).length := by omega
    have := getElem?_takeWhile_holds (fun y => y.failures == x.failures) r j v hj hv
    simpa using this

/-- the head of a sorted list has the minimal failure count -/
theorem head_min_failures (x : Server) (r : List Server) (hs : (x :: r).Pairwise srvLe) (w : Server)
    (hw : w ∈ x :: r) : x.failures ≤ w.failures := by
  rw [List.pairwise_cons] at hs
  rcases List.mem_cons.1 hw with rfl | hw
  · exact Nat.le_refl _
  · have := hs.1 w hw
    unfold srvLe at this; omega

end Cares.Chan
