import CaresProps.C07b
import CaresModel.Generated.LockTable
/-!
# C11 — concurrent use of one channel (partial: lock discipline, lock order, wake-ups, wait-empty)

* Lock order / deadlock freedom / lost wake-ups: theorems over the `Event` transition system, proved in
  `CaresProps.C07b` and re-exported here under C11 names.
* Lock discipline of the public entry points: `Generated.Lock.lockTable` is regenerated from the source on
  every run (tools/gen_locktable.py); the obligation below says every public function that dereferences the
  channel takes the channel lock, except the life-cycle functions and the callback setters that are
  documented to be called before the channel is shared.  A source change that removes the lock from an entry
  point breaks this obligation on the next run.

Not proved here (see DESIGN.md): absence of data races in the C memory model — that part of C11 is observed
(ThreadSanitizer on the stress harness), not proved.
-/
namespace Cares.C11
open Cares.Event Cares.Generated.Lock

/-- functions that access the channel without the lock by design: creation (no other thread can have the
    channel yet) and the callback / socket-function setters, which are called before the channel is shared -/
def preSharing : List String :=
  ["ares_init_options", "ares_set_socket_callback", "ares_set_socket_configure_callback",
   "ares_set_pending_write_cb", "ares_set_server_state_callback", "ares_set_socket_functions",
   "ares_set_socket_functions_ex"]

/-- **lock discipline** over the regenerated table -/
theorem entry_points_lock :
    ∀ e ∈ lockTable, e.2.2 = true → e.2.1 = true ∨ e.1 ∈ preSharing := by decide

/-- `ares_destroy` reads `channel->optmask` after its last unlock, when the event thread has been stopped and the
    channel is being torn down: by contract no other thread may use the channel any more -/
def outsideByDesign : List String := ["ares_destroy"]

/-- **no access outside the locked region**: every public function that takes the channel lock dereferences the
    channel only between its first lock and its last unlock (textual order, regenerated table).  The pinned tree had
    one violator, `ares_search`, which read `channel->flags` before locking (finding F45-C11, a data race with the
    reload thread confirmed by ThreadSanitizer, repaired). -/
theorem accesses_inside_lock : ∀ f ∈ outsideLock, f ∈ outsideByDesign := by decide

/-- the request entry points themselves are in the table and lock (guards against an extraction that
    silently finds nothing) -/
theorem table_covers_entry_points :
    ("ares_send_dnsrec", true, false) ∈ lockTable ∧ ("ares_cancel", true, true) ∈ lockTable ∧
    ("ares_process_fds", true, false) ∈ lockTable ∧ ("ares_save_options", true, false) ∈ lockTable ∧
    ("ares_reinit", true, true) ∈ lockTable := by decide

theorem lock_order_acyclic (s : St) (steps : List Step) (h : C07b.LockInv s) :
    C07b.LockInv (run s steps) ∧ (run s steps).lockOrderViolations = s.lockOrderViolations :=
  C07b.lock_order_acyclic s steps h

theorem lock_order_from_start (steps : List Step) : (run {} steps).lockOrderViolations = 0 :=
  (C07b.lock_order_acyclic {} steps C07b.lockInv_init).2

theorem event_thread_releases_mutex (s : St) (h : C07b.LockInv s) (hm : s.etHoldsM = true) :
    (step s .et).etHoldsM = false := C07b.et_releases_mutex s h hm

theorem no_lost_wakeup (steps : List Step) : Covered (run {} steps) :=
  C07b.sleep_covers_deadlines {} steps rfl C07b.covered_init

theorem wait_empty_sound (queries : Nat) (timedOut : Bool) :
    waitEmptyReturnsSuccess queries timedOut = true → queries = 0 := C07b.wait_empty_sound queries timedOut

end Cares.C11
