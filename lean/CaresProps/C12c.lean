import CaresLemmas.ClientExecRun
import CaresLemmas.ClientCausalRun
import CaresProps.C12b
import CaresProps.C13b
import CaresProps.C01
/-!
# C12c — the channel model drives its compound requests through the pure client fold

`C12b` / `C13b` are statements about `ClientWalk.clientRun`, the fold of `clientStart` / `clientOnCb` over the
completions a `search` / `gai` client receives.  This file is the refinement that ties them to `Chan.Core.exec`.

**The log.**  `execC` (CaresLemmas/ClientExecLog*.lean) is `exec` with every procedure re-stated so that it also
returns the client events that happened while it ran (`CItem`: `.start`, `.cb`, `.act`, `.slot`, `.lost`, `.rel`,
`.ret`); `execC_fst : (execC fuel call s).1 = exec fuel call s`.  `RunC s t L`: a run of completed top-level calls and
environment steps from `s` to `t` with log `L`.  For a compound request `cid`: `evsOf cid L` = the completions
`(status, timeouts, reply, stored query ids)` with which `clientOnCb` was invoked on its record, `sentOf cid L` =
`(name, qtype)` of the `.send` / `.sendSlot` actions executed for it, `finsOf cid L` = the `(status, timeouts, digest)`
of the `.finish` actions executed for it (each hands exactly these to `userCb`).

**What is proved.**

1. `client_run_replays` / `client_call_replays` (unconditional, re-entrancy included): the log replays on the pure
   machine `rstep`: records change only by `clientStart` / `clientOnCb` (applied to the *stored* record) / storing a
   query id / release; the actions executed are exactly those returned, in order, frame by frame (`runActs` frames
   nest: a sub-request that completes synchronously calls back into the client while the outer frame still has
   actions to run).
2. `client_events_are_fold_partial`: for runs that are *causal* for `cid` — every completion delivered to `cid` comes
   while more sub-requests have been started for `cid` than completions delivered (`Causal cid L`, a decidable
   property of the log) — `sentOf` / `finsOf` are exactly `clientRun`'s `sent` / `fin` on `evsOf`.  Synchronous
   completions inside `runActs`, cancel and destroy are covered.
3. `search_over_channel_partial`, `gai_over_channel_partial`, `gai_addresses_over_channel_partial`: C12b / C13b
   re-stated over the channel run.
4. `client_replies_accepted` (unconditional): every reply handed to `clientOnCb` is in C05's `accepted` log, or the
   aged copy of a cache entry whose record is.

5. **Causality is a theorem** (`causal_of_run`, CaresLemmas/ClientCausal*.lean): for a run under the C01 discipline
   (`RunI s t L`: the first state satisfies `C01.Inv`, every top-level call satisfies `C01.CallOk` — what the driver
   establishes with `callOk_loop` / `callOk_accept` — or is `ares_destroy` called between API calls, every environment
   step re-establishes `C01.Inv` and keeps the linked sub-requests) the log is `Causal` for every compound request
   created during the run.  It is a property of the channel, not of the client: each sub-request completes at most
   once and only after it was started.  The proof is C01's induction over the procedures, run on the instrumented
   executor: the log invariant `#starts = #completions + (linked sub-requests of cid) + (hand-overs in flight)` is
   maintained by every body, the preconditions of the nested calls being re-derived as in C01's `good_*` lemmas.
   Hence the unconditional versions `client_events_are_fold`, `search_over_channel`, `search_names_over_channel`,
   `gai_over_channel`, `gai_addresses_over_channel` below.  The hypothesis is not avoidable in the *pure* theorem
   (`fold_of_replay`): `Example.NonCausal` is a log that replays but delivers one completion twice.
-/
namespace Cares.C12c
open Cares.Chan Cares.Text Cares.Proto Cares.ClientWalk

/-- **R1a (unconditional).**  The client events of a run replay on the pure machine: from the client store of the
    first state to that of the last one, with no frame left in progress. -/
theorem client_run_replays {s t : St} {L : CLog} (hr : RunC s t L) :
    t.cfg = s.cfg ∧ replay s.cfg ⟨s.clients, s.nextClient, []⟩ L = some ⟨t.clients, t.nextClient, []⟩ :=
  hr.replays

/-- the same for one procedure (any call, also the nested ones): `runActs id acts` consumes its frame -/
theorem client_call_replays (fuel : Nat) (call : Call) (s : St) (σ : List (Nat × Option (List ClientAct)))
    (hf : (exec fuel call s).1.outOfFuel = false) :
    (execC fuel call s).1 = exec fuel call s ∧
    replay s.cfg ⟨s.clients, s.nextClient, preσ call σ⟩ (execC fuel call s).2 =
      some ⟨(exec fuel call s).1.clients, (exec fuel call s).1.nextClient, σ⟩ :=
  ⟨execC_fst fuel call s, (exec_replays fuel call s σ hf).2⟩

/-- client ids are handed out in order (part of `C01.Inv`) -/
theorem ids_lt_of_inv {s : St} (h : Cares.C01.Inv s) : ∀ c ∈ s.clients, c.id < s.nextClient := by
  intro c hc
  exact h.1.k.lt c.sk (List.mem_map.mpr ⟨c, hc, rfl⟩)

/-- **R1 `client_events_are_fold` (for causal runs).**  Compound request `cid` is created during the run.  The names
    of the `.send` / `.sendSlot` actions executed for `cid` are `(clientRun …).sent`, and the `.finish` handed to
    `userCb` is `(clientRun …).fin`, where `clientRun` folds the completions `clientOnCb` was invoked with. -/
theorem client_events_are_fold_partial {s t : St} {L : CLog} (hr : RunC s t L) (cid : Nat)
    (hnew : s.nextClient ≤ cid) (hinv : Cares.C01.Inv s) (hc : Causal cid L)
    (kind : String) (tok : Nat) (react : List Nat) (spec : ReqSpec) (fam : Nat)
    (hs : CItem.start cid kind tok react spec fam ∈ L) :
    sentOf cid L = (clientRun s.cfg cid kind tok react spec fam (evsOf cid L)).sent ∧
    finsOf cid L = (clientRun s.cfg cid kind tok react spec fam (evsOf cid L)).fin.toList :=
  hr.fold cid hnew (ids_lt_of_inv hinv) hc kind tok react spec fam hs

/-- **R2 (search).**  The queries created for a `search` request carry exactly the candidate names of `searchWalk`
    (hex text, requested type), in order; the user callback is made iff the completions reach the candidate the
    walk stops at, with `searchWalk`'s status (`C12.final_status` / `C12.stops_at_first_data_or_hard_error`). -/
theorem search_over_channel_partial {s t : St} {L : CLog} (hr : RunC s t L) (cid : Nat)
    (hnew : s.nextClient ≤ cid) (hinv : Cares.C01.Inv s) (hc : Causal cid L)
    (c : Config) (hm : CfgMatches s.cfg c) (name : Name) (hser : Ser name)
    (hal : lookupHostaliases c.noAliases c.aliases name = .error .enotfound)
    (honion : isOnion (hex name) = false)
    (tok : Nat) (react : List Nat) (spec : ReqSpec) (hspec : spec.name = hex name) (fam : Nat)
    (hs : CItem.start cid "search" tok react spec fam ∈ L) :
    let walk := searchWalk c name ((evsOf cid L).map searchOutcome)
    sentOf cid L = tagNames spec.qtype walk.1 ∧
    (finsOf cid L).map (fun f => stMap f.1) = if walk.1.length ≤ (evsOf cid L).length then [walk.2] else [] := by
  obtain ⟨h1, h2⟩ := client_events_are_fold_partial hr cid hnew hinv hc "search" tok react spec fam hs
  obtain ⟨g1, g2⟩ := Cares.C12b.search_client_walk s.cfg c hm name hser hal honion cid tok react spec hspec fam
    (evsOf cid L)
  refine ⟨h1.trans g1, ?_⟩
  rw [h2]
  cases hf : (clientRun s.cfg cid "search" tok react spec fam (evsOf cid L)).fin with
  | none => rw [hf] at g2; split at g2 <;> simp_all
  | some f => rw [hf] at g2; split at g2 <;> simp_all

/-- names sent = `takeUntilStop candidates outcomes` -/
theorem search_names_over_channel_partial {s t : St} {L : CLog} (hr : RunC s t L) (cid : Nat)
    (hnew : s.nextClient ≤ cid) (hinv : Cares.C01.Inv s) (hc : Causal cid L)
    (c : Config) (hm : CfgMatches s.cfg c) (name : Name) (hser : Ser name)
    (hal : lookupHostaliases c.noAliases c.aliases name = .error .enotfound)
    (honion : isOnion (hex name) = false)
    (tok : Nat) (react : List Nat) (spec : ReqSpec) (hspec : spec.name = hex name) (fam : Nat)
    (hs : CItem.start cid "search" tok react spec fam ∈ L) (names : List Name) (h : nameList c name = .ok names) :
    sentOf cid L = tagNames spec.qtype (takeUntilStop names ((evsOf cid L).map searchOutcome)) := by
  rw [(client_events_are_fold_partial hr cid hnew hinv hc "search" tok react spec fam hs).1]
  exact Cares.C12b.search_client_sent_names s.cfg c hm name hser hal honion cid tok react spec hspec fam _ names h

/-- **R2 (gai).**  Completions grouped by candidate as in `C12b.gai_client_walk`: the sub-requests are `gaiWalk`'s
    names with the requested families, the user callback's status is `gaiWalk`'s. -/
theorem gai_over_channel_partial {s t : St} {L : CLog} (hr : RunC s t L) (cid : Nat)
    (hnew : s.nextClient ≤ cid) (hinv : Cares.C01.Inv s) (hc : Causal cid L)
    (c : Config) (hm : CfgMatches s.cfg c) (name : Name) (hser : Ser name)
    (hal : lookupHostaliases c.noAliases c.aliases name = .error .enotfound)
    (fam : Nat) (hfam : fam = 0 ∨ fam = 2 ∨ fam = 10)
    (honion : isOnion (hex name) = false) (hlit : isV4Literal (hex name) = false)
    (hloc : isLocalhost (hex name) = false) (hdns : DnsFirst s.cfg)
    (tok : Nat) (react : List Nat) (spec : ReqSpec) (hspec : spec.name = hex name)
    (hs : CItem.start cid "gai" tok react spec fam ∈ L)
    (grps : List (List Ev)) (tail : List Ev) (hev : evsOf cid L = grps.flatten ++ tail)
    (hlen : ∀ g ∈ grps, g.length = famCount fam) (htail : tail.length < famCount fam) :
    let walk := gaiWalk c name (grps.map grpOutcome)
    sentOf cid L = tagFam fam walk.1 ∧
    (finsOf cid L).map (fun f => stMap f.1) = if walk.1.length ≤ grps.length then [walk.2] else [] := by
  obtain ⟨h1, h2⟩ := client_events_are_fold_partial hr cid hnew hinv hc "gai" tok react spec fam hs
  rw [hev] at h1 h2
  obtain ⟨g1, g2⟩ := Cares.C12b.gai_client_walk s.cfg c hm name hser hal fam hfam honion hlit hloc hdns cid tok react
    spec hspec grps tail hlen htail
  refine ⟨h1.trans g1, ?_⟩
  rw [h2]
  cases hf : (clientRun s.cfg cid "gai" tok react spec fam (grps.flatten ++ tail)).fin with
  | none => rw [hf] at g2; split at g2 <;> simp_all
  | some f => rw [hf] at g2; split at g2 <;> simp_all

/-- **R2 (gai addresses).**  When the user callback of a `gai` request is made with status OK, the address list of
    its digest is exactly the concatenation, in arrival order, of the addresses of the OK answers delivered (to
    `clientOnCb`) for the winning candidate; with any other status the list is empty. -/
theorem gai_addresses_over_channel_partial {s t : St} {L : CLog} (hr : RunC s t L) (cid : Nat)
    (hnew : s.nextClient ≤ cid) (hinv : Cares.C01.Inv s) (hc : Causal cid L)
    (c : Config) (hm : CfgMatches s.cfg c) (name : Name) (hser : Ser name)
    (hal : lookupHostaliases c.noAliases c.aliases name = .error .enotfound)
    (fam : Nat) (hfam : fam = 0 ∨ fam = 2 ∨ fam = 10)
    (honion : isOnion (hex name) = false) (hlit : isV4Literal (hex name) = false)
    (hloc : isLocalhost (hex name) = false) (hdns : DnsFirst s.cfg)
    (tok : Nat) (react : List Nat) (spec : ReqSpec) (hspec : spec.name = hex name)
    (hs : CItem.start cid "gai" tok react spec fam ∈ L)
    (grps : List (List Ev)) (tail : List Ev) (hev : evsOf cid L = grps.flatten ++ tail)
    (hlen : ∀ g ∈ grps, g.length = famCount fam) (htail : tail.length < famCount fam)
    (st : Chan.Status) (tm : Nat) (dg : String) (hfin : (st, tm, dg) ∈ finsOf cid L) :
    (st = .ok → ∃ win, grps[(gaiWalk c name (grps.map grpOutcome)).1.length - 1]? = some win ∧
        dg = addrDigest (win.flatMap evNodes) (win.foldl evAiName "")) ∧
    (st ≠ .ok → dg = "ai=") := by
  obtain ⟨_, h2⟩ := client_events_are_fold_partial hr cid hnew hinv hc "gai" tok react spec fam hs
  rw [hev] at h2
  rw [h2] at hfin
  have hf : (clientRun s.cfg cid "gai" tok react spec fam (grps.flatten ++ tail)).fin = some (st, tm, dg) := by
    cases h : (clientRun s.cfg cid "gai" tok react spec fam (grps.flatten ++ tail)).fin with
    | none => rw [h] at hfin; cases hfin
    | some f => rw [h] at hfin; simp only [Option.toList_some, List.mem_singleton] at hfin; rw [hfin]
  constructor
  · intro hst
    subst hst
    exact Cares.C13b.gai_addresses_from_replies s.cfg c hm name hser hal fam hfam honion hlit hloc hdns cid tok react
      spec hspec grps tail hlen htail tm dg hf
  · intro hne
    exact Cares.C13b.gai_no_addresses_unless_ok s.cfg c hm name hser hal fam hfam honion hlit hloc hdns cid tok react
      spec hspec grps tail hlen htail st tm dg hf hne

/-- **R2 (link to C05's `accepted` log).**  Every reply passed to `clientOnCb` for `cid` during the run is an
    accepted response (`(fd, key, r) ∈ accepted`: it passed all checks of `process_answer`, `C05.accepted_authentic`),
    or the copy of a cache entry — itself an accepted response, `C05.cache_provenance` — with its TTLs reduced by
    the time spent in the cache.  Unconditional (no causality needed). -/
theorem client_replies_accepted {s t : St} {L : CLog} (hr : RunC s t L) (hc : CacheProv s) (cid : Nat) :
    ∀ e ∈ evsOf cid L, ∀ r, e.reply = some r → FromAcc t.accepted r := by
  intro e he r hr'
  obtain ⟨i, hi, hie⟩ := List.mem_flatMap.mp he
  cases i with
  | cb id st tm rec qa qb =>
    simp only [ev1] at hie
    split at hie
    · simp only [List.mem_singleton] at hie
      subst hie
      simp only at hr'
      subst hr'
      exact hr.provenance hc |>.2.2 _ _ _ _ _ _ hi
    · cases hie
  | _ => cases hie

/-- the addresses a `gai` request reports come from accepted responses: the completions of the winning candidate
    (`gai_addresses_over_channel_partial`) carry only accepted (or cached accepted) replies -/
theorem gai_replies_accepted {s t : St} {L : CLog} (hr : RunC s t L) (hc : CacheProv s) (cid : Nat)
    (grps : List (List Ev)) (tail : List Ev) (hev : evsOf cid L = grps.flatten ++ tail) :
    ∀ win ∈ grps, ∀ e ∈ win, ∀ r, e.reply = some r → FromAcc t.accepted r := by
  intro win hw e he r hr'
  refine client_replies_accepted hr hc cid e ?_ r hr'
  rw [hev]
  exact List.mem_append_left _ (List.mem_flatten.mpr ⟨win, hw, he⟩)

/-! ### causality of channel runs, and the unconditional statements

`RunI s t L` (CaresLemmas/ClientCausalRun.lean) is `RunC s t L` under the C01 discipline; its constructors, in the
vocabulary of C01: -/

/-- a run starts in a state satisfying the C01 invariant -/
theorem run_start {s : St} (h : Cares.C01.Inv s) : RunI s s [] := RunI.nil s h

/-- a completed top-level call (any procedure but `runActs`, no reply handed in) whose C01 precondition holds -/
theorem run_call {s t : St} {L : CLog} (hr : RunI s t L) (fuel : Nat) (call : Call) (htop : call.topC)
    (hok : Cares.C01.CallOk t call) (hf : (exec fuel call t).1.outOfFuel = false) :
    RunI s (exec fuel call t).1 (L ++ (execC fuel call t).2) := hr.call fuel call htop hok hf

/-- the invariant holds after every step, so `C01.callOk_loop` / `C01.callOk_accept` apply -/
theorem run_inv {s t : St} {L : CLog} (hr : RunI s t L) : Cares.C01.Inv t := hr.inv

/-- accepting a request with a fresh token (`C01.callOk_accept`) is an environment step -/
theorem run_accept {s t : St} {L : CLog} (hr : RunI s t L) (tok : Nat) (hb : tok < 10000 + t.reactSeq)
    (hp : tok ∉ t.pendingToks) (hd : tok ∉ t.doneToks) :
    RunI s { t with pendingToks := t.pendingToks ++ [tok] } L :=
  hr.env rfl rfl rfl rfl rfl (Cares.C01.callOk_accept hr.inv tok hb hp hd).1 (fun _ => rfl)

/-- **Causality of channel runs.**  In a run under the C01 discipline, at every completion delivered to a compound
    request created during the run, strictly more sub-requests have been started for it than completions
    delivered. -/
theorem causal_of_run {s t : St} {L : CLog} (hr : RunI s t L) : ∀ cid, s.nextClient ≤ cid → Causal cid L :=
  hr.causal

/-- the invariant behind it: every sub-request started for `cid` has either completed (exactly once) or is still
    linked in the qid table (`Sk.subs`: the queries owned by `cid` that can still get a completion) -/
theorem subrequests_accounted {s t : St} {L : CLog} (hr : RunI s t L) (cid : Nat) (hnew : s.nextClient ≤ cid) :
    (sentOf cid L).length = (evsOf cid L).length + t.sk.subs cid := by
  have := (hr.lg hnew).cnt
  simpa only [nsOf, ncOf, Nat.add_zero] using this

/-- **R1 `client_events_are_fold`.**  Compound request `cid` is created during the run.  The names of the `.send` /
    `.sendSlot` actions executed for `cid` are `(clientRun …).sent`, and the `.finish` handed to `userCb` is
    `(clientRun …).fin`, where `clientRun` folds the completions `clientOnCb` was invoked with. -/
theorem client_events_are_fold {s t : St} {L : CLog} (hr : RunI s t L) (cid : Nat) (hnew : s.nextClient ≤ cid)
    (kind : String) (tok : Nat) (react : List Nat) (spec : ReqSpec) (fam : Nat)
    (hs : CItem.start cid kind tok react spec fam ∈ L) :
    sentOf cid L = (clientRun s.cfg cid kind tok react spec fam (evsOf cid L)).sent ∧
    finsOf cid L = (clientRun s.cfg cid kind tok react spec fam (evsOf cid L)).fin.toList :=
  client_events_are_fold_partial hr.run cid hnew hr.inv0 (causal_of_run hr cid hnew) kind tok react spec fam hs

/-- **R2 (search)**, see `search_over_channel_partial` -/
theorem search_over_channel {s t : St} {L : CLog} (hr : RunI s t L) (cid : Nat) (hnew : s.nextClient ≤ cid)
    (c : Config) (hm : CfgMatches s.cfg c) (name : Name) (hser : Ser name)
    (hal : lookupHostaliases c.noAliases c.aliases name = .error .enotfound)
    (honion : isOnion (hex name) = false)
    (tok : Nat) (react : List Nat) (spec : ReqSpec) (hspec : spec.name = hex name) (fam : Nat)
    (hs : CItem.start cid "search" tok react spec fam ∈ L) :
    let walk := searchWalk c name ((evsOf cid L).map searchOutcome)
    sentOf cid L = tagNames spec.qtype walk.1 ∧
    (finsOf cid L).map (fun f => stMap f.1) = if walk.1.length ≤ (evsOf cid L).length then [walk.2] else [] :=
  search_over_channel_partial hr.run cid hnew hr.inv0 (causal_of_run hr cid hnew) c hm name hser hal honion tok react
    spec hspec fam hs

/-- names sent = `takeUntilStop candidates outcomes` -/
theorem search_names_over_channel {s t : St} {L : CLog} (hr : RunI s t L) (cid : Nat) (hnew : s.nextClient ≤ cid)
    (c : Config) (hm : CfgMatches s.cfg c) (name : Name) (hser : Ser name)
    (hal : lookupHostaliases c.noAliases c.aliases name = .error .enotfound)
    (honion : isOnion (hex name) = false)
    (tok : Nat) (react : List Nat) (spec : ReqSpec) (hspec : spec.name = hex name) (fam : Nat)
    (hs : CItem.start cid "search" tok react spec fam ∈ L) (names : List Name) (h : nameList c name = .ok names) :
    sentOf cid L = tagNames spec.qtype (takeUntilStop names ((evsOf cid L).map searchOutcome)) :=
  search_names_over_channel_partial hr.run cid hnew hr.inv0 (causal_of_run hr cid hnew) c hm name hser hal honion tok
    react spec hspec fam hs names h

/-- **R2 (gai)**, see `gai_over_channel_partial` -/
theorem gai_over_channel {s t : St} {L : CLog} (hr : RunI s t L) (cid : Nat) (hnew : s.nextClient ≤ cid)
    (c : Config) (hm : CfgMatches s.cfg c) (name : Name) (hser : Ser name)
    (hal : lookupHostaliases c.noAliases c.aliases name = .error .enotfound)
    (fam : Nat) (hfam : fam = 0 ∨ fam = 2 ∨ fam = 10)
    (honion : isOnion (hex name) = false) (hlit : isV4Literal (hex name) = false)
    (hloc : isLocalhost (hex name) = false) (hdns : DnsFirst s.cfg)
    (tok : Nat) (react : List Nat) (spec : ReqSpec) (hspec : spec.name = hex name)
    (hs : CItem.start cid "gai" tok react spec fam ∈ L)
    (grps : List (List Ev)) (tail : List Ev) (hev : evsOf cid L = grps.flatten ++ tail)
    (hlen : ∀ g ∈ grps, g.length = famCount fam) (htail : tail.length < famCount fam) :
    let walk := gaiWalk c name (grps.map grpOutcome)
    sentOf cid L = tagFam fam walk.1 ∧
    (finsOf cid L).map (fun f => stMap f.1) = if walk.1.length ≤ grps.length then [walk.2] else [] :=
  gai_over_channel_partial hr.run cid hnew hr.inv0 (causal_of_run hr cid hnew) c hm name hser hal fam hfam honion hlit
    hloc hdns tok react spec hspec hs grps tail hev hlen htail

/-- **R2 (gai addresses)**, see `gai_addresses_over_channel_partial` -/
theorem gai_addresses_over_channel {s t : St} {L : CLog} (hr : RunI s t L) (cid : Nat) (hnew : s.nextClient ≤ cid)
    (c : Config) (hm : CfgMatches s.cfg c) (name : Name) (hser : Ser name)
    (hal : lookupHostaliases c.noAliases c.aliases name = .error .enotfound)
    (fam : Nat) (hfam : fam = 0 ∨ fam = 2 ∨ fam = 10)
    (honion : isOnion (hex name) = false) (hlit : isV4Literal (hex name) = false)
    (hloc : isLocalhost (hex name) = false) (hdns : DnsFirst s.cfg)
    (tok : Nat) (react : List Nat) (spec : ReqSpec) (hspec : spec.name = hex name)
    (hs : CItem.start cid "gai" tok react spec fam ∈ L)
    (grps : List (List Ev)) (tail : List Ev) (hev : evsOf cid L = grps.flatten ++ tail)
    (hlen : ∀ g ∈ grps, g.length = famCount fam) (htail : tail.length < famCount fam)
    (st : Chan.Status) (tm : Nat) (dg : String) (hfin : (st, tm, dg) ∈ finsOf cid L) :
    (st = .ok → ∃ win, grps[(gaiWalk c name (grps.map grpOutcome)).1.length - 1]? = some win ∧
        dg = addrDigest (win.flatMap evNodes) (win.foldl evAiName "")) ∧
    (st ≠ .ok → dg = "ai=") :=
  gai_addresses_over_channel_partial hr.run cid hnew hr.inv0 (causal_of_run hr cid hnew) c hm name hser hal fam hfam
    honion hlit hloc hdns tok react spec hspec hs grps tail hev hlen htail st tm dg hfin

end Cares.C12c
