/-
C07 — the time left until a deadline is never negative and never wrong, over `ares_timeval_remaining()` as
tools/gen_timeval.py regenerates it from /repo/src/lib/ares_timeout.c on every run
(CaresModel/Generated/Timeval.lean).  ares_timeout() (the hint given to the application), the event thread's sleep and
ares_queue_wait_empty() all go through this function.

For normalised times (0 ≤ usec < 1000000):
* `remaining_normalised`: the result is normalised and non-negative (no negative timeout hint, whatever the clock says);
* `remaining_value`: in microseconds it is exactly max(0, tout - now): never later than the deadline, never earlier;
* `remaining_expired` / `remaining_zero_iff`: an overdue (or due) deadline gives exactly (0, 0), and only such a deadline does;
* `remaining_reaches_deadline`: now + time left = deadline for a deadline not yet passed (sleeping it out lands on the deadline);
* `remaining_antitone_now` / `remaining_monotone_deadline`: the time left never grows as the clock advances and is ordered like
  the deadlines (the earliest deadline gives the shortest sleep);
* `sleep_ms_covers_deadline`: the event thread's millisecond expression (Generated/EvTimeout.lean) applied to the time left ends
  the sleep strictly after the deadline and at most 1 ms late;
* `remaining_after_elapsed`: asking again after d microseconds gives exactly max(0, left - d) — an early wake-up neither loses
  nor gains time.
-/
import CaresModel.Generated.Timeval
import CaresModel.Generated.EvTimeout
namespace Cares.C07c
open Cares.Generated.Timeval

def Norm (usec : Int) : Prop := 0 ≤ usec ∧ usec < 1000000

/-- microseconds of a (sec, usec) pair -/
def us (sec usec : Int) : Int := sec * 1000000 + usec

theorem remaining_normalised (ns nu ts tu : Int) (hn : Norm nu) (ht : Norm tu) :
    0 ≤ (remaining ns nu ts tu).1 ∧ Norm (remaining ns nu ts tu).2 := by
  unfold Norm at *
  unfold remaining
  simp only []
  split
  · simp
  · rename_i h
    simp only [Bool.or_eq_true, Bool.and_eq_true, decide_eq_true_eq, not_or, not_and] at h
    split <;> rename_i h2 <;> simp only [decide_eq_true_eq] at h2 <;> simp only [] <;> omega

theorem remaining_value (ns nu ts tu : Int) (hn : Norm nu) (ht : Norm tu) :
    us (remaining ns nu ts tu).1 (remaining ns nu ts tu).2 = max 0 (us ts tu - us ns nu) := by
  unfold Norm at *
  unfold remaining us
  simp only []
  split
  · rename_i h
    simp only [Bool.or_eq_true, Bool.and_eq_true, decide_eq_true_eq] at h
    simp only [Int.zero_mul, Int.add_zero]
    omega
  · rename_i h
    simp only [Bool.or_eq_true, Bool.and_eq_true, decide_eq_true_eq, not_or, not_and] at h
    split <;> rename_i h2 <;> simp only [decide_eq_true_eq] at h2 <;> simp only [] <;> omega

theorem remaining_expired (ns nu ts tu : Int) (hn : Norm nu) (ht : Norm tu) (h : us ts tu ≤ us ns nu) :
    remaining ns nu ts tu = (0, 0) := by
  have hv := remaining_value ns nu ts tu hn ht
  have hz := remaining_normalised ns nu ts tu hn ht
  unfold Norm us at *
  have : (remaining ns nu ts tu).1 = 0 ∧ (remaining ns nu ts tu).2 = 0 := by omega
  exact Prod.ext this.1 this.2

theorem remaining_zero_iff (ns nu ts tu : Int) (hn : Norm nu) (ht : Norm tu) :
    remaining ns nu ts tu = (0, 0) ↔ us ts tu ≤ us ns nu := by
  constructor
  · intro h
    have hv := remaining_value ns nu ts tu hn ht
    rw [h] at hv
    unfold us at *
    omega
  · exact remaining_expired ns nu ts tu hn ht

/-- sleeping exactly the time left lands exactly on the deadline (never before it, never past it) -/
theorem remaining_reaches_deadline (ns nu ts tu : Int) (hn : Norm nu) (ht : Norm tu) (h : us ns nu ≤ us ts tu) :
    us ns nu + us (remaining ns nu ts tu).1 (remaining ns nu ts tu).2 = us ts tu := by
  have hv := remaining_value ns nu ts tu hn ht
  omega

/-- as the clock advances the time left never grows: a later `now` cannot produce a longer sleep for the same deadline -/
theorem remaining_antitone_now (ns nu ns' nu' ts tu : Int) (hn : Norm nu) (hn' : Norm nu') (ht : Norm tu)
    (h : us ns nu ≤ us ns' nu') :
    us (remaining ns' nu' ts tu).1 (remaining ns' nu' ts tu).2 ≤ us (remaining ns nu ts tu).1 (remaining ns nu ts tu).2 := by
  have hv := remaining_value ns nu ts tu hn ht
  have hv' := remaining_value ns' nu' ts tu hn' ht
  omega

/-- an earlier deadline never gets the longer wait: the time left is monotone in the deadline, so taking the
    earliest deadline (ares_timeout's choice) gives the shortest sleep -/
theorem remaining_monotone_deadline (ns nu ts tu ts' tu' : Int) (hn : Norm nu) (ht : Norm tu) (ht' : Norm tu')
    (h : us ts tu ≤ us ts' tu') :
    us (remaining ns nu ts tu).1 (remaining ns nu ts tu).2 ≤ us (remaining ns nu ts' tu').1 (remaining ns nu ts' tu').2 := by
  have hv := remaining_value ns nu ts tu hn ht
  have hv' := remaining_value ns nu ts' tu' hn ht'
  omega

/-- after the clock has moved by `d` microseconds (to any normalised reading), the time left has shrunk by exactly
    min(d, what was left): waking early and asking again never loses or gains time -/
theorem remaining_after_elapsed (ns nu ns' nu' ts tu : Int) (hn : Norm nu) (hn' : Norm nu') (ht : Norm tu)
    (h : us ns nu ≤ us ns' nu') :
    us (remaining ns' nu' ts tu).1 (remaining ns' nu' ts tu).2 =
      max 0 (us (remaining ns nu ts tu).1 (remaining ns nu ts tu).2 - (us ns' nu' - us ns nu)) := by
  have hv := remaining_value ns nu ts tu hn ht
  have hv' := remaining_value ns' nu' ts tu hn' ht
  omega

/-- the two regenerated pieces composed as the event thread composes them: the millisecond value it hands to the backend
    (`timeoutMs`, re-extracted from ares_event_thread()) applied to the time left (`remaining`, re-extracted from
    ares_timeval_remaining()) wakes the thread strictly after the deadline (no spinning just before it) and at most one
    millisecond late, in microseconds, for every normalised clock reading and deadline -/
theorem sleep_ms_covers_deadline (ns nu ts tu : Int) (hn : Norm nu) (ht : Norm tu) :
    let r := remaining ns nu ts tu
    let ms : Int := (Cares.Generated.Ev.timeoutMs r.1.toNat r.2.toNat : Nat)
    max (us ts tu) (us ns nu) < us ns nu + ms * 1000 ∧ us ns nu + ms * 1000 ≤ max (us ts tu) (us ns nu) + 1000 := by
  have hv := remaining_value ns nu ts tu hn ht
  have hz := remaining_normalised ns nu ts tu hn ht
  unfold Norm us at *
  simp only [Cares.Generated.Ev.timeoutMs]
  omega

/-! non-vacuity, incl. the case of seed C07-4: deadline in an earlier second with a larger microsecond part -/
example : remaining 101 100000 100 800000 = (0, 0) := by decide
example : remaining 100 800000 101 100000 = (0, 300000) := by decide
example : remaining 100 100000 102 800000 = (2, 700000) := by decide
example : remaining 100 500000 100 500000 = (0, 0) := by decide
example : us 100 800000 + us (remaining 100 800000 101 100000).1 (remaining 100 800000 101 100000).2 = us 101 100000 := by decide

end Cares.C07c
