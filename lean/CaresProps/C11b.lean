import CaresModel.Reinit
import CaresModel.Generated.ReinitProg
/-!
# C11 (clause: ares_reinit() / ares_destroy() cannot deadlock) — theorems over the `Reinit` transition system

ares_reinit() joins the previous reload thread while it HOLDS the channel lock L.  That is safe only because the
reload thread resets `reinit_pending` at a point after which it never needs L again: a caller that saw
`reinit_pending == FALSE` joins a thread that can run to its end without L.  `NoLockAfterClear` is that condition as
a decidable check of the thread's program; `deadlock_free` proves, by an inductive invariant over ALL interleavings
and any number of ares_reinit() calls, that it suffices; `generated_prog_ok` is the obligation that the program
tools/gen_reinit.py extracted from the current ares_reinit_thread() satisfies it.  `regression_deadlocks` is a
kernel-checked schedule showing what happens when the flag is reset in a locked section at the START of the thread.

Invariant (`HInv` ∧ `Inv`), in words:
  * a reload thread the stored handle does not refer to has finished; at `rSpawn` there is no stored handle;
  * the application owns L exactly at the program points where the code holds it (`appHolds`);
  * for each thread with remaining program `r` there is a flag `cl` ("has reset reinit_pending") such that
    `scan r (thread owns L) cl` holds, and if `cl = false` for the thread the handle refers to then
    `reinit_pending` is set and the application is not at `rJoin`;
  * the owner of L and the stored handle are existing threads; between the test of `reinit_pending` and the
    creation of the new thread the flag stays set; after ares_destroy()'s join there is no stored handle.
-/
namespace Cares.C11b
open Cares.Reinit

/-- `scan r held cl`: running the remaining program `r` from "L held = `held`, reinit_pending already reset = `cl`":
    lock only when L is not held and the flag has not been reset; unlock only when held; the reset only when held and
    only once; no `readConfig` (which needs L) after the reset; L not held at the end. -/
def scan : List ROp → Bool → Bool → Bool
  | [], held, _ => !held
  | .lock :: r, held, cl => !held && !cl && scan r true cl
  | .unlock :: r, held, cl => held && scan r false cl
  | .clearPending :: r, held, cl => held && !cl && scan r held true
  | .flush :: r, held, cl => scan r held cl
  | .readConfig :: r, held, cl => !cl && scan r held cl

/-- the decidable syntactic condition on a reload-thread program -/
def NoLockAfterClear (p : List ROp) : Bool := scan p false false

/-- reload thread `k` owns L -/
def holds (s : St) (k : Nat) : Bool := decide (s.owner = .thr k)

structure HInv (s : St) : Prop where
  retired : ∀ k r, s.thrs[k]? = some r → s.handle ≠ some k → r = []
  spawnHandle : s.apc = .rSpawn → s.handle = none

theorem hinv_init : HInv St.init := by
  constructor <;> simp [St.init]

theorem thrStep_some {s s' : St} {k : Nat} (h : thrStep s k = some s') :
    ∃ op rest, s.thrs[k]? = some (op :: rest) ∧ s'.thrs = s.thrs.set k rest ∧ s'.handle = s.handle ∧
      s'.apc = s.apc ∧ s'.sysUp = s.sysUp := by
  unfold thrStep at h
  split at h
  · simp at h
  · simp at h
  · rename_i op rest heq
    refine ⟨op, rest, heq, ?_⟩
    cases op <;> simp only [] at h <;> (try split at h) <;> simp at h <;> subst h <;> simp

theorem joinable_handle {s : St} (h : joinable s = true) : ∀ k, s.handle = some k → s.thrs[k]? = some [] := by
  intro k hk
  unfold joinable at h
  rw [hk] at h
  simp only [] at h
  split at h
  · assumption
  · simp at h

theorem getElem_opt_snoc {α : Type} {l : List α} {a r : α} {k : Nat} (h : (l ++ [a])[k]? = some r) :
    (k < l.length ∧ l[k]? = some r) ∨ (k = l.length ∧ r = a) := by
  rw [List.getElem?_append] at h
  split at h
  · exact Or.inl ⟨by assumption, h⟩
  · rename_i hlt
    right
    cases hk : k - l.length with
    | zero => rw [hk] at h; simp at h; exact ⟨by omega, h.symm⟩
    | succ n => rw [hk] at h; simp at h

theorem getElem_opt_set_cases {α : Type} {l : List α} {i j : Nat} {a r : α} (h : (l.set i a)[j]? = some r) :
    (j = i ∧ r = a ∧ i < l.length) ∨ (j ≠ i ∧ l[j]? = some r) := by
  rw [List.getElem?_set] at h
  split at h
  · rename_i hij
    split at h
    · left; simp at h; exact ⟨hij.symm, h.symm, by assumption⟩
    · simp at h
  · rename_i hij
    right; exact ⟨fun e => hij e.symm, h⟩

theorem hinv_step (c : Cfg) {s s' : St} (st : Step) (hi : HInv s) (h : step c s st = some s') : HInv s' := by
  cases st with
  | callReinit =>
    simp [step] at h
    obtain ⟨h1, rfl⟩ := h
    exact ⟨hi.retired, by simp⟩
  | callDestroy =>
    simp [step] at h
    obtain ⟨h1, rfl⟩ := h
    exact ⟨hi.retired, by simp⟩
  | app =>
    have hjoin : joinable s = true → ∀ (k : Nat) (r : List ROp), s.thrs[k]? = some r → r = [] := by
      intro hj k r hk
      by_cases hh : s.handle = some k
      · have := joinable_handle hj k hh
        rw [this] at hk; simp at hk; exact hk
      · exact hi.retired k r hk hh
    simp only [step] at h
    unfold appStep at h
    split at h
    all_goals (try (split at h))
    all_goals (try (split at h))
    all_goals (try (simp at h))
    all_goals (try (subst h))
    all_goals (first | exact ⟨hi.retired, by simp_all⟩ | skip)
    · exact ⟨fun k r hk _ => hjoin (by assumption) k r hk, by simp⟩
    · rename_i hsp
      refine ⟨?_, by simp⟩
      intro k r hk hne
      simp only [] at hk hne
      rcases getElem_opt_snoc hk with ⟨_, h2⟩ | ⟨h1, _⟩
      · exact hi.retired k r h2 (by simp [hi.spawnHandle hsp])
      · subst h1; simp at hne
    · exact ⟨fun k r hk _ => hjoin (by assumption) k r hk, by simp⟩
    · exact ⟨fun k r hk _ => hjoin (by assumption) k r hk, by simp⟩
  | spawnFail =>
    simp only [step, spawnFailStep] at h
    split at h
    all_goals (try (split at h))
    all_goals (try (split at h))
    all_goals (try (simp at h))
    all_goals (try (subst h))
    all_goals exact ⟨hi.retired, by simp⟩
  | thr k =>
    simp only [step] at h
    obtain ⟨op, rest, h1, h2, h3, h4, _⟩ := thrStep_some h
    refine ⟨?_, by rw [h3, h4]; exact hi.spawnHandle⟩
    intro j r hj hne
    rw [h2] at hj
    rw [h3] at hne
    rcases getElem_opt_set_cases hj with ⟨rfl, _, _⟩ | ⟨_, hj'⟩
    · have := hi.retired _ _ h1 hne
      simp at this
    · exact hi.retired _ _ hj' hne
  | cfgFail k =>
    simp only [step, cfgFailStep] at h
    split at h
    · rename_i rest h1
      simp at h
      subst h
      refine ⟨?_, hi.spawnHandle⟩
      intro j r hj hne
      simp only [] at hj hne
      rcases getElem_opt_set_cases hj with ⟨rfl, _, _⟩ | ⟨_, hj'⟩
      · have := hi.retired _ _ h1 hne
        simp at this
      · exact hi.retired _ _ hj' hne
    · simp at h

/-- what the invariant says about reload thread `k` with remaining program `r` -/
def ThrOk (s : St) (k : Nat) (r : List ROp) : Prop :=
  ∃ cl, scan r (holds s k) cl = true ∧ (cl = false → s.handle = some k → s.pending = true ∧ s.apc ≠ .rJoin)

structure Inv (c : Cfg) (s : St) : Prop where
  appLock : s.owner = .app ↔ appHolds c s.apc = true
  thrOk : ∀ (k : Nat) (r : List ROp), s.thrs[k]? = some r → ThrOk s k r
  ownerLt : ∀ k, s.owner = .thr k → k < s.thrs.length
  handleLt : ∀ h, s.handle = some h → h < s.thrs.length
  spawnPend : s.apc = .rJoin ∨ s.apc = .rSpawn → s.pending = true
  destroyed : s.apc = .dLock2 ∨ s.apc = .dClean ∨ s.apc = .done → s.handle = none

theorem inv_init (c : Cfg) : Inv c St.init := by
  constructor <;> simp [St.init, appHolds]

theorem thrOk_mono {s s' : St} (hthr : s'.thrs = s.thrs) (hown : ∀ k, holds s' k = holds s k)
    (hx : ∀ k, s'.handle = some k → s.handle = some k ∧
      (s.pending = true ∧ s.apc ≠ .rJoin → s'.pending = true ∧ s'.apc ≠ .rJoin))
    (h : ∀ (k : Nat) (r : List ROp), s.thrs[k]? = some r → ThrOk s k r) :
    ∀ (k : Nat) (r : List ROp), s'.thrs[k]? = some r → ThrOk s' k r := by
  intro k r hk
  rw [hthr] at hk
  obtain ⟨cl, h1, h2⟩ := h k r hk
  refine ⟨cl, by rw [hown]; exact h1, ?_⟩
  intro hcl hh
  obtain ⟨h3, h4⟩ := hx k hh
  exact h4 (h2 hcl h3)

/-- frame lemma for a step of reload thread `k` (the thread the stored handle refers to) -/
theorem inv_thr {c : Cfg} {s : St} {k : Nat} {rest : List ROp} {o' : Owner} {p' : Bool}
    (hi : Inv c s) (hhk : s.handle = some k)
    (ha : o' = .app ↔ s.owner = .app)
    (hb : ∀ j, j ≠ k → decide (o' = .thr j) = decide (s.owner = .thr j))
    (hc : o' = s.owner ∨ o' = .thr k ∨ o' = .free)
    (hd : ThrOk { s with thrs := s.thrs.set k rest, owner := o', pending := p' } k rest)
    (he : s.apc = .rJoin ∨ s.apc = .rSpawn → p' = true) :
    Inv c { s with thrs := s.thrs.set k rest, owner := o', pending := p' } := by
  obtain ⟨hal, hth, hol, hhl, hsp, hde⟩ := hi
  refine ⟨by simp only []; rw [ha]; exact hal, ?_, ?_, by simpa using hhl, he, hde⟩
  · intro j r hj
    simp only [] at hj
    rcases getElem_opt_set_cases hj with ⟨rfl, rfl, _⟩ | ⟨hne, hj'⟩
    · exact hd
    · obtain ⟨cl, h1, _⟩ := hth j r hj'
      refine ⟨cl, ?_, ?_⟩
      · simp only [holds] at h1 ⊢
        rw [hb j hne]; exact h1
      · intro _ h2
        simp only [] at h2
        rw [hhk] at h2
        simp at h2
        exact absurd h2.symm hne
  · intro j hj
    simp only [] at hj
    simp only [List.length_set]
    rcases hc with h1 | h1 | h1
    · exact hol j (h1 ▸ hj)
    · rw [h1] at hj; cases hj; exact hhl _ hhk
    · rw [h1] at hj; cases hj

theorem inv_step (c : Cfg) (hp : NoLockAfterClear c.prog = true) {s s' : St} (st : Step)
    (hh : HInv s) (hi : Inv c s) (h : step c s st = some s') : Inv c s' := by
  cases st with
  | callReinit =>
    simp [step] at h
    obtain ⟨h1, rfl⟩ := h
    have hal := hi.appLock
    refine ⟨by simp_all [appHolds], thrOk_mono (s := s) rfl (fun _ => rfl) (by simp_all) hi.thrOk, hi.ownerLt, hi.handleLt, by simp, by simp⟩
  | callDestroy =>
    simp [step] at h
    obtain ⟨h1, rfl⟩ := h
    have hal := hi.appLock
    refine ⟨by simp_all [appHolds], thrOk_mono (s := s) rfl (fun _ => rfl) (by simp_all) hi.thrOk, hi.ownerLt, hi.handleLt, by simp, by simp⟩
  | app =>
    obtain ⟨hal, hth, hol, hhl, hsp, hde⟩ := hi
    simp only [step] at h
    unfold appStep at h
    split at h
    all_goals (try (split at h))
    all_goals (try (split at h))
    all_goals (try (simp at h))
    all_goals (try (subst h))
    all_goals (first | (refine ⟨by simp_all [appHolds], thrOk_mono (s := s) rfl (by simp_all [holds, appHolds]) (by simp_all) hth, by simp_all [appHolds], by simp_all, by simp_all, by simp_all⟩; done) | skip)
    -- rSpawn: the new thread starts with the whole program, not holding L, reinit_pending set
    rename_i hapc
    have hpend : s.pending = true := hsp (Or.inr hapc)
    refine ⟨by simp_all [appHolds], ?_, ?_, by simp, by simp, by simp⟩
    · intro k r hk
      simp only [] at hk
      rcases getElem_opt_snoc hk with ⟨h1, h2⟩ | ⟨h1, h2⟩
      · obtain ⟨cl, h3, _⟩ := hth k r h2
        refine ⟨cl, h3, ?_⟩
        intro _ h5
        simp at h5
        omega
      · subst h1 h2
        refine ⟨false, ?_, fun _ _ => ⟨hpend, by simp⟩⟩
        have : holds { s with thrs := s.thrs ++ [c.prog], handle := some s.thrs.length, apc := APc.rUnlock } s.thrs.length = false := by
          simp only [holds, decide_eq_false_iff_not]
          intro h6
          have := hol _ h6
          omega
        rw [this]
        exact hp
    · intro k hk
      have := hol k hk
      simp
      omega
  | spawnFail =>
    obtain ⟨hal, hth, hol, hhl, hsp, hde⟩ := hi
    have hnone := hh.spawnHandle
    simp only [step, spawnFailStep] at h
    split at h
    all_goals (try (split at h))
    all_goals (try (split at h))
    all_goals (try (simp at h))
    all_goals (try (subst h))
    all_goals (first | (refine ⟨by simp_all [appHolds], thrOk_mono (s := s) rfl (by simp_all [holds, appHolds]) (by simp_all) hth, by simp_all [appHolds], by simp_all, by simp_all, by simp_all⟩; done) | skip)
  | thr k =>
    have hi0 := hi
    obtain ⟨hal, hth, hol, hhl, hsp, hde⟩ := hi
    simp only [step] at h
    unfold thrStep at h
    split at h
    · simp at h
    · simp at h
    · rename_i op rest hk
      have hhk : s.handle = some k := by
        apply Classical.byContradiction
        intro hne
        have := hh.retired _ _ hk hne
        simp at this
      obtain ⟨cl, hsc, hcl⟩ := hth k _ hk
      cases op <;> simp only [] at h
      · -- readConfig
        split at h
        · simp at h; subst h
          simp [scan] at hsc
          refine inv_thr (o' := s.owner) (p' := s.pending) hi0 hhk Iff.rfl (fun _ _ => rfl) (Or.inl rfl) ⟨cl, ?_, ?_⟩ hsp
          · simpa [holds] using hsc.2
          · simpa using hcl
        · simp at h
      · -- lock
        split at h
        · rename_i hfree
          simp at h; subst h
          simp [scan, holds, hfree] at hsc
          refine inv_thr (o' := .thr k) (p' := s.pending) hi0 hhk (by simp [hfree]) ?_ (Or.inr (Or.inl rfl)) ⟨cl, ?_, ?_⟩ hsp
          · intro j hj
            simp [hfree]
            exact fun e => hj e.symm
          · simpa [holds] using hsc.2
          · simpa using hcl
        · simp at h
      · -- unlock
        split at h
        · rename_i hown
          simp at h; subst h
          simp [scan, holds, hown] at hsc
          refine inv_thr (o' := .free) (p' := s.pending) hi0 hhk (by simp [hown]) ?_ (Or.inr (Or.inr rfl)) ⟨cl, ?_, ?_⟩ hsp
          · intro j hj
            simp [hown]
            exact fun e => hj e.symm
          · simpa [holds] using hsc
          · simpa using hcl
        · rename_i hown
          simp [scan, holds, hown] at hsc
      · -- flush
        simp at h; subst h
        simp [scan] at hsc
        refine inv_thr (o' := s.owner) (p' := s.pending) hi0 hhk Iff.rfl (fun _ _ => rfl) (Or.inl rfl) ⟨cl, ?_, ?_⟩ hsp
        · simpa [holds] using hsc
        · simpa using hcl
      · -- clearPending
        simp at h; subst h
        simp [scan] at hsc
        obtain ⟨⟨h1, h2⟩, h3⟩ := hsc
        refine inv_thr (o' := s.owner) (p' := false) hi0 hhk Iff.rfl (fun _ _ => rfl) (Or.inl rfl) ⟨true, ?_, ?_⟩ ?_
        · simpa [holds, h1] using h3
        · simp
        · intro h4
          rcases h4 with h4 | h4
          · exact absurd h4 (hcl h2 hhk).2
          · have := hh.spawnHandle h4
            rw [hhk] at this; cases this
  | cfgFail k =>
    have hi0 := hi
    obtain ⟨hal, hth, hol, hhl, hsp, hde⟩ := hi
    simp only [step, cfgFailStep] at h
    split at h
    · rename_i rest hk
      have hhk : s.handle = some k := by
        apply Classical.byContradiction
        intro hne
        have := hh.retired _ _ hk hne
        simp at this
      obtain ⟨cl, hsc, hcl⟩ := hth k _ hk
      simp at h; subst h
      simp [scan] at hsc
      refine inv_thr (o' := s.owner) (p' := s.pending) hi0 hhk Iff.rfl (fun _ _ => rfl) (Or.inl rfl) ⟨cl, ?_, ?_⟩ hsp
      · simpa [holds] using hsc.2
      · simpa using hcl
    · simp at h

theorem reachable_inv {c : Cfg} (hp : NoLockAfterClear c.prog = true) {s : St} (hr : Reachable c s) :
    HInv s ∧ Inv c s := by
  induction hr with
  | init => exact ⟨hinv_init, inv_init c⟩
  | step st _ h ih => exact ⟨hinv_step c st ih.1 h, inv_step c hp st ih.1 ih.2 h⟩

theorem reachable_hinv {c : Cfg} {s : St} (hr : Reachable c s) : HInv s := by
  induction hr with
  | init => exact hinv_init
  | step st _ h ih => exact hinv_step c st ih h

/-- a reload thread that holds L can always take its next step -/
theorem holder_enabled {c : Cfg} {s : St} (hi : Inv c s) {k : Nat} (hk : s.owner = .thr k) :
    ∃ s', step c s (.thr k) = some s' := by
  have hlt := hi.ownerLt k hk
  obtain ⟨r, hr⟩ : ∃ r, s.thrs[k]? = some r := ⟨s.thrs[k], by simp [hlt]⟩
  obtain ⟨cl, hsc, _⟩ := hi.thrOk k r hr
  simp only [step, thrStep, hr]
  cases r with
  | nil => simp [scan, holds, hk] at hsc
  | cons op rest =>
    cases op <;> simp [scan, holds, hk] at hsc ⊢

/-- a live reload thread can take its next step whenever L is free -/
theorem free_enabled {c : Cfg} {s : St} {k : Nat} {op : ROp} {rest : List ROp} (hr : s.thrs[k]? = some (op :: rest))
    (hf : s.owner = .free) : ∃ s', step c s (.thr k) = some s' := by
  simp only [step, thrStep, hr]
  cases op <;> simp [hf]

theorem not_joinable {s : St} (hhl : ∀ h, s.handle = some h → h < s.thrs.length) (hj : joinable s = false) :
    ∃ h op rest, s.handle = some h ∧ s.thrs[h]? = some (op :: rest) := by
  unfold joinable at hj
  cases hh : s.handle with
  | none => simp [hh] at hj
  | some h =>
    have hlt := hhl h hh
    obtain ⟨r, hr⟩ : ∃ r, s.thrs[h]? = some r := ⟨s.thrs[h], by simp [hlt]⟩
    cases r with
    | nil => simp [hh, hr] at hj
    | cons op rest => exact ⟨h, op, rest, rfl, hr⟩

/-- the application waits for L at `rLock`, `dLock1`, `dLock2`: L is free or its holder can step -/
theorem lock_wait {c : Cfg} {s : St} (hi : Inv c s) (hna : appHolds c s.apc = false) :
    s.owner = .free ∨ ∃ k s', step c s (.thr k) = some s' := by
  cases ho : s.owner with
  | free => exact Or.inl rfl
  | app => have := hi.appLock.mp ho; rw [hna] at this; cases this
  | thr k => obtain ⟨s', h⟩ := holder_enabled hi ho; exact Or.inr ⟨k, s', h⟩

theorem progress {c : Cfg} (hd : c.destroyJoinHoldsLock = false) {s : St} (hh : HInv s) (hi : Inv c s) :
    terminated s = true ∨ ∃ st s', step c s st = some s' := by
  cases hapc : s.apc with
  | idle => exact Or.inr ⟨.callDestroy, _, by simp [step, hapc]; rfl⟩
  | rLock =>
    right
    rcases lock_wait hi (by simp [hapc, appHolds]) with hf | ⟨k, s', h⟩
    · exact ⟨.app, _, by simp [step, appStep, hapc, hf]; rfl⟩
    · exact ⟨_, _, h⟩
  | dLock1 =>
    right
    rcases lock_wait hi (by simp [hapc, appHolds]) with hf | ⟨k, s', h⟩
    · exact ⟨.app, _, by simp [step, appStep, hapc, hf]; rfl⟩
    · exact ⟨_, _, h⟩
  | dLock2 =>
    right
    rcases lock_wait hi (by simp [hapc, appHolds]) with hf | ⟨k, s', h⟩
    · exact ⟨.app, _, by simp [step, appStep, hapc, hf]; rfl⟩
    · exact ⟨_, _, h⟩
  | rCheck =>
    right
    refine ⟨.app, ?_⟩
    simp only [step, appStep, hapc]
    split
    · exact ⟨_, rfl⟩
    · split <;> exact ⟨_, rfl⟩
  | rSpawn => exact Or.inr ⟨.app, _, by simp [step, appStep, hapc]; rfl⟩
  | rUnlock =>
    right
    refine ⟨.app, ?_⟩
    simp only [step, appStep, hapc]
    split <;> exact ⟨_, rfl⟩
  | dMark =>
    right
    refine ⟨.app, ?_⟩
    simp only [step, appStep, hapc]
    split <;> exact ⟨_, rfl⟩
  | dClean => exact Or.inr ⟨.app, _, by simp [step, appStep, hapc]; rfl⟩
  | rJoin =>
    right
    cases hj : joinable s with
    | true => exact ⟨.app, _, by simp [step, appStep, hapc, hj]; rfl⟩
    | false =>
      obtain ⟨h, op, rest, h1, h2⟩ := not_joinable hi.handleLt hj
      cases ho : s.owner with
      | free => obtain ⟨s', h3⟩ := free_enabled (c := c) h2 ho; exact ⟨_, _, h3⟩
      | thr k => obtain ⟨s', h3⟩ := holder_enabled hi ho; exact ⟨_, _, h3⟩
      | app =>
        -- the application holds L while joining: the thread has reset reinit_pending, so it needs L no more
        obtain ⟨cl, hsc, hcl⟩ := hi.thrOk h _ h2
        have hclt : cl = true := by
          cases cl with
          | true => rfl
          | false => exact absurd hapc (hcl rfl h1).2
        subst hclt
        refine ⟨.thr h, ?_⟩
        simp only [step, thrStep, h2]
        cases op <;> simp [scan, holds, ho] at hsc ⊢
  | dJoin =>
    right
    cases hj : joinable s with
    | true => exact ⟨.app, _, by simp [step, appStep, hapc, hj]; rfl⟩
    | false =>
      obtain ⟨h, op, rest, h1, h2⟩ := not_joinable hi.handleLt hj
      rcases lock_wait hi (by simp [hapc, appHolds, hd]) with hf | ⟨k, s', h3⟩
      · obtain ⟨s', h3⟩ := free_enabled (c := c) h2 hf; exact ⟨_, _, h3⟩
      · exact ⟨_, _, h3⟩
  | done =>
    left
    have hn := hi.destroyed (Or.inr (Or.inr hapc))
    simp only [terminated, hapc, beq_self_eq_true, Bool.true_and, List.all_eq_true]
    intro r hr
    obtain ⟨k, hk⟩ := List.mem_iff_getElem?.mp hr
    have := hh.retired k r hk (by simp [hn])
    simp [this]

/-! ## Results -/

/-- no thread can take a step -/
def Stuck (c : Cfg) (s : St) : Prop := ∀ st, step c s st = none

/-- the executable check `stuck` (over the finitely many candidate steps) is sound for `Stuck` -/
theorem stuck_sound {c : Cfg} {s : St} (h : stuck c s = true) : Stuck c s := by
  intro st
  simp only [stuck, List.all_eq_true, candidates] at h
  have hin : st ∈ candidates s → step c s st = none := by
    intro hm
    have := h st hm
    simpa using this
  cases st with
  | callReinit => exact hin (by simp [candidates])
  | callDestroy => exact hin (by simp [candidates])
  | app => exact hin (by simp [candidates])
  | spawnFail => exact hin (by simp [candidates])
  | thr k =>
    by_cases hk : k < s.thrs.length
    · exact hin (by simp only [candidates, List.mem_append, List.mem_flatMap, List.mem_range]; exact Or.inr ⟨k, hk, by simp⟩)
    · simp [step, thrStep, List.getElem?_eq_none (Nat.le_of_not_lt hk)]
  | cfgFail k =>
    by_cases hk : k < s.thrs.length
    · exact hin (by simp only [candidates, List.mem_append, List.mem_flatMap, List.mem_range]; exact Or.inr ⟨k, hk, by simp⟩)
    · simp [step, cfgFailStep, List.getElem?_eq_none (Nat.le_of_not_lt hk)]

theorem reachable_run {c : Cfg} {s s' : St} (hr : Reachable c s) (sched : List Step) (h : run c s sched = some s') :
    Reachable c s' := by
  induction sched generalizing s with
  | nil => simp [run] at h; exact h ▸ hr
  | cons st r ih =>
    simp only [run] at h
    split at h
    · simp at h
    · rename_i s1 h1
      exact ih (Reachable.step st hr h1) h

/-- (a) Deadlock-freedom.  For every thread program that satisfies the syntactic condition `NoLockAfterClear`
    (lock/unlock alternate and the thread ends without L; reinit_pending is reset exactly where L is held; after
    the reset there is neither a `lock` nor a `readConfig`, the two operations that need L), whether ares_reinit()
    joins and spawns holding L or not, and with ares_destroy() joining without L: in every state reachable by any
    interleaving and any number of ares_reinit() calls, either everything has terminated or some thread can step. -/
theorem deadlock_free (c : Cfg) (hp : NoLockAfterClear c.prog = true) (hd : c.destroyJoinHoldsLock = false)
    {s : St} (hr : Reachable c s) : terminated s = true ∨ ∃ st s', step c s st = some s' := by
  obtain ⟨hh, hi⟩ := reachable_inv hp hr
  exact progress hd hh hi

/-- the same, as "no reachable state is a deadlock" -/
theorem no_deadlock (c : Cfg) (hp : NoLockAfterClear c.prog = true) (hd : c.destroyJoinHoldsLock = false)
    {s : St} (hr : Reachable c s) : ¬ (Stuck c s ∧ terminated s = false) := by
  intro ⟨h1, h2⟩
  rcases deadlock_free c hp hd hr with h | ⟨st, s', h⟩
  · rw [h] at h2; cases h2
  · rw [h1 st] at h; cases h

/-- (b) obligations over what tools/gen_reinit.py extracted from the current source -/
theorem generated_prog_ok : NoLockAfterClear Cares.Generated.Reinit.threadProg = true := by decide

theorem generated_destroy_ok : Cares.Generated.Reinit.destroyJoinHoldsLock = false := by decide

/-- the channel-lock calls of ares_init_by_sysconfig() are one balanced lock … unlock pair (or none): `readConfig`
    needs L only momentarily and returns without it -/
def balanced : List ROp → Bool → Bool
  | [], held => !held
  | .lock :: r, false => balanced r true
  | .unlock :: r, true => balanced r false
  | _, _ => false

theorem sysconfig_locks_balanced : balanced Cares.Generated.Reinit.sysconfigLocks false = true := by decide

/-- ares_reinit()/ares_destroy() with the reload thread as it is in the source cannot deadlock -/
theorem reinit_deadlock_free {s : St} (hr : Reachable Cares.Generated.Reinit.cfg s) :
    terminated s = true ∨ ∃ st s', step Cares.Generated.Reinit.cfg s st = some s' :=
  deadlock_free _ generated_prog_ok generated_destroy_ok hr

/-- (c) the handle discipline (join the stored handle before it is overwritten) never leaves two live reload
    threads - for every thread program and every configuration -/
theorem at_most_one_reload_thread {c : Cfg} {s : St} (hr : Reachable c s) {i j : Nat} {ri rj : List ROp}
    (hi : s.thrs[i]? = some ri) (hj : s.thrs[j]? = some rj) (hli : ri ≠ []) (hlj : rj ≠ []) : i = j := by
  have hh := reachable_hinv hr
  have h1 : s.handle = some i := Classical.byContradiction fun hne => hli (hh.retired i ri hi hne)
  have h2 : s.handle = some j := Classical.byContradiction fun hne => hlj (hh.retired j rj hj hne)
  rw [h1] at h2
  exact Option.some.inj h2

/-- … and a reload thread that is not the one the stored handle refers to has finished -/
theorem live_thread_is_handle {c : Cfg} {s : St} (hr : Reachable c s) {k : Nat} {r : List ROp}
    (hk : s.thrs[k]? = some r) (hl : r ≠ []) : s.handle = some k :=
  Classical.byContradiction fun hne => hl ((reachable_hinv hr).retired k r hk hne)

/-- while the application is between its test of reinit_pending and the creation of the new thread, the flag stays
    set (no old reload thread resets it late) -/
theorem pending_stable {c : Cfg} (hp : NoLockAfterClear c.prog = true) {s : St} (hr : Reachable c s)
    (h : s.apc = .rJoin ∨ s.apc = .rSpawn) : s.pending = true :=
  (reachable_inv hp hr).2.spawnPend h

/-! ### (d) The regression: reinit_pending reset in a short locked section at the start of the thread -/

/-- ares_reinit_thread() of the regression variant, as gen_reinit.py extracts it -/
def regressionProg : List ROp := [.lock, .clearPending, .unlock, .readConfig, .lock, .flush, .unlock]

def regressionCfg : Cfg := { prog := regressionProg, joinHoldsLock := true, destroyJoinHoldsLock := false }

/-- first ares_reinit() completes; its thread resets reinit_pending, reads the configuration and is about to
    take L again; a second ares_reinit() gets past the test and joins the thread while holding L -/
def regressionSchedule : List Step :=
  [.callReinit, .app, .app, .app, .app, .app, .thr 0, .thr 0, .thr 0, .thr 0, .callReinit, .app, .app]

theorem regression_rejected : NoLockAfterClear regressionProg = false := by decide

theorem regression_deadlocks :
    ∃ s, run regressionCfg St.init regressionSchedule = some s ∧ Reachable regressionCfg s ∧
      Stuck regressionCfg s ∧ terminated s = false := by
  have h : ∃ s, run regressionCfg St.init regressionSchedule = some s ∧ stuck regressionCfg s = true ∧
      terminated s = false := by decide
  obtain ⟨s, h1, h2, h3⟩ := h
  exact ⟨s, h1, reachable_run Reachable.init _ h1, stuck_sound h2, h3⟩

/-- the same reload thread is fine when ares_reinit() joins without L (upstream shape): the deadlock needs both -/
theorem regression_needs_join_under_lock :
    run { regressionCfg with joinHoldsLock := false } St.init regressionSchedule ≠ none ∧
    (∀ s, run { regressionCfg with joinHoldsLock := false } St.init regressionSchedule = some s →
      stuck { regressionCfg with joinHoldsLock := false } s = false) := by decide

/-! ### ares_destroy() joining inside its locked section deadlocks with the reload thread as it is -/

/-- the configuration extracted from the tree when this file was written (fixed here so that the concrete runs
    below do not depend on the generated file; only the three obligations above do) -/
def refCfg : Cfg :=
  { prog := [.readConfig, .lock, .flush, .clearPending, .unlock], joinHoldsLock := true, destroyJoinHoldsLock := false }

def destroyLockedCfg : Cfg := { refCfg with destroyJoinHoldsLock := true }

def destroyLockedSchedule : List Step :=
  [.callReinit, .app, .app, .app, .app, .app, .thr 0, .callDestroy, .app, .app]

theorem destroy_join_under_lock_deadlocks :
    ∃ s, run destroyLockedCfg St.init destroyLockedSchedule = some s ∧ Reachable destroyLockedCfg s ∧
      Stuck destroyLockedCfg s ∧ terminated s = false := by
  have h : ∃ s, run destroyLockedCfg St.init destroyLockedSchedule = some s ∧ stuck destroyLockedCfg s = true ∧
      terminated s = false := by decide
  obtain ⟨s, h1, h2, h3⟩ := h
  exact ⟨s, h1, reachable_run Reachable.init _ h1, stuck_sound h2, h3⟩

/-! ### Non-vacuity: concrete runs of the system with the program of the tree (`refCfg`) -/

/-- two ares_reinit() calls, the second one joins the (finished) first thread and spawns a second one; then
    ares_destroy() joins that one: the run exists and ends with everything terminated -/
example : (run refCfg St.init
    [.callReinit, .app, .app, .app, .app, .app, .thr 0, .thr 0, .thr 0, .thr 0, .thr 0,
     .callReinit, .app, .app, .app, .app, .app, .thr 1, .thr 1, .thr 1, .thr 1, .thr 1,
     .callDestroy, .app, .app, .app, .app, .app]).map (fun s => (terminated s, s.thrs.length, s.pending)) =
    some (true, 2, false) := by decide

/-- the second ares_reinit() arrives while the first thread is still reading: it sees reinit_pending and returns;
    ares_destroy() is called while the thread is live and has to wait at its join (the `.app` step is not
    enabled there) until the thread has finished -/
example : (run refCfg St.init
    [.callReinit, .app, .app, .app, .app, .app, .thr 0, .callReinit, .app, .app,
     .callDestroy, .app, .app]).map (fun s => (s.apc, step refCfg s .app, s.thrs.length)) =
    some (.dJoin, none, 1) := by decide

example : (run refCfg St.init
    [.callReinit, .app, .app, .app, .app, .app, .thr 0, .callReinit, .app, .app,
     .callDestroy, .app, .app, .thr 0, .thr 0, .thr 0, .thr 0, .app, .app, .app]).map terminated = some true := by decide

/-- the application blocks on L while the reload thread holds it, and proceeds afterwards -/
example : (run refCfg St.init
    [.callReinit, .app, .app, .app, .app, .app, .thr 0, .thr 0, .callReinit]).map
      (fun s => (s.owner, step refCfg s .app, (step refCfg s (.thr 0)).isSome)) = some (.thr 0, none, true) := by decide

/-- the invariant is satisfiable and the hypothesis of `deadlock_free` holds for it -/
example : ∃ s, Reachable refCfg s ∧ s.thrs.length = 2 ∧ s.apc = .rUnlock := by
  have h : ∃ s, run refCfg St.init
      [.callReinit, .app, .app, .app, .app, .app, .thr 0, .thr 0, .thr 0, .thr 0, .thr 0,
       .callReinit, .app, .app, .app, .app] = some s ∧ s.thrs.length = 2 ∧ s.apc = .rUnlock := by decide
  obtain ⟨s, h1, h2⟩ := h
  exact ⟨s, reachable_run Reachable.init _ h1, h2⟩

/-- other programs the condition accepts / rejects -/
example : NoLockAfterClear [.readConfig, .lock, .flush, .clearPending, .unlock] = true := by decide
example : NoLockAfterClear [.readConfig, .lock, .flush, .clearPending, .unlock, .flush] = true := by decide
example : NoLockAfterClear [.readConfig, .lock, .flush, .unlock, .clearPending] = false := by decide  -- flag reset without L
example : NoLockAfterClear [.lock, .clearPending, .unlock, .readConfig] = false := by decide
example : NoLockAfterClear [.readConfig, .lock, .clearPending] = false := by decide                  -- exits holding L

end Cares.C11b
