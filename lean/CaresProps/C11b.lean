import CaresModel.Reinit
import CaresModel.Generated.ReinitProg
/-!
# C11 (clause: ares_reinit() / ares_destroy() cannot deadlock) — theorems over the `Reinit` transition system

The system: ANY number of caller threads (application threads, the configuration-change watcher of the event thread)
that each call ares_reinit() any number of times in any interleaving, every reload thread they create, and one
destroyer thread that calls ares_destroy() once; after that call no new ares_reinit() is started, calls in progress
run on.  `Reachable c s` quantifies over the number of callers (it is part of the initial state), so every theorem
below is for all N.

ares_reinit() joins the previous reload thread while it HOLDS the channel lock L.  That is safe only because the
reload thread resets `reinit_pending` at a point after which it never needs L again: a caller that saw
`reinit_pending == FALSE` joins a thread that can run to its end without L.  `NoLockAfterClear` is that condition as
a decidable check of the thread's program; `deadlock_free` proves, by an inductive invariant over ALL interleavings,
any number of callers and any number of ares_reinit() calls, that it suffices; `generated_prog_ok` is the obligation
that the program tools/gen_reinit.py extracted from the current ares_reinit_thread() satisfies it.
`regression_deadlocks` is a kernel-checked schedule showing what happens when the flag is reset in a locked section
at the START of the thread.

Invariants, in words:
  * `LInv` (every program): caller `i` owns L exactly at the program points where the code holds it (`appHolds`),
    likewise the destroyer (`dstHolds`);
  * `HInv` (given `Excl`): a reload thread the stored handle does not refer to has finished; a caller at `rSpawn`
    implies that there is no stored handle;
  * `Excl`: at most one caller is between its test of `reinit_pending` and the creation of the thread
    (from `LInv` when ares_reinit() keeps L there, from `Inv.spawnPend` in general);
  * `Inv` (given `NoLockAfterClear`): for each thread with remaining program `r` there is a flag `cl` ("has reset
    reinit_pending") such that `scan r (thread owns L) cl` holds, and if `cl = false` for the thread the handle
    refers to then `reinit_pending` is set and NO caller is at `rJoin`; the owner of L and the stored handle are
    existing threads; while some caller is between the test and the creation the flag stays set;
  * `DInv` (given `joinHoldsLock`): sys_up is reset exactly from `dMark` on, then no caller is past its test, and
    after ares_destroy()'s join there is no stored handle.
-/
namespace Cares.C11b
open Cares.Reinit

/-- `scan r held cl`: running the remaining program `r` from "L held = `held`, reinit_pending already reset = `cl`":
    lock only when L is not held and the flag has not been reset; unlock only when held; the reset only when held and
    only once; no `readConfig` (which needs L) after the reset; L not held at the end. -/
def scan : List ROp → Bool → Bool → Bool
  | [], held, _ => !held
  | .lock :: r, held, cl => !held && !cl && scan r true cl
  | .unlock :: r, held, cl => held && scan r false cl
  | .clearPending :: r, held, cl => held && !cl && scan r held true
  | .flush :: r, held, cl => scan r held cl
  | .readConfig :: r, held, cl => !cl && scan r held cl

/-- the decidable syntactic condition on a reload-thread program -/
def NoLockAfterClear (p : List ROp) : Bool := scan p false false

/-- reload thread `k` owns L -/
def holds (s : St) (k : Nat) : Bool := decide (s.owner = .thr k)

/-! ## list lemmas -/

theorem getElem_opt_snoc {α : Type} {l : List α} {a r : α} {k : Nat} (h : (l ++ [a])[k]? = some r) :
    (k < l.length ∧ l[k]? = some r) ∨ (k = l.length ∧ r = a) := by
  rw [List.getElem?_append] at h
  split at h
  · exact Or.inl ⟨by assumption, h⟩
  · rename_i hlt
    right
    cases hk : k - l.length with
    | zero => rw [hk] at h; simp at h; exact ⟨by omega, h.symm⟩
    | succ n => rw [hk] at h; simp at h

theorem getElem_opt_set_cases {α : Type} {l : List α} {i j : Nat} {a r : α} (h : (l.set i a)[j]? = some r) :
    (j = i ∧ r = a ∧ i < l.length) ∨ (j ≠ i ∧ l[j]? = some r) := by
  rw [List.getElem?_set] at h
  split at h
  · rename_i hij
    split at h
    · left; simp at h; exact ⟨hij.symm, h.symm, by assumption⟩
    · simp at h
  · rename_i hij
    right; exact ⟨fun e => hij e.symm, h⟩

theorem getElem_opt_lt {α : Type} {l : List α} {i : Nat} {a : α} (h : l[i]? = some a) : i < l.length := by
  apply Classical.byContradiction
  intro hn
  rw [List.getElem?_eq_none (Nat.le_of_not_lt hn)] at h
  cases h

/-! ## predicates on the callers' program counters -/

/-- between the test of reinit_pending and the creation of the new thread -/
def inRegion : APc → Bool
  | .rJoin | .rSpawn => true
  | _ => false

def inJoin : APc → Bool
  | .rJoin => true
  | _ => false

/-- no caller is at a program point satisfying `f` -/
def NoneAt (f : APc → Bool) (pcs : List APc) : Prop :=
  ∀ (j : Nat) (q : APc), pcs[j]? = some q → f q = false

/-- at most one caller is between the test of reinit_pending and the creation of the new thread -/
def Excl (pcs : List APc) : Prop :=
  ∀ (i j : Nat) (p q : APc), pcs[i]? = some p → inRegion p = true → pcs[j]? = some q → inRegion q = true → i = j

theorem noneAt_set {f : APc → Bool} {pcs : List APc} {i : Nat} {p' : APc} (h : NoneAt f pcs) (hp' : f p' = false) :
    NoneAt f (pcs.set i p') := by
  intro j q hj
  rcases getElem_opt_set_cases hj with ⟨_, rfl, _⟩ | ⟨_, hj'⟩
  · exact hp'
  · exact h j q hj'

theorem noneAt_join_of_region {pcs : List APc} (h : NoneAt inRegion pcs) : NoneAt inJoin pcs := by
  intro j q hj
  have := h j q hj
  cases q <;> simp_all [inRegion, inJoin]

theorem excl_set_out {pcs : List APc} {i : Nat} {p' : APc} (h : Excl pcs) (hp' : inRegion p' = false) :
    Excl (pcs.set i p') := by
  intro a b p q ha hpa hb hqb
  rcases getElem_opt_set_cases ha with ⟨_, rfl, _⟩ | ⟨_, ha'⟩
  · rw [hp'] at hpa; cases hpa
  · rcases getElem_opt_set_cases hb with ⟨_, rfl, _⟩ | ⟨_, hb'⟩
    · rw [hp'] at hqb; cases hqb
    · exact h a b p q ha' hpa hb' hqb

theorem excl_set_stay {pcs : List APc} {i : Nat} {p p' : APc} (h : Excl pcs) (hpi : pcs[i]? = some p)
    (hr : inRegion p = true) : Excl (pcs.set i p') := by
  intro a b p1 q ha hpa hb hqb
  rcases getElem_opt_set_cases ha with ⟨rfl, _, _⟩ | ⟨hne, ha'⟩
  · rcases getElem_opt_set_cases hb with ⟨rfl, _, _⟩ | ⟨_, hb'⟩
    · rfl
    · exact h _ _ _ _ hpi hr hb' hqb
  · rcases getElem_opt_set_cases hb with ⟨rfl, _, _⟩ | ⟨_, hb'⟩
    · exact h _ _ _ _ ha' hpa hpi hr
    · exact h a b p1 q ha' hpa hb' hqb

theorem excl_set_enter {pcs : List APc} {i : Nat} {p' : APc} (h : NoneAt inRegion pcs) : Excl (pcs.set i p') := by
  intro a b p q ha hpa hb hqb
  rcases getElem_opt_set_cases ha with ⟨rfl, _, _⟩ | ⟨_, ha'⟩
  · rcases getElem_opt_set_cases hb with ⟨rfl, _, _⟩ | ⟨_, hb'⟩
    · rfl
    · rw [h _ _ hb'] at hqb; cases hqb
  · rw [h _ _ ha'] at hpa; cases hpa

/-- the one caller in the region leaves it: nobody is in the region afterwards -/
theorem noneAt_leave {pcs : List APc} {i : Nat} {p p' : APc} (h : Excl pcs) (hpi : pcs[i]? = some p)
    (hr : inRegion p = true) (hp' : inRegion p' = false) : NoneAt inRegion (pcs.set i p') := by
  intro j q hj
  rcases getElem_opt_set_cases hj with ⟨_, rfl, _⟩ | ⟨hne, hj'⟩
  · exact hp'
  · cases hq : inRegion q with
    | false => rfl
    | true => exact absurd (h _ _ _ _ hj' hq hpi hr) hne

/-! ## lock discipline (for every reload-thread program) -/

def CallerLock (c : Cfg) (o : Owner) (pcs : List APc) : Prop :=
  ∀ i : Nat, o = .caller i ↔ ∃ p, pcs[i]? = some p ∧ appHolds c p = true

structure LInv (c : Cfg) (s : St) : Prop where
  callerLock : CallerLock c s.owner s.pcs
  dstLock : s.owner = .destroyer ↔ dstHolds c s.dpc = true

theorem callerLock_set {c : Cfg} {o o' : Owner} {pcs : List APc} {i : Nat} {p p' : APc}
    (h : CallerLock c o pcs) (hpi : pcs[i]? = some p)
    (h1 : o' = .caller i ↔ appHolds c p' = true)
    (h2 : ∀ j, j ≠ i → (o' = .caller j ↔ o = .caller j)) : CallerLock c o' (pcs.set i p') := by
  intro j
  by_cases hj : j = i
  · subst hj
    rw [h1]
    have hlt := getElem_opt_lt hpi
    simp [hlt]
  · rw [h2 j hj, h j]
    have hij : ¬ i = j := fun e => hj e.symm
    simp [hij]

theorem callerLock_owner {c : Cfg} {o o' : Owner} {pcs : List APc} (h : CallerLock c o pcs)
    (h2 : ∀ j, (o' = .caller j ↔ o = .caller j)) : CallerLock c o' pcs := by
  intro j; rw [h2 j]; exact h j

theorem replicate_idle {n i : Nat} {p : APc} (h : (List.replicate n APc.idle)[i]? = some p) : p = .idle := by
  have hlt := getElem_opt_lt h
  simp at hlt
  simp [hlt] at h
  exact h.symm

theorem linv_init (c : Cfg) (n w1 w2 : Nat) : LInv c (St.init n w1 w2) := by
  constructor
  · intro i
    simp only [St.init]
    constructor
    · intro h; cases h
    · rintro ⟨p, hp, hh⟩
      have := replicate_idle hp
      subst this
      simp [appHolds] at hh
  · simp [St.init, dstHolds]

theorem thrStep_some {s s' : St} {k : Nat} (h : thrStep s k = some s') :
    ∃ op rest, s.thrs[k]? = some (op :: rest) ∧ s'.thrs = s.thrs.set k rest ∧ s'.handle = s.handle ∧
      s'.pcs = s.pcs ∧ s'.dpc = s.dpc ∧ s'.sysUp = s.sysUp ∧
      (s'.owner = s.owner ∨ (s.owner = .free ∧ s'.owner = .thr k) ∨ (s.owner = .thr k ∧ s'.owner = .free)) := by
  unfold thrStep at h
  split at h
  · simp at h
  · simp at h
  · rename_i op rest heq
    refine ⟨op, rest, heq, ?_⟩
    cases op <;> simp only [] at h <;> (try split at h) <;> simp at h <;> subst h <;> simp_all

/-- side conditions of `callerLock_set` -/
macro "lock_side" hcl:ident i:ident : tactic =>
  `(tactic| first
    | (have h0 := $hcl $i; simp_all [appHolds]; done)
    | (intro j hj; have hji : ¬ $i = j := fun e => hj e.symm; have h0 := $hcl $i; have h1 := $hcl j
       simp_all [appHolds]; done)
    | (have h0 := $hcl $i; simp_all [appHolds, dstHolds]; done))

theorem linv_step (c : Cfg) {s s' : St} (st : Step) (hi : LInv c s) (h : step c s st = some s') : LInv c s' := by
  obtain ⟨hcl, hdl⟩ := hi
  cases st with
  | callReinit i =>
    simp only [step] at h
    split at h
    · rename_i hc
      simp at h; subst h
      refine ⟨callerLock_set hcl hc.1 ?_ ?_, hdl⟩ <;> lock_side hcl i
    · simp at h
  | callDestroy =>
    simp only [step] at h
    split at h
    · rename_i hc
      simp at h; subst h
      refine ⟨hcl, ?_⟩
      simp_all [dstHolds]
    · simp at h
  | app i =>
    simp only [step] at h
    unfold appStep at h
    split at h
    all_goals (try (split at h))
    all_goals (try (split at h))
    all_goals (try (simp at h))
    all_goals (try (subst h))
    all_goals (rename_i hpi)
    all_goals (refine ⟨callerLock_set hcl (by assumption) ?_ ?_, ?_⟩)
    all_goals (lock_side hcl i)
  | spawnFail i =>
    simp only [step, spawnFailStep] at h
    split at h
    all_goals (try (split at h))
    all_goals (try (split at h))
    all_goals (try (simp at h))
    all_goals (try (subst h))
    all_goals (refine ⟨callerLock_set hcl (by assumption) ?_ ?_, ?_⟩)
    all_goals (lock_side hcl i)
  | destroy =>
    simp only [step] at h
    unfold dstStep at h
    split at h
    all_goals (try (split at h))
    all_goals (try (simp at h))
    all_goals (try (subst h))
    all_goals (refine ⟨callerLock_owner hcl ?_, ?_⟩)
    all_goals (first | (simp_all [dstHolds]; done) | (intro j; have h1 := hcl j; simp_all [dstHolds]; done) | (cases hdd : c.destroyJoinHoldsLock <;> simp_all [dstHolds]; done))
  | thr k =>
    simp only [step] at h
    obtain ⟨op, rest, _, _, _, h4, h5, _, h7⟩ := thrStep_some h
    refine ⟨?_, ?_⟩
    · rw [h4]
      refine callerLock_owner hcl ?_
      intro j
      rcases h7 with h7 | ⟨h7, h8⟩ | ⟨h7, h8⟩
      · rw [h7]
      · rw [h7, h8]; simp
      · rw [h7, h8]; simp
    · rw [h5, ← hdl]
      rcases h7 with h7 | ⟨h7, h8⟩ | ⟨h7, h8⟩
      · rw [h7]
      · rw [h7, h8]; simp
      · rw [h7, h8]; simp
  | cfgFail k =>
    simp only [step, cfgFailStep] at h
    split at h
    · simp at h; subst h; exact ⟨hcl, hdl⟩
    · simp at h

/-! ## handle discipline -/

structure HInv (s : St) : Prop where
  retired : ∀ (k : Nat) (r : List ROp), s.thrs[k]? = some r → s.handle ≠ some k → r = []
  spawnHandle : ∀ i : Nat, s.pcs[i]? = some .rSpawn → s.handle = none

theorem hinv_init (n w1 w2 : Nat) : HInv (St.init n w1 w2) := by
  constructor
  · simp [St.init]
  · intro i hi
    simp only [St.init] at hi
    have := replicate_idle hi
    cases this

theorem joinable_handle {s : St} (h : joinable s = true) : ∀ k, s.handle = some k → s.thrs[k]? = some [] := by
  intro k hk
  unfold joinable at h
  rw [hk] at h
  simp only [] at h
  split at h
  · assumption
  · simp at h

theorem spawnHandle_set {pcs : List APc} {i : Nat} {p' : APc} {h : Option Nat}
    (hs : ∀ j : Nat, pcs[j]? = some .rSpawn → h = none) (hp' : p' ≠ .rSpawn) :
    ∀ j : Nat, (pcs.set i p')[j]? = some .rSpawn → h = none := by
  intro j hj
  rcases getElem_opt_set_cases hj with ⟨_, h1, _⟩ | ⟨_, hj'⟩
  · exact absurd h1.symm hp'
  · exact hs j hj'

theorem hinv_step (c : Cfg) {s s' : St} (st : Step) (hi : HInv s) (he : Excl s.pcs) (h : step c s st = some s') :
    HInv s' := by
  have hjoin : joinable s = true → ∀ (k : Nat) (r : List ROp), s.thrs[k]? = some r → r = [] := by
    intro hj k r hk
    by_cases hh : s.handle = some k
    · have := joinable_handle hj k hh
      rw [this] at hk; simp at hk; exact hk
    · exact hi.retired k r hk hh
  cases st with
  | callReinit i =>
    simp only [step] at h
    split at h
    · simp at h; subst h
      exact ⟨hi.retired, spawnHandle_set hi.spawnHandle (by simp)⟩
    · simp at h
  | callDestroy =>
    simp only [step] at h
    split at h
    · simp at h; subst h
      exact ⟨hi.retired, hi.spawnHandle⟩
    · simp at h
  | app i =>
    simp only [step] at h
    unfold appStep at h
    split at h
    all_goals (try (split at h))
    all_goals (try (split at h))
    all_goals (try (simp at h))
    all_goals (try (subst h))
    all_goals (first | exact ⟨hi.retired, spawnHandle_set hi.spawnHandle (by simp)⟩ | skip)
    · exact ⟨fun k r hk _ => hjoin (by assumption) k r hk, by simp⟩
    · rename_i hsp
      refine ⟨?_, ?_⟩
      · intro k r hk hne
        simp only [] at hk hne
        rcases getElem_opt_snoc hk with ⟨_, h2⟩ | ⟨h1, _⟩
        · exact hi.retired k r h2 (by simp [hi.spawnHandle i hsp])
        · subst h1; simp at hne
      · intro j hj
        simp only [] at hj
        rcases getElem_opt_set_cases hj with ⟨_, h1, _⟩ | ⟨hne, hj'⟩
        · cases h1
        · exact absurd (he _ _ _ _ hj' rfl hsp rfl) hne
  | spawnFail i =>
    simp only [step, spawnFailStep] at h
    split at h
    all_goals (try (split at h))
    all_goals (try (split at h))
    all_goals (try (simp at h))
    all_goals (try (subst h))
    all_goals exact ⟨hi.retired, spawnHandle_set hi.spawnHandle (by simp)⟩
  | destroy =>
    simp only [step] at h
    unfold dstStep at h
    split at h
    all_goals (try (split at h))
    all_goals (try (simp at h))
    all_goals (try (subst h))
    all_goals (first | exact ⟨hi.retired, hi.spawnHandle⟩ | skip)
    exact ⟨fun k r hk _ => hjoin (by assumption) k r hk, by simp⟩
  | thr k =>
    simp only [step] at h
    obtain ⟨op, rest, h1, h2, h3, h4, _⟩ := thrStep_some h
    refine ⟨?_, by rw [h3, h4]; exact hi.spawnHandle⟩
    intro j r hj hne
    rw [h2] at hj
    rw [h3] at hne
    rcases getElem_opt_set_cases hj with ⟨rfl, _, _⟩ | ⟨_, hj'⟩
    · have := hi.retired _ _ h1 hne
      simp at this
    · exact hi.retired _ _ hj' hne
  | cfgFail k =>
    simp only [step, cfgFailStep] at h
    split at h
    · rename_i rest h1
      simp at h
      subst h
      refine ⟨?_, hi.spawnHandle⟩
      intro j r hj hne
      simp only [] at hj hne
      rcases getElem_opt_set_cases hj with ⟨rfl, _, _⟩ | ⟨_, hj'⟩
      · have := hi.retired _ _ h1 hne
        simp at this
      · exact hi.retired _ _ hj' hne
    · simp at h

/-! ## the main invariant (needs `NoLockAfterClear`) -/

/-- what the invariant says about reload thread `k` with remaining program `r` -/
def ThrOk (s : St) (k : Nat) (r : List ROp) : Prop :=
  ∃ cl, scan r (holds s k) cl = true ∧
    (cl = false → s.handle = some k → s.pending = true ∧ NoneAt inJoin s.pcs)

/-- while some caller is between its test of reinit_pending and the creation of the new thread, the flag is set -/
def SpawnPend (pd : Bool) (pcs : List APc) : Prop :=
  ∀ (j : Nat) (q : APc), pcs[j]? = some q → inRegion q = true → pd = true

structure Inv (s : St) : Prop where
  thrOk : ∀ (k : Nat) (r : List ROp), s.thrs[k]? = some r → ThrOk s k r
  ownerLt : ∀ k, s.owner = .thr k → k < s.thrs.length
  handleLt : ∀ h, s.handle = some h → h < s.thrs.length
  spawnPend : SpawnPend s.pending s.pcs
  excl : Excl s.pcs

theorem inv_init (n w1 w2 : Nat) : Inv (St.init n w1 w2) := by
  refine ⟨by simp [St.init], by simp [St.init], by simp [St.init], ?_, ?_⟩
  · intro j q hj hq
    simp only [St.init] at hj
    have := replicate_idle hj
    subst this; cases hq
  · intro i j p q hi hp
    simp only [St.init] at hi
    have := replicate_idle hi
    subst this; cases hp

theorem spawnPend_set_out {pd : Bool} {pcs : List APc} {i : Nat} {p' : APc} (h : SpawnPend pd pcs)
    (hp' : inRegion p' = false) : SpawnPend pd (pcs.set i p') := by
  intro j q hj hq
  rcases getElem_opt_set_cases hj with ⟨_, rfl, _⟩ | ⟨_, hj'⟩
  · rw [hp'] at hq; cases hq
  · exact h j q hj' hq

theorem thrOk_mono {s s' : St} (hthr : s'.thrs = s.thrs) (hown : ∀ k, holds s' k = holds s k)
    (hx : ∀ k, s'.handle = some k → s.handle = some k ∧
      (s.pending = true ∧ NoneAt inJoin s.pcs → s'.pending = true ∧ NoneAt inJoin s'.pcs))
    (h : ∀ (k : Nat) (r : List ROp), s.thrs[k]? = some r → ThrOk s k r) :
    ∀ (k : Nat) (r : List ROp), s'.thrs[k]? = some r → ThrOk s' k r := by
  intro k r hk
  rw [hthr] at hk
  obtain ⟨cl, h1, h2⟩ := h k r hk
  refine ⟨cl, by rw [hown]; exact h1, ?_⟩
  intro hcl hh
  obtain ⟨h3, h4⟩ := hx k hh
  exact h4 (h2 hcl h3)

/-- a caller step that ends outside the region and leaves threads, handle and flag alone -/
theorem inv_caller_out {s : St} {i : Nat} {p' : APc} {o' : Owner} (hi : Inv s) (hp' : inRegion p' = false)
    (ho : ∀ k, o' = .thr k ↔ s.owner = .thr k) : Inv { s with owner := o', pcs := s.pcs.set i p' } := by
  obtain ⟨hth, hol, hhl, hsp, hex⟩ := hi
  refine ⟨thrOk_mono (s := s) rfl ?_ ?_ hth, ?_, hhl, spawnPend_set_out hsp hp', excl_set_out hex hp'⟩
  · intro k; simp only [holds]; rw [decide_eq_decide]; exact ho k
  · intro k hk
    refine ⟨hk, fun ⟨a, b⟩ => ⟨a, noneAt_set b ?_⟩⟩
    cases p' <;> simp_all [inRegion, inJoin]
  · intro k hk; exact hol k ((ho k).mp hk)

/-- a caller gets past the test of reinit_pending -/
theorem inv_caller_enter {s : St} {i : Nat} {o' : Owner} (hi : Inv s) (hpend : s.pending = false)
    (ho : ∀ k, o' = .thr k ↔ s.owner = .thr k) :
    Inv { s with pending := true, owner := o', pcs := s.pcs.set i .rJoin } := by
  obtain ⟨hth, hol, hhl, hsp, hex⟩ := hi
  refine ⟨?_, ?_, hhl, fun _ _ _ _ => rfl, excl_set_enter ?_⟩
  · intro k r hk
    obtain ⟨cl, h1, h2⟩ := hth k r hk
    refine ⟨cl, ?_, ?_⟩
    · simp only [holds] at h1 ⊢; rw [decide_eq_decide.mpr (ho k)]; exact h1
    · intro hcl hh
      have := (h2 hcl hh).1
      rw [hpend] at this; cases this
  · intro k hk; exact hol k ((ho k).mp hk)
  · intro j q hj
    cases hq : inRegion q with
    | false => rfl
    | true => have := hsp j q hj hq; rw [hpend] at this; cases this

/-- a caller's join returns -/
theorem inv_caller_join {s : St} {i : Nat} (hi : Inv s) (hpi : s.pcs[i]? = some .rJoin) :
    Inv { s with handle := none, pcs := s.pcs.set i .rSpawn } := by
  obtain ⟨hth, hol, hhl, hsp, hex⟩ := hi
  have hpend : s.pending = true := hsp i _ hpi rfl
  refine ⟨?_, hol, by simp, fun _ _ _ _ => hpend, excl_set_stay hex hpi rfl⟩
  intro k r hk
  obtain ⟨cl, h1, _⟩ := hth k r hk
  exact ⟨cl, h1, by simp⟩

/-- a caller creates the new reload thread -/
theorem inv_caller_spawn {c : Cfg} (hp : NoLockAfterClear c.prog = true) {s : St} {i : Nat} (hi : Inv s)
    (hpi : s.pcs[i]? = some .rSpawn) :
    Inv { s with thrs := s.thrs ++ [c.prog], handle := some s.thrs.length, pcs := s.pcs.set i .rUnlock } := by
  obtain ⟨hth, hol, hhl, hsp, hex⟩ := hi
  have hpend : s.pending = true := hsp i _ hpi rfl
  refine ⟨?_, ?_, by simp, spawnPend_set_out hsp rfl, excl_set_out hex rfl⟩
  · intro k r hk
    simp only [] at hk
    rcases getElem_opt_snoc hk with ⟨h1, h2⟩ | ⟨h1, h2⟩
    · obtain ⟨cl, h3, _⟩ := hth k r h2
      refine ⟨cl, h3, ?_⟩
      intro _ h5
      simp at h5
      omega
    · subst h1 h2
      refine ⟨false, ?_, fun _ _ => ⟨hpend, noneAt_join_of_region (noneAt_leave hex hpi rfl rfl)⟩⟩
      have hno : ¬ s.owner = .thr s.thrs.length := fun h6 => by have := hol _ h6; omega
      simp only [holds, hno, decide_false]
      exact hp
  · intro k hk
    have := hol k hk
    simp
    omega

/-- ares_thread_create() fails -/
theorem inv_caller_spawnFail {s : St} {i : Nat} (hh : HInv s) (hi : Inv s) (hpi : s.pcs[i]? = some .rSpawn) :
    Inv { s with pending := false, pcs := s.pcs.set i .rUnlock } := by
  obtain ⟨hth, hol, hhl, hsp, hex⟩ := hi
  have hnone : s.handle = none := hh.spawnHandle i hpi
  refine ⟨?_, hol, hhl, ?_, excl_set_out hex rfl⟩
  · intro k r hk
    obtain ⟨cl, h1, _⟩ := hth k r hk
    refine ⟨cl, h1, ?_⟩
    intro _ h2
    simp only [] at h2
    rw [hnone] at h2; cases h2
  · intro j q hj hq
    have := noneAt_leave (p' := .rUnlock) hex hpi rfl rfl j q hj
    rw [this] at hq; cases hq

/-- a step of the destroyer -/
theorem inv_dst {s : St} {o' : Owner} {su' : Bool} {h' : Option Nat} {d' : DPc} (hi : Inv s)
    (ho : ∀ k, o' = .thr k ↔ s.owner = .thr k) (hh : h' = s.handle ∨ h' = none) :
    Inv { s with owner := o', sysUp := su', handle := h', dpc := d' } := by
  obtain ⟨hth, hol, hhl, hsp, hex⟩ := hi
  refine ⟨thrOk_mono (s := s) rfl ?_ ?_ hth, ?_, ?_, hsp, hex⟩
  · intro k; simp only [holds]; rw [decide_eq_decide]; exact ho k
  · intro k hk
    simp only [] at hk
    rcases hh with hh | hh
    · rw [hh] at hk; exact ⟨hk, fun x => x⟩
    · rw [hh] at hk; cases hk
  · intro k hk; exact hol k ((ho k).mp hk)
  · intro h hk
    simp only [] at hk
    rcases hh with hh | hh
    · rw [hh] at hk; exact hhl h hk
    · rw [hh] at hk; cases hk

/-- frame lemma for a step of reload thread `k` (the thread the stored handle refers to) -/
theorem inv_thr {s : St} {k : Nat} {rest : List ROp} {o' : Owner} {p' : Bool}
    (hi : Inv s) (hhk : s.handle = some k)
    (hb : ∀ j, j ≠ k → decide (o' = .thr j) = decide (s.owner = .thr j))
    (hc : o' = s.owner ∨ o' = .thr k ∨ o' = .free)
    (hd : ThrOk { s with thrs := s.thrs.set k rest, owner := o', pending := p' } k rest)
    (he : SpawnPend p' s.pcs) :
    Inv { s with thrs := s.thrs.set k rest, owner := o', pending := p' } := by
  obtain ⟨hth, hol, hhl, hsp, hex⟩ := hi
  refine ⟨?_, ?_, by simpa using hhl, he, hex⟩
  · intro j r hj
    simp only [] at hj
    rcases getElem_opt_set_cases hj with ⟨rfl, rfl, _⟩ | ⟨hne, hj'⟩
    · exact hd
    · obtain ⟨cl, h1, _⟩ := hth j r hj'
      refine ⟨cl, ?_, ?_⟩
      · simp only [holds] at h1 ⊢
        rw [hb j hne]; exact h1
      · intro _ h2
        simp only [] at h2
        rw [hhk] at h2
        simp at h2
        exact absurd h2.symm hne
  · intro j hj
    simp only [] at hj
    simp only [List.length_set]
    rcases hc with h1 | h1 | h1
    · exact hol j (h1 ▸ hj)
    · rw [h1] at hj; cases hj; exact hhl _ hhk
    · rw [h1] at hj; cases hj

theorem inv_step (c : Cfg) (hp : NoLockAfterClear c.prog = true) {s s' : St} (st : Step)
    (hl : LInv c s) (hh : HInv s) (hi : Inv s) (h : step c s st = some s') : Inv s' := by
  cases st with
  | callReinit i =>
    simp only [step] at h
    split at h
    · simp at h; subst h
      exact inv_caller_out (o' := s.owner) hi rfl (fun _ => Iff.rfl)
    · simp at h
  | callDestroy =>
    simp only [step] at h
    split at h
    · simp at h; subst h
      exact inv_dst (o' := s.owner) (su' := s.sysUp) (h' := s.handle) hi (fun _ => Iff.rfl) (Or.inl rfl)
    · simp at h
  | app i =>
    have hown := hl.callerLock i
    simp only [step] at h
    unfold appStep at h
    split at h
    · simp at h
    · simp at h
    · -- rLock
      rename_i hpi
      split at h
      · rename_i hfree
        simp at h; subst h
        exact inv_caller_out hi rfl (by simp [hfree])
      · simp at h
    · -- rCheck
      rename_i hpi
      have ho : s.owner = .caller i := hown.mpr ⟨_, hpi, rfl⟩
      split at h
      · simp at h; subst h
        exact inv_caller_out hi rfl (by simp [ho])
      · rename_i hpass
        have hpend : s.pending = false := by
          cases hq : s.pending with
          | false => rfl
          | true => simp [hq] at hpass
        split at h
        · simp at h; subst h
          exact inv_caller_enter (o' := s.owner) hi hpend (fun _ => Iff.rfl)
        · simp at h; subst h
          exact inv_caller_enter hi hpend (by simp [ho])
    · -- rJoin
      rename_i hpi
      split at h
      · simp at h; subst h
        exact inv_caller_join hi hpi
      · simp at h
    · -- rSpawn
      rename_i hpi
      simp at h; subst h
      exact inv_caller_spawn hp hi hpi
    · -- rUnlock
      rename_i hpi
      split at h
      · rename_i hj
        have ho : s.owner = .caller i := hown.mpr ⟨_, hpi, by simp [appHolds, hj]⟩
        simp at h; subst h
        exact inv_caller_out hi rfl (by simp [ho])
      · simp at h; subst h
        exact inv_caller_out (o' := s.owner) hi rfl (fun _ => Iff.rfl)
  | spawnFail i =>
    simp only [step, spawnFailStep] at h
    split at h
    · rename_i hpi
      split at h
      · simp at h; subst h
        exact inv_caller_spawnFail hh hi hpi
      · split at h
        · simp at h; subst h
          exact inv_caller_spawnFail hh hi hpi
        · simp at h
    · simp at h
  | destroy =>
    have hdl := hl.dstLock
    simp only [step] at h
    unfold dstStep at h
    split at h
    · simp at h
    · -- dLock1
      split at h
      · rename_i hfree
        simp at h; subst h
        exact inv_dst (su' := s.sysUp) (h' := s.handle) hi (by simp [hfree]) (Or.inl rfl)
      · simp at h
    · -- dMark
      rename_i hpc
      have ho : s.owner = .destroyer := hdl.mpr (by simp [hpc, dstHolds])
      split at h
      · simp at h; subst h
        exact inv_dst (o' := s.owner) (h' := s.handle) hi (fun _ => Iff.rfl) (Or.inl rfl)
      · simp at h; subst h
        exact inv_dst (h' := s.handle) hi (by simp [ho]) (Or.inl rfl)
    · -- dWait
      split at h
      · simp at h; subst h
        exact inv_dst (o' := s.owner) (su' := s.sysUp) (h' := s.handle) hi (fun _ => Iff.rfl) (Or.inl rfl)
      · simp at h
    · -- dJoin
      split at h
      · simp at h; subst h
        exact inv_dst (o' := s.owner) (su' := s.sysUp) hi (fun _ => Iff.rfl) (Or.inr rfl)
      · simp at h
    · -- dLock2
      split at h
      · rename_i hfree
        simp at h; subst h
        exact inv_dst (su' := s.sysUp) (h' := s.handle) hi (by simp [hfree]) (Or.inl rfl)
      · simp at h
    · -- dClean
      rename_i hpc
      have ho : s.owner = .destroyer := hdl.mpr (by simp [hpc, dstHolds])
      simp at h; subst h
      exact inv_dst (su' := s.sysUp) (h' := s.handle) hi (by simp [ho]) (Or.inl rfl)
    · -- dWaitEv
      split at h
      · simp at h; subst h
        exact inv_dst (o' := s.owner) (su' := s.sysUp) (h' := s.handle) hi (fun _ => Iff.rfl) (Or.inl rfl)
      · simp at h
    · simp at h
  | thr k =>
    have hi0 := hi
    obtain ⟨hth, hol, hhl, hsp, hex⟩ := hi
    simp only [step] at h
    unfold thrStep at h
    split at h
    · simp at h
    · simp at h
    · rename_i op rest hk
      have hhk : s.handle = some k := by
        apply Classical.byContradiction
        intro hne
        have := hh.retired _ _ hk hne
        simp at this
      obtain ⟨cl, hsc, hcl⟩ := hth k _ hk
      cases op <;> simp only [] at h
      · -- readConfig
        split at h
        · simp at h; subst h
          simp [scan] at hsc
          refine inv_thr (o' := s.owner) (p' := s.pending) hi0 hhk (fun _ _ => rfl) (Or.inl rfl) ⟨cl, ?_, ?_⟩ hsp
          · simpa [holds] using hsc.2
          · simpa using hcl
        · simp at h
      · -- lock
        split at h
        · rename_i hfree
          simp at h; subst h
          simp [scan, holds, hfree] at hsc
          refine inv_thr (o' := .thr k) (p' := s.pending) hi0 hhk ?_ (Or.inr (Or.inl rfl)) ⟨cl, ?_, ?_⟩ hsp
          · intro j hj
            simp [hfree]
            exact fun e => hj e.symm
          · simpa [holds] using hsc.2
          · simpa using hcl
        · simp at h
      · -- unlock
        split at h
        · rename_i hown
          simp at h; subst h
          simp [scan, holds, hown] at hsc
          refine inv_thr (o' := .free) (p' := s.pending) hi0 hhk ?_ (Or.inr (Or.inr rfl)) ⟨cl, ?_, ?_⟩ hsp
          · intro j hj
            simp [hown]
            exact fun e => hj e.symm
          · simpa [holds] using hsc
          · simpa using hcl
        · rename_i hown
          simp [scan, holds, hown] at hsc
      · -- flush
        simp at h; subst h
        simp [scan] at hsc
        refine inv_thr (o' := s.owner) (p' := s.pending) hi0 hhk (fun _ _ => rfl) (Or.inl rfl) ⟨cl, ?_, ?_⟩ hsp
        · simpa [holds] using hsc
        · simpa using hcl
      · -- clearPending
        simp at h; subst h
        simp [scan] at hsc
        obtain ⟨⟨h1, h2⟩, h3⟩ := hsc
        refine inv_thr (o' := s.owner) (p' := false) hi0 hhk (fun _ _ => rfl) (Or.inl rfl) ⟨true, ?_, ?_⟩ ?_
        · simpa [holds, h1] using h3
        · simp
        · -- nobody is between the test and the creation: the thread had not reset the flag yet
          intro j q hj hq
          cases q <;> simp [inRegion] at hq
          · have := (hcl h2 hhk).2 j _ hj
            simp [inJoin] at this
          · have := hh.spawnHandle j hj
            rw [hhk] at this; cases this
  | cfgFail k =>
    have hi0 := hi
    obtain ⟨hth, hol, hhl, hsp, hex⟩ := hi
    simp only [step, cfgFailStep] at h
    split at h
    · rename_i rest hk
      have hhk : s.handle = some k := by
        apply Classical.byContradiction
        intro hne
        have := hh.retired _ _ hk hne
        simp at this
      obtain ⟨cl, hsc, hcl⟩ := hth k _ hk
      simp at h; subst h
      simp [scan] at hsc
      refine inv_thr (o' := s.owner) (p' := s.pending) hi0 hhk (fun _ _ => rfl) (Or.inl rfl) ⟨cl, ?_, ?_⟩ hsp
      · simpa [holds] using hsc.2
      · simpa using hcl
    · simp at h

/-! ## reachable states satisfy the invariants -/

theorem reachable_linv {c : Cfg} {s : St} (hr : Reachable c s) : LInv c s := by
  induction hr with
  | init n w1 w2 => exact linv_init c n w1 w2
  | step st _ h ih => exact linv_step c st ih h

theorem reachable_inv {c : Cfg} (hp : NoLockAfterClear c.prog = true) {s : St} (hr : Reachable c s) :
    LInv c s ∧ HInv s ∧ Inv s := by
  induction hr with
  | init n w1 w2 => exact ⟨linv_init c n w1 w2, hinv_init n w1 w2, inv_init n w1 w2⟩
  | step st _ h ih =>
    exact ⟨linv_step c st ih.1 h, hinv_step c st ih.2.1 ih.2.2.excl h, inv_step c hp st ih.1 ih.2.1 ih.2.2 h⟩

/-- when ares_reinit() joins and spawns under L, the lock alone keeps the callers apart - whatever the thread does -/
theorem excl_of_linv {c : Cfg} (hj : c.joinHoldsLock = true) {s : St} (hl : LInv c s) : Excl s.pcs := by
  intro i j p q hi hp hj' hq
  have h1 : s.owner = .caller i := (hl.callerLock i).mpr ⟨p, hi, by cases p <;> simp_all [inRegion, appHolds]⟩
  have h2 : s.owner = .caller j := (hl.callerLock j).mpr ⟨q, hj', by cases q <;> simp_all [inRegion, appHolds]⟩
  rw [h1] at h2
  cases h2; rfl

theorem reachable_hinv_locked {c : Cfg} (hj : c.joinHoldsLock = true) {s : St} (hr : Reachable c s) : HInv s := by
  induction hr with
  | init n w1 w2 => exact hinv_init n w1 w2
  | step st hr' h ih => exact hinv_step c st ih (excl_of_linv hj (reachable_linv hr')) h

theorem reachable_hinv {c : Cfg} (hc : c.joinHoldsLock = true ∨ NoLockAfterClear c.prog = true) {s : St}
    (hr : Reachable c s) : HInv s := by
  rcases hc with hc | hc
  · exact reachable_hinv_locked hc hr
  · exact (reachable_inv hc hr).2.1

/-! ## progress -/

/-- a reload thread that holds L can always take its next step -/
theorem holder_enabled {c : Cfg} {s : St} (hi : Inv s) {k : Nat} (hk : s.owner = .thr k) :
    ∃ s', step c s (.thr k) = some s' := by
  have hlt := hi.ownerLt k hk
  obtain ⟨r, hr⟩ : ∃ r, s.thrs[k]? = some r := ⟨s.thrs[k], by simp [hlt]⟩
  obtain ⟨cl, hsc, _⟩ := hi.thrOk k r hr
  simp only [step, thrStep, hr]
  cases r with
  | nil => simp [scan, holds, hk] at hsc
  | cons op rest =>
    cases op <;> simp [scan, holds, hk] at hsc ⊢

/-- a live reload thread can take its next step whenever L is free -/
theorem free_enabled {c : Cfg} {s : St} {k : Nat} {op : ROp} {rest : List ROp} (hr : s.thrs[k]? = some (op :: rest))
    (hf : s.owner = .free) : ∃ s', step c s (.thr k) = some s' := by
  simp only [step, thrStep, hr]
  cases op <;> simp [hf]

theorem not_joinable {s : St} (hhl : ∀ h, s.handle = some h → h < s.thrs.length) (hj : joinable s = false) :
    ∃ h op rest, s.handle = some h ∧ s.thrs[h]? = some (op :: rest) := by
  unfold joinable at hj
  cases hh : s.handle with
  | none => simp [hh] at hj
  | some h =>
    have hlt := hhl h hh
    obtain ⟨r, hr⟩ : ∃ r, s.thrs[h]? = some r := ⟨s.thrs[h], by simp [hlt]⟩
    cases r with
    | nil => simp [hh, hr] at hj
    | cons op rest => exact ⟨h, op, rest, rfl, hr⟩

/-- a caller inside ares_reinit() can step unless it waits for L or for the thread it joins -/
theorem caller_enabled {c : Cfg} {s : St} {i : Nat} {p : APc} (hpi : s.pcs[i]? = some p) (hne : p ≠ .idle)
    (hlk : p = .rLock → s.owner = .free) (hjn : p = .rJoin → joinable s = true) :
    ∃ s', step c s (.app i) = some s' := by
  simp only [step, appStep, hpi]
  cases p with
  | idle => exact absurd rfl hne
  | rLock => simp [hlk rfl]
  | rCheck =>
    simp only []
    split
    · exact ⟨_, rfl⟩
    · split <;> exact ⟨_, rfl⟩
  | rJoin => simp [hjn rfl]
  | rSpawn => exact ⟨_, rfl⟩
  | rUnlock =>
    simp only []
    split <;> exact ⟨_, rfl⟩

/-- the destroyer inside ares_destroy() can step unless it waits for L, for the watcher or for the thread it joins -/
theorem dst_enabled {c : Cfg} {s : St} (h1 : s.dpc ≠ .idle) (h2 : s.dpc ≠ .done)
    (hlk : s.dpc = .dLock1 ∨ s.dpc = .dLock2 → s.owner = .free) (hjn : s.dpc = .dJoin → joinable s = true)
    (hw1 : s.dpc = .dWait → idleBelow s s.waitCfg = true) (hw2 : s.dpc = .dWaitEv → idleBelow s s.waitEv = true) :
    ∃ s', step c s .destroy = some s' := by
  simp only [step, dstStep]
  cases hpc : s.dpc with
  | idle => exact absurd hpc h1
  | done => exact absurd hpc h2
  | dLock1 => simp [hlk (Or.inl hpc)]
  | dLock2 => simp [hlk (Or.inr hpc)]
  | dMark =>
    simp only []
    split <;> exact ⟨_, rfl⟩
  | dWait => simp [hw1 hpc]
  | dJoin => simp [hjn hpc]
  | dClean => exact ⟨_, rfl⟩
  | dWaitEv => simp [hw2 hpc]

theorem all_finished_joinable {s : St} (hhl : ∀ h, s.handle = some h → h < s.thrs.length)
    (hall : s.thrs.all (fun r => r.isEmpty) = true) : joinable s = true := by
  cases hj : joinable s with
  | true => rfl
  | false =>
    obtain ⟨h, op, rest, _, h2⟩ := not_joinable hhl hj
    have hm : (op :: rest) ∈ s.thrs := List.mem_iff_getElem?.mpr ⟨h, h2⟩
    have := List.all_eq_true.mp hall _ hm
    simp at this

theorem exists_live {s : St} (hall : s.thrs.all (fun r => r.isEmpty) = false) :
    ∃ (k : Nat) (op : ROp) (rest : List ROp), s.thrs[k]? = some (op :: rest) := by
  have : ¬ (∀ r ∈ s.thrs, (fun r : List ROp => r.isEmpty) r = true) := by
    intro h; rw [List.all_eq_true.mpr h] at hall; cases hall
  apply Classical.byContradiction
  intro hn
  apply this
  intro r hr
  cases r with
  | nil => rfl
  | cons op rest =>
    obtain ⟨k, hk⟩ := List.mem_iff_getElem?.mp hr
    exact absurd ⟨k, op, rest, hk⟩ hn

theorem exists_busy {s : St} (hall : s.pcs.all (fun p => p == .idle) = false) :
    ∃ (i : Nat) (p : APc), s.pcs[i]? = some p ∧ p ≠ APc.idle := by
  have : ¬ (∀ p ∈ s.pcs, (fun p : APc => p == .idle) p = true) := by
    intro h; rw [List.all_eq_true.mpr h] at hall; cases hall
  apply Classical.byContradiction
  intro hn
  apply this
  intro p hp
  obtain ⟨i, hi⟩ := List.mem_iff_getElem?.mp hp
  cases hq : (p == APc.idle) with
  | true => exact hq
  | false => exact absurd ⟨i, p, hi, by intro e; subst e; simp at hq⟩ hn

theorem idleBelow_of_all {s : St} (hall : s.pcs.all (fun p => p == .idle) = true) (n : Nat) : idleBelow s n = true := by
  simp only [idleBelow, List.all_eq_true]
  intro p hp
  exact List.all_eq_true.mp hall p (List.mem_of_mem_take hp)

/-- the step of the thread that owns L -/
def ownerStep : Owner → Option Step
  | .free => none
  | .caller i => some (.app i)
  | .destroyer => some .destroy
  | .thr k => some (.thr k)

/-- Whoever holds L can take its next step - except a caller that joins under L, and then the thread it joins can:
    that thread has reset reinit_pending, so it needs L no more. -/
theorem holder_progress {c : Cfg} (hd : c.destroyJoinHoldsLock = false) {s : St} (hl : LInv c s) (hi : Inv s)
    (hnf : s.owner ≠ .free) :
    (∃ st s', ownerStep s.owner = some st ∧ step c s st = some s') ∨
    (∃ i h s', s.owner = .caller i ∧ s.pcs[i]? = some .rJoin ∧ s.handle = some h ∧ step c s (.thr h) = some s') := by
  cases ho : s.owner with
  | free => exact absurd ho hnf
  | thr k => obtain ⟨s', h⟩ := holder_enabled (c := c) hi ho; exact Or.inl ⟨_, _, rfl, h⟩
  | caller i =>
    obtain ⟨p, hpi, hp⟩ := (hl.callerLock i).mp ho
    cases hj : joinable s with
    | true =>
      obtain ⟨s', h⟩ := caller_enabled (c := c) hpi (by intro e; subst e; simp [appHolds] at hp)
        (by intro e; subst e; simp [appHolds] at hp) (fun _ => hj)
      exact Or.inl ⟨_, _, rfl, h⟩
    | false =>
      by_cases hpj : p = .rJoin
      · subst hpj
        obtain ⟨h, op, rest, h1, h2⟩ := not_joinable hi.handleLt hj
        obtain ⟨cl, hsc, hcl⟩ := hi.thrOk h _ h2
        have hclt : cl = true := by
          cases cl with
          | true => rfl
          | false => have := (hcl rfl h1).2 i _ hpi; simp [inJoin] at this
        subst hclt
        right
        refine ⟨i, h, ?_⟩
        simp only [step, thrStep, h2]
        cases op <;> simp [scan, holds, ho] at hsc ⊢ <;> exact ⟨hpi, h1⟩
      · obtain ⟨s', h⟩ := caller_enabled (c := c) hpi (by intro e; subst e; simp [appHolds] at hp)
          (by intro e; subst e; simp [appHolds] at hp) (fun e => absurd e hpj)
        exact Or.inl ⟨_, _, rfl, h⟩
  | destroyer =>
    have hp := hl.dstLock.mp ho
    obtain ⟨s', h⟩ := dst_enabled (c := c) (s := s) (by intro e; simp [e, dstHolds] at hp)
      (by intro e; simp [e, dstHolds] at hp) (by intro e; rcases e with e | e <;> simp [e, dstHolds] at hp)
      (by intro e; simp [e, dstHolds, hd] at hp) (by intro e; simp [e, dstHolds, hd] at hp)
      (by intro e; simp [e, dstHolds] at hp)
    exact Or.inl ⟨_, _, rfl, h⟩

/-- the steps by which the environment starts a call (as opposed to a step of a thread that is inside a call, or of
    a reload thread) -/
def isCall : Step → Bool
  | .callReinit _ | .callDestroy => true
  | _ => false

/-- nothing is in progress: every caller is outside ares_reinit(), ares_destroy() has not been called or has
    returned, every reload thread has finished -/
def quiescent (s : St) : Bool :=
  (s.dpc == .idle || s.dpc == .done) && s.pcs.all (fun p => p == .idle) && s.thrs.all (fun r => r.isEmpty)

theorem ownerStep_not_call {o : Owner} {st : Step} (h : ownerStep o = some st) : isCall st = false := by
  cases o <;> simp [ownerStep] at h <;> subst h <;> rfl

theorem progress {c : Cfg} (hd : c.destroyJoinHoldsLock = false) {s : St} (hl : LInv c s)
    (hi : Inv s) : quiescent s = true ∨ ∃ st s', isCall st = false ∧ step c s st = some s' := by
  by_cases ho : s.owner = .free
  · cases hall : s.thrs.all (fun r => r.isEmpty) with
    | false =>
      obtain ⟨k, op, rest, hk⟩ := exists_live hall
      obtain ⟨s', h⟩ := free_enabled (c := c) hk ho
      exact Or.inr ⟨_, _, rfl, h⟩
    | true =>
      have hj := all_finished_joinable hi.handleLt hall
      cases hidle : s.pcs.all (fun p => p == .idle) with
      | false =>
        obtain ⟨i, p, hpi, hne⟩ := exists_busy hidle
        obtain ⟨s', h⟩ := caller_enabled (c := c) hpi hne (fun _ => ho) (fun _ => hj)
        exact Or.inr ⟨_, _, rfl, h⟩
      | true =>
        by_cases h1 : s.dpc = .idle
        · left; simp [quiescent, h1, hidle, hall]
        · by_cases h2 : s.dpc = .done
          · left; simp [quiescent, h2, hidle, hall]
          · obtain ⟨s', h⟩ := dst_enabled (c := c) h1 h2 (fun _ => ho) (fun _ => hj)
              (fun _ => idleBelow_of_all hidle _) (fun _ => idleBelow_of_all hidle _)
            exact Or.inr ⟨_, _, rfl, h⟩
  · rcases holder_progress hd hl hi ho with ⟨st, s', h0, h⟩ | ⟨_, h, s', _, _, _, h⟩
    · exact Or.inr ⟨_, _, ownerStep_not_call h0, h⟩
    · exact Or.inr ⟨_, _, rfl, h⟩

/-! ## Results -/

/-- no thread can take a step -/
def Stuck (c : Cfg) (s : St) : Prop := ∀ st, step c s st = none

/-- the executable check `stuck` (over the finitely many candidate steps) is sound for `Stuck` -/
theorem stuck_sound {c : Cfg} {s : St} (h : stuck c s = true) : Stuck c s := by
  intro st
  simp only [stuck, List.all_eq_true] at h
  have hin : st ∈ candidates s → step c s st = none := by
    intro hm
    have := h st hm
    simpa using this
  have hcaller : ∀ i, i < s.pcs.length → ∀ st', st' ∈ [Step.callReinit i, .app i, .spawnFail i] → st' ∈ candidates s := by
    intro i hi st' hm
    simp only [candidates, List.mem_append, List.mem_flatMap, List.mem_range]
    exact Or.inl (Or.inr ⟨i, hi, hm⟩)
  have hthr : ∀ k, k < s.thrs.length → ∀ st', st' ∈ [Step.thr k, .cfgFail k] → st' ∈ candidates s := by
    intro k hk st' hm
    simp only [candidates, List.mem_append, List.mem_flatMap, List.mem_range]
    exact Or.inr ⟨k, hk, hm⟩
  cases st with
  | callDestroy => exact hin (by simp [candidates])
  | destroy => exact hin (by simp [candidates])
  | callReinit i =>
    by_cases hi : i < s.pcs.length
    · exact hin (hcaller i hi _ (by simp))
    · simp [step, List.getElem?_eq_none (Nat.le_of_not_lt hi)]
  | app i =>
    by_cases hi : i < s.pcs.length
    · exact hin (hcaller i hi _ (by simp))
    · simp [step, appStep, List.getElem?_eq_none (Nat.le_of_not_lt hi)]
  | spawnFail i =>
    by_cases hi : i < s.pcs.length
    · exact hin (hcaller i hi _ (by simp))
    · simp [step, spawnFailStep, List.getElem?_eq_none (Nat.le_of_not_lt hi)]
  | thr k =>
    by_cases hk : k < s.thrs.length
    · exact hin (hthr k hk _ (by simp))
    · simp [step, thrStep, List.getElem?_eq_none (Nat.le_of_not_lt hk)]
  | cfgFail k =>
    by_cases hk : k < s.thrs.length
    · exact hin (hthr k hk _ (by simp))
    · simp [step, cfgFailStep, List.getElem?_eq_none (Nat.le_of_not_lt hk)]

theorem reachable_run {c : Cfg} {s s' : St} (hr : Reachable c s) (sched : List Step) (h : run c s sched = some s') :
    Reachable c s' := by
  induction sched generalizing s with
  | nil => simp [run] at h; exact h ▸ hr
  | cons st r ih =>
    simp only [run] at h
    split at h
    · simp at h
    · rename_i s1 h1
      exact ih (Reachable.step st hr h1) h

/-- (a) Deadlock-freedom, for ANY number of caller threads.  For every thread program that satisfies the syntactic
    condition `NoLockAfterClear` (lock/unlock alternate and the thread ends without L; reinit_pending is reset exactly
    where L is held; after the reset there is neither a `lock` nor a `readConfig`, the two operations that need L),
    whether ares_reinit() joins and spawns holding L or not, and with ares_destroy() joining without L: in every
    state reachable - from an initial state with any number of caller threads - by any interleaving of any number
    of concurrent ares_reinit() calls, the reload threads and one ares_destroy(), either everything has terminated
    or some thread can step. -/
theorem deadlock_free (c : Cfg) (hp : NoLockAfterClear c.prog = true) (hd : c.destroyJoinHoldsLock = false)
    {s : St} (hr : Reachable c s) : terminated s = true ∨ ∃ st s', step c s st = some s' := by
  obtain ⟨hl, _, hi⟩ := reachable_inv hp hr
  rcases progress hd hl hi with hq | ⟨st, s', _, h⟩
  · by_cases h1 : s.dpc = .idle
    · exact Or.inr ⟨.callDestroy, _, by simp [step, h1]; rfl⟩
    · left
      simp only [quiescent, Bool.and_eq_true, Bool.or_eq_true, beq_iff_eq] at hq
      obtain ⟨⟨h2, h3⟩, h4⟩ := hq
      rcases h2 with h2 | h2
      · exact absurd h2 h1
      · simp [terminated, h2, h3, h4]
  · exact Or.inr ⟨_, _, h⟩

/-- (a') The same without counting on the environment: a state is not "live" merely because somebody could still
    START a call (with N callers that would hide a deadlock among the threads that ARE inside a call).  In every
    reachable state either nothing is in progress (`quiescent`), or a thread that is inside ares_reinit() /
    ares_destroy() or a reload thread can take a step. -/
theorem deadlock_free_in_progress (c : Cfg) (hp : NoLockAfterClear c.prog = true)
    (hd : c.destroyJoinHoldsLock = false) {s : St} (hr : Reachable c s) :
    quiescent s = true ∨ ∃ st s', isCall st = false ∧ step c s st = some s' := by
  obtain ⟨hl, _, hi⟩ := reachable_inv hp hr
  exact progress hd hl hi

/-- Who waits for L waits for a thread that can move: whenever L is owned, its owner can take its next step - except
    a caller that joins under L, and then the reload thread it joins can (it needs L no more). -/
theorem lock_holder_progress (c : Cfg) (hp : NoLockAfterClear c.prog = true) (hd : c.destroyJoinHoldsLock = false)
    {s : St} (hr : Reachable c s) (hnf : s.owner ≠ .free) :
    (∃ st s', ownerStep s.owner = some st ∧ step c s st = some s') ∨
    (∃ i h s', s.owner = .caller i ∧ s.pcs[i]? = some .rJoin ∧ s.handle = some h ∧ step c s (.thr h) = some s') := by
  obtain ⟨hl, _, hi⟩ := reachable_inv hp hr
  exact holder_progress hd hl hi hnf

/-- the same, as "no reachable state is a deadlock" -/
theorem no_deadlock (c : Cfg) (hp : NoLockAfterClear c.prog = true) (hd : c.destroyJoinHoldsLock = false)
    {s : St} (hr : Reachable c s) : ¬ (Stuck c s ∧ terminated s = false) := by
  intro ⟨h1, h2⟩
  rcases deadlock_free c hp hd hr with h | ⟨st, s', h⟩
  · rw [h] at h2; cases h2
  · rw [h1 st] at h; cases h

/-- (b) obligations over what tools/gen_reinit.py extracted from the current source -/
theorem generated_prog_ok : NoLockAfterClear Cares.Generated.Reinit.threadProg = true := by decide

theorem generated_destroy_ok : Cares.Generated.Reinit.destroyJoinHoldsLock = false := by decide

/-- the channel-lock calls of ares_init_by_sysconfig() are one balanced lock … unlock pair (or none): `readConfig`
    needs L only momentarily and returns without it -/
def balanced : List ROp → Bool → Bool
  | [], held => !held
  | .lock :: r, false => balanced r true
  | .unlock :: r, true => balanced r false
  | _, _ => false

theorem sysconfig_locks_balanced : balanced Cares.Generated.Reinit.sysconfigLocks false = true := by decide

/-- ares_reinit() called concurrently from any number of threads, and ares_destroy(), with the reload thread as it
    is in the source, cannot deadlock -/
theorem reinit_deadlock_free {s : St} (hr : Reachable Cares.Generated.Reinit.cfg s) :
    terminated s = true ∨ ∃ st s', step Cares.Generated.Reinit.cfg s st = some s' :=
  deadlock_free _ generated_prog_ok generated_destroy_ok hr

/-- (c) the handle discipline (join the stored handle before it is overwritten) never leaves two live reload
    threads.  With one caller this held for every program and configuration; with concurrent callers it needs that
    the callers are kept apart between the test of reinit_pending and the creation of the thread: by L
    (`joinHoldsLock`, every program) or by the flag (`NoLockAfterClear`, every configuration).
    `two_live_threads_without_either` shows that one of the two is necessary. -/
theorem at_most_one_reload_thread {c : Cfg} (hc : c.joinHoldsLock = true ∨ NoLockAfterClear c.prog = true) {s : St}
    (hr : Reachable c s) {i j : Nat} {ri rj : List ROp}
    (hi : s.thrs[i]? = some ri) (hj : s.thrs[j]? = some rj) (hli : ri ≠ []) (hlj : rj ≠ []) : i = j := by
  have hh := reachable_hinv hc hr
  have h1 : s.handle = some i := Classical.byContradiction fun hne => hli (hh.retired i ri hi hne)
  have h2 : s.handle = some j := Classical.byContradiction fun hne => hlj (hh.retired j rj hj hne)
  rw [h1] at h2
  exact Option.some.inj h2

/-- … and a reload thread that is not the one the stored handle refers to has finished -/
theorem live_thread_is_handle {c : Cfg} (hc : c.joinHoldsLock = true ∨ NoLockAfterClear c.prog = true) {s : St}
    (hr : Reachable c s) {k : Nat} {r : List ROp} (hk : s.thrs[k]? = some r) (hl : r ≠ []) : s.handle = some k :=
  Classical.byContradiction fun hne => hl ((reachable_hinv hc hr).retired k r hk hne)

/-- at most one caller at a time is between its test of reinit_pending and the creation of the new thread -/
theorem one_caller_in_region {c : Cfg} (hc : c.joinHoldsLock = true ∨ NoLockAfterClear c.prog = true) {s : St}
    (hr : Reachable c s) {i j : Nat} {p q : APc} (hi : s.pcs[i]? = some p) (hj : s.pcs[j]? = some q)
    (hp : p = .rJoin ∨ p = .rSpawn) (hq : q = .rJoin ∨ q = .rSpawn) : i = j := by
  have he : Excl s.pcs := by
    rcases hc with hc | hc
    · exact excl_of_linv hc (reachable_linv hr)
    · exact (reachable_inv hc hr).2.2.excl
  exact he i j p q hi (by rcases hp with rfl | rfl <;> rfl) hj (by rcases hq with rfl | rfl <;> rfl)

/-- while a caller is between its test of reinit_pending and the creation of the new thread, the flag stays
    set (no old reload thread resets it late, and no other caller's failed ares_thread_create() either) -/
theorem pending_stable {c : Cfg} (hp : NoLockAfterClear c.prog = true) {s : St} (hr : Reachable c s)
    {i : Nat} {p : APc} (hi : s.pcs[i]? = some p) (h : p = .rJoin ∨ p = .rSpawn) : s.pending = true :=
  (reachable_inv hp hr).2.2.spawnPend i p hi (by rcases h with rfl | rfl <;> rfl)

/-- the channel lock is a mutex: two callers are never both at program points of ares_reinit() where L is held
    (every program, every configuration) -/
theorem lock_exclusive {c : Cfg} {s : St} (hr : Reachable c s) {i j : Nat} {p q : APc}
    (hi : s.pcs[i]? = some p) (hj : s.pcs[j]? = some q) (hp : appHolds c p = true) (hq : appHolds c q = true) :
    i = j := by
  have hl := reachable_linv hr
  have h1 := (hl.callerLock i).mpr ⟨p, hi, hp⟩
  have h2 := (hl.callerLock j).mpr ⟨q, hj, hq⟩
  rw [h1] at h2
  cases h2; rfl

/-! ### (e) the wait in a join cannot be permanent (without an unfair scheduler) -/

/-- For the reload thread the stored handle refers to - the only thread anybody ever joins - in every reachable
    state: it has finished, or it can take its next step, or L is held by ANOTHER thread that can take ITS next step
    (so that one is not a caller waiting in its join, and the reload thread is not blocked behind a blocked thread).
    In particular this holds whenever a caller waits at `rJoin` or the destroyer at `dJoin`. -/
theorem join_progress (c : Cfg) (hp : NoLockAfterClear c.prog = true) (hd : c.destroyJoinHoldsLock = false)
    {s : St} (hr : Reachable c s) {h : Nat} {r : List ROp} (hh : s.handle = some h) (hk : s.thrs[h]? = some r) :
    r = [] ∨ (∃ s', step c s (.thr h) = some s') ∨
      (∃ st s', ownerStep s.owner = some st ∧ st ≠ .thr h ∧ step c s st = some s') := by
  obtain ⟨hl, _, hi⟩ := reachable_inv hp hr
  cases r with
  | nil => exact Or.inl rfl
  | cons op rest =>
    right
    by_cases ho : s.owner = .free
    · exact Or.inl (free_enabled hk ho)
    · rcases holder_progress hd hl hi ho with ⟨st, s', h1, h2⟩ | ⟨_, h', s', _, _, h3, h4⟩
      · by_cases hst : st = .thr h
        · subst hst; exact Or.inl ⟨_, h2⟩
        · exact Or.inr ⟨st, s', h1, hst, h2⟩
      · rw [hh] at h3; cases h3
        exact Or.inl ⟨_, h4⟩

/-- With ares_reinit() as it is in the tree (join under L): whenever a caller waits in its join, the reload thread
    it joins has finished or can take its next step - nothing can hold it up, the caller itself holds L and the
    thread needs L no more. -/
theorem join_terminates (c : Cfg) (hp : NoLockAfterClear c.prog = true) (hj : c.joinHoldsLock = true)
    {s : St} (hr : Reachable c s) {i h : Nat} {r : List ROp} (hw : s.pcs[i]? = some .rJoin)
    (hh : s.handle = some h) (hk : s.thrs[h]? = some r) : r = [] ∨ ∃ s', step c s (.thr h) = some s' := by
  obtain ⟨hl, _, hi⟩ := reachable_inv hp hr
  have ho : s.owner = .caller i := (hl.callerLock i).mpr ⟨_, hw, by simp [appHolds, hj]⟩
  cases r with
  | nil => exact Or.inl rfl
  | cons op rest =>
    right
    obtain ⟨cl, hsc, hcl⟩ := hi.thrOk h _ hk
    have hclt : cl = true := by
      cases cl with
      | true => rfl
      | false => have := (hcl rfl hh).2 i _ hw; simp [inJoin] at this
    subst hclt
    simp only [step, thrStep, hk]
    cases op <;> simp [scan, holds, ho] at hsc ⊢

/-! ### (f) after ares_destroy()'s join no reload thread is left - even with calls in progress -/

/-- program points of ares_reinit() after the test (L is held there when `joinHoldsLock`) -/
def inCrit : APc → Bool
  | .rJoin | .rSpawn | .rUnlock => true
  | _ => false

/-- ares_destroy() has reset sys_up -/
def marked : DPc → Bool
  | .idle | .dLock1 | .dMark => false
  | _ => true

/-- ares_destroy() is past its join -/
def afterJoin : DPc → Bool
  | .dLock2 | .dClean | .dWaitEv | .done => true
  | _ => false

structure DInv (s : St) : Prop where
  up : s.sysUp = !marked s.dpc
  quiet : s.sysUp = false → NoneAt inCrit s.pcs
  joined : afterJoin s.dpc = true → s.handle = none

theorem dinv_init (n w1 w2 : Nat) : DInv (St.init n w1 w2) := by
  refine ⟨by simp [St.init, marked], by simp [St.init], by simp [St.init, afterJoin]⟩

theorem dinv_step (c : Cfg) (hj : c.joinHoldsLock = true) {s s' : St} (st : Step) (hl : LInv c s) (hi : DInv s)
    (h : step c s st = some s') : DInv s' := by
  obtain ⟨hup, hq, hjd⟩ := hi
  -- a caller past the test means sys_up is still set, and ares_destroy() is not past its join
  have hcrit : ∀ (i : Nat) (p : APc), s.pcs[i]? = some p → inCrit p = true → s.sysUp = true ∧ afterJoin s.dpc = false := by
    intro i p hpi hp
    have h1 : s.sysUp = true := by
      cases hs : s.sysUp with
      | true => rfl
      | false => have := hq hs i p hpi; rw [hp] at this; cases this
    refine ⟨h1, ?_⟩
    rw [hup] at h1
    cases hd : s.dpc <;> simp_all [marked, afterJoin]
  cases st with
  | callReinit i =>
    simp only [step] at h
    split at h
    · simp at h; subst h
      exact ⟨hup, fun hs => noneAt_set (hq hs) rfl, hjd⟩
    · simp at h
  | callDestroy =>
    simp only [step] at h
    split at h
    · rename_i hc
      simp at h; subst h
      refine ⟨?_, hq, by simp [afterJoin]⟩
      simp only []; rw [hup, hc]; simp [marked]
    · simp at h
  | app i =>
    have keep : ∀ s'' : St, s''.sysUp = s.sysUp → s''.dpc = s.dpc → (s.sysUp = false → NoneAt inCrit s''.pcs) →
        (afterJoin s.dpc = true → s''.handle = none) → DInv s'' := by
      intro s'' e1 e2 e3 e4
      exact ⟨by rw [e1, e2]; exact hup, by rw [e1]; exact e3, by rw [e2]; exact e4⟩
    have hup' : ∀ hs : s.sysUp = true, ∀ pcs' : List APc, s.sysUp = false → NoneAt inCrit pcs' := by
      intro hs _ hs'; rw [hs] at hs'; cases hs'
    simp only [step] at h
    unfold appStep at h
    split at h
    · simp at h
    · simp at h
    · split at h
      · simp at h; subst h
        exact keep _ rfl rfl (fun hs => noneAt_set (hq hs) rfl) hjd
      · simp at h
    · split at h
      · simp at h; subst h
        exact keep _ rfl rfl (fun hs => noneAt_set (hq hs) rfl) hjd
      · rename_i hpass
        have hs : s.sysUp = true := by
          cases hs : s.sysUp with
          | true => rfl
          | false => simp [hs] at hpass
        try simp only [hj, if_true] at h
        simp at h; subst h
        exact keep _ rfl rfl (hup' hs _) hjd
    · rename_i hpi
      have hs := (hcrit i _ hpi rfl).1
      split at h
      · simp at h; subst h
        exact keep _ rfl rfl (hup' hs _) (fun _ => rfl)
      · simp at h
    · rename_i hpi
      obtain ⟨hs, ha⟩ := hcrit i _ hpi rfl
      simp at h; subst h
      exact keep _ rfl rfl (hup' hs _) (fun ha' => by rw [ha] at ha'; cases ha')
    · try simp only [hj, if_true] at h
      simp at h; subst h
      exact keep _ rfl rfl (fun hs => noneAt_set (hq hs) rfl) hjd
  | spawnFail i =>
    simp only [step, spawnFailStep] at h
    split at h
    · rename_i hpi
      have hs := (hcrit i _ hpi rfl).1
      have : ∀ s'' : St, s''.sysUp = s.sysUp → s''.dpc = s.dpc → s''.handle = s.handle → DInv s'' := by
        intro s'' e1 e2 e3
        exact ⟨by rw [e1, e2]; exact hup, (fun hs' => by rw [e1, hs] at hs'; cases hs'), by rw [e2, e3]; exact hjd⟩
      try simp only [hj, if_true] at h
      simp at h; subst h; exact this _ rfl rfl rfl
    · simp at h
  | destroy =>
    simp only [step] at h
    unfold dstStep at h
    split at h
    · simp at h
    · rename_i hpc
      split at h
      · simp at h; subst h
        refine ⟨?_, hq, by simp [afterJoin]⟩
        simp only []; rw [hup, hpc]; simp [marked]
      · simp at h
    · -- dMark: the destroyer holds L, so no caller is past its test
      rename_i hpc
      have ho : s.owner = .destroyer := hl.dstLock.mpr (by simp [hpc, dstHolds])
      have hnone : NoneAt inCrit s.pcs := by
        intro j q hjq
        cases hq' : inCrit q with
        | false => rfl
        | true =>
          have := (hl.callerLock j).mpr ⟨q, hjq, by cases q <;> simp_all [inCrit, appHolds]⟩
          rw [ho] at this; cases this
      split at h
      · simp at h; subst h
        exact ⟨by simp [marked], fun _ => hnone, by simp [afterJoin]⟩
      · simp at h; subst h
        exact ⟨by simp [marked], fun _ => hnone, by simp [afterJoin]⟩
    · rename_i hpc
      split at h
      · simp at h; subst h
        refine ⟨?_, hq, by simp [afterJoin]⟩
        simp only []; rw [hup, hpc]; simp [marked]
      · simp at h
    · rename_i hpc
      split at h
      · simp at h; subst h
        refine ⟨?_, hq, fun _ => rfl⟩
        simp only []; rw [hup, hpc]; cases c.destroyJoinHoldsLock <;> simp [marked]
      · simp at h
    · rename_i hpc
      split at h
      · simp at h; subst h
        refine ⟨?_, hq, fun _ => hjd (by simp [hpc, afterJoin])⟩
        simp only []; rw [hup, hpc]; simp [marked]
      · simp at h
    · rename_i hpc
      simp at h; subst h
      refine ⟨?_, hq, fun _ => hjd (by simp [hpc, afterJoin])⟩
      simp only []; rw [hup, hpc]; simp [marked]
    · rename_i hpc
      split at h
      · simp at h; subst h
        refine ⟨?_, hq, fun _ => hjd (by simp [hpc, afterJoin])⟩
        simp only []; rw [hup, hpc]; simp [marked]
      · simp at h
    · simp at h
  | thr k =>
    simp only [step] at h
    obtain ⟨_, _, _, _, h3, h4, h5, h6, _⟩ := thrStep_some h
    exact ⟨by rw [h5, h6]; exact hup, by rw [h4, h6]; exact hq, by rw [h3, h5]; exact hjd⟩
  | cfgFail k =>
    simp only [step, cfgFailStep] at h
    split at h
    · simp at h; subst h; exact ⟨hup, hq, hjd⟩
    · simp at h

theorem reachable_dinv {c : Cfg} (hj : c.joinHoldsLock = true) {s : St} (hr : Reachable c s) : DInv s := by
  induction hr with
  | init n w1 w2 => exact dinv_init n w1 w2
  | step st hr' h ih => exact dinv_step c hj st (reachable_linv hr') ih h

/-- With ares_reinit() as it is in the tree (test, join and creation in ONE locked section), for every thread
    program: once ares_destroy() is past its join, there is no stored handle, every reload thread ever created has
    finished, and no caller is past its test of sys_up (so none will create another thread) - also when calls were
    in progress while ares_destroy() was called.  `upstream_thread_outlives_destroy`: not so when ares_reinit()
    unlocks before its join. -/
theorem destroy_joins_last_thread {c : Cfg} (hj : c.joinHoldsLock = true) {s : St} (hr : Reachable c s)
    (hd : s.dpc = .dLock2 ∨ s.dpc = .dClean ∨ s.dpc = .dWaitEv ∨ s.dpc = .done) :
    s.handle = none ∧ (∀ (k : Nat) (r : List ROp), s.thrs[k]? = some r → r = []) ∧
      (∀ (i : Nat) (p : APc), s.pcs[i]? = some p → p = .idle ∨ p = .rLock ∨ p = .rCheck) ∧ s.sysUp = false := by
  have hdi := reachable_dinv hj hr
  have hh := reachable_hinv_locked hj hr
  have ha : afterJoin s.dpc = true := by rcases hd with h | h | h | h <;> simp [h, afterJoin]
  have hn := hdi.joined ha
  have hs : s.sysUp = false := by
    rw [hdi.up]; rcases hd with h | h | h | h <;> simp [h, marked]
  refine ⟨hn, fun k r hk => hh.retired k r hk (by simp [hn]), ?_, hs⟩
  intro i p hpi
  have := hdi.quiet hs i p hpi
  cases p <;> simp_all [inCrit]

/-- … and while ares_destroy() is in its join (or anywhere after it has reset sys_up) no caller is in, or past, the
    join of ares_reinit(): the two `ares_thread_join(channel->reinit_thread)` never run concurrently -/
theorem destroy_join_exclusive {c : Cfg} (hj : c.joinHoldsLock = true) {s : St} (hr : Reachable c s)
    (hd : s.dpc = .dJoin) {i : Nat} {p : APc} (hi : s.pcs[i]? = some p) : p ≠ .rJoin ∧ p ≠ .rSpawn ∧ p ≠ .rUnlock := by
  have hdi := reachable_dinv hj hr
  have hs : s.sysUp = false := by rw [hdi.up, hd]; rfl
  have := hdi.quiet hs i p hi
  cases p <;> simp_all [inCrit]

/-! ### (d) The regression: reinit_pending reset in a short locked section at the start of the thread -/

/-- ares_reinit_thread() of the regression variant, as gen_reinit.py extracts it -/
def regressionProg : List ROp := [.lock, .clearPending, .unlock, .readConfig, .lock, .flush, .unlock]

def regressionCfg : Cfg := { prog := regressionProg, joinHoldsLock := true, destroyJoinHoldsLock := false }

/-- ONE caller.  Its first ares_reinit() completes; the thread resets reinit_pending, reads the configuration and is
    about to take L again; the second ares_reinit() gets past the test and joins the thread while holding L; the
    destroyer has called ares_destroy() and waits for L as well -/
def regressionSchedule : List Step :=
  [.callReinit 0, .app 0, .app 0, .app 0, .app 0, .app 0, .thr 0, .thr 0, .thr 0, .thr 0,
   .callReinit 0, .app 0, .app 0, .callDestroy]

theorem regression_rejected : NoLockAfterClear regressionProg = false := by decide

theorem regression_deadlocks :
    ∃ s, run regressionCfg (St.init 1) regressionSchedule = some s ∧ Reachable regressionCfg s ∧
      Stuck regressionCfg s ∧ terminated s = false := by
  have h : ∃ s, run regressionCfg (St.init 1) regressionSchedule = some s ∧ stuck regressionCfg s = true ∧
      terminated s = false := by decide
  obtain ⟨s, h1, h2, h3⟩ := h
  exact ⟨s, h1, reachable_run (Reachable.init 1 0 0) _ h1, stuck_sound h2, h3⟩

/-- the same with THREE callers: caller 0 (say the application) started the reload; caller 1 (say the
    configuration-change watcher) gets past the test and joins under L; caller 2 and the destroyer wait for L -/
def regressionSchedule3 : List Step :=
  [.callReinit 0, .app 0, .app 0, .app 0, .app 0, .app 0, .thr 0, .thr 0, .thr 0, .thr 0,
   .callReinit 1, .callReinit 2, .callReinit 0, .app 1, .app 1, .callDestroy]

theorem regression_deadlocks_concurrent :
    ∃ s, run regressionCfg (St.init 3) regressionSchedule3 = some s ∧ Reachable regressionCfg s ∧
      Stuck regressionCfg s ∧ terminated s = false := by
  have h : ∃ s, run regressionCfg (St.init 3) regressionSchedule3 = some s ∧ stuck regressionCfg s = true ∧
      terminated s = false := by decide
  obtain ⟨s, h1, h2, h3⟩ := h
  exact ⟨s, h1, reachable_run (Reachable.init 3 0 0) _ h1, stuck_sound h2, h3⟩

/-- the same reload thread is fine when ares_reinit() joins without L (upstream shape): the deadlock needs both -/
theorem regression_needs_join_under_lock :
    run { regressionCfg with joinHoldsLock := false } (St.init 1) regressionSchedule ≠ none ∧
    (∀ s, run { regressionCfg with joinHoldsLock := false } (St.init 1) regressionSchedule = some s →
      stuck { regressionCfg with joinHoldsLock := false } s = false) := by decide

/-! ### ares_destroy() joining inside its locked section deadlocks with the reload thread as it is -/

/-- the configuration extracted from the tree when this file was written (fixed here so that the concrete runs
    below do not depend on the generated file; only the three obligations above do) -/
def refCfg : Cfg :=
  { prog := [.readConfig, .lock, .flush, .clearPending, .unlock], joinHoldsLock := true, destroyJoinHoldsLock := false }

def destroyLockedCfg : Cfg := { refCfg with destroyJoinHoldsLock := true }

def destroyLockedSchedule : List Step :=
  [.callReinit 0, .app 0, .app 0, .app 0, .app 0, .app 0, .thr 0, .callDestroy, .destroy, .destroy, .destroy]

theorem destroy_join_under_lock_deadlocks :
    ∃ s, run destroyLockedCfg (St.init 1) destroyLockedSchedule = some s ∧ Reachable destroyLockedCfg s ∧
      Stuck destroyLockedCfg s ∧ terminated s = false := by
  have h : ∃ s, run destroyLockedCfg (St.init 1) destroyLockedSchedule = some s ∧ stuck destroyLockedCfg s = true ∧
      terminated s = false := by decide
  obtain ⟨s, h1, h2, h3⟩ := h
  exact ⟨s, h1, reachable_run (Reachable.init 1 0 0) _ h1, stuck_sound h2, h3⟩

/-! ### without L and without the flag discipline two concurrent callers do leave two live reload threads -/

/-- a thread that resets reinit_pending twice (not holding L), and ares_reinit() joining without L -/
def doubleClearCfg : Cfg := { prog := [.clearPending, .clearPending, .flush], joinHoldsLock := false, destroyJoinHoldsLock := false }

/-- caller 0 gets past the test after the first reset, caller 1 after the second; both find the old thread finished
    and both create a new one -/
def doubleClearSchedule : List Step :=
  [.callReinit 0, .app 0, .app 0, .app 0, .app 0, .app 0, .thr 0,
   .callReinit 0, .app 0, .app 0, .thr 0, .callReinit 1, .app 1, .app 1, .thr 0,
   .app 0, .app 1, .app 0, .app 1]

theorem two_live_threads_without_either :
    doubleClearCfg.joinHoldsLock = false ∧ NoLockAfterClear doubleClearCfg.prog = false ∧
    ∃ s, run doubleClearCfg (St.init 2) doubleClearSchedule = some s ∧ Reachable doubleClearCfg s ∧
      s.thrs[1]? = some doubleClearCfg.prog ∧ s.thrs[2]? = some doubleClearCfg.prog := by
  have h : ∃ s, run doubleClearCfg (St.init 2) doubleClearSchedule = some s ∧
      s.thrs[1]? = some doubleClearCfg.prog ∧ s.thrs[2]? = some doubleClearCfg.prog := by decide
  obtain ⟨s, h1, h2⟩ := h
  exact ⟨by decide, by decide, s, h1, reachable_run (Reachable.init 2 0 0) _ h1, h2⟩

/-! ### upstream shape: a call in progress can create a reload thread after ares_destroy() has joined -/

/-- caller 0 (not one ares_destroy() waits for) gets past the test and unlocks; ares_destroy() runs to its end (there
    is nothing to join yet); the caller creates the thread -/
def outliveSchedule : List Step :=
  [.callReinit 0, .app 0, .app 0, .callDestroy, .destroy, .destroy, .destroy, .destroy, .destroy, .destroy, .destroy,
   .app 0, .app 0, .app 0]

theorem upstream_thread_outlives_destroy :
    ∃ s, run { refCfg with joinHoldsLock := false } (St.init 1) outliveSchedule = some s ∧
      Reachable { refCfg with joinHoldsLock := false } s ∧ s.dpc = .done ∧ s.thrs = [refCfg.prog] := by
  have h : ∃ s, run { refCfg with joinHoldsLock := false } (St.init 1) outliveSchedule = some s ∧
      s.dpc = .done ∧ s.thrs = [refCfg.prog] := by decide
  obtain ⟨s, h1, h2⟩ := h
  exact ⟨s, h1, reachable_run (Reachable.init 1 0 0) _ h1, h2⟩

/-! ### Non-vacuity: concrete runs of the system with the program of the tree (`refCfg`) -/

/-- TWO callers whose ares_reinit() calls overlap: both have called; caller 0 holds L (at its test), caller 1 is
    blocked on L (`.app 1` is not enabled); caller 0 creates thread 0 and returns; caller 1 gets L, sees
    reinit_pending and returns; the thread runs; ares_destroy() joins it: everything terminated -/
example : (run refCfg (St.init 2) [.callReinit 0, .callReinit 1, .app 0]).map
    (fun s => (s.owner, s.pcs, step refCfg s (.app 1))) = some (.caller 0, [.rCheck, .rLock], none) := by decide

example : (run refCfg (St.init 2)
    [.callReinit 0, .callReinit 1, .app 0, .app 0, .app 0, .app 0, .app 0, .app 1, .app 1,
     .thr 0, .thr 0, .thr 0, .thr 0, .thr 0,
     .callDestroy, .destroy, .destroy, .destroy, .destroy, .destroy, .destroy, .destroy]).map
    (fun s => (terminated s, s.thrs.length, s.pending)) = some (true, 1, false) := by decide

/-- overlapping calls, second shape: caller 1 calls while thread 0 (created by caller 0) still holds L; it waits for
    L, then gets past the test (the thread has reset reinit_pending), joins the finished thread under L and creates
    thread 1 while caller 0 is inside a third call, blocked on L -/
def overlapSchedule : List Step :=
  [.callReinit 0, .app 0, .app 0, .app 0, .app 0, .app 0, .thr 0, .thr 0, .thr 0, .thr 0,
   .callReinit 1, .thr 0, .app 1, .app 1, .callReinit 0, .app 1, .app 1]

example : (run refCfg (St.init 2) overlapSchedule).map
    (fun s => (s.owner, s.pcs, (step refCfg s (.app 0)).isSome)) =
    some (.caller 1, [.rLock, .rUnlock], false) := by decide

example : (run refCfg (St.init 2) overlapSchedule).map (fun s => (s.handle, s.thrs)) =
    some (some 1, [[], refCfg.prog]) := by decide

/-- the tree's program followed by one more operation after its last unlock -/
def tailCfg : Cfg := { refCfg with prog := [.readConfig, .lock, .flush, .clearPending, .unlock, .flush] }

/-- a caller waits in its join UNDER L for a thread that is still running (with `refCfg` the thread's last operation
    is its unlock, so a join under L never has to wait; with `tailCfg` it does): the thread has reset
    reinit_pending and can proceed without L (`join_terminates`) -/
example : (run tailCfg (St.init 2)
    [.callReinit 0, .app 0, .app 0, .app 0, .app 0, .app 0, .thr 0, .thr 0, .thr 0, .thr 0, .thr 0,
     .callReinit 1, .app 1, .app 1]).map
    (fun s => (s.owner, s.pcs, s.thrs, (step tailCfg s (.app 1)).isSome, (step tailCfg s (.thr 0)).isSome)) =
    some (.caller 1, [.idle, .rJoin], [[.flush]], false, true) := by decide

/-- upstream shape (join without L): caller 0 waits in its join without L while caller 1 comes and goes -/
example : (run { refCfg with joinHoldsLock := false } (St.init 2)
    [.callReinit 0, .app 0, .app 0, .app 0, .app 0, .app 0, .thr 0, .thr 0, .thr 0, .thr 0,
     .callReinit 0, .callReinit 1, .thr 0, .app 0, .app 0, .app 1, .app 1]).map
    (fun s => (s.owner, s.pcs, s.pending)) = some (.free, [.rJoin, .idle], true) := by decide

/-- a call in progress when ares_destroy() is called runs on: it sees sys_up == FALSE and returns; ares_destroy()
    waits (at `dWait`, not enabled) for the watcher (caller 0, `waitCfg = 1`) to be outside ares_reinit() -/
example : (run refCfg (St.init 1 1 1)
    [.callReinit 0, .callDestroy, .destroy, .destroy]).map
    (fun s => (s.dpc, s.pcs, step refCfg s .destroy, step refCfg s (.callReinit 0))) =
    some (.dWait, [.rLock], none, none) := by decide

example : (run refCfg (St.init 1 1 1)
    [.callReinit 0, .callDestroy, .destroy, .destroy, .app 0, .app 0,
     .destroy, .destroy, .destroy, .destroy, .destroy]).map (fun s => (terminated s, s.thrs.length)) =
    some (true, 0) := by decide

/-- ares_destroy() is called while the reload thread is live and has to wait at its join (`.destroy` is not enabled
    there) until the thread has finished -/
example : (run refCfg (St.init 1)
    [.callReinit 0, .app 0, .app 0, .app 0, .app 0, .app 0, .thr 0, .callReinit 0, .app 0, .app 0,
     .callDestroy, .destroy, .destroy, .destroy]).map (fun s => (s.dpc, step refCfg s .destroy, s.thrs.length)) =
    some (.dJoin, none, 1) := by decide

example : (run refCfg (St.init 1)
    [.callReinit 0, .app 0, .app 0, .app 0, .app 0, .app 0, .thr 0, .callReinit 0, .app 0, .app 0,
     .callDestroy, .destroy, .destroy, .destroy, .thr 0, .thr 0, .thr 0, .thr 0,
     .destroy, .destroy, .destroy, .destroy]).map terminated = some true := by decide

/-- the invariant is satisfiable and the hypothesis of `deadlock_free` holds for it -/
example : ∃ s, Reachable refCfg s ∧ s.thrs.length = 2 ∧ s.pcs = [.rLock, .rUnlock] := by
  have h : ∃ s, run refCfg (St.init 2)
      [.callReinit 0, .app 0, .app 0, .app 0, .app 0, .app 0, .thr 0, .thr 0, .thr 0, .thr 0,
       .callReinit 1, .thr 0, .app 1, .app 1, .callReinit 0, .app 1, .app 1] = some s ∧
      s.thrs.length = 2 ∧ s.pcs = [.rLock, .rUnlock] := by decide
  obtain ⟨s, h1, h2⟩ := h
  exact ⟨s, reachable_run (Reachable.init 2 0 0) _ h1, h2⟩

/-- other programs the condition accepts / rejects -/
example : NoLockAfterClear [.readConfig, .lock, .flush, .clearPending, .unlock] = true := by decide
example : NoLockAfterClear [.readConfig, .lock, .flush, .clearPending, .unlock, .flush] = true := by decide
example : NoLockAfterClear [.readConfig, .lock, .flush, .unlock, .clearPending] = false := by decide  -- flag reset without L
example : NoLockAfterClear [.lock, .clearPending, .unlock, .readConfig] = false := by decide
example : NoLockAfterClear [.readConfig, .lock, .clearPending] = false := by decide                  -- exits holding L

end Cares.C11b
