import CaresModel.Options
