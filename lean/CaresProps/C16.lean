import CaresLemmas.TextEntry
/-!
# C16 — configuration is saved, duplicated and re-applied losslessly; user settings win

Property theorems only (helper lemmas: `CaresLemmas/TextOptions.lean`, `TextCsv.lean`, `TextPton.lean`).

Model (`CaresModel/Options.lean`): `ares_init_by_options` (`applyOptions`, mask normalisation
`normMask`), `ares_save_options` (`saveOptions`), `init_by_defaults` (`applyDefaults`),
`ares_sysconfig_apply` (`sysconfigApply`), `ares_init_options` (`initOptions`), `ares_reinit`
(`reinit`), `ares_dup` (`dup`), `ares_servers_update` (`serversUpdate`), `ares_get_servers_csv` /
`ares_set_servers_ports_csv` (`getServersCsv` / `setServersCsv`).  The system configuration, the
environment, the host name and the interface table are the parameter `SysEnv`; the theorems hold for
every value of it, i.e. for all system-configuration file contents.

The model follows the tree with the repairs F17, F30-C16 … F35-C16, F38-C16 (notes/C16.md); the pinned
`use-vc` rule is kept as `sysconfigApplyG false` for the counterexample at the end.
-/
namespace Cares.C16
open Cares.Text

/-- **user_wins**: a setting whose option bit the application set is not touched by
    `ares_sysconfig_apply`, whatever the system configuration says (and the mask itself is kept) -/
theorem user_wins (c : Chan) (s : SysConfig) :
    (sysconfigApply c s).optmask = c.optmask ∧
    (c.optmask.servers = true → (sysconfigApply c s).servers = c.servers) ∧
    (c.optmask.domains = true → (sysconfigApply c s).domains = c.domains) ∧
    (c.optmask.lookups = true → (sysconfigApply c s).lookups = c.lookups) ∧
    (c.optmask.sortlist = true → (sysconfigApply c s).sortlist = c.sortlist) ∧
    (c.optmask.ndots = true → (sysconfigApply c s).ndots = c.ndots) ∧
    (c.optmask.tries = true → (sysconfigApply c s).tries = c.tries) ∧
    (c.optmask.timeoutms = true → (sysconfigApply c s).timeout = c.timeout) ∧
    ((c.optmask.rotate = true ∨ c.optmask.norotate = true) → (sysconfigApply c s).rotate = c.rotate) ∧
    (c.optmask.flags = true → (sysconfigApply c s).flags = c.flags) := by
  have h := sysconfigApply_guarded c s
  unfold guardedEq at h
  exact ⟨h.1.symm, h.2⟩

/-- … at every later reinit, under any sequence of system configurations -/
theorem user_wins_reinit (c : Chan) (es : List SysEnv) : guardedEq c (es.foldl reinit c) := reinits_guarded c es

/-- … and at initialisation: what the application passed (and initialisation accepted) is what the
    channel holds afterwards, whatever the system configuration, environment and defaults say -/
theorem user_wins_init (e : SysEnv) (o : Options) (m : Mask) (ch : Chan) (hwf : o.WF)
    (h : initOptions e (some o) m = .ok ch) :
    ch.optmask = normMask o m ∧
    (ch.optmask.flags = true → ch.flags = toU32 o.flags) ∧
    (ch.optmask.tries = true → ch.tries = o.tries.toNat) ∧
    (ch.optmask.ndots = true → ch.ndots = o.ndots.toNat) ∧
    (ch.optmask.lookups = true → ch.lookups = o.lookups) ∧
    (ch.optmask.sortlist = true → o.nsort > 0 → ch.sortlist = o.sortlist) ∧
    (ch.optmask.timeoutms = true → m.timeoutms = true → ch.timeout = o.timeout.toNat) ∧
    (ch.optmask.servers = true →
      ch.servers = serversUpdate ch.udpPort ch.tcpPort (hasFlag ch.flags flagPrimary) [] (o.servers.map v4Server)) := by
  rw [initOptions_some] at h
  split at h
  · simp at h
  · simp only [Except.ok.injEq] at h
    subst h
    obtain ⟨g0, g1, g2, g3, g4, g5, g6, g7, g8, g9, g10, g11, g12, g13, g14, g15, g16, g17⟩ := init_facts e o m hwf
    obtain ⟨f0, f1, f2, f3, f4, f5, f6, f7, f8, f9, f10, f11, f12, f13, f14, f15, f16, f17, f18, f19, f20, f21⟩ :=
      applyOptions_fields {} o m
    refine ⟨g0, ?_, ?_, ?_, ?_, ?_, ?_, ?_⟩
    · intro hb
      rw [g0] at hb
      have hm : m.flags = true := hb
      rw [(g1 hb).1, f1]; simp [hm]
    · intro hb
      rw [g0] at hb
      rw [(g3 hb).1, f3]; simp [hb]
    · intro hb
      rw [g0] at hb
      rw [(g4 hb).1, f4]; simp [hb]
    · intro hb
      rw [g0] at hb
      rw [(g10 hb).1, f13]; simp [hb]
    · intro hb hn
      rw [g0] at hb
      have hm : m.sortlist = true := hb
      rw [g11 hb, f14]; simp [hm, hn]
    · intro hb hm
      rw [g0] at hb
      have hpos : o.timeout > 0 := by
        have : ((m.timeoutms || m.timeout) && decide (o.timeout > 0)) = true := hb
        simp only [Bool.and_eq_true, decide_eq_true_eq] at this
        exact this.2
      rw [(g2 hb).1, f2]; simp [hm, hpos]
    · intro hb
      rw [g0] at hb
      rw [(g17 hb).1, f21, finish_primary, g6.1, g6.2]
      simp [hb]

/-- **save_init_fixpoint**: options saved from a freshly initialised channel and used to initialise a
    new one under the same system configuration give the same channel — every field, including the
    server list (which, coming from `struct in_addr` options or from the system configuration, the
    legacy struct can carry) -/
theorem save_init_fixpoint (e : SysEnv) (o : Options) (m : Mask) (ch : Chan) (hwf : o.WF)
    (h : initOptions e (some o) m = .ok ch) :
    ∃ o' m', saveOptions ch = .ok (o', m') ∧ initOptions e (some o') m' = .ok ch :=
  save_init_fixpoint' e o m ch hwf h

/-- **csv_fixpoint**: the server list rendered as text and fed back to the setter reproduces itself:
    `getCsv (setCsv (getCsv ch)) = getCsv ch` (and the setter leaves every other setting alone).
    Hypotheses: the list is one `ares_servers_update` produces (`ServersInv`, see `serversUpdate_inv`),
    and every entry survives rendering + parsing (`entryOk`, a decidable predicate; false exactly for the
    open findings F37-C16 / F39-C16). -/
theorem csv_fixpoint (c : Chan) (ifs : Ifaces)
    (hinv : ServersInv (hasFlag c.flags flagPrimary) c.servers)
    (hok : ∀ s ∈ c.servers, entryOk ifs s = true) :
    ∃ csv, getServersCsv c = some csv ∧
      (setServersCsv c ifs csv).1 = .success ∧
      getServersCsv (setServersCsv c ifs csv).2 = some csv ∧
      (setServersCsv c ifs csv).2.servers = c.servers := by
  obtain ⟨csv, h1, h2⟩ := csv_roundtrip c ifs hinv hok
  refine ⟨csv, h1, ?_, ?_, ?_⟩
  · rw [h2]
  · rw [h2]; exact h1
  · rw [h2]

/-- every server list of a channel satisfies the invariant `csv_fixpoint` asks for -/
theorem servers_invariant (u t : Nat) (p : Bool) (old : List Server) (l : List SConfig) :
    ServersInv p (serversUpdate u t p old l) := serversUpdate_inv u t p old l

/-- **dup_equiv**: a freshly initialised channel duplicated with `ares_dup` gives the same channel —
    same effective settings, same ordered server list with per-protocol ports and interfaces; when the
    servers were supplied by the application they travel through the CSV step. -/
theorem dup_equiv (e : SysEnv) (o : Options) (m : Mask) (ch : Chan) (hwf : o.WF)
    (h : initOptions e (some o) m = .ok ch)
    (hok : ch.optmask.servers = true → ∀ s ∈ ch.servers, entryOk e.ifs s = true) :
    dup ch e = .ok ch := dup_init e o m ch hwf h hok

/-- a server as the legacy options / an IPv4 `nameserver` line produce it: IPv4 address, equal ports,
    no interface -/
def IsPlainV4 (s : Server) : Prop :=
  ∃ a b c d p, a < 256 ∧ b < 256 ∧ c < 256 ∧ d < 256 ∧ p < 65536 ∧
    s = { addr := .v4 [a, b, c, d], udp := p, tcp := p, iface := [], scope := 0 }

/-- the per-entry hypothesis of `csv_fixpoint` / `dup_equiv` is a theorem for plain IPv4 servers:
    `a.b.c.d:port` is rejected by the URI parser, accepted by `parse_nameserver`, and gives the server back -/
theorem entry_roundtrip_v4 (ifs : Ifaces) (s : Server) (h : IsPlainV4 s) : entryOk ifs s = true := by
  obtain ⟨a, b, c, d, p, ha, hb, hc, hd, hp, rfl⟩ := h
  exact entryOk_v4_plain ifs a b c d p ha hb hc hd hp

/-- `csv_fixpoint` without the per-entry hypothesis for IPv4 server lists with equal ports -/
theorem csv_fixpoint_v4 (c : Chan) (ifs : Ifaces)
    (hinv : ServersInv (hasFlag c.flags flagPrimary) c.servers) (hv4 : ∀ s ∈ c.servers, IsPlainV4 s) :
    ∃ csv, getServersCsv c = some csv ∧ (setServersCsv c ifs csv).1 = .success ∧
      getServersCsv (setServersCsv c ifs csv).2 = some csv ∧ (setServersCsv c ifs csv).2.servers = c.servers :=
  csv_fixpoint c ifs hinv (fun s hs => entry_roundtrip_v4 ifs s (hv4 s hs))

/-- `dup_equiv` without the per-entry hypothesis when the application's servers are plain IPv4 -/
theorem dup_equiv_v4 (e : SysEnv) (o : Options) (m : Mask) (ch : Chan) (hwf : o.WF)
    (h : initOptions e (some o) m = .ok ch) (hv4 : ch.optmask.servers = true → ∀ s ∈ ch.servers, IsPlainV4 s) :
    dup ch e = .ok ch :=
  dup_equiv e o m ch hwf h (fun hb s hs => entry_roundtrip_v4 e.ifs s (hv4 hb s hs))

/-- **ntop_pton** (IPv4): parsing the text form of an address gives the address back -/
theorem ntop_pton_v4 (a b c d : Nat) (ha : a < 256) (hb : b < 256) (hc : c < 256) (hd : d < 256) :
    dnsPton .unspec (ntop (.v4 [a, b, c, d])) = some (.v4 [a, b, c, d]) :=
  dnsPton_ntop_v4 a b c d ha hb hc hd

/-- IPv6 instances of `ntop_pton` (kernel-checked): unspecified, loopback, IPv4-mapped, IPv4-compatible,
    link-local, leading / inner / trailing zero runs, no zero run, a single zero word (not compressed).
    The general IPv6 statement `∀ a, dnsPton .unspec (ntop (.v6 a)) = some (.v6 a)` is NOT proved; it is
    checked on the implementation and on the model by the `ntoppton` operations of the `chan` stream. -/
def v6Examples : List (List Nat) :=
  [ [0, 0, 0, 0, 0, 0, 0, 0, 0, 0, 0, 0, 0, 0, 0, 0],
    [0, 0, 0, 0, 0, 0, 0, 0, 0, 0, 0, 0, 0, 0, 0, 1],
    [0, 0, 0, 0, 0, 0, 0, 0, 0, 0, 255, 255, 1, 2, 3, 4],
    [0, 0, 0, 0, 0, 0, 0, 0, 0, 0, 0, 0, 1, 2, 3, 4],
    [254, 128, 0, 0, 0, 0, 0, 0, 0, 0, 0, 0, 0, 0, 0, 1],
    [32, 1, 13, 184, 0, 0, 0, 0, 0, 0, 0, 0, 0, 0, 0, 1],
    [0, 1, 0, 2, 0, 3, 0, 4, 0, 5, 0, 6, 0, 7, 0, 8],
    [0, 1, 0, 0, 0, 0, 0, 0, 0, 0, 0, 0, 0, 0, 0, 0],
    [0, 1, 0, 0, 0, 0, 0, 2, 0, 0, 0, 0, 0, 0, 0, 3],
    [0, 1, 0, 0, 0, 2, 0, 3, 0, 4, 0, 5, 0, 6, 0, 7],
    [255, 255, 255, 255, 255, 255, 255, 255, 255, 255, 255, 255, 255, 255, 255, 255],
    [0, 0, 0, 0, 0, 0, 0, 0, 0, 0, 0, 0, 0, 0, 0, 2] ]

theorem ntop_pton_v6_examples : v6Examples.all (fun a => dnsPton .unspec (ntop (.v6 a)) == some (.v6 a)) = true := by
  decide +kernel

/-! ## The pinned tree -/

/-- F17: with the pinned rule `options use-vc` overrides the flags the application supplied -/
theorem pinned_usevc_overrides_user_flags :
    let c : Chan := { flags := 128, optmask := { flags := true } }
    let s : SysConfig := { usevc := true }
    (sysconfigApplyG false c s).flags = 129 ∧ (sysconfigApply c s).flags = 128 := by
  decide

/-! ## Non-vacuity -/

/-- "nameserver 9.9.9.9\noptions attempts:5 ndots:4\n" -/
def exResolv : Bytes :=
  [110, 97, 109, 101, 115, 101, 114, 118, 101, 114, 32, 57, 46, 57, 46, 57, 46, 57, 10,
   111, 112, 116, 105, 111, 110, 115, 32, 97, 116, 116, 101, 109, 112, 116, 115, 58, 53, 32, 110, 100, 111, 116, 115, 58, 52, 10]

/-- tries and ndots supplied by the application, a resolv.conf that says otherwise: the channel keeps
    the application's values and takes the server from the file; saving works and dup gives the same -/
def exCheck : Bool :=
  let e : SysEnv := { files := fun p => if p = pathResolvConf then some exResolv else none }
  let m : Mask := { tries := true, ndots := true }
  let o : Options := { tries := 2, ndots := 0 }
  match initOptions e (some o) m with
  | .ok ch =>
    decide (ch.tries = 2) && decide (ch.ndots = 0) &&
    decide (ch.servers = [{ addr := .v4 [9, 9, 9, 9], udp := 53, tcp := 53 }]) &&
    (match dup ch e with
     | .ok d => decide (d = ch)
     | .error _ => false)
  | .error _ => false

example : exCheck = true := by decide +kernel

example : entryOk (some []) { addr := .v4 [9, 9, 9, 9], udp := 53, tcp := 53 } = true := by decide +kernel
example : entryOk (some [([108, 111], 1)])
    { addr := .v6 [254, 128, 0, 0, 0, 0, 0, 0, 0, 0, 0, 0, 0, 0, 0, 1], udp := 53, tcp := 54, iface := [108, 111], scope := 1 } = true := by
  decide +kernel

end Cares.C16
