import CaresLemmas.WriteMsg
/-!
# C03 — Write then parse is the identity, including for what goes on the wire

Property theorems only (helper lemmas live in `CaresLemmas/Write*.lean`).

* writer model: `Cares.Dns.Write` (`ares_dns_write.c`), `Cares.Dns.NameW` (`ares_dns_name.c`, write side),
  `Cares.Dns.Build` (record builder API, `ares_dns_record_create_query`, `ares_create_query`);
* parser model: `Cares.Dns.parse` of the C02/C04 slice (`CaresModel/Dns/Parse.lean`) — the theorems below are
  about *that* parser, not about a copy;
* `canon r` = the record with every name in the spelling the parser prints and TXT chunks cut at 255 bytes;
  `RecEquiv a b := canon a = canon b` is "equal field by field".

## The full statement and what is proved

```
roundtrip : Built r ∨ Parsed r → write r = .ok bs →
    bs.length ≤ 65535 ∧ ∃ r', parse bs 0 = .ok r' ∧ r' ≈ r ∧ write r' = .ok bs
```
is false on this tree for the input classes of findings F33–F38 (kernel-checked counterexamples
`c03_fails_*` below, each replayed on the implementation from `corpus/C03/`).  Proved:

* `roundtrip_partial`: for every record satisfying the decidable predicate `recOk` (what the typed setters
  guarantee + the guards excluding F33–F37), with the re-serialisation conjunct under the additional
  decidable-by-evaluation hypothesis `canon r = r` (names spelled canonically, F38);
* `frame_roundtrip_partial`: the same for the frame `ares_dns_write_buf_tcp` appends behind *any* queued bytes;
* `create_query_parse`: `ares_create_query` / `ares_mkquery` — no guard needed;
* the name layer and the generic scripted-field lemma at full strength.

The defects F5 (offsets relative to the buffer), F6 (offsets ≥ 16384), F7 (no 65535 limit), F30 (empty label
in front of a pointer), F31 (512-byte `name_copy`), F32 (question type > 65535) and F39 (escaped dot taken
for a separator) are repaired by `fix:` commits; the model is the repaired writer and the theorems below hold
without guards for them (`no_truncation`, `frame_roundtrip_partial` for every `queued`).
-/
namespace Cares.C03
open Cares.Dns Cares.Dns.Write Cares.Dns.NameW Cares.Dns.Build

/-! ## Name layer -/

/-- `unescape (escape ls) = ls`: splitting the presentation text the parser prints for a legal label list
    returns exactly those labels -/
theorem unescape_escape (ls : List BStr) (h : labelsOk ls = true) :
    NameW.splitDnsName false (NameW.escapeName ls) = .ok ls :=
  split_escape ls h

/-- `labels (p ++ "." ++ m) = labels p ++ labels m` when the writer accepted `p` as the text in front of a
    pointer to `m` (a dot that is escaped leaves a dangling backslash in `p`, which is then rejected) -/
theorem labels_concat (v : Bool) (p m : BStr) (lp lm : List BStr)
    (hp : NameW.splitDnsName v p false = .ok lp) (hm : unescape m = .ok lm) (hlm : lm ≠ []) :
    unescape (p ++ dot :: m) = .ok (lp ++ lm) :=
  (unescape_tail v p m lp lm hp hm hlm).1

/-- appending never changes what an earlier name decodes to -/
theorem decode_append (msg more : BStr) (lo pos e : Nat) (ls : List BStr) (h : Decodes msg lo pos ls e) :
    Decodes (msg ++ more) lo pos ls e :=
  h.append more

/-- **offset-list invariant**: if every stored `(name, idx)` decodes at `idx` (< 2^14) to the labels of
    `name`, reading only bytes already written, then after `ares_dns_name_write` the same holds for the new
    list and the longer buffer, the appended bytes decode to the labels of the written name, and the 14-bit
    pointer mask dropped nothing -/
theorem name_offsets_invariant (out : BStr) (names : List NameOff) (useList v : Bool) (name : BStr)
    (o : NameOut) (hinv : NInv names out) (h : nameWrite out.length names useList v name = .ok o) :
    (∃ ls, unescape name = .ok ls ∧ wireLabels ls = true ∧
        Decodes (out ++ o.bytes) out.length out.length ls (out.length + o.bytes.length) ∧ o.trunc = false) ∧
      NInv o.names (out ++ o.bytes) :=
  nameWrite_spec out names useList v name o hinv h

/-- the parser model reads a written name back as its canonical spelling, whatever follows it -/
theorem written_name_parses (out rest : BStr) (names : List NameOff) (useList v : Bool) (name : BStr)
    (o : NameOut) (hinv : NInv names out) (h : nameWrite out.length names useList v name = .ok o) :
    parseName (out ++ o.bytes ++ rest).toArray false out.length =
      .ok (canonName name) (out.length + o.bytes.length) :=
  (parseName_nameWrite out rest names useList v name o hinv h).1

/-! ## Scripted RR types -/

/-- the scripts regenerated from the clang AST of `ares_dns_parse.c` / `ares_dns_write.c` are codec pairs -/
theorem generated_scripts_compatible :
    scriptsCompatible Generated.parseScript Generated.writeScript = true :=
  scripts_compatible

/-- **generic lemma**: `compatible ps ws → parseFields ps (writeFields ws v) = canon v`, with the offset-list
    invariant threaded through and no length masked -/
theorem fields_roundtrip (ps ws : Script) (hc : compatibleSeq ps ws = true)
    (out post : BStr) (S origLen rdlength : Nat) (names : List NameOff) (comp : Bool) (rr : RR) (p : Piece)
    (hw : writeFields out.length names comp rr ws = .ok p) (hinv : NInv names out)
    (hok : fieldsOk rr ps = true) (hS : S ≤ out.length)
    (horig : origLen = (out ++ p.bytes ++ post).length - S)
    (hrd : rdlength = out.length - S + p.bytes.length) :
    parseFields (out ++ p.bytes ++ post).toArray origLen rdlength ps out.length =
        .ok (canonFields rr ws) (out.length + p.bytes.length) ∧
      NInv p.names (out ++ p.bytes) ∧ p.trunc = false :=
  parseFields_writeFields ps ws hc out post S origLen rdlength names comp rr p hw hinv hok hS horig hrd

/-! ## Messages -/

/-- **round trip (partial, see the header of this file)** -/
theorem roundtrip_partial (r : Rec) (bs : BStr) (hok : recOk r = true) (hw : write r = .ok bs) :
    bs.length ≤ 65535 ∧
      ∃ r', parse bs.toArray 0 = .ok r' ∧ r' = canon r ∧ (canon r = r → write r' = .ok bs) := by
  obtain ⟨h1, h2⟩ := parse_write r bs hok hw
  exact ⟨h1, canon r, h2, rfl, fun hc => by rw [hc]; exact hw⟩

/-- no 16-bit or 14-bit field of a successfully written message lost bits (F6, F7 repaired) -/
theorem no_truncation (r : Rec) (bs : BStr) (t : Bool) (hok : recOk r = true)
    (hw : writeMsg 0 r = .ok (bs, t)) : t = false :=
  (parse_writeMsg r bs t hok hw).2.2

/-- **frames (partial)**: what `ares_dns_write_buf_tcp` appends to an output buffer holding any `queued`
    bytes is `be16 length ++ message`, the queued bytes are untouched, and the message parses back to the
    canonical record — independently of `queued` (F5 repaired) -/
theorem frame_roundtrip_partial (queued : BStr) (r : Rec) (buf : BStr) (hok : recOk r = true)
    (hw : writeBufTcp queued r = .ok buf) :
    ∃ msg, buf = queued ++ (be16 msg.length ++ msg) ∧ msg.length ≤ 65535 ∧ write r = .ok msg ∧
      parse msg.toArray 0 = .ok (canon r) := by
  simp only [writeBufTcp, writeTcpFrame, Except.map] at hw
  cases h : writeMsg 0 r with
  | error e => simp [h] at hw
  | ok mt =>
    obtain ⟨msg, t⟩ := mt
    simp only [h] at hw
    obtain ⟨h1, h2, _⟩ := parse_writeMsg r msg t hok h
    have : ¬ msg.length > 65535 := by omega
    simp only [this, ↓reduceIte, Except.ok.injEq] at hw
    exact ⟨msg, hw.symm, h1, by simp [write, Except.map, h], h2⟩

/-! ## Legacy query builders -/

theorem createQuery_recOk (name : BStr) (cls type id flags udp : Nat) (r : Rec)
    (hid : id < 65536) (hfl : flags = 0 ∨ flags = Flag.rd)
    (h : createQuery name cls type id flags udp = .ok r) :
    recOk r = true ∧ r.id = id ∧ r.flags = flags ∧ r.opcode = 0 ∧ r.rcode = 0 ∧
      r.qd = [⟨name, type, cls⟩] ∧ r.an = [] ∧ r.ns = [] ∧ (udp = 0 → r.ar = []) := by
  have hflv : flagsValid flags = true ∧ flags < 65536 := by
    rcases hfl with h | h <;> subst h <;> decide
  have hrc : recordCreate id flags 0 0 =
      .ok { id := id, flags := flags, opcode := 0, rcode := 0, qd := [], an := [], ns := [], ar := [] } := by
    simp [recordCreate, opcodeValid, rcodeValid, hflv.1]
  unfold createQuery at h
  by_cases hon : isOnion name = true
  · simp [hon] at h
  simp only [hon, Bool.false_eq_true, ↓reduceIte, hrc, queryAdd] at h
  by_cases hq : (!recTypeValid type true || !classValid cls type true) = true
  · simp [hq] at h
  simp only [hq, Bool.false_eq_true, ↓reduceIte, List.nil_append] at h
  simp only [Bool.or_eq_true, Bool.not_eq_true', not_or, Bool.not_eq_false] at hq
  by_cases hu : udp = 0
  · simp only [hu, ↓reduceIte, Except.ok.injEq] at h
    subst h
    refine ⟨?_, rfl, rfl, rfl, rfl, rfl, rfl, rfl, fun _ => rfl⟩
    simp [recOk, hid, hflv.1, hflv.2, opcodeValid, rcodeValid, hq.1, hq.2]
  · simp only [hu, ↓reduceIte] at h
    by_cases hbig : udp > 65535
    · simp [hbig] at h
    have hu16 : udp < 65536 := by omega
    have hnew : rrNew 3 [] RecType.opt Class.in 0 =
        .ok { name := [], type := 41, cls := 1, ttl := 0, fields := defaultFields 41 } := by rfl
    simp only [hbig, ↓reduceIte, hnew, Except.ok.injEq] at h
    subst h
    refine ⟨?_, rfl, rfl, rfl, rfl, rfl, rfl, rfl, fun h0 => absurd h0 hu⟩
    have hdf : defaultFields 41 = [(4101, Val.u16 0), (4103, Val.u8 0), (4104, Val.u16 0), (4105, Val.opt [])] := by rfl
    have hv1 : recTypeValid 41 false = true := by rfl
    have hv2 : classValid 1 41 false = true := by rfl
    simp [recOk, hid, hflv.1, hflv.2, opcodeValid, rcodeValid, hq.1, hq.2, addToSect, rrOk, setField, hdf,
      RecType.opt, RecType.rawRR, Class.in, Key.optUdpSize, Key.optVersion, Key.optFlags, Key.optOptions,
      hv1, hv2, optFieldsStd, getU, getOpts, RR.get?, fieldOk, hu16, hasOpt]

/-- **`ares_create_query` / `ares_mkquery`**: when the builder succeeds, its bytes are at most 65535 and
    parse to exactly the requested query (name in canonical spelling) -/
theorem create_query_parse (name : BStr) (cls type id : Nat) (rd : Bool) (udp : Nat) (bs : BStr)
    (hid : id < 65536) (h : legacyCreateQuery name cls type id rd udp = .ok bs) :
    bs.length ≤ 65535 ∧
      ∃ r, parse bs.toArray 0 = .ok (canon r) ∧ r.id = id ∧ r.flags = (if rd then Flag.rd else 0) ∧
        r.opcode = 0 ∧ r.rcode = 0 ∧ r.qd = [⟨name, type, cls⟩] ∧ r.an = [] ∧ r.ns = [] ∧
        (udp = 0 → r.ar = []) := by
  unfold legacyCreateQuery at h
  cases hc : createQuery name cls type id (if rd then Flag.rd else 0) udp with
  | error e => simp [hc] at h
  | ok r =>
    simp only [hc] at h
    obtain ⟨hok, e1, e2, e3, e4, e5, e6, e7, e8⟩ := createQuery_recOk name cls type id _ udp r hid
      (by cases rd <;> simp) hc
    obtain ⟨h1, h2⟩ := parse_write r bs hok h
    exact ⟨h1, r, h2, e1, e2, e3, e4, e5, e6, e7, e8⟩

/-! ## Translator obligations: the hand-written tables of the writer model are the regenerated ones -/

/-- numeric value of `ares_dns_datatype_t` -/
def dtCode : Option DT → Nat
  | some .inaddr => 1 | some .inaddr6 => 2 | some .u8 => 3 | some .u16 => 4 | some .u32 => 5
  | some .name => 6 | some .str => 7 | some .bin => 8 | some .binp => 9 | some .opt => 10
  | some .abinp => 11 | none => 0

theorem rrKeys_eq_generated : ∀ t ∈ Generated.rrKeysTbl.map (·.1), rrKeys t = Generated.rrKeys t := by decide

theorem keyDatatype_eq_generated :
    ∀ k ∈ Generated.keyDatatypeTbl.map (·.1), dtCode (keyDatatype k) = Generated.keyDatatype k := by decide

theorem allowNameComp_eq_generated :
    ∀ t ∈ Generated.recTypeValidRR, allowNameComp t = Generated.allowNameComp t := by decide

/-- every script lists the keys of its type in `ares_dns_rr_get_keys` order, so "fields in key order" and
    "fields in script order" are the same thing -/
theorem script_keys_are_rrKeys :
    (∀ e ∈ Generated.writeScript, e.2.map (·.2) = rrKeys e.1) ∧
      (∀ e ∈ Generated.parseScript, e.2.map (·.2) = rrKeys e.1) := by decide

theorem recTypeValid_eq_generated (t : Nat) : recTypeValid t false = Generated.recTypeValid t false :=
  recTypeValid_rr_eq t

theorem hostname_chars_eq_generated (c : UInt8) : isHostnameCh c = Generated.isHostnameCh c.toNat :=
  isHostnameCh_eq_generated c

theorem escape_eq_parser (l : BStr) : Cares.Dns.escapeLabel l = NameW.escapeLabel l :=
  escapeLabel_eq_parser l

/-! ## Counterexamples for the guards (pinned behaviour; replayed from `corpus/C03/edge.f3*.txt`) -/

def exampleCom : BStr := [101, 120, 97, 109, 112, 108, 101, 46, 99, 111, 109]          -- "example.com"
def exampleComDot : BStr := exampleCom ++ [46]                                        -- "example.com."

/-- `example.com IN A` query answered by `example.com A 10.0.0.1` -/
def rGood : Rec :=
  { id := 1, flags := 0, opcode := 0, rcode := 0
    qd := [{ name := exampleCom, qtype := 1, qclass := 1 }]
    an := [{ name := exampleCom, type := 1, cls := 1, ttl := 60, fields := [(101, Val.addr [1, 2, 3, 4])] }]
    ns := [], ar := [] }

def rNoQuestion : Rec := { rGood with qd := [] }
def rBadCookie : Rec := { rGood with rcode := 23 }
def rServfail : Rec := { rGood with rcode := 2 }

def optRR (cls ttl : Nat) : RR :=
  { name := [], type := 41, cls := cls, ttl := ttl,
    fields := [(4101, Val.u16 1232), (4103, Val.u8 0), (4104, Val.u16 0), (4105, Val.opt [])] }

def rOptChaos : Rec := { rGood with ar := [optRR 3 5] }
def rOptIn : Rec := { rGood with ar := [optRR 1 0] }

def rawA : RR :=
  { name := exampleCom, type := 65536, cls := 1, ttl := 60,
    fields := [(6553601, Val.u16 1), (6553602, Val.bin (some [1, 2, 3, 4]))] }
def rRawA : Rec := { rGood with an := [rawA] }

def hinfoCtl : RR :=
  { name := [], type := 13, cls := 1, ttl := 0,
    fields := [(1301, Val.str (some [97, 1, 98])), (1302, Val.str (some []))] }

def rTrailingDot : Rec :=
  { rGood with an := [{ name := exampleComDot, type := 1, cls := 1, ttl := 60,
                        fields := [(101, Val.addr [1, 2, 3, 4])] }] }

/-- F33: no question — the bytes are refused by the parser -/
theorem c03_fails_qdcount : ∃ bs, write rNoQuestion = .ok bs ∧ parse bs.toArray 0 = .err .ebadresp :=
  ⟨_, rfl, rfl⟩

/-- F34: rcode BADCOOKIE (23) without an OPT RR is written exactly like rcode SERVFAIL (2) -/
theorem c03_fails_extrcode_without_opt :
    ∃ bs r', write rBadCookie = .ok bs ∧ parse bs.toArray 0 = .ok r' ∧ r'.rcode = 2 := by
  have hw : write rBadCookie = write rServfail := rfl
  obtain ⟨bs, hbs⟩ : ∃ bs, write rServfail = .ok bs := ⟨_, rfl⟩
  exact ⟨bs, _, by rw [hw]; exact hbs, (parse_write _ bs rfl hbs).2, rfl⟩

/-- F35: an OPT RR created with class CH and TTL 5 is written exactly like one with class IN, TTL 0 -/
theorem c03_fails_opt_class_ttl :
    ∃ bs r', write rOptChaos = .ok bs ∧ parse bs.toArray 0 = .ok r' ∧
      r'.ar.map (fun rr => (rr.cls, rr.ttl)) = [(1, 0)] := by
  have hw : write rOptChaos = write rOptIn := rfl
  obtain ⟨bs, hbs⟩ : ∃ bs, write rOptIn = .ok bs := ⟨_, rfl⟩
  exact ⟨bs, _, by rw [hw]; exact hbs, (parse_write _ bs rfl hbs).2, rfl⟩

/-- F36: a RAW_RR carrying type 1 and four bytes is written exactly like the A record -/
theorem c03_fails_rawrr_decoded_type :
    ∃ bs r', write rRawA = .ok bs ∧ parse bs.toArray 0 = .ok r' ∧ r'.an.map (·.type) = [1] := by
  have hw : write rRawA = write rGood := rfl
  obtain ⟨bs, hbs⟩ : ∃ bs, write rGood = .ok bs := ⟨_, rfl⟩
  exact ⟨bs, _, by rw [hw]; exact hbs, (parse_write _ bs rfl hbs).2, rfl⟩

/-- F37: the character-string `a\x01b` written by `ares_dns_write_rr_str` is refused by
    `ares_dns_parse_and_set_dns_str` (field level: the bytes of the helper, read by its counterpart) -/
theorem c03_fails_nonprintable_string :
    ∃ p, writeField 0 [] false hinfoCtl (.str true) 1301 = .ok p ∧
      parseField p.bytes.toArray p.bytes.length p.bytes.length (.str true) 0 = .err .ebadstr :=
  ⟨_, rfl, rfl⟩

/-- F38: the same name once with and once without trailing dot: the record serialises, its canonical form
    (what the parser returns) serialises to different — shorter — bytes -/
theorem c03_fails_rewrite_spelling :
    ∃ b1 b2, write rTrailingDot = .ok b1 ∧ write (canon rTrailingDot) = .ok b2 ∧ b2.length < b1.length :=
  ⟨_, _, rfl, rfl, by decide⟩

/-! ## Non-vacuity -/

/-- a record with compression (owner = question name), an SOA with two compressible names, an SRV target that
    must not be compressed (with an escaped dot), and an OPT RR carrying an extended rcode -/
def rSample : Rec :=
  { id := 4660, flags := 9, opcode := 0, rcode := 23
    qd := [{ name := exampleCom, qtype := 255, qclass := 1 }]
    an := [{ name := exampleCom, type := 1, cls := 1, ttl := 60, fields := [(101, Val.addr [1, 2, 3, 4])] },
           { name := [119, 119, 119, 46] ++ exampleCom, type := 33, cls := 1, ttl := 5,
             fields := [(3302, Val.u16 1), (3303, Val.u16 2), (3304, Val.u16 443),
                        (3305, Val.name (some ([97, 92, 46, 98, 46] ++ exampleCom)))] }]
    ns := [{ name := exampleCom, type := 6, cls := 1, ttl := 3600,
             fields := [(601, Val.name (some ([110, 115, 46] ++ exampleCom))),
                        (602, Val.name (some ([114, 46] ++ exampleCom))),
                        (603, Val.u32 1), (604, Val.u32 2), (605, Val.u32 3), (606, Val.u32 4), (607, Val.u32 5)] }]
    ar := [{ name := [], type := 41, cls := 1, ttl := 0,
             fields := [(4101, Val.u16 1232), (4103, Val.u8 0), (4104, Val.u16 32768),
                        (4105, Val.opt [(10, [1, 2, 3, 4, 5, 6, 7, 8])])] }] }

example : recOk rSample = true := by rfl
set_option maxRecDepth 100000 in
example : ∃ bs, write rSample = .ok bs := ⟨_, rfl⟩
example : canon rSample = rSample := by rfl
example : recOk rGood = true := by rfl
set_option maxRecDepth 100000 in
/-- the hypotheses of `roundtrip_partial` are satisfiable and its conclusion is not trivial -/
example : ∃ bs, write rSample = .ok bs ∧ parse bs.toArray 0 = .ok rSample ∧ write rSample = .ok bs := by
  obtain ⟨bs, hbs⟩ : ∃ bs, write rSample = .ok bs := ⟨_, rfl⟩
  have := (parse_write rSample bs rfl hbs).2
  exact ⟨bs, hbs, by rw [this]; rfl, hbs⟩
/-- the offset-list invariant has a non-trivial model: after the question of `rGood` one name is stored -/
example : ∃ o, nameWrite 12 [] true true exampleCom = .ok o ∧ o.names = [⟨exampleCom, 12⟩] := ⟨_, rfl, rfl⟩

end Cares.C03
