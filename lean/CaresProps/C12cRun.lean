import CaresProps.C12c
/-!
# C12c — non-vacuity: concrete channel runs to which the refinement theorems apply (all `decide +kernel`)

1. `Search`: one server, search list `a.com`, `ares_search("host", A)`: `host.a.com` → NXDOMAIN, then `host` → one
   address.  Three top-level calls (`clientStart`, two `processRead`).
2. `Sync`: no server at all, `ares_getaddrinfo("host", AF_UNSPEC)`: both sub-requests fail synchronously *inside*
   `runActs` — the first completion re-enters the client while the second `.sendSlot` of the outer frame is still
   pending (the re-entrant case); one top-level call.
-/
namespace Cares.C12c.Example
open Cares.Chan Cares.Text Cares.Proto Cares.ClientWalk

def cfg : Cfg := { ndots := 1, domains := ["612e636f6d"] }
def conf : Config := { ndots := 1, domains := [[97, 46, 99, 111, 109]] }
def host : Name := [104, 111, 115, 116]
def spec : ReqSpec := { name := "686f7374", qtype := 1 }
def fuel : Nat := 60

theorem hyps : CfgMatches cfg conf ∧ Ser host ∧ hex host = "686f7374" ∧
    lookupHostaliases conf.noAliases conf.aliases host = .error .enotfound ∧
    isOnion (hex host) = false ∧ isLocalhost (hex host) = false ∧ isV4Literal (hex host) = false ∧ DnsFirst cfg :=
  ⟨⟨rfl, by decide, rfl, by decide⟩, by decide, by decide, rfl, by decide +kernel, by decide +kernel,
    host_not_literal, ⟨0, [], by decide, by decide⟩⟩

namespace Search

def s0 : St := { cfg := cfg, alive := true, servers := [{ id := 0, addr := "10.0.0.1" }] }
def call1 : Call := .clientStart "search" 1 [] spec 0
def t0 : St := { s0 with pendingToks := s0.pendingToks ++ [1] }
def s1 : St := (exec fuel call1 t0).1
def r1 : Reply := { id := 70000, name := "686f73742e612e636f6d", qtype := 1, qclass := 1, rcode := 3, len := 40 }
def t1 : St := s1.settle.modSock 100 fun v => { v with rx := v.rx ++ [r1] }
def s2 : St := (exec fuel (.processRead 100) t1).1
def r2 : Reply := { id := 70001, name := "686f7374", qtype := 1, qclass := 1, rcode := 0, an := 1, ttls := [300], len := 40 }
def t2 : St := s2.settle.modSock 100 fun v => { v with rx := v.rx ++ [r2] }
def s3 : St := (exec fuel (.processRead 100) t2).1
def L1 : CLog := [] ++ (execC fuel call1 t0).2
def L2 : CLog := L1 ++ (execC fuel (.processRead 100) t1).2
def L : CLog := L2 ++ (execC fuel (.processRead 100) t2).2

set_option maxRecDepth 100000 in
theorem run_completes : (exec fuel call1 t0).1.outOfFuel = false ∧ (exec fuel (.processRead 100) t1).1.outOfFuel = false ∧
    (exec fuel (.processRead 100) t2).1.outOfFuel = false := by decide +kernel

theorem inv0 : Cares.C01.Inv s0 := Cares.C01.inv_init cfg _ (by decide) (by decide)

theorem run0 : RunC s0 t0 [] := (RunC.nil s0).env (t' := t0) rfl rfl rfl rfl rfl
theorem run1 : RunC s0 s1 L1 := run0.call fuel call1 ⟨fun _ _ h => (by cases h), rfl⟩ run_completes.1
theorem run1' : RunC s0 t1 L1 := run1.settle.env (t' := t1) rfl rfl rfl rfl rfl
theorem run2 : RunC s0 s2 L2 := run1'.call fuel (.processRead 100) ⟨fun _ _ h => (by cases h), rfl⟩ run_completes.2.1
theorem run2' : RunC s0 t2 L2 := run2.settle.env (t' := t2) rfl rfl rfl rfl rfl
/-- the run: `clientStart`, NXDOMAIN for `host.a.com`, answer for `host` -/
theorem run : RunC s0 s3 L := run2'.call fuel (.processRead 100) ⟨fun _ _ h => (by cases h), rfl⟩ run_completes.2.2

/-! the same run under the C01 discipline (`RunI`): the token is accepted with `C01.callOk_accept`, the event-loop
calls are justified by `C01.callOk_loop`, `settle` and the arrival of a reply are environment steps -/
theorem runI0 : RunI s0 t0 [] := run_accept (run_start inv0) 1 (by decide) (by decide) (by decide)
theorem runI1 : RunI s0 s1 L1 :=
  run_call runI0 fuel call1 ⟨fun _ _ h => (by cases h), rfl⟩
    ((Cares.C01.callOk_accept inv0 1 (by decide) (by decide) (by decide)).2.2 "search" spec [] 0) run_completes.1
theorem runI1' : RunI s0 t1 L1 :=
  runI1.settle.env_sk (t' := t1) rfl rfl rfl rfl (sk_modSock _ _ _ (fun _ => rfl))
theorem runI2 : RunI s0 s2 L2 :=
  run_call runI1' fuel (.processRead 100) ⟨fun _ _ h => (by cases h), rfl⟩
    ((Cares.C01.callOk_loop (run_inv runI1')).1 100) run_completes.2.1
theorem runI2' : RunI s0 t2 L2 :=
  runI2.settle.env_sk (t' := t2) rfl rfl rfl rfl (sk_modSock _ _ _ (fun _ => rfl))
/-- the run, with every hypothesis of `causal_of_run` discharged -/
theorem runI : RunI s0 s3 L :=
  run_call runI2' fuel (.processRead 100) ⟨fun _ _ h => (by cases h), rfl⟩
    ((Cares.C01.callOk_loop (run_inv runI2')).1 100) run_completes.2.2

set_option maxRecDepth 100000 in
/-- what the log says: causal; two completions; the two candidates were asked in order; one user callback -/
theorem log_facts : Causal 0 L ∧ CItem.start 0 "search" 1 [] spec 0 ∈ L ∧ L.length = 10 ∧
    (evsOf 0 L).map searchOutcome = [.enotfound, .success] ∧
    sentOf 0 L = [("686f73742e612e636f6d", 1), ("686f7374", 1)] ∧
    finsOf 0 L = [(.ok, 0, "rc=0,an=1,10.0.0.1/300")] ∧ s3.doneToks = [1] ∧ s3.modelFaults = [] := by
  decide +kernel

/-- causality of the run is a consequence of the C01 discipline (it is also the first conjunct of `log_facts`,
    checked by evaluation) -/
example : Causal 0 L := causal_of_run runI 0 (Nat.le_refl 0)

/-- R1 applies to the run (all hypotheses discharged, no causality assumption) … -/
example : sentOf 0 L = (clientRun cfg 0 "search" 1 [] spec 0 (evsOf 0 L)).sent ∧
    finsOf 0 L = (clientRun cfg 0 "search" 1 [] spec 0 (evsOf 0 L)).fin.toList :=
  client_events_are_fold runI 0 (Nat.le_refl 0) "search" 1 [] spec 0 log_facts.2.1

/-- (the conditional form, with `Causal` taken from the evaluated log) -/
example : sentOf 0 L = (clientRun cfg 0 "search" 1 [] spec 0 (evsOf 0 L)).sent ∧
    finsOf 0 L = (clientRun cfg 0 "search" 1 [] spec 0 (evsOf 0 L)).fin.toList :=
  client_events_are_fold_partial run 0 (Nat.le_refl 0) inv0 log_facts.1 "search" 1 [] spec 0 log_facts.2.1

/-- … and so does R2: the names on the wire are `searchWalk`'s, the status is `searchWalk`'s -/
example : sentOf 0 L = tagNames 1 (searchWalk conf host [.enotfound, .success]).1 ∧
    (finsOf 0 L).map (fun f => stMap f.1) = [(searchWalk conf host [.enotfound, .success]).2] := by
  have h := search_over_channel runI 0 (Nat.le_refl 0) conf hyps.1 host hyps.2.1 hyps.2.2.2.1
    hyps.2.2.2.2.1 1 [] spec rfl 0 log_facts.2.1
  simp only [log_facts.2.2.2.1] at h
  refine ⟨h.1, ?_⟩
  rw [h.2, if_pos (by decide +kernel)]

set_option maxRecDepth 100000 in
example : (searchWalk conf host [.enotfound, .success]) =
    ([[104, 111, 115, 116, 46, 97, 46, 99, 111, 109], host], .success) := by decide +kernel

/-- R1a (unconditional): the log replays; afterwards the client store is empty again -/
example : replay cfg ⟨[], 0, []⟩ L = some ⟨[], 1, []⟩ := by
  have h := (client_run_replays run).2
  have e : (s3.clients.length = 0 ∧ s3.nextClient = 1) := by decide +kernel
  have : s3.clients = [] := List.eq_nil_of_length_eq_zero e.1
  rw [this, e.2] at h
  exact h

set_option maxRecDepth 100000 in
/-- the two replies handed to the client are the two entries of `accepted` -/
example : (evsOf 0 L).map (·.reply) = [some r1, some r2] ∧ s3.accepted = [(100, 0, r1), (100, 1, r2)] := by
  decide +kernel

/-- … as `client_replies_accepted` says -/
example : ∀ e ∈ evsOf 0 L, ∀ r, e.reply = some r → FromAcc s3.accepted r :=
  client_replies_accepted run (fun _ h => nomatch h) 0

end Search

namespace Sync

def s0 : St := { cfg := cfg, alive := true, servers := [] }
def call1 : Call := .clientStart "gai" 1 [] spec 0
def t0 : St := { s0 with pendingToks := s0.pendingToks ++ [1] }

/-- `clientStart` evaluated (the kernel cannot evaluate `String.splitOn` inside `isV4Literal`) -/
def start0 : Client × List ClientAct :=
  gaiNextLookup cfg 8
    { id := 0, kind := "gai", tok := 1, react := [], name := spec.name, family := 0,
      lookups := cfg.lookups.toList, names := searchNames cfg spec.name } .connrefused

theorem start_eval : clientStart cfg 0 "gai" 1 [] spec 0 = start0 := by
  unfold clientStart gaiStart start0
  have ho : isOnion spec.name = false := by decide +kernel
  simp [ho, show isV4Literal spec.name = false from host_not_literal]

def t0' : St := { t0 with clients := t0.clients ++ [start0.1], nextClient := 1 }

theorem call_eval : execC fuel call1 t0 =
    ((execC 59 (.runActs 0 start0.2) t0').1, .start 0 "gai" 1 [] spec 0 :: (execC 59 (.runActs 0 start0.2) t0').2) := by
  show bodyClientStartC (execC 59) "gai" 1 [] spec 0 t0 = _
  unfold bodyClientStartC
  show (_, CItem.start 0 "gai" 1 [] spec 0 :: _) = _
  rw [show clientStart t0.cfg t0.nextClient "gai" 1 [] spec 0 = start0 from start_eval]
  rfl

def s1 : St := (exec fuel call1 t0).1
def L : CLog := [] ++ (execC fuel call1 t0).2
/-- the log, spelled out -/
def Lval : CLog :=
  [.start 0 "gai" 1 [] spec 0,
   .act 0 (.sendSlot { name := "686f73742e612e636f6d", qtype := 1 } 0),
   .cb 0 .noserver 0 none 0 0, .ret 0,                                  -- nested: the second `.sendSlot` is still pending
   .act 0 (.sendSlot { name := "686f73742e612e636f6d", qtype := 28 } 1),
   .cb 0 .noserver 0 none 0 0, .act 0 (.finish .noserver 0 "ai="), .rel 0, .ret 0,
   .ret 0]

set_option maxRecDepth 100000 in
theorem run_facts : (exec fuel call1 t0).1.outOfFuel = false ∧ L = Lval ∧ (exec fuel call1 t0).1.doneToks = [1] ∧
    (exec fuel call1 t0).1.modelFaults = [] := by
  have e : (exec fuel call1 t0).1 = (execC 59 (.runActs 0 start0.2) t0').1.1 := by
    rw [← execC_fst, call_eval]
  have e2 : L = .start 0 "gai" 1 [] spec 0 :: (execC 59 (.runActs 0 start0.2) t0').2 := by
    show [] ++ (execC fuel call1 t0).2 = _
    rw [call_eval]; rfl
  rw [e, e2]
  decide +kernel

theorem inv0 : Cares.C01.Inv s0 := Cares.C01.inv_init cfg _ (by decide) (by decide)

theorem run : RunC s0 s1 L :=
  ((RunC.nil s0).env (t' := t0) rfl rfl rfl rfl rfl).call fuel call1 ⟨fun _ _ h => (by cases h), rfl⟩ run_facts.1

/-- the same run under the C01 discipline -/
theorem runI : RunI s0 s1 L :=
  run_call (run_accept (run_start inv0) 1 (by decide) (by decide) (by decide)) fuel call1
    ⟨fun _ _ h => (by cases h), rfl⟩
    ((Cares.C01.callOk_accept inv0 1 (by decide) (by decide) (by decide)).2.2 "gai" spec [] 0) run_facts.1

theorem log_facts : Causal 0 L ∧ CItem.start 0 "gai" 1 [] spec 0 ∈ L ∧
    evsOf 0 L = [{ st := .noserver, qids := some (0, 0) }, { st := .noserver, qids := some (0, 0) }] ∧
    sentOf 0 L = [("686f73742e612e636f6d", 1), ("686f73742e612e636f6d", 28)] ∧
    finsOf 0 L = [(.noserver, 0, "ai=")] := by
  rw [run_facts.2.1]
  decide +kernel

/-- R1 applies to the re-entrant run: the completion of the first sub-request is delivered while the second
    `.sendSlot` of the same frame has not been executed, and yet the flat fold describes the run -/
example : sentOf 0 L = (clientRun cfg 0 "gai" 1 [] spec 0 (evsOf 0 L)).sent ∧
    finsOf 0 L = (clientRun cfg 0 "gai" 1 [] spec 0 (evsOf 0 L)).fin.toList :=
  client_events_are_fold runI 0 (Nat.le_refl 0) "gai" 1 [] spec 0 log_facts.2.1

/-- the re-entrant run is causal because the channel is, not because the log was inspected -/
example : Causal 0 L := causal_of_run runI 0 (Nat.le_refl 0)

/-- R2 (gai) applies: one candidate group of two completions -/
example : sentOf 0 L = tagFam 0 (gaiWalk conf host [grpOutcome (evsOf 0 L)]).1 :=
  (gai_over_channel runI 0 (Nat.le_refl 0) conf hyps.1 host hyps.2.1 hyps.2.2.2.1 0
    (Or.inl rfl) hyps.2.2.2.2.1 hyps.2.2.2.2.2.2.1 hyps.2.2.2.2.2.1 hyps.2.2.2.2.2.2.2 1 [] spec rfl log_facts.2.1
    [evsOf 0 L] [] (by simp) (by rw [log_facts.2.2.1]; intro g hg; simp at hg; rw [hg]; rfl) (by decide)).1

/-- R2 (gai addresses) applies: the user callback got "no server" and an empty address list -/
example : ∀ st tm dg, (st, tm, dg) ∈ finsOf 0 L → st ≠ .ok → dg = "ai=" := fun st tm dg hfin =>
  (gai_addresses_over_channel runI 0 (Nat.le_refl 0) conf hyps.1 host hyps.2.1 hyps.2.2.2.1 0
    (Or.inl rfl) hyps.2.2.2.2.1 hyps.2.2.2.2.2.2.1 hyps.2.2.2.2.2.1 hyps.2.2.2.2.2.2.2 1 [] spec rfl log_facts.2.1
    [evsOf 0 L] [] (by simp) (by rw [log_facts.2.2.1]; intro g hg; simp at hg; rw [hg]; rfl) (by decide) st tm dg hfin).2

end Sync

/-! ### the causality hypothesis cannot be dropped from the pure theorem

A log that replays (so it is a possible behaviour as far as `client_run_replays` can tell) but delivers a second
completion for the sub-request `host` — inside the user callback, before the record is released: the client logic
finishes twice, while `walkFrom` lets a finished client receive nothing more.  `Causal` excludes it (two sub-requests
started, third completion); the channel excludes it because a query is ended once: `causal_of_run`. -/
namespace NonCausal

def rNx : Reply := { id := 70000, name := "686f73742e612e636f6d", qtype := 1, qclass := 1, rcode := 3, len := 40 }
def rOk : Reply := { id := 70001, name := "686f7374", qtype := 1, qclass := 1, rcode := 0, an := 1, ttls := [300], len := 40 }
def fin : ClientAct := .finish .ok 0 "rc=0,an=1,10.0.0.1/300"

def Lbad : CLog :=
  [.start 0 "search" 1 [] spec 0,
   .act 0 (.send { name := "686f73742e612e636f6d", qtype := 1 }), .ret 0,
   .cb 0 .ok 0 (some rNx) 0 0, .act 0 (.send { name := "686f7374", qtype := 1 }), .ret 0,
   .cb 0 .ok 0 (some rOk) 0 0, .act 0 fin,
     .cb 0 .ok 0 (some rOk) 0 0, .act 0 fin, .rel 0, .ret 0,      -- the same completion again, inside the user callback
   .rel 0, .ret 0]

set_option maxRecDepth 100000 in
theorem facts : (replay cfg ⟨[], 0, []⟩ Lbad).map (fun r => (r.clients.length, r.next, r.stack.length)) = some (0, 1, 0) ∧
    ¬ Causal 0 Lbad ∧ (finsOf 0 Lbad).length = 2 ∧
    (clientRun cfg 0 "search" 1 [] spec 0 (evsOf 0 Lbad)).fin.toList.length = 1 := by
  decide +kernel

end NonCausal

end Cares.C12c.Example
