import CaresProps.C19
import CaresLemmas.HTableAlloc
/-!
# C14 — any single allocation failure is survived cleanly: the container layer

Property theorems only.  The container models take an allocation oracle (`Cares.Dsa.Oracle`: which allocation
calls return NULL; `allocOk : Bool` for the array, whose operations allocate at most once).  Each theorem says,
for **every** oracle — i.e. whichever allocation fails, if any: the operation either reports success and has
its specified effect, or reports failure (`nomem` / `false`) with the abstract value unchanged; in both cases the
representation invariant holds afterwards, so the container stays usable and destroyable.

Whole-channel scenarios (`h_alloc`) are the coordinator's part of C14; see notes/C14.md.
-/
namespace Cares.C14
open Cares Cares.Dsa Cares.Generated

/-! ## `ares_array` -/
section Arr
open Cares.Dsa.Arr

/-- `ares_array_set_size`: the members are never touched (whether the reallocation succeeds, fails or is not
    needed) and the invariant holds -/
theorem arr_setSize_preserves (a : Arr) (size : Nat) (ok : Bool) (h : a.Inv) :
    (a.setSize size ok).2.Inv ∧ (a.setSize size ok).2.abs = a.abs := by
  unfold setSize
  by_cases h1 : size = 0 ∨ size < a.cnt
  · rw [if_pos h1]; exact ⟨h, rfl⟩
  · rw [if_neg h1]
    simp only
    by_cases h2 : roundSize size ≤ a.alloc
    · rw [if_pos h2]; exact ⟨h, rfl⟩
    · rw [if_neg h2]
      cases ok with
      | false => exact ⟨h, rfl⟩
      | true =>
        simp only [Bool.not_true, Bool.false_eq_true, ↓reduceIte]
        have hb := h.1
        refine ⟨⟨by simp only [List.length_append]; omega, h.2⟩, ?_⟩
        apply List.ext_getElem?
        intro i
        rw [abs_getElem?, abs_getElem?]
        by_cases hi : i < a.cnt
        · simp only [hi, ↓reduceIte]
          rw [List.getElem?_append_left (by omega)]
        · simp only [hi, ↓reduceIte]

/-- **`alloc_failure_atomic` for `ares_array_set_size`**: when the allocation fails, either the call reports
    `ARES_ENOMEM` and the array is bit-for-bit what it was, or no allocation was needed and the call behaves as if
    memory were available -/
theorem arr_setSize_alloc_failure_atomic (a : Arr) (size : Nat) :
    a.setSize size false = (.nomem, a) ∨ a.setSize size false = a.setSize size true := by
  unfold setSize
  by_cases h1 : size = 0 ∨ size < a.cnt
  · right; simp only [h1, ↓reduceIte]
  · simp only [h1, ↓reduceIte]
    by_cases h2 : roundSize size ≤ a.alloc
    · right; simp only [h2, ↓reduceIte]
    · left; simp only [h2, ↓reduceIte, Bool.not_false]

/-- **`alloc_failure_atomic` for `ares_array_insert_at`** (and the insert_first/last/…data variants built on it) -/
theorem arr_insertAt_alloc_failure_atomic (a : Arr) (idx v : Nat) :
    a.insertAt idx v false = (.nomem, a) ∨ a.insertAt idx v false = a.insertAt idx v true := by
  unfold insertAt
  by_cases hi : idx > a.cnt
  · right; simp only [hi, ↓reduceIte]
  · simp only [hi, ↓reduceIte]
    rcases arr_setSize_alloc_failure_atomic a (a.cnt + 1) with e | e
    · left; rw [e]
    · right; rw [e]

/-- failure or not, an insert leaves a well-formed array whose contents are the old ones or the old ones with
    the new member: nothing else can happen -/
theorem arr_insertAt_alloc_outcomes (a : Arr) (idx v : Nat) (ok : Bool) (h : a.Inv) (hi : idx ≤ a.cnt) :
    ((a.insertAt idx v ok).1 = .nomem ∧ (a.insertAt idx v ok).2 = a) ∨
    ((a.insertAt idx v ok).1 = .ok ∧ (a.insertAt idx v ok).2.Inv ∧ (a.insertAt idx v ok).2.abs = a.abs.insertIdx idx v) := by
  obtain ⟨a', e, i', r⟩ := Cares.C19.arr_insertAt_refines a idx v h hi
  cases ok with
  | true => right; rw [e]; exact ⟨rfl, i', r⟩
  | false =>
    rcases arr_insertAt_alloc_failure_atomic a idx v with e2 | e2
    · left; rw [e2]; exact ⟨rfl, rfl⟩
    · right; rw [e2, e]; exact ⟨rfl, i', r⟩

end Arr

/-! ## `ares_htable` -/
section HTable
open Cares.Dsa.HTable
variable {K V : Type}

/-- **`alloc_failure_atomic` for `ares_htable_expand`**: the bucket array, the llist pointer array and
    `num_collisions` llists are obtained *before* any node is moved, so for every oracle the expansion either
    completes (invariant kept, every key → value association kept, nothing lost) or reports failure with the table
    exactly as it was -/
theorem ht_expand_alloc_failure_atomic (ops : HOps K) (hl : Lawful ops) (t : HTable K V) (o : Oracle) (h : Inv ops t) :
    ((expand ops t o).1 = true ∧ Inv ops (expand ops t o).2.1 ∧ (∀ q, abs ops (expand ops t o).2.1 q = abs ops t q) ∧
        (expand ops t o).2.1.numKeys = t.numKeys) ∨
    ((expand ops t o).1 = false ∧ (expand ops t o).2.1 = t) := by
  rcases expand_any Cares.C19.ht_consts_ok ops hl t o h with ⟨e, i, p, n, _⟩ | ⟨e, u⟩
  · exact Or.inl ⟨e, i, abs_of_entries_perm ops hl t _ p i.uniq, n⟩
  · exact Or.inr ⟨e, u⟩

/-- `expand_prealloc_suffices`: with at least Σ (len − 1) pre-allocated llists (that is what `num_collisions`
    holds) the move loop never needs one more, so it cannot fail half way -/
theorem expand_prealloc_suffices (ops : HOps K) (size : Nat) (bs : List (Option (List (K × V)))) (x : XS K V)
    (hx : XInv ops size x) (hs : 0 < size) (hpre : (bs.map bcoll).sum ≤ x.pre) :
    (moveAll ops size bs x).2 = none :=
  Cares.C19.ht_expand_prealloc_suffices ops size bs x hx hs hpre

/-- **`alloc_failure_atomic` for `ares_htable_insert`**, for every oracle: the invariant holds afterwards; on
    success the key maps to the new value (all other keys unchanged); on failure *every* key maps to what it
    mapped to before and the key count is unchanged -/
theorem ht_insert_alloc_failure_atomic (ops : HOps K) (hl : Lawful ops) (t : HTable K V) (k : K) (v : V) (o : Oracle)
    (h : Inv ops t) :
    Inv ops (insert ops t k v o).2.1 ∧
      ((insert ops t k v o).1 = true →
        (∀ q, abs ops (insert ops t k v o).2.1 q = if ops.eq q k then some (k, v) else abs ops t q) ∧
        (insert ops t k v o).2.1.numKeys = (if (abs ops t k).isSome then t.numKeys else t.numKeys + 1)) ∧
      ((insert ops t k v o).1 = false →
        (∀ q, abs ops (insert ops t k v o).2.1 q = abs ops t q) ∧ (insert ops t k v o).2.1.numKeys = t.numKeys) :=
  insert_any Cares.C19.ht_consts_ok ops hl t k v o h

/-- the typed tables (`ares_htable_szvp/strvp/asvp/vpvp/vpstr/dict_insert`): the wrapper first allocates its
    bucket object (and copies of key / value); a failure there leaves the table untouched, a failure later is
    `ht_insert_alloc_failure_atomic` -/
theorem ht_wrapInsert_alloc_failure_atomic (ops : HOps K) (hl : Lawful ops) (pre : Nat) (t : HTable K V) (k : K) (v : V)
    (o : Oracle) (h : Inv ops t) :
    Inv ops (wrapInsert ops pre t k v o).2.1 ∧
      ((wrapInsert ops pre t k v o).1 = false →
        (∀ q, abs ops (wrapInsert ops pre t k v o).2.1 q = abs ops t q) ∧
        (wrapInsert ops pre t k v o).2.1.numKeys = t.numKeys) := by
  unfold wrapInsert
  cases hp : o.nextN pre with
  | mk b o1 =>
    cases b with
    | false => exact ⟨h, fun _ => ⟨fun _ => rfl, rfl⟩⟩
    | true =>
      obtain ⟨i, _, f⟩ := insert_any Cares.C19.ht_consts_ok ops hl t k v o1 h
      exact ⟨i, f⟩

end HTable

/-! ## `ares_buf` -/
section Buf
open Cares.Buf

/-- **`alloc_failure_atomic` for `ares_buf_ensure_space`**, for every oracle: the unread and the tagged bytes are
    never changed (the buffer may have been compacted, which is not observable through them), the invariant
    holds, and the only failure is `ARES_ENOMEM` -/
theorem buf_ensureSpace_alloc_failure_atomic (b : Buf) (needed : Nat) (o : Oracle) (h : b.Inv) (hc : b.isConst = false) :
    (b.ensureSpace needed o).2.1.Inv ∧ (b.ensureSpace needed o).2.1.remaining = b.remaining ∧
      (b.ensureSpace needed o).2.1.tagged = b.tagged ∧
      ((b.ensureSpace needed o).1 = .ok ∨ (b.ensureSpace needed o).1 = .nomem) ∧
      (o.AllOk → (b.ensureSpace needed o).1 = .ok) := by
  obtain ⟨p, sh, i', _, hst, _, hok, _⟩ := ensureSpace_spec Cares.C19.buf_consts_ok b needed o h hc
  exact ⟨i', sh.remaining, sh.tagged h i', hst, fun ho => (hok ho).1⟩

/-- **`alloc_failure_atomic` for `ares_buf_append`**, for every oracle: either the call reports success and the
    unread bytes are the old ones followed by the new data, or it reports `ARES_ENOMEM` and the unread bytes are
    exactly the old ones; the invariant holds in both cases -/
theorem buf_append_alloc_failure_atomic (b : Buf) (data : List Nat) (o : Oracle) (h : b.Inv) (hc : b.isConst = false)
    (hd : data ≠ []) :
    (b.append data o).2.1.Inv ∧
      (((b.append data o).1 = .ok ∧ (b.append data o).2.1.remaining = b.remaining ++ data) ∨
       ((b.append data o).1 = .nomem ∧ (b.append data o).2.1.remaining = b.remaining)) :=
  let r := Cares.C19.buf_append_queue b data o h hc hd
  ⟨r.1, r.2.1⟩

end Buf

-- non-vacuity: a failing growth of a full table leaves every key in place, and the next insert succeeds
example :
    let ops : HOps Nat := { hash := fun k => k, eq := fun a b => a == b }
    let puts := (List.range 12).map (fun i => Cares.C19.HtOp.put i (i + 100))
    let t := (Cares.C19.htRun ops (HTable.empty : HTable Nat Nat) puts).2
    let r := HTable.insert ops t 12 112 (Oracle.ok.failNth 1)
    r.1 = false ∧ r.2.1.size = 16 ∧ HTable.get ops r.2.1 3 = some (3, 103) ∧
      (HTable.insert ops r.2.1 12 112 Oracle.ok).1 = true := by
  decide +kernel

end Cares.C14
