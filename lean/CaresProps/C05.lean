import CaresLemmas.ChanSockProv
/-!
# C05 — only an authentic, matching response can answer a query or enter the cache

Property theorems over the channel model (`Cares.Chan`, `lean/CaresModel/Chan/Core.lean`): `bodyProcessAnswer` is the
model of `process_answer` (ares_process.c), `bodyProcessRead` of `read_conn_packets` + `ares_conn_read`'s source check,
`St.cacheInsert` of `ares_qcache_insert`.  `accepted` is the ghost log of every `(fd, query key, response)` that passed
all checks; `Authentic s fd key r` spells out the checks (helper lemmas: `CaresLemmas/ChanSockAnswer.lean`,
`ChanSockProv.lean`).

The procedures of the model are open-recursive (`bodyXxx go …`); statements about a single procedure are made for every
`go`, statements about whole runs for `exec fuel call s` at every fuel.
-/
namespace Cares.C05
open Cares Cares.Chan

/-! ## the acceptance decision -/

/-- **`process_answer` accepts exactly the authentic responses**: `acceptKey s fd r = some key` — the pure decision the
    model's `process_answer` implements — holds iff, in state `s`: `r` is neither empty nor garbage, `fd` is a live
    connection, the qid table maps `r.id` to `key`, `key` is a live query *assigned to connection `fd`*, type and class
    are equal, the names are equal exactly if 0x20 is on and the query went over UDP and equal up to ASCII case otherwise,
    and `ares_cookie_validate` accepts. -/
theorem accept_iff_authentic (s : St) (fd key : Nat) (r : Reply) :
    acceptKey s fd r = some key ↔ Authentic s fd key r :=
  ⟨acceptKey_authentic, acceptKey_of_authentic⟩

/-- **`accepted_authentic`** (single step).  For recursive calls that leave the log alone (i.e. for what
    `process_answer` does itself): the log grows by at most the one entry `(fd, key, r)` for the response it was given,
    and it does so only if that response is `Authentic` in the state `s` in which `process_answer` examined it. -/
theorem accepted_authentic (go : Call → St → St × Ret) (hgo : ∀ c s, (go c s).1.accepted = s.accepted)
    (fd : Nat) (r : Reply) (s : St) :
    (bodyProcessAnswer go fd r s).1.accepted = s.accepted ∨
      ∃ key, (bodyProcessAnswer go fd r s).1.accepted = s.accepted ++ [(fd, key, r)] ∧ Authentic s fd key r := by
  rw [bodyProcessAnswer_accepted go hgo]
  cases hk : acceptKey s fd r with
  | none => exact .inl (by simp)
  | some key => exact .inr ⟨key, rfl, acceptKey_authentic hk⟩

/-- … and no other procedure appends to the log -/
theorem only_process_answer_appends (go : Call → St → St × Ret) (hgo : ∀ c s, (go c s).1.accepted = s.accepted)
    (c : Call) (s : St) (hc : ∀ fd r, c ≠ .processAnswer fd r) : (execBody go c s).1.accepted = s.accepted :=
  execBody_accepted_frame go hgo c s hc

/-- **`accepted_is_append_only`** (whole runs): every procedure, run to completion with any fuel from any state, only
    extends the log -/
theorem accepted_is_append_only (fuel : Nat) (call : Call) (s : St) :
    s.accepted <+: (exec fuel call s).1.accepted :=
  (exec_AccOK fuel call s).2.1

/-- **`accepted_authentic`** (whole runs): every entry added during a run was `Authentic` in a state of the channel
    with the same configuration (the state in which `process_answer` examined it, by the two theorems above) — so in
    particular it is not empty/garbage, its question has the type and class of a query, … -/
theorem accepted_authentic_run (fuel : Nat) (call : Call) (s : St) :
    ∀ e ∈ (exec fuel call s).1.accepted.drop s.accepted.length,
      ∃ s0 : St, s0.cfg = s.cfg ∧ Authentic s0 e.1 e.2.1 e.2.2 :=
  (exec_AccOK fuel call s).2.2

/-- **The response arrived on the connection the query is currently assigned to** (true since the repair of F9:
    `process_answer` now drops a response when `query->conn != conn`) -/
theorem accepted_on_assigned_conn (go : Call → St → St × Ret) (hgo : ∀ c s, (go c s).1.accepted = s.accepted)
    (fd key : Nat) (r : Reply) (s : St)
    (h : (bodyProcessAnswer go fd r s).1.accepted = s.accepted ++ [(fd, key, r)]) :
    ∃ q c, s.query? key = some q ∧ s.conn? fd = some c ∧ q.conn = some fd := by
  rw [bodyProcessAnswer_accepted go hgo] at h
  cases hk : acceptKey s fd r with
  | none => rw [hk] at h; simp at h
  | some k =>
    rw [hk] at h
    simp only [Option.map_some, Option.toList_some, List.append_cancel_left_eq, List.cons.injEq, Prod.mk.injEq,
      true_and, and_true] at h
    subst h
    have ha := acceptKey_authentic hk
    obtain ⟨q, hq⟩ := ha.live
    obtain ⟨c, hc⟩ := ha.conn
    exact ⟨q, c, hq, hc, ha.assigned q hq⟩

/-- a response on any other connection is ignored: the state is untouched -/
theorem reply_on_other_conn_ignored (go : Call → St → St × Ret) (fd : Nat) (r : Reply) (s : St) (c : Conn)
    (id key : Nat) (q : Query) (hc : s.conn? fd = some c) (hid : s.byQid.find? (·.1 == r.id) = some (id, key))
    (hq : s.query? key = some q) (hconn : q.conn ≠ some fd) : (bodyProcessAnswer go fd r s).1 = s :=
  bodyProcessAnswer_other_conn go fd r s c id key q hc hid hq hconn

/-- a response with an id no query has, or with a different question, is ignored: the state is untouched -/
theorem unknown_id_ignored (go : Call → St → St × Ret) (fd : Nat) (r : Reply) (s : St) (c : Conn)
    (hc : s.conn? fd = some c) (hid : s.byQid.find? (·.1 == r.id) = none) : (bodyProcessAnswer go fd r s).1 = s :=
  bodyProcessAnswer_unknown_id go fd r s c hc hid

theorem wrong_question_ignored (go : Call → St → St × Ret) (fd : Nat) (r : Reply) (s : St) (c : Conn)
    (id key : Nat) (q : Query) (hc : s.conn? fd = some c) (hid : s.byQid.find? (·.1 == r.id) = some (id, key))
    (hq : s.query? key = some q) (hs : sameQuestion s.cfg q r = false) : (bodyProcessAnswer go fd r s).1 = s :=
  bodyProcessAnswer_wrong_question go fd r s c id key q hc hid hq hs

/-- the case rule of `same_questions`: with 0x20 on, a UDP query's response whose name differs only in letter case is
    *not* the same question -/
theorem case_sensitive_under_0x20 (cfg : Cfg) (q : Query) (r : Reply) (h0 : cfg.dns0x20 = true)
    (hu : q.usingTcp = false) (hn : q.name ≠ r.name) : sameQuestion cfg q r = false := by
  simp [sameQuestion, h0, hu, hn]

/-! ## the source-address check -/

/-- **`wrong_source_never_processed`**: a datagram whose source address is not the server's is taken off the socket by
    `read_conn_packets` and is gone: control passes to `read_answers` in a state `s'` that differs from `s` only in the
    socket's receive queue (and the socket-call log) — it is in no connection's in_buf, so `process_answer` never
    sees it, and `accepted`, the queries, the servers and the cache are as before. -/
theorem wrong_source_never_processed (go : Call → St → St × Ret) (fd : Nat) (s : St) (c : Conn) (v : VSock)
    (r : Reply) (rest : List Reply) (hc : s.conn? fd = some c) (hv : s.sock? fd = some v)
    (hul : c.unlinked = false) (hudp : c.tcp = false) (hf : (s.fault "recvfrom").1 = none)
    (hrx : v.rx = r :: rest) (hw : r.wrongsrc = true) :
    ∃ s', bodyProcessRead go fd s = go (.readAnswers fd) s' ∧
      s'.conns = s.conns ∧ s'.accepted = s.accepted ∧ s'.qs = s.qs ∧ s'.cache = s.cache ∧
      s'.servers = s.servers ∧ s'.requeueArr = s.requeueArr ∧
      s'.socks = s.socks.map (fun x => if x.fd == fd then { x with rx := rest } else x) :=
  bodyProcessRead_wrong_source go fd s c v r rest hc hv hul hudp hf hrx hw

/-! ## what reaches callbacks and the cache -/

/-- **`only_accepted_replies_reach_callbacks`, part 1.**  `process_answer` hands on (to `ares_requeue_query` /
    `end_query`, which hand it to the callback) only the response `r` it was given, and only after recording
    `(fd, key, r)` in `accepted` with `acceptKey s fd r = some key`: its result does not depend on how recursive calls
    behave that carry any other response, or that are made in a state whose log lacks that entry. -/
theorem process_answer_hands_on_only_accepted (go go' : Call → St → St × Ret) (fd : Nat) (r : Reply) (s : St)
    (h : ∀ cl s', (cl.rec? = none ∨
        (cl.rec? = some r ∧ ∃ key, acceptKey s fd r = some key ∧ (fd, key, r) ∈ s'.accepted)) →
      go cl s' = go' cl s') :
    bodyProcessAnswer go fd r s = bodyProcessAnswer go' fd r s :=
  bodyProcessAnswer_calls go go' fd r s h

/-- **part 2.**  Every other procedure (`ares_requeue_query`, `end_query`, the callback dispatch, …) hands on only the
    response it was itself called with (`Call.rec?`), or none. -/
theorem other_procedures_hand_on_only_their_own (go go' : Call → St → St × Ret) (c : Call) (s : St)
    (hc : ∀ fd r, c ≠ .processAnswer fd r) (hs : ∀ a b d e f g, c ≠ .sendNolock a b d e f g)
    (h : ∀ cl s', (cl.rec? = none ∨ cl.rec? = c.rec?) → go cl s' = go' cl s') :
    execBody go c s = execBody go' c s :=
  execBody_calls go go' c s hc hs h

/-- **part 3.**  `ares_send_nolock` hands on only the record of a cache entry (TTLs reduced by the time cached) … -/
theorem send_hands_on_only_cache_entries (go go' : Call → St → St × Ret) (a : Option Nat) (b d : Bool)
    (spec : ReqSpec) (ow : Owner) (re : List Nat) (s : St)
    (h : ∀ cl s', (cl.rec? = none ∨
        ∃ e ∈ s.cache, ∃ dec, cl.rec? = some { e.reply with ttls := e.reply.ttls.map (· - dec) }) →
      go cl s' = go' cl s') :
    bodySendNolock go a b d spec ow re s = bodySendNolock go' a b d spec ow re s :=
  bodySendNolock_calls go go' a b d spec ow re s h

/-- **… and `cache_provenance`**: every cache entry's record is an accepted response, in every run (whole runs, any
    fuel) starting from a state where this holds — e.g. from an empty cache. -/
theorem cache_provenance (fuel : Nat) (call : Call) (s : St)
    (h : ∀ e ∈ s.cache, ∃ fd key, (fd, key, e.reply) ∈ s.accepted) :
    ∀ e ∈ (exec fuel call s).1.cache, ∃ fd key, (fd, key, e.reply) ∈ (exec fuel call s).1.accepted :=
  exec_CacheProv fuel call s h

/-! ## non-vacuity: concrete runs (kernel-evaluated) -/

/-- two servers, default options, one observed random id -/
def s0 : St := { alive := true, servers := [{ id := 0, addr := "a" }, { id := 1, addr := "b" }], obs := { rnd2 := [7] } }
/-- after `ares_send` of one A query -/
def s1 : St := (exec 50 (.sendNolock none false false { name := "", qtype := 1 } (.user 1) []) s0).1
def goodReply : Reply := { id := 7, name := "", qtype := 1, qclass := 1, rcode := 0, an := 1, ttls := [300] }
/-- a datagram arrives on the query's socket -/
def deliver (s : St) (fd : Nat) (r : Reply) : St :=
  (exec 50 (.processRead fd) (s.modSock fd fun v => { v with rx := v.rx ++ [r] })).1

/-- the genuine response is accepted and delivered -/
example : (deliver s1 100 goodReply).accepted = [(100, 0, goodReply)] ∧ (deliver s1 100 goodReply).doneToks = [1] := by
  decide
example : acceptKey s1 100 goodReply = some 0 := by decide
/-- wrong id, wrong type, wrong source address, empty, garbage: nothing is accepted, no callback -/
example : (deliver s1 100 { goodReply with id := 8 }).accepted = [] := by decide
example : (deliver s1 100 { goodReply with qtype := 28 }).accepted = [] := by decide
example : (deliver s1 100 { goodReply with wrongsrc := true }).accepted = [] ∧
    (deliver s1 100 { goodReply with wrongsrc := true }).doneToks = [] := by decide
example : (deliver s1 100 { goodReply with empty := true }).accepted = [] := by decide

/-- the scenario of finding F9 (repaired): the query times out (`settle` is the end-of-call bookkeeping of the driver
    that files the deadline) and is re-sent on a new connection (fd 101, second server); a late response on the first connection is no longer accepted, the response on the new one is -/
def s2 : St := ((exec 50 .processTimeouts { s1.settle with now := 5000 }).1).settle
example : (s2.query? 0).map (·.conn) = some (some 101) ∧ (s2.conn? 100).isSome = true := by decide
example : (deliver s2 100 goodReply).accepted = [] ∧ (deliver s2 100 goodReply).doneToks = [] := by decide
example : (deliver s2 101 goodReply).accepted = [(101, 0, goodReply)] := by decide

end Cares.C05
