import CaresLemmas.ChanSockFrame
import CaresLemmas.ChanSockAnswer
import CaresLemmas.ChanAlignTrace
/-!
# C20 — the outcome does not depend on how the transport chops or delays bytes

Channel model (`Cares.Chan`): a TCP connection's inbound side is `VSock.stream` (absolute end offset of every message
the peer has written, 2-byte length prefix included), `VSock.spos` (bytes read so far) and `Conn.inBytes` (bytes still in
in_buf); `nextTcpFrame` is `read_answers`' "tag, fetch length, fetch message or roll back".  The outbound side is
`Conn.out` (queued frames), `Conn.outOff` (bytes of the first frame already written); `advanceOut` is what
`ares_conn_flush` does with the byte count the socket accepted, and `txs` records every whole message the virtual server
has received.  Pure list-level functions (`drain`, `feed`, `advQ`, `advSeq`; `CaresLemmas/ChanSockFrame.lean`) state
the invariance; the `…_tie` theorems connect them to the procedures of the model.
-/
namespace Cares.C20
open Cares Cares.Chan

/-! ## inbound: any segmentation of the server's byte stream -/

/-- **`read_segmentation_invariance`.**  The peer has written `stream` (well-formed: each message ends `2 + len` bytes
    after its predecessor).  Reading it in chunks of *any* sizes — one `read_answers` run (`drain`) per chunk, each run
    taking frames with `nextTcpFrame` and shrinking in_buf by `2 + len` per frame — hands to `process_answer` exactly the
    messages whose last byte lies within the bytes read so far, in stream order. -/
theorem read_segmentation_invariance (stream : List (Nat × Reply)) (h : WfStream 0 stream) (chunks : List Nat) :
    feed stream chunks 0 0 = arrived stream chunks.sum :=
  feed_arrived h chunks

/-- hence two segmentations of the same bytes (down to one byte per read) deliver the same messages in the same
    order -/
theorem read_segmentation_independent (stream : List (Nat × Reply)) (h : WfStream 0 stream) (chunks chunks' : List Nat)
    (hsum : chunks.sum = chunks'.sum) : feed stream chunks 0 0 = feed stream chunks' 0 0 :=
  feed_segmentation_independent h chunks chunks' hsum

/-- the general form, from any position reached by earlier reads: `done` are the messages already taken (they end at or
    before the consumed offset `spos - buffered`), `todo` the others; nothing complete is waiting (`Drained`, the state
    `read_answers` leaves).  What is delivered is the complete prefix of `todo`, whatever the chunk sizes. -/
theorem read_segmentation_invariance_from (stream : List (Nat × Reply)) (chunks : List Nat)
    (todo done : List (Nat × Reply)) (spos buffered : Nat) (hs : Split stream (spos - buffered) done todo)
    (hb : buffered ≤ spos) (hd : Drained spos todo) (hl : todo.length ≤ stream.length) :
    feed stream chunks spos buffered = (complete (spos + chunks.sum) (spos - buffered) todo).1 :=
  feed_spec chunks todo done spos buffered hs hb hd hl

/-- one `read_answers` run: the complete messages are delivered, the incomplete tail stays buffered -/
theorem read_answers_delivers_complete (stream : List (Nat × Reply)) (h : WfStream 0 stream) (spos : Nat) :
    drain stream spos (stream.length + 1) spos = (arrived stream spos, spos - (complete spos 0 stream).2) :=
  drain_rest h spos

/-- **tie**: the model's `read_answers` on a TCP connection takes `nextTcpFrame stream spos inBytes`, removes
    `2 + len` bytes from in_buf, calls `process_answer` with that message and loops — it computes `drain` -/
theorem read_answers_tie (go : Call → St → St × Ret) (fd : Nat) (s : St) (c : Conn) (v : VSock)
    (hc : s.conn? fd = some c) (hv : s.sock? fd = some v) (ht : c.tcp = true) :
    bodyReadAnswers go fd s =
      match nextTcpFrame v.stream v.spos c.inBytes with
      | none => go .flushRequeue s
      | some r =>
        let s := s.modConn fd fun c =>
          { c with inMsgs := c.inMsgs.drop 1, inBytes := c.inBytes - (2 + r.len) }
        let (s, st) := go (.processAnswer fd r) s
        match s.conn? fd with
        | none => go .flushRequeue s
        | some c' =>
          if c'.unlinked then go .flushRequeue s else
          if st != .ok then
            let (s, _) := go (.connError fd true st) s
            go .flushRequeue s
          else go (.readAnswers fd) s :=
  bodyReadAnswers_tcp go fd s c v hc hv ht

/-- **tie**: `read_conn_packets` on a TCP connection with data available reads one chunk of `n` bytes: `spos` and in_buf
    grow by `n`, then `read_answers` runs (`feed`'s step) -/
theorem read_conn_packets_tie (go : Call → St → St × Ret) (fd : Nat) (s : St) (c : Conn) (v : VSock)
    (hc : s.conn? fd = some c) (hv : s.sock? fd = some v) (hul : c.unlinked = false) (ht : c.tcp = true)
    (hf : (s.fault "recvfrom").1 = none) (hav : v.slen - v.spos ≠ 0) (n : Nat) (chunks : List Nat)
    (hn : (n, chunks) = match v.chunks with
      | [] => (v.slen - v.spos, [])
      | k :: r => (min k (v.slen - v.spos), r))
    (hnz : ∀ k r, v.chunks = k :: r → k ≠ 0) :
    bodyProcessRead go fd s = go (.readAnswers fd)
      ((((s.fault "recvfrom").2.slog fd "recv").modSock fd fun v => { v with chunks := chunks, spos := v.spos + n }).modConn fd
        fun c => { c with inBytes := c.inBytes + n, connected := true }) :=
  bodyProcessRead_tcp_chunk go fd s c v hc hv hul ht hf hav n chunks hn hnz

/-! ## outbound: any acceptance pattern of partial writes -/

/-- **`write_segmentation_invariance`** (model level).  Connection `fd` has frames `c.out` queued with `c.outOff` bytes of
    the first already written.  Whatever pattern `ns` of partial acceptances the socket shows (not accepting more than
    is queued), afterwards
    * the whole messages the virtual server has received (`txs`) are the old ones followed by exactly the frames
      `advQ` completes for the total `ns.sum` — by `frames_whole_in_order` a prefix of the queue, each frame once, in
      queue order, namely those whose last byte lies within the accepted bytes;
    * the connection's queue and offset are what accepting `ns.sum` bytes in one piece leaves. -/
theorem write_segmentation_invariance (fd : Nat) (ns : List Nat) (s : St) (c : Conn) (hc : s.conn? fd = some c)
    (hok : OutOk c.out c.outOff) (hle : c.outOff + ns.sum ≤ framesLen c.out) :
    (advanceSeq fd s ns).conn? fd =
        some { c with out := (advQ c.out c.outOff ns.sum).2.1, outOff := (advQ c.out c.outOff ns.sum).2.2 } ∧
      (advanceSeq fd s ns).txs.map Tx.view =
        s.txs.map Tx.view ++ (advQ c.out c.outOff ns.sum).1.map (OutFrame.view fd) :=
  advanceSeq_invariant fd ns s c hc hok hle

/-- **`frames_whole_in_order`**: the frames completed by accepting `n` bytes, followed by the frames left, are the
    queue (nothing lost, duplicated or reordered); the bytes of the completed frames plus the new offset are the old
    offset plus `n` (the bytes at the server are a prefix of the concatenation of the queued frames); the completed
    frames are exactly those whose last byte has been accepted (the next frame's last byte has not). -/
theorem frames_whole_in_order (out : List OutFrame) (off n : Nat) (hok : OutOk out off)
    (hle : off + n ≤ framesLen out) :
    (advQ out off n).1 ++ (advQ out off n).2.1 = out ∧
      framesLen (advQ out off n).1 + (advQ out off n).2.2 = off + n ∧
      framesLen (advQ out off n).1 ≤ off + n ∧
      (∀ g ∈ (advQ out off n).2.1.head?, off + n < framesLen (advQ out off n).1 + g.len) ∧
      OutOk (advQ out off n).2.1 (advQ out off n).2.2 :=
  ⟨advQ_append out off n, (advQ_bytes out off n hok hle).1, (advQ_done_iff out off n hok hle).1,
    (advQ_done_iff out off n hok hle).2, (advQ_bytes out off n hok hle).2⟩

/-- accepting `a` then `b` bytes is accepting `a + b` bytes -/
theorem partial_write_invariance (out : List OutFrame) (off : Nat) (ns : List Nat) (hok : OutOk out off)
    (hle : off + ns.sum ≤ framesLen out) : advSeq out off ns = advQ out off ns.sum :=
  advSeq_eq_advQ ns out off hok hle

/-- once the accepted total reaches the queued total every frame has arrived and the queue is empty -/
theorem all_frames_arrive (out : List OutFrame) (off : Nat) (hok : OutOk out off) :
    advQ out off (framesLen out - off) = (out, [], 0) :=
  advQ_all out off hok

/-- **tie**: `advanceOut` (the model of the consume step of `ares_conn_flush`) is `advQ` on the connection's queue and
    on the transmissions recorded -/
theorem advanceOut_tie (fuel fd : Nat) (s : St) (n : Nat) (c : Conn) (hc : s.conn? fd = some c)
    (hf : c.out.length < fuel) :
    (advanceOut fuel fd s n).conn? fd =
        some { c with out := (advQ c.out c.outOff n).2.1, outOff := (advQ c.out c.outOff n).2.2 } ∧
      (advanceOut fuel fd s n).txs.map Tx.view =
        s.txs.map Tx.view ++ (advQ c.out c.outOff n).1.map (OutFrame.view fd) :=
  advanceOut_spec fuel fd s n c hc hf

/-- **tie**: `ares_conn_flush` on a connected TCP connection whose socket accepts `n` bytes -/
theorem flush_tie (go : Call → St → St × Ret) (fd : Nat) (s : St) (c : Conn) (n : Nat)
    (hc : s.conn? fd = some c) (hout : c.out ≠ []) (ht : c.tcp = true) (hcon : c.connected = true)
    (hf : (s.fault "sendto").1 = none)
    (hacc : (tcpAccept (((s.fault "sendto").2.sock? fd).getD default) (outBytes c)).1 = some n) :
    (bodyFlush go fd s).1.txs.map Tx.view = s.txs.map Tx.view ++ (advQ c.out c.outOff n).1.map (OutFrame.view fd) ∧
      ((bodyFlush go fd s).1.conn? fd).map (fun c => (c.out, c.outOff)) = some (advQ c.out c.outOff n).2 :=
  bodyFlush_tcp_accept go fd s c n hc hout ht hcon hf hacc

/-! ## truncation and empty datagrams -/

/-- **`tc_udp_retried_over_tcp_unless_igntc`.**  An accepted response with TC set that arrived over UDP, with
    `ARES_FLAG_IGNTC` off (and not a FORMERR, which takes the EDNS-downgrade path): no recursive call is made at all —
    so nothing is delivered and nothing cached — the query (`key`) is switched to TCP and its id queued for the
    re-send that `read_answers` performs when its loop ends (`requeued_ids_are_resent`), which goes to the server's TCP
    connection (`resend_uses_tcp`). -/
theorem tc_udp_retried_over_tcp_unless_igntc (go : Call → St → St × Ret) (fd : Nat) (r : Reply) (s : St) (c : Conn)
    (key : Nat) (hc : s.conn? fd = some c) (hk : acceptKey s fd r = some key) (htc : r.tc = true)
    (hudp : c.tcp = false) (hign : s.cfg.igntc = false) (hrc : r.rcode ≠ 1) :
    ∃ s' q, bodyProcessAnswer go fd r s = (s', .ok) ∧ s.query? key = some q ∧
      s'.requeueArr = s.requeueArr ++ [(q.qid, none)] ∧
      s'.accepted = s.accepted ++ [(fd, key, r)] ∧
      (∀ q' ∈ s'.qs, q'.key = key → q'.usingTcp = true) ∧
      s'.doneToks = s.doneToks ∧ s'.cache = s.cache :=
  bodyProcessAnswer_tc go fd r s c key hc hk htc hudp hign hrc

theorem requeued_ids_are_resent (go : Call → St → St × Ret) (s : St) (qid : Nat) (srv : Option Nat)
    (rest : List (Nat × Option Nat)) (id key : Nat) (hr : s.requeueArr = (qid, srv) :: rest)
    (hf : s.byQid.find? (·.1 == qid) = some (id, key)) :
    bodyFlushRequeue go s = go .flushRequeue (go (.sendQuery srv key) { s with requeueArr := rest }).1 :=
  bodyFlushRequeue_resends go s qid srv rest id key hr hf

theorem resend_uses_tcp (s : St) (q : Query) (srv : Server) (h : q.usingTcp = true) :
    fetchConn s q srv = srv.tcpConn :=
  fetchConn_tcp s q srv h

/-- … unless truncation is ignored: then a (NOERROR) truncated response is used as it is -/
theorem tc_ignored_with_igntc (go : Call → St → St × Ret) (fd : Nat) (r : Reply) (s : St) (c : Conn) (key : Nat)
    (hc : s.conn? fd = some c) (hk : acceptKey s fd r = some key) (hign : s.cfg.igntc = true) (hrc : r.rcode = 0) :
    ∃ s', bodyProcessAnswer go fd r s = ((go (.endQuery (some c.srv) key .ok (some r)) s').1, .ok) ∧
      s'.accepted = s.accepted ++ [(fd, key, r)] :=
  bodyProcessAnswer_igntc go fd r s c key hc hk hign hrc

/-- **`zero_length_datagram_harmless`**: `process_answer` returns success and changes nothing -/
theorem zero_length_datagram_harmless (go : Call → St → St × Ret) (fd : Nat) (r : Reply) (s : St) (c : Conn)
    (hc : s.conn? fd = some c) (he : r.empty = true) : bodyProcessAnswer go fd r s = (s, .ok) :=
  bodyProcessAnswer_empty go fd r s c hc he

/-! ## non-vacuity (kernel-evaluated) -/

def m (n len : Nat) : Reply := { id := n, name := "", qtype := 1, qclass := 1, rcode := 0, len := len }
/-- three messages of 30, 12 and 50 bytes: end offsets 32, 46, 98 -/
def stream3 : List (Nat × Reply) := [(32, m 1 30), (46, m 2 12), (98, m 3 50)]
example : WfStream 0 stream3 := ⟨by decide, by decide, by decide, trivial⟩
/-- byte-by-byte, in two odd pieces, or at once: the same messages -/
example : feed stream3 (List.replicate 98 1) 0 0 = [m 1 30, m 2 12, m 3 50] := by decide
example : feed stream3 [31, 67] 0 0 = [m 1 30, m 2 12, m 3 50] := by decide
example : feed stream3 [98] 0 0 = [m 1 30, m 2 12, m 3 50] := by decide
/-- 97 of 98 bytes: the third message is still incomplete -/
example : feed stream3 [40, 57] 0 0 = [m 1 30, m 2 12] := by decide

def fr (k len : Nat) : OutFrame :=
  { len := len, key := k, qid := k, name := "", qtype := 1, qclass := 1, rd := true, edns := false, cookie := "-" }
example : OutOk [fr 1 31, fr 2 40] 0 := by
  refine ⟨?_, ?_, ?_⟩ <;> decide
example : ((advSeq [fr 1 31, fr 2 40] 0 [10, 25, 36]).1.map (·.key), (advSeq [fr 1 31, fr 2 40] 0 [10, 25, 36]).2.2) =
    ([1, 2], 0) := by decide
example : ((advSeq [fr 1 31, fr 2 40] 0 [10, 25]).1.map (·.key), (advSeq [fr 1 31, fr 2 40] 0 [10, 25]).2.2) =
    ([1], 4) := by decide

/-! model-level runs: two queries over one TCP connection (`ARES_FLAG_USEVC`) -/

def t0 : St := { alive := true, cfg := { flags := 1 }, servers := [{ id := 0, addr := "a" }], obs := { rnd2 := [7, 8] } }
def t1 : St := (exec 50 (.sendNolock none false false { name := "", qtype := 1 } (.user 1) []) t0).1
/-- both frames are queued on the (not yet connected) TCP connection -/
def t2 : St := (exec 50 (.sendNolock none false false { name := "", qtype := 1 } (.user 2) []) t1).1
def writes : Nat → St → St
  | 0, s => s
  | n + 1, s => writes n (exec 50 (.processWrite 100) s).1
def withWl (s : St) (wl : List Nat) : St := s.modSock 100 fun v => { v with wl := wl }
/-- any acceptance pattern (here: all at once; 5 + 20 + rest; byte-wise start, a would-block, then the rest): the
    server receives the same two whole messages in the same order -/
example : (writes 1 t2).txs.map Tx.view = [(100, true, 0, 7, 17), (100, true, 1, 8, 17)] := by decide
example : (writes 3 (withWl t2 [5, 20])).txs.map Tx.view = (writes 1 t2).txs.map Tx.view := by decide
example : (writes 5 (withWl t2 [1, 1, 0, 18])).txs.map Tx.view = (writes 1 t2).txs.map Tx.view := by decide
/-- after 5 + 20 of 38 bytes only the first message is complete -/
example : (writes 2 (withWl t2 [5, 20])).txs.map Tx.view = [(100, true, 0, 7, 17)] := by decide

def t3 : St := writes 1 t2
def r7 : Reply := { id := 7, name := "", qtype := 1, qclass := 1, rcode := 0, an := 1, ttls := [300], len := 30 }
def r8 : Reply := { id := 8, name := "", qtype := 1, qclass := 1, rcode := 0, an := 1, ttls := [300], len := 40 }
/-- the server answers both queries in one stream; `chunks` scripts the sizes of the client's reads -/
def withStream (s : St) (chunks : List Nat) : St :=
  s.modSock 100 fun v => { v with stream := [(32, r7), (74, r8)], slen := 74, chunks := chunks }
def reads : Nat → St → St
  | 0, s => s
  | n + 1, s => reads n (exec 50 (.processRead 100) s).1
/-- one read, two reads split inside the second message, five reads with one-byte pieces: same responses accepted in
    the same order, same callbacks -/
example : (reads 1 (withStream t3 [])).accepted = [(100, 0, r7), (100, 1, r8)] ∧
    (reads 1 (withStream t3 [])).doneToks = [1, 2] := by decide
example : (reads 2 (withStream t3 [33, 41])).accepted = (reads 1 (withStream t3 [])).accepted := by decide
example : (reads 5 (withStream t3 [1, 30, 1, 41, 1])).accepted = (reads 1 (withStream t3 [])).accepted ∧
    (reads 5 (withStream t3 [1, 30, 1, 41, 1])).doneToks = [1, 2] := by decide
/-- 31 of the first message's 32 bytes: nothing is delivered yet -/
example : (reads 1 (withStream t3 [31, 43])).accepted = [] := by decide

/-! ## whole runs: the TCP read alignment invariant and what reaches `process_answer`

`Aligned s` (`CaresLemmas/ChanAlignRun.lean`): virtual-socket descriptors are below `nextFd`, every connection has a
virtual socket, every socket's stream is well formed (`WfStream 0`, `slen` = end of the last message, `spos ≤ slen`), and
for every TCP connection that is not being closed (`unlinked = false`) the position `spos - inBytes` up to which it has
consumed its socket's stream is a message boundary (`Boundary`; equivalently it `Split`s the stream).
`execH` (`ChanAlignLog.lean`) is `exec` instrumented with the list of `(descriptor, reply)` handed to `process_answer`.
`RunH s t l` (`ChanAlignTrace.lean`): a run of completed top-level calls and environment steps from `s` to `t`, log `l`. -/

/-- the invariant holds of a fresh channel -/
theorem aligned_initially (s : St) (hc : s.conns = []) (hs : s.socks = []) : Aligned s := aligned_init s hc hs

/-- **`aligned_preserved`**: every procedure, run to completion with any fuel, keeps the alignment invariant -/
theorem aligned_preserved (fuel : Nat) (call : Call) (s : St) (h : Aligned s)
    (hf : (exec fuel call s).1.outOfFuel = false) : Aligned (exec fuel call s).1 :=
  exec_Aligned fuel call s h hf

/-- … and so does the environment: the peer appending a message to a socket's stream, and everything that leaves the
    connections and the `(fd, stream, slen, spos)` of the sockets alone (read-size scripts, EOF marks, the clock, …) -/
theorem aligned_preserved_by_environment {t t' : St} (h : Aligned t) (he : EnvStep t t') : Aligned t' :=
  aligned_env h he

/-- the consumed position of an aligned live TCP connection `Split`s its stream (the hypothesis of
    `read_segmentation_invariance_from`): what was taken lies before it, the rest follows it without gap -/
theorem aligned_position_splits_stream {s : St} (h : Aligned s) {fd : Nat} {c : Conn} {v : VSock}
    (hc : s.conn? fd = some c) (hv : s.sock? fd = some v) (ht : c.tcp = true) (hu : c.unlinked = false) :
    c.inBytes ≤ v.spos ∧ ∃ done todo, Split v.stream (v.spos - c.inBytes) done todo :=
  h.split hc hv ht hu

/-- **frame**: a completed call that is not `read_conn_packets` / `read_answers` on `fd` leaves the inbound side of a
    live connection `fd` as it was (and a connection live afterwards was live before: descriptors are not reused) -/
theorem read_position_untouched_by_other_calls (fuel : Nat) (call : Call) (s : St) (h : Aligned s) (fd : Nat)
    (hfd : fd < s.nextFd) (hcall : ¬ call.readsFd fd) (hf : (exec fuel call s).1.outOfFuel = false) {c' : Conn}
    {v' : VSock} (hc' : (exec fuel call s).1.conn? fd = some c') (hv' : (exec fuel call s).1.sock? fd = some v')
    (hu' : c'.unlinked = false) :
    ∃ c v, s.conn? fd = some c ∧ s.sock? fd = some v ∧ c.unlinked = false ∧ vflag v' = vflag v ∧ rflag c' = rflag c :=
  exec_read_frame fuel call s h fd hfd hcall hf hc' hv' hu'

/-- the instrumented executor computes `exec` (kernel-checked link between the log and the model) -/
theorem instrumented_executor_is_exec (fuel : Nat) (call : Call) (s : St) : (execH fuel call s).1 = exec fuel call s :=
  execH_fst fuel call s

/-- only the two read procedures hand anything to `process_answer`, and only for the descriptor they work on -/
theorem only_read_calls_hand_over (fuel : Nat) (call : Call) (s : St) :
    (∀ e ∈ (execH fuel call s).2, call.readsFd e.1 ∧ ∃ c, s.conn? e.1 = some c) ∧
      ((∀ fd, ¬ call.readsFd fd) → (execH fuel call s).2 = []) :=
  ⟨execH_log_mem fuel call s, execH_log_nil fuel call s⟩

/-- **one completed `read_conn_packets`** on an aligned live TCP connection (`c` on socket `v`), whatever the scripted
    read size: every reply handed to `process_answer` is for `fd`; if the connection is still live afterwards, the stream
    is unchanged, and the messages that have arrived at the new consumed position are those that had arrived at the old
    one followed by exactly the replies handed over, in order; and no complete message is left in in_buf -/
theorem read_conn_packets_hands_stream_in_order (n : Nat) (s : St) (fd : Nat) (c : Conn) (v : VSock) (hal : Aligned s)
    (hl : liveTcp s fd c v) (hf : (execH n (.processRead fd) s).1.1.outOfFuel = false) :
    (∀ e ∈ (execH n (.processRead fd) s).2, e.1 = fd) ∧
    ∀ c' v', (execH n (.processRead fd) s).1.1.conn? fd = some c' → (execH n (.processRead fd) s).1.1.sock? fd = some v' →
      c'.unlinked = false →
      c'.tcp = true ∧ v'.stream = v.stream ∧ v'.slen = v.slen ∧ v.spos ≤ v'.spos ∧
      arrived v.stream (v'.spos - c'.inBytes) =
        arrived v.stream (v.spos - c.inBytes) ++ (execH n (.processRead fd) s).2.map (·.2) ∧
      nextTcpFrame v'.stream v'.spos c'.inBytes = none :=
  processReadH_post n s fd c v hal hl hf

/-- **`read_segmentation_invariance_run`** — the whole-run version of `read_segmentation_invariance`.  Take any run from
    a fresh channel: completed top-level calls (anything but `read_answers` / `process_answer` themselves) interleaved
    with the peer writing messages and the script choosing read sizes.  For every TCP connection `fd` that is live at
    the end, the replies handed to `process_answer` on `fd` over the whole run (`logOn l fd`, in order) are exactly the
    messages of the socket's stream whose last byte lies within the `spos` bytes read so far — whatever the sizes of
    the individual reads; in particular they are a prefix of the messages the peer has written. -/
theorem read_segmentation_invariance_run {s0 t : St} {l : HLog} (hr : RunH s0 t l) (hc : s0.conns = [])
    (hs : s0.socks = []) (fd : Nat) (c : Conn) (v : VSock) (hl : liveTcp t fd c v) :
    WfStream 0 v.stream ∧ logOn l fd = arrived v.stream v.spos ∧ logOn l fd <+: v.stream.map (·.2) := by
  have inv := hr.inv (RunInv.init s0 hc hs)
  obtain ⟨hc', hv', ht, hu⟩ := hl
  have hso := inv.al.stream fd v hv'
  have hal := inv.al.aligned fd c v hc' hv' ht hu
  have h1 := inv.log fd c v ⟨hc', hv', ht, hu⟩
  have h2 : arrived v.stream (v.spos - c.inBytes) = arrived v.stream v.spos :=
    arrived_drained (x := vflag v) (y := rflag c) hso hal (inv.drained fd c v ⟨hc', hv', ht, hu⟩)
  refine ⟨hso.wf, by rw [h1, h2], ?_⟩
  rw [h1]
  exact arrived_prefix v.stream 0 _ hso.wf

/-- hence two runs — with different read sizes, different interleavings — that have read the same number of bytes of
    the same stream have handed the same replies to `process_answer`, in the same order -/
theorem read_segmentation_independent_run {s0 t s0' t' : St} {l l' : HLog} (hr : RunH s0 t l) (hr' : RunH s0' t' l')
    (hc : s0.conns = []) (hs : s0.socks = []) (hc' : s0'.conns = []) (hs' : s0'.socks = []) (fd fd' : Nat)
    (c c' : Conn) (v v' : VSock) (hl : liveTcp t fd c v) (hl' : liveTcp t' fd' c' v') (hst : v.stream = v'.stream)
    (hsp : v.spos = v'.spos) : logOn l fd = logOn l' fd' := by
  rw [(read_segmentation_invariance_run hr hc hs fd c v hl).2.1,
    (read_segmentation_invariance_run hr' hc' hs' fd' c' v' hl').2.1, hst, hsp]

/-! ### non-vacuity: the model run above as a `RunH`, read in one piece and in two pieces split inside a message -/

theorem top_send (a : Option Nat) (b d : Bool) (e : ReqSpec) (f : Owner) (g : List Nat) :
    (Call.sendNolock a b d e f g).top := ⟨(fun _ h => by cases h), (fun _ _ h => by cases h)⟩
theorem top_write (fd : Nat) : (Call.processWrite fd).top := ⟨(fun _ h => by cases h), (fun _ _ h => by cases h)⟩
theorem top_read (fd : Nat) : (Call.processRead fd).top := ⟨(fun _ h => by cases h), (fun _ _ h => by cases h)⟩

def u1 : St := (execH 50 (.sendNolock none false false { name := "", qtype := 1 } (.user 1) []) t0).1.1
def u2 : St := (execH 50 (.sendNolock none false false { name := "", qtype := 1 } (.user 2) []) u1).1.1
def u3 : St := (execH 50 (.processWrite 100) u2).1.1
/-- the server answers both queries (two `peer` steps); the script sets the read sizes (an `other` step) -/
def u4 (chunks : List Nat) : St :=
  ((u3.modSock 100 (peerWrite r7)).modSock 100 (peerWrite r8)).modSock 100 fun v => { v with chunks := chunks }
def u5 (chunks : List Nat) : St := (execH 50 (.processRead 100) (u4 chunks)).1.1
def u6 (chunks : List Nat) : St := (execH 50 (.processRead 100) (u5 chunks)).1.1

theorem u_fuel : u1.outOfFuel = false ∧ u2.outOfFuel = false ∧ u3.outOfFuel = false ∧ (u5 []).outOfFuel = false ∧
    (u5 [33, 41]).outOfFuel = false ∧ (u6 [33, 41]).outOfFuel = false := by decide

/-- the log up to the server's answers: two sends and a write (nothing is handed to `process_answer`) -/
def lg3 : HLog :=
  (([] ++ (execH 50 (.sendNolock none false false { name := "", qtype := 1 } (.user 1) []) t0).2) ++
    (execH 50 (.sendNolock none false false { name := "", qtype := 1 } (.user 2) []) u1).2) ++
    (execH 50 (.processWrite 100) u2).2

theorem run_to_u3 : RunH t0 u3 lg3 :=
  (((RunH.nil t0).call 50 _ (top_send ..) u_fuel.1).call 50 _ (top_send ..) u_fuel.2.1).call 50 _ (top_write 100)
    u_fuel.2.2.1

theorem run_to_u4 (chunks : List Nat) : RunH t0 (u4 chunks) lg3 := by
  have r1 : RunH t0 (u3.modSock 100 (peerWrite r7)) lg3 := run_to_u3.env (.peer u3 100 r7)
  have r2 : RunH t0 ((u3.modSock 100 (peerWrite r7)).modSock 100 (peerWrite r8)) lg3 := r1.env (.peer _ 100 r8)
  refine r2.env (.other _ (u4 chunks) ?_ ?_ ?_)
  · simp only [u4, chan_frame]
  · unfold u4; exact vks_modSock_id _ _ _ (fun _ => rfl)
  · simp only [u4, chan_frame]

/-- one read of everything -/
theorem run_once : RunH t0 (u5 []) (lg3 ++ (execH 50 (.processRead 100) (u4 [])).2) :=
  (run_to_u4 []).call 50 _ (top_read 100) u_fuel.2.2.2.1
/-- two reads, 33 and 41 bytes: the first ends one byte inside the second message -/
theorem run_twice : RunH t0 (u6 [33, 41])
    ((lg3 ++ (execH 50 (.processRead 100) (u4 [33, 41])).2) ++ (execH 50 (.processRead 100) (u5 [33, 41])).2) :=
  ((run_to_u4 [33, 41]).call 50 _ (top_read 100) u_fuel.2.2.2.2.1).call 50 _ (top_read 100) u_fuel.2.2.2.2.2

/-- the first read of the second run hands over the first message only, the second read the second one … -/
example : (execH 50 (.processRead 100) (u4 [33, 41])).2 = [(100, r7)] ∧
    (execH 50 (.processRead 100) (u5 [33, 41])).2 = [(100, r8)] ∧
    (execH 50 (.processRead 100) (u4 [])).2 = [(100, r7), (100, r8)] := by decide
/-- … the connection is live at the end of both runs, with all 74 bytes of the same stream read … -/
example : ((u6 [33, 41]).conn? 100).map (fun c => (c.tcp, c.unlinked, c.inBytes)) = some (true, false, 0) ∧
    ((u5 []).conn? 100).map (fun c => (c.tcp, c.unlinked, c.inBytes)) = some (true, false, 0) ∧
    ((u6 [33, 41]).sock? 100).map (fun v => (v.stream, v.spos)) = some ([(32, r7), (74, r8)], 74) ∧
    ((u5 []).sock? 100).map (fun v => (v.stream, v.spos)) = some ([(32, r7), (74, r8)], 74) := by decide
/-- … so the theorem applies to both and says what the runs show: `[r7, r8]` either way -/
example (c : Conn) (v : VSock) (h : liveTcp (u6 [33, 41]) 100 c v) :
    logOn ((lg3 ++ (execH 50 (.processRead 100) (u4 [33, 41])).2) ++ (execH 50 (.processRead 100) (u5 [33, 41])).2) 100 =
      arrived v.stream v.spos :=
  (read_segmentation_invariance_run run_twice rfl rfl 100 c v h).2.1
example : logOn ((lg3 ++ (execH 50 (.processRead 100) (u4 [33, 41])).2) ++ (execH 50 (.processRead 100) (u5 [33, 41])).2) 100 =
    [r7, r8] ∧ logOn (lg3 ++ (execH 50 (.processRead 100) (u4 [])).2) 100 = [r7, r8] ∧
    arrived [(32, r7), (74, r8)] 74 = [r7, r8] := by decide
/-- the invariant holds along the run (through the theorems, so their hypotheses are satisfiable) -/
example : Aligned (u6 [33, 41]) := (run_twice.inv (RunInv.init t0 rfl rfl)).al
example : Aligned t0 := aligned_initially t0 rfl rfl

end Cares.C20
