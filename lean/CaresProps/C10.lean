import CaresLemmas.ChanSockUdp
import CaresLemmas.ChanSockDestroyFull
import CaresProps.C01
import CaresLemmas.ChanSockGetsock
/-!
# C10 — sockets are opened, announced, used and closed in a consistent protocol

Channel model (`Cares.Chan`): `sockLog` is the ghost log of every call made through the virtual socket layer,
`(fd, "open" | "connect" | "send" | "recv" | "close")`, oldest first; `notifyLog` the log of every socket-state
notification `(fd, read, write)` made to the application; `conns` the connection table; descriptors are never reused
(`nextFd`).  The invariant `SInv` (`CaresLemmas/ChanSockProto.lean`, `ChanSockInv.lean`, `ChanSockRun.lean`) ties them
together and is preserved by every procedure of the model at every fuel; `UInv` (`ChanSockUdp.lean`) is the invariant
for `udp_max_queries`.
-/
namespace Cares.C10
open Cares Cares.Chan

/-- the invariants hold of a freshly initialised channel (no connection, empty logs) -/
theorem invariant_initially (s : St) (hc : s.conns = []) (hl : s.sockLog = []) (hn : s.notifyLog = []) :
    SInv none s :=
  SInv_init s hc hl hn

/-- … and are kept by every procedure, run to completion with any fuel (they are also kept by everything the
    driver does between calls — queueing replies, scripting faults, advancing the clock — none of which touches
    `conns`, `sockLog`, `notifyLog` or `nextFd`) -/
theorem invariant_preserved (fuel : Nat) (call : Call) (s : St) (h : SInv none s) : SInv none (exec fuel call s).1 :=
  exec_SInv none fuel call s h

/-- **`sock_protocol`.**  In every reachable state, for every descriptor, the sub-sequence of socket calls made on it
    has the form `open · (connect | send | recv)* · close?`: nothing before `open`, at most one `close`, nothing
    after it. -/
theorem sock_protocol (fuel : Nat) (call : Call) (s : St) (h : SInv none s) (fd : Nat) :
    let log := (exec fuel call s).1.sockLog
    callsOn log fd = [] ∨
      (∃ mid, callsOn log fd = "open" :: mid ∧ ∀ x ∈ mid, isIo x = true) ∨
      (∃ mid, callsOn log fd = "open" :: mid ++ ["close"] ∧ ∀ x ∈ mid, isIo x = true) := by
  have hnb := (exec_SInv none fuel call s h).notBad fd
  rcases callsOn_shape _ fd hnb with ⟨_, h1⟩ | ⟨_, h1⟩ | ⟨_, h1⟩
  · exact .inl h1
  · exact .inr (.inl h1)
  · exact .inr (.inr h1)

/-- every connection in the table has an open socket, every open socket belongs to a connection in the table, and
    connections have distinct descriptors -/
theorem conns_are_the_open_sockets (fuel : Nat) (call : Call) (s : St) (h : SInv none s) :
    let s' := (exec fuel call s).1
    (∀ c ∈ s'.conns, fdState s'.sockLog c.fd = .opened) ∧
      (∀ fd, fdState s'.sockLog fd = .opened → ∃ c ∈ s'.conns, c.fd = fd) ∧
      (s'.conns.map (·.fd)).Nodup := by
  have hi := exec_SInv none fuel call s h
  refine ⟨?_, ?_, ?_⟩
  · intro c hc
    exact hi.connOpen (ckey c) (List.mem_map_of_mem hc)
  · intro fd ho
    obtain ⟨k, hk, hfd⟩ := hi.openHasConn fd ho
    simp only [St.sview, List.mem_map] at hk
    obtain ⟨c, hc, rfl⟩ := hk
    exact ⟨c, hc, hfd⟩
  · have := hi.nodup
    simp only [St.sview, List.map_map] at this
    exact this

/-- **`notifications_alternate`.**  In every reachable state the notifications made for a descriptor form a
    well-formed stream (`NotifyOK`): no notification repeats its predecessor, `(false, false)` is never the first one
    and nothing follows it — so an fd gets `(false, false)` at most once and only after a non-zero interest. -/
theorem notifications_alternate (fuel : Nat) (call : Call) (s : St) (h : SInv none s) (fd : Nat) :
    let l := nproj (exec fuel call s).1.notifyLog fd
    (∀ i x y, l[i]? = some x → l[i + 1]? = some y → x ≠ y) ∧
      (∀ i, l[i]? = some (false, false) → 0 < i ∧ i + 1 = l.length) :=
  ((exec_SInv none fuel call s h).nOK fd).spec

/-- the connection's recorded interest is the last one announced (so the application's view is never stale) -/
theorem announced_interest_is_current (fuel : Nat) (call : Call) (s : St) (h : SInv none s) :
    ∀ c ∈ (exec fuel call s).1.conns,
      (nproj (exec fuel call s).1.notifyLog c.fd).getLast?.getD (false, false) = (c.notR, c.notW) := by
  intro c hc
  exact (exec_SInv none fuel call s h).nLast (ckey c) (List.mem_map_of_mem hc)

/-- **no call and no notification for a descriptor after its `close`**: once closed, a descriptor stays in the closed
    state (any further call would make `sock_protocol` fail) and its notification stream never grows -/
theorem nothing_after_close (fuel : Nat) (call : Call) (s : St) (h : SInv none s) (fd : Nat)
    (hcl : fdState s.sockLog fd = .closed) :
    fdState (exec fuel call s).1.sockLog fd = .closed ∧
      nproj (exec fuel call s).1.notifyLog fd = nproj s.notifyLog fd :=
  exec_closed_frozen fuel call s h fd hcl

/-- **`udp_max_respected`.**  With `udp_max_queries` set, no UDP connection ever carries more queries than the limit
    (`Conn.total` counts the queries sent on the connection): the invariant `UInv` — which also says descriptors are
    distinct and a server's `tcp_conn` is a TCP connection — is kept by every procedure at every fuel. -/
theorem udp_max_respected (fuel : Nat) (call : Call) (s : St) (h : UInv s) (hmax : s.cfg.udpMax > 0) :
    ∀ c ∈ (exec fuel call s).1.conns, c.tcp = false → c.total ≤ s.cfg.udpMax := by
  have hi := (exec_UInv fuel call s).1 h
  have hcfg : (exec fuel call s).1.cfg = s.cfg := (exec_AccOK fuel call s).1
  intro c hc ht
  have := hi.max (by rw [hcfg]; exact hmax) c hc ht
  rw [hcfg] at this; exact this

theorem udp_invariant_initially (s : St) (hc : s.conns = []) (hs : ∀ v ∈ s.servers, v.tcpConn = none) : UInv s := by
  refine ⟨?_, ?_, ?_, ?_, ?_⟩ <;> simp_all

/-! ## destruction -/

/-- **`destroy_closes_all`.**  After `ares_destroy` (run to completion: not out of fuel) no connection is left and
    every socket the library ever opened is closed.  Hypotheses on the entry state of the top-level call: the socket
    invariant `SInv`, the ownership invariant of C01 (`Cares.C01.Inv s = Wf s ∧ DebtOk none (fun _ => 0) s.sk`,
    kept by every procedure — prover-c01's `ChanWf*`), no list walk in progress (`listCopy = []`) and no half-closed
    connection (`unlinked`; by `exec_Unl` none survives a completed call).  C01's `destroy_walk_no_queries` supplies: after
    the cancel loop no connection lists a query (so closing them re-sends nothing and opens nothing) and every linked
    connection is on its server's list (so the walk over the servers' lists reaches it). -/
theorem destroy_closes_all (f : Nat) (s : St) (h : SInv none s) (hown : Cares.C01.Inv s) (hlc : s.listCopy = [])
    (hu : ∀ c ∈ s.conns, c.unlinked = false) (hf : (exec (f + 3) .destroy s).1.outOfFuel = false) :
    (exec (f + 3) .destroy s).1.conns = [] ∧
      (∀ fd, fdState (exec (f + 3) .destroy s).1.sockLog fd ≠ .opened) :=
  exec_destroy_closes_all_full f s h hown.1 hown.2 hlc hu hf

/-- the socket-level half on its own: given the two ownership facts about the state after the cancel loop -/
theorem destroy_closes_all_of_ownership (f : Nat) (s : St) (h : SInv none s)
    (hq : ∀ c ∈ (exec (f + 2) (.cancelLoop .destruction true) { s with destroying := true }).1.conns, c.queries = [])
    (hl : ∀ c ∈ (exec (f + 2) (.cancelLoop .destruction true) { s with destroying := true }).1.conns,
      c.fd ∈ ((exec (f + 2) (.cancelLoop .destruction true) { s with destroying := true }).1.sortedServers.map
        (·.conns)).flatten) :
    (exec (f + 3) .destroy s).1.conns = [] ∧
      (∀ fd, fdState (exec (f + 3) .destroy s).1.sockLog fd ≠ .opened) ∧
      (exec (f + 3) .destroy s).1.outOfFuel =
        (exec (f + 2) (.cancelLoop .destruction true) { s with destroying := true }).1.outOfFuel :=
  exec_destroy_closes_all f s h hq hl

/-- unless fuel runs out, a procedure leaves no connection half-closed (`unlinked`) that was not so before -/
theorem no_half_closed_connection_survives (fuel : Nat) (call : Call) (s : St)
    (hc : ∀ fd st, call ≠ .closeLoop fd st) (hu : ∀ c ∈ s.conns, c.unlinked = false)
    (hf : (exec fuel call s).1.outOfFuel = false) : ∀ c ∈ (exec fuel call s).1.conns, c.unlinked = false := by
  have hcl : closing call = [] := by
    cases call <;> first | rfl | exact absurd rfl (hc _ _)
  have := exec_Unl fuel call s [] (by
    rw [hcl]; intro _ c hcm hcu; rw [hu c hcm] at hcu; cases hcu)
  intro c hcm
  cases hcu : c.unlinked with
  | false => rfl
  | true => have := this hf c hcm hcu; cases this

/-- … in any case (no hypothesis beyond the invariant): whatever is left after `ares_destroy` still obeys the protocol,
    and a descriptor is open exactly if its connection is still in the table -/
theorem destroy_leaves_only_tabled_sockets (fuel : Nat) (s : St) (h : SInv none s) (fd : Nat)
    (ho : fdState (exec fuel .destroy s).1.sockLog fd = .opened) : ∃ c ∈ (exec fuel .destroy s).1.conns, c.fd = fd :=
  (conns_are_the_open_sockets fuel .destroy s h).2.1 fd ho

/-! ## `ares_getsock` / `ares_fds` -/

/-- **`getsock_set`.**  In a state satisfying the invariant, the set the driver renders after every op (`finishOp`:
    `ares_getsock`'s result, `getsock s = (getsockAll s).take 16`) is exactly the connections on the servers' lists that
    are TCP or — when the channel has active queries — any; each is an open socket with read interest, and with write
    interest iff the connection's WRITE flag is set, which is the write interest last announced. -/
theorem getsock_set (s : St) (h : SInv none s) :
    (∀ e ∈ getsockAll s, ∃ c ∈ s.conns, e = (c.fd, true, c.notW) ∧ (s.all ≠ [] ∨ c.tcp = true) ∧
        c.fd ∈ (s.sortedServers.map (·.conns)).flatten ∧ fdState s.sockLog c.fd = .opened ∧
        ((nproj s.notifyLog c.fd).getLast?.getD (false, false)).2 = e.2.2) ∧
    (∀ c ∈ s.conns, c.fd ∈ (s.sortedServers.map (·.conns)).flatten → (s.all ≠ [] ∨ c.tcp = true) →
        (c.fd, true, c.notW) ∈ getsockAll s) ∧
    getsock s = (getsockAll s).take 16 :=
  Cares.Chan.getsock_set s h

/-! ## non-vacuity: concrete runs (kernel-evaluated) -/

def s0 : St := { alive := true, cfg := { udpMax := 1 }, servers := [{ id := 0, addr := "a" }],
                 obs := { rnd2 := [7, 8] } }
def s1 : St := (exec 50 (.sendNolock none false false { name := "", qtype := 1 } (.user 1) []) s0).1
def s2 : St := (exec 50 (.sendNolock none false false { name := "", qtype := 1 } (.user 2) []) s1).1
/-- with `udp_max_queries = 1` the second query gets a socket of its own -/
example : s2.sockLog = [(100, "open"), (100, "connect"), (100, "send"), (101, "open"), (101, "connect"), (101, "send")] ∧
    s2.notifyLog = [(100, true, false), (101, true, false)] ∧ s2.conns.map (fun c => (c.fd, c.total)) = [(100, 1), (101, 1)] := by
  decide
/-- cancelling everything closes both sockets, each announced with `(false, false)` first -/
def s3 : St := (exec 100 .cancel s2).1
example : s3.conns = [] ∧ s3.notifyLog = [(100, true, false), (101, true, false), (101, false, false), (100, false, false)] ∧
    callsOn s3.sockLog 100 = ["open", "connect", "send", "close"] := by
  decide
/-- a `connect` failure is unwound: the descriptor is closed and never announced -/
def s1f : St := (exec 50 (.sendNolock none false false { name := "", qtype := 1 } (.user 1) [])
  { s0 with faults := [{ call := "connect", nth := 1, err := 111 }] }).1
example : callsOn s1f.sockLog 100 = ["open", "connect", "close"] ∧ nproj s1f.notifyLog 100 = [] := by decide
example : SInv none s0 := invariant_initially s0 rfl rfl rfl
/-- two UDP sockets with active queries: both reported, read interest only -/
example : getsock s2 = [(101, true, false), (100, true, false)] := by decide
/-- destruction closes both sockets (and the hypotheses of `destroy_closes_all_partial` hold in this run) -/
def s4 : St := (exec 100 .destroy s2).1
example : s4.conns = [] ∧ fdState s4.sockLog 100 = .closed ∧ fdState s4.sockLog 101 = .closed ∧ s4.outOfFuel = false := by
  decide
example : ∀ c ∈ (exec 99 (.cancelLoop .destruction true) { s2 with destroying := true }).1.conns, c.queries = [] := by
  decide
/-- the hypotheses of `destroy_closes_all` are satisfiable: C01's example state (one query in flight on one of two
    servers) satisfies the ownership invariant (`Cares.C01.run_inv`) and, being reached from a fresh channel, `SInv` -/
example : (exec 60 .destroy Cares.C01.Example.s1).1.conns = [] ∧
    ∀ fd, fdState (exec 60 .destroy Cares.C01.Example.s1).1.sockLog fd ≠ .opened :=
  destroy_closes_all 57 Cares.C01.Example.s1
    (invariant_preserved Cares.C01.Example.fuel Cares.C01.Example.call1 _
      (invariant_initially { Cares.C01.Example.s0 with pendingToks := Cares.C01.Example.s0.pendingToks ++ [1] } rfl rfl rfl))
    Cares.C01.Example.run_inv.1 (by decide) (by decide) (by decide)

end Cares.C10
