/-
C11 — `ares_queue_wait_empty()` reports success only when no request is outstanding, over the wait loop that
tools/gen_waitempty.py regenerates from /repo/src/lib/util/ares_threads.c on every run
(CaresModel/Generated/WaitEmpty.lean: one iteration of the timed and of the untimed branch as functions on
(status, left-by-break), plus the shape facts: loop condition = queue length, lock held around the loop, `return status`).

The loop is run over every sequence of observations (queue length seen by each evaluation of the loop condition - under
the channel lock - whether the remaining time was 0, what the condition-variable wait returned: woken, possibly
spuriously or by the notification of a queue that was empty only for a moment, or timed out):

* `wait_empty_sound`: ARES_SUCCESS is returned only when the last evaluation of the loop condition saw an empty queue;
* `wake_rechecks`: a waiter that is woken while requests are outstanding goes round again (seed C11-5 broke this);
* `timeout_has_cause`: ARES_ETIMEOUT is returned only after a wait timed out or the remaining time reached 0;
* `untimed_only_success`: without a timeout the only result is ARES_SUCCESS;
* `empty_seen_returns` / `timeout_is_reported`: completeness of the timed loop - after any number of wake-ups the first empty
  queue seen gives ARES_SUCCESS, and the first expired wait with requests outstanding gives ARES_ETIMEOUT.
-/
import CaresModel.Generated.WaitEmpty
namespace Cares.C11c
open Cares.Chan Cares.Generated.WaitEmpty

structure Obs where
  /-- queue length seen by this evaluation of the loop condition (under the channel lock) -/
  len : Nat
  /-- the remaining time computed in this iteration is 0 -/
  tmsZero : Bool
  /-- result of the condition-variable wait: .ok = woken, .timeout = timed out -/
  waitRes : Status

/-- the loop of ares_queue_wait_empty: returned status, and the queue length seen by the last evaluation of the loop
condition (`none`: still waiting when the observations end) -/
def run (timed : Bool) : Status → List Obs → Status × Option Nat
  | st, [] => (st, none)
  | st, o :: os =>
    if o.len == 0 then (st, some 0) else
    let r := if timed then timedIter st o.tmsZero o.waitRes else untimedIter st o.waitRes
    if r.2 then (r.1, some o.len) else run timed r.1 os

theorem shape_ok : condIsQueueLen = true ∧ lockedAroundLoop = true ∧ returnsStatus = true ∧ initStatus = .ok := by
  decide

theorem timed_break_not_ok (st : Status) (z : Bool) (w : Status) :
    (timedIter st z w).2 = true → (timedIter st z w).1 ≠ .ok := by
  unfold timedIter
  cases z <;> simp <;> (repeat' split) <;> simp_all

theorem untimed_break_not_ok (st w : Status) :
    (untimedIter st w).2 = true → (untimedIter st w).1 ≠ .ok := by
  unfold untimedIter
  simp <;> (repeat' split) <;> simp_all

theorem wait_empty_sound (timed : Bool) (st : Status) (obs : List Obs) (n : Nat)
    (h : run timed st obs = (.ok, some n)) : n = 0 := by
  induction obs generalizing st with
  | nil => simp [run] at h
  | cons o os ih =>
    unfold run at h
    by_cases h0 : o.len == 0
    · simp [h0] at h; omega
    · simp only [h0] at h
      cases timed with
      | true =>
        simp only [if_true] at h
        by_cases hb : (timedIter st o.tmsZero o.waitRes).2 = true
        · simp [hb] at h
          exact absurd h.1 (timed_break_not_ok _ _ _ hb)
        · simp [hb] at h
          exact ih _ h
      | false =>
        simp only [Bool.false_eq_true, ↓reduceIte] at h
        by_cases hb : (untimedIter st o.waitRes).2 = true
        · simp [hb] at h
          exact absurd h.1 (untimed_break_not_ok _ _ hb)
        · simp [hb] at h
          exact ih _ h

/-- the function as called: ARES_SUCCESS only with an empty queue at the last check under the lock -/
theorem wait_empty_sound_call (timed : Bool) (obs : List Obs) (n : Nat)
    (h : run timed initStatus obs = (.ok, some n)) : n = 0 := wait_empty_sound timed initStatus obs n h

/-- woken (notified or spuriously) with requests outstanding and time left: the waiter goes round again -/
theorem wake_rechecks (o : Obs) (os : List Obs) (h0 : o.len ≠ 0) (hz : o.tmsZero = false) (hw : o.waitRes = .ok) :
    run true .ok (o :: os) = run true .ok os := by
  have : (o.len == 0) = false := by simp [h0]
  simp [run, this, timedIter, hz, hw]

theorem timed_timeout_cause (st : Status) (z : Bool) (w : Status) (_hs : st ≠ .timeout) :
    (timedIter st z w).1 = .timeout → z = true ∨ w = .timeout := by
  unfold timedIter
  cases z <;> simp <;> (repeat' split) <;> simp_all

theorem timed_no_break_keeps (st : Status) (z : Bool) (w : Status) (_hs : st ≠ .timeout) :
    (timedIter st z w).2 = false → (timedIter st z w).1 ≠ .timeout := by
  unfold timedIter
  cases z <;> simp <;> (repeat' split) <;> simp_all

theorem timeout_has_cause (st : Status) (obs : List Obs) (x : Option Nat) (hs : st ≠ .timeout)
    (h : run true st obs = (.timeout, x)) : ∃ o ∈ obs, o.tmsZero = true ∨ o.waitRes = .timeout := by
  induction obs generalizing st with
  | nil => simp [run] at h; exact absurd h.1 hs
  | cons o os ih =>
    unfold run at h
    by_cases h0 : o.len == 0
    · simp [h0] at h; exact absurd h.1 hs
    · simp only [h0, if_true] at h
      by_cases hb : (timedIter st o.tmsZero o.waitRes).2 = true
      · simp [hb] at h
        exact ⟨o, by simp, timed_timeout_cause _ _ _ hs h.1⟩
      · simp [hb] at h
        have hk := timed_no_break_keeps st o.tmsZero o.waitRes hs (by simpa using hb)
        obtain ⟨o', ho', hc⟩ := ih _ hk h
        exact ⟨o', by simp [ho'], hc⟩

theorem untimed_keeps (st w : Status) : untimedIter st w = (st, false) := by
  unfold untimedIter; simp

theorem untimed_only_success (obs : List Obs) (x : Option Nat) (s : Status)
    (h : run false initStatus obs = (s, x)) : s = .ok := by
  have key : ∀ (st : Status) (obs : List Obs), (run false st obs).1 = st := by
    intro st obs
    induction obs generalizing st with
    | nil => simp [run]
    | cons o os ih =>
      unfold run
      by_cases h0 : o.len == 0
      · simp [h0]
      · simp [h0, untimed_keeps, ih]
  have := key initStatus obs
  rw [h] at this
  simpa [initStatus] using this

/-- "woken with requests outstanding and time left" -/
def Woken (p : Obs) : Prop := p.len ≠ 0 ∧ p.tmsZero = false ∧ p.waitRes = .ok

/-- completeness: however often the waiter was woken in between, the first evaluation of the loop condition that sees an
    empty queue ends the call with ARES_SUCCESS (the waiter is not lost, and no stale status survives the wake-ups) -/
theorem empty_seen_returns (pre : List Obs) (o : Obs) (post : List Obs)
    (hpre : ∀ p ∈ pre, Woken p) (h0 : o.len = 0) :
    run true .ok (pre ++ o :: post) = (.ok, some 0) := by
  induction pre with
  | nil => simp [run, h0]
  | cons p ps ih =>
    have hp := hpre p (by simp)
    rw [List.cons_append, wake_rechecks p _ hp.1 hp.2.1 hp.2.2]
    exact ih (fun q hq => hpre q (by simp [hq]))

/-- the timeout is honoured: the first iteration in which the remaining time is 0 or the wait timed out, with requests
    still outstanding, ends the call with ARES_ETIMEOUT — the waiter does not go round again -/
theorem timeout_is_reported (pre : List Obs) (o : Obs) (post : List Obs)
    (hpre : ∀ p ∈ pre, Woken p) (h0 : o.len ≠ 0) (hc : o.tmsZero = true ∨ o.waitRes = .timeout) :
    run true .ok (pre ++ o :: post) = (.timeout, some o.len) := by
  induction pre with
  | nil =>
    have : (o.len == 0) = false := by simp [h0]
    rcases hc with hc | hc
    · simp [run, this, timedIter, hc]
    · cases hz : o.tmsZero <;> simp [run, this, timedIter, hc, hz]
  | cons p ps ih =>
    have hp := hpre p (by simp)
    rw [List.cons_append, wake_rechecks p _ hp.1 hp.2.1 hp.2.2]
    exact ih (fun q hq => hpre q (by simp [hq]))

/-! non-vacuity: the notified-then-refilled history of seed C11-5 -/
example : run true .ok [⟨1, false, .ok⟩, ⟨1, false, .timeout⟩] = (.timeout, some 1) := by decide
example : run true .ok [⟨1, false, .ok⟩, ⟨0, false, .ok⟩] = (.ok, some 0) := by decide
example : run true .ok [⟨2, true, .ok⟩] = (.timeout, some 2) := by decide
example : run false .ok [⟨2, false, .ok⟩, ⟨1, false, .ok⟩, ⟨0, false, .ok⟩] = (.ok, some 0) := by decide
example : Woken ⟨3, false, .ok⟩ := by simp [Woken]
example : run true .ok ([⟨3, false, .ok⟩, ⟨2, false, .ok⟩] ++ ⟨1, false, .timeout⟩ :: []) = (.timeout, some 1) := by decide

end Cares.C11c
