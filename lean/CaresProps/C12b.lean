import CaresLemmas.ClientWalkRun
import CaresProps.C12
/-!
# C12b — the channel model's `search` / `gai` clients walk exactly the candidates of C12

Two independently written models overlap: model (A) `Cares.Proto.searchWalk` / `gaiWalk` (C12: candidate
list `nameList`, fold over per-candidate outcomes) and model (B), the compound-request clients of the
channel model (`Cares.Chan.clientStart` / `clientOnCb`, executed by `Chan.Core`).  `ClientWalk.clientRun`
folds (B)'s client over the completions it receives (CaresLemmas/ClientWalk.lean); the theorems below say
that the sub-requests it starts and the status it finishes with are those of (A), for every name, `ndots`,
domain list, flag setting and every vector of completions.

Side conditions (each one is needed, see "Where the models differ"):
* `Ser name`, `CfgMatches cfg c`: names/domains are byte strings (values < 256) — (B) works on their hex text
  `hex`; `cfg` carries `c`'s ndots / domains / NOSEARCH;
* no HOSTALIASES entry applies ((B) does not model the alias file);
* the name is not an `.onion` name, and for `gai` not an IPv4 literal, not a `localhost` name, and the lookup
  order reaches DNS first ((A) models only the walk over the candidates).

A completion vector that is too short: (A) reads the missing outcome as a timeout (it stops there), (B) is
still waiting.  Hence the names always agree, and (B) has finished iff the completions reach the candidate
(A) stops at.
-/
namespace Cares.C12b
open Cares.Chan Cares.Text Cares.Proto Cares.ClientWalk

/-! ## `ares_search` -/

/-- **G1 (search).**  The sub-requests the `search` client starts are `searchWalk`'s names (hex text, with
    the requested type), in order; it has finished iff the completions reach the candidate `searchWalk`
    stops at, and then with `searchWalk`'s status. -/
theorem search_client_walk (cfg : Cfg) (c : Config) (hm : CfgMatches cfg c) (name : Name) (hs : Ser name)
    (hal : lookupHostaliases c.noAliases c.aliases name = .error .enotfound)
    (honion : isOnion (hex name) = false)
    (id tok : Nat) (react : List Nat) (spec : ReqSpec) (hspec : spec.name = hex name) (fam : Nat) (evs : List Ev) :
    let run := clientRun cfg id "search" tok react spec fam evs
    let walk := searchWalk c name (evs.map searchOutcome)
    run.sent = tagNames spec.qtype walk.1 ∧
    run.fin.map (fun f => stMap f.1) = if walk.1.length ≤ evs.length then some walk.2 else none :=
  search_run cfg c hm name hs hal honion id tok react spec hspec fam evs

/-- names sent = `takeUntilStop candidates outcomes` -/
theorem search_client_sent_names (cfg : Cfg) (c : Config) (hm : CfgMatches cfg c) (name : Name) (hs : Ser name)
    (hal : lookupHostaliases c.noAliases c.aliases name = .error .enotfound)
    (honion : isOnion (hex name) = false)
    (id tok : Nat) (react : List Nat) (spec : ReqSpec) (hspec : spec.name = hex name) (fam : Nat) (evs : List Ev)
    (names : List Name) (h : nameList c name = .ok names) :
    (clientRun cfg id "search" tok react spec fam evs).sent =
      tagNames spec.qtype (takeUntilStop names (evs.map searchOutcome)) := by
  rw [(search_run cfg c hm name hs hal honion id tok react spec hspec fam evs).1,
    (C12.sent_names c name _ names h).1]

/-- final status: once the completions reach the candidate the walk stops at, the client has made the user
    callback with `searchWalk`'s status (`C12.stops_at_first_data_or_hard_error`, `C12.final_status`
    say which); before that it is still waiting -/
theorem search_client_final_status (cfg : Cfg) (c : Config) (hm : CfgMatches cfg c) (name : Name) (hs : Ser name)
    (hal : lookupHostaliases c.noAliases c.aliases name = .error .enotfound)
    (honion : isOnion (hex name) = false)
    (id tok : Nat) (react : List Nat) (spec : ReqSpec) (hspec : spec.name = hex name) (fam : Nat) (evs : List Ev)
    (names : List Name) (h : nameList c name = .ok names) :
    ((takeUntilStop names (evs.map searchOutcome)).length ≤ evs.length →
      ∃ st t dg, (clientRun cfg id "search" tok react spec fam evs).fin = some (st, t, dg) ∧
        stMap st = (searchWalk c name (evs.map searchOutcome)).2) ∧
    (evs.length < (takeUntilStop names (evs.map searchOutcome)).length →
      (clientRun cfg id "search" tok react spec fam evs).fin = none) := by
  have h2 := (search_run cfg c hm name hs hal honion id tok react spec hspec fam evs).2
  rw [(C12.sent_names c name _ names h).1] at h2
  constructor
  · intro hle
    rw [if_pos hle] at h2
    cases hf : (clientRun cfg id "search" tok react spec fam evs).fin with
    | none => rw [hf] at h2; simp at h2
    | some f =>
      rw [hf] at h2
      simp only [Option.map_some, Option.some.injEq] at h2
      exact ⟨f.1, f.2.1, f.2.2, rfl, h2⟩
  · intro hlt
    rw [if_neg (by omega)] at h2
    simpa using h2

/-- all candidates soft-fail and all completions are in: every candidate was sent and the status is
    "no data" if any candidate had none, else the last candidate's -/
theorem search_client_all_soft (cfg : Cfg) (c : Config) (hm : CfgMatches cfg c) (name : Name) (hs : Ser name)
    (hal : lookupHostaliases c.noAliases c.aliases name = .error .enotfound)
    (honion : isOnion (hex name) = false)
    (id tok : Nat) (react : List Nat) (spec : ReqSpec) (hspec : spec.name = hex name) (fam : Nat) (evs : List Ev)
    (names : List Name) (h : nameList c name = .ok names) (hall : names.length ≤ evs.length)
    (hsoft : ∀ j (hj : j < names.length), soft names[j] (outcomeAt (evs.map searchOutcome) j) = true) :
    (clientRun cfg id "search" tok react spec fam evs).sent = tagNames spec.qtype names ∧
    (clientRun cfg id "search" tok react spec fam evs).fin.map (fun f => stMap f.1) =
      some (if anyNodata names.length (evs.map searchOutcome) then Status.enodata
            else outcomeAt (evs.map searchOutcome) (names.length - 1)) := by
  have hr := search_run cfg c hm name hs hal honion id tok react spec hspec fam evs
  have hf := (C12.final_status c name (evs.map searchOutcome) names h hsoft).1
  rw [hf] at hr
  exact ⟨hr.1, by rw [hr.2, if_pos hall]⟩

/-! ## `ares_getaddrinfo` -/

/-- **G1 (gai), general form.**  Completions grouped by candidate (`famCount fam` per candidate: one for
    AF_INET / AF_INET6, two for AF_UNSPEC; `tail` is an incomplete group).  The candidate's outcome
    `grpOutcome` is judged, as `host_callback` does, when its last sub-request completes: cancellation /
    destruction of that one, else success if any sub-request delivered addresses, else "no data" for an
    empty answer, else its status. -/
theorem gai_client_walk (cfg : Cfg) (c : Config) (hm : CfgMatches cfg c) (name : Name) (hs : Ser name)
    (hal : lookupHostaliases c.noAliases c.aliases name = .error .enotfound)
    (fam : Nat) (hfam : fam = 0 ∨ fam = 2 ∨ fam = 10)
    (honion : isOnion (hex name) = false) (hlit : isV4Literal (hex name) = false)
    (hloc : isLocalhost (hex name) = false) (hdns : DnsFirst cfg)
    (id tok : Nat) (react : List Nat) (spec : ReqSpec) (hspec : spec.name = hex name)
    (grps : List (List Ev)) (tail : List Ev)
    (hlen : ∀ g ∈ grps, g.length = famCount fam) (htail : tail.length < famCount fam) :
    let run := clientRun cfg id "gai" tok react spec fam (grps.flatten ++ tail)
    let walk := gaiWalk c name (grps.map grpOutcome)
    run.sent = tagFam fam walk.1 ∧
    run.fin.map (fun f => stMap f.1) = (if walk.1.length ≤ grps.length then some walk.2 else none) :=
  let h := gai_run cfg c hm name hs hal fam hfam honion hlit hloc hdns id tok react spec hspec grps tail hlen htail
  ⟨h.1, h.2.1⟩

/-- the outcome of a candidate with one sub-request, spelled out -/
theorem grpOutcome_single (e : Ev) :
    grpOutcome [e] = stMap
      (if effSt e.st e.reply == .destruction || effSt e.st e.reply == .cancelled then effSt e.st e.reply
       else if !(evNodes e).isEmpty then .ok
       else if evNodataAns e then .nodata else effSt e.st e.reply) := by
  simp [grpOutcome, grpStatus, grpNodes, candOut]

/-- the outcome of a candidate with two sub-requests (`e1` completes first): judged at `e2`, with the
    addresses of both -/
theorem grpOutcome_pair (e1 e2 : Ev) :
    grpOutcome [e1, e2] = stMap
      (if effSt e2.st e2.reply == .destruction || effSt e2.st e2.reply == .cancelled then effSt e2.st e2.reply
       else if !(evNodes e1 ++ evNodes e2).isEmpty then .ok
       else if evNodataAns e2 then .nodata else effSt e2.st e2.reply) := by
  simp [grpOutcome, grpStatus, grpNodes, candOut]

theorem flatten_singletons (evs : List Ev) : (evs.map fun e => [e]).flatten = evs := by
  induction evs with
  | nil => rfl
  | cons e es ih => simp [ih]

theorem flatMap_single {α β : Type} (f : α → β) (l : List α) : l.flatMap (fun a => [f a]) = l.map f := by
  induction l with
  | nil => rfl
  | cons a l ih => simp [ih]

/-- **G1 (gai, single family).**  One sub-request per candidate (A for AF_INET, AAAA for AF_INET6): names
    sent = `gaiWalk`'s names = `takeUntilStop candidates outcomes`, final status = `gaiWalk`'s. -/
theorem gai_client_walk_single (cfg : Cfg) (c : Config) (hm : CfgMatches cfg c) (name : Name) (hs : Ser name)
    (hal : lookupHostaliases c.noAliases c.aliases name = .error .enotfound)
    (fam : Nat) (hfam : fam = 2 ∨ fam = 10)
    (honion : isOnion (hex name) = false) (hlit : isV4Literal (hex name) = false)
    (hloc : isLocalhost (hex name) = false) (hdns : DnsFirst cfg)
    (id tok : Nat) (react : List Nat) (spec : ReqSpec) (hspec : spec.name = hex name) (evs : List Ev)
    (names : List Name) (h : nameList c name = .ok names) :
    let os := evs.map fun e => grpOutcome [e]
    let run := clientRun cfg id "gai" tok react spec fam evs
    run.sent = tagNames (if fam = 2 then 1 else 28) (takeUntilStop names os) ∧
    run.fin.map (fun f => stMap f.1) =
      (if (takeUntilStop names os).length ≤ evs.length then some (gaiWalk c name os).2 else none) := by
  have h1 : famCount fam = 1 := by rcases hfam with rfl | rfl <;> rfl
  have hr := gai_run cfg c hm name hs hal fam (Or.inr hfam) honion hlit hloc hdns id tok react spec hspec
    (evs.map fun e => [e]) [] (by intro g hg; simp at hg; obtain ⟨e, _, rfl⟩ := hg; simp [h1]) (by simp [h1])
  simp only [List.append_nil, flatten_singletons, List.map_map, List.length_map] at hr
  have hsn := (C12.sent_names c name (evs.map (grpOutcome ∘ fun e => [e])) names h).2
  rw [hsn] at hr
  refine ⟨?_, hr.2.1⟩
  rw [hr.1]
  rcases hfam with rfl | rfl
  · exact flatMap_single (fun n => (hex n, 1)) _
  · exact flatMap_single (fun n => (hex n, 28)) _

/-- **G1 (gai, AF_UNSPEC).**  Two sub-requests (A, AAAA) per candidate, completing in any order
    (`p.1` first, `p.2` second); `tail` is at most the first completion of the next candidate. -/
theorem gai_client_walk_unspec (cfg : Cfg) (c : Config) (hm : CfgMatches cfg c) (name : Name) (hs : Ser name)
    (hal : lookupHostaliases c.noAliases c.aliases name = .error .enotfound)
    (honion : isOnion (hex name) = false) (hlit : isV4Literal (hex name) = false)
    (hloc : isLocalhost (hex name) = false) (hdns : DnsFirst cfg)
    (id tok : Nat) (react : List Nat) (spec : ReqSpec) (hspec : spec.name = hex name)
    (pairs : List (Ev × Ev)) (tail : List Ev) (htail : tail.length ≤ 1)
    (names : List Name) (h : nameList c name = .ok names) :
    let os := pairs.map fun p => grpOutcome [p.1, p.2]
    let run := clientRun cfg id "gai" tok react spec 0 ((pairs.flatMap fun p => [p.1, p.2]) ++ tail)
    run.sent = (takeUntilStop names os).flatMap (fun n => [(hex n, 1), (hex n, 28)]) ∧
    run.fin.map (fun f => stMap f.1) =
      (if (takeUntilStop names os).length ≤ pairs.length then some (gaiWalk c name os).2 else none) := by
  have hr := gai_run cfg c hm name hs hal 0 (Or.inl rfl) honion hlit hloc hdns id tok react spec hspec
    (pairs.map fun p => [p.1, p.2]) tail
    (by intro g hg; simp at hg; obtain ⟨a, b, _, rfl⟩ := hg; rfl) (by show tail.length < 2; omega)
  simp only [List.map_map, List.length_map, ← List.flatMap_def] at hr
  have hsn := (C12.sent_names c name (pairs.map (grpOutcome ∘ fun p => [p.1, p.2])) names h).2
  rw [hsn] at hr
  exact ⟨hr.1, hr.2.1⟩

/-! ## Where the models differ (inputs excluded by the side conditions; all kernel-checked)

These are differences of *scope*, not of the walk: model (A) has only the candidate list and the fold over it,
model (B) has no HOSTALIASES.  The C12 tie (`tools/props/C12.py`, `walk` stream) compares `searchWalk` /
`gaiWalk` with the real `ares_search` / `ares_getaddrinfo`; for the first two inputs below the real code
behaves as (B) does, so the tie's name generator must keep avoiding them (or (A) must grow the rule). -/

/-- RFC 7686: `ares_search` and `ares_getaddrinfo` answer `a.onion` with ENOTFOUND without sending anything
    (`ares_is_onion_domain`); `searchWalk` / `gaiWalk` send the name. -/
theorem onion_not_in_model_A :
    let n : Name := [97, 46, 111, 110, 105, 111, 110]
    clientRun {} 0 "search" 0 [] { name := hex n, qtype := 1 } 0 [] = ⟨[], some (.notfound, 0, "-")⟩ ∧
    clientRun {} 0 "gai" 0 [] { name := hex n, qtype := 1 } 2 [] = ⟨[], some (.notfound, 0, "ai=")⟩ ∧
    (searchWalk {} n []).1 = [n] ∧ (gaiWalk {} n []).1 = [n] := by
  decide +kernel

/-- RFC 6761: `ares_getaddrinfo` does not send `localhost` to DNS (with `lookups = "b"` the request ends
    with ECONNREFUSED); `gaiWalk` sends the name. -/
theorem localhost_not_in_model_A :
    let n : Name := [108, 111, 99, 97, 108, 104, 111, 115, 116]
    clientRun {} 0 "gai" 0 [] { name := "6c6f63616c686f7374", qtype := 1 } 2 [] =
      ⟨[], some (.connrefused, 0, "ai=")⟩ ∧
    hex n = "6c6f63616c686f7374" ∧ (gaiWalk {} n []).1 = [n] := by
  refine ⟨?_, by decide +kernel, by decide +kernel⟩
  refine (gai_run_eval {} 0 0 [] { name := "6c6f63616c686f7374", qtype := 1 } 2 [] rfl (by decide +kernel)
    localhost_not_literal).trans ?_
  decide +kernel

/-- HOSTALIASES: with the alias file line `host www.example.org` model (A) asks for the alias only; the
    channel model has no alias file and walks the search list. -/
theorem hostaliases_not_in_model_B :
    let c : Config := { ndots := 1, domains := [[97, 46, 99, 111, 109]], aliases := (AliasSrc.file
      [104, 111, 115, 116, 32, 119, 119, 119, 46, 101, 120, 97, 109, 112, 108, 101, 46, 111, 114, 103, 10]) }
    let cfg : Cfg := { ndots := 1, domains := ["612e636f6d"] }
    CfgMatches cfg c ∧
    (searchWalk c [104, 111, 115, 116] []).1 = [[119, 119, 119, 46, 101, 120, 97, 109, 112, 108, 101, 46, 111, 114, 103]] ∧
    (clientRun cfg 0 "search" 0 [] { name := hex [104, 111, 115, 116], qtype := 1 } 0 []).sent =
      [("686f73742e612e636f6d", 1)] := by
  refine ⟨⟨rfl, by decide, rfl, by decide⟩, by decide +kernel, by decide +kernel⟩

/-! ## Non-vacuity: `host`, ndots 1, domains `a.com b.com` -/

namespace Example
def cfg : Cfg := { ndots := 1, domains := ["612e636f6d", "622e636f6d"] }
def c : Config := { ndots := 1, domains := [[97, 46, 99, 111, 109], [98, 46, 99, 111, 109]] }
def host : Name := [104, 111, 115, 116]
/-- a completion carrying an answer with the given type, rcode and number of records -/
def rep (qt rcode an : Nat) : Ev :=
  { st := .ok, reply := some { id := 0, name := "686f7374", qtype := qt, qclass := 1, rcode := rcode, an := an } }

theorem hyps : CfgMatches cfg c ∧ Ser host ∧ hex host = "686f7374" ∧
    lookupHostaliases c.noAliases c.aliases host = .error .enotfound ∧
    isOnion (hex host) = false ∧ isLocalhost (hex host) = false ∧ isV4Literal (hex host) = false ∧
    DnsFirst cfg :=
  ⟨⟨rfl, by decide, rfl, by decide⟩, by decide, by decide, rfl, by decide +kernel, by decide +kernel,
    host_not_literal, ⟨0, [], by decide, by decide⟩⟩

/-- outcomes NXDOMAIN, NODATA, NOERROR: host.a.com, host.b.com, host are asked, in this order, result OK -/
example : clientRun cfg 0 "search" 7 [] { name := "686f7374", qtype := 1 } 0 [rep 1 3 0, rep 1 0 0, rep 1 0 1] =
    ⟨[("686f73742e612e636f6d", 1), ("686f73742e622e636f6d", 1), ("686f7374", 1)],
     some (.ok, 0, "rc=0,an=1,10.0.0.1/300")⟩ := by
  decide +kernel

example : searchWalk c host ([rep 1 3 0, rep 1 0 0, rep 1 0 1].map searchOutcome) =
    ([[104, 111, 115, 116, 46, 97, 46, 99, 111, 109], [104, 111, 115, 116, 46, 98, 46, 99, 111, 109], host], .success) := by
  decide +kernel

/-- two completions only: the third candidate has been sent and the client is waiting -/
example : clientRun cfg 0 "search" 7 [] { name := "686f7374", qtype := 1 } 0 [rep 1 3 0, rep 1 0 0] =
    ⟨[("686f73742e612e636f6d", 1), ("686f73742e622e636f6d", 1), ("686f7374", 1)], none⟩ := by
  decide +kernel

/-- all three soft (NXDOMAIN, NODATA, SERVFAIL on the single-label name): NODATA (the F21 repair) -/
example : clientRun cfg 0 "search" 7 [] { name := "686f7374", qtype := 1 } 0 [rep 1 3 0, rep 1 0 0, rep 1 2 0] =
    ⟨[("686f73742e612e636f6d", 1), ("686f73742e622e636f6d", 1), ("686f7374", 1)], some (.nodata, 0, "-")⟩ := by
  decide +kernel

/-- `ares_getaddrinfo(AF_INET)` on the same outcomes -/
example : clientRun cfg 0 "gai" 7 [] { name := "686f7374", qtype := 1 } 2 [rep 1 3 0, rep 1 0 0, rep 1 0 2] =
    ⟨[("686f73742e612e636f6d", 1), ("686f73742e622e636f6d", 1), ("686f7374", 1)],
     some (.ok, 0, "ai=10.0.0.1/300;10.0.0.2/300;name=host")⟩ := by
  refine (gai_run_eval cfg 0 7 [] { name := "686f7374", qtype := 1 } 2 _ rfl (by decide +kernel)
    host_not_literal).trans ?_
  decide +kernel

/-- AF_UNSPEC: two sub-requests per candidate; NXDOMAIN+NXDOMAIN, then AAAA data and A NODATA -/
example : clientRun cfg 0 "gai" 7 [] { name := "686f7374", qtype := 1 } 0
      [rep 1 3 0, rep 28 3 0, rep 28 0 1, rep 1 0 0] =
    ⟨[("686f73742e612e636f6d", 1), ("686f73742e612e636f6d", 28), ("686f73742e622e636f6d", 1),
      ("686f73742e622e636f6d", 28)], some (.ok, 0, "ai=2001::1/300;name=host")⟩ := by
  refine (gai_run_eval cfg 0 7 [] { name := "686f7374", qtype := 1 } 0 _ rfl (by decide +kernel)
    host_not_literal).trans ?_
  decide +kernel

end Example

end Cares.C12b
