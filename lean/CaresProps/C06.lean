import CaresLemmas.ChanPolicyWritesTop
import CaresLemmas.ChanPolicyDeadline
import CaresLemmas.ChanPolicyProgress
import CaresLemmas.ChanPolicyTxExec
import CaresLemmas.ChanPolicyCalc
/-!
# C06 — Retries are bounded, policy-conforming, and every query terminates (channel state machine)

Model: the channel model `Cares.Chan` (`bodySendQuery` = `ares_send_query`, `bodyRequeue` = `ares_requeue_query`,
`bodyProcessAnswer` = `process_answer` incl. `ares_cookie_validate`, `issue_might_be_edns`/`rewrite_without_edns`, the
truncation branch, `bodyFlushRequeue` = the deferred-requeue flush of `read_answers`, `bodyProcessTimeouts` =
`process_timeouts`).  The arithmetic of `ares_calc_query_timeout` (shift / overflow) is `CaresProps/C06a.lean`.

* `writes_bounded` — for every fuel, call and state satisfying the accounting invariant (`PreC`, see below), in the
  resulting state no query's frame has been handed to connections (`writeLog`) more than
  `max 1 (servers × tries) + 5` times: `servers × tries` counted tries, three BADCOOKIE resends, one EDNS downgrade,
  one UDP→TCP upgrade.  The invariant `CInv` (`CaresLemmas/ChanPolicyWrites*.lean`) pays every write and every
  pending deferred-requeue entry from the potential `try budget + cookie_try_count + (edns cleared) + (using_tcp)`,
  and shows `cookie_try_count ≤ 3` (a query with `using_tcp` is only attached to TCP connections and carries no
  cookie, so neither the BADCOOKIE nor the truncation branch can fire again).
  The statement relies on the F9 repair (`process_answer` drops replies that do not arrive on the query's current
  connection): on the pinned tree every duplicate truncated/BADCOOKIE reply caused one more, uncounted resend.
  *Named hypothesis* `FreshDraws` / `CInv.newObs`: the 16-bit draws offered to `generate_unique_qid` during an API
  call are pairwise distinct and distinct from the ids of live queries and pending requeue entries (otherwise a stale
  deferred-requeue entry — they are looked up by query id — can re-send a *new* query that drew the same id).
* `writes_bounded_init`, `writes_bounded_step` — the invariant holds for a fresh channel and is re-established for the
  next API call by a fresh observation; clock advances, queued replies, scripted faults do not touch it.
* `transmissions_le_writes` — per query, the transmissions the virtual server has seen never outnumber the writes
  (`TInv`: transmissions + frames still queued in out buffers ≤ writes; connection descriptors are distinct).
* `deadline_within_policy`, `jitter_within_policy` — each attempt waits at least the base timeout
  (`St.serverTimeout`) and, when a maximum is configured, at most that maximum; an observed jittered deadline outside
  the admitted interval is flagged as an observation fault by `settle`.
* `deadline_agrees_calc`, `calc_deadline_accepted` — agreement with the arithmetic model of `ares_calc_query_timeout`
  (`Proto.Timeout.calcWith` / `calcQueryTimeout`, C06a): the first pass waits exactly what `calcWith` returns; from
  the second pass on, for `timeplus < 2²³` ms, the admitted interval is exactly the set of values `calcWith` takes
  for jitter amounts up to half of `timeplus`, every 16-bit draw of the tree's function (exact binary32 jitter) lies
  in it, the draw 0 yields its upper end, and `settle` accepts such a deadline without an observation fault.
* `timeouts_make_progress` — `process_timeouts` returns with no expired entry left (unless it reports a model fault or
  runs out of fuel); each expiry re-sends with `try_count + 1 < servers × tries` or ends the query.
-/
namespace Cares.C06
open Cares.Chan

/-! ## retries are bounded -/

/-- **writes_bounded** -/
theorem writes_bounded (fuel : Nat) (c : Call) (s : St) (tr ns : Nat) (h : PreC tr ns c s) :
    let r := (exec fuel c s).1
    r.outOfFuel = false →
      r.cfg.tries = tr ∧ r.servers.length = ns ∧ ∀ k, r.writeLog.count k ≤ max 1 (ns * tr) + 5 := by
  intro r hf
  have hc := exec_c fuel c s h
  exact ⟨(CInv.cfg_eq hc hf).1, (CInv.cfg_eq hc hf).2, fun k => CInv.count_le hc hf k⟩

/-- the usual case `servers × tries ≥ 1`: at most `servers × tries + 5` -/
theorem writes_bounded' (fuel : Nat) (c : Call) (s : St) (tr ns : Nat) (h : PreC tr ns c s) (hpos : 0 < ns * tr)
    (hf : (exec fuel c s).1.outOfFuel = false) (k : Nat) :
    (exec fuel c s).1.writeLog.count k ≤ ns * tr + 5 := by
  have := (writes_bounded fuel c s tr ns h hf).2.2 k
  omega

/-- the invariant holds for a fresh channel … -/
theorem writes_bounded_init (s : St) (hq : s.qs = []) (hb : s.byQid = []) (hr : s.requeueArr = [])
    (hw : s.writeLog = []) (hc : s.conns = []) (ht : ∀ v ∈ s.servers, v.tcpConn = none)
    (hrnd : FreshDraws s.obs.rnd2) : CInv s.cfg.tries s.servers.length none none s :=
  CInv.init s hq hb hr hw hc ht hrnd

/-- … every top-level API call (any procedure other than the internal `sendQuery` / `requeue`) keeps it … -/
theorem writes_bounded_call (fuel : Nat) (c : Call) (s : St) (tr ns : Nat) (h : CInv tr ns none none s)
    (hc : (∀ a k, c ≠ .sendQuery a k) ∧ (∀ k st i r d, c ≠ .requeue k st i r d)) :
    CInv tr ns none none (exec fuel c s).1 := by
  apply exec_c
  cases c <;> first | exact h | (exfalso; first | exact hc.1 _ _ rfl | exact hc.2 _ _ _ _ _ rfl)

/-- … and a fresh observation re-establishes it for the next call -/
theorem writes_bounded_step (s : St) (o : Obs) (tr ns : Nat) (h : CInv tr ns none none s) (hrnd : FreshDraws o.rnd2)
    (hq : ∀ q ∈ s.qs, q.qid ∉ o.rnd2) (hr : ∀ e ∈ s.requeueArr, e.1 ∉ o.rnd2) :
    CInv tr ns none none { s with obs := o } :=
  CInv.newObs s o h hrnd hq hr

/-- the counters behind the bound, for a live query: the cookie resends never exceed `COOKIE_RESEND_MAX = 3`, and
    writes + pending deferred entries are paid for by the potential -/
theorem live_query_accounting (s : St) (tr ns : Nat) (h : CInv tr ns none none s) (hf : s.outOfFuel = false)
    (q : Query) (hq : q ∈ s.qs) :
    q.cookieTry ≤ 3 ∧
    s.writeLog.count q.key + (s.requeueArr.countP fun e => e.1 == q.qid) ≤
      max 1 (min (q.tryCount + 1) (ns * tr)) + q.cookieTry + (if q.edns then 0 else 1) + (if q.usingTcp then 1 else 0) := by
  rcases h with h | hok
  · rw [hf] at h; cases h
  · have := hok.acct q hq
    rw [cr1_none] at this
    refine ⟨hok.ck3 q hq, ?_⟩
    have e : potP (cproj s) q = max 1 (min (q.tryCount + 1) (ns * tr)) + q.cookieTry + (if q.edns then 0 else 1) +
        (if q.usingTcp then 1 else 0) := by
      unfold potP bud
      rw [hok.htries, hok.hnsrv]
    rw [← e]
    exact this

/-- **transmissions_le_writes**: the invariant `TInv` (transmissions + queued frames ≤ writes, per key) holds for a
    fresh channel, is kept by every procedure run, and bounds the transmissions by the writes -/
theorem transmissions_le_writes (fuel : Nat) (c : Call) (s : St) (h : TInv s) (k : Nat) :
    TInv (exec fuel c s).1 ∧
    ((exec fuel c s).1.txs.filter (·.key == k)).length ≤ (exec fuel c s).1.writeLog.count k := by
  refine ⟨exec_t fuel c s h, ?_⟩
  have := exec_tx_le_writes fuel c s h k
  have e : ∀ l : List Tx, (l.filter (·.key == k)).length = (l.map (·.key)).count k := by
    intro l
    induction l with
    | nil => rfl
    | cons t r ih =>
      simp only [List.filter_cons, List.map_cons, List.count_cons]
      by_cases ht : t.key == k
      · simp only [ht, ↓reduceIte, List.length_cons, ih]
      · simp only [ht, Bool.false_eq_true, ↓reduceIte, ih, Nat.add_zero]
  rw [e]; exact this

theorem transmissions_le_writes_init (s : St) (ht : s.txs = []) (hc : s.conns = []) : TInv s := TInv.init s ht hc

/-- together: no query is transmitted more than `servers × tries + 5` times -/
theorem transmissions_bounded (fuel : Nat) (c : Call) (s : St) (tr ns : Nat) (h : PreC tr ns c s) (ht : TInv s)
    (hf : (exec fuel c s).1.outOfFuel = false) (k : Nat) :
    ((exec fuel c s).1.txs.filter (·.key == k)).length ≤ max 1 (ns * tr) + 5 :=
  Nat.le_trans (transmissions_le_writes fuel c s ht k).2 ((writes_bounded fuel c s tr ns h hf).2.2 k)

/-! ## each attempt waits between the base timeout and the maximum -/

/-- **deadline_within_policy** (the deadline computation of `ares_send_query`, see `bodySendQuery_eq`) -/
theorem deadline_within_policy (s : St) (srvNow : Server) (tryCount : Nat) :
    (sqDeadline s srvNow tryCount).2.now = s.now ∧
    match (sqDeadline s srvNow tryCount).1 with
    | .at d => s.now + s.serverTimeout srvNow ≤ d ∧ (s.cfg.maxtimeout ≠ 0 → d ≤ s.now + s.cfg.maxtimeout)
    | .pending lo hi =>
      s.now + s.serverTimeout srvNow ≤ lo ∧ lo ≤ hi ∧ (s.cfg.maxtimeout ≠ 0 → hi ≤ s.now + s.cfg.maxtimeout)
    | .none => False :=
  Cares.Chan.deadline_within_policy s srvNow tryCount

/-- the base timeout itself: at least 250 ms unless the cap (`maxtimeout`, else 5000 ms) is lower, never above it -/
theorem base_timeout_bounds (s : St) (v : Server) :
    min 250 (timeoutCap s.cfg) ≤ s.serverTimeout v ∧ s.serverTimeout v ≤ timeoutCap s.cfg :=
  ⟨serverTimeout_ge s v, serverTimeout_le_cap s v⟩

/-- **jitter_within_policy**: `settle` takes an observed jittered deadline only from the admitted interval; otherwise
    it logs an observation fault -/
theorem jitter_within_policy (s : St) (k : Nat) (q : Query) (lo hi : Nat) (hq : s.query? k = some q)
    (hd : q.deadline = .pending lo hi) :
    (settleStep s k).obsFaults.length > s.obsFaults.length ∨
    ∃ v, lo ≤ v ∧ v ≤ hi ∧ (settleStep s k).dl? k = some (.at v) :=
  settleStep_within s k q lo hi hq hd

/-! ## termination of the timeout loop -/

/-- **timeouts_make_progress** -/
theorem timeouts_make_progress (fuel : Nat) (s : St) (hb : BT s) :
    let r := (exec fuel .processTimeouts s).1
    r.outOfFuel = false → r.modelFaults.length = s.modelFaults.length →
    BT r ∧
    (∀ k ∈ r.byTimeout, ∀ q, r.query? k = some q → expired r.now q.deadline = false) ∧
    (∀ k q, s.query? k = some q → expired s.now q.deadline = true →
      k ∉ r.byTimeout ∧ (r.query? k = none ∨ r.dl? k = some .none ∨ k ∈ r.pendingOrder)) :=
  expired_are_processed fuel s hb

/-- the measure: each processed expiry counts a try; a query is re-sent only while `try_count < servers × tries`,
    so it can expire at most `servers × tries` times before it is ended -/
theorem expiry_counts_a_try (go : Call → St → St × Ret) (key : Nat) (st : Status) (rec : Option Reply) (s : St)
    (q : Query) (hq : s.query? key = some q) :
    (∃ s' q', s'.query? key = some q' ∧ q'.tryCount = q.tryCount + 1 ∧
        q'.tryCount < s.servers.length * s.cfg.tries ∧ q'.noRetries = false ∧ q'.timeouts = q.timeouts ∧
        bodyRequeue go key st true rec false s = go (.sendQuery none key) s') ∨
    (∃ s' es, bodyRequeue go key st true rec false s = ((go (.endQuery none key es rec) s').1, .timeout)) :=
  requeue_progress go key st rec s q hq

/-! ## non-vacuity: concrete runs (kernel-evaluated) -/

def exServers : List Server := [{ id := 0, addr := "a" }]
def exSt : St :=
  { alive := true, cfg := { tries := 2, timeout := 1000 }, servers := exServers,
    obs := { rnd2 := [7, 9, 4, 11, 12, 13] } }
def exSpec : ReqSpec := { name := "6578", qtype := 1 }
def exSent : St := (exec 60 (.sendNolock none false false exSpec (.user 1) []) exSt).1.settle
def tcReply : Reply := { id := 7, name := "6578", qtype := 1, qclass := 1, rcode := 0, tc := true, len := 20 }

/-- the start state satisfies the invariant (so `writes_bounded` applies to every run from it) -/
example : CInv 2 1 none none exSt :=
  CInv.init exSt rfl rfl rfl rfl rfl (by decide) (by unfold FreshDraws; decide)

/-- nine copies of a truncated reply, read in one wake-up: one TCP resend, the other eight replies are dropped
    (the query is no longer attached to the UDP connection).  On the pinned tree this run wrote the frame ten
    times — more than `servers × tries + 5 = 7`. -/
example :
    let r := (exec 200 (.processRead 100)
      (exSent.modSock 100 fun v => { v with rx := List.replicate 9 tcReply })).1
    r.writeLog = [0, 0] ∧ r.outOfFuel = false ∧ r.modelFaults = [] ∧
    r.qs.map (fun q => (q.tryCount, q.usingTcp, q.conn)) = [(0, true, some 101)] := by decide

/-- EDNS downgrade followed by the TCP upgrade: two non-counting resends, `try_count` still 0 -/
example :
    let s1 := (exec 60 (.sendNolock none false false { exSpec with edns := true } (.user 1) []) exSt).1.settle
    let formerr : Reply := { id := 7, name := "6578", qtype := 1, qclass := 1, rcode := 1, len := 20 }
    let s2 := (exec 200 (.processRead 100) (s1.modSock 100 fun v => { v with rx := [formerr] })).1.settle
    let s3 := (exec 200 (.processRead 100) (s2.modSock 100 fun v => { v with rx := [tcReply] })).1.settle
    s3.writeLog = [0, 0, 0] ∧ s3.qs.map (fun q => (q.edns, q.usingTcp, q.tryCount)) = [(false, true, 0)] ∧
    s3.outOfFuel = false ∧ s3.modelFaults = [] := by decide

/-- the start state satisfies `TInv`; after the send one transmission for one write -/
example : TInv exSt := TInv.init exSt rfl rfl
example : exSent.txs.map (·.key) = [0] ∧ exSent.writeLog = [0] := by decide

/-- the deadline of the first attempt is exactly `now + timeout`; with `try_count = 1` and one server it is jittered
    inside `[now + 1000, now + 2000]` -/
example : (sqDeadline exSt exServers.head! 0).1 = .at 1000 ∧
    (sqDeadline exSt exServers.head! 1).1 = .pending 1000 2000 := by decide

/-! ## agreement with the arithmetic model of `ares_calc_query_timeout` (C06a) -/

open Cares.Proto.Timeout Cares.Generated.Proto in
/-- **deadline_agrees_calc.**  `T` = the base timeout of the server (`ares_metrics_server_timeout`), `n` = number of
    servers (positive: a server was chosen), `tp` = the channel model's doubled and capped `timeplus`.
    * First pass (`try_count < n`): the deadline is exactly `now + calcWith …`, whatever the shift flavour and jitter.
    * Later passes, **for `tp < 2²³` ms**: the deadline is `.pending (now + lo) (now + hi)` with `lo = max T (tp − tp/2)`,
      `hi = max T tp`, and
      (i) for every 16-bit draw `r` the value `calcQueryTimeout T maxtimeout try_count n r` of the tree under check
          (guarded shift, exact binary32 jitter) lies in `[lo, hi]`;
      (ii) the draw `0` yields `hi`;
      (iii) `[lo, hi]` is exactly the set of values of `calcWith` over the jitter amounts `d ≤ tp/2`.
    The bound is needed for (i): for larger `tp` the binary32 roundings can take away one unit more than `tp/2`
    (C06a's `jitterOk` allows `tp/2 + tp/2²⁴ + tp/2⁴⁹`); the values before the jitter agree as long as `tp ≤ 2⁶³ − 1`
    (`preJitter_eq_chan`). -/
theorem deadline_agrees_calc (s : St) (srvNow : Server) (tryCount : Nat) (hn : 0 < s.servers.length) :
    let T := s.serverTimeout srvNow
    let n := s.servers.length
    let mx := s.cfg.maxtimeout
    let tp := chanTimeplus T mx (tryCount / n)
    (tryCount / n = 0 → ∀ g jit,
      (sqDeadline s srvNow tryCount).1 = .at (s.now + (calcWith g jit T mx tryCount n).timeplus)) ∧
    (0 < tryCount / n → tp < 2 ^ 23 →
      (sqDeadline s srvNow tryCount).1 = .pending (s.now + chanLo T tp) (s.now + chanHi T tp) ∧
      (∀ r, r ≤ USHRT_MAX →
        chanLo T tp ≤ (calcQueryTimeout T mx tryCount n r).timeplus ∧
        (calcQueryTimeout T mx tryCount n r).timeplus ≤ chanHi T tp) ∧
      (calcQueryTimeout T mx tryCount n 0).timeplus = chanHi T tp ∧
      (∀ v, (chanLo T tp ≤ v ∧ v ≤ chanHi T tp) ↔
        ∃ d, d ≤ tp / 2 ∧ (calcWith true (fun _ => d) T mx tryCount n).timeplus = v)) := by
  intro T n mx tp
  have hT : 0 < T := by
    have h1 := serverTimeout_ge s srvNow
    have h2 : 0 < timeoutCap s.cfg := by
      unfold timeoutCap
      split
      · rename_i h
        have : s.cfg.maxtimeout ≠ 0 := by simpa using h
        omega
      · omega
    show 0 < s.serverTimeout srvNow
    omega
  have hcapT : mx ≠ 0 → T ≤ mx := by
    intro hm
    have := serverTimeout_le_cap s srvNow
    unfold timeoutCap at this
    rw [if_pos (by simpa using hm)] at this
    exact this
  constructor
  · intro hr g jit
    obtain ⟨h1, h2⟩ := calcWith_first_pass g jit T mx tryCount n hn hr hcapT
    have hr' : tryCount / s.servers.length = 0 := hr
    rw [sqDeadline_eq, if_neg (show ¬ tryCount / s.servers.length > 0 by omega), h1]
    show Deadline.at (s.now + max (chanTimeplus T mx (tryCount / n)) T) = _
    rw [h2]
  · intro hr htp
    have e3 : (2 : Nat) ^ 23 = 8388608 := by decide
    have hfit : chanTimeplus T mx (tryCount / n) ≤ MAX_TIMEPLUS := by
      rw [max_timeplus_val]
      have : tp < 8388608 := by rw [← e3]; exact htp
      show tp ≤ _
      omega
    have hg : (CALC_SHIFT_GUARDED == 1) = true := by decide
    have hval : ∀ jit : Nat → Nat, jit tp ≤ tp / 2 →
        (calcWith true jit T mx tryCount n).timeplus = max T (tp - jit tp) := by
      intro jit hj
      exact calcWith_jittered jit T mx tryCount n hn hT hr hfit (Nat.le_trans hj (Nat.div_le_self _ _))
    refine ⟨?_, ?_, ?_, ?_⟩
    · rw [sqDeadline_eq, if_pos hr]
    · intro r hr16
      have hj : jitterExact tp r ≤ tp / 2 := jitterExact_le_half tp r hr16 htp
      have e : (calcQueryTimeout T mx tryCount n r).timeplus = max T (tp - jitterExact tp r) := by
        unfold calcQueryTimeout; rw [hg]; exact hval _ hj
      rw [e]
      exact (chan_interval_iff T tp _).2 ⟨_, hj, rfl⟩
    · have e : (calcQueryTimeout T mx tryCount n 0).timeplus = max T (tp - jitterExact tp 0) := by
        unfold calcQueryTimeout; rw [hg]; exact hval _ (by rw [jitterExact_zero]; exact Nat.zero_le _)
      rw [e, jitterExact_zero]
      rfl
    · intro v
      rw [chan_interval_iff]
      constructor
      · rintro ⟨d, hd, rfl⟩
        exact ⟨d, hd, hval (fun _ => d) hd⟩
      · rintro ⟨d, hd, rfl⟩
        exact ⟨d, hd, hval (fun _ => d) hd⟩

open Cares.Proto.Timeout Cares.Generated.Proto in
/-- **calc_deadline_accepted**: a query whose jittered deadline was set by `sqDeadline` and for which the observation
    reports the remaining time `calcQueryTimeout …` of *some* 16-bit draw is settled to exactly that deadline, and
    `settle` logs no observation fault (converse direction of `jitter_within_policy`) -/
theorem calc_deadline_accepted (s0 : St) (srvNow : Server) (tryCount : Nat) (hn : 0 < s0.servers.length)
    (hr : 0 < tryCount / s0.servers.length)
    (htp : chanTimeplus (s0.serverTimeout srvNow) s0.cfg.maxtimeout (tryCount / s0.servers.length) < 2 ^ 23)
    (s : St) (k : Nat) (q : Query) (hq : s.query? k = some q) (hnow : s.now = s0.now)
    (hd : q.deadline = (sqDeadline s0 srvNow tryCount).1)
    (r id : Nat) (hr16 : r ≤ USHRT_MAX)
    (ho : s.obs.dls.find? (·.1 == q.qid) = some (id,
      ((calcQueryTimeout (s0.serverTimeout srvNow) s0.cfg.maxtimeout tryCount s0.servers.length r).timeplus : Int))) :
    (settleStep s k).obsFaults = s.obsFaults ∧
    (settleStep s k).dl? k = some (.at (s.now +
      (calcQueryTimeout (s0.serverTimeout srvNow) s0.cfg.maxtimeout tryCount s0.servers.length r).timeplus)) := by
  obtain ⟨hpend, hin, _, _⟩ := (deadline_agrees_calc s0 srvNow tryCount hn).2 hr htp
  rw [hpend] at hd
  have hv : (Int.ofNat s.now + ((calcQueryTimeout (s0.serverTimeout srvNow) s0.cfg.maxtimeout tryCount
      s0.servers.length r).timeplus : Int)).toNat =
      s.now + (calcQueryTimeout (s0.serverTimeout srvNow) s0.cfg.maxtimeout tryCount s0.servers.length r).timeplus := by
    show ((s.now : Int) + _).toNat = _
    omega
  have := settleStep_accepts s k q _ _ id _ hq hd ho
    (by rw [hv, hnow]; exact Nat.add_le_add_left (hin r hr16).1 _)
    (by rw [hv, hnow]; exact Nat.add_le_add_left (hin r hr16).2 _)
  rw [hv] at this
  exact this

open Cares.Proto.Timeout in
/-- non-vacuity: second pass with one server, base 1000 ms: the interval is `[1000, 2000]`; the draws 0, 65535 and
    12345 of the tree's function give 2000 (upper end), 1000 (lower end) and a value in between; at `tp = 2²³ − 1` the
    extreme draw still takes away exactly `⌊tp/2⌋` -/
example : (sqDeadline exSt exServers.head! 1).1 = .pending (exSt.now + chanLo 1000 2000) (exSt.now + chanHi 1000 2000) ∧
    chanLo 1000 2000 = 1000 ∧ chanHi 1000 2000 = 2000 ∧ chanTimeplus 1000 0 1 = 2000 ∧
    (calcQueryTimeout 1000 0 1 1 0).timeplus = 2000 ∧ (calcQueryTimeout 1000 0 1 1 65535).timeplus = 1000 ∧
    (calcQueryTimeout 1000 0 1 1 12345).timeplus = 1812 ∧
    jitterExact (2 ^ 23 - 1) 65535 = (2 ^ 23 - 1) / 2 := by decide +kernel

end Cares.C06
