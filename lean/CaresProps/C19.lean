import CaresLemmas.ArrRefine
/-!
# C19 — internal containers behave as their abstract data types

Property theorems only (helper lemmas live in `CaresLemmas`).  Part 1: `ares_array`.

The array model (`Cares.Dsa.Arr`) follows `ares_array.c` field by field (`mem/cnt/off`, the bounds
checks of `ares_array_move`, the growth policy).  The theorems say: for every reachable array the
observable sequence `abs` behaves exactly like `List` under insertion and removal at any index, and an
insertion at a legal index never fails once memory is available ("stays usable after any removal
pattern").
-/
namespace Cares.C19
open Cares.Dsa Cares.Dsa.Arr

/-- insertion at any legal index refines `List.insertIdx`, keeps the invariant, and cannot fail when
    allocation succeeds -/
theorem arr_insertAt_refines (a : Arr) (idx v : Nat) (h : a.Inv) (hi : idx ≤ a.cnt) :
    ∃ a', a.insertAt idx v true = (.ok, a') ∧ a'.Inv ∧ a'.abs = a.abs.insertIdx idx v := by
  have hInv := h
  have hz0 := h.2
  have h := h.1
  obtain ⟨a1, e1, c1, o1, l1, s1, m1⟩ := setSize_ok a (a.cnt + 1) hInv (by omega) (by omega)
  unfold insertAt
  simp only [show ¬ idx > a.cnt by omega, ↓reduceIte, e1]
  have hInv1 : a1.Inv := ⟨by omega, by omega⟩
  -- stage 2: shift to the front if there is no room at the end
  have st2 : ∃ a2, (if a1.cnt + 1 + a1.off > a1.alloc then
        (a1.move 0 a1.off).map (fun b => { b with off := 0 }) else some a1) = some a2 ∧
      a2.cnt = a.cnt ∧ a2.off + a2.cnt + 1 ≤ a2.mem.length ∧
      ∀ i, i < a.cnt → a2.mem[a2.off + i]? = a.mem[a.off + i]? := by
    by_cases hroom : a1.cnt + 1 + a1.off > a1.alloc
    · simp only [hroom, ↓reduceIte]
      by_cases hz : a1.cnt = 0
      · -- an empty array has offset 0 (reset-on-empty), so there is always room
        exfalso
        have := hz0 (by omega)
        unfold alloc at hroom; omega
      · obtain ⟨b, eb, cb, ob, lb, mb⟩ := move_front a1 hInv1 (by omega)
        refine ⟨{ b with off := 0 }, by simp [eb], by simp [cb, c1], ?_, ?_⟩
        · simp only []; unfold alloc at hroom; omega
        · intro i hlt
          simp only [Nat.zero_add]
          rw [mb i (by omega), o1, m1 _ (by omega)]
    · simp only [hroom, ↓reduceIte]
      refine ⟨a1, rfl, c1, ?_, ?_⟩
      · unfold alloc at hroom; omega
      · intro i hlt; rw [o1, m1 _ (by omega)]
  obtain ⟨a2, e2, c2, r2, m2⟩ := st2
  simp only [e2]
  -- stage 3: open the gap
  have st3 : ∃ a3, (if idx ≠ a2.cnt then a2.move (idx + a2.off + 1) (idx + a2.off) else some a2) = some a3 ∧
      a3.cnt = a.cnt ∧ a3.off + a3.cnt + 1 ≤ a3.mem.length ∧
      (∀ i, i < idx → a3.mem[a3.off + i]? = a.mem[a.off + i]?) ∧
      (∀ i, idx < i → i ≤ a.cnt → a3.mem[a3.off + i]? = a.mem[a.off + i - 1]?) := by
    by_cases hne : idx ≠ a2.cnt
    · rw [if_pos hne]
      obtain ⟨b, eb, cb, ob, lb, p1, p2⟩ := move_gap a2 idx r2 (by omega)
      refine ⟨b, eb, by omega, by omega, ?_, ?_⟩
      · intro i hlt; rw [ob, p1 i hlt, m2 i (by omega)]
      · intro i h1 hle
        rw [ob, p2 i h1 (by omega)]
        have := m2 (i - 1) (by omega)
        rw [show a2.off + (i - 1) = a2.off + i - 1 by omega, show a.off + (i - 1) = a.off + i - 1 by omega] at this
        exact this
    · rw [if_neg hne]
      refine ⟨a2, rfl, c2, r2, ?_, ?_⟩
      · intro i hlt; exact m2 i (by omega)
      · intro i h1 hle; omega
  obtain ⟨a3, e3, c3, r3, p1, p2⟩ := st3
  simp only [e3]
  refine ⟨_, rfl, ?_, ?_⟩
  · refine ⟨?_, ?_⟩ <;> simp only [List.length_set] <;> omega
  · apply List.ext_getElem?
    intro i
    rw [abs_getElem?, List.getElem?_insertIdx]
    simp only [List.getElem?_set, abs_getElem?]
    by_cases hlt : i < idx
    · have : ¬ (idx + a3.off = a3.off + i) := by omega
      simp only [hlt, ↓reduceIte, this, show i < a3.cnt + 1 by omega, show i < a.cnt by omega]
      exact p1 i hlt
    · by_cases heq : i = idx
      · subst heq
        have hl : i + a3.off < a3.mem.length := by omega
        have hl' : a3.off + i < a3.mem.length := by omega
        have hal : i ≤ a.abs.length := by rw [abs_length a hInv]; exact hi
        simp [show i + a3.off = a3.off + i by omega, show i < a3.cnt + 1 by omega, hl', hal]
      · have hne : ¬ (idx + a3.off = a3.off + i) := by omega
        simp only [hlt, heq, hne, ↓reduceIte]
        by_cases hin : i < a3.cnt + 1
        · simp only [hin, ↓reduceIte, show i - 1 < a.cnt by omega]
          rw [p2 i (by omega) (by omega)]
          congr 1; omega
        · simp only [hin, ↓reduceIte, show ¬ (i - 1 < a.cnt) by omega]

/-- removal at any valid index refines `List.eraseIdx` and keeps the invariant -/
theorem arr_claimAt_refines (a : Arr) (idx : Nat) (h : a.Inv) (hi : idx < a.cnt) :
    ∃ a', a.claimAt idx = (.ok, a') ∧ a'.Inv ∧ a'.abs = a.abs.eraseIdx idx := by
  have hb := h.1
  unfold claimAt
  simp only [show ¬ idx ≥ a.cnt by omega, ↓reduceIte]
  -- the intermediate array `b` (before the count is decremented)
  have st : ∃ b, (if idx = 0 then some { a with off := a.off + 1 }
        else if idx ≠ a.cnt - 1 then a.move (idx + a.off) (idx + a.off + 1) else some a) = some b ∧
      b.cnt = a.cnt ∧ b.off + b.cnt ≤ b.mem.length + (if idx = 0 then 1 else 0) ∧
      (∀ i, i < idx → b.mem[b.off + i]? = a.mem[a.off + i]?) ∧
      (∀ i, idx ≤ i → i + 1 < a.cnt → b.mem[b.off + i]? = a.mem[a.off + i + 1]?) := by
    by_cases h0 : idx = 0
    · subst h0
      simp only [↓reduceIte]
      refine ⟨_, rfl, rfl, by simp only []; omega, ?_, ?_⟩
      · intro i hlt; omega
      · intro i _ _; simp only []; congr 1; omega
    · simp only [h0, ↓reduceIte]
      by_cases hl : idx ≠ a.cnt - 1
      · rw [if_pos hl]
        obtain ⟨b, eb, cb, ob, lb, p1, p2⟩ := move_close a idx h (by omega)
        refine ⟨b, eb, cb, by omega, ?_, ?_⟩
        · intro i hlt; rw [ob]; exact p1 i hlt
        · intro i h1 h2; rw [ob]; exact p2 i h1 h2
      · rw [if_neg hl]
        refine ⟨a, rfl, rfl, by omega, fun _ _ => rfl, ?_⟩
        intro i h1 h2; omega
  obtain ⟨b, eb, cb, rb, p1, p2⟩ := st
  simp only [eb]
  have habs : ∀ (c : Arr), c.mem = b.mem → c.cnt = b.cnt - 1 → (c.cnt ≠ 0 → c.off = b.off) →
      c.abs = a.abs.eraseIdx idx := by
    intro c hm hc ho
    apply List.ext_getElem?
    intro i
    rw [abs_getElem?, List.getElem?_eraseIdx, hm]
    by_cases hin : i < c.cnt
    · have ho' := ho (by omega)
      simp only [hin, ↓reduceIte, abs_getElem?, ho']
      by_cases hlt : i < idx
      · simp only [hlt, ↓reduceIte, show i < a.cnt by omega]; exact p1 i hlt
      · simp only [hlt, ↓reduceIte, show i + 1 < a.cnt by omega]
        rw [p2 i (by omega) (by omega), Nat.add_assoc]
    · simp only [hin, ↓reduceIte, abs_getElem?]
      by_cases hlt : i < idx
      · omega
      · simp only [hlt, ↓reduceIte, show ¬ (i + 1 < a.cnt) by omega]
  by_cases hz : b.cnt - 1 = 0
  · simp only [hz, ↓reduceIte]
    refine ⟨_, rfl, ⟨by simp, by simp⟩, habs _ rfl (by simp only []; omega) (by simp)⟩
  · simp only [hz, ↓reduceIte]
    refine ⟨_, rfl, ⟨?_, by simp only []; omega⟩, habs _ rfl rfl (fun _ => rfl)⟩
    simp only []; split at rb <;> omega

/-- element access reads the abstract sequence -/
theorem arr_at_refines (a : Arr) (idx : Nat) : a.at? idx = a.abs[idx]? := by
  unfold at?; rw [abs_getElem?]
  by_cases h : idx < a.cnt
  · simp [h, show ¬ idx ≥ a.cnt by omega, Nat.add_comm]
  · simp [h, show idx ≥ a.cnt by omega]

/-! ### every reachable array: operation sequences against the trivial `List` reference -/

inductive ArrOp where
  | ins (idx v : Nat) | rm (idx : Nat)

def arrStep (a : Arr) : ArrOp → St × Arr
  | .ins idx v => a.insertAt idx v true
  | .rm idx => a.claimAt idx

def specStep (l : List Nat) : ArrOp → St × List Nat
  | .ins idx v => if idx ≤ l.length then (.ok, l.insertIdx idx v) else (.formerr, l)
  | .rm idx => if idx < l.length then (.ok, l.eraseIdx idx) else (.formerr, l)

theorem arr_step_refines (a : Arr) (op : ArrOp) (h : a.Inv) :
    (arrStep a op).2.Inv ∧ (arrStep a op).1 = (specStep a.abs op).1 ∧
      (arrStep a op).2.abs = (specStep a.abs op).2 := by
  have hl := abs_length a h
  cases op with
  | ins idx v =>
    unfold arrStep specStep
    by_cases hi : idx ≤ a.cnt
    · obtain ⟨a', e, i', r⟩ := arr_insertAt_refines a idx v h hi
      simp [e, i', r, hl, hi]
    · simp [insertAt, show idx > a.cnt by omega, hl, hi, h]
  | rm idx =>
    unfold arrStep specStep
    by_cases hi : idx < a.cnt
    · obtain ⟨a', e, i', r⟩ := arr_claimAt_refines a idx h hi
      simp [e, i', r, hl, hi]
    · simp [claimAt, show idx ≥ a.cnt by omega, hl, hi, h]

/-- **C19 (array)**: under any sequence of inserts and removals at any index the array keeps sequence
    order exactly like a list, reports failure exactly when the index is out of range, and so stays
    usable after any removal pattern. -/
theorem arr_run_refines (ops : List ArrOp) (a : Arr) (h : a.Inv) :
    (ops.foldl (fun s op => (arrStep s op).2) a).Inv ∧
    (ops.foldl (fun s op => (arrStep s op).2) a).abs =
      ops.foldl (fun l op => (specStep l op).2) a.abs := by
  induction ops generalizing a with
  | nil => exact ⟨h, rfl⟩
  | cons op ops ih =>
    obtain ⟨i1, _, r1⟩ := arr_step_refines a op h
    simp only [List.foldl_cons]
    rw [← r1]
    exact ih _ i1

/-- insertion never gets stuck (the pinned tree's F20, repaired by the `fix:` commit) -/
theorem arr_insert_never_stuck (ops : List ArrOp) (idx v : Nat) :
    let a := ops.foldl (fun s op => (arrStep s op).2) Arr.empty
    idx ≤ a.cnt → (a.insertAt idx v true).1 = .ok := by
  intro a hi
  have hinv : a.Inv := (arr_run_refines ops Arr.empty ⟨by simp [Arr.empty], by simp [Arr.empty]⟩).1
  obtain ⟨a', e, _, _⟩ := arr_insertAt_refines a idx v hinv hi
  rw [e]

-- non-vacuity: the empty array satisfies the invariant; a drained array accepts inserts again
example : Arr.empty.Inv := ⟨by decide, by decide⟩
example :
    let ops := [ArrOp.ins 0 1, .ins 1 2, .ins 2 3, .ins 3 4, .rm 0, .rm 0, .rm 0, .rm 0, .ins 0 9]
    (ops.foldl (fun s op => (arrStep s op).2) Arr.empty).abs = [9] := by decide

end Cares.C19
