import CaresLemmas.ArrRefine
import CaresLemmas.HTableOps
import CaresLemmas.HTableHash
import CaresLemmas.BufOps
import CaresLemmas.BufSplit
import CaresLemmas.BufPatch
import CaresLemmas.SListFind
import CaresLemmas.LListInv
/-!
# C19 — internal containers behave as their abstract data types

Property theorems only (helper lemmas live in `CaresLemmas`).  Part 1: `ares_array`; part 2: `ares_htable`
(and its typed wrappers); part 3: `ares_buf`; part 4: `ares_slist`;
part 5: `ares_llist`.

The array model (`Cares.Dsa.Arr`) follows `ares_array.c` field by field (`mem/cnt/off`, the bounds
checks of `ares_array_move`, the growth policy).  The theorems say: for every reachable array the
observable sequence `abs` behaves exactly like `List` under insertion and removal at any index, and an
insertion at a legal index never fails once memory is available ("stays usable after any removal
pattern").
-/
namespace Cares.C19
open Cares Cares.Dsa Cares.Dsa.Arr

/-- insertion at any legal index refines `List.insertIdx`, keeps the invariant, and cannot fail when
    allocation succeeds -/
theorem arr_insertAt_refines (a : Arr) (idx v : Nat) (h : a.Inv) (hi : idx ≤ a.cnt) :
    ∃ a', a.insertAt idx v true = (.ok, a') ∧ a'.Inv ∧ a'.abs = a.abs.insertIdx idx v := by
  have hInv := h
  have hz0 := h.2
  have h := h.1
  obtain ⟨a1, e1, c1, o1, l1, s1, m1⟩ := setSize_ok a (a.cnt + 1) hInv (by omega) (by omega)
  unfold insertAt
  simp only [show ¬ idx > a.cnt by omega, ↓reduceIte, e1]
  have hInv1 : a1.Inv := ⟨by omega, by omega⟩
  -- stage 2: shift to the front if there is no room at the end
  have st2 : ∃ a2, (if a1.cnt + 1 + a1.off > a1.alloc then
        (a1.move 0 a1.off).map (fun b => { b with off := 0 }) else some a1) = some a2 ∧
      a2.cnt = a.cnt ∧ a2.off + a2.cnt + 1 ≤ a2.mem.length ∧
      ∀ i, i < a.cnt → a2.mem[a2.off + i]? = a.mem[a.off + i]? := by
    by_cases hroom : a1.cnt + 1 + a1.off > a1.alloc
    · simp only [hroom, ↓reduceIte]
      by_cases hz : a1.cnt = 0
      · -- an empty array has offset 0 (reset-on-empty), so there is always room
        exfalso
        have := hz0 (by omega)
        unfold alloc at hroom; omega
      · obtain ⟨b, eb, cb, ob, lb, mb⟩ := move_front a1 hInv1 (by omega)
        refine ⟨{ b with off := 0 }, by simp [eb], by simp [cb, c1], ?_, ?_⟩
        · simp only []; unfold alloc at hroom; omega
        · intro i hlt
          simp only [Nat.zero_add]
          rw [mb i (by omega), o1, m1 _ (by omega)]
    · simp only [hroom, ↓reduceIte]
      refine ⟨a1, rfl, c1, ?_, ?_⟩
      · unfold alloc at hroom; omega
      · intro i hlt; rw [o1, m1 _ (by omega)]
  obtain ⟨a2, e2, c2, r2, m2⟩ := st2
  simp only [e2]
  -- stage 3: open the gap
  have st3 : ∃ a3, (if idx ≠ a2.cnt then a2.move (idx + a2.off + 1) (idx + a2.off) else some a2) = some a3 ∧
      a3.cnt = a.cnt ∧ a3.off + a3.cnt + 1 ≤ a3.mem.length ∧
      (∀ i, i < idx → a3.mem[a3.off + i]? = a.mem[a.off + i]?) ∧
      (∀ i, idx < i → i ≤ a.cnt → a3.mem[a3.off + i]? = a.mem[a.off + i - 1]?) := by
    by_cases hne : idx ≠ a2.cnt
    · rw [if_pos hne]
      obtain ⟨b, eb, cb, ob, lb, p1, p2⟩ := move_gap a2 idx r2 (by omega)
      refine ⟨b, eb, by omega, by omega, ?_, ?_⟩
      · intro i hlt; rw [ob, p1 i hlt, m2 i (by omega)]
      · intro i h1 hle
        rw [ob, p2 i h1 (by omega)]
        have := m2 (i - 1) (by omega)
        rw [show a2.off + (i - 1) = a2.off + i - 1 by omega, show a.off + (i - 1) = a.off + i - 1 by omega] at this
        exact this
    · rw [if_neg hne]
      refine ⟨a2, rfl, c2, r2, ?_, ?_⟩
      · intro i hlt; exact m2 i (by omega)
      · intro i h1 hle; omega
  obtain ⟨a3, e3, c3, r3, p1, p2⟩ := st3
  simp only [e3]
  refine ⟨_, rfl, ?_, ?_⟩
  · refine ⟨?_, ?_⟩ <;> simp only [List.length_set] <;> omega
  · apply List.ext_getElem?
    intro i
    rw [abs_getElem?, List.getElem?_insertIdx]
    simp only [List.getElem?_set, abs_getElem?]
    by_cases hlt : i < idx
    · have : ¬ (idx + a3.off = a3.off + i) := by omega
      simp only [hlt, ↓reduceIte, this, show i < a3.cnt + 1 by omega, show i < a.cnt by omega]
      exact p1 i hlt
    · by_cases heq : i = idx
      · subst heq
        have hl : i + a3.off < a3.mem.length := by omega
        have hl' : a3.off + i < a3.mem.length := by omega
        have hal : i ≤ a.abs.length := by rw [abs_length a hInv]; exact hi
        simp [show i + a3.off = a3.off + i by omega, show i < a3.cnt + 1 by omega, hl', hal]
      · have hne : ¬ (idx + a3.off = a3.off + i) := by omega
        simp only [hlt, heq, hne, ↓reduceIte]
        by_cases hin : i < a3.cnt + 1
        · simp only [hin, ↓reduceIte, show i - 1 < a.cnt by omega]
          rw [p2 i (by omega) (by omega)]
          congr 1; omega
        · simp only [hin, ↓reduceIte, show ¬ (i - 1 < a.cnt) by omega]

/-- removal at any valid index refines `List.eraseIdx` and keeps the invariant -/
theorem arr_claimAt_refines (a : Arr) (idx : Nat) (h : a.Inv) (hi : idx < a.cnt) :
    ∃ a', a.claimAt idx = (.ok, a') ∧ a'.Inv ∧ a'.abs = a.abs.eraseIdx idx := by
  have hb := h.1
  unfold claimAt
  simp only [show ¬ idx ≥ a.cnt by omega, ↓reduceIte]
  -- the intermediate array `b` (before the count is decremented)
  have st : ∃ b, (if idx = 0 then some { a with off := a.off + 1 }
        else if idx ≠ a.cnt - 1 then a.move (idx + a.off) (idx + a.off + 1) else some a) = some b ∧
      b.cnt = a.cnt ∧ b.off + b.cnt ≤ b.mem.length + (if idx = 0 then 1 else 0) ∧
      (∀ i, i < idx → b.mem[b.off + i]? = a.mem[a.off + i]?) ∧
      (∀ i, idx ≤ i → i + 1 < a.cnt → b.mem[b.off + i]? = a.mem[a.off + i + 1]?) := by
    by_cases h0 : idx = 0
    · subst h0
      simp only [↓reduceIte]
      refine ⟨_, rfl, rfl, by simp only []; omega, ?_, ?_⟩
      · intro i hlt; omega
      · intro i _ _; simp only []; congr 1; omega
    · simp only [h0, ↓reduceIte]
      by_cases hl : idx ≠ a.cnt - 1
      · rw [if_pos hl]
        obtain ⟨b, eb, cb, ob, lb, p1, p2⟩ := move_close a idx h (by omega)
        refine ⟨b, eb, cb, by omega, ?_, ?_⟩
        · intro i hlt; rw [ob]; exact p1 i hlt
        · intro i h1 h2; rw [ob]; exact p2 i h1 h2
      · rw [if_neg hl]
        refine ⟨a, rfl, rfl, by omega, fun _ _ => rfl, ?_⟩
        intro i h1 h2; omega
  obtain ⟨b, eb, cb, rb, p1, p2⟩ := st
  simp only [eb]
  have habs : ∀ (c : Arr), c.mem = b.mem → c.cnt = b.cnt - 1 → (c.cnt ≠ 0 → c.off = b.off) →
      c.abs = a.abs.eraseIdx idx := by
    intro c hm hc ho
    apply List.ext_getElem?
    intro i
    rw [abs_getElem?, List.getElem?_eraseIdx, hm]
    by_cases hin : i < c.cnt
    · have ho' := ho (by omega)
      simp only [hin, ↓reduceIte, abs_getElem?, ho']
      by_cases hlt : i < idx
      · simp only [hlt, ↓reduceIte, show i < a.cnt by omega]; exact p1 i hlt
      · simp only [hlt, ↓reduceIte, show i + 1 < a.cnt by omega]
        rw [p2 i (by omega) (by omega), Nat.add_assoc]
    · simp only [hin, ↓reduceIte, abs_getElem?]
      by_cases hlt : i < idx
      · omega
      · simp only [hlt, ↓reduceIte, show ¬ (i + 1 < a.cnt) by omega]
  by_cases hz : b.cnt - 1 = 0
  · simp only [hz, ↓reduceIte]
    refine ⟨_, rfl, ⟨by simp, by simp⟩, habs _ rfl (by simp only []; omega) (by simp)⟩
  · simp only [hz, ↓reduceIte]
    refine ⟨_, rfl, ⟨?_, by simp only []; omega⟩, habs _ rfl rfl (fun _ => rfl)⟩
    simp only []; split at rb <;> omega

/-- element access reads the abstract sequence -/
theorem arr_at_refines (a : Arr) (idx : Nat) : a.at? idx = a.abs[idx]? := by
  unfold at?; rw [abs_getElem?]
  by_cases h : idx < a.cnt
  · simp [h, show ¬ idx ≥ a.cnt by omega, Nat.add_comm]
  · simp [h, show idx ≥ a.cnt by omega]

/-! ### every reachable array: operation sequences against the trivial `List` reference -/

inductive ArrOp where
  | ins (idx v : Nat) | rm (idx : Nat)

def arrStep (a : Arr) : ArrOp → St × Arr
  | .ins idx v => a.insertAt idx v true
  | .rm idx => a.claimAt idx

def specStep (l : List Nat) : ArrOp → St × List Nat
  | .ins idx v => if idx ≤ l.length then (.ok, l.insertIdx idx v) else (.formerr, l)
  | .rm idx => if idx < l.length then (.ok, l.eraseIdx idx) else (.formerr, l)

theorem arr_step_refines (a : Arr) (op : ArrOp) (h : a.Inv) :
    (arrStep a op).2.Inv ∧ (arrStep a op).1 = (specStep a.abs op).1 ∧
      (arrStep a op).2.abs = (specStep a.abs op).2 := by
  have hl := abs_length a h
  cases op with
  | ins idx v =>
    unfold arrStep specStep
    by_cases hi : idx ≤ a.cnt
    · obtain ⟨a', e, i', r⟩ := arr_insertAt_refines a idx v h hi
      simp [e, i', r, hl, hi]
    · simp [insertAt, show idx > a.cnt by omega, hl, hi, h]
  | rm idx =>
    unfold arrStep specStep
    by_cases hi : idx < a.cnt
    · obtain ⟨a', e, i', r⟩ := arr_claimAt_refines a idx h hi
      simp [e, i', r, hl, hi]
    · simp [claimAt, show idx ≥ a.cnt by omega, hl, hi, h]

/-- **C19 (array)**: under any sequence of inserts and removals at any index the array keeps sequence
    order exactly like a list, reports failure exactly when the index is out of range, and so stays
    usable after any removal pattern. -/
theorem arr_run_refines (ops : List ArrOp) (a : Arr) (h : a.Inv) :
    (ops.foldl (fun s op => (arrStep s op).2) a).Inv ∧
    (ops.foldl (fun s op => (arrStep s op).2) a).abs =
      ops.foldl (fun l op => (specStep l op).2) a.abs := by
  induction ops generalizing a with
  | nil => exact ⟨h, rfl⟩
  | cons op ops ih =>
    obtain ⟨i1, _, r1⟩ := arr_step_refines a op h
    simp only [List.foldl_cons]
    rw [← r1]
    exact ih _ i1

/-- insertion never gets stuck (the pinned tree's F20, repaired by the `fix:` commit) -/
theorem arr_insert_never_stuck (ops : List ArrOp) (idx v : Nat) :
    let a := ops.foldl (fun s op => (arrStep s op).2) Arr.empty
    idx ≤ a.cnt → (a.insertAt idx v true).1 = .ok := by
  intro a hi
  have hinv : a.Inv := (arr_run_refines ops Arr.empty ⟨by simp [Arr.empty], by simp [Arr.empty]⟩).1
  obtain ⟨a', e, _, _⟩ := arr_insertAt_refines a idx v hinv hi
  rw [e]

-- non-vacuity: the empty array satisfies the invariant; a drained array accepts inserts again
example : Arr.empty.Inv := ⟨by decide, by decide⟩
example :
    let ops := [ArrOp.ins 0 1, .ins 1 2, .ins 2 3, .ins 3 4, .rm 0, .rm 0, .rm 0, .rm 0, .ins 0 9]
    (ops.foldl (fun s op => (arrStep s op).2) Arr.empty).abs = [9] := by decide

/-! ## Part 2 — `ares_htable` and the typed hash tables

The model (`Cares.Dsa.HTable`) follows `ares_htable.c`: buckets that are NULL or an llist, `size`,
`num_keys`, `num_collisions`, growth at `ARES__HTABLE_EXPAND_PERCENT` with the pre-allocation of
`ares_htable_expand()`.  The hash function and key equality are parameters (`HOps`), so every theorem holds
for all six typed tables and for every seed; `Lawful` says what `ares_htable_create()` expects of them.
-/
section HTable
open Cares.Generated Cares.Dsa.HTable
variable {K V : Type}

/-- side conditions on the constants regenerated from `ares_htable.c` on every run: the minimum size is
    positive, repeated doubling of the minimum hits the maximum exactly (so `size == MAX` stops the growth),
    and the growth threshold of the smallest table is at least one key -/
theorem ht_consts_ok : ConstsOk :=
  ⟨by decide, ⟨Nat.log2 (HTABLE_MAX_BUCKETS / HTABLE_MIN_BUCKETS), by decide⟩, by decide⟩

/-- `unsigned int` arithmetic of `htable->size <<= 1` and `size * EXPAND_PERCENT` never wraps (sizes stay
    ≤ MAX by `Inv.szmax`), the percentage is a percentage, and the sizes are powers of two so that
    `hash & (size - 1)` is `hash % size` -/
theorem ht_size_arith_fits :
    HTABLE_MAX_BUCKETS * 2 < 2 ^ (8 * SIZEOF_UINT) ∧ HTABLE_MAX_BUCKETS * HTABLE_EXPAND_PERCENT < 2 ^ (8 * SIZEOF_UINT) ∧
      0 < HTABLE_EXPAND_PERCENT ∧ HTABLE_EXPAND_PERCENT < 100 ∧
      HTABLE_MIN_BUCKETS = 2 ^ Nat.log2 HTABLE_MIN_BUCKETS := by decide

/-- a freshly created table is empty and satisfies the invariant -/
theorem ht_empty (ops : HOps K) :
    Inv ops (HTable.empty : HTable K V) ∧ (∀ q, HTable.abs ops (HTable.empty : HTable K V) q = none) ∧
      (HTable.empty : HTable K V).numKeys = 0 := by
  have he : entries (HTable.empty : HTable K V) = [] := by
    unfold entries HTable.empty; exact ents_replicate_none _
  refine ⟨⟨by simp [HTable.empty], ⟨0, by simp [HTable.empty]⟩, ?_, ?_, ?_, ?_, ?_, ?_⟩, ?_, rfl⟩
  · obtain ⟨j, hj⟩ := ht_consts_ok.max_pow
    simp only [HTable.empty]; rw [hj]; exact Nat.le_mul_of_pos_right _ (Nat.two_pow_pos j)
  · intro i l hi
    simp only [HTable.empty, List.getElem?_replicate] at hi
    split at hi <;> simp at hi
  · rw [he]; exact List.Pairwise.nil
  · rw [he]; rfl
  · simp only [HTable.empty]; rw [sum_map_replicate_none bcoll rfl]
  · left; simp [HTable.empty]
  · intro q; unfold HTable.abs; rw [he]; rfl

/-- **insert**: with memory available `ares_htable_insert` always succeeds, keeps the invariant, and the
    table then maps every key equal to `k` to the new node `(k, v)` and every other key to what it mapped to
    before — across any growth the insert triggers.  The key count goes up exactly when the key was new, and
    the table doubles exactly when a new key crosses the expand percentage below the maximum size. -/
theorem ht_insert_refines (ops : HOps K) (hl : Lawful ops) (t : HTable K V) (k : K) (v : V) (o : Oracle)
    (h : Inv ops t) (ho : o.AllOk) :
    ∃ t' o', insert ops t k v o = (true, t', o') ∧ o'.AllOk ∧ Inv ops t' ∧
      (∀ q, HTable.abs ops t' q = if ops.eq q k then some (k, v) else HTable.abs ops t q) ∧
      t'.numKeys = (if (HTable.abs ops t k).isSome then t.numKeys else t.numKeys + 1) ∧
      t'.size = (if (HTable.abs ops t k).isNone ∧ t.numKeys + 1 > t.size * HTABLE_EXPAND_PERCENT / 100 ∧
                    t.size ≠ HTABLE_MAX_BUCKETS then t.size * 2 else t.size) :=
  insert_spec ht_consts_ok ops hl t k v o h ho

/-- **growth**: `ares_htable_expand` with memory available never fails (in particular the llists
    pre-allocated from `num_collisions` always suffice), keeps every node and hence every key → value
    association, keeps the invariant (`num_collisions` is recomputed correctly) and doubles the size. -/
theorem ht_expand_preserves (ops : HOps K) (hl : Lawful ops) (t : HTable K V) (o : Oracle)
    (h : Inv ops t) (ho : o.AllOk) :
    ∃ t' o', expand ops t o = (true, t', o') ∧ Inv ops t' ∧ (∀ q, HTable.abs ops t' q = HTable.abs ops t q) ∧
      t'.numKeys = t.numKeys ∧ (t.size ≠ HTABLE_MAX_BUCKETS → t'.size = t.size * 2) := by
  obtain ⟨t', o', e, _, i', p, n, sz⟩ := expand_spec ht_consts_ok ops hl t o h ho
  refine ⟨t', o', e, i', ?_, n, ?_⟩
  · intro q; unfold HTable.abs; exact find?_perm ops hl _ _ p i'.uniq q
  · intro hne; rw [if_neg hne] at sz; exact sz

/-- the "impossible" `goto done` of the move loop is impossible: when at least Σ (len − 1) llists were
    pre-allocated (which is what `num_collisions` records) the loop moves every bucket -/
theorem ht_expand_prealloc_suffices (ops : HOps K) (size : Nat) (bs : List (Option (List (K × V)))) (x : XS K V)
    (hx : XInv ops size x) (hs : 0 < size) (hpre : (bs.map bcoll).sum ≤ x.pre) :
    (moveAll ops size bs x).2 = none := by
  obtain ⟨x', e, _, _⟩ := moveAll_spec ops size bs x hx hs hpre
  rw [e]

/-- **remove** removes exactly the node with that key and reports whether there was one -/
theorem ht_remove_refines (ops : HOps K) (hl : Lawful ops) (t : HTable K V) (k : K) (h : Inv ops t)
    (hk : ops.isNull k = false) :
    Inv ops (remove ops t k).2 ∧ (remove ops t k).1 = (HTable.abs ops t k).isSome ∧
      (∀ q, HTable.abs ops (remove ops t k).2 q = if ops.eq q k then none else HTable.abs ops t q) ∧
      (remove ops t k).2.numKeys = (if (HTable.abs ops t k).isSome then t.numKeys - 1 else t.numKeys) := by
  obtain ⟨a, b, c, d, _⟩ := remove_spec ht_consts_ok ops hl t k h hk
  exact ⟨a, b, c, d⟩

/-- **get** (a search of one bucket) returns what the association map holds -/
theorem ht_get_refines (ops : HOps K) (hl : Lawful ops) (t : HTable K V) (k : K) (h : Inv ops t)
    (hk : ops.isNull k = false) : get ops t k = HTable.abs ops t k :=
  get_spec ops hl t k h hk

/-- **count** = number of live keys: `num_keys` is the number of nodes, no two nodes have equal keys, and every
    node is what its key maps to -/
theorem ht_count_eq_keys (ops : HOps K) (hl : Lawful ops) (t : HTable K V) (h : Inv ops t) :
    t.numKeys = (entries t).length ∧ (entries t).Pairwise (fun a b => ops.eq a.1 b.1 = false) ∧
      ∀ e ∈ entries t, HTable.abs ops t e.1 = some e := by
  refine ⟨h.nkeys, h.uniq, ?_⟩
  intro e he
  unfold HTable.abs
  exact (find?_some_iff ops hl _ h.uniq e.1 e).2 ⟨he, hl.refl _⟩

/-- **collision bookkeeping**: `num_collisions` = Σ over the buckets of (length − 1); and the load stays below
    the expand percentage until the maximum size is reached -/
theorem ht_collisions_eq_sum (ops : HOps K) (t : HTable K V) (h : Inv ops t) :
    t.numCollisions = (t.buckets.map bcoll).sum ∧
      (t.numKeys ≤ t.size * HTABLE_EXPAND_PERCENT / 100 ∨ t.size = HTABLE_MAX_BUCKETS) ∧
      (∃ e, t.size = 2 ^ e) := by
  refine ⟨h.ncoll, h.load, ?_⟩
  obtain ⟨k, hk⟩ := h.pow
  refine ⟨Nat.log2 HTABLE_MIN_BUCKETS + k, ?_⟩
  rw [hk, Nat.pow_add, ← ht_size_arith_fits.2.2.2.2]

/-! ### every reachable table: operation sequences against the trivial map reference -/

/-- the trivial reference: a function from keys to nodes and a counter -/
structure MapRef (K V : Type) where
  map : K → Option (K × V)
  count : Nat

inductive HtOp (K V : Type) where
  | put (k : K) (v : V) | del (k : K) | get (k : K)

def HtOp.key : HtOp K V → K
  | .put k _ => k | .del k => k | .get k => k

inductive HtOut (K V : Type) where
  | done (ok : Bool) | found (e : Option (K × V))
  deriving DecidableEq

def htStep (ops : HOps K) (t : HTable K V) : HtOp K V → HtOut K V × HTable K V
  | .put k v => (.done (insert ops t k v Oracle.ok).1, (insert ops t k v Oracle.ok).2.1)
  | .del k => (.done (remove ops t k).1, (remove ops t k).2)
  | .get k => (.found (HTable.get ops t k), t)

def refStep (ops : HOps K) (m : MapRef K V) : HtOp K V → HtOut K V × MapRef K V
  | .put k v => (.done true, { map := fun q => if ops.eq q k then some (k, v) else m.map q,
                               count := if (m.map k).isSome then m.count else m.count + 1 })
  | .del k => (.done (m.map k).isSome, { map := fun q => if ops.eq q k then none else m.map q,
                                         count := if (m.map k).isSome then m.count - 1 else m.count })
  | .get k => (.found (m.map k), m)

def absRef (ops : HOps K) (t : HTable K V) : MapRef K V := { map := HTable.abs ops t, count := t.numKeys }

def htRun (ops : HOps K) : HTable K V → List (HtOp K V) → List (HtOut K V) × HTable K V
  | t, [] => ([], t)
  | t, op :: r => let s := htStep ops t op; let rr := htRun ops s.2 r; (s.1 :: rr.1, rr.2)

def refRun (ops : HOps K) : MapRef K V → List (HtOp K V) → List (HtOut K V) × MapRef K V
  | m, [] => ([], m)
  | m, op :: r => let s := refStep ops m op; let rr := refRun ops s.2 r; (s.1 :: rr.1, rr.2)

theorem ht_step_refines (ops : HOps K) (hl : Lawful ops) (t : HTable K V) (op : HtOp K V) (h : Inv ops t)
    (hnn : ops.isNull op.key = false) :
    Inv ops (htStep ops t op).2 ∧ (htStep ops t op).1 = (refStep ops (absRef ops t) op).1 ∧
      absRef ops (htStep ops t op).2 = (refStep ops (absRef ops t) op).2 := by
  cases op with
  | put k v =>
    obtain ⟨t', o', e, _, i', a, n, _⟩ := ht_insert_refines ops hl t k v Oracle.ok h (fun _ => rfl)
    simp only [htStep, refStep, absRef, e]
    refine ⟨i', trivial, ?_⟩
    rw [n]
    congr 1
    funext q; exact a q
  | del k =>
    obtain ⟨i', b, a, n⟩ := ht_remove_refines ops hl t k h hnn
    simp only [htStep, refStep, absRef]
    refine ⟨i', by rw [b], ?_⟩
    rw [n]
    congr 1
    funext q; exact a q
  | get k =>
    simp only [htStep, refStep, absRef]
    exact ⟨h, by rw [ht_get_refines ops hl t k h hnn], trivial⟩

/-
Full statement (false on the pinned tree for the two pointer-keyed tables, see `ht_null_key_lost`):

  theorem ht_run_refines (ops) (hl : Lawful ops) (l : List (HtOp K V)) :
      (htRun ops HTable.empty l).1 = (refRun ops (absRef ops HTable.empty) l).1 ∧ …

`ares_htable_get/remove` refuse the NULL key while `ares_htable_insert` stores it (finding F30-C19), so the
statement is proved for operation sequences that never use the NULL key.
-/
/-- **C19 (hash tables)**: under any sequence of put / del / get (never handing in the NULL pointer as a key)
    every answer equals the answer of the trivial map reference — every live key maps to its latest value
    across any growth, removed keys are gone — and the key counter equals the reference's count. -/
theorem ht_run_refines_partial (ops : HOps K) (hl : Lawful ops) (l : List (HtOp K V)) (t : HTable K V)
    (h : Inv ops t) (hnn : ∀ op ∈ l, ops.isNull op.key = false) :
    Inv ops (htRun ops t l).2 ∧ (htRun ops t l).1 = (refRun ops (absRef ops t) l).1 ∧
      absRef ops (htRun ops t l).2 = (refRun ops (absRef ops t) l).2 := by
  induction l generalizing t with
  | nil => exact ⟨h, rfl, rfl⟩
  | cons op r ih =>
    obtain ⟨i1, o1, a1⟩ := ht_step_refines ops hl t op h (hnn op List.mem_cons_self)
    obtain ⟨i2, o2, a2⟩ := ih _ i1 (fun op' hm => hnn op' (List.mem_cons_of_mem _ hm))
    simp only [htRun, refRun]
    rw [← a1, ← o1]
    exact ⟨i2, by rw [o2], a2⟩

/-- every table reachable from `ares_htable_create` by such operations satisfies the invariant; so
    `num_keys` counts the live keys and `num_collisions` is Σ (len − 1) at all times -/
theorem ht_reachable_inv (ops : HOps K) (hl : Lawful ops) (l : List (HtOp K V))
    (hnn : ∀ op ∈ l, ops.isNull op.key = false) :
    Inv ops (htRun ops (HTable.empty : HTable K V) l).2 :=
  (ht_run_refines_partial ops hl l _ (ht_empty ops).1 hnn).1

/-- kernel-checked counterexample to the full statement (F30-C19): in a table whose keys are pointers, the
    NULL key can be inserted, is counted, and is then neither found nor removed -/
theorem ht_null_key_lost :
    let ops : HOps Nat := { hash := fun k => k, eq := fun a b => a == b, isNull := fun k => k == 0 }
    let r := htRun ops (HTable.empty : HTable Nat Nat) [.put 0 7, .get 0, .del 0]
    r.2.numKeys = 1 ∧ r.1 = [.done true, .found none, .done false] := by
  decide

/-! ### the hash functions -/

/-- the shift-and-add form used by `ares_htable_hash_FNV1a*` is multiplication by the FNV prime modulo 2^32 -/
theorem fnv_step_is_mul (hv : Nat) :
    fnvShiftAdd hv = (hv * 16777619) % 2 ^ 32 := fnvShiftAdd_eq_mul hv

/-- `ares_tolower` never maps a non-NUL byte to NUL (checked over the regenerated table) -/
theorem tolower_nonzero : ∀ c, c < 256 → 0 < c → tolower c ≠ 0 := by decide +kernel

/-- the case-insensitive tables are lawful where it matters: strings that `ares_strcaseeq` calls equal get
    the same `ares_htable_hash_FNV1a_casecmp` hash, for every seed -/
theorem fnv1a_casecmp_respects_caseeq (a b : List Nat) (seed : Nat)
    (ha : ∀ c ∈ a, 0 < c ∧ c < 256) (hb : ∀ c ∈ b, 0 < c ∧ c < 256) (h : strCaseEq a b = true) :
    fnv1aCase a seed = fnv1aCase b seed := by
  unfold fnv1aCase
  exact fnv1aCase_foldl_congr a b _ (fun c hc => tolower_nonzero c (ha c hc).2 (ha c hc).1)
    (fun c hc => tolower_nonzero c (hb c hc).2 (hb c hc).1) h

-- non-vacuity: a concrete run that grows the table twice (16 → 32 → 64 buckets) and keeps every key
example :
    let ops : HOps Nat := { hash := fun k => k * 16, eq := fun a b => a == b }
    let puts := (List.range 30).map (fun i => HtOp.put i (i + 100))
    let t := (htRun ops (HTable.empty : HTable Nat Nat) puts).2
    t.size = 64 ∧ t.numKeys = 30 ∧ HTable.get ops t 3 = some (3, 103) ∧ t.numCollisions = 26 := by
  decide +kernel

end HTable

/-! ## Part 3 — `ares_buf`

The model (`Cares.Buf`) follows `ares_buf.c`: allocation contents, `data_len`, `offset`, `tag_offset`, the
in-place / reclaim / grow ladder of `ares_buf_ensure_space`, the tag operations, `ares_buf_split` driven on
cursor and tag.  The trivial reference (`Cares.QRef`) is a list of all bytes ever appended plus an absolute
read position and an absolute tag; it never moves anything.
-/
section Buf
open Cares.Generated Cares.Buf

/-- side condition on the regenerated constant: the first allocation of a buffer is at least two bytes -/
theorem buf_consts_ok : Buf.ConstsOk := by unfold Buf.ConstsOk; decide

/-- a fresh buffer represents the empty queue -/
theorem buf_empty_rel : BufRel Buf.empty QRef.empty 0 := by
  refine ⟨⟨by decide, by decide, fun t h => (by cases h), by decide⟩, rfl, by decide, by decide,
    fun t h => (by cases h), rfl, rfl, rfl, rfl⟩

/-- one operation (append, consume, fetch, tag, rollback, clear, reclaim, length, tag-fetch, peek) on a buffer
    that represents a queue answers exactly like the queue and represents the resulting queue; the base of
    the representation only moves forward, and never past min(tag, read position) (`BufRel.tagOk/basePos`) -/
theorem buf_step_refines (b : Buf) (q : QRef) (base : Nat) (op : BufOp) (r : BufRel b q base) :
    (bufStep b op).1 = (qrefStep q op).1 ∧
      ∃ base', base ≤ base' ∧ BufRel (bufStep b op).2 (qrefStep q op).2 base' :=
  bufStep_rel buf_consts_ok b q base op r

/-- **C19 (byte buffer)**: for every operation sequence on a fresh buffer every answer equals the byte
    queue's answer, and the unread bytes are exactly the bytes appended minus those consumed
    (`stream.drop pos`); tags and rollbacks restore positions because they do so in the reference. -/
theorem buf_run_refines (ops : List BufOp) (b : Buf) (q : QRef) (base : Nat) (r : BufRel b q base) :
    (bufRun b ops).1 = (qrefRun q ops).1 ∧
      (∃ base', BufRel (bufRun b ops).2 (qrefRun q ops).2 base') ∧
      (bufRun b ops).2.remaining = (qrefRun q ops).2.stream.drop (qrefRun q ops).2.pos := by
  induction ops generalizing b q base with
  | nil => exact ⟨rfl, ⟨base, r⟩, r.remaining_eq⟩
  | cons op rest ih =>
    obtain ⟨o1, base', _, r1⟩ := buf_step_refines b q base op r
    obtain ⟨o2, r2, m2⟩ := ih _ _ base' r1
    simp only [bufRun, qrefRun]
    exact ⟨by rw [o1, o2], r2, m2⟩

/-- every buffer reachable from `ares_buf_create` satisfies the invariant; in particular a dynamic buffer
    always has a spare byte behind `data_len`, so the NUL written by `ares_buf_finish_str` is in bounds -/
theorem buf_reachable_inv (ops : List BufOp) :
    (bufRun Buf.empty ops).2.Inv ∧
      ((bufRun Buf.empty ops).2.mem ≠ [] → (bufRun Buf.empty ops).2.dataLen < (bufRun Buf.empty ops).2.mem.length) := by
  obtain ⟨_, ⟨base', r⟩, _⟩ := buf_run_refines ops Buf.empty QRef.empty 0 buf_empty_rel
  refine ⟨r.inv, ?_⟩
  intro hne
  have := r.inv.room
  rw [r.dyn] at this
  simp only [Bool.false_eq_true, ↓reduceIte] at this
  rcases this with h | h
  · exact absurd h hne
  · exact h

/-- **append** (any allocation outcome): on success the unread bytes grow by exactly the appended bytes and the
    tagged bytes are untouched; on allocation failure both are unchanged -/
theorem buf_append_queue (b : Buf) (data : List Nat) (o : Oracle) (h : b.Inv) (hc : b.isConst = false)
    (hd : data ≠ []) :
    (b.append data o).2.1.Inv ∧
      (((b.append data o).1 = .ok ∧ (b.append data o).2.1.remaining = b.remaining ++ data) ∨
       ((b.append data o).1 = .nomem ∧ (b.append data o).2.1.remaining = b.remaining)) ∧
      (o.AllOk → (b.append data o).1 = .ok) := by
  obtain ⟨p, i', hpo, hoff, _, _, _, hres, hok⟩ := append_spec buf_consts_ok b data o h hc hd
  have hl := live_length b h
  have hoL := h.offLe
  refine ⟨i', ?_, fun ho => (hok ho).1⟩
  rcases hres with ⟨hs, hlive⟩ | ⟨hs, hlive⟩
  · left
    refine ⟨hs, ?_⟩
    rw [Buf.remaining_eq, Buf.remaining_eq, hlive, List.drop_append_of_le_length (by rw [List.length_drop]; omega),
      List.drop_drop]
    congr 2; omega
  · right
    refine ⟨hs, ?_⟩
    rw [Buf.remaining_eq, Buf.remaining_eq, hlive, List.drop_drop]
    congr 1; omega

/-- **reclaim** never drops a byte at or after min(tag, offset): it removes a prefix `p ≤ offset`, `p ≤ tag`
    of the data and shifts offset and tag by `p`; unread and tagged bytes are unchanged -/
theorem buf_reclaim_preserves (b : Buf) (h : b.Inv) :
    ∃ p, p ≤ b.off ∧ (∀ t, b.tag = some t → p ≤ t) ∧ b.reclaim.live = b.live.drop p ∧
      b.reclaim.off + p = b.off ∧ b.reclaim.tag = b.tag.map (· - p) ∧ b.reclaim.Inv ∧
      b.reclaim.remaining = b.remaining ∧ b.reclaim.tagged = b.tagged := by
  obtain ⟨p, sh, i', _, hpo, _⟩ := reclaim_spec b h
  exact ⟨p, hpo, sh.ple, sh.live, sh.off, sh.tag, i', sh.remaining, sh.tagged h i'⟩

/-- **tag / rollback**: after `tag`, consuming any number of available bytes and rolling back restores the read
    position and the unread bytes; the tag is gone -/
theorem buf_tag_rollback_restores (b : Buf) (n : Nat) (hn : n ≤ b.len) :
    (b.doTag.consume n).2.tagRollback = (.ok, { b with tag := none }) ∧
      ((b.doTag.consume n).2.tagRollback).2.remaining = b.remaining ∧
      (b.doTag.consume n).2.tagged = b.remaining.take n := by
  have hc : b.doTag.consume n = (.ok, { b.doTag with off := b.off + n }) := by
    unfold Buf.consume; rw [if_neg (by show ¬ b.len < n; omega)]; rfl
  rw [hc]
  refine ⟨rfl, rfl, ?_⟩
  unfold Buf.tagged Buf.remaining Buf.doTag
  simp only
  apply List.ext_getElem?
  intro i
  unfold Buf.len at hn
  simp only [List.getElem?_drop, List.getElem?_take]
  by_cases hi : i < n
  · simp only [hi, ↓reduceIte, show b.off + i < b.off + n by omega, show b.off + i < b.dataLen by omega]
  · simp only [hi, ↓reduceIte, show ¬ b.off + i < b.off + n by omega]

/-- **back-patching**: shortening the buffer to `p` unread bytes, appending a patch that fits into what was cut
    off, and restoring the length is an in-place overwrite: no allocation, no compaction, positions unchanged -/
theorem buf_backpatch_eq_overwrite (b : Buf) (h : b.Inv) (hc : b.isConst = false) (p : Nat) (patch : List Nat)
    (o : Oracle) (hp : p + patch.length ≤ b.len) (hne : patch ≠ []) :
    ∃ b1 b2 b3, b.setLength p = (.ok, b1) ∧ b1.append patch o = (.ok, b2, o) ∧ b2.setLength b.len = (.ok, b3) ∧
      b3.remaining = b.remaining.take p ++ patch ++ b.remaining.drop (p + patch.length) ∧
      b3.off = b.off ∧ b3.tag = b.tag ∧ b3.dataLen = b.dataLen := by
  obtain ⟨b1, b2, b3, e1, e2, e3, hr, h1, h2, h3, _, _⟩ := backpatch b h hc p patch o hp hne
  exact ⟨b1, b2, b3, e1, e2, e3, hr, h1, h2, h3⟩

/-- **split** = the specification split, for every delimiter set, flag combination and section limit: the loop
    driven on cursor and tag returns `specSplit` of the unread bytes, consumes the whole buffer, and changes
    nothing but offset and tag -/
theorem buf_split_refines (b : Buf) (delims : List Nat) (fl : Buf.SplitFlags) (maxSections : Nat) (h : b.Inv)
    (hd : delims ≠ []) :
    ∃ b', b.split delims fl maxSections = some (b', specSplit b.remaining delims fl maxSections) ∧
      b'.len = 0 ∧ b'.mem = b.mem ∧ b'.dataLen = b.dataLen ∧ b'.Inv := by
  obtain ⟨b', e, s, i', l⟩ := splitLoop_spec delims fl maxSections hd (b.len + 1) b true [] h
  refine ⟨b', ?_, l (by simp), s.mem, s.dlen, i'⟩
  unfold Buf.split specSplit
  have hde : delims.isEmpty = false := by cases delims <;> simp_all
  rw [hde, remaining_length b h]
  exact e

/-- `ares_buf_set_length` is documented as having "very few protections": shrinking the data below an active
    tag (after the offset was moved back with `ares_buf_set_position`) and rolling back leaves the offset behind
    the end of the data.  Kernel-checked witness that the precondition of `buf_backpatch_eq_overwrite` style
    uses (tag not beyond the new end) cannot be dropped; recorded as an observation, not as a finding. -/
theorem buf_setlen_unprotected :
    let b0 : Buf := { mem := List.replicate 32 0, isConst := false, dataLen := 10, off := 10, tag := none }
    let b := (((b0.doTag.setPosition 0).2.setLength 0).2.tagRollback).2
    b0.Inv ∧ ¬ b.off ≤ b.dataLen := by
  refine ⟨⟨by decide, by decide, fun t h => (by cases h), by decide⟩, by decide⟩

-- non-vacuity: a concrete run with growth, compaction, tag and rollback
example :
    let ops := [BufOp.app [1, 2, 3, 4, 5], .fetch 2, .tag, .fetch 2, .app (List.replicate 40 9), .rollback, .fetch 3, .len]
    (bufRun Buf.empty ops).1 =
      [.st .ok, .bytes (some [1, 2]), .st .ok, .bytes (some [3, 4]), .st .ok, .st .ok, .bytes (some [3, 4, 5]), .num 40] := by
  decide +kernel

example :
    specSplit [97, 44, 44, 32, 98, 32] [44] (Buf.SplitFlags.ofNat 48) 0 = [[97], [98]] := by decide

end Buf

/-! ## Part 4 — `ares_slist`

The model (`Cares.Dsa.SList`) is the level-list algorithm of `ares_slist.c`: one ordered list of node ids per
level, `left` carried from level to level in push, unlinking per level in pop, the forward/back-off walk of
find.  Node levels come from coin flips that are an *input*: every theorem below holds for all of them.
The abstraction is level 0 (`level0`), the sorted-list specification is `specInsert` ("in front of the first
node whose key is not smaller": a node with an equal key goes before the existing ones, as the C code does).
-/
section SList
open Cares.Generated Cares.Dsa.SList

/-- side condition on the regenerated constant: a new list has at least one level -/
theorem sl_consts_ok : 1 ≤ SLIST_START_LEVELS := by decide

/-- a new list is empty and satisfies the invariant -/
theorem sl_empty_inv : Inv SList.empty ∧ SList.empty.level0 = [] := by
  have hne : List.replicate SLIST_START_LEVELS ([] : List Nat) ≠ [] := by
    intro h; have := congrArg List.length h; simp at this; have := sl_consts_ok; omega
  have hl0 : SList.empty.level0 = [] := by
    unfold level0 SList.empty
    simp only
    rw [List.getLast?_replicate]
    split <;> rfl
  refine ⟨⟨hne, ?_, ?_, ?_, ?_, ?_, ?_⟩, hl0⟩
  · rw [hl0]; exact List.Pairwise.nil
  · rw [hl0]; exact List.nodup_nil
  · have := subChain_replicate_nil SLIST_START_LEVELS [] trivial
    simpa [SList.empty] using this
  · have := levelsOk_replicate_nil (fun _ => 0) SLIST_START_LEVELS [] trivial
    simpa [SList.empty] using this
  · rw [hl0]; rfl
  · rw [hl0]; rfl

/-- **insert**, for all coin flips: the list stays sorted and duplicate free, the new node sits in front of the
    first node whose key is not smaller, nothing else moves, and the invariant (levels are sub-lists, tail,
    count) is kept -/
theorem sl_insert_refines (s : SList) (n k : Nat) (coins : List Bool) (h : Inv s) (hn : n ∉ s.level0) :
    Inv (s.insert n k coins) ∧ (s.insert n k coins).level0 = specInsert s.key k n s.level0 ∧
      (s.insert n k coins).key n = k ∧ (∀ x, x ≠ n → (s.insert n k coins).key x = s.key x) :=
  insert_spec s n k coins h hn

/-- nothing is lost or duplicated by an insert: the new level 0 is a permutation of the old one plus the node -/
theorem sl_insert_perm (s : SList) (n k : Nat) (coins : List Bool) (h : Inv s) (hn : n ∉ s.level0) :
    (s.insert n k coins).level0.Perm (n :: s.level0) ∧ Sorted (s.insert n k coins).key (s.insert n k coins).level0 ∧
      (s.insert n k coins).level0.Nodup := by
  obtain ⟨i, l, _, _⟩ := insert_spec s n k coins h hn
  refine ⟨?_, i.sorted, i.nodup⟩
  rw [l, specInsert_eq]
  refine List.perm_middle.trans (List.Perm.cons n ?_)
  rw [List.takeWhile_append_dropWhile]

/-- **remove** (claim / destroy) removes exactly that node -/
theorem sl_remove_refines (s : SList) (n : Nat) (h : Inv s) (hn : n ∈ s.level0) :
    Inv (s.remove n) ∧ (s.remove n).level0 = s.level0.erase n ∧ (s.remove n).key = s.key :=
  remove_spec s n h hn

/-- **find** returns the first node whose key equals the one looked for (none if there is none) -/
theorem sl_find_first_equal (s : SList) (k : Nat) (h : Inv s) :
    s.find k = s.level0.find? (fun y => s.key y == k) :=
  find_spec s k h

/-- **first / last** -/
theorem sl_first_last (s : SList) (h : Inv s) : s.first = s.level0.head? ∧ s.last = s.level0.getLast? :=
  ⟨rfl, h.tailOk⟩

/-- **reinsert after a key change** restores the order: the node moves to the sorted position of its new key,
    all other nodes keep their relative order -/
theorem sl_reinsert_restores (s : SList) (n k : Nat) (h : Inv s) (hn : n ∈ s.level0) :
    Inv ((s.setKey n k).reinsert n) ∧
      ((s.setKey n k).reinsert n).level0 = specInsert s.key k n (s.level0.erase n) ∧
      ((s.setKey n k).reinsert n).key n = k ∧ ∀ x, x ≠ n → ((s.setKey n k).reinsert n).key x = s.key x := by
  have hnot : n ∉ s.level0.erase n := h.nodup.not_mem_erase
  have hagree : ∀ x ∈ s.level0.erase n, (s.setKey n k).key x = s.key x := by
    intro x hx
    have : x ≠ n := fun e => hnot (e ▸ hx)
    simp [setKey, this]
  have hex : InvExcept (s.setKey n k) n :=
    ⟨h.nonempty, sorted_congr s.key _ _ (h.sorted.sublist List.erase_sublist) hagree, h.nodup, h.sub, h.lvOk,
      h.tailOk, h.cntOk⟩
  obtain ⟨i, l, ky⟩ := reinsert_spec (s.setKey n k) n hex hn
  refine ⟨i, ?_, ?_, ?_⟩
  · rw [l]
    show specInsert (s.setKey n k).key ((s.setKey n k).key n) n (s.level0.erase n) = _
    have : (s.setKey n k).key n = k := by simp [setKey]
    rw [this]
    exact specInsert_congr s.key _ k n _ hagree
  · rw [ky]; simp [setKey]
  · intro x hx; rw [ky]; simp [setKey, hx]

/-- **levels**: level i+1 is a sub-list of level i, every level is a sub-list of level 0 and sorted -/
theorem sl_levels_sublist (s : SList) (h : Inv s) :
    SubChain s.lv ∧ ∀ l ∈ s.lv, l.Sublist s.level0 ∧ Sorted s.key l ∧ l.Nodup := by
  refine ⟨h.sub, fun l hl => ?_⟩
  have hsl := sublist_level0 s.lv h.sub l hl
  exact ⟨hsl, h.sorted.sublist hsl, h.nodup.sublist hsl⟩

/-! ### every reachable list: operation sequences against the sorted-list reference -/

/-- the trivial reference: the node ids in order and their keys -/
structure SlRef where
  items : List Nat
  key : Nat → Nat

inductive SlOp where
  | ins (n k : Nat) (coins : List Bool) | rm (n : Nat) | rekey (n k : Nat) | find (k : Nat) | first | last

def slStep (s : SList) : SlOp → Option Nat × SList
  | .ins n k coins => (none, if n ∈ s.level0 then s else s.insert n k coins)
  | .rm n => (none, if n ∈ s.level0 then s.remove n else s)
  | .rekey n k => (none, if n ∈ s.level0 then (s.setKey n k).reinsert n else s)
  | .find k => (s.find k, s)
  | .first => (s.first, s)
  | .last => (s.last, s)

def slRefStep (r : SlRef) : SlOp → Option Nat × SlRef
  | .ins n k _ => (none, if n ∈ r.items then r
      else { items := specInsert r.key k n r.items, key := fun x => if x = n then k else r.key x })
  | .rm n => (none, if n ∈ r.items then { r with items := r.items.erase n } else r)
  | .rekey n k => (none, if n ∈ r.items then
      { items := specInsert r.key k n (r.items.erase n), key := fun x => if x = n then k else r.key x } else r)
  | .find k => (r.items.find? (fun y => r.key y == k), r)
  | .first => (r.items.head?, r)
  | .last => (r.items.getLast?, r)

def slRun : SList → List SlOp → List (Option Nat) × SList
  | s, [] => ([], s)
  | s, op :: r => ((slStep s op).1 :: (slRun (slStep s op).2 r).1, (slRun (slStep s op).2 r).2)

def slRefRun : SlRef → List SlOp → List (Option Nat) × SlRef
  | q, [] => ([], q)
  | q, op :: r => ((slRefStep q op).1 :: (slRefRun (slRefStep q op).2 r).1, (slRefRun (slRefStep q op).2 r).2)

/-- the list stands for the reference: same nodes in the same order, same keys -/
def SlRel (s : SList) (r : SlRef) : Prop := Inv s ∧ s.level0 = r.items ∧ ∀ x, s.key x = r.key x

theorem sl_step_refines (s : SList) (r : SlRef) (op : SlOp) (h : SlRel s r) :
    (slStep s op).1 = (slRefStep r op).1 ∧ SlRel (slStep s op).2 (slRefStep r op).2 := by
  obtain ⟨hi, hl, hk⟩ := h
  have hkf : s.key = r.key := funext hk
  cases op with
  | ins n k coins =>
    simp only [slStep, slRefStep, ← hl]
    refine ⟨trivial, ?_⟩
    by_cases hn : n ∈ s.level0
    · simp only [hn, ↓reduceIte]; exact ⟨hi, hl, hk⟩
    · simp only [hn, ↓reduceIte]
      obtain ⟨i', l', k1, k2⟩ := insert_spec s n k coins hi hn
      refine ⟨i', by rw [l', hkf], ?_⟩
      intro x
      by_cases hx : x = n
      · subst hx; simp [k1]
      · simp only [hx, ↓reduceIte]; rw [k2 x hx, hk]
  | rm n =>
    simp only [slStep, slRefStep, ← hl]
    refine ⟨trivial, ?_⟩
    by_cases hn : n ∈ s.level0
    · simp only [hn, ↓reduceIte]
      obtain ⟨i', l', k'⟩ := remove_spec s n hi hn
      exact ⟨i', l', fun x => by rw [k', hk]⟩
    · simp only [hn, ↓reduceIte]; exact ⟨hi, hl, hk⟩
  | rekey n k =>
    simp only [slStep, slRefStep, ← hl]
    refine ⟨trivial, ?_⟩
    by_cases hn : n ∈ s.level0
    · simp only [hn, ↓reduceIte]
      obtain ⟨i', l', k1, k2⟩ := sl_reinsert_restores s n k hi hn
      refine ⟨i', by rw [l', hkf], ?_⟩
      intro x
      by_cases hx : x = n
      · subst hx; simp [k1]
      · simp only [hx, ↓reduceIte]; rw [k2 x hx, hk]
    · simp only [hn, ↓reduceIte]; exact ⟨hi, hl, hk⟩
  | find k =>
    simp only [slStep, slRefStep]
    exact ⟨by rw [find_spec s k hi, hl, hkf], hi, hl, hk⟩
  | first =>
    simp only [slStep, slRefStep]
    exact ⟨by rw [← hl]; rfl, hi, hl, hk⟩
  | last =>
    simp only [slStep, slRefStep]
    exact ⟨by rw [← hl]; exact hi.tailOk, hi, hl, hk⟩

/-- **C19 (ordered list)**: under any sequence of insert / remove / change-key-and-reinsert / find / first / last,
    with any coin flips, the skip list answers like the sorted-list reference and holds the same nodes in the
    same order; in particular it stays sorted and loses or duplicates nothing. -/
theorem sl_run_refines (ops : List SlOp) (s : SList) (r : SlRef) (h : SlRel s r) :
    (slRun s ops).1 = (slRefRun r ops).1 ∧ SlRel (slRun s ops).2 (slRefRun r ops).2 := by
  induction ops generalizing s r with
  | nil => exact ⟨rfl, h⟩
  | cons op rest ih =>
    obtain ⟨o1, r1⟩ := sl_step_refines s r op h
    obtain ⟨o2, r2⟩ := ih _ _ r1
    simp only [slRun, slRefRun]
    exact ⟨by rw [o1, o2], r2⟩

/-- every list reachable from `ares_slist_create` is sorted, duplicate free, has its levels nested, its tail
    pointing at the last node and its counter equal to the number of nodes -/
theorem sl_reachable_inv (ops : List SlOp) : Inv (slRun SList.empty ops).2 :=
  (sl_run_refines ops SList.empty { items := [], key := SList.empty.key } ⟨sl_empty_inv.1, sl_empty_inv.2, fun _ => rfl⟩).2.1

-- non-vacuity: equal keys go in front; tall and flat towers give the same order
example :
    let ops := [SlOp.ins 1 5 [true, true, true], .ins 2 5 [], .ins 3 2 [true], .ins 4 9 [true, true, true, true, true],
                .rekey 3 7, .find 5, .rm 2, .find 5, .last]
    (slRun SList.empty ops).1 = [none, none, none, none, none, some 2, none, some 1, some 4] ∧
      (slRun SList.empty ops).2.level0 = [1, 3, 4] := by
  decide +kernel

end SList

/-! ## Part 5 — `ares_llist`

The model (`Cares.Dsa.LHeap`) is at pointer level: nodes with `prev` / `next` / `parent`, list headers with
`head` / `tail` / `cnt`, and every API function as the pointer updates of the C function.  `GInv h abs` says that
the heap `h` stands for the family of sequences `abs` (list id ↦ node ids in order): every header and every
node's three pointers are exactly those of a doubly linked list of that sequence, and no node is in two lists.
Each theorem below says: the C pointer surgery turns a heap for `abs` into a heap for the list-level result.
-/
section LList
open Cares.Dsa.LHeap

/-- no lists, no nodes -/
theorem ll_empty : GInv LHeap.empty (fun _ => none) :=
  ⟨fun _ => ⟨fun _ => rfl, fun _ => rfl⟩, fun L l h => (by cases h), fun x nd L h => (by cases h)⟩

/-- `ares_llist_create` -/
theorem ll_create (h : LHeap) (abs : Nat → Option (List Nat)) (L : Nat) (g : GInv h abs) (hL : abs L = none) :
    GInv (h.create L) (absSet abs L []) := by
  refine ⟨?_, ?_, ?_⟩
  · intro L'
    by_cases e : L' = L
    · subst e; simp [create, absSet]
    · simp only [create, setList_lists, absSet, e, ↓reduceIte]; exact g.lists L'
  · intro L' l hl
    by_cases e : L' = L
    · subst e
      simp only [absSet, ↓reduceIte, Option.some.injEq] at hl
      subst hl
      exact ⟨by simp [create], List.nodup_nil, fun i x hx => by simp at hx⟩
    · simp only [absSet, e, ↓reduceIte] at hl
      have r := g.repr L' l hl
      exact ⟨by simp only [create, setList_lists, e, ↓reduceIte]; exact r.hdr, r.nodup, r.link⟩
  · intro x nd L' hx hp
    obtain ⟨l, hl, hm⟩ := g.owner x nd L' hx hp
    have e : L' ≠ L := fun e => by subst e; rw [hL] at hl; cases hl
    exact ⟨l, by simp [absSet, e, hl], hm⟩

/-- **insert_first**: the new node becomes the first element, everything else keeps its order -/
theorem ll_insert_first (h : LHeap) (abs : Nat → Option (List Nat)) (L : Nat) (l : List Nat) (n : Nat)
    (g : GInv h abs) (hl : abs L = some l) (hn : h.nodes n = none) :
    GInv (insertFirst h L n) (absSet abs L (n :: l)) :=
  ginv_attach_head false _ abs L l none n { prev := none, next := none, parent := none }
    (ginv_alloc h abs n g hn) hl (by simp) rfl

/-- **insert_last** -/
theorem ll_insert_last (h : LHeap) (abs : Nat → Option (List Nat)) (L : Nat) (l : List Nat) (n : Nat)
    (g : GInv h abs) (hl : abs L = some l) (hn : h.nodes n = none) :
    GInv (insertLast h L n) (absSet abs L (l ++ [n])) :=
  ginv_attach_tail false _ abs L l none n { prev := none, next := none, parent := none }
    (ginv_alloc h abs n g hn) hl (by simp) rfl

/-- **claim / destroy-node** removes exactly that node (and releases it) -/
theorem ll_claim (h : LHeap) (abs : Nat → Option (List Nat)) (L : Nat) (l : List Nat) (j : Nat)
    (g : GInv h abs) (hl : abs L = some l) (hj : j < l.length) :
    GInv (claim h l[j]) (absSet abs L (l.eraseIdx j)) := by
  obtain ⟨g1, hp⟩ := ginv_detach h abs L l j g hl hj
  exact ginv_free _ _ l[j] g1 hp

/-- **move_parent_first**: the node leaves its list (order of the rest kept) and becomes the first element of
    the target list (order of the rest kept); source and target may be the same list -/
theorem ll_mvparent_first (h : LHeap) (abs : Nat → Option (List Nat)) (L1 L2 : Nat) (l1 l2 : List Nat) (j : Nat)
    (g : GInv h abs) (h1 : abs L1 = some l1) (hj : j < l1.length)
    (h2 : absSet abs L1 (l1.eraseIdx j) L2 = some l2) :
    GInv (mvParentFirst h l1[j] L2) (absSet (absSet abs L1 (l1.eraseIdx j)) L2 (l1[j] :: l2)) := by
  obtain ⟨g1, hp⟩ := ginv_detach h abs L1 l1 j g h1 hj
  cases hnd : (detach h l1[j]).nodes l1[j] with
  | none =>
    have := (detach_spec h L1 l1 j (g.repr L1 l1 h1) hj).2.2.2
    rw [hnd] at this; cases this
  | some nd => exact ginv_attach_head false _ _ L2 l2 none l1[j] nd g1 h2 hnd (hp nd hnd)

/-- **move_parent_last** -/
theorem ll_mvparent_last (h : LHeap) (abs : Nat → Option (List Nat)) (L1 L2 : Nat) (l1 l2 : List Nat) (j : Nat)
    (g : GInv h abs) (h1 : abs L1 = some l1) (hj : j < l1.length)
    (h2 : absSet abs L1 (l1.eraseIdx j) L2 = some l2) :
    GInv (mvParentLast h l1[j] L2) (absSet (absSet abs L1 (l1.eraseIdx j)) L2 (l2 ++ [l1[j]])) := by
  obtain ⟨g1, hp⟩ := ginv_detach h abs L1 l1 j g h1 hj
  cases hnd : (detach h l1[j]).nodes l1[j] with
  | none =>
    have := (detach_spec h L1 l1 j (g.repr L1 l1 h1) hj).2.2.2
    rw [hnd] at this; cases this
  | some nd => exact ginv_attach_tail false _ _ L2 l2 none l1[j] nd g1 h2 hnd (hp nd hnd)

/-
Full statement (false on the pinned tree, see `ll_insert_before_pinned_breaks`; finding F32-C19):

  theorem ll_insert_before (lp : Bool) … : GInv (insertBefore lp h l[j] n) (absSet abs L (l.insertIdx j n))

With the pinned `ARES__LLIST_INSERT_BEFORE` (`lp = false`) the predecessor's `next` is not redirected, so the
statement holds only where the code falls back to head insertion (`j = 0`).  Proved for the repaired pointer
update (`lp = true`) at every position and for the pinned one at the head.
-/
/-- **insert_before** (partial on the pinned tree): the new node goes directly in front of the given node -/
theorem ll_insert_before_partial (lp : Bool) (h : LHeap) (abs : Nat → Option (List Nat)) (L : Nat) (l : List Nat)
    (j n : Nat) (g : GInv h abs) (hl : abs L = some l) (hj : j < l.length) (hn : h.nodes n = none)
    (hlp : lp = true ∨ j = 0) :
    GInv (insertBefore lp h l[j] n) (absSet abs L (l.insertIdx j n)) := by
  have r := g.repr L l hl
  have hnj : h.nodes l[j] = some (lnk l L j) := r.link' j hj
  have hnm := g.not_member n (fun nd e => by rw [hn] at e; cases e)
  have hne : l[j] ≠ n := fun e => hnm L l hl (e ▸ List.getElem_mem hj)
  have g0 := ginv_alloc h abs n g hn
  unfold insertBefore
  rw [hnj]
  simp only [lnk]
  unfold LHeap.insertAt
  by_cases h0 : j = 0
  · -- "if (type == BEFORE && (at == list->head || at == NULL)) type = HEAD"
    subst h0
    have hhead : (attachAt lp (h.setNode n (some { prev := none, next := none, parent := none })) L .before (some l[0]) n) =
        (attachAt lp (h.setNode n (some { prev := none, next := none, parent := none })) L .head (some l[0]) n) := by
      unfold attachAt
      rw [(g0.repr L l hl).hdr]
      have : l.head? = some l[0] := by rw [List.head?_eq_getElem?, List.getElem?_eq_getElem hj]
      simp [this]
    rw [hhead, List.insertIdx_zero]
    exact ginv_attach_head lp _ abs L l (some l[0]) n { prev := none, next := none, parent := none } g0 hl (by simp) rfl
  · rcases hlp with hlp | hlp
    · subst hlp
      exact ginv_attach_before _ abs L l j n { prev := none, next := none, parent := none } g0 hl hj (by omega) (by simp) rfl
    · exact absurd hlp h0

/-- **insert_after** (partial on the pinned tree): the new node goes directly behind the given node -/
theorem ll_insert_after_partial (lp : Bool) (h : LHeap) (abs : Nat → Option (List Nat)) (L : Nat) (l : List Nat)
    (j n : Nat) (g : GInv h abs) (hl : abs L = some l) (hj : j < l.length) (hn : h.nodes n = none)
    (hlp : lp = true ∨ j + 1 = l.length) :
    GInv (insertAfter lp h l[j] n) (absSet abs L (l.insertIdx (j + 1) n)) := by
  have r := g.repr L l hl
  have hnj : h.nodes l[j] = some (lnk l L j) := r.link' j hj
  have g0 := ginv_alloc h abs n g hn
  unfold insertAfter
  rw [hnj]
  simp only [lnk]
  by_cases hlast : j + 1 = l.length
  · -- "if (node->next == NULL) return ares_llist_insert_last(node->parent, val)"
    rw [List.getElem?_eq_none (by omega)]
    simp only
    have : l.insertIdx (j + 1) n = l ++ [n] := by rw [hlast]; exact List.insertIdx_length_self
    rw [this]
    exact ll_insert_last h abs L l n g hl hn
  · have hj1 : j + 1 < l.length := by omega
    rw [List.getElem?_eq_getElem hj1]
    simp only
    rcases hlp with hlp | hlp
    · subst hlp
      unfold LHeap.insertAt
      exact ginv_attach_before _ abs L l (j + 1) n { prev := none, next := none, parent := none } g0 hl hj1 (by omega) (by simp) rfl
    · exact absurd hlp hlast

/-- kernel-checked counterexample to the full statement on the pinned tree (F32-C19): after
    `insert_last 1, 2, 3; insert_before(node 3, 9)` the counter says 4, backward iteration sees `3 9 2 1`,
    forward iteration sees only `1 2 3` -/
theorem ll_insert_before_pinned_breaks :
    let h := insertBefore false (insertLast (insertLast (insertLast (LHeap.empty.create 1) 1 1) 1 2) 1 3) 3 9
    len h 1 = 4 ∧ backward h 1 10 = [3, 9, 2, 1] ∧ forward h 1 10 = [1, 2, 3] := by decide

/-- what the API shows of a well-formed list: forward iteration, backward iteration, indexing and the counter all
    describe the same sequence (`cnt = length`) -/
theorem ll_observations (h : LHeap) (abs : Nat → Option (List Nat)) (L : Nat) (l : List Nat) (fuel : Nat)
    (g : GInv h abs) (hl : abs L = some l) (hf : l.length ≤ fuel) :
    forward h L fuel = l ∧ backward h L fuel = l.reverse ∧ len h L = l.length ∧ ∀ i, nodeIdx h L i = l[i]? := by
  have r := g.repr L l hl
  refine ⟨forward_repr h L l r fuel hf, backward_repr h L l r fuel hf, by simp [len, r.hdr], ?_⟩
  intro i
  unfold nodeIdx
  rw [r.hdr]
  simp only
  by_cases hi : i ≥ l.length
  · rw [if_pos hi, List.getElem?_eq_none hi]
  · rw [if_neg hi]
    have := walkNext_repr h L l r (i + 1) 0
    rw [List.head?_eq_getElem?, this, List.drop_zero, List.getElem?_take, if_pos (by omega)]

/-- the heaps the API can produce (with the repaired `insert_before`, or with the pinned one used only at the
    head / `insert_after` only at the tail), together with the sequences they stand for -/
inductive LlReach (lp : Bool) : LHeap → (Nat → Option (List Nat)) → Prop where
  | empty : LlReach lp LHeap.empty (fun _ => none)
  | create (h abs L) : LlReach lp h abs → abs L = none → LlReach lp (h.create L) (absSet abs L [])
  | insFirst (h abs L l n) : LlReach lp h abs → abs L = some l → h.nodes n = none →
      LlReach lp (insertFirst h L n) (absSet abs L (n :: l))
  | insLast (h abs L l n) : LlReach lp h abs → abs L = some l → h.nodes n = none →
      LlReach lp (insertLast h L n) (absSet abs L (l ++ [n]))
  | insBefore (h abs L l j n) (hj : j < l.length) : LlReach lp h abs → abs L = some l → h.nodes n = none →
      (lp = true ∨ j = 0) → LlReach lp (insertBefore lp h l[j] n) (absSet abs L (l.insertIdx j n))
  | insAfter (h abs L l j n) (hj : j < l.length) : LlReach lp h abs → abs L = some l → h.nodes n = none →
      (lp = true ∨ j + 1 = l.length) → LlReach lp (insertAfter lp h l[j] n) (absSet abs L (l.insertIdx (j + 1) n))
  | claim (h abs L l j) (hj : j < l.length) : LlReach lp h abs → abs L = some l →
      LlReach lp (claim h l[j]) (absSet abs L (l.eraseIdx j))
  | mvFirst (h abs L1 L2 l1 l2 j) (hj : j < l1.length) : LlReach lp h abs → abs L1 = some l1 →
      absSet abs L1 (l1.eraseIdx j) L2 = some l2 →
      LlReach lp (mvParentFirst h l1[j] L2) (absSet (absSet abs L1 (l1.eraseIdx j)) L2 (l1[j] :: l2))
  | mvLast (h abs L1 L2 l1 l2 j) (hj : j < l1.length) : LlReach lp h abs → abs L1 = some l1 →
      absSet abs L1 (l1.eraseIdx j) L2 = some l2 →
      LlReach lp (mvParentLast h l1[j] L2) (absSet (absSet abs L1 (l1.eraseIdx j)) L2 (l2 ++ [l1[j]]))

/-- **C19 (linked list)**: under any sequence of these operations the pointer structure stands for exactly the
    sequences the list-level reference computes — order is preserved across inserts, removals and moves between
    lists, and `cnt` = length (via `ll_observations`). -/
theorem ll_run_refines (lp : Bool) (h : LHeap) (abs : Nat → Option (List Nat)) (hr : LlReach lp h abs) : GInv h abs := by
  induction hr with
  | empty => exact ll_empty
  | create h abs L _ hL ih => exact ll_create h abs L ih hL
  | insFirst h abs L l n _ hl hn ih => exact ll_insert_first h abs L l n ih hl hn
  | insLast h abs L l n _ hl hn ih => exact ll_insert_last h abs L l n ih hl hn
  | insBefore h abs L l j n hj _ hl hn hlp ih => exact ll_insert_before_partial lp h abs L l j n ih hl hj hn hlp
  | insAfter h abs L l j n hj _ hl hn hlp ih => exact ll_insert_after_partial lp h abs L l j n ih hl hj hn hlp
  | claim h abs L l j hj _ hl ih => exact ll_claim h abs L l j ih hl hj
  | mvFirst h abs L1 L2 l1 l2 j hj _ h1 h2 ih => exact ll_mvparent_first h abs L1 L2 l1 l2 j ih h1 hj h2
  | mvLast h abs L1 L2 l1 l2 j hj _ h1 h2 ih => exact ll_mvparent_last h abs L1 L2 l1 l2 j ih h1 hj h2

-- non-vacuity: a concrete run with the repaired insert_before and a move between two lists
example :
    let h0 := ((LHeap.empty.create 1).create 2)
    let h1 := insertLast (insertLast (insertLast h0 1 1) 1 2) 1 3
    let h2 := insertBefore true h1 3 9
    let h3 := mvParentFirst h2 2 2
    forward h3 1 10 = [1, 9, 3] ∧ backward h3 1 10 = [3, 9, 1] ∧ forward h3 2 10 = [2] ∧ len h3 1 = 3 := by decide

end LList

end Cares.C19
