import CaresProps.C01
import CaresLemmas.ChanSockUnl
/-!
# C01 (continued) — `ares_destroy` leaves no connection behind

`destroy_completes_all` (`C01.lean`) ends with "every remaining connection is `unlinked`" (a connection an outer frame
is in the middle of closing legitimately stays in the store).  `exec_Unl` (`CaresLemmas/ChanSockUnl.lean`, the C10
slice) is the missing postcondition: unless fuel ran out, no procedure leaves a connection half-closed that was not
half-closed before.  Together: a completed *top-level* `ares_destroy` — called from a state without half-closed
connections, which is every state between API calls — leaves `conns = []`.

This lives in its own file because `CaresProps/C10.lean` imports `CaresProps/C01.lean` (for `Cares.C01.Inv`), and
`ChanSockUnl` belongs to the C10 slice: `C01.lean` itself must not import it.  (C10's `destroy_closes_all` has the same
conclusion but additionally needs the socket invariant `SInv none s` and fuel of the form `f + 3`.)
-/
namespace Cares.C01
open Cares.Chan

/-- unless fuel ran out, a call that is not in the middle of closing a connection (`closing call = []`: everything but
    `closeLoop`) and starts without half-closed connections ends without half-closed connections -/
theorem no_unlinked_after (fuel : Nat) (call : Call) (s : St) (hcl : closing call = [])
    (hu : ∀ c ∈ s.conns, c.unlinked = false) (hf : (exec fuel call s).1.outOfFuel = false) :
    ∀ c ∈ (exec fuel call s).1.conns, c.unlinked = false := by
  have hun : Unl [] (exec fuel call s).1 := by
    apply exec_Unl
    rw [hcl]
    intro _ c hc hcu
    rw [hu c hc] at hcu; cases hcu
  intro c hc
  cases hcu : c.unlinked with
  | false => rfl
  | true => have := hun hf c hc hcu; cases this

/-- **`destroy_leaves_no_connection`.**  A completed top-level `ares_destroy` (`Inv s`, no list walk in progress, no
    half-closed connection on entry, fuel not exhausted) leaves the connection table empty. -/
theorem destroy_leaves_no_connection (fuel : Nat) (s : St) (h : Inv s) (hl : s.listCopy = [])
    (hu : ∀ c ∈ s.conns, c.unlinked = false) (hf : (exec fuel .destroy s).1.outOfFuel = false) :
    (exec fuel .destroy s).1.conns = [] := by
  have hall := (destroy_completes_all fuel s h hl hf).2.2.2.2.2.2.1
  have hnone := no_unlinked_after fuel .destroy s rfl hu hf
  cases hc : (exec fuel .destroy s).1.conns with
  | nil => rfl
  | cons c rest =>
    have hm : c ∈ (exec fuel .destroy s).1.conns := by rw [hc]; exact List.mem_cons_self ..
    have h1 := hall c hm
    rw [hnone c hm] at h1; cases h1

/-- `destroy_completes_all` with its seventh conjunct strengthened to `conns = []` -/
theorem destroy_completes_all_strong (fuel : Nat) (s : St) (h : Inv s) (hl : s.listCopy = [])
    (hu : ∀ c ∈ s.conns, c.unlinked = false) (hf : (exec fuel .destroy s).1.outOfFuel = false) :
    Inv (exec fuel .destroy s).1 ∧
    (exec fuel .destroy s).1.modelFaults = s.modelFaults ∧
    (exec fuel .destroy s).1.doneToks.Nodup ∧
    (∀ q ∈ s.qs, q.key ∈ s.all → ∀ tok, q.owner = .user tok → tok ∈ (exec fuel .destroy s).1.doneToks) ∧
    (exec fuel .destroy s).1.all = [] ∧ (exec fuel .destroy s).1.byQid = [] ∧
    (exec fuel .destroy s).1.conns = [] ∧
    (exec fuel .destroy s).1.alive = false ∧ (exec fuel .destroy s).1.destroyed = true := by
  obtain ⟨a, b, c, d, e, f, _, g, i⟩ := destroy_completes_all fuel s h hl hf
  exact ⟨a, b, c, d, e, f, destroy_leaves_no_connection fuel s h hl hu hf, g, i⟩

/-- the hypothesis "no half-closed connection" holds between API calls: it is kept by every completed call the driver
    makes (none of them is `closeLoop`) and by whatever leaves `conns` alone -/
theorem no_unlinked_init (cfg : Cfg) (srvs : List Server) :
    ∀ c ∈ ({ cfg := cfg, alive := true, servers := srvs } : St).conns, c.unlinked = false :=
  fun _ h => nomatch h

/-! ### non-vacuity: the example run of `C01.lean` -/
namespace Example

set_option maxRecDepth 100000 in
/-- one connection (to the first server) with request 1 outstanding, not half-closed -/
theorem s1_conns : s1.settle.conns.map (fun c => (c.fd, c.unlinked, c.queries)) = [(100, false, [0])] := by
  decide +kernel

theorem s1_no_unlinked : ∀ c ∈ s1.settle.conns, c.unlinked = false := by
  intro c hc
  have : (c.fd, c.unlinked, c.queries) ∈ s1.settle.conns.map (fun c => (c.fd, c.unlinked, c.queries)) :=
    List.mem_map_of_mem hc
  rw [s1_conns] at this
  simp only [List.mem_cons, List.not_mem_nil, or_false, Prod.mk.injEq] at this
  exact this.2.1

/-- the theorem applies to the destroy of the example run (a connection with an outstanding request exists on entry) -/
example : sD.conns = [] :=
  destroy_leaves_no_connection fuel s1.settle (inv_settle run_inv.1) destroy_result.2.2.2.2.2.2.2.1
    s1_no_unlinked destroy_result.1

/-- … and the hypothesis is what `no_unlinked_after` re-establishes along the run: `s1` is reached by a completed
    `ares_send` from the fresh channel -/
example : ∀ c ∈ s1.conns, c.unlinked = false :=
  no_unlinked_after fuel call1 _ rfl (fun _ h => nomatch h) run_completes.1

end Example

end Cares.C01
