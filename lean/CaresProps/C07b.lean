import CaresModel.Event
/-!
# C07 (event-thread part) and C11 (lock order, wait-empty) — theorems over the `Event` transition system

`Covered` is the safety form of "the event thread never outsleeps a deadline": whenever the thread is in
(or about to enter) `ev_sys->wait(timeout)`, either the wake pipe is readable — so the wait returns at once —
or the timeout it computed is no later than one millisecond after every pending deadline.  Together with
C06's termination (processing at or after a deadline retries or fails the query) this gives "every query
completes within its retry budget with no application action".
-/
namespace Cares.C07b
open Cares.Event

theorem minOpt_le {l : List Nat} {m : Nat} (h : minOpt l = some m) : ∀ d ∈ l, m ≤ d := by
  induction l generalizing m with
  | nil => simp [minOpt] at h
  | cons x r ih =>
    intro d hd
    simp only [minOpt] at h
    cases hr : minOpt r with
    | none =>
      rw [hr] at h
      simp only [Option.some.injEq] at h
      subst h
      cases r with
      | nil => simp at hd; omega
      | cons y r' =>
        simp only [minOpt] at hr
        cases h2 : minOpt r' <;> simp [h2] at hr
    | some y =>
      rw [hr] at h
      simp only [Option.some.injEq] at h
      subst h
      rcases List.mem_cons.mp hd with h1 | h1
      · subst h1; exact Nat.min_le_left _ _
      · exact Nat.le_trans (Nat.min_le_right _ _) (ih hr d h1)

theorem minOpt_none {l : List Nat} (h : minOpt l = none) : l = [] := by
  cases l with
  | nil => rfl
  | cons x r =>
    simp only [minOpt] at h
    cases hr : minOpt r <;> simp [hr] at h

/-- the sleep computed for the event thread is never 0, the value every backend reads as "wait forever"
    (obligation over the expression regenerated from ares_event_thread()) -/
theorem waitMs_pos (rem : Nat) : 0 < waitMs rem := by
  unfold waitMs Cares.Generated.Ev.timeoutMs
  omega

/-- … and oversleeps the remaining time by at most one millisecond -/
theorem waitMs_le (rem : Nat) : waitMs rem ≤ rem + 1 := by
  unfold waitMs Cares.Generated.Ev.timeoutMs
  omega

/-- … and is not shorter than the remaining time (the thread does not spin before a deadline) -/
theorem waitMs_ge (rem : Nat) : rem ≤ waitMs rem := by
  unfold waitMs Cares.Generated.Ev.timeoutMs
  omega

/-- the timeout computed by the event thread covers every deadline pending at that moment -/
theorem sleepUntil_covers (s : St) : ∀ d ∈ s.deadlines, ∃ t, sleepUntil s = some t ∧ t ≤ max d s.now + 1 := by
  intro d hd
  unfold sleepUntil
  cases hm : minOpt s.deadlines with
  | none => rw [minOpt_none hm] at hd; simp at hd
  | some m =>
    have h1 := minOpt_le hm d hd
    have h2 := waitMs_pos (m - s.now)
    have h3 := waitMs_le (m - s.now)
    simp only []
    rw [if_neg (by omega)]
    exact ⟨_, rfl, by omega⟩

/-- obligation over the wake-up guard regenerated from ares_send_query(): when a newly enqueued query does *not* wake
    the event thread, some deadline that was already pending is no later than the new one (so the sleep already
    computed covers it) -/
theorem wakeOnSend_covers (d : Nat) (p : List Nat) (h : Cares.Generated.Ev.wakeOnSend d p = false) :
    ∃ x ∈ p, x ≤ d := by
  unfold Cares.Generated.Ev.wakeOnSend at h
  rw [List.all_eq_false] at h
  obtain ⟨x, hx, hlt⟩ := h
  simp only [decide_eq_true_eq] at hlt
  exact ⟨x, hx, by omega⟩

/-- the other direction: a query whose deadline is strictly earlier than every pending one - in particular the first query
    of an idle channel, whose event thread sleeps without a timeout - always wakes the thread (over the guard regenerated
    from ares_send_query()) -/
theorem wakeOnSend_earliest (d : Nat) (p : List Nat) (h : ∀ x ∈ p, d < x) :
    Cares.Generated.Ev.wakeOnSend d p = true := by
  unfold Cares.Generated.Ev.wakeOnSend
  rw [List.all_eq_true]
  intro x hx
  have := h x hx
  simp only [decide_eq_true_eq]
  omega

theorem wakeOnSend_idle (d : Nat) : Cares.Generated.Ev.wakeOnSend d [] = true :=
  wakeOnSend_earliest d [] (by simp)

/-- the event thread's own step can only *enter* the waiting state from `inTimeout` (with the timeout just
    computed) or stay in it unchanged -/
theorem et_pc_waiting (s : St) (u : Option Nat) (hu : (etStep s).pc = .waiting u) :
    (s.pc = .inTimeout ∧ u = sleepUntil s ∧ (etStep s).deadlines = s.deadlines ∧ (etStep s).now = s.now) ∨
    (s.pc = .waiting u ∧ etStep s = s) := by
  unfold etStep at hu ⊢
  cases hp : s.pc with
  | procUpdates =>
    rw [hp] at hu; simp only [etProcUpdates] at hu
    split at hu
    · rw [hp] at hu; cases hu
    · split at hu <;> cases hu
  | wantTimeout =>
    rw [hp] at hu; simp only [etWantTimeout] at hu
    split at hu
    · cases hu
    · have : (noteAskL s).pc = s.pc := by unfold noteAskL; split <;> rfl
      rw [this, hp] at hu; cases hu
  | inTimeout =>
    rw [hp] at hu; simp only [etInTimeout, Pc.waiting.injEq] at hu
    exact Or.inl ⟨rfl, hu.symm, rfl, rfl⟩
  | waiting u' =>
    rw [hp] at hu; simp only [etWaiting] at hu
    split at hu
    · cases hu
    · rename_i hne
      rw [hp] at hu; simp only [Pc.waiting.injEq] at hu
      subst hu
      refine Or.inr ⟨rfl, ?_⟩
      simp only [etWaiting, hne, Bool.false_eq_true, ↓reduceIte]
  | wantPending =>
    rw [hp] at hu; simp only [etWantPending] at hu
    split at hu
    · cases hu
    · rw [hp] at hu; cases hu
  | wantProcess =>
    rw [hp] at hu; simp only [etWantProcess] at hu
    have hn : (noteAskL s).pc = s.pc := by unfold noteAskL; split <;> rfl
    split at hu
    · split at hu
      · cases hu
      · split at hu
        · cases hu
        · rw [hn, hp] at hu; cases hu
    · rw [hp] at hu; cases hu
  | inProcess => rw [hp] at hu; cases hu
  | relock =>
    rw [hp] at hu; simp only [etRelock] at hu
    split at hu
    · cases hu
    · rw [hp] at hu; cases hu
  | exited => rw [hp] at hu; simp only [] at hu; rw [hp] at hu; cases hu

/-- **no lost wake-up** (repaired tree): `Covered` is preserved by every step of every thread -/
theorem covered_step (s : St) (st : Step) (hw : s.wakeOnEarliest = true) (h : Covered s) :
    Covered (step s st) := by
  intro u hu
  cases st with
  | tick ms =>
    have hu' : s.pc = .waiting u := hu
    rcases h u hu' with hwk | hc
    · exact Or.inl hwk
    · refine Or.inr ?_
      intro d hd
      obtain ⟨t, ht, hle⟩ := hc d hd
      refine ⟨t, ht, ?_⟩
      show t ≤ max d (s.now + ms) + 1
      omega
  | fdEvent => exact Or.inl rfl
  | clientSend d sc =>
    simp only [step, clientSend] at hu ⊢
    split at hu
    · rename_i h1; simp only [h1, ↓reduceIte]; exact h u hu
    · rename_i h1
      split at hu
      · rename_i h2; simp only [h1, h2, ↓reduceIte]; exact h u hu
      · rename_i h2
        simp only [h1, h2, ↓reduceIte, hw, Bool.true_and]
        have hu' : s.pc = .waiting u := hu
        rcases h u hu' with hwk | hc
        · exact Or.inl (by simp [hwk])
        · by_cases he : Cares.Generated.Ev.wakeOnSend d s.deadlines = true
          · exact Or.inl (by simp [he])
          · refine Or.inr ?_
            intro d' hd'
            have hd'' : d' = d ∨ d' ∈ s.deadlines := List.mem_cons.mp hd'
            rcases hd'' with h3 | h3
            · -- the new query did not wake the thread: some pending x ≤ d is already covered
              subst h3
              have hf : Cares.Generated.Ev.wakeOnSend d' s.deadlines = false := by
                cases hb : Cares.Generated.Ev.wakeOnSend d' s.deadlines
                · rfl
                · exact absurd hb he
              obtain ⟨x, hx, hlt⟩ := wakeOnSend_covers d' s.deadlines hf
              obtain ⟨t, ht, hle⟩ := hc x hx
              refine ⟨t, ht, ?_⟩
              show t ≤ max d' s.now + 1
              omega
            · exact hc d' h3
  | client =>
    simp only [step, clientStep] at hu ⊢
    cases hc : s.cpc with
    | idle => rw [hc] at hu; simp only [] at hu ⊢; exact h u hu
    | inSend d sc =>
      rw [hc] at hu; simp only [] at hu ⊢
      split
      · split
        · rename_i h1 h2; simp only [h1, h2, ↓reduceIte] at hu; exact h u hu
        · rename_i h1 h2; simp only [h1, h2, ↓reduceIte] at hu; exact h u hu
      · rename_i h1; simp only [h1] at hu; exact h u hu
    | inUpdate d => exact Or.inl rfl
  | et =>
    have hu' : (etStep s).pc = .waiting u := hu
    show (etStep s).wake = true ∨ ∀ d ∈ (etStep s).deadlines, ∃ t, u = some t ∧ t ≤ max d (etStep s).now + 1
    rcases et_pc_waiting s u hu' with ⟨_, hu2, hd, hn⟩ | ⟨hp, heq⟩
    · refine Or.inr ?_
      intro d hdm
      rw [hd] at hdm
      obtain ⟨t, ht, hle⟩ := sleepUntil_covers s d hdm
      exact ⟨t, by rw [hu2, ht], by rw [hn]; exact hle⟩
    · rw [heq]; exact h u hp

theorem wakeOnEarliest_step (s : St) (st : Step) : (step s st).wakeOnEarliest = s.wakeOnEarliest := by
  cases st with
  | tick ms => rfl
  | fdEvent => rfl
  | clientSend d sc => simp only [step, clientSend]; repeat (first | rfl | split)
  | client => simp only [step, clientStep]; cases s.cpc <;> simp only [] <;> repeat (first | rfl | split)
  | et =>
    simp only [step, etStep]
    cases s.pc <;> simp only [etProcUpdates, etWantTimeout, etInTimeout, etWaiting, etWantPending, etWantProcess,
      etInProcess, etRelock, noteAskL] <;> repeat (first | rfl | split)

/-- **C07 (event thread), every interleaving**: on the repaired tree the event thread never sleeps past a
    pending deadline without a wake-up pending, whatever the client threads do and whenever -/
theorem sleep_covers_deadlines (s : St) (steps : List Step) (hw : s.wakeOnEarliest = true) (h : Covered s) :
    Covered (run s steps) := by
  induction steps generalizing s with
  | nil => exact h
  | cons st rest ih =>
    simp only [run, List.foldl_cons]
    exact ih (step s st) (by rw [wakeOnEarliest_step]; exact hw) (covered_step s st hw h)

/-- the initial state (thread about to process its first updates) is covered -/
theorem covered_init : Covered ({} : St) := by
  intro u hu; cases hu

/-- **F11 (pinned tree), kernel-checked**: without the wake in ares_send_query a query sent on an already
    watched connection (no socket-state change) leaves the event thread asleep with no timeout -/
theorem pinned_loses_wake :
    let s := run { wakeOnEarliest := false } [.et, .et, .et, .clientSend 150 false, .client]
    s.pc = .waiting none ∧ s.wake = false ∧ s.deadlines = [150] := by decide

theorem pinned_not_covered :
    ¬ Covered (run { wakeOnEarliest := false } [.et, .et, .et, .clientSend 150 false, .client]) := by
  intro h
  have hs := pinned_loses_wake
  simp only [] at hs
  obtain ⟨hpc, hwk, hdl⟩ := hs
  rcases h none hpc with h1 | h2
  · rw [hwk] at h1; cases h1
  · obtain ⟨t, ht, _⟩ := h2 150 (by rw [hdl]; simp)
    cases ht

-- non-vacuity: the same schedule on the repaired tree leaves a wake pending
example :
    let s := run {} [.et, .et, .et, .clientSend 150 false, .client]
    s.pc = .waiting none ∧ s.wake = true := by decide

/-! ### C11: lock order and wait-empty -/

/-- lock discipline: the event thread holds its mutex `M` only while processing updates (where it never
    asks for the channel lock `L`); a client thread takes `M` only inside `L` -/
def LockInv (s : St) : Prop :=
  (s.etHoldsM = true → s.pc = .procUpdates) ∧
  (s.cpc ≠ .idle → s.cHoldsL = true) ∧
  (s.cHoldsM = true → ∃ d, s.cpc = .inUpdate d)

theorem lockInv_init : LockInv ({} : St) := by
  refine ⟨fun _ => rfl, fun h => absurd rfl h, fun h => by cases h⟩

theorem noteAskL_id (s : St) (h : s.etHoldsM = false) : noteAskL s = s := by
  unfold noteAskL; simp [h]

theorem etHoldsM_false_of (s : St) (h1 : s.etHoldsM = true → s.pc = .procUpdates) (hp : s.pc ≠ .procUpdates) :
    s.etHoldsM = false := by
  cases hm : s.etHoldsM
  · rfl
  · exact absurd (h1 hm) hp

theorem lockInv_step (s : St) (st : Step) (h : LockInv s) : LockInv (step s st) := by
  obtain ⟨h1, h2, h3⟩ := h
  cases st with
  | tick ms => exact ⟨h1, h2, h3⟩
  | fdEvent => exact ⟨h1, h2, h3⟩
  | clientSend d sc =>
    simp only [step, clientSend]
    split
    · exact ⟨h1, h2, h3⟩
    · split
      · exact ⟨h1, h2, h3⟩
      · rename_i hidle _
        have hcm : s.cHoldsM = false := by
          cases hm : s.cHoldsM
          · rfl
          · obtain ⟨d', hd'⟩ := h3 hm
            simp [hd'] at hidle
        exact ⟨h1, fun _ => rfl, fun hm => (by simp only [] at hm; rw [hcm] at hm; cases hm)⟩
  | client =>
    simp only [step, clientStep]
    cases hc : s.cpc with
    | idle => exact ⟨h1, h2, h3⟩
    | inSend d sc =>
      simp only []
      have hl : s.cHoldsL = true := h2 (by rw [hc]; simp)
      split
      · split
        · exact ⟨h1, fun _ => hl, fun _ => ⟨d, rfl⟩⟩
        · exact ⟨h1, h2, h3⟩
      · refine ⟨h1, fun hn => absurd rfl hn, ?_⟩
        intro hm
        obtain ⟨d', hd'⟩ := h3 hm
        rw [hc] at hd'; cases hd'
    | inUpdate d =>
      exact ⟨h1, fun hn => absurd rfl hn, fun hm => (by cases hm)⟩
  | et =>
    simp only [step, etStep]
    cases hp : s.pc with
    | procUpdates =>
      simp only [etProcUpdates]
      split
      · exact ⟨h1, h2, h3⟩
      · split <;> exact ⟨fun hm => (by cases hm), h2, h3⟩
    | wantTimeout =>
      have hm0 := etHoldsM_false_of s h1 (by rw [hp]; simp)
      simp only [etWantTimeout, noteAskL_id s hm0]
      split
      · exact ⟨fun hm => (by simp only [] at hm; rw [hm0] at hm; cases hm), h2, h3⟩
      · exact ⟨fun hm => (by rw [hm0] at hm; cases hm), h2, h3⟩
    | inTimeout =>
      have hm0 := etHoldsM_false_of s h1 (by rw [hp]; simp)
      exact ⟨fun hm => (by simp only [etInTimeout] at hm; rw [hm0] at hm; cases hm), h2, h3⟩
    | waiting u =>
      have hm0 := etHoldsM_false_of s h1 (by rw [hp]; simp)
      simp only [etWaiting]
      split
      · exact ⟨fun hm => (by simp only [] at hm; rw [hm0] at hm; cases hm), h2, h3⟩
      · exact ⟨fun hm => (by rw [hm0] at hm; cases hm), h2, h3⟩
    | wantPending =>
      have hm0 := etHoldsM_false_of s h1 (by rw [hp]; simp)
      simp only [etWantPending]
      split
      · exact ⟨fun hm => (by simp only [] at hm; rw [hm0] at hm; cases hm), h2, h3⟩
      · exact ⟨fun hm => (by rw [hm0] at hm; cases hm), h2, h3⟩
    | wantProcess =>
      have hm0 := etHoldsM_false_of s h1 (by rw [hp]; simp)
      simp only [etWantProcess, noteAskL_id s hm0]
      split
      · split
        · exact ⟨fun hm => (by simp only [] at hm; rw [hm0] at hm; cases hm), h2, h3⟩
        · split
          · exact ⟨fun hm => (by simp only [] at hm; rw [hm0] at hm; cases hm), h2, h3⟩
          · exact ⟨fun hm => (by rw [hm0] at hm; cases hm), h2, h3⟩
      · exact ⟨fun hm => (by rw [hm0] at hm; cases hm), h2, h3⟩
    | inProcess =>
      have hm0 := etHoldsM_false_of s h1 (by rw [hp]; simp)
      exact ⟨fun hm => (by simp only [etInProcess] at hm; rw [hm0] at hm; cases hm), h2, h3⟩
    | relock =>
      simp only [etRelock]
      split
      · exact ⟨fun _ => rfl, h2, h3⟩
      · exact ⟨fun hm => (by have := h1 hm; rw [hp] at this; cases this), h2, h3⟩
    | exited =>
      exact ⟨fun hm => (by have := h1 hm; rw [hp] at this; cases this), h2, h3⟩

theorem violations_step (s : St) (st : Step) (h : LockInv s) :
    (step s st).lockOrderViolations = s.lockOrderViolations := by
  obtain ⟨h1, _, _⟩ := h
  cases st with
  | tick ms => rfl
  | fdEvent => rfl
  | clientSend d sc => simp only [step, clientSend]; repeat (first | rfl | split)
  | client => simp only [step, clientStep]; cases s.cpc <;> simp only [] <;> repeat (first | rfl | split)
  | et =>
    simp only [step, etStep]
    cases hp : s.pc with
    | wantTimeout =>
      have hm0 := etHoldsM_false_of s h1 (by rw [hp]; simp)
      simp only [etWantTimeout, noteAskL_id s hm0]
      split <;> rfl
    | wantProcess =>
      have hm0 := etHoldsM_false_of s h1 (by rw [hp]; simp)
      simp only [etWantProcess, noteAskL_id s hm0]
      repeat (first | rfl | split)
    | procUpdates => simp only [etProcUpdates]; repeat (first | rfl | split)
    | inTimeout => rfl
    | waiting u => simp only [etWaiting]; repeat (first | rfl | split)
    | wantPending => simp only [etWantPending]; repeat (first | rfl | split)
    | inProcess => rfl
    | relock => simp only [etRelock]; repeat (first | rfl | split)
    | exited => rfl

/-- **C11 lock order**: no thread ever asks for the channel lock while holding the event-thread mutex
    (the only nesting is channel lock → event mutex), in every interleaving -/
theorem lock_order_acyclic (s : St) (steps : List Step) (h : LockInv s) :
    LockInv (run s steps) ∧ (run s steps).lockOrderViolations = s.lockOrderViolations := by
  induction steps generalizing s with
  | nil => exact ⟨h, rfl⟩
  | cons st rest ih =>
    have hstep := lockInv_step s st h
    obtain ⟨hi, hv⟩ := ih (step s st) hstep
    have hr : run s (st :: rest) = run (step s st) rest := rfl
    rw [hr]
    exact ⟨hi, by rw [hv, violations_step s st h]⟩

/-- **C11 no lock-order deadlock**: the event thread never blocks while holding its mutex — whenever it holds
    `M` its next step is enabled and releases `M` — so a client waiting for `M` (inside `L`) always gets it -/
theorem et_releases_mutex (s : St) (h : LockInv s) (hm : s.etHoldsM = true) :
    (step s .et).etHoldsM = false := by
  have hp := h.1 hm
  simp only [step, etStep, hp, etProcUpdates, hm, Bool.not_true, Bool.false_eq_true, ↓reduceIte]
  split <;> rfl

/-- **C11 wait-empty**: `ares_queue_wait_empty` evaluates its loop condition under the channel lock; it
    reports success only when it saw no outstanding request and had not timed out -/
theorem wait_empty_sound (queries : Nat) (timedOut : Bool) :
    waitEmptyReturnsSuccess queries timedOut = true → queries = 0 := by
  unfold waitEmptyReturnsSuccess
  intro h
  simp only [Bool.and_eq_true, beq_iff_eq] at h
  exact h.1

end Cares.C07b
