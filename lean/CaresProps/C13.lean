import CaresLemmas.LegacyAddr
import CaresLemmas.LegacySorted
import CaresLemmas.LegacyPtr
/-!
# C13 — address lookups return exactly the addresses the answers contain (pure part)

Property theorems for the pure conversions; the end-to-end lookups (merge of the A and AAAA sub-queries,
hosts file, lookup order, the names actually queried) are tied by the channel simulator, which imports
`Cares.AddrInfo.addrinfoOfAnswer` (characterised by `addrinfoOfAnswer_spec`) and `merge_appends`.

* `addrs_exact` / `addrs_multiset` — the nodes made from an answer are exactly its A/AAAA records in class
  IN, in answer order, each with the port and the record TTL: none invented, duplicated or dropped.
  (`ares_parse_into_addrinfo` does **not** compare owner names with the CNAME chain — issue #683 in the
  source — so "for the followed CNAME chain" means: all address records of the answer section.)
* `hostent_addrs_family`, `addrttl_family_capacity` — the conversions keep exactly the requested family, in
  order (and at most the offered capacity).
* `sort_is_permutation`, `sort_is_sorted` (sortlist insertion sort, proved directly on the array algorithm),
  `sortaddrinfo_is_permutation` (RFC 6724 sort: for *every* permutation `qsort` may return, the relinked list
  is that permutation of the input), `relink_walk`.
* `localhost_addrs`, `fake_addrs`; `fake_family_partial` + `fake_family_fails` (an IPv4 literal is returned
  for an AF_INET6-only request).
* `ptr_name_correct`, `ptr_name_injective`, `reverse_returns_ptr_targets`.
-/
namespace Cares.C13
open Cares.Legacy Cares.AddrInfo

/-! ## expected side -/

/-- answers in class IN, in answer order -/
def inAnswers (r : LRec) : List RR := r.answers.filter (fun rr => rr.cls = clsIN)

/-- the address record an answer carries, as (family, address, port, ttl) -/
def addrRecord (port : Nat) (rr : RR) : Option AddrNode :=
  match rr.data with
  | .a x => some { family := afINET, addr := x, port := port, ttl := toI32 rr.ttl }
  | .aaaa x => some { family := afINET6, addr := x, port := port, ttl := toI32 rr.ttl }
  | _ => none

/-- the A/AAAA records of the answer section -/
def answerAddrs (port : Nat) (r : LRec) : List AddrNode := (inAnswers r).filterMap (addrRecord port)

def isCnameRR (rr : RR) : Bool := match rr.data with | .cname _ => true | _ => false

private theorem nodeOf_eq (port : Nat) (r : LRec) : r.answers.filterMap (nodeOf port) = answerAddrs port r := by
  unfold answerAddrs inAnswers
  induction r.answers with
  | nil => rfl
  | cons rr rest ih =>
    simp only [List.filterMap_cons, List.filter_cons]
    by_cases hc : rr.cls = clsIN
    · cases hd : rr.data <;> simp_all [nodeOf, addrRecord]
    · simp_all [nodeOf]

/-! ## the addresses of one answer -/

/-- `ares_parse_into_addrinfo` on a fresh addrinfo: SUCCESS gives exactly the address records of the
    answer, in order, with port and TTL; the only other outcome is ENODATA with nothing added -/
theorem addrs_exact (r : LRec) (q : Bytes) (qs : List Bytes) (hq : r.questions = q :: qs) (cn : Bool) (port : Nat) :
    (parseIntoAddrinfo r cn port {}).1 = .success ∧ (parseIntoAddrinfo r cn port {}).2.nodes = answerAddrs port r
    ∨ (parseIntoAddrinfo r cn port {}).1 = .enodata ∧ (parseIntoAddrinfo r cn port {}).2 = {} := by
  rw [parseIntoAddrinfo_fresh r q qs hq cn port]
  split
  · exact Or.inl ⟨rfl, nodeOf_eq port r⟩
  · exact Or.inr ⟨rfl, rfl⟩

/-- multiset form: every (family, address, port, ttl) occurs in the result as often as in the answer -/
theorem addrs_multiset (r : LRec) (q : Bytes) (qs : List Bytes) (hq : r.questions = q :: qs) (cn : Bool) (port : Nat)
    (h : (parseIntoAddrinfo r cn port {}).1 = .success) (n : AddrNode) :
    (parseIntoAddrinfo r cn port {}).2.nodes.count n = (answerAddrs port r).count n := by
  rcases addrs_exact r q qs hq cn port with ⟨_, h2⟩ | ⟨h1, _⟩
  · rw [h2]
  · rw [h] at h1; cases h1

/-- what the simulator imports -/
theorem addrinfoOfAnswer_spec (r : LRec) (q : Bytes) (qs : List Bytes) (hq : r.questions = q :: qs)
    (cn : Bool) (port : Nat) :
    addrinfoOfAnswer r port cn =
      if usable cn r.answers then .ok (answerAddrs port r, r.answers.filterMap cnameOf) else .error .enodata := by
  unfold addrinfoOfAnswer
  rw [parseIntoAddrinfo_fresh r q qs hq cn port]
  by_cases hu : usable cn r.answers = true
  · simp [hu, nodeOf_eq]
  · simp [hu]

/-- merging a further answer (second sub-query): on SUCCESS the new nodes and cnames are appended after
    what is already there, otherwise (ENODATA) the addrinfo is unchanged -/
theorem merge_appends (r : LRec) (q : Bytes) (qs : List Bytes) (hq : r.questions = q :: qs) (cn : Bool) (port : Nat)
    (ai : AddrInfo) :
    ((parseIntoAddrinfo r cn port ai).1 = .success ∧
      (parseIntoAddrinfo r cn port ai).2.nodes = ai.nodes ++ answerAddrs port r ∧
      (parseIntoAddrinfo r cn port ai).2.cnames = ai.cnames ++ r.answers.filterMap cnameOf)
    ∨ ((parseIntoAddrinfo r cn port ai).1 = .enodata ∧ (parseIntoAddrinfo r cn port ai).2 = ai) := by
  unfold parseIntoAddrinfo
  have hqn : r.queryName = .ok q := by simp [LRec.queryName, hq]
  simp only [hqn]
  by_cases he : r.answers.isEmpty = true
  · simp [he]
  · simp only [he, Bool.false_eq_true, ↓reduceIte]
    simp only [pLoop_gotA, pLoop_gotAaaa, pLoop_gotCname, pLoop_nodes, pLoop_cnames,
      Bool.false_or, List.nil_append]
    have hN : (if (r.answers.any isA || r.answers.any isAaaa) = true
        then ai.nodes ++ r.answers.filterMap (nodeOf port) else ai.nodes) = ai.nodes ++ answerAddrs port r := by
      rw [← nodeOf_eq]
      by_cases h : (r.answers.any isA || r.answers.any isAaaa) = true
      · simp [h]
      · have h' : r.answers.any isA = false ∧ r.answers.any isAaaa = false := by simpa using h
        simp [h, filterMap_nodeOf_nil port _ h'.1 h'.2]
    have hC : (if r.answers.any isCname = true
        then ai.cnames ++ r.answers.filterMap cnameOf else ai.cnames) = ai.cnames ++ r.answers.filterMap cnameOf := by
      by_cases h : r.answers.any isCname = true
      · simp [h]
      · have h' : r.answers.any isCname = false := by simpa using h
        simp [h', filterMap_cnameOf_nil _ h']
    split
    · exact Or.inr ⟨rfl, rfl⟩
    · exact Or.inl ⟨rfl, hN, hC⟩

/-! ## hostent / addrttl: exactly the requested family, in order, within the capacity -/

theorem hostent_addrs_family (ai : AddrInfo) (family : Nat) (h : Hostent)
    (hh : addrinfo2hostent ai family = (.success, some h)) :
    h.addrs = (ai.nodes.filter (fun n => n.family = h.addrtype)).map (·.addr) ∧
    (family ≠ afUNSPEC → h.addrtype = family) ∧
    (family = afUNSPEC → ∃ n, ai.nodes.head? = some n ∧ h.addrtype = n.family) := by
  unfold addrinfo2hostent at hh
  simp only at hh
  generalize hfam : (if family = afUNSPEC then (ai.nodes.head?.map (·.family)).getD family else family) = fam at hh
  split at hh
  · simp at hh
  · rename_i hvalid
    split at hh
    · simp at hh
    · simp only [Prod.mk.injEq, Option.some.injEq, true_and] at hh
      rw [← hh]
      refine ⟨rfl, ?_, ?_⟩
      · intro hne; simp only [hne, ↓reduceIte] at hfam; exact hfam.symm
      · intro he
        simp only [he, ↓reduceIte] at hfam
        cases hn : ai.nodes.head? with
        | none =>
          simp only [hn, Option.map_none, Option.getD_none] at hfam
          exfalso; apply hvalid; subst hfam; constructor <;> decide
        | some n =>
          simp only [hn, Option.map_some, Option.getD_some] at hfam
          exact ⟨n, rfl, hfam.symm⟩

theorem addrttl_family_capacity (ai : AddrInfo) (family req : Nat) :
    (addrinfo2addrttl ai family req).2.length ≤ req ∧
    ((addrinfo2addrttl ai family req).1 = .success →
      (addrinfo2addrttl ai family req).2.map (·.1) =
        ((ai.nodes.filter (fun n => n.family = family)).map (·.addr)).take req) := by
  refine ⟨?_, ?_⟩
  · unfold addrinfo2addrttl
    split
    · simp
    · split
      · simp
      · exact ttlLoop_length_le _ _ _ _ _ (by simp)
  · unfold addrinfo2addrttl
    split
    · simp
    · split
      · simp
      · intro _
        rw [ttlLoop_eq _ _ _ _ _ (by simp)]
        simp [List.map_take, ttlEntry, Function.comp_def]

/-! ## the two sorts neither invent, duplicate nor drop -/

/-- `sort_addresses` / `sort6_addresses` (the array insertion sort, as coded) permute the addresses -/
theorem sort_is_permutation {α : Type} (ind : α → Nat) (l : List α) : (sortAddresses ind l).Perm l :=
  foldl_sortStep_perm ind _ l

/-- … and really sort: afterwards the addresses are in ascending order of their sortlist index
    (`ind` = index of the first matching sortlist entry, `nsort` when none matches) -/
theorem sort_is_sorted {α : Type} (ind : α → Nat) (l : List α) (i j : Nat) (a b : α) (hij : i < j)
    (ha : (sortAddresses ind l)[i]? = some a) (hb : (sortAddresses ind l)[j]? = some b) : ind a ≤ ind b := by
  have h := foldl_sortStep_sorted ind l.length l (Nat.le_refl _)
  have hj : j < l.length := by
    have := (List.getElem?_eq_some_iff.mp hb).1
    unfold sortAddresses at this
    rw [h.2] at this
    exact this
  exact h.1 i j a b hij hj ha hb

/-- the relink loop of `ares_sortaddrinfo`: walking the list afterwards yields exactly the array order -/
theorem relink_walk (elems : List Nat) (links : Links) (hn : elems.Nodup) (hb : ∀ e ∈ elems, e < links.length) :
    walk (relink elems links).2 elems.length (relink elems links).1 = elems := by
  unfold relink
  exact relink_walk_aux elems links hn hb elems.length (Nat.le_refl _)

/-- `ares_sortaddrinfo`: whatever permutation `perm` of the element array `qsort` returns, the resulting
    list is that permutation of the input nodes (status SUCCESS), and on failure the list is unchanged -/
theorem sortaddrinfo_is_permutation (nodes : List AddrNode) (specs : List SrcSpec) (perm : List Nat)
    (hp : perm.Perm (List.range nodes.length)) :
    (sortAddrinfoWith nodes specs perm).2.Perm nodes := by
  unfold sortAddrinfoWith
  split
  · exact List.Perm.refl _
  · split
    · exact List.Perm.refl _
    · simp only
      have hn : perm.Nodup := (List.Perm.nodup_iff hp).mpr List.nodup_range
      have hb : ∀ e ∈ perm, e < (List.replicate nodes.length (none : Option Nat)).length := by
        intro e he
        have := (List.Perm.mem_iff hp).mp he
        simpa using this
      have hlen : perm.length = nodes.length := by rw [List.Perm.length_eq hp]; simp
      have hw := relink_walk perm (List.replicate nodes.length none) hn hb
      rw [hlen] at hw
      unfold relink at hw ⊢
      simp only at hw ⊢
      rw [hw]
      have := List.Perm.filterMap (fun i => nodes[i]?) hp
      rw [range_filterMap_getElem?] at this
      exact this

/-- the executable model (`sortAddrinfo`, with an insertion sort standing in for `qsort`) is an instance:
    its output is a permutation of the nodes -/
theorem model_sort_is_permutation (nodes : List AddrNode) (specs : List SrcSpec) :
    (sortAddrinfo nodes specs).2.1.Perm nodes := by
  unfold sortAddrinfo
  cases h : mkElems nodes specs 0 with
  | none => simp only; split <;> exact List.Perm.refl _
  | some elems =>
    simp only
    apply sortaddrinfo_is_permutation
    have h1 := (isort_perm rfc6724Compare elems).map (·.order)
    rw [mkElems_order nodes specs 0 elems h] at h1
    rw [List.range_eq_range']
    exact h1

/-! ## loopback rule and literals -/

/-- `ares_addrinfo_localhost` on an addrinfo without nodes: ::1 and/or 127.0.0.1 for the requested family,
    with the port, TTL 0 -/
theorem localhost_addrs (name : Bytes) (port family : Nat) (ai : AddrInfo) (hn : ai.nodes = [])
    (hf : family = afINET ∨ family = afINET6 ∨ family = afUNSPEC) :
    (addrinfoLocalhost name port family ai).1 = .success ∧
    (addrinfoLocalhost name port family ai).2.nodes =
      (if family = afUNSPEC ∨ family = afINET6 then
        [{ family := afINET6, addr := loopback6, port := port, ttl := 0 }] else []) ++
      (if family = afUNSPEC ∨ family = afINET then
        [{ family := afINET, addr := loopback4, port := port, ttl := 0 }] else []) := by
  unfold addrinfoLocalhost
  rcases hf with h | h | h <;> subst h <;> simp [hn, hasFamily, afINET, afINET6, afUNSPEC]

/-- a literal gives exactly one node: the address `inet_pton` read, with the port, TTL 0 -/
theorem fake_addrs (name : Bytes) (port family flags : Nat) (p4 p6 : Option Bytes) (ai : AddrInfo)
    (h : fakeAddrinfo name port family flags p4 p6 {} = some ai) :
    ∃ n, ai.nodes = [n] ∧ n.port = port ∧ n.ttl = 0 ∧
      ((n.family = afINET ∧ p4 = some n.addr) ∨ (n.family = afINET6 ∧ p6 = some n.addr)) := by
  unfold fakeAddrinfo at h
  simp only at h
  split at h
  · simp at h
  · rename_i n hn
    simp only [List.nil_append, Option.some.injEq] at h
    refine ⟨n, by rw [← h], ?_⟩
    split at hn
    · rename_i n4 h4
      simp only [Option.some.injEq] at hn
      subst hn
      split at h4
      · split at h4
        · cases p4 with
          | none => simp at h4
          | some a => simp only [Option.map_some, Option.some.injEq] at h4; subst h4; simp
        · simp at h4
      · simp at h4
    · split at hn
      · cases p6 with
        | none => simp at hn
        | some a => simp only [Option.map_some, Option.some.injEq] at hn; subst hn; simp
      · simp at hn

/-  Full statement ("restricted to the requested family"):

      theorem fake_family (h : fakeAddrinfo name port family flags p4 p6 {} = some ai) (hf : family ≠ afUNSPEC) :
          ∀ n ∈ ai.nodes, n.family = family

    FALSE on the tree for an IPv4 literal requested with AF_INET6 (`fake_family_fails`); it holds when the
    name does not look like a dotted quad or the family is not AF_INET6: -/
theorem fake_family_partial (name : Bytes) (port family flags : Nat) (p4 p6 : Option Bytes) (ai : AddrInfo)
    (h : fakeAddrinfo name port family flags p4 p6 {} = some ai) (hf : family = afINET ∨ family = afINET6)
    (hx : ¬ (family = afINET6 ∧ looksV4 name = true ∧ p4.isSome = true)) :
    ∀ n ∈ ai.nodes, n.family = family := by
  unfold fakeAddrinfo at h
  simp only at h
  split at h
  · simp at h
  · rename_i n hn
    simp only [List.nil_append, Option.some.injEq] at h
    intro m hm
    rw [← h] at hm
    simp only [List.mem_singleton] at hm
    subst hm
    split at hn
    · rename_i n4 h4
      simp only [Option.some.injEq] at hn
      subst hn
      split at h4
      · split at h4
        · rename_i hl
          cases p4 with
          | none => simp at h4
          | some a =>
            simp only [Option.map_some, Option.some.injEq] at h4
            subst h4
            rcases hf with hf | hf
            · exact hf.symm
            · exact absurd ⟨hf, hl, rfl⟩ hx
        · simp at h4
      · simp at h4
    · split at hn
      · rename_i h6
        cases p6 with
        | none => simp at hn
        | some a =>
          simp only [Option.map_some, Option.some.injEq] at hn
          subst hn
          rcases hf with hf | hf
          · subst hf; rcases h6 with h6 | h6 <;> cases h6
          · exact hf.symm
      · simp at hn

/-- kernel-checked counterexample: "1.2.3.4" requested with AF_INET6 gives an AF_INET node -/
theorem fake_family_fails :
    (fakeAddrinfo [49, 46, 50, 46, 51, 46, 52] 80 afINET6 0 (some [1, 2, 3, 4]) none {}).map
      (fun ai => ai.nodes.map (·.family)) = some [afINET] := by decide

/-! ## reverse lookups -/

/-- the reverse-map name `ares_dns_addr_to_ptr` builds reads back, by RFC 1035 §3.5 (octets reversed, decimal,
    `in-addr.arpa`) / RFC 3596 §2.5 (nibbles reversed, hex, `ip6.arpa`), as the very same address -/
theorem ptr_name_correct (family : Nat) (addr : Bytes)
    (h : (family = afINET ∧ addr.length = 4) ∨ (family = afINET6 ∧ addr.length = 16)) :
    (addrToPtr family addr).bind parsePtrName = some (family, addr) := by
  rcases h with ⟨rfl, hl⟩ | ⟨rfl, hl⟩
  · exact ptr_v4 addr hl
  · exact ptr_v6 addr hl

/-- hence different addresses are never mapped to the same reverse name -/
theorem ptr_name_injective (f1 f2 : Nat) (a1 a2 : Bytes)
    (h1 : (f1 = afINET ∧ a1.length = 4) ∨ (f1 = afINET6 ∧ a1.length = 16))
    (h2 : (f2 = afINET ∧ a2.length = 4) ∨ (f2 = afINET6 ∧ a2.length = 16))
    (he : addrToPtr f1 a1 = addrToPtr f2 a2) : f1 = f2 ∧ a1 = a2 := by
  have e1 := ptr_name_correct f1 a1 h1
  have e2 := ptr_name_correct f2 a2 h2
  rw [he, e2] at e1
  simp only [Option.some.injEq, Prod.mk.injEq] at e1
  exact ⟨e1.1.symm, e1.2.symm⟩

def ptrTarget : RData → Option Bytes
  | .ptr d => some d
  | _ => none

/-- `ares_parse_ptr_reply_dnsrec`: the host names returned are exactly the targets of the PTR answers in
    class IN, in order (`h_name` = the last one); the address handed in is handed back; ENODATA iff none -/
theorem reverse_returns_ptr_targets (r : LRec) (q : Bytes) (qs : List Bytes) (hq : r.questions = q :: qs)
    (addr : Option Bytes) (addrlen family : Nat) :
    parsePtrReply r addr addrlen family =
      let names := (inAnswers r).filterMap (fun rr => ptrTarget rr.data)
      match names.getLast? with
      | none => (.enodata, none)
      | some last => (.success, some { name := some last, aliases := names, addrtype := family,
                                       length := addrlen, addrs := addr.toList }) := by
  have key : r.answers.filterMap ptrOf = (inAnswers r).filterMap (fun rr => ptrTarget rr.data) := by
    unfold inAnswers
    induction r.answers with
    | nil => rfl
    | cons rr rest ih =>
      simp only [List.filterMap_cons, ih, List.filter_cons]
      by_cases hc : rr.cls = clsIN
      · cases hd : rr.data <;> simp [ptrOf, ptrTarget, hc, hd]
      · simp [ptrOf, hc]
  unfold parsePtrReply
  have hqn : r.queryName = .ok q := by simp [LRec.queryName, hq]
  simp only [hqn]
  by_cases h : r.answers.isEmpty = true
  · have h0 : r.answers = [] := by simpa using h
    simp [h, inAnswers, h0]
  · simp only [h, Bool.false_eq_true, ↓reduceIte, ptrFold_hostname, ptrFold_aliases, key, List.nil_append,
      Option.or_none]
    cases hl : ((inAnswers r).filterMap (fun rr => ptrTarget rr.data)).getLast? with
    | none => simp
    | some last => cases addr <;> simp

/-! ## non-vacuity -/

def sample : LRec :=
  { questions := [[119]],
    answers := [
      { name := [119], cls := 1, ttl := 100, data := .cname [99] },
      { name := [99], cls := 1, ttl := 300, data := .a [1, 2, 3, 4] },
      { name := [99], cls := 3, ttl := 300, data := .a [9, 9, 9, 9] },
      { name := [99], cls := 1, ttl := 7, data := .aaaa [0, 0, 0, 0, 0, 0, 0, 0, 0, 0, 0, 0, 0, 0, 0, 1] } ] }

example : addrinfoOfAnswer sample 80 =
    .ok ([{ family := 2, addr := [1, 2, 3, 4], port := 80, ttl := 300 },
          { family := 10, addr := [0, 0, 0, 0, 0, 0, 0, 0, 0, 0, 0, 0, 0, 0, 0, 1], port := 80, ttl := 7 }],
         [{ ttl := 100, alias := some [119], name := some [99] }]) := by rfl

example : addrToPtr afINET [192, 0, 2, 1] =
    some [49, 46, 50, 46, 48, 46, 49, 57, 50, 46, 105, 110, 45, 97, 100, 100, 114, 46, 97, 114, 112, 97] := by
  decide  -- "1.2.0.192.in-addr.arpa"

example : sortAddresses (fun x : Nat => x % 10) [23, 11, 42, 31, 5] = [11, 31, 42, 23, 5] := by decide

example : (sortAddrinfoWith
    [{ family := 2, addr := [1, 1, 1, 1], port := 0, ttl := 0 }, { family := 2, addr := [2, 2, 2, 2], port := 0, ttl := 0 }]
    [.noSrc, .noSrc] [1, 0]).2.map (·.addr) = [[2, 2, 2, 2], [1, 1, 1, 1]] := by decide

end Cares.C13
