import CaresProps.C09
/-!
# C09 — non-vacuity of the whole-run probe theorems (concrete runs, kernel-evaluated)

Companion of `CaresProps/C09.lean` (`probe_only_failed_servers_run`, `probe_noninterference_run`,
`one_probe_per_send_partial`, `failed_probe_releases_pending`, `cancel_releases_probes`,
`probe_early_failure_releases`): the guarded semantics really evaluates its assertions, the assertions can fail, the
bounds are attained, and "a failed probe releases `probe_pending`" as runs — time-out and failed write (the pinned C
code left the flag set: finding F48-C09, repaired in `server_increment_failures`) — and a probe ended by `ares_cancel`
or by an early failure of its own `ares_send_nolock` releases it through its callback (finding F49-C09, repaired:
`server_probe_cb` gets the probed server and resets the flag).
-/
namespace Cares.C09
open Cares.Chan

/-- the assertion is not vacuous: a probe to server 1 (no failures) is refused, and so is one to the failed server 0
    when the triggering request is missing from the pick log -/
example : (guardGo (exec 10) (.sendNolock (some 1) true true exSpec (.probe 1) []) exStP).1.outOfFuel = true ∧
    probeSendOk 0 exStP = false ∧
    probeSendOk 0 { (exStP.modServer 0 fun v => { v with probePending := true }) with
      picks := [(0, 1, false, [(1, 0), (2, 0), (0, 1)])] } = true := by decide

/-- the bound of `one_probe_per_send_partial` is attained: two queries (no compound request, no reaction) -/
example : exStP.clients = [] ∧ exStP.reactions = [] ∧
    (exec 60 (.sendNolock none false false exSpec (.user 1) []) exStP).1.nextKey = exStP.nextKey + 2 :=
  ⟨rfl, rfl, by decide⟩

/-- … and with a reaction: the request (`no_retries`, key 0) fails at once on server 0, its callback starts a second
    request (key 1, to server 1), which sends a probe (key 2) to server 0: three queries ≤ 2 + 2·1 -/
def exReact : St :=
  { alive := true
    cfg := { retryChance := 1, retryDelay := 0 }
    servers := [{ id := 0, addr := "a" }, { id := 1, addr := "b" }]
    obs := { rnd2 := [7, 9, 4, 11, 12, 13, 14, 15] }
    faults := [{ call := "socket", nth := 1, err := 111 }]
    reactions := [(1, { kind := "send", name := "6579", qtype := 1 })] }

example :
    let r := (exec 80 (.sendNolock none false true exSpec (.user 1) [1]) exReact).1
    r.nextKey = 3 ∧ r.reactSeq = 1 ∧ r.doneToks = [1] ∧
    r.qs.map (fun q => (q.key, q.owner)) = [(1, .user 10000), (2, .probe 0)] ∧ r.outOfFuel = false := by decide

/-- a probe completes (here: timeout status): its query is gone, the user's query and tokens are as before, no event is emitted -/
example :
    let s := (exec 60 (.sendNolock none false false exSpec (.user 1) []) exStP).1
    let r := (exec 5 (.endQuery none 1 .timeout none) s).1
    r.outOfFuel = false ∧ r.qs.map (·.key) = [0] ∧ r.doneToks = s.doneToks ∧ r.pendingToks = s.pendingToks ∧
    r.ev.length = s.ev.length := by decide

/-- `failed_probe_releases_pending` as a run: the user's request is answered by server 1, the probe to the failed
    server 0 times out at 2000 ms (`process_timeouts`: `server_increment_failures`, then `ares_requeue_query` →
    `end_query(NULL)`): server 0 now has two failures, its retry time is 7000 — and `probe_pending` is cleared again.
    At 9000 ms a new request draws the lottery (chance 1/1) and sends a probe (two queries, the second owned by
    `probe`, `nextKey = 4`).  The pinned C code cleared the flag only in `end_query(server ≠ NULL)` and so left it set
    here (finding F48-C09, repaired in `server_increment_failures`): with the flag still set the same request sends
    **no** probe (one query, `nextKey = 3`) — the last two lines of the run.
    (`exCancelled`, below: `ares_cancel` releases a probe in flight without a failure of its server and without
    `end_query` — finding F49-C09, repaired in `server_probe_cb`.) -/
def okReply : Reply := { id := 7, name := "6578", qtype := 1, qclass := 1, rcode := 0, an := 1, ttls := [60], len := 20 }
def exAnswered : St :=
  (exec 200 (.processRead 100)
    ((exec 60 (.sendNolock none false false exSpec (.user 1) []) exStP).1.settle.modSock 100 fun v =>
      { v with rx := [okReply] })).1.settle
def exProbeTimedOut : St := (exec 200 .processTimeouts { exAnswered with now := 2000 }).1.settle
def exLater (s : St) : St :=
  (exec 60 (.sendNolock none false false exSpec (.user 2) []) { s with now := 9000, obs := { rnd2 := [8, 3, 5, 6] } }).1
def exCancelled : St := (exec 200 .cancel exAnswered).1.settle

example :
    exAnswered.doneToks = [1] ∧ exAnswered.qs.map (fun q => (q.key, q.owner)) = [(1, .probe 0)] ∧
    exAnswered.servers.map (fun v => (v.id, v.failures, v.probePending, v.nextRetry)) =
      [(0, 1, true, 0), (1, 0, false, 0), (2, 0, false, 0)] ∧
    exProbeTimedOut.qs.map (·.key) = [] ∧
    exProbeTimedOut.servers.map (fun v => (v.id, v.failures, v.probePending, v.nextRetry)) =
      [(0, 2, false, 7000), (1, 0, false, 0), (2, 0, false, 0)] ∧
    (exLater exProbeTimedOut).qs.map (fun q => (q.key, q.owner)) = [(2, .user 2), (3, .probe 0)] ∧
    (exLater exProbeTimedOut).nextKey = 4 ∧
    (exLater exProbeTimedOut).outOfFuel = false ∧ (exLater exProbeTimedOut).modelFaults = [] ∧
    (exLater exProbeTimedOut).obsFaults = [] ∧
    (exLater (exProbeTimedOut.modServer 0 fun v => { v with probePending := true })).qs.map
      (fun q => (q.key, q.owner)) = [(2, .user 2)] ∧
    (exLater (exProbeTimedOut.modServer 0 fun v => { v with probePending := true })).nextKey = 3 := by decide

/-- finding F49-C09 (repaired): `ares_cancel` with a probe in flight.  The walk releases the probe query and calls
    its callback `server_probe_cb(server 0)`, which resets `probe_pending` (`cancel_releases_probes`): afterwards no
    query is left, server 0 still has its one failure (a cancel is not a failure of the server) and is no longer marked
    as being probed, and a later request (`exLater`, chance 1/1) probes it again — key 3, owner `probe 0`, flag set.
    Before the repair the callback was a no-op: the flag stayed `true` for good and `exLater exCancelled` created the
    user's query only (that pinned behaviour is the last line: the same later request from the state with the flag
    forced back to `true` sends no probe). -/
example :
    exCancelled.qs.map (·.key) = [] ∧ exCancelled.outOfFuel = false ∧ exCancelled.modelFaults = [] ∧
    exCancelled.servers.map (fun v => (v.id, v.failures, v.probePending, v.nextRetry)) =
      [(0, 1, false, 0), (1, 0, false, 0), (2, 0, false, 0)] ∧
    (exLater exCancelled).qs.map (fun q => (q.key, q.owner)) = [(2, .user 2), (3, .probe 0)] ∧
    (exLater exCancelled).servers.map (fun v => (v.id, v.failures, v.probePending)) =
      [(0, 1, true), (1, 0, false), (2, 0, false)] ∧
    (exLater exCancelled).outOfFuel = false ∧ (exLater exCancelled).modelFaults = [] ∧
    (exLater exCancelled).obsFaults = [] ∧
    (exLater (exCancelled.modServer 0 fun v => { v with probePending := true })).qs.map
      (fun q => (q.key, q.owner)) = [(2, .user 2)] := by decide

/-- the hypotheses of `cancel_releases_probes` hold of the example state (probe key 1 to server 0 in flight) … -/
theorem exAnswered_cancelPre : CancelPre exAnswered := by
  refine ⟨⟨by decide, ?_⟩, by decide, ?_⟩
  · intro v hv hp
    have h0 : ∀ v ∈ exAnswered.servers, v.probePending = true → v.id = 0 := by decide
    have h1 : (exAnswered.query? 1).map (·.owner) = some (.probe 0) := by decide
    right
    cases hq : exAnswered.query? 1 with
    | none => rw [hq] at h1; cases h1
    | some q =>
      rw [hq] at h1
      refine ⟨1, q, hq, ?_⟩
      rw [h0 v hv hp]; simpa using h1
  · intro k q pid hq _
    have hall : ∀ q ∈ exAnswered.qs, q.key ∈ exAnswered.all := by decide
    rw [← query?_key hq]; exact hall q (query?_mem hq)

/-- … and the theorem gives what the run `exCancelled` shows: after the cancel no server is marked as being probed -/
example : ∀ v ∈ (exec 200 .cancel exAnswered).1.servers, v.probePending = false :=
  (cancel_releases_probes 200 exAnswered exAnswered_cancelPre (by decide) (by decide)).2.2.2.2 (by decide) (by decide)

/-- `probe_early_failure_releases` on a concrete state: server 0 has been flagged by `ares_probe_failed_server`, the
    probe's own `ares_send_nolock` fails before a query exists (a name of 260 text bytes does not serialise): status
    EFORMERR, no query created, the flag is down again.  The start state satisfies `ProbeInvH (some 0)` (flag without
    query, server 0 exempt), which is what `probe_pending_has_probe` asks of it.  (The length of the name is
    established by lemma, not by evaluation: the kernel evaluates operations on long strings very slowly.) -/
def exLongName : String := String.ofList (List.replicate 520 '6')
theorem exLongName_length : exLongName.length = 520 := by
  unfold exLongName
  rw [String.length_ofList, List.length_replicate]
theorem long_of_length (nm : String) (h : nm.length = 520) : nameTextLen nm > 255 := by
  unfold nameTextLen
  omega
example :
    let s := exStP.modServer 0 fun v => { v with probePending := true }
    let r := exec 10 (.sendNolock (some 0) true true { name := exLongName, qtype := 1 } (.probe 0) []) s
    s.servers.map (fun v => (v.id, v.probePending)) = [(0, true), (1, false), (2, false)] ∧
    r.2 = .formerr ∧ r.1.qs.length = 0 ∧ r.1.nextKey = s.nextKey ∧
    r.1.servers.map (fun v => (v.id, v.probePending)) = [(0, false), (1, false), (2, false)] ∧
    r.1.outOfFuel = false := by
  intro s r
  have e : r = (releaseProbe 0 (genQid 70000 s).2, .formerr) :=
    (probe_early_failure_releases 8 (some 0) true true { name := exLongName, qtype := 1 } 0 [] s).2.1
      (by decide) rfl (long_of_length _ exLongName_length)
  rw [e]
  decide

example : ProbeInvH (some 0) (exStP.modServer 0 fun v => { v with probePending := true }) := by
  refine ⟨by decide, fun v hv hp => Or.inl ?_⟩
  have h0 : ∀ v ∈ (exStP.modServer 0 fun v => { v with probePending := true }).servers,
      v.probePending = true → v.id = 0 := by decide
  rw [h0 v hv hp]

/-- why `probe_noninterference_run` is a frame statement and not "the user's outcome does not depend on
    `retryChance`": request 1 is in flight on the UDP connection 100 to server 0 when that server is marked failed;
    request 2 goes to server 1 and (chance 1/1) sends a probe to server 0 on the same connection; the probe's write
    fails (`sendto` → ECONNREFUSED), `handle_conn_error` closes connection 100 and requeues *every* query on it:
    request 1 loses a try and moves to connection 101.  With `retryChance = 0` request 1 is not touched.
    (Reproduced on the library: `replay/probe-write-failure-requeues-user.txt`.)
    The same run is the synchronous send-failure path of `failed_probe_releases_pending`: `handle_conn_error` counts
    the failure of server 0, which clears `probe_pending` — `(0, 2, false)` below (the pinned code: `(0, 2, true)`,
    finding F48-C09) — and a later request (`exShareLater`, key 3) probes server 0 again (key 4, `(0, 2, true)`). -/
def exShare (chance : Nat) : St :=
  let s0 : St :=
    { alive := true
      cfg := { retryChance := chance, retryDelay := 0 }
      servers := [{ id := 0, addr := "a" }, { id := 1, addr := "b" }]
      obs := { rnd2 := [7, 9, 4, 11, 12, 13, 14, 15] } }
  let s1 := (exec 60 (.sendNolock none false false exSpec (.user 1) []) s0).1.settle.modServer 0 fun v =>
    { v with failures := 1 }
  (exec 80 (.sendNolock none false false { name := "6579", qtype := 1 } (.user 2) [])
    { s1 with faults := [{ call := "sendto", nth := 2, err := 111 }] }).1

def exShareLater : St :=
  (exec 80 (.sendNolock none false false { name := "657a", qtype := 1 } (.user 3) [])
    { (exShare 1).settle with obs := { rnd2 := [8, 3, 5, 6, 21, 22] } }).1

example :
    (exShare 1).qs.map (fun q => (q.key, q.owner, q.conn, q.tryCount)) =
      [(0, .user 1, some 101, 1), (1, .user 2, some 101, 0)] ∧
    (exShare 0).qs.map (fun q => (q.key, q.owner, q.conn, q.tryCount)) =
      [(0, .user 1, some 100, 0), (1, .user 2, some 101, 0)] ∧
    (exShare 1).servers.map (fun v => (v.id, v.failures, v.probePending)) = [(0, 2, false), (1, 0, false)] ∧
    (exShare 1).outOfFuel = false ∧ (exShare 1).modelFaults = [] ∧
    exShareLater.qs.map (fun q => (q.key, q.owner, q.conn)) =
      [(0, .user 1, some 101), (1, .user 2, some 101), (3, .user 3, some 101), (4, .probe 0, some 102)] ∧
    exShareLater.servers.map (fun v => (v.id, v.failures, v.probePending)) = [(0, 2, true), (1, 0, false)] ∧
    exShareLater.outOfFuel = false ∧ exShareLater.modelFaults = [] ∧ exShareLater.obsFaults = [] := by decide

end Cares.C09
