import CaresProps.C09
/-!
# C09 — non-vacuity of the whole-run probe theorems (concrete runs, kernel-evaluated)

Companion of `CaresProps/C09.lean` (`probe_only_failed_servers_run`, `probe_noninterference_run`,
`one_probe_per_send_partial`, `failed_probe_releases_pending`): the guarded semantics really evaluates its assertions,
the assertions can fail, the bounds are attained, and "a failed probe releases `probe_pending`" as runs — time-out and
failed write (the pinned C code left the flag set: finding F48-C09, repaired in `server_increment_failures`) — with
the residue: a probe ended by `ares_cancel` counts no failure and keeps the flag.
-/
namespace Cares.C09
open Cares.Chan

/-- the assertion is not vacuous: a probe to server 1 (no failures) is refused, and so is one to the failed server 0
    when the triggering request is missing from the pick log -/
example : (guardGo (exec 10) (.sendNolock (some 1) true true exSpec .probe []) exStP).1.outOfFuel = true ∧
    probeSendOk 0 exStP = false ∧
    probeSendOk 0 { (exStP.modServer 0 fun v => { v with probePending := true }) with
      picks := [(0, 1, false, [(1, 0), (2, 0), (0, 1)])] } = true := by decide

/-- the bound of `one_probe_per_send_partial` is attained: two queries (no compound request, no reaction) -/
example : exStP.clients = [] ∧ exStP.reactions = [] ∧
    (exec 60 (.sendNolock none false false exSpec (.user 1) []) exStP).1.nextKey = exStP.nextKey + 2 :=
  ⟨rfl, rfl, by decide⟩

/-- … and with a reaction: the request (`no_retries`, key 0) fails at once on server 0, its callback starts a second
    request (key 1, to server 1), which sends a probe (key 2) to server 0: three queries ≤ 2 + 2·1 -/
def exReact : St :=
  { alive := true
    cfg := { retryChance := 1, retryDelay := 0 }
    servers := [{ id := 0, addr := "a" }, { id := 1, addr := "b" }]
    obs := { rnd2 := [7, 9, 4, 11, 12, 13, 14, 15] }
    faults := [{ call := "socket", nth := 1, err := 111 }]
    reactions := [(1, { kind := "send", name := "6579", qtype := 1 })] }

example :
    let r := (exec 80 (.sendNolock none false true exSpec (.user 1) [1]) exReact).1
    r.nextKey = 3 ∧ r.reactSeq = 1 ∧ r.doneToks = [1] ∧
    r.qs.map (fun q => (q.key, q.owner)) = [(1, .user 10000), (2, .probe)] ∧ r.outOfFuel = false := by decide

/-- a probe completes (here: timeout status): its query is gone, the user's query and tokens are as before, no event is emitted -/
example :
    let s := (exec 60 (.sendNolock none false false exSpec (.user 1) []) exStP).1
    let r := (exec 5 (.endQuery none 1 .timeout none) s).1
    r.outOfFuel = false ∧ r.qs.map (·.key) = [0] ∧ r.doneToks = s.doneToks ∧ r.pendingToks = s.pendingToks ∧
    r.ev.length = s.ev.length := by decide

/-- `failed_probe_releases_pending` as a run: the user's request is answered by server 1, the probe to the failed
    server 0 times out at 2000 ms (`process_timeouts`: `server_increment_failures`, then `ares_requeue_query` →
    `end_query(NULL)`): server 0 now has two failures, its retry time is 7000 — and `probe_pending` is cleared again.
    At 9000 ms a new request draws the lottery (chance 1/1) and sends a probe (two queries, the second owned by
    `probe`, `nextKey = 4`).  The pinned C code cleared the flag only in `end_query(server ≠ NULL)` and so left it set
    here (finding F48-C09, repaired in `server_increment_failures`): with the flag still set the same request sends
    **no** probe (one query, `nextKey = 3`) — the last two lines of the run.
    Residue (`exCancelled`): `ares_cancel` releases a probe in flight without a failure of its server and without
    `end_query` — the flag stays set and the later request sends no probe (in the C code as well: `ares_cancel` calls
    the callback and `ares_free_query` only). -/
def okReply : Reply := { id := 7, name := "6578", qtype := 1, qclass := 1, rcode := 0, an := 1, ttls := [60], len := 20 }
def exAnswered : St :=
  (exec 200 (.processRead 100)
    ((exec 60 (.sendNolock none false false exSpec (.user 1) []) exStP).1.settle.modSock 100 fun v =>
      { v with rx := [okReply] })).1.settle
def exProbeTimedOut : St := (exec 200 .processTimeouts { exAnswered with now := 2000 }).1.settle
def exLater (s : St) : St :=
  (exec 60 (.sendNolock none false false exSpec (.user 2) []) { s with now := 9000, obs := { rnd2 := [8, 3, 5, 6] } }).1
def exCancelled : St := (exec 200 .cancel exAnswered).1.settle

example :
    exAnswered.doneToks = [1] ∧ exAnswered.qs.map (fun q => (q.key, q.owner)) = [(1, .probe)] ∧
    exAnswered.servers.map (fun v => (v.id, v.failures, v.probePending, v.nextRetry)) =
      [(0, 1, true, 0), (1, 0, false, 0), (2, 0, false, 0)] ∧
    exProbeTimedOut.qs.map (·.key) = [] ∧
    exProbeTimedOut.servers.map (fun v => (v.id, v.failures, v.probePending, v.nextRetry)) =
      [(0, 2, false, 7000), (1, 0, false, 0), (2, 0, false, 0)] ∧
    (exLater exProbeTimedOut).qs.map (fun q => (q.key, q.owner)) = [(2, .user 2), (3, .probe)] ∧
    (exLater exProbeTimedOut).nextKey = 4 ∧
    (exLater exProbeTimedOut).outOfFuel = false ∧ (exLater exProbeTimedOut).modelFaults = [] ∧
    (exLater exProbeTimedOut).obsFaults = [] ∧
    (exLater (exProbeTimedOut.modServer 0 fun v => { v with probePending := true })).qs.map
      (fun q => (q.key, q.owner)) = [(2, .user 2)] ∧
    (exLater (exProbeTimedOut.modServer 0 fun v => { v with probePending := true })).nextKey = 3 := by decide

example :
    exCancelled.qs.map (·.key) = [] ∧ exCancelled.outOfFuel = false ∧ exCancelled.modelFaults = [] ∧
    exCancelled.servers.map (fun v => (v.id, v.failures, v.probePending, v.nextRetry)) =
      [(0, 1, true, 0), (1, 0, false, 0), (2, 0, false, 0)] ∧
    (exLater exCancelled).qs.map (fun q => (q.key, q.owner)) = [(2, .user 2)] := by decide

/-- why `probe_noninterference_run` is a frame statement and not "the user's outcome does not depend on
    `retryChance`": request 1 is in flight on the UDP connection 100 to server 0 when that server is marked failed;
    request 2 goes to server 1 and (chance 1/1) sends a probe to server 0 on the same connection; the probe's write
    fails (`sendto` → ECONNREFUSED), `handle_conn_error` closes connection 100 and requeues *every* query on it:
    request 1 loses a try and moves to connection 101.  With `retryChance = 0` request 1 is not touched.
    (Reproduced on the library: `replay/probe-write-failure-requeues-user.txt`.)
    The same run is the synchronous send-failure path of `failed_probe_releases_pending`: `handle_conn_error` counts
    the failure of server 0, which clears `probe_pending` — `(0, 2, false)` below (the pinned code: `(0, 2, true)`,
    finding F48-C09) — and a later request (`exShareLater`, key 3) probes server 0 again (key 4, `(0, 2, true)`). -/
def exShare (chance : Nat) : St :=
  let s0 : St :=
    { alive := true
      cfg := { retryChance := chance, retryDelay := 0 }
      servers := [{ id := 0, addr := "a" }, { id := 1, addr := "b" }]
      obs := { rnd2 := [7, 9, 4, 11, 12, 13, 14, 15] } }
  let s1 := (exec 60 (.sendNolock none false false exSpec (.user 1) []) s0).1.settle.modServer 0 fun v =>
    { v with failures := 1 }
  (exec 80 (.sendNolock none false false { name := "6579", qtype := 1 } (.user 2) [])
    { s1 with faults := [{ call := "sendto", nth := 2, err := 111 }] }).1

def exShareLater : St :=
  (exec 80 (.sendNolock none false false { name := "657a", qtype := 1 } (.user 3) [])
    { (exShare 1).settle with obs := { rnd2 := [8, 3, 5, 6, 21, 22] } }).1

example :
    (exShare 1).qs.map (fun q => (q.key, q.owner, q.conn, q.tryCount)) =
      [(0, .user 1, some 101, 1), (1, .user 2, some 101, 0)] ∧
    (exShare 0).qs.map (fun q => (q.key, q.owner, q.conn, q.tryCount)) =
      [(0, .user 1, some 100, 0), (1, .user 2, some 101, 0)] ∧
    (exShare 1).servers.map (fun v => (v.id, v.failures, v.probePending)) = [(0, 2, false), (1, 0, false)] ∧
    (exShare 1).outOfFuel = false ∧ (exShare 1).modelFaults = [] ∧
    exShareLater.qs.map (fun q => (q.key, q.owner, q.conn)) =
      [(0, .user 1, some 101), (1, .user 2, some 101), (3, .user 3, some 101), (4, .probe, some 102)] ∧
    exShareLater.servers.map (fun v => (v.id, v.failures, v.probePending)) = [(0, 2, true), (1, 0, false)] ∧
    exShareLater.outOfFuel = false ∧ exShareLater.modelFaults = [] ∧ exShareLater.obsFaults = [] := by decide

end Cares.C09
