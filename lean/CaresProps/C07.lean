import CaresLemmas.ChanPolicyProgress
/-!
# C07 (a) — Timers are sound and live (single-threaded part)

Model: the channel model `Cares.Chan`: `St.byTimeout` (`channel->queries_by_timeout`, an `ares_slist` ordered by
deadline; `insertByDeadline`), `St.timeoutHint` (`ares_timeout`: remaining time of the first entry, capped by the
caller's `maxtv`), `bodyProcessTimeouts` (`process_timeouts`: pop while expired), `expired` (`ares_timedout`),
`St.settle` (the skip-list insertions of one API call, replayed in send order once the jittered values are known).
The event-thread part (b) is a separate model.

* `byTimeout_sorted` — the invariant `BT` (index duplicate-free, sorted by deadline, every entry a live query with a
  definite deadline, every query that has a deadline is in the index or awaits insertion) holds initially and is kept by
  every procedure run (`exec`, any fuel, any call) and, up to the coverage of unobservable jittered deadlines, by
  `settle`.
* `timeout_hint_sound` — after `settle`, `ares_timeout` returns a value that is at most the caller's maximum and at most
  the remaining time of *every* pending definite deadline; it is `none` (no limit) exactly when there is neither a
  maximum nor an index entry.  The value is a natural number of milliseconds: never negative by typing.
* `expired_are_processed` — processing the channel (`process_timeouts`) at or after a deadline: unless the run reports
  a model fault / runs out of fuel, no index entry is expired afterwards and every query that was expired has been
  ended or re-sent (it left the index; it is gone, or has no deadline, or waits in `pendingOrder` with a new one).
* `expiry_resends_or_ends` — what one expiry does: `try_count + 1 < servers × tries` and re-sent, or ended.
-/
namespace Cares.C07
open Cares.Chan

/-! ## the index -/

/-- the empty channel satisfies the invariant -/
theorem byTimeout_sorted_init (s : St) (h1 : s.byTimeout = []) (h2 : ∀ q ∈ s.qs, q.deadline = .none) : BT s :=
  BT.init s h1 h2

/-- **byTimeout_sorted**: every procedure run keeps the index well-formed -/
theorem byTimeout_sorted (fuel : Nat) (c : Call) (s : St) (h : BT s) : BT (exec fuel c s).1 :=
  exec_BT fuel c s h

/-- … and what stays in the index during a run keeps its deadline (the index only shrinks within a run; insertions
    are replayed by `settle`) -/
theorem byTimeout_stable (fuel : Nat) (c : Call) (s : St) (h : BT s) :
    (exec fuel c s).1.byTimeout.Sublist s.byTimeout ∧
    ∀ k ∈ (exec fuel c s).1.byTimeout, (exec fuel c s).1.dl? k = s.dl? k :=
  (exec_bt (s0 := s) fuel c s ⟨h, Stay.refl s⟩).2

/-- `settle` inserts in order: the index stays duplicate-free, sorted and live, every definite deadline is in it
    afterwards, and the full invariant holds again unless a jittered deadline could not be observed -/
theorem settle_sorted (s : St) (h : BT s) :
    BT0 s.settle ∧ s.settle.pendingOrder = [] ∧
    (∀ k ms, s.settle.dl? k = some (.at ms) → k ∈ s.settle.byTimeout) ∧
    (s.settle.obsFaults.length = s.obsFaults.length → BT s.settle) :=
  settle_bt s h

/-! ## `ares_timeout` -/

/-- **timeout_hint_sound** -/
theorem timeout_hint_sound (s : St) (h : BT s) (maxtv : Option Nat) :
    (∀ r, s.settle.timeoutHint maxtv = some r →
      (∀ m, maxtv = some m → r ≤ m) ∧ (∀ k ms, s.settle.dl? k = some (.at ms) → r ≤ ms - s.settle.now)) ∧
    (s.settle.timeoutHint maxtv = none ↔ maxtv = none ∧ s.settle.byTimeout = []) := by
  obtain ⟨h0, _, hcov, _⟩ := settle_bt s h
  exact ⟨fun r hr => timeoutHint_sound s.settle h0 hcov maxtv r hr, timeoutHint_none s.settle h0 maxtv⟩

/-! ## `process_timeouts` -/

/-- **expired_are_processed** -/
theorem expired_are_processed (fuel : Nat) (s : St) (hb : BT s) :
    let r := (exec fuel .processTimeouts s).1
    r.outOfFuel = false → r.modelFaults.length = s.modelFaults.length →
    BT r ∧
    (∀ k ∈ r.byTimeout, ∀ q, r.query? k = some q → expired r.now q.deadline = false) ∧
    (∀ k q, s.query? k = some q → expired s.now q.deadline = true →
      k ∉ r.byTimeout ∧ (r.query? k = none ∨ r.dl? k = some .none ∨ k ∈ r.pendingOrder)) :=
  Cares.Chan.expired_are_processed fuel s hb

/-- the loop itself: it returns with a fresh head, a model fault, or out of fuel -/
theorem processTimeouts_terminates_fresh (fuel : Nat) (s : St) :
    (exec fuel .processTimeouts s).1.outOfFuel = true ∨
    s.modelFaults.length < (exec fuel .processTimeouts s).1.modelFaults.length ∨
    HeadFresh (exec fuel .processTimeouts s).1 :=
  processTimeouts_head fuel s

/-- one expiry: re-sent with `try_count + 1` below the budget, or ended (and `end_query` removes the query) -/
theorem expiry_resends_or_ends (go : Call → St → St × Ret) (key : Nat) (st : Status) (rec : Option Reply) (s : St)
    (q : Query) (hq : s.query? key = some q) :
    (∃ s' q', s'.query? key = some q' ∧ q'.tryCount = q.tryCount + 1 ∧
        q'.tryCount < s.servers.length * s.cfg.tries ∧ q'.noRetries = false ∧ q'.timeouts = q.timeouts ∧
        bodyRequeue go key st true rec false s = go (.sendQuery none key) s') ∨
    (∃ s' es, bodyRequeue go key st true rec false s = ((go (.endQuery none key es rec) s').1, .timeout)) :=
  requeue_progress go key st rec s q hq

theorem end_query_removes (go : Call → St → St × Ret) (srv : Option Nat) (key : Nat) (st : Status)
    (rec : Option Reply) (s : St) (q : Query) (hq : s.query? key = some q) :
    (bodyEndQuery go srv key st rec s).1.query? key = none :=
  endQuery_ends go srv key st rec s q hq

/-! ## non-vacuity: concrete runs (kernel-evaluated) -/

def exServers : List Server := [{ id := 0, addr := "a" }, { id := 1, addr := "b" }]
def exSt : St :=
  { alive := true, cfg := { tries := 2, timeout := 1000 }, servers := exServers, obs := { rnd2 := [7, 9, 4, 11] } }
def exSpec : ReqSpec := { name := "6578", qtype := 1 }

/-- the state after one request and the end-of-call replay -/
def exSent : St := (exec 60 (.sendNolock none false false exSpec (.user 1) []) exSt).1.settle

/-- the start state satisfies the invariant; after the request the index holds the query with deadline 1000, the hint
    is 1000 ms, or the caller's 300 ms if that is smaller -/
example : BT exSt := BT.init exSt rfl (fun q hq => by cases hq)
example : exSent.byTimeout = [0] ∧ exSent.qs.map (fun q => (q.key, q.deadline, q.tryCount)) = [(0, .at 1000, 0)] ∧
    exSent.timeoutHint none = some 1000 ∧ exSent.timeoutHint (some 300) = some 300 ∧
    ({ exSent with now := 400 } : St).timeoutHint none = some 600 := by decide

/-- processing at the deadline re-sends the query (try count 1, one timeout counted, new deadline 2000) -/
example :
    let r := (exec 60 .processTimeouts { exSent with now := 1000 }).1.settle
    r.byTimeout = [0] ∧ r.qs.map (fun q => (q.key, q.deadline, q.tryCount, q.timeouts)) = [(0, .at 2000, 1, 1)] ∧
    r.writeLog = [0, 0] ∧ r.outOfFuel = false ∧ r.modelFaults = [] := by decide

/-- processing before the deadline does nothing -/
example : (exec 60 .processTimeouts { exSent with now := 999 }).1.byTimeout = [0] ∧
    (exec 60 .processTimeouts { exSent with now := 999 }).1.writeLog = [0] := by decide

end Cares.C07
