import CaresLemmas.Float32
/-!
# C06 (arithmetic part) — every attempt waits between the base timeout and the configured maximum; no overflow, no UB

Model: `Cares.Proto.Timeout` (`ares_metrics_record`, `ares_metrics_server_timeout` — `src/lib/ares_metrics.c`;
`ares_calc_query_timeout` — static in `src/lib/ares_process.c`).  The retry budget, the non-counting resends and
termination are the channel model's part of C06 (coordinator); this file is about the numbers.

* `server_timeout_bounds`, `server_timeout_eq` — the "configured / learned base timeout":
  `min (max (5·avg | configured) MIN_TIMEOUT_MS) cap`, `cap = maxtimeout` if set else `MAX_TIMEOUT_MS`;
* `timeout_bounds` — unless the shift is undefined, every attempt waits at least the base timeout and, when a maximum
  is configured, at most that maximum; `first_pass_exact`; `jitter_window` (the doubled value loses at most half);
* `no_ub` — on the tree under check (`CALC_SHIFT_GUARDED = 1`, regenerated) no input makes the shift undefined or lose
  bits, and the result fits a signed 64-bit number of milliseconds (what `timeadd` casts it to);
  `c06_f10_pinned_shift_ub`: on the pinned tree 64 rounds (tries ≥ 65 with one server) is undefined behaviour and
  56 rounds already wraps;
* `calc_samples_agree` — the model equals the compiled `ares_calc_query_timeout` on the generated sample grid
  (kernel evaluation, exact float model);
* the jitter is modelled exactly (`jitterExact`, IEEE binary32); the general theorems use the interval fact `JitOk`
  (`jit tp ≤ tp·(1/2 + 2⁻²⁴ + 2⁻⁴⁹)`), and `jitter_exact_ok` (from `CaresLemmas/Float32.lean`) shows the exact function
  satisfies it for every 16-bit draw, so `timeout_bounds_tree` / `no_ub` hold for the function of the tree itself.
-/
namespace Cares.C06a
open Cares.Proto.Timeout Cares.Generated.Proto

/-! ## regenerated facts (side conditions) -/

/-- F10: the doubling saturates instead of shifting bits out / shifting by the word size -/
theorem calc_shift_guarded : CALC_SHIFT_GUARDED = 1 := by decide

theorem timeout_constants :
    0 < MIN_TIMEOUT_MS ∧ MIN_TIMEOUT_MS ≤ MAX_TIMEOUT_MS ∧ 0 < AVG_TIMEOUT_MULTIPLIER ∧ 0 < MIN_COUNT_FOR_AVERAGE ∧
    SIZE_T_BITS = 64 ∧ USHRT_MAX = 65535 ∧ METRIC_DIVISORS.length + 1 = METRIC_COUNT ∧
    METRIC_INCEPTION + 1 = METRIC_COUNT ∧ METRIC_DIVISORS.all (0 < ·) = true := by decide

/-- one generated sample `(channel timeout, maxtimeout, try_count, servers, 16-bit draw, value returned by the C code)` -/
def sampleOk (s : Nat × Nat × Nat × Nat × Nat × Nat) : Bool :=
  (calcQueryTimeout (serverTimeout Metrics.init s.1 s.2.1 1000) s.2.1 s.2.2.1 s.2.2.2.1 s.2.2.2.2.1).timeplus
    == s.2.2.2.2.2

/-- the model (exact binary32 jitter included) reproduces the compiled `ares_calc_query_timeout` on every sample the
    generator evaluated in this run -/
theorem calc_samples_agree : CALC_SAMPLES.all sampleOk = true := by decide +kernel

/-! ## the base timeout -/

/-- upper clamp of `ares_metrics_server_timeout` -/
def cap (maxtimeout : Nat) : Nat := if maxtimeout ≠ 0 then maxtimeout else MAX_TIMEOUT_MS

/-- the learned (5 × average latency of the first usable bucket) or else configured timeout, before clamping -/
def rawTimeout (m : Metrics) (cfgTimeout : Nat) (nowSec : Int) : Nat :=
  if avgGo nowSec 0 m = 0 then cfgTimeout else avgGo nowSec 0 m

theorem server_timeout_eq (m : Metrics) (cfgTimeout maxtimeout : Nat) (nowSec : Int) :
    serverTimeout m cfgTimeout maxtimeout nowSec =
      min (max (rawTimeout m cfgTimeout nowSec) MIN_TIMEOUT_MS) (cap maxtimeout) := by
  unfold serverTimeout rawTimeout cap
  simp only [Nat.min_def, Nat.max_def]
  repeat' split
  all_goals omega

/-- **base timeout**: never above the configured maximum (or 5000 ms if none), never below 250 ms unless the
    configured maximum itself is lower -/
theorem server_timeout_bounds (m : Metrics) (cfgTimeout maxtimeout : Nat) (nowSec : Int) :
    min MIN_TIMEOUT_MS (cap maxtimeout) ≤ serverTimeout m cfgTimeout maxtimeout nowSec ∧
    serverTimeout m cfgTimeout maxtimeout nowSec ≤ cap maxtimeout := by
  rw [server_timeout_eq]; omega

/-- failed queries and error answers do not enter the latency statistics -/
theorem record_ignores_failures (m : Metrics) (statusOk : Bool) (rcode : Nat) (ss : Int) (su : Nat) (ns : Int) (nu : Nat)
    (h : statusOk = false ∨ (rcode ≠ RCODE_NOERROR ∧ rcode ≠ RCODE_NXDOMAIN)) :
    m.record statusOk rcode ss su ns nu = m := by
  unfold Metrics.record
  rcases h with h | h
  · simp [h]
  · by_cases hs : statusOk = true
    · simp [hs, h]
    · simp [hs]

theorem recordGo_length (ns : Int) (q : Nat) (i : Nat) (bs : List Bucket) : (recordGo ns q i bs).length = bs.length := by
  induction bs generalizing i with
  | nil => rfl
  | cons b bs ih => simp [recordGo, ih]

theorem record_length (m : Metrics) (statusOk : Bool) (rcode : Nat) (ss : Int) (su : Nat) (ns : Int) (nu : Nat) :
    (m.record statusOk rcode ss su ns nu).length = m.length := by
  unfold Metrics.record
  split
  · rfl
  · split
    · rfl
    · simp only []; exact recordGo_length _ _ _ _

/-! ## `ares_calc_query_timeout` -/

/-- the jitter never takes away more than the interval allows -/
def JitOk (jit : Nat → Nat) : Prop := ∀ tp, jitterOk tp (jit tp)

theorem jitOk_le (jit : Nat → Nat) (h : JitOk jit) (tp : Nat) : jit tp ≤ tp := by
  have := h tp
  unfold jitterOk at this
  omega

/-- the exact binary32 jitter of the code lies in the interval, for every 16-bit random number -/
theorem jitter_exact_ok (r : Nat) (hr : r ≤ USHRT_MAX) : JitOk (fun tp => jitterExact tp r) :=
  fun tp => jitterExact_ok tp r hr

theorem preJitter_le_max (g : Bool) (timeout maxtimeout rounds : Nat) (h : maxtimeout ≠ 0) :
    (preJitter g timeout maxtimeout rounds).1 ≤ maxtimeout := by
  unfold preJitter; simp only []; split <;> omega

/-- **timeout bounds.**  For every base timeout, maximum, try count, number of servers and jitter within its interval:
    unless the shift count reaches the word size (undefined behaviour, `ub`), the attempt waits at least the base
    timeout, and at most the configured maximum when one is set (the base timeout never exceeds it,
    `server_timeout_bounds`). -/
theorem timeout_bounds (g : Bool) (jit : Nat → Nat) (hj : JitOk jit) (timeout maxtimeout tryCount nservers : Nat)
    (hn : 0 < nservers) (hb : maxtimeout ≠ 0 → timeout ≤ maxtimeout) :
    let o := calcWith g jit timeout maxtimeout tryCount nservers
    o.ub = false → timeout ≤ o.timeplus ∧ (maxtimeout ≠ 0 → o.timeplus ≤ maxtimeout) := by
  intro o _
  have hne : nservers ≠ 0 := by omega
  simp only [o, calcWith, hne, ↓reduceIte]
  generalize hp : preJitter g timeout maxtimeout (tryCount / nservers) = p
  generalize hd : (if tryCount / nservers > 0 then jit p.1 else 0) = d
  have hdle : d ≤ p.1 := by
    rw [← hd]; split
    · exact jitOk_le jit hj _
    · omega
  have hnd : ¬ d > p.1 := by omega
  simp only [hnd, ↓reduceIte]
  constructor
  · split <;> omega
  · intro hm
    have := preJitter_le_max g timeout maxtimeout (tryCount / nservers) hm
    rw [hp] at this
    have := hb hm
    split <;> omega

/-- the whole pipeline: base timeout from the metrics, then `ares_calc_query_timeout` -/
theorem timeout_bounds_full (g : Bool) (jit : Nat → Nat) (hj : JitOk jit) (m : Metrics) (cfgTimeout maxtimeout : Nat)
    (nowSec : Int) (tryCount nservers : Nat) (hn : 0 < nservers) :
    let base := serverTimeout m cfgTimeout maxtimeout nowSec
    let o := calcWith g jit base maxtimeout tryCount nservers
    o.ub = false → base ≤ o.timeplus ∧ (maxtimeout ≠ 0 → o.timeplus ≤ maxtimeout) := by
  intro base o
  apply timeout_bounds g jit hj base maxtimeout tryCount nservers hn
  intro hm
  have := (server_timeout_bounds m cfgTimeout maxtimeout nowSec).2
  unfold cap at this; simp only [hm, ne_eq, not_false_eq_true, ↓reduceIte] at this
  exact this

/-- the first pass through the server list waits exactly the base timeout: no doubling, no randomness -/
theorem first_pass_exact (g : Bool) (jit : Nat → Nat) (timeout maxtimeout tryCount nservers : Nat)
    (h : tryCount < nservers) (hb : maxtimeout ≠ 0 → timeout ≤ maxtimeout) :
    calcWith g jit timeout maxtimeout tryCount nservers = ⟨timeout, false, false, false⟩ := by
  have hne : nservers ≠ 0 := by omega
  have hr : tryCount / nservers = 0 := Nat.div_eq_of_lt h
  simp only [calcWith, hne, ↓reduceIte, hr, preJitter, shiftStep, Nat.lt_irrefl, gt_iff_lt]
  by_cases hm : maxtimeout = 0
  · simp [hm]
  · have := hb hm
    have h1 : ¬ (timeout > maxtimeout) := by omega
    simp [hm, h1]

/-- from the second pass on the value is the doubled (capped) timeout minus at most (a hair more than) half of it, and
    never more than it -/
theorem jitter_window (g : Bool) (jit : Nat → Nat) (hj : JitOk jit) (timeout maxtimeout tryCount nservers : Nat)
    (hn : 0 < nservers) :
    let p := (preJitter g timeout maxtimeout (tryCount / nservers)).1
    let o := calcWith g jit timeout maxtimeout tryCount nservers
    o.timeplus ≤ max p timeout ∧ (p - o.timeplus) * 2 ^ 49 ≤ p * (2 ^ 24 + 1) ^ 2 := by
  have hne : nservers ≠ 0 := by omega
  simp only [calcWith, hne, ↓reduceIte]
  generalize (preJitter g timeout maxtimeout (tryCount / nservers)).1 = p
  generalize hd : (if tryCount / nservers > 0 then jit p else 0) = d
  have e1 : (2 : Nat) ^ 49 = 562949953421312 := by decide
  have e2 : ((2 : Nat) ^ 24 + 1) ^ 2 = 281475010265089 := by decide
  have hdle : d * 562949953421312 ≤ p * 281475010265089 := by
    rw [← hd]; split
    · have := hj p; unfold jitterOk at this; rw [e1, e2] at this; exact this
    · omega
  rw [e1, e2]
  have hnd : ¬ d > p := by omega
  simp only [hnd, ↓reduceIte]
  by_cases hlt : p - d < timeout
  · simp only [hlt, ↓reduceIte]
    constructor
    · omega
    · have : p - timeout ≤ d := by omega
      calc (p - timeout) * 562949953421312 ≤ d * 562949953421312 := Nat.mul_le_mul_right _ this
        _ ≤ p * 281475010265089 := hdle
  · simp only [hlt, ↓reduceIte]
    constructor
    · omega
    · have : p - (p - d) = d := by omega
      rw [this]; exact hdle

/-! ## no undefined behaviour, no overflow -/

theorem word_eq : WORD = 2 ^ 64 := by decide
theorem max_timeplus_eq : MAX_TIMEPLUS = 2 ^ 63 - 1 := by decide

theorem shiftStep_guarded (timeout rounds : Nat) :
    (shiftStep true timeout rounds).2.1 = false ∧ (shiftStep true timeout rounds).2.2 = false ∧
    ((shiftStep true timeout rounds).1 ≤ MAX_TIMEPLUS ∨ rounds = 0) := by
  unfold shiftStep
  by_cases h0 : rounds = 0
  · simp [h0]
  · simp only [h0, ↓reduceIte, true_and]
    left
    split
    · exact Nat.le_refl _
    · rename_i h
      have h1 : ¬ timeout > MAX_TIMEPLUS >>> rounds := fun hh => h (Or.inr hh)
      have h2 : timeout ≤ MAX_TIMEPLUS / 2 ^ rounds := by
        rw [← Nat.shiftRight_eq_div_pow]; omega
      rw [Nat.shiftLeft_eq]
      calc timeout * 2 ^ rounds ≤ MAX_TIMEPLUS / 2 ^ rounds * 2 ^ rounds := Nat.mul_le_mul_right _ h2
        _ ≤ MAX_TIMEPLUS := Nat.div_mul_le_self _ _

/-- **no UB, no overflow** with the guarded doubling: for *every* base timeout below 2⁶³ (any legal option value is far
    below), every maximum, every try count (hence every `tries`), every number of servers and every jitter within its
    interval, the shift is defined, no bits are lost, the subtraction does not wrap, and the result fits the signed
    64-bit type `timeadd` converts it to -/
theorem no_ub_guarded (jit : Nat → Nat) (hj : JitOk jit) (timeout maxtimeout tryCount nservers : Nat)
    (ht : timeout ≤ MAX_TIMEPLUS) :
    let o := calcWith true jit timeout maxtimeout tryCount nservers
    o.ub = false ∧ o.ovf = false ∧ o.timeplus ≤ MAX_TIMEPLUS := by
  intro o
  by_cases hn : nservers = 0
  · simp [o, calcWith, hn]
  · simp only [o, calcWith, hn, ↓reduceIte]
    obtain ⟨s1, s2, s3⟩ := shiftStep_guarded timeout (tryCount / nservers)
    generalize hp : preJitter true timeout maxtimeout (tryCount / nservers) = p
    have hp1 : p.2.1 = false ∧ p.2.2 = false ∧ p.1 ≤ MAX_TIMEPLUS := by
      rw [← hp]; unfold preJitter; simp only [s1, s2, true_and]
      rcases s3 with s3 | s3
      · split <;> omega
      · have : (shiftStep true timeout (tryCount / nservers)).1 = timeout := by simp [shiftStep, s3]
        rw [this]; split <;> omega
    generalize hd : (if tryCount / nservers > 0 then jit p.1 else 0) = d
    have hdle : d ≤ p.1 := by
      rw [← hd]; split
      · exact jitOk_le jit hj _
      · omega
    have hnd : ¬ d > p.1 := by omega
    simp only [hnd, ↓reduceIte, hp1.1, hp1.2.1, decide_false, Bool.or_false, true_and]
    split <;> omega

/-- **no_ub** for the tree under check: `calcQueryTimeout` uses the guarded doubling (`calc_shift_guarded`) and the exact
    binary32 jitter: for every base timeout below 2⁶³, every maximum, try count, number of servers and 16-bit draw the
    shift is defined, no bits are lost, the jitter subtraction does not wrap and the result fits `timeadd`'s signed type -/
theorem no_ub (timeout maxtimeout tryCount nservers r : Nat) (ht : timeout ≤ MAX_TIMEPLUS) (hr : r ≤ USHRT_MAX) :
    let o := calcQueryTimeout timeout maxtimeout tryCount nservers r
    o.ub = false ∧ o.ovf = false ∧ o.timeplus ≤ MAX_TIMEPLUS := by
  unfold calcQueryTimeout
  rw [calc_shift_guarded]
  exact no_ub_guarded _ (jitter_exact_ok r hr) timeout maxtimeout tryCount nservers ht

/-- **timeout bounds** for the function of the tree under check, from configuration to result: with the base timeout
    `ares_metrics_server_timeout` yields (any latency history, any configured timeout and maximum, any instant), any try
    count, any positive number of servers and any 16-bit draw: base ≤ result, and result ≤ maxtimeout when one is set -/
theorem timeout_bounds_tree (m : Metrics) (cfgTimeout maxtimeout : Nat) (nowSec : Int) (tryCount nservers r : Nat)
    (hn : 0 < nservers) (hr : r ≤ USHRT_MAX) :
    let base := serverTimeout m cfgTimeout maxtimeout nowSec
    let o := calcQueryTimeout base maxtimeout tryCount nservers r
    base ≤ o.timeplus ∧ (maxtimeout ≠ 0 → o.timeplus ≤ maxtimeout) := by
  intro base o
  have hb := timeout_bounds_full (CALC_SHIFT_GUARDED == 1) (fun tp => jitterExact tp r) (jitter_exact_ok r hr) m
    cfgTimeout maxtimeout nowSec tryCount nservers hn
  simp only [] at hb
  apply hb
  -- the shift is never undefined on this tree
  have hne : nservers ≠ 0 := by omega
  rw [calc_shift_guarded]
  simp only [calcWith, hne, ↓reduceIte, preJitter, beq_self_eq_true]
  exact (shiftStep_guarded _ (tryCount / nservers)).1

/-- F10 on the pinned tree (unguarded `timeplus <<= rounds`): tries = 65 with one server reaches 64 rounds — undefined
    behaviour —, and 56 rounds with the 250 ms minimum already shifts bits out of the word -/
theorem c06_f10_pinned_shift_ub :
    (calcWith false (fun _ => 0) 2000 0 64 1).ub = true ∧ (calcWith false (fun _ => 0) 250 0 57 1).ovf = true ∧
    (calcWith true (fun _ => 0) 2000 0 64 1) = ⟨MAX_TIMEPLUS, false, false, true⟩ := by decide

/-! ## non-vacuity -/

example : JitOk (fun tp => tp / 2) := by intro tp; show tp / 2 * 2 ^ 49 ≤ tp * (2 ^ 24 + 1) ^ 2; omega

example : (calcQueryTimeout 500 0 1 1 45344).timeplus = 655 ∧ (calcQueryTimeout 500 0 3 1 32124).timeplus = 3020 ∧
    (calcQueryTimeout 300 300 5 1 65535) = ⟨300, false, false, true⟩ := by decide +kernel

example : serverTimeout Metrics.init 2000 0 1000 = 2000 ∧ serverTimeout Metrics.init 100 0 1000 = 250 ∧
    serverTimeout Metrics.init 9000 0 1000 = 5000 ∧ serverTimeout Metrics.init 9000 20000 1000 = 9000 ∧
    serverTimeout (((Metrics.init.record true 0 999 900000 1000 0).record true 0 999 900000 1000 0).record true 0
      999 900000 1000 0) 2000 0 1000 = 500 := by decide +kernel

end Cares.C06a
