import CaresLemmas.DnsShape
import CaresLemmas.DnsName
/-!
# C02 — DNS message parsers are total and memory-safe on arbitrary bytes

Property theorems only (helper lemmas: `CaresLemmas/DnsSafe.lean`, `DnsName.lean`, `DnsShape.lean`).

The model (`CaresModel/Dns/{Bytes,Name,Parse}.lean`) follows `ares_buf.c` (reader half),
`ares_dns_name.c` (parse side), `ares_dns_multistring.c`, `ares_dns_parse.c`, the validity checks of
`ares_dns_record.c`/`ares_dns_mapping.c` and the legacy `ares_expand_name` / `ares_expand_string`
in explicit-check style: every raw C read (`ptr[i]`, `memcpy`) outside `[0, data_len)` and every
unguarded `size_t` subtraction that would wrap is a modelled **fault**, never a totalised default.

* **Totality**: every definition is accepted by Lean as a total function of *any* `Array UInt8`
  without fuel; the compression loop is well-founded recursion on
  `(min label_start pos, data_len − pos)` (`Cares.Dns.nameLoop`), the string-array and option loops
  on `data_len − pos`.  (That these are definitions and not `partial`/fuelled ones is audited by the
  check.)
* `ptr_strictly_backward`, `ptr_targets_strictly_decreasing`, `name_iterations_le`
* `no_oob`, `expand_name_no_oob`, `expand_string_no_oob`
* `result_shape`, `result_or_error`
* `reader_cursor_inv`

C-level memory safety, leaks and UB are *observed* under ASan/UBSan/LSan by the correspondence
harness on the generated inputs; they are not what these theorems prove (the claim is partial in
that sense and says so in MANIFEST).
-/
namespace Cares.C02
open Cares.Dns Cares.Generated

/-! ## compression pointers -/

/-- Every pointer followed while decoding a name (`(position of the pointer, target, label_start at
    that moment)`) goes **strictly below the lowest position visited so far** (`label_start`), which
    itself is at or below the pointer and at or below where the name started: decoding never runs
    forward and never returns to a position it has been at. -/
theorem ptr_strictly_backward (bs : Bytes) (isHost : Bool) (pos : Nat) :
    ∀ j ∈ (parseNameRun bs isHost pos).jumps, j.2.1 < j.2.2 ∧ j.2.2 ≤ j.1 ∧ j.2.2 ≤ pos := by
  obtain ⟨new, e, hj, _⟩ := nameLoop_jumps bs isHost pos pos 0 [] 0 []
  intro j hjm
  unfold parseNameRun at hjm
  rw [e, List.append_nil] at hjm
  have := hj j hjm
  unfold JumpOk at this
  omega

/-- successive pointer targets are strictly decreasing (the list is most-recent-first), hence no
    target is ever visited twice: pointers cannot loop -/
theorem ptr_targets_strictly_decreasing (bs : Bytes) (isHost : Bool) (pos : Nat) :
    (parseNameRun bs isHost pos).jumps.Pairwise (fun newer older => newer.2.1 < older.2.1) := by
  obtain ⟨new, e, _, hp⟩ := nameLoop_jumps bs isHost pos pos 0 [] 0 []
  unfold parseNameRun
  rw [e, List.append_nil]
  exact hp

/-- a bound on the number of loop iterations of `ares_dns_name_parse`, for every input (the runs
    that end in an error included): at most `pos` pointer hops, each followed by at most
    `data_len` label steps -/
theorem name_iterations_le (bs : Bytes) (isHost : Bool) (pos : Nat) (h : pos ≤ bs.size) :
    (parseNameRun bs isHost pos).iters ≤ (bs.size + 1) * (bs.size + 1) := by
  have := nameLoop_iters bs isHost pos pos 0 [] 0 []
  unfold parseNameRun
  have hm : min pos pos = pos := by omega
  rw [hm] at this
  have h1 : pos * (bs.size + 1) ≤ bs.size * (bs.size + 1) := Nat.mul_le_mul_right _ h
  have h2 : (bs.size + 1) * (bs.size + 1) = bs.size * (bs.size + 1) + (bs.size + 1) := by
    rw [Nat.add_mul, Nat.one_mul]
  omega

/-! ## no read outside the buffer, no wrapping subtraction -/

/-- `ares_dns_parse`: for **every** byte string and **every** flag word the model never performs a
    raw read outside the supplied buffer and never evaluates an unguarded `size_t` subtraction that
    would wrap (`orig_len − ares_buf_len`, `remaining_len − ares_buf_len`, `data_len − offset`). -/
theorem no_oob (bs : Bytes) (flags : Nat) : ∀ k, parse bs flags ≠ .fault k :=
  fun k => parse_no_fault bs flags k

/-- `ares_expand_name(abuf + off, abuf, alen, …)` for every buffer and every offset -/
theorem expand_name_no_oob (abuf : Bytes) (off : Nat) : ∀ k, expandName abuf off ≠ .fault k :=
  fun k => expandName_no_fault abuf off k

/-- `ares_expand_string(abuf + off, abuf, alen, …)` for every buffer and every offset -/
theorem expand_string_no_oob (abuf : Bytes) (off : Nat) : ∀ k, expandString abuf off ≠ .fault k :=
  fun k => expandString_no_fault abuf off k

/-! ## success with a fully formed record, or an error with none -/

/-- A successful parse returns a fully formed record (`Rec.WF`, `CaresLemmas/DnsShape.lean`): the
    section lengths equal the header counts (exactly one question), every RR carries exactly the keys
    `ares_dns_rr_get_keys` lists for its type, in that order, each set (non-NULL) and of the datatype
    `ares_dns_rr_key_datatype` gives for the key (with the numeric ranges of u8/u16/u32 and the
    4/16-byte address lengths), type and class pass `ares_dns_rec_type_isvalid` /
    `ares_dns_class_isvalid`, opcode and rcode are valid.  The table facts used
    (`scriptTable_ok`: generated field scripts vs. generated key/datatype tables) are `decide`
    obligations over the regenerated tables. -/
theorem result_shape (bs : Bytes) (flags : Nat) (r : Rec) (h : parse bs flags = .ok r) :
    ∃ hd o, parseHeader bs 0 = .ok hd o ∧ r.WF hd := by
  unfold parse at h
  split at h
  · simp at h
  · split at h
    · simp at h
    · split at h
      · rename_i r' o hr
        injection h with h
        subst h
        exact parseMsg_shape hr
      · simp at h
      · simp at h

/-- "success with a full result or an error with none": the outcome is one of these two, never the
    third (fault) -/
theorem result_or_error (bs : Bytes) (flags : Nat) :
    (∃ r hd o, parse bs flags = .ok r ∧ parseHeader bs 0 = .ok hd o ∧ r.WF hd) ∨
      (∃ e, parse bs flags = .err e) := by
  cases h : parse bs flags with
  | ok r =>
    obtain ⟨hd, o, h1, h2⟩ := result_shape bs flags r h
    exact Or.inl ⟨r, hd, o, rfl, h1, h2⟩
  | err e => exact Or.inr ⟨e, rfl⟩
  | fault k => exact (no_oob bs flags k h).elim

/-! ## cursor invariant of the reader -/

/-- Every reader operation the decoders use, started with the cursor inside `[0, data_len]`, never
    faults and on success leaves the cursor at or after where it was and still inside
    `[0, data_len]` (`SafeAt`) — including `ares_dns_name_parse`, whose cursor moves backwards
    internally but ends after the first pointer, and the field-script steps, whose
    `orig_len − ares_buf_len` subtraction needs `orig_len` to be the remaining length at an earlier
    cursor. -/
theorem reader_cursor_inv (bs : Bytes) (off : Nat) (h : off ≤ bs.size) :
    (∀ n, SafeAt bs (consume bs n) off) ∧ SafeAt bs (fetchByte bs) off ∧ SafeAt bs (fetchBe16 bs) off ∧
    SafeAt bs (fetchBe32 bs) off ∧ (∀ n, SafeAt bs (fetchBytes bs n) off) ∧
    (∀ n, SafeAt bs (fetchStrDup bs n) off) ∧ (∀ n v, SafeAt bs (parseDnsBinstr bs n v) off) ∧
    (∀ n v, SafeAt bs (parseMultistring bs n v) off) ∧ (∀ isHost, SafeAt bs (parseName bs isHost) off) ∧
    (∀ origLen rdlength kind, bs.size - off ≤ origLen → SafeAt bs (parseField bs origLen rdlength kind) off) ∧
    (∀ flags sect, SafeAt bs (parseRR bs flags sect) off) :=
  ⟨fun n => safe_consume n h, safe_fetchByte h, safe_fetchBe16 h, safe_fetchBe32 h,
   fun n => safe_fetchBytes n h, fun n => safe_fetchStrDup n h, fun n v => safe_parseDnsBinstr n v h,
   fun n v => safe_parseMultistring n v h, fun isHost => safe_parseName isHost h,
   fun origLen rdlength kind ho => safe_parseField origLen rdlength kind h ho,
   fun flags sect => safe_parseRR flags sect h⟩

/-- every position the compression loop moves the cursor to (`ares_buf_set_position(buf, offset)`) is
    inside the buffer whenever the name started inside it -/
theorem name_set_position_in_bounds (bs : Bytes) (isHost : Bool) (pos : Nat) (h : pos ≤ bs.size) :
    ∀ j ∈ (parseNameRun bs isHost pos).jumps, j.2.1 < bs.size := by
  intro j hj
  have := ptr_strictly_backward bs isHost pos j hj
  omega

/-! ## non-vacuity -/

/-- smallest accepted message: header, question `. IN A`, no records -/
def msgMin : Bytes := #[0x12, 0x34, 0x81, 0x80, 0, 1, 0, 0, 0, 0, 0, 0, 0, 0, 1, 0, 1]

theorem parseName_msgMin : parseName msgMin false 12 = .ok [] 13 := by
  unfold parseName parseNameRun
  rw [nameLoop_end (by decide) (by decide)]
  rfl

/-- the success branch of `result_shape` / `result_or_error` is inhabited -/
example : parse msgMin 0 = .ok ⟨0x1234, 25, 0, 0, [⟨[], 1, 1⟩], [], [], []⟩ := by
  have hh : parseHeader msgMin 0 = .ok ⟨0x1234, 25, 0, 0, 1, 0, 0, 0⟩ 12 := by decide
  have hq : parseQd msgMin 12 = .ok ⟨[], 1, 1⟩ 17 := by
    unfold parseQd
    rw [P.bind_ok parseName_msgMin]
    decide
  unfold parse
  rw [if_neg (by decide), if_neg (by decide)]
  unfold parseMsg
  rw [P.bind_ok hh]
  simp only
  rw [if_neg (by decide), if_neg (by decide), P.bind_ok hq]
  decide

/-- the error branch is inhabited too (truncated header) -/
example : parse #[0x12, 0x34] 0 = .err .ebadresp := by decide

/-- a message whose answer owner is `a` + pointer to the question name `b` at offset 12 -/
def msgPtr : Bytes :=
  #[0, 1, 0x81, 0x80, 0, 1, 0, 1, 0, 0, 0, 0,  1, 98, 0,  0, 1, 0, 1,
    1, 97, 0xc0, 12,  0, 1, 0, 1, 0, 0, 0, 60, 0, 4, 1, 2, 3, 4]

/-- the pointer theorems talk about something: this run follows exactly one pointer, from 21 to 12,
    when `label_start` was 19 -/
example : (parseNameRun msgPtr false 19).jumps = [(21, 12, 19)] ∧
    (parseNameRun msgPtr false 19).out = .ok [97, 46, 98] 23 := by
  unfold parseNameRun
  rw [nameLoop_label (by decide) (by decide) (by decide) (by decide) (by decide)]
  have e1 : (19 + 1 + msgPtr[19].toNat) = 21 := by decide
  rw [e1, nameLoop_ptr (by decide) (by decide) (by decide)]
  have e2 : ptrOffset msgPtr[21] msgPtr[21 + 1] = 12 := by decide
  rw [e2, nameLoop_label (by decide) (by decide) (by decide) (by decide) (by decide)]
  have e3 : (12 + 1 + msgPtr[12].toNat) = 14 := by decide
  rw [e3, nameLoop_end (by decide) (by decide)]
  decide

/-- a pointer to itself is rejected by evaluation (no fuel needed) -/
example : (parseNameRun #[0xc0, 0] false 0).out = .err .ebadname := by
  unfold parseNameRun
  rw [nameLoop_ptr_reject (by decide) (by decide) (by decide)]

end Cares.C02
