import CaresLemmas.TextRanges
/-!
# C15 — configuration text is parsed robustly and line-independently

Property theorems only (helper lemmas live in `CaresLemmas/Text*.lean`).  All statements quantify over
ALL byte strings (`Bytes = List Nat`, a superset of the byte strings) and all configurations.

Model (`CaresModel/Text/*`): `ares_buf_split` as the C loop (`splitLoop`), `ares_sysconfig_process_buf`
as a fold of a line step over the split lines (`processBuf` / `foldLines`), the resolv.conf,
nsswitch.conf and netsvc.conf/svc.conf line callbacks, `ares_sysconfig_set_options`,
`ares_parse_sortlist`, `ares_sconfig_append_fromstr`, the hosts file and HOSTALIASES parsers.
The model follows the tree with the repairs of F15, F16, F30-C15, F31-C15, F32-C15; the pinned
behaviour is kept (`resolvLinePinned`, `setOptions false`) for the kernel-checked counterexamples at
the end of the file.
-/
namespace Cares.C15
open Cares.Text

/-- `ares_buf_split(buf, "\n", TRIM, 0)` — the loop model — yields exactly the trimmed non-empty
    sections of plain splitting at line feeds -/
theorem split_refines_spec (bs : Bytes) : lines bs = linesSpec bs := lines_eq_spec bs

/-- splitting into lines distributes over concatenation at a line feed -/
theorem lines_append (a b : Bytes) : lines (a ++ 10 :: b) = lines a ++ lines b := Cares.Text.lines_append a b

/-- nothing but success / ENOMEM escapes the resolv.conf line callback, whatever the line -/
theorem line_step_total (ifs : Ifaces) (s : SysConfig) (l : Bytes) :
    ∃ s', resolvLine ifs s l = (.success, s') ∨ resolvLine ifs s l = (.enomem, s') := by
  refine ⟨(resolvLine ifs s l).2, ?_⟩
  rcases resolvLine_status ifs s l with h | h
  · left; rw [← h]
  · right; rw [← h]

/-- a line that is junk by the explicit decidable predicate `isJunk` changes nothing -/
theorem junk_is_noop (ifs : Ifaces) (s : SysConfig) (l : Bytes) (h : isJunk l = true) :
    resolvLine ifs s l = (.success, s) := junk_noop true rfl ifs s l h

/-- junk lines anywhere in the sequence of lines do not change the result -/
theorem line_independence (ifs : Ifaces) (s : SysConfig) (pre junk post : List Bytes)
    (hj : ∀ l ∈ junk, isJunk l = true) :
    foldLines (resolvLine ifs) s (pre ++ junk ++ post) = foldLines (resolvLine ifs) s (pre ++ post) :=
  foldLines_independence _ s pre junk post (fun l hl a => junk_is_noop ifs a l (hj l hl))

/-- the same at byte level: `parse (pre ++ "\n" ++ junk ++ "\n" ++ post) = parse (pre ++ "\n" ++ post)`
    for every text `junk` all of whose lines are junk -/
theorem line_independence_bytes (ifs : Ifaces) (s : SysConfig) (pre junk post : Bytes)
    (hj : ∀ l ∈ lines junk, isJunk l = true) :
    processBuf (resolvLine ifs) s (pre ++ 10 :: (junk ++ 10 :: post)) =
      processBuf (resolvLine ifs) s (pre ++ 10 :: post) := by
  unfold processBuf
  rw [lines_append pre, lines_append junk, lines_append pre, ← List.append_assoc]
  exact line_independence ifs s _ _ _ hj

/-- nsswitch.conf and netsvc.conf / svc.conf callbacks never fail -/
theorem db_line_step_total (s : SysConfig) (l : Bytes) :
    (nsswitchLine s l).1 = .success ∧ (svcconfLine s l).1 = .success :=
  ⟨dbLine_status _ _ s l, dbLine_status _ _ s l⟩

theorem db_junk_is_noop (s : SysConfig) (l : Bytes) :
    (dbJunk 58 [32, 9] l = true → nsswitchLine s l = (.success, s)) ∧
    (dbJunk 61 [44] l = true → svcconfLine s l = (.success, s)) :=
  ⟨dbJunk_noop _ _ s l, dbJunk_noop _ _ s l⟩

theorem db_line_independence (s : SysConfig) (pre junk post : Bytes) :
    ((∀ l ∈ lines junk, dbJunk 58 [32, 9] l = true) →
      processBuf nsswitchLine s (pre ++ 10 :: (junk ++ 10 :: post)) = processBuf nsswitchLine s (pre ++ 10 :: post)) ∧
    ((∀ l ∈ lines junk, dbJunk 61 [44] l = true) →
      processBuf svcconfLine s (pre ++ 10 :: (junk ++ 10 :: post)) = processBuf svcconfLine s (pre ++ 10 :: post)) := by
  constructor <;> intro hj <;> unfold processBuf <;>
    rw [lines_append pre, lines_append junk, lines_append pre, ← List.append_assoc] <;>
    exact foldLines_independence _ s _ _ _ (fun l hl a => dbJunk_noop _ _ a l (hj l hl))

/-- hosts file: lines that contribute no entry can be inserted anywhere without changing the parsed file -/
theorem hosts_line_independence (pre junk post : Bytes)
    (hj : ∀ l ∈ rawSplit (· == 10) junk, hostsJunk l = true) :
    parseHosts (pre ++ 10 :: (junk ++ 10 :: post)) = parseHosts (pre ++ 10 :: post) :=
  parseHosts_independence pre junk post hj

/-- HOSTALIASES file: likewise, for every looked-up name -/
theorem aliases_line_independence (noAliases : Bool) (name pre junk post : Bytes)
    (hj : ∀ l ∈ lines junk, aliasJunk l = true) :
    lookupHostaliases noAliases (.file (pre ++ 10 :: (junk ++ 10 :: post))) name =
      lookupHostaliases noAliases (.file (pre ++ 10 :: post)) name :=
  aliases_independence noAliases name pre junk post hj

/-- documented ranges of every parsed number, for every file content and every environment:
    timeout unset or a whole number of seconds ≥ 1 (≤ UINT_MAX/1000 s), tries / ndots 32-bit,
    sortlist masks ≤ 32 (IPv4) / ≤ 128 (IPv6), ports ≤ 65535, interface names ≤ 15 bytes,
    lookups a duplicate-free string over {b, f} (≤ 2 letters) -/
theorem ranges (ifs : Ifaces) (f : SysFiles) (processResolv : Bool) (localdomain resOptions : Option Bytes) :
    rangesOk (initSysconfigFiles true ifs {} f processResolv).2 = true ∧
    rangesOk (initByEnvironment (initSysconfigFiles true ifs {} f processResolv).2 localdomain resOptions).2 = true := by
  have h0 : rangesOk ({} : SysConfig) = true := by decide
  have h1 := initSysconfigFiles_ranges ifs {} f processResolv h0
  exact ⟨h1, initByEnvironment_ranges _ _ _ h1⟩

/-- what `rangesOk` says, spelled out -/
theorem ranges_spelled (c : SysConfig) (h : rangesOk c = true) :
    (c.timeoutMs = 0 ∨ (1000 ≤ c.timeoutMs ∧ c.timeoutMs % 1000 = 0 ∧ c.timeoutMs ≤ 4294967000)) ∧
    c.tries < 4294967296 ∧ c.ndots < 4294967296 ∧
    (∀ p ∈ c.sortlist, (p.addr.isV6 = false → p.mask ≤ 32) ∧ p.mask ≤ 128) ∧
    (∀ l, c.sconfig = some l → ∀ x ∈ l, x.udp ≤ 65535 ∧ x.tcp ≤ 65535 ∧ x.iface.length ≤ 15) ∧
    (∀ l, c.lookups = some l → l.length ≤ 2 ∧ ∀ ch ∈ l, ch = 98 ∨ ch = 102) := by
  obtain ⟨h1, h2, h3, h4, h5, h6⟩ := (rangesOk_iff c).mp h
  refine ⟨h1, h2, h3, ?_, ?_, ?_⟩
  · intro p hp
    have := List.all_eq_true.mp h4 p hp
    unfold patOk maskOk at this
    cases hv : p.addr.isV6 <;> simp [hv] at this ⊢ <;> omega
  · intro l hl x hx
    unfold listOk at h5
    rw [hl] at h5
    have := List.all_eq_true.mp h5 x hx
    simp only [sconfOk, Bool.and_eq_true, decide_eq_true_eq] at this
    omega
  · intro l hl
    rw [hl] at h6
    exact lookupsOk_len l h6

/-- server-list strings (`ares_sconfig_append_fromstr`, any `ignore_invalid`): ports and interface names in range -/
theorem server_ranges (ifs : Ifaces) (str : Bytes) (ign : Bool) :
    ∀ x ∈ ((appendFromStr ifs none str ign).2.getD []), x.udp ≤ 65535 ∧ x.tcp ≤ 65535 ∧ x.iface.length ≤ 15 := by
  intro x hx
  have h := appendFromStr_ok ifs none str ign rfl
  have := List.all_eq_true.mp h x hx
  simp only [sconfOk, Bool.and_eq_true, decide_eq_true_eq] at this
  omega

/-- sortlist strings (`ares_parse_sortlist`): masks in range -/
theorem sortlist_ranges (str : Bytes) :
    ∀ p ∈ (parseSortlist str).2, (p.addr.isV6 = false → p.mask ≤ 32) ∧ p.mask ≤ 128 := by
  intro p hp
  have := List.all_eq_true.mp (parseSortlist_ok str) p hp
  unfold patOk maskOk at this
  cases hv : p.addr.isV6 <;> simp [hv] at this ⊢ <;> omega

/-- fixed-size destinations (explicit-check style): whatever `ares_buf_tag_fetch_string` /
    `ares_strcpy` hand out fits the destination including its terminator — `option[32]`, `value[512]`
    of the resolv.conf callback, `ll_iface[16]` of `parse_nameserver` -/
theorem fixed_buffers_never_overflow :
    (∀ cap b r, fetchString cap b = .ok r → r.length + 1 ≤ cap) ∧
    (∀ cap s, 0 < cap → (strcpyTrunc cap s).length + 1 ≤ cap) ∧
    (∀ e s, parseNameserver e = .ok s → s.iface.length + 1 ≤ 16) ∧
    (∀ line o v raw, resolvSplit line = some (o, v, raw) → o.length + 1 ≤ 32) := by
  refine ⟨fun cap b r h => (fetchString_len cap b r h).2, fun cap s h => strcpyTrunc_len cap s h, ?_, ?_⟩
  · intro e s h
    have := parseNameserver_ok e s h
    simp only [sconfOk, Bool.and_eq_true, decide_eq_true_eq] at this
    omega
  · intro line o v raw h
    unfold resolvSplit at h
    split at h
    · simp at h
    · simp at h
    · simp only at h
      split at h
      · simp at h
      · split at h
        · simp at h
        · rename_i option ho
          split at h
          · simp at h
          · split at h
            · simp at h
            · simp only [Option.some.injEq, Prod.mk.injEq] at h
              rw [← h.1]
              exact (fetchString_len 32 _ _ ho).2

/-! ## The pinned tree (kernel-checked counterexamples; replayed on the implementation by the harness) -/

/-- F16: `search ,` makes the pinned callback report ENOMEM (the whole file is then abandoned) -/
theorem pinned_search_comma_drops_config :
    (processBuf (resolvLinePinned none) {} [115, 101, 97, 114, 99, 104, 32, 44, 10]).1 = .enomem ∧
    (processBuf (resolvLine none) {} [115, 101, 97, 114, 99, 104, 32, 44, 10]) = (.success, {}) := by
  decide +kernel

/-- F30-C15: a malformed sortlist line erases the sortlist read before it -/
theorem pinned_sortlist_junk_erases :
    (processBuf (resolvLinePinned none) {}
      [115, 111, 114, 116, 108, 105, 115, 116, 32, 49, 48, 46, 48, 46, 48, 46, 48, 47, 56, 10, 115, 111, 114, 116, 108, 105, 115, 116, 32, 98, 111, 103, 117, 115, 33, 10]).2.sortlist = [] ∧
    (processBuf (resolvLine none) {}
      [115, 111, 114, 116, 108, 105, 115, 116, 32, 49, 48, 46, 48, 46, 48, 46, 48, 47, 56, 10, 115, 111, 114, 116, 108, 105, 115, 116, 32, 98, 111, 103, 117, 115, 33, 10]).2.sortlist =
      [{ addr := .v4 [10, 0, 0, 0], mask := 8 }] := by
  decide +kernel

/-- F32-C15: `timeout:4294968` wraps to 704 ms on the pinned tree, saturates after the repair -/
theorem pinned_timeout_wraps :
    (setOptions false {} [116, 105, 109, 101, 111, 117, 116, 58, 52, 50, 57, 52, 57, 54, 56]).2.timeoutMs = 704 ∧
    (setOptions true {} [116, 105, 109, 101, 111, 117, 116, 58, 52, 50, 57, 52, 57, 54, 56]).2.timeoutMs = 4294967000 := by
  decide +kernel

/-! ## Non-vacuity -/

/-- a file with a comment and a bogus line in the middle: both are junk, and the parse is what the
    valid directives say -/
example : isJunk [98, 111, 103, 117, 115, 32, 108, 105, 110, 101] = true ∧ isJunk [35, 32, 99] = true := by decide +kernel

example :
    (processBuf (resolvLine none) {}
      [111, 112, 116, 105, 111, 110, 115, 32, 110, 100, 111, 116, 115, 58, 51, 32, 114, 111, 116, 97, 116, 101, 10, 35, 32, 99, 10, 98, 111, 103, 117, 115, 32, 108, 105, 110, 101, 10, 115, 101, 97, 114, 99, 104, 32, 97, 46, 98, 32, 99, 46, 100, 10]) =
    (.success, { ndots := 3, rotate := true, domains := some [[97, 46, 98], [99, 46, 100]] }) := by
  decide +kernel

/-- `isJunk` is not trivially true: a valid directive is not junk -/
example : isJunk [115, 101, 97, 114, 99, 104, 32, 97, 46, 98] = false := by decide +kernel

end Cares.C15
