import CaresLemmas.ClientWalkRun
/-!
# C13b — `ares_getaddrinfo` through the channel model returns exactly the addresses of the answers

The `gai` client of the channel model (`Cares.Chan.gaiStart` / `gaiOnCb` = `ares_getaddrinfo.c`: `next_lookup`,
`next_dns_lookup`, `host_callback`, `end_hquery`) run as the fold `ClientWalk.clientRun` over the completions
of its sub-requests, grouped by candidate as in `C12b.gai_client_walk` (`famCount fam` completions per
candidate, `tail` an incomplete group).

The user callback observes the digest `"ai=" ++ addr/ttl;… ++ name=…` (`gaiDigest`).  An answer is abstract in
the channel model (`Reply`: number of records `an`, TTLs, a marker that determines the address texts through
`answerAddr`); `replyNodes r` are its addresses in record order, `evNodes e` those a completion contributes:
`replyNodes` of its answer if the sub-request's status (after `ares_query`'s rcode conversion, `effSt`) is OK,
nothing otherwise.

The *winning* candidate is the last one `gaiWalk` walks (`C12b.gai_client_walk`); its completions are
`grps[walk.1.length - 1]`.  Order: the addresses appear in **arrival order of the completions** (for
AF_UNSPEC: the sub-request that completes first comes first, whether A or AAAA), inside one answer in record
order.  (`ares_sortaddrinfo` is not part of the channel model; C13 treats it.)
-/
namespace Cares.C13b
open Cares.Chan Cares.Text Cares.Proto Cares.ClientWalk

/-- the `.finish` of a `gai` run, described by the completions `win` of the candidate it finished on -/
theorem gai_finish (cfg : Cfg) (c : Config) (hm : CfgMatches cfg c) (name : Name) (hs : Ser name)
    (hal : lookupHostaliases c.noAliases c.aliases name = .error .enotfound)
    (fam : Nat) (hfam : fam = 0 ∨ fam = 2 ∨ fam = 10)
    (honion : isOnion (hex name) = false) (hlit : isV4Literal (hex name) = false)
    (hloc : isLocalhost (hex name) = false) (hdns : DnsFirst cfg)
    (id tok : Nat) (react : List Nat) (spec : ReqSpec) (hspec : spec.name = hex name)
    (grps : List (List Ev)) (tail : List Ev)
    (hlen : ∀ g ∈ grps, g.length = famCount fam) (htail : tail.length < famCount fam)
    (f : Chan.Status × Nat × String)
    (hfin : (clientRun cfg id "gai" tok react spec fam (grps.flatten ++ tail)).fin = some f) :
    let k := (gaiWalk c name (grps.map grpOutcome)).1.length - 1
    ∃ win, grps[k]? = some win ∧ FinOk f win := by
  have hr := gai_run cfg c hm name hs hal fam hfam honion hlit hloc hdns id tok react spec hspec grps tail hlen htail
  have hok := hr.2.2 f hfin
  have h2 := hr.2.1
  rw [hfin] at h2
  simp only [Option.map_some] at h2
  have hle : (gaiWalk c name (grps.map grpOutcome)).1.length ≤ grps.length := by
    by_cases hle : (gaiWalk c name (grps.map grpOutcome)).1.length ≤ grps.length
    · exact hle
    · rw [if_neg hle] at h2; simp at h2
  have hpos : 0 < (gaiWalk c name (grps.map grpOutcome)).1.length := by
    obtain ⟨names, hnl, _, _⟩ := searchNames_hex cfg c hm name hs hal
    have hne := nameList_ne_nil c name names hnl
    obtain ⟨cand, rest, rfl⟩ := List.exists_cons_of_ne_nil hne
    unfold gaiWalk
    simp only [hnl, gaiLoop_eq _ hne]
    exact searchLoop_len_pos cand rest _ false
  have hk : (gaiWalk c name (grps.map grpOutcome)).1.length - 1 < grps.length := by omega
  refine ⟨grps[(gaiWalk c name (grps.map grpOutcome)).1.length - 1], by simp [hk], ?_⟩
  have : grps.getD ((gaiWalk c name (grps.map grpOutcome)).1.length - 1) [] =
      grps[(gaiWalk c name (grps.map grpOutcome)).1.length - 1] := by
    simp [List.getD, hk]
  rw [← this]; exact hok

/-- **G2 `gai_addresses_from_replies`.**  When the request finishes with status OK, the address list of its
    digest is exactly the concatenation, in arrival order, of the addresses of the answers with status OK
    that were delivered for the winning candidate — nothing invented, duplicated or dropped (the list is
    *equal*); and `name=` is `ai->name` as those answers set it. -/
theorem gai_addresses_from_replies (cfg : Cfg) (c : Config) (hm : CfgMatches cfg c) (name : Name) (hs : Ser name)
    (hal : lookupHostaliases c.noAliases c.aliases name = .error .enotfound)
    (fam : Nat) (hfam : fam = 0 ∨ fam = 2 ∨ fam = 10)
    (honion : isOnion (hex name) = false) (hlit : isV4Literal (hex name) = false)
    (hloc : isLocalhost (hex name) = false) (hdns : DnsFirst cfg)
    (id tok : Nat) (react : List Nat) (spec : ReqSpec) (hspec : spec.name = hex name)
    (grps : List (List Ev)) (tail : List Ev)
    (hlen : ∀ g ∈ grps, g.length = famCount fam) (htail : tail.length < famCount fam)
    (t : Nat) (dg : String)
    (hfin : (clientRun cfg id "gai" tok react spec fam (grps.flatten ++ tail)).fin = some (.ok, t, dg)) :
    ∃ win, grps[(gaiWalk c name (grps.map grpOutcome)).1.length - 1]? = some win ∧
      dg = addrDigest (win.flatMap evNodes) (win.foldl evAiName "") := by
  obtain ⟨win, hwin, hd, hst⟩ := gai_finish cfg c hm name hs hal fam hfam honion hlit hloc hdns id tok react spec
    hspec grps tail hlen htail _ hfin
  refine ⟨win, hwin, ?_⟩
  rcases hst with hst | ⟨hst, _⟩
  · show dg = _
    have : dg = grpDigest win := hd
    rw [this, grpDigest_of_ok win hst.symm]; rfl
  · exact absurd (show Chan.Status.ok = Chan.Status.nodata from hst) (by decide)

/-- addresses are reported only with status OK: every other final status comes with the empty list, even
    when sub-requests of the finishing candidate had delivered addresses -/
theorem gai_no_addresses_unless_ok (cfg : Cfg) (c : Config) (hm : CfgMatches cfg c) (name : Name) (hs : Ser name)
    (hal : lookupHostaliases c.noAliases c.aliases name = .error .enotfound)
    (fam : Nat) (hfam : fam = 0 ∨ fam = 2 ∨ fam = 10)
    (honion : isOnion (hex name) = false) (hlit : isV4Literal (hex name) = false)
    (hloc : isLocalhost (hex name) = false) (hdns : DnsFirst cfg)
    (id tok : Nat) (react : List Nat) (spec : ReqSpec) (hspec : spec.name = hex name)
    (grps : List (List Ev)) (tail : List Ev)
    (hlen : ∀ g ∈ grps, g.length = famCount fam) (htail : tail.length < famCount fam)
    (st : Chan.Status) (t : Nat) (dg : String)
    (hfin : (clientRun cfg id "gai" tok react spec fam (grps.flatten ++ tail)).fin = some (st, t, dg))
    (hne : st ≠ .ok) : dg = "ai=" := by
  obtain ⟨win, _, hd, hst⟩ := gai_finish cfg c hm name hs hal fam hfam honion hlit hloc hdns id tok react spec
    hspec grps tail hlen htail _ hfin
  rcases hst with hst | ⟨_, hd'⟩
  · have : dg = grpDigest win := hd
    rw [this]
    exact grpDigest_of_ne_ok win (fun h => hne (by have : st = grpStatus win := hst; rw [this, h]))
  · exact hd'

/-- **G2 `gai_no_partial_on_cancel`.**  A request that finishes cancelled / destroyed reports no address. -/
theorem gai_no_partial_on_cancel (cfg : Cfg) (c : Config) (hm : CfgMatches cfg c) (name : Name) (hs : Ser name)
    (hal : lookupHostaliases c.noAliases c.aliases name = .error .enotfound)
    (fam : Nat) (hfam : fam = 0 ∨ fam = 2 ∨ fam = 10)
    (honion : isOnion (hex name) = false) (hlit : isV4Literal (hex name) = false)
    (hloc : isLocalhost (hex name) = false) (hdns : DnsFirst cfg)
    (id tok : Nat) (react : List Nat) (spec : ReqSpec) (hspec : spec.name = hex name)
    (grps : List (List Ev)) (tail : List Ev)
    (hlen : ∀ g ∈ grps, g.length = famCount fam) (htail : tail.length < famCount fam)
    (st : Chan.Status) (t : Nat) (dg : String)
    (hfin : (clientRun cfg id "gai" tok react spec fam (grps.flatten ++ tail)).fin = some (st, t, dg))
    (hc : st = .cancelled ∨ st = .destruction) : dg = "ai=" :=
  gai_no_addresses_unless_ok cfg c hm name hs hal fam hfam honion hlit hloc hdns id tok react spec hspec grps tail
    hlen htail st t dg hfin (by rcases hc with rfl | rfl <;> decide)

/-- … and that is what happens whenever the candidate's last sub-request completes cancelled / destroyed:
    the candidate's outcome is that status (a hard one: the walk stops, `C12b.gai_client_walk`) whatever the
    earlier sub-requests delivered, and the digest is empty -/
theorem cancel_discards_collected (name : Name) (grp : List Ev) (e : Ev)
    (h : effSt e.st e.reply = .cancelled ∨ effSt e.st e.reply = .destruction) :
    grpStatus (grp ++ [e]) = effSt e.st e.reply ∧ grpDigest (grp ++ [e]) = "ai=" ∧
    soft name (grpOutcome (grp ++ [e])) = false := by
  have h1 := candOut_cancel (grpNodes (grp ++ [e])) (grpAiName (grp ++ [e])) e h
  have hs : grpStatus (grp ++ [e]) = effSt e.st e.reply := by simp [grpStatus, h1.1]
  refine ⟨hs, by simp [grpDigest, h1.2], ?_⟩
  unfold grpOutcome; rw [hs]
  rcases h with h | h <;> rw [h] <;> rfl

/-! ## Restricted to the requested family -/

/-- the sub-requests are of the requested family only (A for AF_INET, AAAA for AF_INET6, both for AF_UNSPEC);
    the client itself does not filter answers — an answer is tied to its question by the channel
    (`same_address` / question check, C05/C09) — and an answer to a question of type `qt` contributes exactly
    its `an` records rendered as addresses of that type -/
theorem requested_family_only (fam : Nat) (n : String) :
    famSpecs fam n = if fam = 2 then [(n, 1)] else if fam = 10 then [(n, 28)] else [(n, 1), (n, 28)] := by
  unfold famSpecs
  by_cases h2 : fam = 2
  · simp [h2]
  · by_cases h10 : fam = 10 <;> simp [h2, h10]

theorem reply_nodes_family (r : Reply) (qt : Nat) (hq : r.qtype = qt) (hqt : qt = 1 ∨ qt = 28) :
    replyNodes r = (List.range r.an).map fun i =>
      s!"{answerAddr qt r.mark i}/{r.ttls.getD i (r.ttls.getLastD 300)}" := by
  unfold replyNodes
  rcases hqt with rfl | rfl <;> simp [hq]

/-- nothing invented, duplicated or dropped at the level of one answer: as many nodes as records -/
theorem reply_nodes_length (r : Reply) : (replyNodes r).length = r.an := by simp [replyNodes]

/-- what a completion contributes, spelled out -/
theorem evNodes_spec (e : Ev) :
    evNodes e = match e.reply with
      | some r => if effSt e.st e.reply = .ok then replyNodes r else []
      | none => [] := by
  unfold evNodes
  cases e.reply <;> simp

/-! ## Non-vacuity: `host`, ndots 1, domains `a.com b.com`, AF_UNSPEC -/

namespace Example
def cfg : Cfg := { ndots := 1, domains := ["612e636f6d", "622e636f6d"] }
def c : Config := { ndots := 1, domains := [[97, 46, 99, 111, 109], [98, 46, 99, 111, 109]] }
def host : Name := [104, 111, 115, 116]
def rep (qt rcode an : Nat) : Ev :=
  { st := .ok, reply := some { id := 0, name := "686f7374", qtype := qt, qclass := 1, rcode := rcode, an := an } }
def cancelled : Ev := { st := .cancelled }

/-- host.a.com: NXDOMAIN twice; host.b.com: the AAAA answer (1 record) arrives first, then the A answer
    (2 records): all three addresses, in arrival order -/
theorem run_ok : clientRun cfg 0 "gai" 7 [] { name := "686f7374", qtype := 1 } 0
      ([[rep 1 3 0, rep 28 3 0], [rep 28 0 1, rep 1 0 2]].flatten ++ []) =
    ⟨[("686f73742e612e636f6d", 1), ("686f73742e612e636f6d", 28), ("686f73742e622e636f6d", 1),
      ("686f73742e622e636f6d", 28)],
     some (.ok, 0, "ai=2001::1/300;10.0.0.1/300;10.0.0.2/300;name=host")⟩ := by
  refine (gai_run_eval cfg 0 7 [] { name := "686f7374", qtype := 1 } 0 _ rfl (by decide +kernel)
    host_not_literal).trans ?_
  decide +kernel

/-- the hypotheses of `gai_addresses_from_replies` hold on this run, and its conclusion is the digest above -/
example : ∃ win, [[rep 1 3 0, rep 28 3 0], [rep 28 0 1, rep 1 0 2]][
      (gaiWalk c host ([[rep 1 3 0, rep 28 3 0], [rep 28 0 1, rep 1 0 2]].map grpOutcome)).1.length - 1]? = some win ∧
    "ai=2001::1/300;10.0.0.1/300;10.0.0.2/300;name=host" = addrDigest (win.flatMap evNodes) (win.foldl evAiName "") :=
  gai_addresses_from_replies cfg c ⟨rfl, by decide, rfl, by decide⟩ host (by decide) rfl 0 (Or.inl rfl)
    (by decide +kernel) host_not_literal (by decide +kernel) ⟨0, [], by decide, by decide⟩ 0 7 []
    { name := "686f7374", qtype := 1 } (by decide) _ [] (by decide) (by decide) 0 _
    (by rw [run_ok])

example : addrDigest ([rep 28 0 1, rep 1 0 2].flatMap evNodes) ([rep 28 0 1, rep 1 0 2].foldl evAiName "") =
    "ai=2001::1/300;10.0.0.1/300;10.0.0.2/300;name=host" := by decide +kernel

/-- the A answer delivers two addresses, then the AAAA sub-request completes cancelled (`ares_cancel`):
    ECANCELLED and no address -/
example : clientRun cfg 0 "gai" 7 [] { name := "686f7374", qtype := 1 } 0 [rep 1 0 2, cancelled] =
    ⟨[("686f73742e612e636f6d", 1), ("686f73742e612e636f6d", 28)], some (.cancelled, 0, "ai=")⟩ := by
  refine (gai_run_eval cfg 0 7 [] { name := "686f7374", qtype := 1 } 0 _ rfl (by decide +kernel)
    host_not_literal).trans ?_
  decide +kernel

end Example

end Cares.C13b
