import CaresLemmas.DnsRfcMsg
/-!
# C04 — Decoded records say what the wire bytes say (RFC reference agreement)

Property theorems only.  Helper lemmas: `CaresLemmas/DnsEscape.lean` (presentation names),
`DnsRfcName.lean` (name layer), `DnsRfcFields.lean` (RDATA field layer), `DnsRfcRR.lean` (one RR),
`DnsRfcMsg.lean` (header, question, sections, whole message).

* `Cares.Dns.Rfc.decode` (`CaresModel/Dns/Rfc.lean`) is a declarative reference decoder written
  from RFC 1035 / 2535 / 2782 / 3403 / 3596 / 6698 / 6891 / 7553 / 8659 / 9460 with a structure
  different from the operational parser (names as label lists by structural recursion over strictly
  earlier pointer targets, RR framing from RDLENGTH, RDATA formats from a table of the RFC diagrams,
  header bits by division/modulo, OPT by the RFC 6891 field split).
* `Cares.Dns.parse` (`Parse.lean`) is the operational model of `ares_dns_parse`, tied to the C code by
  the `h_codec` correspondence stream.
* "agrees": `Rfc.Msg.toRec m = some r` — the decoded message, presented the way the record API
  presents things (escaped presentation names, RAW_RR for undecoded types, OPT's CLASS/TTL split,
  SERVFAIL for RCODE values outside the enum, option lists as first-insertion-ordered maps), is
  exactly the record.

The theorems are full statements (no `_partial`): finding F8 (RAW_RR with empty RDATA reported as
type 0) is repaired by a `fix:` commit and the model follows the repaired code.
-/
namespace Cares.C04
open Cares.Dns Cares.Generated

/-- every header field, question and RR field the parser reports is what the reference decoder
    extracts from the same bytes -/
def agrees (r : Rec) (m : Rfc.Msg) : Prop := m.toRec = some r

/-- **Soundness.** Whenever the parser accepts a message (default flags), the reference decoder
    decodes it, the record agrees with the decoded message in every field, and the message lies in
    the explicitly written supported subset. -/
theorem parse_sound (bs : Bytes) (r : Rec) (h : parse bs 0 = .ok r) :
    ∃ m, Rfc.decode bs = some m ∧ agrees r m ∧ Rfc.supported bs m = true :=
  parse_sound_thm bs r h

/-- **Completeness.** Whenever the reference decoder finds the message well-formed and it is within
    the supported subset (`Rfc.supported`: a decidable predicate written out in `Rfc.lean`: at most
    65535 octets, known opcode, exactly one question of class IN/CH/HS/NONE/ANY, RR classes
    IN/CH/HS/NONE (ANY only for SIG), no RR of type `*`, typed fields fitting their RDATA,
    character-strings of HINFO/NAPTR/CAA and the URI target printable ASCII, SIG/TLSA/CAA payloads
    non-empty), the parser accepts it — and reports exactly that message. -/
theorem parse_complete (bs : Bytes) (m : Rfc.Msg) (hd : Rfc.decode bs = some m)
    (hs : Rfc.supported bs m = true) : ∃ r, parse bs 0 = .ok r ∧ agrees r m :=
  parse_complete_thm bs m hd hs

/-- both directions together: acceptance by the parser is *equivalent* to "decodes and is supported",
    and the record is determined by the reference decoder -/
theorem parse_iff_decode (bs : Bytes) (r : Rec) :
    parse bs 0 = .ok r ↔ ∃ m, Rfc.decode bs = some m ∧ Rfc.supported bs m = true ∧ agrees r m := by
  constructor
  · intro h
    obtain ⟨m, h1, h2, h3⟩ := parse_sound bs r h
    exact ⟨m, h1, h3, h2⟩
  · rintro ⟨m, h1, h2, h3⟩
    obtain ⟨r', h4, h5⟩ := parse_complete bs m h1 h2
    have : r' = r := by
      unfold agrees at h3 h5
      rw [h3] at h5
      injection h5 with h5
      exact h5.symm
    rw [← this]
    exact h4

/-- **Name layer**: `ares_dns_name_parse` accepts exactly the names the RFC 1035 §4.1.4 reference
    decodes (labels ending in the zero octet or in a pointer to a strictly earlier name), returns the
    presentation form of exactly those labels, and leaves the cursor right after the wire form. -/
theorem name_agrees (bs : Bytes) (p : Nat) (hp : p ≤ bs.size) :
    parseName bs false p = match Rfc.name bs p with
      | some (labels, next) => .ok (escapeName labels) next
      | none => .err .ebadname :=
  parseName_eq_rfc bs p hp

/-! ## presentation-format names -/

/-- **Escaping round-trips**: reading back the presentation form (`ares_split_dns_name` with its
    `\DDD` / `\c` escapes) of any list of non-empty labels gives exactly those label bytes. -/
theorem escape_roundtrip (labels : List BStr) (hne : ∀ l ∈ labels, l ≠ []) :
    unescapeName false (escapeName labels) = .ok labels :=
  unescape_escapeName labels hne

/-- the statement without "labels are non-empty" is false (an empty label has no presentation form
    of its own) — kernel-checked; DNS labels are non-empty by definition (length octet 1..63) -/
theorem escape_roundtrip_needs_nonempty : ¬ (unescapeName false (escapeName [[]]) = .ok [[]]) := by
  unfold unescapeName
  rw [escapeName_single]
  simp only [escapeLabel, List.flatMap_nil]
  rw [splitLoop]
  simp [Except.map, splitFinish]

/-- with the length validation of `ares_split_dns_name` (labels 1..63 octets, at most 255 in all) -/
theorem split_escape (labels : List BStr) (hok : labelsLengthOk labels = true) :
    splitDnsName false (escapeName labels) = .ok labels := by
  have hne : ∀ l ∈ labels, l ≠ [] := by
    intro l hl h0
    simp only [labelsLengthOk, Bool.and_eq_true, List.all_eq_true, decide_eq_true_eq] at hok
    have := (hok.1 l hl).1
    rw [h0] at this
    simp at this
  unfold splitDnsName
  rw [escape_roundtrip labels hne]
  simp only [hok, ↓reduceIte]

/-! ## table obligations (regenerated tables; kernel evaluation) -/

/-- every generated field script is compatible with the RFC format of its type -/
theorem scripts_match_rfc_formats : scriptsCompatible = true := scripts_compatible

/-- the escape rule over all 256 bytes: plain / `\c` / `\DDD`, and it reads back as the byte -/
theorem escape_table_ok : ∀ n, n < 256 → byteShapeOk n.toUInt8 = true := byteShape_all

/-! ## non-vacuity -/

/-- header + question `. IN A` -/
def msgMin : Bytes := #[0x12, 0x34, 0x81, 0x80, 0, 1, 0, 0, 0, 0, 0, 0, 0, 0, 1, 0, 1]

theorem name_msgMin : Rfc.name msgMin 12 = some ([], 13) := by
  rw [Rfc.name, Rfc.labelRun]
  decide

/-- the hypotheses of `parse_complete` are satisfiable: this message decodes and is supported -/
example : ∃ m, Rfc.decode msgMin = some m ∧ Rfc.supported msgMin m = true := by
  have h12 : 12 ≤ msgMin.size := by decide
  have hsup : Rfc.supported msgMin (refMsg msgMin (by decide) [⟨[], 1, 1⟩] [] [] []) = true := by decide
  have hq : Rfc.decodeQuestion msgMin 12 = some (⟨[], 1, 1⟩, 17) := by
    unfold Rfc.decodeQuestion
    rw [name_msgMin]
    decide
  refine ⟨refMsg msgMin h12 [⟨[], 1, 1⟩] [] [] [], ?_, hsup⟩
  rw [decode_eq h12]
  have : be16At msgMin 4 (by decide) = 1 := by decide
  rw [this]
  simp only [Rfc.decodeQuestions, hq]
  have h6 : be16At msgMin 6 (by decide) = 0 := by decide
  have h8 : be16At msgMin 8 (by decide) = 0 := by decide
  have h10 : be16At msgMin 10 (by decide) = 0 := by decide
  rw [h6, h8, h10]
  rfl

/-- … and so is the hypothesis of `parse_sound` (by completeness) -/
example : ∃ r, parse msgMin 0 = .ok r := by
  have h12 : 12 ≤ msgMin.size := by decide
  have hsup : Rfc.supported msgMin (refMsg msgMin (by decide) [⟨[], 1, 1⟩] [] [] []) = true := by decide
  have hq : Rfc.decodeQuestion msgMin 12 = some (⟨[], 1, 1⟩, 17) := by
    unfold Rfc.decodeQuestion
    rw [name_msgMin]
    decide
  have hd : Rfc.decode msgMin = some (refMsg msgMin h12 [⟨[], 1, 1⟩] [] [] []) := by
    rw [decode_eq h12]
    have : be16At msgMin 4 (by decide) = 1 := by decide
    rw [this]
    simp only [Rfc.decodeQuestions, hq]
    have h6 : be16At msgMin 6 (by decide) = 0 := by decide
    have h8 : be16At msgMin 8 (by decide) = 0 := by decide
    have h10 : be16At msgMin 10 (by decide) = 0 := by decide
    rw [h6, h8, h10]
    rfl
  obtain ⟨r, h, _⟩ := parse_complete msgMin _ hd hsup
  exact ⟨r, h⟩

/-- the reference is not trivially permissive: a pointer to itself is not a name -/
example : Rfc.name #[0xc0, 0] 0 = none := by
  rw [Rfc.name, Rfc.labelRun]
  decide

/-- escaping really escapes: the label `a.b\` + byte 7 -/
example : escapeName [[97, 46, 98, 92, 7]] = [97, 92, 46, 98, 92, 92, 92, 48, 48, 55] := by decide

end Cares.C04
