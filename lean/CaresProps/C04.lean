import CaresModel.Dns.Rfc
/-! # C04 — decoded records say what the wire bytes say (theorems are being added) -/
namespace Cares.C04
end Cares.C04
