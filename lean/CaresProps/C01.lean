import CaresLemmas.ChanWfExec
/-!
# C01 — every request completes exactly once, whatever happens in between

Property theorems over the channel model `Cares.Chan` (`exec fuel call s`; see `CaresModel/Chan/Core.lean`).
Helper lemmas live in `CaresLemmas/ChanWf*.lean`.

* `Inv s` — the index / ownership / token invariant (`Wf`, `ChanWfDefs.lean`) together with the bookkeeping
  invariant of the compound requests (`DebtOk`).
* `CallOk s call` — what the caller of a procedure establishes (`Pre`): e.g. the key handed to `.sendQuery` is
  linked, the owner handed to `.sendNolock` holds a token that is pending and that no live object holds.
* All theorems are stated for every fuel and are about runs that did not run out of fuel
  (`(exec fuel call s).1.outOfFuel = false`): fuel is an artefact of the model (the C code has none), and a run
  cut short by it stops in the middle of a C function, where the invariant does not hold
  (`wf_not_unconditional` below is the kernel-checked witness).
* `ares_destroy` (`.destroy`) is not covered by these three theorems (see the notes).
-/
namespace Cares.C01
open Cares.Chan

/-- the invariant of the channel between (and inside) API calls -/
def Inv (s : St) : Prop := Wf s ∧ DebtOk none (fun _ => 0) s.sk

/-- the precondition a caller of `call` establishes (includes `Inv s`) -/
def CallOk (s : St) (call : Call) : Prop := Pre (fun _ => 0) s call

theorem CallOk.inv {s : St} {call : Call} (h : CallOk s call) (hd : call ≠ .destroy)
    (hreq : ∀ k a b c e, call ≠ .requeue k a b c e) (hend : ∀ a k b c, call ≠ .endQuery a k b c) : Wf s := by
  unfold CallOk at h
  cases call <;> first
    | exact h.1
    | exact absurd rfl hd
    | exact absurd rfl (hreq _ _ _ _ _)
    | exact absurd rfl (hend _ _ _ _)

/-- **1. the invariant is preserved** by every procedure, for every fuel, including all the re-entrant API
    calls made by the user callbacks it runs -/
theorem wf_preserved (fuel : Nat) (call : Call) (s : St) (h : CallOk s call)
    (hf : (exec fuel call s).1.outOfFuel = false) : Inv (exec fuel call s).1 := by
  rcases (goOk_exec fuel).2 _ call s h with hoof | hg
  · rw [hf] at hoof; cases hoof
  · exact ⟨hg.wf, hg.debt⟩

/-- **2. no use after release / double release**: the library never goes on to use a query, connection or
    compound request it has released, and no index entry dangles (`modelFaults` records exactly these events) -/
theorem no_safety_fault (fuel : Nat) (call : Call) (s : St) (h : CallOk s call)
    (hf : (exec fuel call s).1.outOfFuel = false) : (exec fuel call s).1.modelFaults = s.modelFaults := by
  rcases (goOk_exec fuel).2 _ call s h with hoof | hg
  · rw [hf] at hoof; cases hoof
  · exact hg.step.faults

/-- **3. no callback is invoked twice**, also when callbacks start requests or cancel -/
theorem cb_at_most_once (fuel : Nat) (call : Call) (s : St) (h : CallOk s call)
    (hf : (exec fuel call s).1.outOfFuel = false) : (exec fuel call s).1.doneToks.Nodup :=
  (wf_preserved fuel call s h hf).1.tok.dN

/-- callbacks already made stay made, in order: `doneToks` only grows -/
theorem tokens_accounted (fuel : Nat) (call : Call) (s : St) (h : CallOk s call)
    (hf : (exec fuel call s).1.outOfFuel = false) :
    (∀ t ∈ (exec fuel call s).1.pendingToks, t ∉ (exec fuel call s).1.doneToks) ∧
    (exec fuel call s).1.pendingToks.Nodup :=
  ⟨(wf_preserved fuel call s h hf).1.tok.disj, (wf_preserved fuel call s h hf).1.tok.pN⟩

/-! ### how the driver establishes `CallOk` -/

/-- the procedures the event loop calls need nothing but the invariant -/
theorem callOk_loop {s : St} (h : Inv s) :
    (∀ fd, CallOk s (.processRead fd)) ∧ (∀ fd, CallOk s (.processWrite fd)) ∧ CallOk s .processTimeouts ∧
    (∀ l, CallOk s (.cleanupConns l)) ∧ CallOk s .cancel :=
  ⟨fun _ => h, fun _ => h, h, fun _ => h, h⟩

/-- accepting a request with a fresh token: the driver appends the token to `pendingToks`, then calls
    `ares_send` / `ares_query` / `ares_search` / `ares_getaddrinfo` -/
theorem callOk_accept {s : St} (h : Inv s) (tok : Nat) (hb : tok < 10000 + s.reactSeq)
    (hp : tok ∉ s.pendingToks) (hd : tok ∉ s.doneToks) :
    let s' : St := { s with pendingToks := s.pendingToks ++ [tok] }
    Inv s' ∧ (∀ spec react, CallOk s' (.sendNolock none false false spec (.user tok) react)) ∧
      (∀ kind spec react fam, CallOk s' (.clientStart kind tok react spec fam)) := by
  obtain ⟨hw, hdb⟩ := h
  have ht := hw.tok
  -- no live object holds the token
  have hq : ∀ p ∈ s.sk.qKO, p.1 ∈ s.sk.idx → p.2 ≠ .user tok := fun p hpm hpi ho =>
    hp (ht.tQ p hpm hpi tok ho).1
  have hc : ∀ c ∈ s.sk.clients, c.tok ≠ tok := fun c hcm he => by
    rcases ht.tK c hcm with hk | hk
    · exact hp (he ▸ hk)
    · exact hd (he ▸ hk)
  have hw' : WfS ({ s with pendingToks := s.pendingToks ++ [tok] } : St).sk none := by
    refine ⟨hw.q, hw.i, hw.t, hw.c, hw.s, hw.k, ?_⟩
    show WfTokP s.sk.qKO s.sk.idx s.sk.clients (s.pendingToks ++ [tok]) s.doneToks s.reactSeq
    refine ⟨?_, ht.dN, ?_, ?_, ht.dB, ?_, ?_, ?_, ?_⟩
    · rw [List.nodup_append]
      exact ⟨ht.pN, by simp, fun x hx y hy => by rw [List.mem_singleton.mp hy]; exact fun he => hp (he ▸ hx)⟩
    · intro t hm
      rcases List.mem_append.mp hm with hm | hm
      · exact ht.disj t hm
      · rw [List.mem_singleton.mp hm]; exact hd
    · intro t hm
      rcases List.mem_append.mp hm with hm | hm
      · exact ht.pB t hm
      · rw [List.mem_singleton.mp hm]; exact hb
    · intro p hpm hpi tok' ho
      obtain ⟨a1, a2, a3⟩ := ht.tQ p hpm hpi tok' ho
      exact ⟨List.mem_append.mpr (Or.inl a1), a2, a3⟩
    · intro p hpm hpi id ho
      obtain ⟨c, hcm, h1, h2⟩ := ht.tC p hpm hpi id ho
      exact ⟨c, hcm, h1, List.mem_append.mpr (Or.inl h2)⟩
    · intro c hcm
      rcases ht.tK c hcm with hk | hk
      · exact Or.inl (List.mem_append.mpr (Or.inl hk))
      · exact Or.inr hk
    · intro c hcm c' hcm' he hpe
      rcases List.mem_append.mp hpe with hpe | hpe
      · exact ht.tKU c hcm c' hcm' he hpe
      · exact absurd (List.mem_singleton.mp hpe) (hc c hcm)
  have hdb' : DebtOk none (fun _ => 0) ({ s with pendingToks := s.pendingToks ++ [tok] } : St).sk :=
    ⟨hdb.fresh, fun c hcm hpe hx => by
      rcases List.mem_append.mp hpe with hpe | hpe
      · exact hdb.cnt c hcm hpe hx
      · exact absurd (List.mem_singleton.mp hpe) (hc c hcm)⟩
  have hof : ({ s with pendingToks := s.pendingToks ++ [tok] } : St).sk.OwnerFree (.user tok) :=
    ⟨List.mem_append.mpr (Or.inr (List.mem_singleton.mpr rfl)), hq, hc⟩
  exact ⟨⟨hw', hdb'⟩, fun _ _ => ⟨hw', hof, hdb'⟩, fun _ _ _ _ => ⟨hw', hof, hdb'⟩⟩

/-- everything else the driver does between calls (advancing the clock, queueing replies and socket faults on
    the virtual sockets, rendering the events) leaves the skeleton of the state alone -/
theorem inv_of_sk_eq {s s' : St} (h : s'.sk = s.sk) (hi : Inv s) : Inv s' := by
  unfold Inv Wf at *
  rw [h]; exact hi

end Cares.C01
