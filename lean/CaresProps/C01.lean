import CaresLemmas.ChanWfDestroy
/-!
# C01 — every request completes exactly once, whatever happens in between

Property theorems over the channel model `Cares.Chan` (`exec fuel call s`; see `CaresModel/Chan/Core.lean`).
Helper lemmas live in `CaresLemmas/ChanWf*.lean`.

* `Inv s` — the index / ownership / token invariant (`Wf`, `ChanWfDefs.lean`) together with the bookkeeping
  invariant of the compound requests (`DebtOk`).
* `CallOk s call` — what the caller of a procedure establishes (`Pre`): e.g. the key handed to `.sendQuery` is
  linked, the owner handed to `.sendNolock` holds a token that is pending and that no live object holds.
* All theorems are stated for every fuel and are about runs that did not run out of fuel
  (`(exec fuel call s).1.outOfFuel = false`): fuel is an artefact of the model (the C code has none), and a run
  cut short by it stops in the middle of a C function, where the invariant does not hold
  (`wf_not_unconditional` below is the kernel-checked witness).
* `ares_destroy` (`.destroy`) is never called by another procedure; it has its own theorem
  (`destroy_completes_all`), `CallOk s .destroy` is `False` by definition so that theorems 1–3 do not apply to it.
-/
namespace Cares.C01
open Cares.Chan

/-- the invariant of the channel between (and inside) API calls -/
def Inv (s : St) : Prop := Wf s ∧ DebtOk none (fun _ => 0) s.sk

/-- the precondition a caller of `call` establishes (includes `Inv s`) -/
def CallOk (s : St) (call : Call) : Prop := Pre (fun _ => 0) s call

theorem CallOk.inv {s : St} {call : Call} (h : CallOk s call) (hd : call ≠ .destroy)
    (hreq : ∀ k a b c e, call ≠ .requeue k a b c e) (hend : ∀ a k b c, call ≠ .endQuery a k b c) : Wf s := by
  unfold CallOk at h
  cases call <;> first
    | exact h.1
    | exact absurd rfl hd
    | exact absurd rfl (hreq _ _ _ _ _)
    | exact absurd rfl (hend _ _ _ _)

/-- **1. the invariant is preserved** by every procedure, for every fuel, including all the re-entrant API
    calls made by the user callbacks it runs -/
theorem wf_preserved (fuel : Nat) (call : Call) (s : St) (h : CallOk s call)
    (hf : (exec fuel call s).1.outOfFuel = false) : Inv (exec fuel call s).1 := by
  rcases (goOk_exec fuel).2 _ call s h with hoof | hg
  · rw [hf] at hoof; cases hoof
  · exact ⟨hg.wf, hg.debt⟩

/-- **2. no use after release / double release**: the library never goes on to use a query, connection or
    compound request it has released, and no index entry dangles (`modelFaults` records exactly these events) -/
theorem no_safety_fault (fuel : Nat) (call : Call) (s : St) (h : CallOk s call)
    (hf : (exec fuel call s).1.outOfFuel = false) : (exec fuel call s).1.modelFaults = s.modelFaults := by
  rcases (goOk_exec fuel).2 _ call s h with hoof | hg
  · rw [hf] at hoof; cases hoof
  · exact hg.step.faults

/-- **3. no callback is invoked twice**, also when callbacks start requests or cancel -/
theorem cb_at_most_once (fuel : Nat) (call : Call) (s : St) (h : CallOk s call)
    (hf : (exec fuel call s).1.outOfFuel = false) : (exec fuel call s).1.doneToks.Nodup :=
  (wf_preserved fuel call s h hf).1.tok.dN

/-- callbacks already made stay made, in order: `doneToks` only grows -/
theorem tokens_accounted (fuel : Nat) (call : Call) (s : St) (h : CallOk s call)
    (hf : (exec fuel call s).1.outOfFuel = false) :
    (∀ t ∈ (exec fuel call s).1.pendingToks, t ∉ (exec fuel call s).1.doneToks) ∧
    (exec fuel call s).1.pendingToks.Nodup :=
  ⟨(wf_preserved fuel call s h hf).1.tok.disj, (wf_preserved fuel call s h hf).1.tok.pN⟩

/-- **4a. `ares_cancel` completes everything**: every request of the application that was outstanding (in
    `all_queries`) when `ares_cancel` was called has had its callback when it returns — also the requests that a
    callback run by the cancellation completed on another path, and whatever the callbacks started or cancelled
    meanwhile -/
theorem cancel_completes_all (fuel : Nat) (s : St) (h : Inv s)
    (hf : (exec fuel .cancel s).1.outOfFuel = false) :
    ∀ q ∈ s.qs, q.key ∈ s.all → ∀ tok, q.owner = .user tok → tok ∈ (exec fuel .cancel s).1.doneToks := by
  rcases (goOk_exec fuel).2 _ .cancel s h with hoof | hg
  · rw [hf] at hoof; cases hoof
  · intro q hq hk tok ho
    refine hg.post q.key hk tok ?_
    exact List.mem_map.mpr ⟨q.sk, List.mem_map.mpr ⟨q, hq, rfl⟩, by rw [← ho]; rfl⟩

/-- **4b. `ares_destroy` completes everything and leaves nothing behind.**  Called between API calls (no
    `ares_cancel` walk in progress: `listCopy = []`), and if it does not run out of fuel: the invariant holds
    afterwards, no safety fault is recorded, no callback is made twice, every linked request of the application has
    had its callback, `all_queries` and the qid table are empty, every connection that was on a server's list is
    closed (what remains, if anything, are connections an outer frame was in the middle of closing — there are none
    between API calls), and the channel is marked dead: the driver makes no further calls on it
    (`no_cb_after_destroy`: `alive = false`, `destroyed = true`; a callback made with `destroyed = true` would emit
    `MON:cb-after-destroy`). -/
theorem destroy_completes_all (fuel : Nat) (s : St) (h : Inv s) (hl : s.listCopy = [])
    (hf : (exec fuel .destroy s).1.outOfFuel = false) :
    Inv (exec fuel .destroy s).1 ∧
    (exec fuel .destroy s).1.modelFaults = s.modelFaults ∧
    (exec fuel .destroy s).1.doneToks.Nodup ∧
    (∀ q ∈ s.qs, q.key ∈ s.all → ∀ tok, q.owner = .user tok → tok ∈ (exec fuel .destroy s).1.doneToks) ∧
    (exec fuel .destroy s).1.all = [] ∧ (exec fuel .destroy s).1.byQid = [] ∧
    (∀ c ∈ (exec fuel .destroy s).1.conns, c.unlinked = true) ∧
    (exec fuel .destroy s).1.alive = false ∧ (exec fuel .destroy s).1.destroyed = true := by
  cases fuel with
  | zero => exact absurd hf (by show ¬ (true = false); simp)
  | succ n =>
    have he : exec (n + 1) .destroy s = bodyDestroy (exec n) s := rfl
    rw [he] at hf ⊢
    rcases good_destroy (goOk_exec n) h.1 h.2 hl with hoof | ⟨hm, ha, hb, hc, hal, hde, hdone⟩
    · rw [hf] at hoof; cases hoof
    · refine ⟨⟨hm.wf, hm.debt⟩, hm.step.faults, hm.wf.tok.dN, ?_, ha, hb, hc, hal, hde⟩
      intro q hq hk tok ho
      refine hdone q.key (h.1.i.allIdx q.key hk) tok ?_
      exact List.mem_map.mpr ⟨q.sk, List.mem_map.mpr ⟨q, hq, rfl⟩, by rw [← ho]; rfl⟩

/-! ### how the driver establishes `CallOk` -/

/-- the procedures the event loop calls need nothing but the invariant -/
theorem callOk_loop {s : St} (h : Inv s) :
    (∀ fd, CallOk s (.processRead fd)) ∧ (∀ fd, CallOk s (.processWrite fd)) ∧ CallOk s .processTimeouts ∧
    (∀ l, CallOk s (.cleanupConns l)) ∧ CallOk s .cancel :=
  ⟨fun _ => h, fun _ => h, h, fun _ => h, h⟩

/-- accepting a request with a fresh token: the driver appends the token to `pendingToks`, then calls
    `ares_send` / `ares_query` / `ares_search` / `ares_getaddrinfo` -/
theorem callOk_accept {s : St} (h : Inv s) (tok : Nat) (hb : tok < 10000 + s.reactSeq)
    (hp : tok ∉ s.pendingToks) (hd : tok ∉ s.doneToks) :
    let s' : St := { s with pendingToks := s.pendingToks ++ [tok] }
    Inv s' ∧ (∀ spec react, CallOk s' (.sendNolock none false false spec (.user tok) react)) ∧
      (∀ kind spec react fam, CallOk s' (.clientStart kind tok react spec fam)) := by
  obtain ⟨hw, hdb⟩ := h
  have ht := hw.tok
  -- no live object holds the token
  have hq : ∀ p ∈ s.sk.qKO, p.1 ∈ s.sk.idx → p.2 ≠ .user tok := fun p hpm hpi ho =>
    hp (ht.tQ p hpm hpi tok ho).1
  have hc : ∀ c ∈ s.sk.clients, c.tok ≠ tok := fun c hcm he => by
    rcases ht.tK c hcm with hk | hk
    · exact hp (he ▸ hk)
    · exact hd (he ▸ hk)
  have hw' : WfS ({ s with pendingToks := s.pendingToks ++ [tok] } : St).sk none := by
    refine ⟨hw.q, hw.i, hw.t, hw.c, hw.s, hw.k, ?_⟩
    show WfTokP s.sk.qKO s.sk.idx s.sk.clients (s.pendingToks ++ [tok]) s.doneToks s.reactSeq
    refine ⟨?_, ht.dN, ?_, ?_, ht.dB, ?_, ?_, ?_, ?_⟩
    · rw [List.nodup_append]
      exact ⟨ht.pN, by simp, fun x hx y hy => by rw [List.mem_singleton.mp hy]; exact fun he => hp (he ▸ hx)⟩
    · intro t hm
      rcases List.mem_append.mp hm with hm | hm
      · exact ht.disj t hm
      · rw [List.mem_singleton.mp hm]; exact hd
    · intro t hm
      rcases List.mem_append.mp hm with hm | hm
      · exact ht.pB t hm
      · rw [List.mem_singleton.mp hm]; exact hb
    · intro p hpm hpi tok' ho
      obtain ⟨a1, a2, a3⟩ := ht.tQ p hpm hpi tok' ho
      exact ⟨List.mem_append.mpr (Or.inl a1), a2, a3⟩
    · intro p hpm hpi id ho
      obtain ⟨c, hcm, h1, h2⟩ := ht.tC p hpm hpi id ho
      exact ⟨c, hcm, h1, List.mem_append.mpr (Or.inl h2)⟩
    · intro c hcm
      rcases ht.tK c hcm with hk | hk
      · exact Or.inl (List.mem_append.mpr (Or.inl hk))
      · exact Or.inr hk
    · intro c hcm c' hcm' he hpe
      rcases List.mem_append.mp hpe with hpe | hpe
      · exact ht.tKU c hcm c' hcm' he hpe
      · exact absurd (List.mem_singleton.mp hpe) (hc c hcm)
  have hdb' : DebtOk none (fun _ => 0) ({ s with pendingToks := s.pendingToks ++ [tok] } : St).sk :=
    ⟨hdb.fresh, fun c hcm hpe hx => by
      rcases List.mem_append.mp hpe with hpe | hpe
      · exact hdb.cnt c hcm hpe hx
      · exact absurd (List.mem_singleton.mp hpe) (hc c hcm)⟩
  have hof : ({ s with pendingToks := s.pendingToks ++ [tok] } : St).sk.OwnerFree (.user tok) :=
    ⟨List.mem_append.mpr (Or.inr (List.mem_singleton.mpr rfl)), hq, hc⟩
  exact ⟨⟨hw', hdb'⟩, fun _ _ => ⟨hw', hof, hdb'⟩, fun _ _ _ _ => ⟨hw', hof, hdb'⟩⟩

/-- everything else the driver does between calls (advancing the clock, queueing replies and socket faults on
    the virtual sockets, rendering the events) leaves the skeleton of the state alone -/
theorem inv_of_sk_eq {s s' : St} (h : s'.sk = s.sk) (hi : Inv s) : Inv s' := by
  unfold Inv Wf at *
  rw [h]; exact hi

/-- the by-timeout insertions the driver replays at the end of every operation (`St.settle`) keep the
    invariant -/
theorem inv_settle {s : St} (h : Inv s) : Inv s.settle := ⟨wf_settle h.1, debt_settle h.1 h.2⟩

/-! ### non-vacuity -/

/-- a freshly initialised channel (as built by the driver's `chan` line) satisfies the invariant -/
theorem inv_init (cfg : Cfg) (srvs : List Server) (hn : (srvs.map (·.id)).Nodup)
    (hc : ∀ v ∈ srvs, v.conns = [] ∧ v.tcpConn = none) :
    Inv { cfg := cfg, alive := true, servers := srvs } := by
  have nil_all : ∀ {α : Type} {P : α → Prop}, ∀ x ∈ ([] : List α), P x := fun _ h => nomatch h
  refine ⟨⟨⟨List.nodup_nil, nil_all⟩,
    ⟨nil_all, List.nodup_nil, nil_all, nil_all, List.nodup_nil, nil_all⟩,
    ⟨List.nodup_nil, nil_all, List.nodup_nil, nil_all⟩,
    ⟨List.nodup_nil, nil_all, nil_all, nil_all, nil_all, nil_all⟩,
    ⟨?_, ?_, ?_, ?_, fun _ _ _ h => nomatch h⟩,
    ⟨List.nodup_nil, nil_all⟩,
    ⟨List.nodup_nil, List.nodup_nil, nil_all, nil_all, nil_all, nil_all, nil_all, nil_all, nil_all⟩⟩,
    ⟨fun _ _ => rfl, nil_all⟩⟩
  · show ((srvs.map Server.sk).map (·.id)).Nodup
    rw [List.map_map]; exact hn
  · intro v hv
    obtain ⟨v0, hv0, rfl⟩ := List.mem_map.mp hv
    show v0.conns.Nodup
    rw [(hc v0 hv0).1]; exact List.nodup_nil
  · intro v hv fd hfd
    obtain ⟨v0, hv0, rfl⟩ := List.mem_map.mp hv
    have : v0.conns = [] := (hc v0 hv0).1
    change fd ∈ v0.conns at hfd
    rw [this] at hfd; cases hfd
  · intro v hv fd hfd
    obtain ⟨v0, hv0, rfl⟩ := List.mem_map.mp hv
    have : v0.tcpConn = none := (hc v0 hv0).2
    change v0.tcpConn = some fd at hfd
    rw [this] at hfd; cases hfd

namespace Example

def srvs : List Server := [{ id := 0, addr := "10.0.0.1" }, { id := 1, addr := "10.0.0.2" }]
def reacts : List (Nat × Reaction) := [(0, { kind := "send", name := "6262" }), (1, { kind := "cancel" })]
/-- two servers; reaction 0 starts a new request from inside a callback, reaction 1 calls `ares_cancel` -/
def s0 : St := { ({ alive := true, servers := srvs } : St) with reactions := reacts }
def fuel : Nat := 60
def call1 : Call := .sendNolock none false false { name := "6161", qtype := 1 } (.user 1) [0, 1]
/-- 1. the application sends a request (token 1) whose callback will run reactions 0 and 1 -/
def s1 : St := (exec fuel call1 { s0 with pendingToks := s0.pendingToks ++ [1] }).1
/-- 2. 2.5 s pass: the first attempt times out and the query is retried on the second server -/
def s2 : St := (exec fuel .processTimeouts { s1.settle with now := 2500 }).1
def reply : Reply := { id := 70000, name := "6161", qtype := 1, qclass := 1, rcode := 0, an := 1, ttls := [300], len := 40 }
/-- 3. the reply arrives: the callback of token 1 runs, starts request 10000 and then cancels the channel,
    which completes 10000 with `cancelled` -/
def s3 : St := (exec fuel (.processRead 101) (s2.settle.modSock 101 fun v => { v with rx := v.rx ++ [reply] })).1

example : Inv s0 := inv_of_sk_eq (s := { alive := true, servers := srvs }) rfl
  (inv_init {} srvs (by decide) (by decide))

set_option maxRecDepth 100000 in
theorem run_completes : s1.outOfFuel = false ∧ s2.outOfFuel = false ∧ s3.outOfFuel = false := by decide +kernel

set_option maxRecDepth 100000 in
/-- what the run does: both callbacks made exactly once, nothing pending, nothing live, no safety fault -/
theorem run_result : s3.doneToks = [1, 10000] ∧ s3.pendingToks = [] ∧ s3.modelFaults = [] ∧
    s3.qs.length = 0 ∧ s3.conns.length = 0 := by decide +kernel

/-- the hypotheses of the theorems hold along this run, so their conclusions do (non-vacuously) -/
theorem run_inv : Inv s1 ∧ Inv s2 ∧ Inv s3 := by
  have h0 : Inv s0 := inv_of_sk_eq (s := { alive := true, servers := srvs }) rfl
    (inv_init {} srvs (by decide) (by decide))
  have a1 := callOk_accept h0 1 (by decide) (by decide) (by decide)
  have i1 : Inv s1 := wf_preserved fuel call1 _ (a1.2.1 _ _) run_completes.1
  have i1' : Inv { s1.settle with now := 2500 } := inv_of_sk_eq (s := s1.settle) rfl (inv_settle i1)
  have i2 : Inv s2 := wf_preserved fuel .processTimeouts _ (callOk_loop i1').2.2.1 run_completes.2.1
  have i2' : Inv (s2.settle.modSock 101 fun v => { v with rx := v.rx ++ [reply] }) :=
    inv_of_sk_eq (sk_modSock _ _ _ (fun _ => rfl)) (inv_settle i2)
  have i3 : Inv s3 := wf_preserved fuel (.processRead 101) _ ((callOk_loop i2').1 101) run_completes.2.2
  exact ⟨i1, i2, i3⟩

/-- destroying the channel while request 1 is outstanding: its callback is made (with `destruction`), its
    reactions are not run, everything is released -/
def sD : St := (exec fuel .destroy s1.settle).1

set_option maxRecDepth 100000 in
theorem destroy_result : sD.outOfFuel = false ∧ sD.doneToks = [1] ∧ sD.pendingToks = [] ∧ sD.modelFaults = [] ∧
    sD.qs.length = 0 ∧ sD.conns.length = 0 ∧ sD.alive = false ∧ s1.settle.listCopy = [] ∧ s1.settle.all = [0] := by
  decide +kernel

/-- the destroy theorem applies to this run -/
example : Inv sD ∧ sD.doneToks.Nodup ∧ sD.all = [] :=
  have h := destroy_completes_all fuel s1.settle (inv_settle run_inv.1) destroy_result.2.2.2.2.2.2.2.1
    destroy_result.1
  ⟨h.1, h.2.2.1, h.2.2.2.2.1⟩

/-! #### fuel exhaustion really breaks the invariant

With fuel 1, `process_answer` takes the answered query off its connection's list and then "calls" `end_query`,
which runs out of fuel: the run stops inside the C function, with the query still naming a connection that no
longer lists it.  This is why the theorems above are about runs that complete. -/

def bad : St := (exec 1 (.processAnswer 101 reply) s2.settle).1

set_option maxRecDepth 100000 in
theorem bad_facts : bad.outOfFuel = true ∧ (0, some 101) ∈ bad.sk.qKC ∧ bad.sk.cFQ = [(100, []), (101, [])] := by
  decide +kernel

theorem wf_not_unconditional :
    ∃ fuel call s, CallOk s call ∧ ¬ Wf (exec fuel call s).1 := by
  refine ⟨1, .processAnswer 101 reply, s2.settle, ?_, ?_⟩
  · have hi := inv_settle run_inv.2.1
    refine ⟨hi.1, ?_, hi.2⟩
    show 101 ∈ s2.settle.sk.cFQ.map (·.1)
    decide +kernel
  · intro h
    obtain ⟨c, hc, h1, h2⟩ := h.c.qc (0, some 101) bad_facts.2.1 101 rfl
    have hl : c ∈ [(100, ([] : List Nat)), (101, [])] := bad_facts.2.2 ▸ hc
    simp only [List.mem_cons, List.not_mem_nil, or_false] at hl
    rcases hl with rfl | rfl
    · cases h1
    · rcases h2 with h2 | h2
      · cases h2
      · cases h2

end Example

end Cares.C01
