import CaresLemmas.LegacyAddr
/-!
# C18 — legacy reply parsers agree with the record API and respect caller limits

Property theorems only.  Every `ares_parse_*_reply` is modelled (`CaresModel/Legacy/Parsers.lean`) as
`ares_dns_parse` (its result `p : ParseResult` is an input; the record parser is verified under C02–C04)
followed by the conversion loop of the C file.  The theorems state what the loops compute, as
filter/map expressions over the answer section `r.answers` of the parsed record (the "expected" side:
answers filtered by class and type, in answer order, field values as the getters return them):

* `*_same_records` — each parser returns exactly the records of its type, in order, with identical
  field values, and its own no-data rule as coded;
* `addrttl_ttl_rule`, `capacity_*`, `addrttl_is_prefix` — the TTL rule `min(ttl, min CNAME ttl)` (signed
  32-bit, as the C casts make it) and "never more elements than offered", for every capacity;
* `malformed_iff_*` — a malformed-class status is returned exactly when `ares_dns_parse` failed.
  For `ares_parse_soa_reply` this is **false** on the tree (`soa_malformed_iff_fails`): a well-formed
  reply without an SOA answer is reported as EBADRESP; `soa_malformed_iff_partial` is what holds.
-/
namespace Cares.C18
open Cares.Legacy Cares.AddrInfo

/-! ## the expected side: answers of the record, filtered by class and type -/

/-- answers in class IN, in answer order -/
def inAnswers (r : LRec) : List RR := r.answers.filter (fun rr => rr.cls = clsIN)

/-- answers in class IN or CHAOS (ares_parse_caa_reply and ares_parse_txt_reply accept both) -/
def inOrChaosAnswers (r : LRec) : List RR := r.answers.filter (fun rr => rr.cls = clsIN ∨ rr.cls = clsCHAOS)

def mxFields : RData → Option MxReply
  | .mx pref exch => some { host := exch, priority := pref }
  | _ => none

def srvFields : RData → Option SrvReply
  | .srv prio weight port target => some { host := target, priority := prio, weight := weight, port := port }
  | _ => none

def naptrFields : RData → Option NaptrReply
  | .naptr order pref flags services regexp replacement =>
    some { flags := flags, service := services, regexp := regexp, replacement := replacement,
           order := order, preference := pref }
  | _ => none

def caaFields : RData → Option CaaReply
  | .caa critical tag value => some { critical := critical, prop := tag, value := value }
  | _ => none

def uriFields (ttl : Nat) : RData → Option UriReply
  | .uri prio weight target => some { priority := prio, weight := weight, uri := target, ttl := toI32 ttl }
  | _ => none

def nsFields : RData → Option Bytes
  | .ns d => some d
  | _ => none

def ptrFields : RData → Option Bytes
  | .ptr d => some d
  | _ => none

def soaFields : RData → Option SoaReply
  | .soa mname rname serial refresh retry expire minimum =>
    some { nsname := mname, hostmaster := rname, serial := serial, refresh := refresh, retry := retry,
           expire := expire, minttl := minimum }
  | _ => none

/-- the chunks of one TXT record; `record_start` marks the first chunk in the `_ext` variant -/
def txtFields (ex : Bool) : RData → List TxtReply
  | .txt chunks => chunks.zipIdx.map (fun p => { txt := p.1, recordStart := ex && p.2 == 0 })
  | _ => []

/-- "no answers at all" is ENODATA, anything else SUCCESS (caa/mx/naptr/srv/txt/uri) -/
def listStatus (r : LRec) : Status := if r.answers.isEmpty then .enodata else .success

/-! ## same records, in order, identical field values -/

/-- the common frame: the loop collects `sel rr` for every answer, in order -/
theorem list_same_records {β : Type} (sel : RR → List β) (r : LRec) :
    parseListReply sel (.ok r) = (listStatus r, if r.answers.isEmpty then [] else r.answers.flatMap sel) := by
  unfold parseListReply listStatus
  by_cases h : r.answers.isEmpty = true
  · simp [h]
  · simp [h, appendLoop_eq]

private theorem flatMap_nil_of_empty {β : Type} (sel : RR → List β) (l : List RR) (h : l.isEmpty = true) :
    l.flatMap sel = [] := by
  have : l = [] := by simpa using h
  simp [this]

theorem mx_same_records (r : LRec) :
    parseMxReply (.ok r) = (listStatus r, (inAnswers r).filterMap (fun rr => mxFields rr.data)) := by
  unfold parseMxReply
  rw [list_same_records]
  have key : r.answers.flatMap mxSel = (inAnswers r).filterMap (fun rr => mxFields rr.data) := by
    unfold inAnswers
    induction r.answers with
    | nil => rfl
    | cons rr rest ih =>
      simp only [List.flatMap_cons, ih, List.filter_cons]
      by_cases hc : rr.cls = clsIN
      · cases hd : rr.data <;> simp [mxSel, mxFields, hc, hd]
      · simp [mxSel, hc]
  by_cases h : r.answers.isEmpty = true
  · rw [← key, flatMap_nil_of_empty _ _ h]; simp [h]
  · simp [h, key]

theorem srv_same_records (r : LRec) :
    parseSrvReply (.ok r) = (listStatus r, (inAnswers r).filterMap (fun rr => srvFields rr.data)) := by
  unfold parseSrvReply
  rw [list_same_records]
  have key : r.answers.flatMap srvSel = (inAnswers r).filterMap (fun rr => srvFields rr.data) := by
    unfold inAnswers
    induction r.answers with
    | nil => rfl
    | cons rr rest ih =>
      simp only [List.flatMap_cons, ih, List.filter_cons]
      by_cases hc : rr.cls = clsIN
      · cases hd : rr.data <;> simp [srvSel, srvFields, hc, hd]
      · simp [srvSel, hc]
  by_cases h : r.answers.isEmpty = true
  · rw [← key, flatMap_nil_of_empty _ _ h]; simp [h]
  · simp [h, key]

theorem naptr_same_records (r : LRec) :
    parseNaptrReply (.ok r) = (listStatus r, (inAnswers r).filterMap (fun rr => naptrFields rr.data)) := by
  unfold parseNaptrReply
  rw [list_same_records]
  have key : r.answers.flatMap naptrSel = (inAnswers r).filterMap (fun rr => naptrFields rr.data) := by
    unfold inAnswers
    induction r.answers with
    | nil => rfl
    | cons rr rest ih =>
      simp only [List.flatMap_cons, ih, List.filter_cons]
      by_cases hc : rr.cls = clsIN
      · cases hd : rr.data <;> simp [naptrSel, naptrFields, hc, hd]
      · simp [naptrSel, hc]
  by_cases h : r.answers.isEmpty = true
  · rw [← key, flatMap_nil_of_empty _ _ h]; simp [h]
  · simp [h, key]

/-- URI also reports the record TTL (as `int`) -/
theorem uri_same_records (r : LRec) :
    parseUriReply (.ok r) = (listStatus r, (inAnswers r).filterMap (fun rr => uriFields rr.ttl rr.data)) := by
  unfold parseUriReply
  rw [list_same_records]
  have key : r.answers.flatMap uriSel = (inAnswers r).filterMap (fun rr => uriFields rr.ttl rr.data) := by
    unfold inAnswers
    induction r.answers with
    | nil => rfl
    | cons rr rest ih =>
      simp only [List.flatMap_cons, ih, List.filter_cons]
      by_cases hc : rr.cls = clsIN
      · cases hd : rr.data <;> simp [uriSel, uriFields, hc, hd]
      · simp [uriSel, hc]
  by_cases h : r.answers.isEmpty = true
  · rw [← key, flatMap_nil_of_empty _ _ h]; simp [h]
  · simp [h, key]

/-- CAA: class IN *or CHAOS* (as coded) -/
theorem caa_same_records (r : LRec) :
    parseCaaReply (.ok r) = (listStatus r, (inOrChaosAnswers r).filterMap (fun rr => caaFields rr.data)) := by
  unfold parseCaaReply
  rw [list_same_records]
  have key : r.answers.flatMap caaSel = (inOrChaosAnswers r).filterMap (fun rr => caaFields rr.data) := by
    unfold inOrChaosAnswers
    induction r.answers with
    | nil => rfl
    | cons rr rest ih =>
      simp only [List.flatMap_cons, ih, List.filter_cons]
      by_cases hc : rr.cls = clsIN ∨ rr.cls = clsCHAOS
      · have hn : ¬ (rr.cls ≠ clsIN ∧ rr.cls ≠ clsCHAOS) := by
          intro ⟨a, b⟩; rcases hc with hc | hc <;> contradiction
        cases hd : rr.data <;> simp [caaSel, caaFields, hc, hn, hd]
      · have hn : rr.cls ≠ clsIN ∧ rr.cls ≠ clsCHAOS := by
          constructor <;> intro h <;> exact hc (by simp [h])
        simp [caaSel, hc, hn]
  by_cases h : r.answers.isEmpty = true
  · rw [← key, flatMap_nil_of_empty _ _ h]; simp [h]
  · simp [h, key]

/-- TXT (`ex = false`: ares_parse_txt_reply, `ex = true`: ares_parse_txt_reply_ext): every chunk of every
    TXT answer in class IN or CHAOS, in order -/
theorem txt_same_records (ex : Bool) (r : LRec) :
    parseListReply (txtSel ex) (.ok r) =
      (listStatus r, (inOrChaosAnswers r).flatMap (fun rr => txtFields ex rr.data)) := by
  rw [list_same_records]
  have key : r.answers.flatMap (txtSel ex) = (inOrChaosAnswers r).flatMap (fun rr => txtFields ex rr.data) := by
    unfold inOrChaosAnswers
    induction r.answers with
    | nil => rfl
    | cons rr rest ih =>
      simp only [List.flatMap_cons, ih, List.filter_cons]
      by_cases hc : rr.cls = clsIN ∨ rr.cls = clsCHAOS
      · have hn : ¬ (rr.cls ≠ clsIN ∧ rr.cls ≠ clsCHAOS) := by
          intro ⟨a, b⟩; rcases hc with hc | hc <;> contradiction
        cases hd : rr.data <;> simp [txtSel, txtFields, hc, hn, hd, txtChunks_eq]
      · have hn : rr.cls ≠ clsIN ∧ rr.cls ≠ clsCHAOS := by
          constructor <;> intro h <;> exact hc (by simp [h])
        simp [txtSel, hc, hn]
  by_cases h : r.answers.isEmpty = true
  · rw [← key, flatMap_nil_of_empty _ _ h]; simp [h]
  · simp [h, key]


/-- NS: the targets of the NS answers in class IN become `h_aliases`, `h_name` is the question name;
    no answers or none of type NS: ENODATA -/
theorem ns_same_records (r : LRec) (q : Bytes) (qs : List Bytes) (hq : r.questions = q :: qs) :
    parseNsReply (.ok r) =
      let names := (inAnswers r).filterMap (fun rr => nsFields rr.data)
      if names = [] then (.enodata, none)
      else (.success, some { name := some q, aliases := names, addrtype := afINET, length := 4, addrs := [] }) := by
  have key : r.answers.flatMap nsSel = (inAnswers r).filterMap (fun rr => nsFields rr.data) := by
    unfold inAnswers
    induction r.answers with
    | nil => rfl
    | cons rr rest ih =>
      simp only [List.flatMap_cons, ih, List.filter_cons]
      by_cases hc : rr.cls = clsIN
      · cases hd : rr.data <;> simp [nsSel, nsFields, hc, hd]
      · simp [nsSel, hc]
  unfold parseNsReply
  have hqn : r.queryName = .ok q := by simp [LRec.queryName, hq]
  by_cases h : r.answers.isEmpty = true
  · have h0 : r.answers = [] := by simpa using h
    simp [h, inAnswers, h0]
  · simp only [h, Bool.false_eq_true, ↓reduceIte, hqn, appendLoop_eq, List.nil_append, key]
    by_cases hn : (inAnswers r).filterMap (fun rr => nsFields rr.data) = []
    · simp [hn]
    · simp [hn]

/-- PTR: every PTR target in class IN, in order, is an alias; `h_name` is the last of them; the caller's
    address is handed back; CNAMEs only redirect the (unused) query name; none: ENODATA -/
theorem ptr_same_records (r : LRec) (q : Bytes) (qs : List Bytes) (hq : r.questions = q :: qs)
    (addr : Option Bytes) (addrlen family : Nat) :
    parsePtrReplyBuf (.ok r) addr addrlen family =
      let names := (inAnswers r).filterMap (fun rr => ptrFields rr.data)
      match names.getLast? with
      | none => (.enodata, none)
      | some last => (.success, some { name := some last, aliases := names, addrtype := family,
                                       length := addrlen, addrs := addr.toList }) := by
  have key : r.answers.filterMap ptrOf = (inAnswers r).filterMap (fun rr => ptrFields rr.data) := by
    unfold inAnswers
    induction r.answers with
    | nil => rfl
    | cons rr rest ih =>
      simp only [List.filterMap_cons, ih, List.filter_cons]
      by_cases hc : rr.cls = clsIN
      · cases hd : rr.data <;> simp [ptrOf, ptrFields, hc, hd]
      · simp [ptrOf, hc]
  unfold parsePtrReplyBuf parsePtrReply
  have hqn : r.queryName = .ok q := by simp [LRec.queryName, hq]
  simp only [hqn]
  by_cases h : r.answers.isEmpty = true
  · have h0 : r.answers = [] := by simpa using h
    simp [h, inAnswers, h0, Status.compat]
  · simp only [h, Bool.false_eq_true, ↓reduceIte, ptrFold_hostname, ptrFold_aliases, key, List.nil_append,
      Option.or_none]
    cases hl : ((inAnswers r).filterMap (fun rr => ptrFields rr.data)).getLast? with
    | none => simp [Status.compat]
    | some last => cases addr <;> simp [Status.compat]

/-- SOA: the first SOA answer in class IN; no answers, or no SOA among them: EBADRESP (as coded) -/
theorem soa_same_records (r : LRec) :
    parseSoaReply (.ok r) =
      match ((inAnswers r).filterMap (fun rr => soaFields rr.data)).head? with
      | none => (.ebadresp, none)
      | some s => (.success, some s) := by
  have key : r.answers.filterMap soaOf = (inAnswers r).filterMap (fun rr => soaFields rr.data) := by
    unfold inAnswers
    induction r.answers with
    | nil => rfl
    | cons rr rest ih =>
      simp only [List.filterMap_cons, ih, List.filter_cons]
      by_cases hc : rr.cls = clsIN
      · cases hd : rr.data <;> simp [soaOf, soaFields, hc, hd]
      · simp [soaOf, hc]
  unfold parseSoaReply
  by_cases h : r.answers.isEmpty = true
  · have h0 : r.answers = [] := by simpa using h
    simp [h, inAnswers, h0]
  · simp only [h, Bool.false_eq_true, ↓reduceIte, soaLoop_eq, key]
    cases ((inAnswers r).filterMap (fun rr => soaFields rr.data)).head? <;> rfl

/-! ## A / AAAA -/

/-- the address bytes of an answer of the wanted family -/
def addrField (family : Nat) : RData → Option Bytes
  | .a x => if family = afINET then some x else none
  | .aaaa x => if family = afINET6 then some x else none
  | _ => none

/-- the CNAME answers in class IN as (owner name, target, ttl) -/
def cnameAnswers (r : LRec) : List (Bytes × Bytes × Nat) :=
  (inAnswers r).filterMap (fun rr => match rr.data with | .cname c => some (rr.name, c, rr.ttl) | _ => none)

/-- the name after following the aliases: target of the last CNAME, else the question name -/
def canonicalName (r : LRec) (q : Bytes) : Bytes :=
  match (cnameAnswers r).getLast? with
  | some (_, target, _) => target
  | none => q

/-- smallest CNAME TTL (as `int`), INT_MAX when there is no CNAME -/
def minCnameTtl (r : LRec) : Int :=
  (cnameAnswers r).foldl (fun m c => if toI32 c.2.2 < m then toI32 c.2.2 else m) intMax

/-- the addresses of the wanted family, each with `min(ttl, min CNAME ttl)` -/
def expectedTtls (family : Nat) (r : LRec) : List (Bytes × Int) :=
  (inAnswers r).filterMap (fun rr => (addrField family rr.data).map
    (fun a => (a, if toI32 rr.ttl > minCnameTtl r then minCnameTtl r else toI32 rr.ttl)))

def expectedAddrs (family : Nat) (r : LRec) : List Bytes :=
  (inAnswers r).filterMap (fun rr => addrField family rr.data)


/-! connecting the closed form of the loops with the expected side -/

private theorem cnameOf_eq (r : LRec) :
    r.answers.filterMap cnameOf =
      (cnameAnswers r).map (fun c => { ttl := toI32 c.2.2, alias := some c.1, name := some c.2.1 }) := by
  unfold cnameAnswers inAnswers
  induction r.answers with
  | nil => rfl
  | cons rr rest ih =>
    simp only [List.filterMap_cons, ih, List.filter_cons]
    by_cases hc : rr.cls = clsIN
    · cases hd : rr.data <;> simp [cnameOf, hc, hd]
    · simp [cnameOf, hc]

private theorem cnameTarget_eq (r : LRec) :
    r.answers.filterMap cnameTarget = (cnameAnswers r).map (fun c => c.2.1) := by
  unfold cnameAnswers inAnswers
  induction r.answers with
  | nil => rfl
  | cons rr rest ih =>
    simp only [List.filterMap_cons, ih, List.filter_cons]
    by_cases hc : rr.cls = clsIN
    · cases hd : rr.data <;> simp [cnameTarget, hc, hd]
    · simp [cnameTarget, hc]

private theorem canonName_eq (r : LRec) (q : Bytes) : canonName q r.answers = canonicalName r q := by
  unfold canonName canonicalName
  rw [cnameTarget_eq, List.getLast?_map]
  cases (cnameAnswers r).getLast? with
  | none => rfl
  | some c => obtain ⟨o, t, l⟩ := c; rfl

private theorem cnameTtl_eq (r : LRec) : cnameTtl (r.answers.filterMap cnameOf) = minCnameTtl r := by
  unfold cnameTtl minCnameTtl
  rw [cnameOf_eq, List.foldl_map]

private theorem nodes_eq (family : Nat) (hf : family = afINET ∨ family = afINET6) (c : Int) (port : Nat) (r : LRec) :
    ((r.answers.filterMap (nodeOf port)).filter (fun n => n.family = family)).map (ttlEntry c) =
      (inAnswers r).filterMap (fun rr => (addrField family rr.data).map
        (fun a => (a, if toI32 rr.ttl > c then c else toI32 rr.ttl))) := by
  unfold inAnswers
  induction r.answers with
  | nil => rfl
  | cons rr rest ih =>
    simp only [List.filterMap_cons, List.filter_cons]
    by_cases hc : rr.cls = clsIN
    · rcases hf with hf | hf <;> subst hf <;>
        cases hd : rr.data <;> simp_all [nodeOf, addrField, ttlEntry, List.filter_cons, afINET, afINET6]
    · simp_all [nodeOf]

private theorem addrs_eq (family : Nat) (hf : family = afINET ∨ family = afINET6) (port : Nat) (r : LRec) :
    ((r.answers.filterMap (nodeOf port)).filter (fun n => n.family = family)).map (·.addr) =
      expectedAddrs family r := by
  unfold expectedAddrs inAnswers
  induction r.answers with
  | nil => rfl
  | cons rr rest ih =>
    simp only [List.filterMap_cons, List.filter_cons]
    by_cases hc : rr.cls = clsIN
    · rcases hf with hf | hf <;> subst hf <;>
        cases hd : rr.data <;> simp_all [nodeOf, addrField, List.filter_cons, afINET, afINET6]
    · simp_all [nodeOf]

private theorem not_usable (r : LRec) (h : usable false r.answers = false) :
    r.answers.filterMap (nodeOf 0) = [] ∧ cnameAnswers r = [] := by
  simp only [usable, Bool.not_false, Bool.and_true, Bool.or_eq_false_iff] at h
  refine ⟨filterMap_nodeOf_nil 0 _ h.1.1 h.1.2, ?_⟩
  have := filterMap_cnameOf_nil _ h.2
  rw [cnameOf_eq] at this
  simpa using this

/-- **ares_parse_a_reply / ares_parse_aaaa_reply** (host and addrttls requested, capacity `cap`):
    addresses = the A (AAAA) answers in class IN in order; aliases = the owner names of the CNAME answers;
    `h_name` = the name after following the aliases; addrttl entries = the first `cap` addresses, each
    with `min(ttl, min CNAME ttl)`; ENODATA exactly when there is neither an address of the family nor a
    CNAME -/
theorem addr_same_records (family : Nat) (hf : family = afINET ∨ family = afINET6) (r : LRec)
    (q : Bytes) (qs : List Bytes) (hq : r.questions = q :: qs) (cap : Nat) :
    parseAddrReply family (.ok r) true (some cap) =
      if expectedAddrs family r = [] ∧ cnameAnswers r = [] then
        { status := .enodata, host := none, ttls := [] }
      else
        { status := .success,
          host := some { name := some (canonicalName r q), aliases := (cnameAnswers r).map (·.1),
                         addrtype := family, length := addrLen family, addrs := expectedAddrs family r },
          ttls := (expectedTtls family r).take cap } := by
  by_cases hu : usable false r.answers = true
  · have hp := parseIntoAddrinfo_fresh r q qs hq false 0
    rw [if_pos hu] at hp
    rw [parseAddrReply_closed family hf r _ _ hp (Or.inl rfl) cap, addrinfo2hostent_closed _ family hf]
    simp only [addrs_eq family hf 0 r, nodes_eq family hf _ 0 r, cnameTtl_eq]
    rw [cnameOf_eq]
    have hnil : ((cnameAnswers r).map
        (fun c => ({ ttl := toI32 c.2.2, alias := some c.1, name := some c.2.1 } : CnameNode)) = []) ↔
        cnameAnswers r = [] := by simp
    by_cases hnone : expectedAddrs family r = [] ∧ cnameAnswers r = []
    · have hnone' : expectedAddrs family r = [] ∧ (cnameAnswers r).map
          (fun c => ({ ttl := toI32 c.2.2, alias := some c.1, name := some c.2.1 } : CnameNode)) = [] :=
        ⟨hnone.1, hnil.mpr hnone.2⟩
      have ht : expectedTtls family r = [] := by
        have := hnone.1
        unfold expectedAddrs at this
        unfold expectedTtls
        simp only [List.filterMap_eq_nil_iff] at this ⊢
        intro a ha
        simp [this a ha]
      simp only [hnone', and_self, ↓reduceIte, hnone]
      simp only [expectedTtls] at ht
      simp [ht]
    · have hnone' : ¬ (expectedAddrs family r = [] ∧ (cnameAnswers r).map
          (fun c => ({ ttl := toI32 c.2.2, alias := some c.1, name := some c.2.1 } : CnameNode)) = []) := by
        intro ⟨a, b⟩; exact hnone ⟨a, hnil.mp b⟩
      simp only [hnone', ↓reduceIte, hnone]
      have hname : ((((cnameAnswers r).map
            (fun c => ({ ttl := toI32 c.2.2, alias := some c.1, name := some c.2.1 } : CnameNode))).getLast?).map
            (·.name)).getD (some (canonName q r.answers)) = some (canonicalName r q) := by
        rw [List.getLast?_map, canonName_eq]
        unfold canonicalName
        cases (cnameAnswers r).getLast? with
        | none => rfl
        | some c => obtain ⟨o, t, l⟩ := c; rfl
      have hal : ((cnameAnswers r).map
            (fun c => ({ ttl := toI32 c.2.2, alias := some c.1, name := some c.2.1 } : CnameNode))).filterMap
            (·.alias) = (cnameAnswers r).map (·.1) := by
        simp [List.filterMap_map, Function.comp_def]
      rw [hname, hal]; rfl
  · have hu' : usable false r.answers = false := by simpa using hu
    have hp := parseIntoAddrinfo_fresh r q qs hq false 0
    rw [if_neg hu] at hp
    obtain ⟨h1, h2⟩ := not_usable r hu'
    have h3 : expectedAddrs family r = [] := by rw [← addrs_eq family hf 0 r, h1]; rfl
    rw [parseAddrReply_closed family hf r _ _ hp (Or.inr rfl) cap, addrinfo2hostent_closed _ family hf]
    simp [h2, h3]


/-- `h_name` is the name after following the aliases -/
theorem addr_hostent_name_canonical (family : Nat) (hf : family = afINET ∨ family = afINET6) (r : LRec)
    (q : Bytes) (qs : List Bytes) (hq : r.questions = q :: qs) (cap : Nat) (h : Hostent)
    (hh : (parseAddrReply family (.ok r) true (some cap)).host = some h) :
    h.name = some (canonicalName r q) := by
  rw [addr_same_records family hf r q qs hq cap] at hh
  split at hh
  · simp at hh
  · simp only [Option.some.injEq] at hh
    rw [← hh]

/-- the addrttl output is the prefix of length `cap` of the expected list, for every capacity -/
theorem addrttl_is_prefix (family : Nat) (hf : family = afINET ∨ family = afINET6) (r : LRec)
    (q : Bytes) (qs : List Bytes) (hq : r.questions = q :: qs) (cap : Nat) :
    (parseAddrReply family (.ok r) true (some cap)).ttls = (expectedTtls family r).take cap := by
  rw [addr_same_records family hf r q qs hq cap]
  split
  · rename_i h
    have ht : expectedTtls family r = [] := by
      have := h.1
      unfold expectedAddrs at this
      unfold expectedTtls
      simp only [List.filterMap_eq_nil_iff] at this ⊢
      intro a ha
      simp [this a ha]
    simp [ht]
  · rfl

private theorem mem_cnameOf (r : LRec) (c : CnameNode) (hc : c ∈ r.answers.filterMap cnameOf) :
    ∃ ca ∈ cnameAnswers r, c.ttl = toI32 ca.2.2 := by
  rw [cnameOf_eq] at hc
  obtain ⟨ca, hca, rfl⟩ := List.mem_map.mp hc
  exact ⟨ca, hca, rfl⟩

/-- `minCnameTtl` really is the minimum of INT_MAX and the CNAME TTLs -/
theorem minCnameTtl_spec (r : LRec) :
    minCnameTtl r ≤ intMax ∧ (∀ ca ∈ cnameAnswers r, minCnameTtl r ≤ toI32 ca.2.2) ∧
      (minCnameTtl r = intMax ∨ ∃ ca ∈ cnameAnswers r, minCnameTtl r = toI32 ca.2.2) := by
  obtain ⟨h1, h2, h3⟩ := cnameTtl_spec (r.answers.filterMap cnameOf)
  rw [cnameTtl_eq] at h1 h2 h3
  refine ⟨h1, ?_, ?_⟩
  · intro ca hca
    have : ({ ttl := toI32 ca.2.2, alias := some ca.1, name := some ca.2.1 } : CnameNode) ∈
        r.answers.filterMap cnameOf := by
      rw [cnameOf_eq]; exact List.mem_map.mpr ⟨ca, hca, rfl⟩
    exact h2 _ this
  · rcases h3 with h3 | ⟨c, hc, h3⟩
    · exact Or.inl h3
    · obtain ⟨ca, hca, e⟩ := mem_cnameOf r c hc
      exact Or.inr ⟨ca, hca, by rw [h3, e]⟩

/-- TTL rule: every entry written is an address of an answer of the family with
    `ttl = min(record ttl, every CNAME ttl)` -/
theorem addrttl_ttl_rule (family : Nat) (hf : family = afINET ∨ family = afINET6) (r : LRec)
    (q : Bytes) (qs : List Bytes) (hq : r.questions = q :: qs) (cap : Nat) (a : Bytes) (t : Int)
    (hm : (a, t) ∈ (parseAddrReply family (.ok r) true (some cap)).ttls) :
    ∃ rr ∈ r.answers, rr.cls = clsIN ∧ addrField family rr.data = some a ∧
      t ≤ toI32 rr.ttl ∧ (∀ ca ∈ cnameAnswers r, t ≤ toI32 ca.2.2) ∧
      (t = toI32 rr.ttl ∨ ∃ ca ∈ cnameAnswers r, t = toI32 ca.2.2) := by
  rw [addrttl_is_prefix family hf r q qs hq cap] at hm
  have hm' := List.mem_of_mem_take hm
  unfold expectedTtls at hm'
  obtain ⟨rr, hrr, hv⟩ := List.mem_filterMap.mp hm'
  unfold inAnswers at hrr
  obtain ⟨hin, hcls⟩ := List.mem_filter.mp hrr
  cases hf' : addrField family rr.data with
  | none => simp [hf'] at hv
  | some a' =>
    simp only [hf', Option.map_some, Option.some.injEq, Prod.mk.injEq] at hv
    obtain ⟨rfl, ht⟩ := hv
    obtain ⟨h1, h2, h3⟩ := minCnameTtl_spec r
    refine ⟨rr, hin, by simpa using hcls, hf', ?_, ?_, ?_⟩
    · rw [← ht]; split <;> omega
    · intro ca hca
      have := h2 ca hca
      rw [← ht]; split <;> omega
    · by_cases hgt : toI32 rr.ttl > minCnameTtl r
      · rw [if_pos hgt] at ht
        rcases h3 with h3 | ⟨ca, hca, h3⟩
        · exfalso
          have : toI32 rr.ttl ≤ intMax := by
            unfold toI32 intMax; simp only; split <;> omega
          omega
        · exact Or.inr ⟨ca, hca, by rw [← ht, h3]⟩
      · rw [if_neg hgt] at ht
        exact Or.inl ht.symm

/-! ## never more than the caller offered -/

/-- `ares_addrinfo2addrttl` writes at most `req_naddrttls` entries, for every addrinfo and capacity -/
theorem capacity_addrinfo2addrttl (ai : AddrInfo) (family req : Nat) :
    (addrinfo2addrttl ai family req).2.length ≤ req := by
  unfold addrinfo2addrttl
  split
  · simp
  · split
    · simp
    · exact ttlLoop_length_le _ _ _ _ _ (by simp)

/-- `ares_parse_a_reply` / `ares_parse_aaaa_reply` write at most `*naddrttls` entries, whatever the
    message (parsed or not), host pointer and capacity -/
theorem capacity_parse_addr_reply (family : Nat) (p : ParseResult) (wantHost : Bool) (cap : Nat) :
    (parseAddrReply family p wantHost (some cap)).ttls.length ≤ cap := by
  unfold parseAddrReply
  cases p with
  | error e => simp
  | ok r =>
    simp only
    generalize parseIntoAddrinfo r false 0 {} = pr
    obtain ⟨st, ai⟩ := pr
    simp only
    by_cases h1 : st ≠ .success ∧ st ≠ .enodata
    · simp [h1]
    · simp only [h1, ↓reduceIte]
      generalize (if wantHost = true then addrinfo2hostent ai family else (st, none)) = hr
      obtain ⟨st2, host⟩ := hr
      simp only
      by_cases h2 : st2 ≠ .success ∧ st2 ≠ .enodata
      · simp [h2]
      · simp only [h2, ↓reduceIte]
        split
        · exact capacity_addrinfo2addrttl _ _ _
        · simp

/-! ## malformed exactly when the record parser rejects -/

/-- the assumption on `ares_dns_parse`: it fails only with a status of the malformed class
    (no allocation failure) -/
def ParseFailsMalformed (p : ParseResult) : Prop := ∀ e, p = .error e → e.isMalformed = true

/-- the parsed record has a question (`ares_dns_parse` rejects `qdcount ≠ 1`) -/
def HasQuestion (p : ParseResult) : Prop := ∀ r, p = .ok r → r.questions ≠ []

theorem malformed_iff_list {β : Type} (sel : RR → List β) (p : ParseResult) (hp : ParseFailsMalformed p) :
    (parseListReply sel p).1.isMalformed = true ↔ ∃ e, p = .error e := by
  cases p with
  | error e => simp [parseListReply, hp e rfl]
  | ok r =>
    unfold parseListReply
    simp only
    split <;> simp [Status.isMalformed]

theorem malformed_iff_addr (family : Nat) (hf : family = afINET ∨ family = afINET6) (p : ParseResult)
    (hp : ParseFailsMalformed p) (hq : HasQuestion p) (wantHost : Bool) (cap : Option Nat) :
    (parseAddrReply family p wantHost cap).status.isMalformed = true ↔ ∃ e, p = .error e := by
  cases p with
  | error e => simp [parseAddrReply, Status.compat_isMalformed, hp e rfl]
  | ok r =>
    have hne := hq r rfl
    obtain ⟨q, qs, hqs⟩ := List.exists_cons_of_ne_nil hne
    have hpi := parseIntoAddrinfo_fresh r q qs hqs false 0
    simp only [reduceCtorEq, exists_false, iff_false, Bool.not_eq_true]
    unfold parseAddrReply
    simp only [hpi]
    by_cases hu : usable false r.answers = true
    · simp only [hu, ↓reduceIte, ne_eq, not_true_eq_false, false_and]
      cases wantHost
      · simp [Status.compat, Status.isMalformed]
      · simp only [↓reduceIte]
        rcases addrinfo2hostent_status
          { cnames := r.answers.filterMap cnameOf, nodes := r.answers.filterMap (nodeOf 0),
            name := some (canonName q r.answers) } family hf with h | h <;>
          simp [h, Status.compat, Status.isMalformed]
    · simp only [hu, Bool.false_eq_true, ↓reduceIte]
      cases wantHost
      · simp [Status.compat, Status.isMalformed]
      · simp only [ne_eq, reduceCtorEq, not_false_eq_true, not_true_eq_false, and_false, ↓reduceIte]
        rcases addrinfo2hostent_status {} family hf with h | h <;>
          simp [h, Status.compat, Status.isMalformed]

theorem malformed_iff_ns (p : ParseResult) (hp : ParseFailsMalformed p) (hq : HasQuestion p) :
    (parseNsReply p).1.isMalformed = true ↔ ∃ e, p = .error e := by
  cases p with
  | error e => simp [parseNsReply, Status.compat_isMalformed, hp e rfl]
  | ok r =>
    obtain ⟨q, qs, hqs⟩ := List.exists_cons_of_ne_nil (hq r rfl)
    rw [ns_same_records r q qs hqs]
    simp only [reduceCtorEq, exists_false, iff_false, Bool.not_eq_true]
    split <;> simp [Status.isMalformed]

theorem malformed_iff_ptr (p : ParseResult) (hp : ParseFailsMalformed p) (hq : HasQuestion p)
    (addr : Option Bytes) (addrlen family : Nat) :
    (parsePtrReplyBuf p addr addrlen family).1.isMalformed = true ↔ ∃ e, p = .error e := by
  cases p with
  | error e => simp [parsePtrReplyBuf, Status.compat_isMalformed, hp e rfl]
  | ok r =>
    obtain ⟨q, qs, hqs⟩ := List.exists_cons_of_ne_nil (hq r rfl)
    rw [ptr_same_records r q qs hqs]
    simp only [reduceCtorEq, exists_false, iff_false, Bool.not_eq_true]
    split <;> simp [Status.isMalformed]

/-  The full statement for SOA would be

      theorem malformed_iff_soa (p) (hp : ParseFailsMalformed p) :
          (parseSoaReply p).1.isMalformed = true ↔ ∃ e, p = .error e

    It is FALSE on the tree: `ares_parse_soa_reply` answers EBADRESP for a well-formed reply that has no
    SOA answer (`soa_malformed_iff_fails`).  What holds: -/
theorem soa_malformed_iff_partial (p : ParseResult) (hp : ParseFailsMalformed p) :
    (parseSoaReply p).1.isMalformed = true ↔
      (∃ e, p = .error e) ∨ (∃ r, p = .ok r ∧ (inAnswers r).filterMap (fun rr => soaFields rr.data) = []) := by
  cases p with
  | error e => simp [parseSoaReply, Status.compat_isMalformed, hp e rfl]
  | ok r =>
    rw [soa_same_records r]
    simp only [reduceCtorEq, exists_false, false_or, Except.ok.injEq, exists_eq_left']
    cases h : (inAnswers r).filterMap (fun rr => soaFields rr.data) with
    | nil => simp [Status.isMalformed]
    | cons s rest => simp [Status.isMalformed]

/-- a reply to an SOA question whose only answer is an MX record -/
def soaWitness : LRec :=
  { questions := [[101]], answers := [{ name := [101], cls := 1, ttl := 60, data := .mx 10 [109] }] }

/-- kernel-checked counterexample: the record parser accepted the message (`.ok soaWitness`), yet the
    status is of the malformed class -/
theorem soa_malformed_iff_fails : (parseSoaReply (.ok soaWitness)).1.isMalformed = true := by decide

/-- the functions with the "compatibility" mapping never return EBADNAME -/
theorem ebadname_is_mapped (p : ParseResult) (hq : HasQuestion p) :
    (∀ family wantHost cap, family = afINET ∨ family = afINET6 →
      (parseAddrReply family p wantHost cap).status ≠ .ebadname) ∧
    (parseNsReply p).1 ≠ .ebadname ∧
    (∀ addr addrlen family, (parsePtrReplyBuf p addr addrlen family).1 ≠ .ebadname) ∧
    (parseSoaReply p).1 ≠ .ebadname := by
  have hcompat : ∀ s : Status, s.compat ≠ .ebadname := by intro s; cases s <;> simp [Status.compat]
  cases p with
  | error e =>
    refine ⟨?_, ?_, ?_, ?_⟩
    · intro f w c _; simpa [parseAddrReply] using hcompat e
    · simpa [parseNsReply] using hcompat e
    · intro a l f; simpa [parsePtrReplyBuf] using hcompat e
    · simpa [parseSoaReply] using hcompat e
  | ok r =>
    obtain ⟨q, qs, hqs⟩ := List.exists_cons_of_ne_nil (hq r rfl)
    refine ⟨?_, ?_, ?_, ?_⟩
    · intro f w c hf
      unfold parseAddrReply
      simp only
      generalize parseIntoAddrinfo r false 0 {} = pr
      obtain ⟨st, ai⟩ := pr
      simp only
      by_cases h1 : st ≠ .success ∧ st ≠ .enodata
      · rw [if_pos h1]; exact hcompat _
      · rw [if_neg h1]
        generalize (if w = true then addrinfo2hostent ai f else (st, none)) = hr
        obtain ⟨st2, host⟩ := hr
        by_cases h2 : st2 ≠ .success ∧ st2 ≠ .enodata
        · rw [if_pos h2]; exact hcompat _
        · rw [if_neg h2]; exact hcompat _
    · rw [ns_same_records r q qs hqs]; simp only; split <;> simp
    · intro a l f; rw [ptr_same_records r q qs hqs]; simp only; split <;> simp
    · rw [soa_same_records r]; split <;> simp

/-! ## non-vacuity: the models compute the expected results on a concrete reply -/

/-- `www -> c1 -> c2`, two A records (TTL 300 and 20), one AAAA, one A in class CHAOS -/
def sample : LRec :=
  { questions := [[119]],
    answers := [
      { name := [119], cls := 1, ttl := 100, data := .cname [99, 49] },
      { name := [99, 49], cls := 1, ttl := 50, data := .cname [99, 50] },
      { name := [99, 50], cls := 1, ttl := 300, data := .a [1, 2, 3, 4] },
      { name := [99, 50], cls := 3, ttl := 300, data := .a [9, 9, 9, 9] },
      { name := [99, 50], cls := 1, ttl := 20, data := .a [5, 6, 7, 8] },
      { name := [99, 50], cls := 1, ttl := 7, data := .aaaa [0, 0, 0, 0, 0, 0, 0, 0, 0, 0, 0, 0, 0, 0, 0, 1] },
      { name := [119], cls := 1, ttl := 9, data := .mx 10 [109] } ] }

example : parseAReply (.ok sample) true (some 8) =
    { status := .success,
      host := some { name := some [99, 50], aliases := [[119], [99, 49]], addrtype := 2, length := 4,
                     addrs := [[1, 2, 3, 4], [5, 6, 7, 8]] },
      ttls := [([1, 2, 3, 4], 50), ([5, 6, 7, 8], 20)] } := by decide

example : (parseAReply (.ok sample) true (some 1)).ttls = [([1, 2, 3, 4], 50)] := by decide
example : parseMxReply (.ok sample) = (.success, [{ host := [109], priority := 10 }]) := by decide
example : parseSrvReply (.ok sample) = (.success, []) := by decide
example : parseMxReply (.error .ebadname) = (.ebadname, []) := by decide
example : (parseAReply (.error .ebadname) true (some 3)).status = .ebadresp := by decide
example : (parseSoaReply (.ok sample)).1 = .ebadresp := by decide
example : ParseFailsMalformed (.error .ebadresp) := by intro e h; cases h; rfl
example : HasQuestion (.ok sample) := by intro r h; cases h; simp [sample]

end Cares.C18
