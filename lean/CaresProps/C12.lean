import CaresLemmas.TextSearch
/-!
# C12 — search-list expansion follows resolv.conf semantics

Property theorems only.  `Cares.Proto.nameList` models `ares_search_name_list` (HOSTALIASES lookup,
eligibility, the ndots rule, `ares_cat_domain`), `searchLoop` / `gaiLoop` the fold that
`search_callback` (ares_search.c) and `next_lookup` / `host_callback` (ares_getaddrinfo.c) perform over
the per-candidate outcomes.  All statements hold for every name (any byte string), every `ndots`,
domain list, flag setting, alias file content and every outcome vector.

Dots are counted as the code (and glibc) counts them: every `.` byte, escaped or not.
The model follows the tree with the repair of F21; the pinned final-status rule is kept as
`searchWalkPinned` with its kernel-checked counterexample below.
-/
namespace Cares.C12
open Cares.Text Cares.Proto

/-- the candidate list when no alias applies and the name is eligible: the name as given first iff it
    has at least `ndots` dots, otherwise last; the search domains in configured order in between -/
theorem candidates_order (c : Config) (name : Name)
    (hal : lookupHostaliases c.noAliases c.aliases name = .error .enotfound) (hel : eligible c name = true) :
    nameList c name = .ok (if dots name ≥ c.ndots then name :: c.domains.map (catDomain name)
                           else c.domains.map (catDomain name) ++ [name]) := by
  unfold nameList
  rw [hal]
  simp only [hel, Bool.not_true, Bool.false_eq_true, ↓reduceIte, labelCnt, Nat.add_sub_cancel]
  by_cases h : dots name ≥ c.ndots
  · have : ¬ dots name < c.ndots := by omega
    simp [h, this]
  · have : dots name < c.ndots := by omega
    simp [h, this]

/-- only the name itself when it ends in a dot or searching is disabled (and no alias applies) -/
theorem only_name_when_not_eligible (c : Config) (name : Name)
    (hal : lookupHostaliases c.noAliases c.aliases name = .error .enotfound)
    (h : name.getLast? = some 46 ∨ c.noSearch = true) :
    nameList c name = .ok [name] := by
  unfold nameList
  rw [hal]
  have : eligible c name = false := by
    unfold eligible
    rcases h with h | h <;> simp [h]
  simp [this]

/-- only the alias when a host alias applies -/
theorem only_alias_when_alias_applies (c : Config) (name alias : Name)
    (hal : lookupHostaliases c.noAliases c.aliases name = .ok alias) :
    nameList c name = .ok [alias] := by
  unfold nameList; rw [hal]

/-- an alias can only apply to a name without dots, with aliases enabled and HOSTALIASES set -/
theorem alias_only_for_single_label (c : Config) (name alias : Name)
    (hal : lookupHostaliases c.noAliases c.aliases name = .ok alias) :
    dots name = 0 ∧ c.noAliases = false ∧ ∃ t, c.aliases = .file t := by
  unfold lookupHostaliases at hal
  split at hal
  · simp at hal
  · rename_i hna
    split at hal
    · simp at hal
    · rename_i hdot
      refine ⟨?_, by simpa using hna, ?_⟩
      · unfold dots
        rw [List.count_eq_zero]
        intro hm
        exact hdot (by simpa using hm)
      · split at hal
        · simp at hal
        · simp at hal
        · exact ⟨_, by assumption⟩

/-- every candidate list has at least one name -/
theorem candidates_nonempty (c : Config) (name : Name) (l : List Name) (h : nameList c name = .ok l) : l ≠ [] := by
  unfold nameList at h
  split at h
  · simp only [Except.ok.injEq] at h; subst h; simp
  · split at h
    · simp only [Except.ok.injEq] at h; subst h; simp
    · simp only [Except.ok.injEq] at h
      subst h
      by_cases hd : labelCnt name - 1 ≥ c.ndots
      · simp [hd]
      · have : labelCnt name - 1 < c.ndots := by omega
        simp [this]
  · simp at h

/-- the names sent are exactly the candidates up to and including the first one that yields data or a
    hard error (all of them when every candidate soft-fails) — for `ares_search` and for the
    `ares_getaddrinfo` walk -/
theorem sent_names (c : Config) (name : Name) (os : List Outcome) (names : List Name)
    (h : nameList c name = .ok names) :
    (searchWalk c name os).1 = takeUntilStop names os ∧ (gaiWalk c name os).1 = takeUntilStop names os := by
  have hne := candidates_nonempty c name names h
  unfold searchWalk gaiWalk
  rw [h]
  simp only [gaiLoop_eq names hne, searchLoop_spec true names hne, List.nil_append, and_self]

/-- the walk stops at the first candidate `i` whose outcome is data or a hard error: candidates
    `0 … i` were sent in order, nothing after it, and the final status is that candidate's outcome -/
theorem stops_at_first_data_or_hard_error (c : Config) (name : Name) (os : List Outcome) (names : List Name)
    (h : nameList c name = .ok names) (i : Nat) (hi : i < names.length)
    (hstop : soft names[i] (outcomeAt os i) = false)
    (hsoft : ∀ j (hj : j < i), soft (names[j]'(by omega)) (outcomeAt os j) = true) :
    searchWalk c name os = (names.take (i + 1), outcomeAt os i) ∧
    gaiWalk c name os = (names.take (i + 1), outcomeAt os i) := by
  have hne := candidates_nonempty c name names h
  have hst : stopAt names os = some i := (stopAt_spec names os i).mpr ⟨hi, hstop, hsoft⟩
  unfold searchWalk gaiWalk
  rw [h]
  simp only [gaiLoop_eq names hne, searchLoop_spec true names hne, takeUntilStop, hst, List.nil_append, and_self]

/-- when every candidate soft-fails all of them are sent and the result is "no data" if any candidate
    existed without data, else the last candidate's status -/
theorem final_status (c : Config) (name : Name) (os : List Outcome) (names : List Name)
    (h : nameList c name = .ok names)
    (hsoft : ∀ j (hj : j < names.length), soft names[j] (outcomeAt os j) = true) :
    let final := if anyNodata names.length os then Status.enodata else outcomeAt os (names.length - 1)
    searchWalk c name os = (names, final) ∧ gaiWalk c name os = (names, final) := by
  have hne := candidates_nonempty c name names h
  have hst : stopAt names os = none := (stopAt_none names os).mpr hsoft
  unfold searchWalk gaiWalk
  rw [h]
  simp only [gaiLoop_eq names hne, searchLoop_spec true names hne, takeUntilStop, hst, List.nil_append,
    Bool.false_or, ↓reduceIte, and_self]

/-- `anyNodata` spelled out -/
theorem anyNodata_iff (n : Nat) (os : List Outcome) :
    anyNodata n os = true ↔ ∃ j, j < n ∧ outcomeAt os j = .enodata := by
  unfold anyNodata
  simp [List.any_eq_true]

/-! ## The pinned tree -/

/-- F21: with `host.a.com` answered NODATA and the single-label last candidate `host` answered SERVFAIL
    the pinned `search_callback` reports SERVFAIL, not NODATA; the repaired fold reports NODATA. -/
theorem pinned_final_status_f21 :
    let c : Config := { ndots := 1, domains := [[97, 46, 99, 111, 109]] }
    (searchWalkPinned c [104, 111, 115, 116] [.enodata, .eservfail]).2 = .eservfail ∧
    (searchWalk c [104, 111, 115, 116] [.enodata, .eservfail]) =
      ([[104, 111, 115, 116, 46, 97, 46, 99, 111, 109], [104, 111, 115, 116]], .enodata) := by
  decide +kernel

/-! ## Non-vacuity -/

/-- `host`, ndots 1, domains a.com b.com: host.a.com, host.b.com, host; NXDOMAIN, data → stops at the second -/
example :
    searchWalk { ndots := 1, domains := [[97, 46, 99, 111, 109], [98, 46, 99, 111, 109]] } [104, 111, 115, 116]
      [.enotfound, .success] =
    ([[104, 111, 115, 116, 46, 97, 46, 99, 111, 109], [104, 111, 115, 116, 46, 98, 46, 99, 111, 109]], .success) := by
  decide +kernel

/-- `x.y` with ndots 1 is tried as-is first -/
example :
    (nameList { ndots := 1, domains := [[97, 46, 99, 111, 109]] } [120, 46, 121]).toOption =
      some [[120, 46, 121], [120, 46, 121, 46, 97, 46, 99, 111, 109]] := by
  decide +kernel

/-- an alias file entry `host www.example.org` replaces the whole list -/
example :
    (nameList (Config.mk 1 [[97, 46, 99, 111, 109]] false false
                (AliasSrc.file [104, 111, 115, 116, 32, 119, 119, 119, 46, 101, 120, 97, 109, 112, 108, 101, 46, 111, 114, 103, 10]))
      [104, 111, 115, 116]).toOption = some [[119, 119, 119, 46, 101, 120, 97, 109, 112, 108, 101, 46, 111, 114, 103]] := by
  decide +kernel

end Cares.C12
