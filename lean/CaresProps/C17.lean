import CaresLemmas.CookieTrace
/-!
# C17 — DNS cookies follow the RFC 7873 client state machine

Model: `Cares.Proto.Cookie.apply` / `validate` (`ares_cookie_apply` / `ares_cookie_validate`, `src/lib/ares_cookie.c`),
constants and the `timeval_is_set` / `ares_addr_equal(AF_UNSPEC)` tables regenerated from the tree under check.
Histories: `World`, `Ev = advance | send | recv`, `step`, `run`, `Reach` (`CaresLemmas/CookieTrace.lean`): all finite
sequences of sends (`ares_cookie_apply`), responses (`ares_cookie_validate` on a request that was sent earlier) and
arbitrary time advances, starting from a freshly created server.

Every clause of the property is stated for all reachable states / all histories:

* `never_on_tcp`                         — no cookie is ever attached on TCP (and one the caller supplied is removed);
* `client_cookie_stable`                 — across any run of events that contains no reset, no source-address change and
                                            no rotation, every cookie put on the wire has the same client part;
* `echo_latest_server_cookie`            — after a response with a valid server cookie for the current client cookie,
                                            every later cookie carries exactly that server cookie (until a newer one);
* `supported_requires_cookie`            — SUPPORTED ⇒ a response to a cookie-bearing request is accepted iff it carries
                                            a valid cookie (and is not BADCOOKIE);
* `regression_bounded`, `regression_not_before` — the dropping ends with the first request sent at least
                                            `COOKIE_REGRESSION_TIMEOUT_MS` after the *first* such drop, and not earlier;
* `badcookie_at_most_three_then_tcp`     — whatever the server does, a query is re-sent because of BADCOOKIE at most
                                            `COOKIE_RESEND_MAX` times, and from the third on it travels over TCP;
* `never_cookie_server_is_used_without`  — a server that never returns a cookie never reaches SUPPORTED, none of its
                                            responses is dropped, and after the first one no cookie is sent during the
                                            retry period;
* `bad_client_part_dropped`, `length_8_to_40_only`, `no_oob_read`, `apply_draws_le_one`.

On the pinned tree two table facts are false, which is visible here as failing `decide` obligations
(`timeval_is_set_ok`: F18; `addr_equal_unspec_ok`: F30-C17) and in the kernel-checked counterexamples at the end.
-/
namespace Cares.C17
open Cares.Proto.Cookie Cares.Generated.Proto

abbrev stepT := step timevalIsSet
abbrev runT := run timevalIsSet
abbrev ReachT := Reach timevalIsSet

/-! ## table facts of the tree under check (side conditions) -/

/-- F18: a time stamp is "set" unless both fields are zero -/
theorem timeval_is_set_ok : IsSetOk timevalIsSet := by
  intro tv
  simp only [timevalIsSet, isSetTable, TIMEVAL_IS_SET_10, TIMEVAL_IS_SET_01, TIMEVAL_IS_SET_11, TIMEVAL_IS_SET_00]
  by_cases h1 : tv.sec = 0 <;> by_cases h2 : tv.usec = 0 <;> simp [h1, h2]

/-- F30-C17: two unknown local addresses compare equal -/
theorem addr_equal_unspec_ok : ADDR_EQUAL_UNSPEC = 1 := by decide

/-- F30-C17 (second half): a reply only proves support while a client cookie is in use -/
theorem validate_learns_only_in_use : learnsWhenCleared = false := by decide

theorem cookie_constants :
    COOKIE_CLIENT_LEN = 8 ∧ COOKIE_SERVER_MAX = 32 ∧ COOKIE_RESEND_MAX = 3 ∧ 0 < COOKIE_REGRESSION_TIMEOUT_MS ∧
    COOKIE_REGRESSION_TIMEOUT_MS ≤ COOKIE_UNSUPPORTED_TIMEOUT_MS ∧
    COOKIE_UNSUPPORTED_TIMEOUT_MS < COOKIE_CLIENT_TIMEOUT_MS := by decide

theorem addr_equal_refl (a : Addr) (h : a.Wf) : addrEqual a a = true := by
  unfold addrEqual addrEqualWith
  rcases h with h | h | h <;> simp [h, AF_INET, AF_INET6, AF_UNSPEC, ADDR_EQUAL_UNSPEC]

/-! ## never on TCP -/

/-- `ares_cookie_apply` on a TCP connection: whatever the state, the time and the request, the request leaves without
    COOKIE option (one supplied by the caller is deleted) and the per-server state is untouched -/
theorem never_on_tcp (c : CookieSt) (conn : Conn) (now : TimeVal) (fresh : Bytes) (req : ReqOpt)
    (h : conn.tcp = true) :
    cookieOf (apply c conn now fresh req).req = none ∧ (apply c conn now fresh req).ck = c := by
  cases req with
  | none => simp [apply, applyWith, cookieOf]
  | some x => simp [apply, applyWith, h, cookieOf]

/-- … and so in every history: the world after a TCP send records "no cookie on the wire" -/
theorem never_on_tcp_step (w : World) (conn : Conn) (fresh : Bytes) (req : ReqOpt) (h : conn.tcp = true) :
    (stepT w (.send conn fresh req)).sent = none :: w.sent ∧ (stepT w (.send conn fresh req)).ck = w.ck := by
  have := never_on_tcp w.ck conn w.now fresh req h
  unfold apply at this
  simp only [stepT, step, this.1, this.2, and_self]

/-! ## the client cookie is stable -/

/-- a regression reset is due: the server was known to support cookies, a response without cookie has been dropped,
    and that was at least the regression period ago -/
def regressionDue (c : CookieSt) (now : TimeVal) : Bool :=
  c.state = .supported && timevalIsSet c.unsupportedTs && expired c.unsupportedTs now COOKIE_REGRESSION_TIMEOUT_MS

/-- cookies are in use for this server -/
def InUse (c : CookieSt) : Prop := c.state = .generated ∨ c.state = .supported

/-- nothing calls for a new client cookie: cookies are in use, the source address is the one the cookie was made
    for, the cookie is younger than a day, no regression reset is due -/
def Stable (c : CookieSt) (conn : Conn) (now : TimeVal) : Prop :=
  InUse c ∧ addrEqual conn.selfIp c.clientIp = true ∧ rotationDue c now = false ∧ regressionDue c now = false

/-- single step: in a stable situation the request leaves with `client ++ server` and nothing changes, no randomness
    is consumed -/
theorem apply_stable (c : CookieSt) (conn : Conn) (now : TimeVal) (fresh : Bytes) (x : Option Bytes)
    (ht : conn.tcp = false) (h : Stable c conn now) :
    apply c conn now fresh (some x) = ⟨c, some (some (c.client ++ c.server)), 0⟩ := by
  obtain ⟨hs, hip, hrot, hreg⟩ := h
  have h1 : regress timevalIsSet c now = c := by
    unfold regress; unfold regressionDue at hreg; simp [hreg]
  have hnu : c.state ≠ .unsupported := by rcases hs with hs | hs <;> simp [hs]
  have hni : c.state ≠ .initial := by rcases hs with hs | hs <;> simp [hs]
  have h2 : quiet c now = false := by simp [quiet, hnu]
  have h3 : relearn c = c := by simp [relearn, hnu]
  have h4 : genInitial c conn now fresh = c := by simp [genInitial, hni]
  have h5 : ipChanged c conn = false := by simp [ipChanged, hip]
  have h6 : genIp c conn now fresh = c := by simp [genIp, h5]
  have h7 : genRotate c conn now fresh = c := by simp [genRotate, hrot]
  simp [apply, applyWith, ht, h1, h2, h3, h4, h5, h6, h7, hni, hrot]

/-- an event that gives the client no reason to change its cookie: time passing; a send over TCP or without EDNS
    (no-ops); a UDP send in a stable situation; any response except the one that makes the client conclude the server
    does not support cookies (the state reset GENERATED → UNSUPPORTED) -/
def QuietEv (w : World) : Ev → Prop
  | .advance _ => True
  | .send conn _ req => req = none ∨ conn.tcp = true ∨ Stable w.ck conn w.now
  | .recv q rq resp rcode => (validate w.ck q rq resp rcode w.now).ck.state ≠ .unsupported

def QuietRun (w : World) : List Ev → Prop
  | [] => True
  | e :: es => QuietEv w e ∧ QuietRun (stepT w e) es

instance (c : CookieSt) : Decidable (InUse c) := by unfold InUse; infer_instance
instance (c : CookieSt) (conn : Conn) (now : TimeVal) : Decidable (Stable c conn now) := by
  unfold Stable; infer_instance
instance (w : World) (e : Ev) : Decidable (QuietEv w e) := by cases e <;> unfold QuietEv <;> infer_instance
instance decQuietRun : ∀ (es : List Ev) (w : World), Decidable (QuietRun w es)
  | [], _ => isTrue trivial
  | e :: es, w => by
    unfold QuietRun
    exact @instDecidableAnd _ _ _ (decQuietRun es _)

theorem quiet_step (w : World) (e : Ev) (hw : InUse w.ck) (hl : w.ck.client.length = 8) (hq : QuietEv w e) :
    (stepT w e).ck.client = w.ck.client ∧ InUse (stepT w e).ck ∧
    ∀ b, some b ∈ (stepT w e).sent → some b ∈ w.sent ∨ b.take 8 = w.ck.client := by
  cases e with
  | advance us => exact ⟨rfl, hw, fun b hb => Or.inl hb⟩
  | send conn fresh req =>
    simp only [stepT, step]
    cases req with
    | none =>
      simp only [applyWith, cookieOf]
      refine ⟨trivial, hw, ?_⟩
      intro b hb; simp only [List.mem_cons] at hb
      rcases hb with hb | hb
      · cases hb
      · exact Or.inl hb
    | some x =>
      by_cases ht : conn.tcp = true
      · simp only [applyWith, ht, ↓reduceIte, cookieOf]
        refine ⟨trivial, hw, ?_⟩
        intro b hb; simp only [List.mem_cons] at hb
        rcases hb with hb | hb
        · cases hb
        · exact Or.inl hb
      · have ht' : conn.tcp = false := by simpa using ht
        have hs : Stable w.ck conn w.now := by
          rcases hq with hq | hq | hq
          · cases hq
          · exact absurd hq ht
          · exact hq
        have := apply_stable w.ck conn w.now fresh x ht' hs
        unfold apply at this
        rw [this]
        refine ⟨rfl, hw, ?_⟩
        intro b hb; simp only [cookieOf, List.mem_cons, Option.some.injEq] at hb
        rcases hb with hb | hb
        · right; subst hb; rw [← hl]; exact List.take_left' rfl
        · exact Or.inl hb
  | recv q rq resp rcode =>
    simp only [stepT, step]
    have hc := validate_ck_cases timevalIsSet w.ck q rq resp rcode w.now
    simp only [] at hc
    have hq' : (validateWith timevalIsSet w.ck q rq resp rcode w.now).ck.state ≠ .unsupported := hq
    refine ⟨?_, ?_, fun b hb => Or.inl hb⟩
    · rcases hc with hc | ⟨a, r, _, _, _, hc⟩ | ⟨_, hc, _⟩ | ⟨_, hc, _⟩
      · rw [hc]
      · rw [hc, learnG_inUse _ _ _ hw]; exact learn_client _ _ _
      · rw [hc]
      · rw [hc] at hq'; simp at hq'
    · rcases hc with hc | ⟨a, r, _, _, _, hc⟩ | ⟨hs, hc, _⟩ | ⟨_, hc, _⟩
      · rw [hc]; exact hw
      · rw [hc, learnG_inUse _ _ _ hw]; right; exact learn_state _ _ _
      · rw [hc]; right; exact hs
      · rw [hc] at hq'; simp at hq'

/-- **client cookie stable.**  Start from any state in which cookies are in use.  Across *every* sequence of events
    that contains no reset (GENERATED → UNSUPPORTED on a cookie-less answer, regression reset), no change of source
    address and no daily rotation — arbitrary time advances, arbitrary responses, TCP and non-EDNS traffic in between —
    the client cookie stays what it was, and every cookie put on the wire during the run starts with it. -/
theorem client_cookie_stable (es : List Ev) : ∀ (w : World), InUse w.ck → w.ck.client.length = 8 → QuietRun w es →
    (runT w es).ck.client = w.ck.client ∧ InUse (runT w es).ck ∧
    ∀ b, some b ∈ (runT w es).sent → some b ∈ w.sent ∨ b.take 8 = w.ck.client := by
  induction es with
  | nil => intro w hw _ _; exact ⟨rfl, hw, fun b hb => Or.inl hb⟩
  | cons e es ih =>
    intro w hw hl hq
    obtain ⟨h1, h2, h3⟩ := quiet_step w e hw hl hq.1
    obtain ⟨i1, i2, i3⟩ := ih (stepT w e) h2 (by rw [h1]; exact hl) hq.2
    refine ⟨by rw [← h1]; exact i1, i2, ?_⟩
    intro b hb
    rcases i3 b hb with hb | hb
    · exact h3 b hb
    · right; rw [← h1]; exact hb

/-- the causes that do allow a new client cookie, read off the code: if a UDP request with EDNS leaves with a client
    part different from the stored one, then cookies were not in use (first use, or learning again after the
    unsupported period), or the source address differs, or the cookie is a day old, or a regression reset was due -/
theorem client_cookie_changes_only_for_cause (c : CookieSt) (conn : Conn) (now : TimeVal) (fresh : Bytes)
    (x : Option Bytes) (ht : conn.tcp = false)
    (hne : (apply c conn now fresh (some x)).ck.client ≠ c.client) :
    ¬ InUse c ∨ addrEqual conn.selfIp c.clientIp = false ∨ rotationDue c now = true ∨ regressionDue c now = true := by
  by_cases h1 : InUse c
  · by_cases h2 : addrEqual conn.selfIp c.clientIp = true
    · by_cases h3 : rotationDue c now = false
      · by_cases h4 : regressionDue c now = false
        · exact absurd (by rw [apply_stable c conn now fresh x ht ⟨h1, h2, h3, h4⟩]) hne
        · right; right; right; simpa using h4
      · right; right; left; simpa using h3
    · right; left; simpa using h2
  · left; exact h1

/-! ## the client cookie is always one the RNG produced -/

/-- the random values drawn by the sends of a history -/
def freshOf : List Ev → List Bytes
  | [] => []
  | .send _ fresh _ :: es => fresh :: freshOf es
  | _ :: es => freshOf es

/-- `F` covers the client cookie in use and every client part put on the wire so far -/
def FreshInv (F : List Bytes) (w : World) : Prop :=
  (InUse w.ck → w.ck.client ∈ F) ∧ ∀ b, some b ∈ w.sent → b.take 8 ∈ F

theorem freshInv_mono (F G : List Bytes) (w : World) (hs : ∀ x ∈ F, x ∈ G) (h : FreshInv F w) : FreshInv G w :=
  ⟨fun hu => hs _ (h.1 hu), fun b hb => hs _ (h.2 b hb)⟩

theorem fresh_step (F : List Bytes) (w : World) (e : Ev) (hwf : w.ck.Wf) (he : EvOk w e) (h : FreshInv F w) :
    FreshInv (freshOf [e] ++ F) (stepT w e) := by
  cases e with
  | advance us => exact h
  | send conn fresh req =>
    simp only [freshOf, List.cons_append, List.nil_append, stepT, step]
    have hc := applyWith_cases timevalIsSet w.ck conn w.now fresh req
    simp only [] at hc
    have hnone : ∀ b, some b ∈ (none :: w.sent) → b.take 8 ∈ fresh :: F := by
      intro b hb
      simp only [List.mem_cons] at hb
      rcases hb with hb | hb
      · cases hb
      · exact List.mem_cons_of_mem _ (h.2 b hb)
    rcases hc with ⟨_, h1, h2⟩ | ⟨_, _, _, h1, h2⟩ | ⟨_, _, _, hq, h1, h2⟩ | ⟨_, _, _, _, h1, h2⟩
    · rw [h1, h2]; exact ⟨fun hu => List.mem_cons_of_mem _ (h.1 hu), hnone⟩
    · rw [h1, h2]; exact ⟨fun hu => List.mem_cons_of_mem _ (h.1 hu), hnone⟩
    · rw [h1, h2, quiet_regress _ _ _ hq]; exact ⟨fun hu => List.mem_cons_of_mem _ (h.1 hu), hnone⟩
    · have hcl : (applyCore timevalIsSet w.ck conn w.now fresh).client ∈ fresh :: F := by
        rcases applyCore_client timevalIsSet w.ck conn w.now fresh with hc | ⟨hu, hc⟩
        · rw [hc]; exact List.mem_cons_self
        · rw [hc]; exact List.mem_cons_of_mem _ (h.1 hu)
      have hlen := (wf_applyCore timevalIsSet w.ck conn w.now fresh hwf he.1).client_len
      rw [h2, h1]
      refine ⟨fun _ => hcl, ?_⟩
      intro b hb
      simp only [cookieOf, List.mem_cons, Option.some.injEq] at hb
      rcases hb with hb | hb
      · subst hb
        have : ((applyCore timevalIsSet w.ck conn w.now fresh).client ++
                (applyCore timevalIsSet w.ck conn w.now fresh).server).take 8 =
               (applyCore timevalIsSet w.ck conn w.now fresh).client := by
          rw [show (8 : Nat) = (applyCore timevalIsSet w.ck conn w.now fresh).client.length from hlen.symm]
          exact List.take_left' rfl
        rw [this]; exact hcl
      · exact List.mem_cons_of_mem _ (h.2 b hb)
  | recv q rq resp rcode =>
    simp only [freshOf, List.nil_append, stepT, step]
    have hc := validate_ck_cases timevalIsSet w.ck q rq resp rcode w.now
    simp only [] at hc
    refine ⟨?_, h.2⟩
    rcases hc with hc | ⟨a, r, _, _, _, hc⟩ | ⟨hs, hc, _⟩ | ⟨_, hc, _⟩
    · rw [hc]; exact h.1
    · rw [hc]
      by_cases hu : InUse w.ck
      · rw [learnG_inUse _ _ _ hu, learn_client]; exact fun _ => h.1 hu
      · have : learnG w.ck a r = w.ck := by
          unfold learnG
          have h1 : ¬ w.ck.state = .generated := fun hh => hu (Or.inl hh)
          have h2 : ¬ w.ck.state = .supported := fun hh => hu (Or.inr hh)
          simp [validate_learns_only_in_use, h1, h2]
        rw [this]; exact h.1
    · rw [hc]; exact fun _ => h.1 (Or.inr hs)
    · rw [hc]; intro hu; rcases hu with hu | hu <;> simp at hu

theorem freshOf_mem (e : Ev) (es : List Ev) (F : List Bytes) (x : Bytes)
    (hx : x ∈ freshOf es ++ (freshOf [e] ++ F)) : x ∈ freshOf (e :: es) ++ F := by
  cases e with
  | advance _ => simpa [freshOf] using hx
  | recv _ _ _ _ => simpa [freshOf] using hx
  | send c f r =>
    simp only [freshOf, List.cons_append, List.nil_append, List.mem_append, List.mem_cons] at hx ⊢
    rcases hx with hx | hx | hx <;> simp [hx]

theorem fresh_run (es : List Ev) : ∀ (F : List Bytes) (w : World), Inv w → FreshInv F w → TraceOk timevalIsSet w es →
    FreshInv (freshOf es ++ F) (runT w es) := by
  induction es with
  | nil => intro F w _ h _; exact h
  | cons e es ih =>
    intro F w hi h ht
    have h1 := fresh_step F w e hi.wf ht.1 h
    have h2 := ih _ _ (step_inv timevalIsSet timeval_is_set_ok w e hi ht.1) h1 ht.2
    exact freshInv_mono _ _ _ (fun x hx => freshOf_mem e es F x hx) h2

/-- **the client cookie is always random.**  In every history every cookie put on the wire starts with 8 bytes that an
    earlier (or this) send of the history drew from the random number generator — never the all-zero content of a
    cleared state, never anything derived from a response. -/
theorem client_cookie_is_fresh (t0 : TimeVal) (h0 : StartOk t0) (es : List Ev)
    (ht : TraceOk timevalIsSet (World.init t0) es) :
    ∀ b, some b ∈ (runT (World.init t0) es).sent → b.take 8 ∈ freshOf es := by
  intro b hb
  have := fresh_run es [] (World.init t0) (inv_init t0 h0)
    ⟨by intro hu; rcases hu with hu | hu <;> simp [World.init, CookieSt.cleared] at hu, by simp [World.init]⟩ ht
  simpa using this.2 b hb

/-! ## the latest server cookie is echoed -/

/-- a response with a valid server cookie for the *current* client cookie is remembered (and proves support) -/
theorem server_cookie_saved (c : CookieSt) (q : QState) (rq r : Bytes) (rcode : Nat) (now : TimeVal) (hu : InUse c)
    (hv : validFor (some rq) (some r) = true) (hc : rq.take 8 = c.client) :
    (validate c q (some rq) (some r) rcode now).ck.server = r.drop 8 ∧
    (validate c q (some rq) (some r) rcode now).ck.state = .supported ∧
    (validate c q (some rq) (some r) rcode now).ck.client = c.client := by
  simp only [validFor, Bool.and_eq_true, decide_eq_true_eq, beq_iff_eq] at hv
  obtain ⟨⟨h1, h2⟩, hp⟩ := hv
  have hl : learnG c rq r = { c with state := .supported, unsupportedTs := .zero, server := r.drop 8 } := by
    rw [learnG_inUse _ _ _ hu]; unfold learn; simp [COOKIE_CLIENT_LEN, hc]
  unfold validate
  by_cases hr : rcode = RCODE_BADCOOKIE
  · subst hr; rw [validate_server_badcookie _ _ _ _ _ _ h1 h2 hp, hl]; exact ⟨rfl, rfl, rfl⟩
  · rw [validate_server_ok _ _ _ _ _ _ _ h1 h2 hp hr, hl]; exact ⟨rfl, rfl, rfl⟩

/-- an event that neither resets the client cookie nor brings a newer server cookie for it -/
def EchoQuietEv (w : World) : Ev → Prop
  | .recv q rq resp rcode => QuietEv w (.recv q rq resp rcode) ∧
      ¬ (validFor rq resp = true ∧ ∃ b, rq = some b ∧ b.take 8 = w.ck.client)
  | e => QuietEv w e

def EchoQuietRun (w : World) : List Ev → Prop
  | [] => True
  | e :: es => EchoQuietEv w e ∧ EchoQuietRun (stepT w e) es

theorem echoQuiet_quiet (w : World) (e : Ev) (h : EchoQuietEv w e) : QuietEv w e := by
  cases e with
  | advance _ => exact h
  | send _ _ _ => exact h
  | recv _ _ _ _ => exact h.1

theorem echo_step (w : World) (e : Ev) (hs : w.ck.state = .supported) (hq : EchoQuietEv w e) :
    (stepT w e).ck.server = w.ck.server ∧ (stepT w e).ck.state = .supported := by
  cases e with
  | advance us => exact ⟨rfl, hs⟩
  | send conn fresh req =>
    simp only [stepT, step]
    cases req with
    | none => simp only [applyWith]; exact ⟨trivial, hs⟩
    | some x =>
      by_cases ht : conn.tcp = true
      · simp only [applyWith, ht, ↓reduceIte]; exact ⟨trivial, hs⟩
      · have ht' : conn.tcp = false := by simpa using ht
        have hst : Stable w.ck conn w.now := by
          rcases hq with hq | hq | hq
          · cases hq
          · exact absurd hq ht
          · exact hq
        have := apply_stable w.ck conn w.now fresh x ht' hst
        unfold apply at this
        rw [this]; exact ⟨rfl, hs⟩
  | recv q rq resp rcode =>
    simp only [stepT, step]
    have hc := validate_ck_cases timevalIsSet w.ck q rq resp rcode w.now
    simp only [] at hc
    rcases hc with hc | ⟨a, r, ha, hr, hv, hc⟩ | ⟨_, hc, _⟩ | ⟨hg, _, _⟩
    · rw [hc]; exact ⟨rfl, hs⟩
    · rw [hc, learnG_inUse _ _ _ (Or.inr hs)]
      refine ⟨?_, learn_state _ _ _⟩
      unfold learn; simp only []
      split
      · rename_i heq
        exfalso
        apply hq.2
        refine ⟨hv, a, ha, ?_⟩
        simp only [beq_iff_eq, COOKIE_CLIENT_LEN] at heq
        exact heq.symm
      · rfl
    · rw [hc]; exact ⟨rfl, hs⟩
    · rw [hg] at hs; cases hs

theorem echo_run (es : List Ev) : ∀ (w : World), w.ck.state = .supported → EchoQuietRun w es →
    (runT w es).ck.server = w.ck.server ∧ (runT w es).ck.state = .supported := by
  induction es with
  | nil => intro w hs _; exact ⟨rfl, hs⟩
  | cons e es ih =>
    intro w hs hq
    obtain ⟨h1, h2⟩ := echo_step w e hs hq.1
    obtain ⟨i1, i2⟩ := ih (stepT w e) h2 hq.2
    exact ⟨by rw [← h1]; exact i1, i2⟩

theorem echoQuietRun_quietRun (es : List Ev) : ∀ w, EchoQuietRun w es → QuietRun w es := by
  induction es with
  | nil => intro _ _; trivial
  | cons e es ih => intro w h; exact ⟨echoQuiet_quiet w e h.1, ih _ h.2⟩

/-- **echo of the latest server cookie.**  Take any state `w` and a response carrying a valid server cookie `s` for the
    client cookie currently in use.  After *any* further sequence of events without reset, source-address change,
    rotation or a newer server cookie, the next UDP request with EDNS leaves with exactly `client ++ s`. -/
theorem echo_latest_server_cookie (w : World) (q : QState) (rq r : Bytes) (rcode : Nat) (es : List Ev)
    (hl : w.ck.client.length = 8) (hu : InUse w.ck)
    (hv : validFor (some rq) (some r) = true) (hc : rq.take 8 = w.ck.client)
    (hq : EchoQuietRun (stepT w (.recv q (some rq) (some r) rcode)) es)
    (conn : Conn) (fresh : Bytes) (x : Option Bytes) (ht : conn.tcp = false)
    (hst : Stable (runT (stepT w (.recv q (some rq) (some r) rcode)) es).ck conn
            (runT (stepT w (.recv q (some rq) (some r) rcode)) es).now) :
    let w' := runT (stepT w (.recv q (some rq) (some r) rcode)) es
    (apply w'.ck conn w'.now fresh (some x)).req = some (some (w.ck.client ++ r.drop 8)) := by
  intro w'
  obtain ⟨s1, s2, s3⟩ := server_cookie_saved w.ck q rq r rcode w.now hu hv hc
  have e1 : (stepT w (.recv q (some rq) (some r) rcode)).ck = (validate w.ck q (some rq) (some r) rcode w.now).ck := rfl
  obtain ⟨r1, _⟩ := echo_run es _ (by rw [e1]; exact s2) hq
  obtain ⟨c1, _, _⟩ := client_cookie_stable es _ (Or.inr (by rw [e1]; exact s2)) (by rw [e1, s3]; exact hl)
    (echoQuietRun_quietRun es _ hq)
  rw [apply_stable w'.ck conn w'.now fresh x ht hst]
  simp only [w']
  rw [r1, c1, e1, s1, s3]

/-! ## a server that has proven support must keep sending cookies -/

/-- **supported requires cookie.**  In the SUPPORTED state a response to a request that carried a cookie is accepted
    if and only if it carries a valid cookie (8..40 bytes, the client part we sent, at least one server byte) and is
    not a BADCOOKIE error; everything else — no cookie, bare client cookie, wrong client part, bad length — is dropped. -/
theorem supported_requires_cookie (c : CookieSt) (q : QState) (rq : Bytes) (resp : Option Bytes) (rcode : Nat)
    (now : TimeVal) (hs : c.state = .supported) :
    (validate c q (some rq) resp rcode now).verdict = .accept ↔
      (validFor (some rq) resp = true ∧ rcode ≠ RCODE_BADCOOKIE) := by
  unfold validate
  rcases resp_classes rq resp with ⟨r, hr, hb⟩ | ⟨r, hr, h1, h2, hp⟩ | ⟨r, hr, h1, h2, hp⟩ | hn
  · subst hr; rw [validate_badlen _ _ _ _ _ _ _ hb]
    have : validFor (some rq) (some r) = false := by
      simp only [validFor]; rcases hb with hb | hb <;> simp <;> omega
    simp [this]
  · subst hr; rw [validate_badclient _ _ _ _ _ _ _ h1 h2 hp]
    have : validFor (some rq) (some r) = false := by simp [validFor, hp]
    simp [this]
  · subst hr
    have hv : validFor (some rq) (some r) = true := by simp [validFor, h1, h2, hp]
    by_cases hr : rcode = RCODE_BADCOOKIE
    · subst hr; rw [validate_server_badcookie _ _ _ _ _ _ h1 h2 hp]; simp
    · rw [validate_server_ok _ _ _ _ _ _ _ h1 h2 hp hr]; simp [hv, hr]
  · have hv := validFor_noserver rq resp hn
    by_cases hr : rcode = RCODE_BADCOOKIE
    · subst hr
      rcases hn with hn | ⟨r, hn, hl8, hp⟩
      · subst hn; rw [validate_noserver_badcookie_none]; simp
      · subst hn; rw [validate_noserver_badcookie_some _ _ _ _ _ _ hl8 hp]; simp
    · rw [validate_noserver _ _ _ _ _ _ _ hn hr]
      simp [noServerOut, hs, hv]

/-- **… for at most the regression period from the first such drop.**  In every reachable state in which the server
    is SUPPORTED and responses have been dropped for lacking a cookie, the first of them at `t0`: the first UDP request
    with EDNS that is sent `COOKIE_REGRESSION_TIMEOUT_MS` or more after `t0` resets the state — a fresh client cookie,
    no server cookie, state GENERATED — and from GENERATED a cookie-less response is accepted
    (`generated_accepts_cookieless`). -/
theorem regression_bounded (w : World) (hr : ReachT w) (t0 : TimeVal) (hs : w.ck.state = .supported)
    (hd : w.firstDrop = some t0) (he : expired t0 w.now COOKIE_REGRESSION_TIMEOUT_MS = true)
    (conn : Conn) (fresh : Bytes) (x : Option Bytes) (ht : conn.tcp = false) (hw : conn.selfIp.Wf) :
    let o := apply w.ck conn w.now fresh (some x)
    o.ck.state = .generated ∧ o.ck.client = fresh ∧ o.ck.server = [] ∧ o.req = some (some fresh) := by
  intro o
  have inv := reach_inv timevalIsSet timeval_is_set_ok w hr
  have hu : w.ck.unsupportedTs = t0 := by rw [inv.sup_ts hs, hd]; rfl
  have hset : timevalIsSet w.ck.unsupportedTs = true := by
    rw [hu]; exact isSet_of_sec _ timeval_is_set_ok t0 (inv.drop_sec t0 hd)
  have h1 : regress timevalIsSet w.ck w.now = CookieSt.cleared := by
    unfold regress; rw [hu] at hset ⊢; simp [hs, hset, he]
  have hip : addrEqual conn.selfIp conn.selfIp = true := addr_equal_refl _ hw
  simp only [o, apply, applyWith, ht, h1]
  simp [quiet, relearn, genInitial, genIp, genRotate, ipChanged, rotationDue, CookieSt.cleared, generate, hip]

/-- … and not before: while no drop has happened, or less than the regression period has passed since the first one,
    a send leaves the server SUPPORTED -/
theorem regression_not_before (w : World) (hr : ReachT w) (hs : w.ck.state = .supported)
    (hd : w.firstDrop = none ∨ ∃ t0, w.firstDrop = some t0 ∧ expired t0 w.now COOKIE_REGRESSION_TIMEOUT_MS = false)
    (conn : Conn) (fresh : Bytes) (req : ReqOpt) :
    (apply w.ck conn w.now fresh req).ck.state = .supported := by
  have inv := reach_inv timevalIsSet timeval_is_set_ok w hr
  have h1 : regress timevalIsSet w.ck w.now = w.ck := by
    unfold regress
    rcases hd with hd | ⟨t0, hd, he⟩
    · have hu : w.ck.unsupportedTs = .zero := by rw [inv.sup_ts hs, hd]; rfl
      rw [hu, isSet_zero _ timeval_is_set_ok]; simp
    · have hu : w.ck.unsupportedTs = t0 := by rw [inv.sup_ts hs, hd]; rfl
      rw [hu, he]; simp
  have hc := applyWith_cases timevalIsSet w.ck conn w.now fresh req
  simp only [] at hc
  unfold apply
  rcases hc with ⟨_, h2, _⟩ | ⟨_, _, _, h2, _⟩ | ⟨_, _, _, _, h2, _⟩ | ⟨_, _, _, _, h2, _⟩
  · rw [h2]; exact hs
  · rw [h2]; exact hs
  · rw [h2, h1]; exact hs
  · rw [h2]
    unfold applyCore
    rw [genRotate_state, genIp_state, h1]
    simp [relearn, genInitial, hs]

/-- from GENERATED (no response has proven support yet) a response without server cookie is accepted, and the client
    concludes the server does not support cookies -/
theorem generated_accepts_cookieless (c : CookieSt) (q : QState) (rq : Bytes) (resp : Option Bytes) (rcode : Nat)
    (now : TimeVal) (hs : c.state = .generated) (hn : NoServer rq resp) (hr : rcode ≠ RCODE_BADCOOKIE) :
    (validate c q (some rq) resp rcode now).verdict = .accept ∧
    (validate c q (some rq) resp rcode now).ck.state = .unsupported := by
  unfold validate
  rw [validate_noserver _ _ _ _ _ _ _ hn hr]
  simp [noServerOut, hs]

/-! ## BADCOOKIE -/

/-- a BADCOOKIE response that carries a cookie with our client part: dropped, the query is re-sent without counting
    a try, `cookie_try_count` goes up by one and from `COOKIE_RESEND_MAX` on the query switches to TCP -/
theorem badcookie_step (c : CookieSt) (q : QState) (rq r : Bytes) (now : TimeVal) (h1 : 8 ≤ r.length)
    (h2 : r.length ≤ 40) (hp : rq.take 8 = r.take 8) :
    let o := validate c q (some rq) (some r) RCODE_BADCOOKIE now
    o.verdict = .drop ∧ o.requeue = true ∧ o.q.cookieTry = q.cookieTry + 1 ∧
    o.q.usingTcp = (q.usingTcp || decide (q.cookieTry + 1 ≥ COOKIE_RESEND_MAX)) := by
  intro o
  simp only [o, validate]
  by_cases h8 : r.length = 8
  · rw [validate_noserver_badcookie_some _ _ _ _ _ _ h8 hp]; simp [bump]
  · rw [validate_server_badcookie _ _ _ _ _ _ (by omega) h2 hp]; simp [bump]

/-- a response never causes a cookie resend unless it is a BADCOOKIE error answering a request that carried a cookie -/
theorem requeue_only_badcookie (c : CookieSt) (q : QState) (rq resp : Option Bytes) (rcode : Nat) (now : TimeVal)
    (h : (validate c q rq resp rcode now).requeue = true) : rcode = RCODE_BADCOOKIE ∧ rq.isSome ∧ resp.isSome := by
  unfold validate at h
  cases rq with
  | none =>
    exfalso
    by_cases hb : ∃ r, resp = some r ∧ (r.length < 8 ∨ 40 < r.length)
    · obtain ⟨r, hr, hb⟩ := hb
      subst hr; rw [validate_badlen _ _ _ _ _ _ _ hb] at h; cases h
    · rw [validate_noreq] at h
      · cases h
      · intro r hr
        by_cases h1 : 8 ≤ r.length ∧ r.length ≤ 40
        · exact h1
        · exact absurd ⟨r, hr, by omega⟩ hb
  | some a =>
    rcases resp_classes a resp with ⟨r, hr, hb⟩ | ⟨r, hr, h1, h2, hp⟩ | ⟨r, hr, h1, h2, hp⟩ | hn
    · subst hr; rw [validate_badlen _ _ _ _ _ _ _ hb] at h; cases h
    · subst hr; rw [validate_badclient _ _ _ _ _ _ _ h1 h2 hp] at h; cases h
    · subst hr
      by_cases hr : rcode = RCODE_BADCOOKIE
      · exact ⟨hr, rfl, rfl⟩
      · rw [validate_server_ok _ _ _ _ _ _ _ h1 h2 hp hr] at h; cases h
    · by_cases hr : rcode = RCODE_BADCOOKIE
      · subst hr
        rcases hn with hn | ⟨r, hn, _, _⟩
        · subst hn; rw [validate_noserver_badcookie_none] at h; cases h
        · subst hn; exact ⟨rfl, rfl, rfl⟩
      · rw [validate_noserver _ _ _ _ _ _ _ hn hr] at h
        unfold noServerOut at h
        split at h
        · cases h
        · split at h <;> cases h

/-- one round of a query's life: the cookie state of the server it is sent to (arbitrary: other queries and time may
    have changed it), the local address, the instant, the random bytes, and the server's reply -/
structure Round where
  c : CookieSt
  ip : Addr
  now : TimeVal
  fresh : Bytes
  resp : Option Bytes
  rcode : Nat

/-- a query's life as far as cookies go: it is written with `ares_cookie_apply` over the transport `using_tcp`
    dictates, the reply goes through `ares_cookie_validate`; if that re-queues the query the next round follows.
    The value is the number of re-sends caused. -/
def resends : QState → ReqOpt → List Round → Nat
  | _, _, [] => 0
  | q, req, r :: rs =>
    let a := apply r.c ⟨r.ip, q.usingTcp⟩ r.now r.fresh req
    let v := validate a.ck q (cookieOf a.req) r.resp r.rcode r.now
    if v.requeue then 1 + resends v.q a.req rs else 0

theorem resends_bound (rs : List Round) : ∀ (q : QState) (req : ReqOpt),
    (COOKIE_RESEND_MAX ≤ q.cookieTry → q.usingTcp = true) →
    resends q req rs ≤ COOKIE_RESEND_MAX - min q.cookieTry COOKIE_RESEND_MAX := by
  induction rs with
  | nil => intro q req _; simp [resends]
  | cons r rs ih =>
    intro q req hq
    simp only [resends]
    split
    · rename_i hrq
      obtain ⟨hbc, hsome, hresp⟩ := requeue_only_badcookie _ _ _ _ _ _ hrq
      -- the request carried a cookie, hence it did not travel over TCP, hence fewer than RESEND_MAX tries so far
      have hnt : q.usingTcp = false := by
        by_cases ht : q.usingTcp = true
        · have := (never_on_tcp r.c ⟨r.ip, q.usingTcp⟩ r.now r.fresh req ht).1
          rw [this] at hsome; cases hsome
        · simpa using ht
      have hlt : q.cookieTry < COOKIE_RESEND_MAX := by
        by_cases h : COOKIE_RESEND_MAX ≤ q.cookieTry
        · rw [hq h] at hnt; cases hnt
        · omega
      -- shape of the response: a cookie is present, so the query state was bumped
      obtain ⟨b, hb⟩ := Option.isSome_iff_exists.mp hsome
      obtain ⟨rr, hrr⟩ := Option.isSome_iff_exists.mp hresp
      have hq' : (validate (apply r.c ⟨r.ip, q.usingTcp⟩ r.now r.fresh req).ck q
                   (cookieOf (apply r.c ⟨r.ip, q.usingTcp⟩ r.now r.fresh req).req) r.resp r.rcode r.now).q = bump q := by
        rw [hb, hrr, hbc]
        rw [hb, hrr, hbc] at hrq
        unfold validate at hrq ⊢
        rcases resp_classes b (some rr) with ⟨r', hr', hbad⟩ | ⟨r', hr', h1, h2, hp⟩ | ⟨r', hr', h1, h2, hp⟩ | hn
        · cases hr'; rw [validate_badlen _ _ _ _ _ _ _ hbad] at hrq; cases hrq
        · cases hr'; rw [validate_badclient _ _ _ _ _ _ _ h1 h2 hp] at hrq; cases hrq
        · cases hr'; rw [validate_server_badcookie _ _ _ _ _ _ h1 h2 hp]
        · rcases hn with hn | ⟨r', hn, h8, hp⟩
          · cases hn
          · cases hn; rw [validate_noserver_badcookie_some _ _ _ _ _ _ h8 hp]
      have := ih (bump q) (apply r.c ⟨r.ip, q.usingTcp⟩ r.now r.fresh req).req (by
        intro h; simp only [bump] at h ⊢; simp [h])
      rw [hq']
      simp only [bump] at this ⊢
      have hc := cookie_constants.2.2.1
      omega
    · omega

/-- **BADCOOKIE: at most three resends, then TCP.**  Whatever the server answers, whatever else happens to the
    server's cookie state in between, a query causes at most `COOKIE_RESEND_MAX` (= 3) cookie resends … -/
theorem badcookie_at_most_three_then_tcp (req : ReqOpt) (rs : List Round) :
    resends ⟨0, false⟩ req rs ≤ COOKIE_RESEND_MAX := by
  have := resends_bound rs ⟨0, false⟩ req (by intro h; simp [COOKIE_RESEND_MAX] at h)
  simpa using this

/-- `k` BADCOOKIE responses in a row -/
def bumpN : Nat → QState → QState
  | 0, q => q
  | k + 1, q => bumpN k (bump q)

/-- … and after the `COOKIE_RESEND_MAX`-th BADCOOKIE the query uses TCP (where no cookie is sent, `never_on_tcp`) -/
theorem badcookie_then_tcp (q : QState) (k : Nat) :
    (bumpN k q).cookieTry = q.cookieTry + k ∧
    ((bumpN k q).usingTcp = true ↔ (q.usingTcp = true ∨ (1 ≤ k ∧ COOKIE_RESEND_MAX ≤ q.cookieTry + k))) := by
  induction k generalizing q with
  | zero => simp [bumpN]
  | succ k ih =>
    simp only [bumpN]
    obtain ⟨h1, h2⟩ := ih (bump q)
    refine ⟨by rw [h1]; simp only [bump]; omega, ?_⟩
    have hb : (bump q).cookieTry = q.cookieTry + 1 := rfl
    have hbt : (bump q).usingTcp = true ↔ (q.usingTcp = true ∨ COOKIE_RESEND_MAX ≤ q.cookieTry + 1) := by
      simp [bump]
    rw [h2, hbt, hb]
    by_cases hu : q.usingTcp = true
    · simp [hu]
    · have hf : (q.usingTcp = true) = False := by simp [hu]
      simp only [hf, false_or]
      omega

/-! ## a server that never returns cookies is used without them -/

/-- no response in the history carries a COOKIE option -/
def NoCookieEver : List Ev → Prop
  | [] => True
  | .recv _ _ resp _ :: es => resp = none ∧ NoCookieEver es
  | _ :: es => NoCookieEver es

theorem not_supported_step (w : World) (e : Ev) (hs : w.ck.state ≠ .supported)
    (he : ∀ q rq resp rcode, e = .recv q rq resp rcode → resp = none) : (stepT w e).ck.state ≠ .supported := by
  cases e with
  | advance us => exact hs
  | send conn fresh req =>
    simp only [stepT, step]
    have hc := applyWith_cases timevalIsSet w.ck conn w.now fresh req
    simp only [] at hc
    rcases hc with ⟨_, h2, _⟩ | ⟨_, _, _, h2, _⟩ | ⟨_, _, _, hq, h2, _⟩ | ⟨_, _, _, _, h2, _⟩
    · rw [h2]; exact hs
    · rw [h2]; exact hs
    · rw [h2, quiet_regress _ _ _ hq]; exact hs
    · rw [h2]; intro h; exact hs (applyCore_sup _ _ _ _ _ h).1
  | recv q rq resp rcode =>
    simp only [stepT, step]
    have hn := he q rq resp rcode rfl
    subst hn
    have hc := validate_ck_cases timevalIsSet w.ck q rq none rcode w.now
    simp only [] at hc
    rcases hc with hc | ⟨_, _, _, hr, _⟩ | ⟨h, _⟩ | ⟨_, hc, _⟩
    · rw [hc]; exact hs
    · cases hr
    · exact absurd h hs
    · rw [hc]; simp

/-- **a server that never returns cookies is used without them.**  In every history in which no response carries a
    cookie the server never becomes SUPPORTED, hence (next theorem) none of its responses is dropped for lacking one -/
theorem never_cookie_server_never_supported (es : List Ev) : ∀ (w : World), w.ck.state ≠ .supported →
    NoCookieEver es → (runT w es).ck.state ≠ .supported := by
  induction es with
  | nil => intro w hs _; exact hs
  | cons e es ih =>
    intro w hs hn
    cases e with
    | advance us => exact ih _ (not_supported_step w _ hs (by intro _ _ _ _ h; cases h)) hn
    | send conn fresh req => exact ih _ (not_supported_step w _ hs (by intro _ _ _ _ h; cases h)) hn
    | recv q rq resp rcode =>
      exact ih _ (not_supported_step w _ hs (by intro _ _ _ _ h; cases h; exact hn.1)) hn.2

/-- outside SUPPORTED a response without COOKIE option is accepted unless it is a BADCOOKIE error (which without a
    cookie is illegal and dropped) -/
theorem cookieless_accepted_unless_supported (c : CookieSt) (q : QState) (rq : Option Bytes) (rcode : Nat)
    (now : TimeVal) (hs : c.state ≠ .supported) (hr : rcode ≠ RCODE_BADCOOKIE) :
    (validate c q rq none rcode now).verdict = .accept := by
  unfold validate
  cases rq with
  | none => rw [validate_noreq]; intro r h; cases h
  | some b =>
    rw [validate_noserver _ _ _ _ _ _ _ (Or.inl rfl) hr]
    unfold noServerOut
    simp only [hs, ↓reduceIte]
    split <;> rfl

theorem never_cookie_server_is_used_without (t0 : TimeVal) (es : List Ev) (hn : NoCookieEver es)
    (q : QState) (rq : Option Bytes) (rcode : Nat) (hr : rcode ≠ RCODE_BADCOOKIE) :
    let w := runT (World.init t0) es
    (validate w.ck q rq none rcode w.now).verdict = .accept := by
  intro w
  exact cookieless_accepted_unless_supported _ _ _ _ _
    (never_cookie_server_never_supported es _ (by simp [World.init, CookieSt.cleared]) hn) hr

/-- once the client has concluded that the server does not support cookies, requests leave without cookie until the
    retry timer (the regression constant, as coded) has expired -/
theorem unsupported_sends_no_cookie (c : CookieSt) (conn : Conn) (now : TimeVal) (fresh : Bytes) (req : ReqOpt)
    (hs : c.state = .unsupported) (he : expired c.unsupportedTs now COOKIE_REGRESSION_TIMEOUT_MS = false) :
    cookieOf (apply c conn now fresh req).req = none ∧ (apply c conn now fresh req).ck = c := by
  cases req with
  | none => simp [apply, applyWith, cookieOf]
  | some x =>
    by_cases ht : conn.tcp = true
    · simp [apply, applyWith, ht, cookieOf]
    · have h1 : regress timevalIsSet c now = c := by unfold regress; simp [hs]
      simp [apply, applyWith, ht, h1, quiet, hs, he, cookieOf]

/-! ## spoofing protection -/

/-- **bad client part dropped**: a response whose first 8 cookie bytes are not the client cookie of the request it
    answers is dropped and changes nothing -/
theorem bad_client_part_dropped (c : CookieSt) (q : QState) (rq r : Bytes) (rcode : Nat) (now : TimeVal)
    (hp : rq.take 8 ≠ r.take 8) :
    let o := validate c q (some rq) (some r) rcode now
    o.verdict = .drop ∧ o.ck = c ∧ o.q = q ∧ o.requeue = false := by
  intro o
  simp only [o, validate]
  by_cases hb : r.length < 8 ∨ 40 < r.length
  · rw [validate_badlen _ _ _ _ _ _ _ hb]; exact ⟨rfl, rfl, rfl, rfl⟩
  · rw [validate_badclient _ _ _ _ _ _ _ (by omega) (by omega) hp]; exact ⟨rfl, rfl, rfl, rfl⟩

/-- **only lengths 8..40**: a response cookie shorter than 8 or longer than 40 bytes is dropped and changes nothing,
    whatever request it answers -/
theorem length_8_to_40_only (c : CookieSt) (q : QState) (rq : Option Bytes) (r : Bytes) (rcode : Nat) (now : TimeVal)
    (h : r.length < 8 ∨ 40 < r.length) :
    validate c q rq (some r) rcode now = ⟨c, q, .drop, false, false⟩ :=
  validate_badlen _ _ _ _ _ _ _ h

/-- a cookie put on the wire always has 8..40 bytes, so the 8-byte comparisons never read past a request cookie -/
theorem no_oob_read (w : World) (hr : ReachT w) (q : QState) (rq resp : Option Bytes) (rcode : Nat)
    (hreq : rq ∈ w.sent) : (validate w.ck q rq resp rcode w.now).oob = false := by
  have inv := reach_inv timevalIsSet timeval_is_set_ok w hr
  unfold validate
  cases rq with
  | none =>
    by_cases hb : ∃ r, resp = some r ∧ (r.length < 8 ∨ 40 < r.length)
    · obtain ⟨r, hr, hb⟩ := hb
      subst hr; rw [validate_badlen _ _ _ _ _ _ _ hb]
    · rw [validate_noreq]
      intro r hr
      by_cases h1 : 8 ≤ r.length ∧ r.length ≤ 40
      · exact h1
      · exact absurd ⟨r, hr, by omega⟩ hb
  | some b =>
    have hb := (inv.sent_len b hreq).1
    have hoob : ∀ x, oobOf b x = false := by intro x; simp [oobOf]; omega
    rcases resp_classes b resp with ⟨r, hr, hbad⟩ | ⟨r, hr, h1, h2, hp⟩ | ⟨r, hr, h1, h2, hp⟩ | hn
    · subst hr; rw [validate_badlen _ _ _ _ _ _ _ hbad]
    · subst hr; rw [validate_badclient _ _ _ _ _ _ _ h1 h2 hp]; exact hoob _
    · subst hr
      by_cases hrc : rcode = RCODE_BADCOOKIE
      · subst hrc; rw [validate_server_badcookie _ _ _ _ _ _ h1 h2 hp]; exact hoob _
      · rw [validate_server_ok _ _ _ _ _ _ _ h1 h2 hp hrc]; exact hoob _
    · by_cases hrc : rcode = RCODE_BADCOOKIE
      · subst hrc
        rcases hn with hn | ⟨r, hn, h8, hp⟩
        · subst hn; rw [validate_noserver_badcookie_none]
        · subst hn; rw [validate_noserver_badcookie_some _ _ _ _ _ _ h8 hp]; exact hoob _
      · rw [validate_noserver _ _ _ _ _ _ _ hn hrc]
        unfold noServerOut
        split
        · exact hoob _
        · split <;> exact hoob _

/-- `ares_cookie_apply` draws random bytes at most once per call (so modelling "the 8 fresh bytes" as one argument
    loses nothing) -/
theorem apply_draws_le_one (c : CookieSt) (conn : Conn) (now : TimeVal) (fresh : Bytes) (req : ReqOpt)
    (hw : conn.selfIp.Wf) : (apply c conn now fresh req).draws ≤ 1 := by
  cases req with
  | none => simp [apply, applyWith]
  | some x =>
    by_cases ht : conn.tcp = true
    · simp [apply, applyWith, ht]
    · simp only [apply, applyWith, ht, Bool.false_eq_true, ↓reduceIte]
      split
      · simp
      · simp only []
        have hip : addrEqual conn.selfIp conn.selfIp = true := addr_equal_refl _ hw
        generalize hc2 : relearn (regress timevalIsSet c now) = c2
        by_cases hi : c2.state = .initial
        · -- generated now: address equal to itself, time stamp is now: neither of the other two fire
          have h3 : genInitial c2 conn now fresh = { generate c2 conn now fresh with state := .generated } := by
            simp [genInitial, hi]
          have h4 : ipChanged (genInitial c2 conn now fresh) conn = false := by
            rw [h3]; simp [ipChanged, generate, hip]
          have h5 : genIp (genInitial c2 conn now fresh) conn now fresh = genInitial c2 conn now fresh := by
            simp [genIp, h4]
          have h6 : rotationDue (genIp (genInitial c2 conn now fresh) conn now fresh) now = false := by
            rw [h5, h3]; simp [rotationDue]
          simp [hi, h4, h6]
        · have h3 : genInitial c2 conn now fresh = c2 := by simp [genInitial, hi]
          rw [h3]
          by_cases h4 : ipChanged c2 conn = true
          · have h5 : genIp c2 conn now fresh = generate (clearServer c2) conn now fresh := by simp [genIp, h4]
            have h6 : rotationDue (genIp c2 conn now fresh) now = false := by
              rw [h5]
              simp only [rotationDue, generate, clearServer, Bool.and_eq_false_imp]
              intro _
              simp only [expired, diffMs]
              simp only [Nat.lt_irrefl, ↓reduceIte, Int.sub_self]
              have : (now.usec + 1000000 - now.usec) / 1000 = 1000 := by omega
              rw [this]; decide
            simp [hi, h4, h6]
          · have h4' : ipChanged c2 conn = false := by simpa using h4
            simp only [hi, h4', ↓reduceIte, Bool.false_eq_true]
            split <;> simp

/-! ## the pinned tree (kernel-checked counterexamples) and non-vacuity -/

section Examples
def ip4 : Addr := ⟨AF_INET, [10, 0, 0, 100]⟩
def udp : Conn := ⟨ip4, false⟩
def c1 : Bytes := [1, 2, 3, 4, 5, 6, 7, 8]
def c2 : Bytes := [9, 9, 9, 9, 9, 9, 9, 9]
def srv : Bytes := [0xaa, 0xbb, 0xcc, 0xdd, 0xee, 0xff, 0, 0x11]

/-- a history on whole-second instants: support proven at 1000 s, first cookie-less response dropped at 1000 s, a
    second one at 1060 s, and a request sent at 1121 s — more than the regression period after the first drop -/
def f18History : List Ev :=
  [.send udp c1 (some none), .recv ⟨0, false⟩ (some c1) (some (c1 ++ srv)) 0, .send udp c2 (some none),
   .recv ⟨0, false⟩ (some (c1 ++ srv)) none 0, .advance 60000000,
   .recv ⟨0, false⟩ (some (c1 ++ srv)) none 0, .advance 61000000]

/-- F18 on the pinned tree (`timeval_is_set` with `&&`): after that history the state is still SUPPORTED with the old
    client cookie, so the server's cookie-less responses keep being dropped beyond the regression period … -/
theorem c17_f18_pinned_regression_never_ends :
    let w := run timevalIsSetAnd (World.init ⟨1000, 0⟩) f18History
    w.firstDrop = some ⟨1000, 0⟩ ∧ expired ⟨1000, 0⟩ w.now COOKIE_REGRESSION_TIMEOUT_MS = true ∧
    (applyWith timevalIsSetAnd w.ck udp w.now c2 (some none)).ck.state = .supported ∧
    (applyWith timevalIsSetAnd w.ck udp w.now c2 (some none)).req = some (some (c1 ++ srv)) := by decide

/-- … while with the repaired `||` the same history ends the way `regression_bounded` says -/
example :
    let w := run timevalIsSetOr (World.init ⟨1000, 0⟩) f18History
    w.firstDrop = some ⟨1000, 0⟩ ∧
    (applyWith timevalIsSetOr w.ck udp w.now c2 (some none)).ck.state = .generated ∧
    (applyWith timevalIsSetOr w.ck udp w.now c2 (some none)).req = some (some c2) := by decide

/-- F30-C17 on the pinned tree: two unknown local addresses (AF_UNSPEC, what a connection has when the socket functions
    provide no `getsockname`) never compare equal, so every request regenerates the client cookie -/
theorem c17_f30_pinned_unspec_never_equal :
    addrEqualWith false ⟨AF_UNSPEC, []⟩ ⟨AF_UNSPEC, []⟩ = false ∧
    addrEqualWith true ⟨AF_UNSPEC, []⟩ ⟨AF_UNSPEC, []⟩ = true := by decide

/-- non-vacuity: the hypotheses of `regression_bounded` are satisfiable by a reachable state … -/
example : ∃ w, ReachT w ∧ w.ck.state = .supported ∧ w.firstDrop = some ⟨1000, 0⟩ ∧
    expired ⟨1000, 0⟩ w.now COOKIE_REGRESSION_TIMEOUT_MS = true :=
  ⟨runT (World.init ⟨1000, 0⟩) f18History, ⟨⟨1000, 0⟩, f18History, by decide, by decide, rfl⟩, by decide, by decide,
   by decide⟩

/-- … a quiet run with several sends exists (client cookie stable, server cookie echoed) … -/
example :
    let w := runT (World.init ⟨1000, 5⟩) [.send udp c1 (some none), .recv ⟨0, false⟩ (some c1) (some (c1 ++ srv)) 0]
    InUse w.ck ∧ QuietRun w [.advance 5000000, .send udp c2 (some none), .recv ⟨0, false⟩ (some (c1 ++ srv)) none 0,
                             .send udp c2 (some none)] ∧
    (runT w [.advance 5000000, .send udp c2 (some none)]).sent.head? = some (some (c1 ++ srv)) := by decide

/-- … and a BADCOOKIE loop really reaches three resends -/
example : resends ⟨0, false⟩ (some none)
    (List.replicate 5 ⟨⟨.supported, c1, ⟨2000, 0⟩, ip4, [], .zero⟩, ip4, ⟨2000, 0⟩, c2,
                       some (c1 ++ srv), RCODE_BADCOOKIE⟩) = 3 := by decide
end Examples

end Cares.C17
