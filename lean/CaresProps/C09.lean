import CaresLemmas.ChanPolicyPicksExec
import CaresLemmas.ChanPolicyRank
import CaresLemmas.ChanPolicyProbe
import CaresLemmas.ChanPolicyProbe2Run
import CaresLemmas.ChanPolicyProbe2Frame
import CaresLemmas.ChanPolicyProbe2CountRun
import CaresLemmas.ChanPolicyProbe2Seq
import CaresLemmas.ChanPolicyProbe2Once
/-!
# C09 — Server selection follows the documented failover policy

Model: the channel model `Cares.Chan` (`CaresModel/Chan/Core.lean`): `St.sortedServers` (the `ares_slist` of servers,
`server_sort_cb`), `countBest` (`count_highest_prio_servers`), the choice in `bodySendQuery` (`ares_send_query`:
first, or `ares_random_server` among the best), `St.incFailures` / `St.setGood` (`server_increment_failures`,
`server_set_good`), `bodyProbe` (`ares_probe_failed_server`).  Free choices (the rotation draw, the probe lottery) come
from the observation `s.obs`; every theorem holds for all observations.

* `sortedServers_perm`, `sortedServers_sorted` — the priority list is a permutation of the configured servers sorted
  by `(failures, id)`; `sortedServers_strict`: strictly, when the ids are distinct.
* `picks_append_only`, `chosen_is_best` — for every fuel, call and state, the ghost pick log of the result extends the
  log of the start state, and every *new* entry `(key, chosen, requested, prio)` with `requested = false` (a fresh
  attempt, not a probe / same-server EDNS resend) satisfies `PickOk`: `prio` lists exactly the configured servers in
  priority order as they were at that moment, `chosen` has the minimal failure count among all of them, and without
  rotation it is the first such in configuration order (with rotation: one of the best, `chosen_among_countBest`).
* `failure_demotes`, `success_restores` — effect of a failure / success on the order (distinct ids assumed).
* `probe_only_when_eligible`, `sendNolock_probe_flags`, `requeue_noRetries_ends` — probes go only to a server with
  failures whose retry time has passed, that is not being probed and is not the user's server, only when
  `retryChance ≠ 0`; they are `noRetries` requests that bypass the cache and are never re-sent.
* whole runs (`exec fuel call s`): `probe_only_failed_servers_run` — the run with an assertion at every creation of a
  probe query (`execG`: the server has failures, its retry time has passed, the triggering request went to another
  server) is the run without assertions: no assertion ever fails; `probe_noninterference_run` — the completion of a
  probe query removes that query and changes nothing else any request can observe (frame form);
  `one_probe_per_send_partial` — on a channel without compound requests one `ares_send_nolock` creates at most two
  queries (the request and one probe; a probe's own send: one) plus two per request started by a callback reaction
  meanwhile; `send_query_probes_once` (every `go`): `ares_send_query` enters the lottery at most once, last;
  `failure_releases_probe_pending`, `failed_probe_releases_pending` — a server's failure clears `probe_pending` (F48-C09).
-/
namespace Cares.C09
open Cares.Chan

/-! ## the priority list -/

/-- the priority list is a permutation of the configured servers -/
theorem sortedServers_perm (s : St) : s.sortedServers.Perm s.servers := Cares.Chan.sortedServers_perm s

/-- sorted by `(failures, id)` -/
theorem sortedServers_sorted (s : St) : s.sortedServers.Pairwise srvLe := Cares.Chan.sortedServers_sorted s

/-- strictly sorted when the configuration indices are distinct (they are: `ares_servers_update` numbers them) -/
theorem sortedServers_strict (s : St) (h : s.IdsNodup) : s.sortedServers.Pairwise srvLt :=
  Cares.Chan.sortedServers_strict h

/-- position in the list = number of strictly better servers -/
theorem position_eq_better (s : St) (h : s.IdsNodup) (v : Server) (hv : v ∈ s.servers) :
    s.sortedServers[(s.better v).length]? = some v := Cares.Chan.position_eq_better h hv

/-! ## the choice -/

/-- the pick log is append-only, for every procedure, fuel and state -/
theorem picks_append_only (fuel : Nat) (c : Call) (s : St) : ∃ l, (exec fuel c s).1.picks = s.picks ++ l := by
  have h := (exec_pol (c0 := s.cfg) (n0 := s.now) (ids0 := s.servers.map Server.id) (p0 := s.picks) fuel c s
    ⟨⟨rfl, rfl, rfl⟩, [], by simp, by simp⟩).2
  obtain ⟨l, hl, _⟩ := h
  exact ⟨l, hl⟩

/-- **chosen_is_best**: every entry added to the pick log by any procedure run satisfies the failover policy
    (`PickOk`, with the configuration and the server identities of the start state — neither changes during a run:
    `exec_frame`). -/
theorem chosen_is_best (fuel : Nat) (c : Call) (s : St) :
    ∃ l, (exec fuel c s).1.picks = s.picks ++ l ∧ ∀ e ∈ l, PickOk s.cfg.rotate (s.servers.map (·.id)) e :=
  (exec_pol (c0 := s.cfg) (n0 := s.now) (ids0 := s.servers.map Server.id) (p0 := s.picks) fuel c s
    ⟨⟨rfl, rfl, rfl⟩, [], by simp, by simp⟩).2

/-- the frame used above: a run changes neither the configuration, nor the clock, nor the set of servers -/
theorem run_keeps_config (fuel : Nat) (c : Call) (s : St) :
    (exec fuel c s).1.cfg = s.cfg ∧ (exec fuel c s).1.now = s.now ∧
    (exec fuel c s).1.servers.map (·.id) = s.servers.map (·.id) :=
  exec_frame (c0 := s.cfg) (n0 := s.now) (ids0 := s.servers.map Server.id) fuel c s ⟨rfl, rfl, rfl⟩

/-- `PickOk` spelled out: the chosen server of a fresh attempt has the minimal failure count over all servers -/
theorem chosen_min_failures {rot : Bool} {ids : List Nat} {key chosen : Nat} {prio : List (Nat × Nat)}
    (h : PickOk rot ids (key, chosen, false, prio)) :
    (prio.map (·.1)).Perm ids ∧ ∃ f, (chosen, f) ∈ prio ∧ ∀ id f', (id, f') ∈ prio → f ≤ f' := by
  obtain ⟨hp, _, f, hm, hmin, _⟩ := h rfl
  exact ⟨hp, f, hm, fun id f' hm' => hmin (id, f') hm'⟩

/-- … and without rotation it is the first such in configuration order -/
theorem chosen_first_in_config_order {ids : List Nat} {key chosen : Nat} {prio : List (Nat × Nat)}
    (h : PickOk false ids (key, chosen, false, prio)) :
    ∃ f, (chosen, f) ∈ prio ∧ ∀ id, (id, f) ∈ prio → chosen ≤ id := by
  obtain ⟨_, _, f, hm, _, hfirst⟩ := h rfl
  exact ⟨f, hm, fun id hm' => hfirst rfl (id, f) hm' rfl⟩

/-- what `ares_send_query` logs, exactly: the priorities are those of the state it runs in, the server is a member
    of the priority list with the minimal failure count, the head of the list unless rotation is on, and with rotation
    its index is below `countBest` -/
theorem sendQuery_choice (s : St) (srv : Server) (s1 : St) (h : sqChoose none s = (some srv, s1)) :
    srv ∈ s.servers ∧ (∀ w ∈ s.servers, srv.failures ≤ w.failures) ∧
    (s.cfg.rotate = false → s.sortedServers.head? = some srv) ∧
    (s.cfg.rotate = true → ∃ i, i < countBest s.sortedServers ∧ s.sortedServers[i]? = some srv) := by
  obtain ⟨hm, hmin, hh⟩ := sqChoose_spec s srv s1 h
  refine ⟨mem_sortedServers.1 hm, fun w hw => hmin w (mem_sortedServers.2 hw), hh, ?_⟩
  intro hrot
  unfold sqChoose at h
  simp only [hrot, ↓reduceIte] at h
  split at h
  · simp at h
  · rename_i hn
    simp only [Prod.mk.injEq] at h
    refine ⟨_, Nat.mod_lt _ ?_, h.1⟩
    exact Nat.pos_of_ne_zero (by simpa using hn)

/-! ## success and failure -/

/-- **failure_demotes** (see `Cares.Chan.failure_demotes`) -/
theorem failure_demotes (s : St) (hn : s.IdsNodup) (id : Nat) (v : Server) (hv : s.server? id = some v) (tcp : Bool) :
    let s' := s.incFailures id tcp
    let v' := failedServer s v
    s'.IdsNodup ∧ v' ∈ s'.servers ∧ v'.failures = v.failures + 1 ∧
    (∀ w, w ∈ s'.servers ↔ w = v' ∨ (w ∈ s.servers ∧ w.id ≠ id)) ∧
    (s.better v).length ≤ (s'.better v').length ∧
    (∀ w ∈ s.servers, w.id ≠ id → w.failures ≤ v.failures → s'.precedes w v') ∧
    (∀ w ∈ s.servers, w.id ≠ id → s.precedes w v → s'.precedes w v') :=
  Cares.Chan.failure_demotes hn hv tcp

/-- **success_restores** (see `Cares.Chan.success_restores`) -/
theorem success_restores (s : St) (hn : s.IdsNodup) (id : Nat) (v : Server) (hv : s.server? id = some v) (tcp : Bool) :
    let s' := s.setGood id tcp
    let v' := goodServer v
    s'.IdsNodup ∧ v' ∈ s'.servers ∧ v'.failures = 0 ∧ (∀ w ∈ s'.servers, v'.failures ≤ w.failures) ∧
    (∀ w, w ∈ s'.servers ↔ w = v' ∨ (w ∈ s.servers ∧ w.id ≠ id)) ∧
    (s'.better v').length ≤ (s.better v).length ∧
    (∀ w ∈ s.servers, w.id ≠ id → (0 < w.failures ∨ id < w.id) → s'.precedes v' w) ∧
    (∀ w ∈ s'.servers, s'.precedes w v' → w.failures = 0 ∧ w.id < id) :=
  Cares.Chan.success_restores hn hv tcp

/-! ## probes -/

/-- **probe_only_when_eligible** -/
theorem probe_only_when_eligible (go : Call → St → St × Ret) (srvId key : Nat) (s : St) :
    (bodyProbe go srvId key s = (s, .ok) ∨ bodyProbe go srvId key s = (s.draw2.2, .ok)) ∨
    ∃ q pv, s.query? key = some q ∧ pv ∈ s.servers ∧ 0 < pv.failures ∧ pv.probePending = false ∧
      pv.nextRetry ≤ s.now ∧ pv.id ≠ srvId ∧ s.cfg.retryChance ≠ 0 ∧
      bodyProbe go srvId key s =
        ((go (.sendNolock (some pv.id) true true
              { name := q.name, qtype := q.qtype, qclass := q.qclass, rd := q.rd, edns := q.edns } .probe [])
            (s.draw2.2.modServer pv.id fun v => { v with probePending := true })).1, .ok) :=
  Cares.Chan.probe_only_when_eligible go srvId key s

/-- a probe request bypasses the cache and is created with `no_retries` -/
theorem probe_request_flags (go : Call → St → St × Ret) (reqSrv : Option Nat) (spec : ReqSpec) (s : St) :
    (∃ st s0, s0.cache = s.cache ∧
      bodySendNolock go reqSrv true true spec .probe [] s = ((go (.callback .probe [] st 0 none) s0).1, st)) ∨
    (∃ s', s'.cache = s.cache ∧
      (∃ q, s'.qs = s.qs ++ [q] ∧ q.key = s.nextKey ∧ q.noRetries = true ∧ q.tryCount = 0) ∧
      bodySendNolock go reqSrv true true spec .probe [] s = go (.sendQuery reqSrv s.nextKey) s') :=
  sendNolock_probe_flags go reqSrv true spec .probe [] s

/-- … and a `no_retries` request is never re-sent: `ares_requeue_query` ends it -/
theorem probe_never_resent (go : Call → St → St × Ret) (key : Nat) (st : Status) (inc : Bool)
    (rec : Option Reply) (deferred : Bool) (s : St) (q : Query) (hq : s.query? key = some q)
    (hnr : q.noRetries = true) :
    ∃ s' es, bodyRequeue go key st inc rec deferred s = ((go (.endQuery none key es rec) s').1, .timeout) :=
  requeue_noRetries_ends go key st inc rec deferred s q hq hnr

/-! ## non-vacuity: concrete runs (kernel-evaluated) -/

/-- three servers, server 0 has one failure -/
def exServers : List Server :=
  [{ id := 0, addr := "a", failures := 1 }, { id := 1, addr := "b" }, { id := 2, addr := "c" }]
def exSt : St := { alive := true, servers := exServers, obs := { rnd2 := [7, 9, 4, 11], rnd1 := [5] } }
def exSpec : ReqSpec := { name := "6578", qtype := 1 }

/-- a fresh request without rotation goes to server 1 — the first of the two servers without failures — and the log
    records the priorities `[(1,0), (2,0), (0,1)]` -/
example : (exec 60 (.sendNolock none false false exSpec (.user 1) []) exSt).1.picks =
    [(0, 1, false, [(1, 0), (2, 0), (0, 1)])] := by decide

/-- with rotation the observed draw 5 selects index `5 % countBest = 1`: server 2, one of the two best -/
example : (exec 60 (.sendNolock none false false exSpec (.user 1) []) { exSt with cfg := { rotate := true } }).1.picks =
    [(0, 2, false, [(1, 0), (2, 0), (0, 1)])] := by decide

/-- `PickOk` is not vacuous: picking server 2 without rotation violates it (server 1 has the same failure count and
    a smaller index) … -/
example : ¬ PickOk false [0, 1, 2] (0, 2, false, [(1, 0), (2, 0), (0, 1)]) := by
  intro h
  obtain ⟨_, _, f, hm, hmin, hfirst⟩ := h rfl
  have hf : f = 0 := by
    have := hmin (1, 0) (by simp)
    simpa using this
  subst hf
  have := hfirst rfl (1, 0) (by simp) rfl
  simp at this

/-- … and so does picking the failed server 0 -/
example : ¬ PickOk true [0, 1, 2] (0, 0, false, [(1, 0), (2, 0), (0, 1)]) := by
  intro h
  obtain ⟨_, _, f, hm, hmin, _⟩ := h rfl
  have hf : f = 0 := by
    have := hmin (1, 0) (by simp)
    simpa using this
  subst hf
  simp at hm

/-- with `retryChance = 1` the same request also sends a probe: a second request (key 1) explicitly to the failed
    server 0, owned by `probe`, with `no_retries`; server 0 is marked as being probed -/
example :
    let r := (exec 60 (.sendNolock none false false exSpec (.user 1) []) { exSt with cfg := { retryChance := 1 } }).1
    r.picks = [(0, 1, false, [(1, 0), (2, 0), (0, 1)]), (1, 0, true, [(1, 0), (2, 0), (0, 1)])] ∧
    r.qs.map (fun q => (q.key, q.noRetries, q.owner)) = [(0, false, .user 1), (1, true, .probe)] ∧
    r.servers.map (fun v => (v.id, v.probePending)) = [(0, true), (1, false), (2, false)] ∧
    r.outOfFuel = false ∧ r.modelFaults = [] := by decide

/-- a failure of server 1 moves it behind server 0 (tie on failures, larger index); a success of server 0 restores it
    to the front -/
example : (exSt.incFailures 1 false).sortedServers.map (·.id) = [2, 0, 1] ∧
    (exSt.setGood 0 false).sortedServers.map (·.id) = [0, 1, 2] ∧ exSt.IdsNodup := by
  unfold St.IdsNodup; decide

/-! ## probes over whole runs -/

/-- **probe_only_failed_servers_run.**  `execG` is `exec` with an assertion at the entry of every nested call
    (`guardGo`): a call `sendNolock … owner := probe` — the creation of a probe query — asserts `probeSendOk`
    (spelled out by `probe_guard_spec` below), a call `probe srvId key` (`ares_probe_failed_server`) asserts `trigOk`;
    a failed assertion aborts the run the way running out of fuel does (`probe_guard_failure_is_visible`).
    For every fuel, every call whose own entry assertion holds — every call other than those two, in particular every
    API-level one (`probeGuard_api`) — and every state, the two runs are equal: no assertion fails.  In particular
    a run that does not run out of fuel completes without a failed assertion. -/
theorem probe_only_failed_servers_run (fuel : Nat) (c : Call) (s : St) (hc : ProbeGuard c s = true) :
    execG fuel c s = exec fuel c s ∧
    ((exec fuel c s).1.outOfFuel = false → (execG fuel c s).1.outOfFuel = false) := by
  have h := execG_eq_exec fuel c s hc
  exact ⟨h, fun hf => by rw [h]; exact hf⟩

/-- what is asserted when a probe query is created: probing is configured (`retryChance ≠ 0`); a server with the
    requested id has failures, its retry time has passed at this moment, and it has just been marked as being probed;
    the most recent server choice in the pick log — the request that triggered the probe — was an ordinary attempt
    (no server requested) at a *different* server, one that had no failures.  The probe itself is sent with
    `nocache`, `noretry`, no reactions, to that server explicitly. -/
theorem probe_guard_spec (srv : Option Nat) (nocache noretry : Bool) (spec : ReqSpec) (react : List Nat) (s : St)
    (h : ProbeGuard (.sendNolock srv nocache noretry spec .probe react) s = true) :
    ∃ id, srv = some id ∧ nocache = true ∧ noretry = true ∧ react = [] ∧ s.cfg.retryChance ≠ 0 ∧
      (∃ v ∈ s.servers, v.id = id ∧ 0 < v.failures ∧ v.nextRetry ≤ s.now ∧ v.probePending = true) ∧
      ∃ key chosen prio, s.picks.getLast? = some (key, chosen, false, prio) ∧ chosen ≠ id ∧ (chosen, 0) ∈ prio :=
  probeGuard_spec srv nocache noretry spec react s h

/-- with distinct server indices (as `ares_servers_update` assigns them) the server found eligible is the one the
    probe is addressed to (`server? id`, what `ares_send_query` looks up for a requested server) -/
theorem probe_guard_server (id : Nat) (s : St) (hn : s.IdsNodup) (h : probeSendOk id s = true) :
    ∃ v, s.server? id = some v ∧ 0 < v.failures ∧ v.nextRetry ≤ s.now ∧ v.probePending = true :=
  probeSendOk_server id s hn h

/-- every call other than `probe` and a probe's `sendNolock` carries no assertion -/
theorem probeGuard_api (c : Call) (s : St) (h1 : ∀ a b, c ≠ .probe a b)
    (h2 : ∀ a b d e f, c ≠ .sendNolock a b d e .probe f) : ProbeGuard c s = true := by
  unfold ProbeGuard
  split
  · exact absurd rfl (h2 _ _ _ _ _)
  · exact absurd rfl (h1 _ _)
  · rfl

/-- a failed assertion sets the sticky flag `outOfFuel`, which the rest of the guarded run never clears -/
theorem probe_guard_failure_is_visible :
    (∀ go c s, ProbeGuard c s = false → (guardGo go c s).1.outOfFuel = true) ∧
    (∀ fuel c s, s.outOfFuel = true → (execG fuel c s).1.outOfFuel = true) :=
  ⟨guardGo_fail, execG_oof⟩

/-- **probe_noninterference_run** (frame form).  The completion of a probe query — `end_query` of a query owned by
    `probe`, with any status, any answer, from any state, run to its end — removes exactly that query from the store:
    every other query keeps all its fields; the pending and completed user tokens, the events, the query cache, the
    compound requests, the deferred-requeue array, the ghost logs and the fault logs are untouched (`SameOutcome`).
    (What a probe can do to other requests is confined to the servers' state — `probe_pending`, metrics — and to the
    connection it was attached to.  The stronger form "the user callbacks of a run do not depend on `retryChance`" is
    not a theorem of the model nor a property of the code: the lottery consumes random draws, and a probe whose
    write fails closes the connection it shares with other queries to that server — see the notes.) -/
theorem probe_noninterference_run (fuel : Nat) (srv : Option Nat) (key : Nat) (st : Status) (rec : Option Reply)
    (s : St) (q : Query) (hq : s.query? key = some q) (ho : q.owner = .probe) :
    let r := (exec fuel (.endQuery srv key st rec) s).1
    r.outOfFuel = false → r.qs = s.qs.filter (·.key != key) ∧ SameOutcome s r := by
  intro r hf
  by_cases h2 : fuel < 2
  · have := exec_endQuery_oof fuel h2 srv key st rec s q hq
    rw [this] at hf; cases hf
  · obtain ⟨n, rfl⟩ : ∃ n, fuel = n + 2 := ⟨fuel - 2, by omega⟩
    have e : r = endProbeSt srv key st rec q s := by
      show (exec (n + 2) (.endQuery srv key st rec) s).1 = _
      rw [exec_endQuery_probe n srv key st rec s q hq ho]
    rw [e]
    exact endProbeSt_frame srv key st rec q s

/-- … and the callback of a probe (`server_probe_cb`) is a no-op -/
theorem probe_callback_noop (fuel : Nat) (react : List Nat) (st : Status) (timeouts : Nat) (rec : Option Reply)
    (s : St) : exec (fuel + 1) (.callback .probe react st timeouts rec) s = (s, .ok) :=
  exec_callback_probe fuel react st timeouts rec s

/-- **failure_releases_probe_pending.**  `server_increment_failures` ends the server's probe episode: afterwards every
    server with that id has `probe_pending = false`, every other server is exactly as it was, and the ids (and their
    order) are unchanged.  (Finding F48-C09, repaired in `server_increment_failures`: the pinned C code cleared the
    flag only in `end_query(server ≠ NULL)`, and a failed probe is ended with `end_query(NULL)` — after one failed
    probe the server was never probed again.  Replay of the pinned run: `replay/stuck-probe.txt`.) -/
theorem failure_releases_probe_pending (s : St) (id : Nat) (tcp : Bool) :
    let s' := s.incFailures id tcp
    (∀ v ∈ s'.servers, v.id = id → v.probePending = false) ∧
    (∀ w : Server, w.id ≠ id → (w ∈ s'.servers ↔ w ∈ s.servers)) ∧
    s'.servers.map (·.id) = s.servers.map (·.id) :=
  incFailures_probePending s id tcp

/-- **failed_probe_releases_pending.**  Every way a probe fails counts a failure of the probed server and then hands
    the probe to `ares_requeue_query` — the time-out (`process_timeouts`, first conjunct, for every `go`), a
    connection that cannot be opened or a write that fails (`ares_send_query`; ECONNREFUSED on the write goes through
    `handle_conn_error` first: run `exShare` in `C09Runs.lean`).  Second conjunct, for every fuel and state: the whole
    run of that `requeue` on a probe (owner `probe`, `no_retries`) leaves the servers exactly as the failure left
    them, so when it completes the probed server has `probe_pending = false` and `ares_probe_failed_server` (which
    skips servers with the flag set, `probe_only_when_eligible`) can probe it again once its retry time has passed. -/
theorem failed_probe_releases_pending :
    (∀ (go : Call → St → St × Ret) (s : St) (key : Nat) (q : Query) (c : Conn),
      s.byTimeout.head? = some key → s.query? key = some q → expired s.now q.deadline = true →
      q.conn.bind s.conn? = some c →
      bodyProcessTimeouts go s = go .processTimeouts (go (.requeue key .timeout true none false)
        ((s.modQuery key fun q => { q with timeouts := q.timeouts + 1 }).incFailures c.srv q.usingTcp)).1) ∧
    (∀ (fuel key : Nat) (st : Status) (inc : Bool) (rec : Option Reply) (deferred : Bool) (s : St) (q : Query)
      (id : Nat) (tcp : Bool), s.query? key = some q → q.owner = .probe → q.noRetries = true →
      let s1 := s.incFailures id tcp
      let r := (exec fuel (.requeue key st inc rec deferred) s1).1
      r.outOfFuel = false → r.servers = s1.servers ∧ ∀ v ∈ r.servers, v.id = id → v.probePending = false) := by
  refine ⟨?_, ?_⟩
  · intro go s key q c hh hq he hc
    unfold bodyProcessTimeouts
    simp only [hh, hq, he, hc, Bool.not_true, Bool.false_eq_true, ↓reduceIte]
  · intro fuel key st inc rec deferred s q id tcp hq ho hnr s1 r hf
    have hsv : r.servers = s1.servers :=
      exec_requeue_probe_frame fuel key st inc rec deferred s1 q ((query?_incFailures s id tcp key).trans hq) ho hnr hf
    refine ⟨hsv, fun v hv => ?_⟩
    rw [hsv] at hv
    exact (incFailures_probePending s id tcp).1 v hv

/- **one_probe_per_send** (full statement): for every fuel and state, the run of one `sendNolock` creates at most one
   probe query *of its own* — not counting the queries created by the requests that completion callbacks start during
   the run (each of those is a `sendNolock` of its own, with a probe of its own).  Proved below for channels without a
   compound request (`ares_search` / `ares_getaddrinfo`: `clients = []`), with the requests started by callback
   *reactions* accounted for through the model's counter `reactSeq`.  Missing for the general case: the requests a
   compound request starts from its completion callback are not counted anywhere in the model's state, so the
   created queries cannot be attributed to the send that caused them. -/
/-- **one_probe_per_send_partial.**  Queries are numbered by `nextKey`, requests started by callback reactions by
    `reactSeq`.  On a channel without compound requests the whole run of one `ares_send_nolock` — every retry,
    connection failure, close, cancel and callback it causes included — creates at most two queries for itself (the
    request and one probe; with a requested server, as for a probe's own send, only the request) plus at most two for
    each request a reaction started during the run.  Without configured reactions: at most two (one) queries. -/
theorem one_probe_per_send_partial (fuel : Nat) (rs : Option Nat) (nocache noretry : Bool) (spec : ReqSpec)
    (owner : Owner) (react : List Nat) (s : St) (hc : s.clients = []) :
    let r := (exec fuel (.sendNolock rs nocache noretry spec owner react) s).1
    r.clients = [] ∧
    r.nextKey + 2 * s.reactSeq ≤ s.nextKey + (if rs.isSome then 1 else 2) + 2 * r.reactSeq ∧
    (s.reactions = [] → r.nextKey ≤ s.nextKey + (if rs.isSome then 1 else 2)) := by
  intro r
  obtain ⟨h1, h2⟩ := exec_sendNolock_count fuel rs nocache noretry spec owner react s hc
  refine ⟨h1, h2, fun hr => ?_⟩
  have h3 : r.reactSeq = s.reactSeq := (exec_reactSeq fuel _ s hr).2
  have h2' : r.nextKey + 2 * s.reactSeq ≤ s.nextKey + snBudget rs + 2 * r.reactSeq := h2
  rw [h3] at h2'
  show r.nextKey ≤ s.nextKey + snBudget rs
  omega

/-- the budgets behind it (no compound request, no reaction): `ares_send_query` creates at most one query — a probe —
    and only for an untried query without a requested server; `ares_probe_failed_server` at most one -/
theorem send_query_budget (fuel : Nat) (rs : Option Nat) (srvId key : Nat) (s : St) (hc : s.clients = [])
    (hr : s.reactions = []) :
    (exec fuel (.sendQuery rs key) s).1.nextKey ≤ s.nextKey + sqBudget rs key s ∧
    (exec fuel (.probe srvId key) s).1.nextKey ≤ s.nextKey + 1 := by
  have h1 := (exec_count (s.nextKey + sqBudget rs key s) s.reactSeq fuel (.sendQuery rs key) s 0 ⟨hc, by omega⟩).2
  have h2 := (exec_count (s.nextKey + 1) s.reactSeq fuel (.probe srvId key) s 0 ⟨hc, by omega⟩).2
  rw [(exec_reactSeq fuel _ s hr).2] at h1 h2
  constructor <;> omega

/-- **send_query_probes_once** (for every `go`, no hypothesis): `ares_send_query` consults the probe lottery at most
    once, as its very last step, and only for a request without a requested server that has not been tried before.
    `noProbe go` is `go` with the lottery switched off: the body either never calls `probe`, or it is the body without
    lottery followed by exactly one call `go (.probe srvId key)`.  Together with `probe_only_when_eligible` (the lottery
    makes at most one `sendNolock`, with a requested server — which therefore never enters the lottery itself) this is
    the call structure behind `one_probe_per_send_partial`. -/
theorem send_query_probes_once (go : Call → St → St × Ret) (reqSrv : Option Nat) (key : Nat) (s : St) :
    bodySendQuery go reqSrv key s = bodySendQuery (noProbe go) reqSrv key s ∨
    (reqSrv = none ∧ (∃ q, s.query? key = some q ∧ q.tryCount = 0) ∧
      (bodySendQuery (noProbe go) reqSrv key s).2 = .ok ∧
      ∃ srvId, bodySendQuery go reqSrv key s =
        ((go (.probe srvId key) (bodySendQuery (noProbe go) reqSrv key s).1).1, .ok)) :=
  bodySendQuery_once go reqSrv key s

/-! ### non-vacuity of the run theorems (more concrete runs: `CaresProps/C09Runs.lean`) -/

def exStP : St := { exSt with cfg := { retryChance := 1 } }

/-- the guarded run of the example (probe created for server 0) completes: every assertion on the way evaluates to
    true, and the probe exists at the end -/
example :
    let r := (execG 60 (.sendNolock none false false exSpec (.user 1) []) exStP).1
    r.outOfFuel = false ∧ r.qs.map (fun q => (q.key, q.owner)) = [(0, .user 1), (1, .probe)] ∧ r.nextKey = 2 := by
  decide

end Cares.C09
