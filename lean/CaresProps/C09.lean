import CaresLemmas.ChanPolicyPicksExec
import CaresLemmas.ChanPolicyRank
import CaresLemmas.ChanPolicyProbe
/-!
# C09 — Server selection follows the documented failover policy

Model: the channel model `Cares.Chan` (`CaresModel/Chan/Core.lean`): `St.sortedServers` (the `ares_slist` of servers,
`server_sort_cb`), `countBest` (`count_highest_prio_servers`), the choice in `bodySendQuery` (`ares_send_query`:
first, or `ares_random_server` among the best), `St.incFailures` / `St.setGood` (`server_increment_failures`,
`server_set_good`), `bodyProbe` (`ares_probe_failed_server`).  Free choices (the rotation draw, the probe lottery) come
from the observation `s.obs`; every theorem holds for all observations.

* `sortedServers_perm`, `sortedServers_sorted` — the priority list is a permutation of the configured servers sorted
  by `(failures, id)`; `sortedServers_strict`: strictly, when the ids are distinct.
* `picks_append_only`, `chosen_is_best` — for every fuel, call and state, the ghost pick log of the result extends the
  log of the start state, and every *new* entry `(key, chosen, requested, prio)` with `requested = false` (a fresh
  attempt, not a probe / same-server EDNS resend) satisfies `PickOk`: `prio` lists exactly the configured servers in
  priority order as they were at that moment, `chosen` has the minimal failure count among all of them, and without
  rotation it is the first such in configuration order (with rotation: one of the best, `chosen_among_countBest`).
* `failure_demotes`, `success_restores` — effect of a failure / success on the order (distinct ids assumed).
* `probe_only_when_eligible`, `sendNolock_probe_flags`, `requeue_noRetries_ends` — probes go only to a server with
  failures whose retry time has passed, that is not being probed and is not the user's server, only when
  `retryChance ≠ 0`; they are `noRetries` requests that bypass the cache and are never re-sent.
-/
namespace Cares.C09
open Cares.Chan

/-! ## the priority list -/

/-- the priority list is a permutation of the configured servers -/
theorem sortedServers_perm (s : St) : s.sortedServers.Perm s.servers := Cares.Chan.sortedServers_perm s

/-- sorted by `(failures, id)` -/
theorem sortedServers_sorted (s : St) : s.sortedServers.Pairwise srvLe := Cares.Chan.sortedServers_sorted s

/-- strictly sorted when the configuration indices are distinct (they are: `ares_servers_update` numbers them) -/
theorem sortedServers_strict (s : St) (h : s.IdsNodup) : s.sortedServers.Pairwise srvLt :=
  Cares.Chan.sortedServers_strict h

/-- position in the list = number of strictly better servers -/
theorem position_eq_better (s : St) (h : s.IdsNodup) (v : Server) (hv : v ∈ s.servers) :
    s.sortedServers[(s.better v).length]? = some v := Cares.Chan.position_eq_better h hv

/-! ## the choice -/

/-- the pick log is append-only, for every procedure, fuel and state -/
theorem picks_append_only (fuel : Nat) (c : Call) (s : St) : ∃ l, (exec fuel c s).1.picks = s.picks ++ l := by
  have h := (exec_pol (c0 := s.cfg) (n0 := s.now) (ids0 := s.servers.map Server.id) (p0 := s.picks) fuel c s
    ⟨⟨rfl, rfl, rfl⟩, [], by simp, by simp⟩).2
  obtain ⟨l, hl, _⟩ := h
  exact ⟨l, hl⟩

/-- **chosen_is_best**: every entry added to the pick log by any procedure run satisfies the failover policy
    (`PickOk`, with the configuration and the server identities of the start state — neither changes during a run:
    `exec_frame`). -/
theorem chosen_is_best (fuel : Nat) (c : Call) (s : St) :
    ∃ l, (exec fuel c s).1.picks = s.picks ++ l ∧ ∀ e ∈ l, PickOk s.cfg.rotate (s.servers.map (·.id)) e :=
  (exec_pol (c0 := s.cfg) (n0 := s.now) (ids0 := s.servers.map Server.id) (p0 := s.picks) fuel c s
    ⟨⟨rfl, rfl, rfl⟩, [], by simp, by simp⟩).2

/-- the frame used above: a run changes neither the configuration, nor the clock, nor the set of servers -/
theorem run_keeps_config (fuel : Nat) (c : Call) (s : St) :
    (exec fuel c s).1.cfg = s.cfg ∧ (exec fuel c s).1.now = s.now ∧
    (exec fuel c s).1.servers.map (·.id) = s.servers.map (·.id) :=
  exec_frame (c0 := s.cfg) (n0 := s.now) (ids0 := s.servers.map Server.id) fuel c s ⟨rfl, rfl, rfl⟩

/-- `PickOk` spelled out: the chosen server of a fresh attempt has the minimal failure count over all servers -/
theorem chosen_min_failures {rot : Bool} {ids : List Nat} {key chosen : Nat} {prio : List (Nat × Nat)}
    (h : PickOk rot ids (key, chosen, false, prio)) :
    (prio.map (·.1)).Perm ids ∧ ∃ f, (chosen, f) ∈ prio ∧ ∀ id f', (id, f') ∈ prio → f ≤ f' := by
  obtain ⟨hp, _, f, hm, hmin, _⟩ := h rfl
  exact ⟨hp, f, hm, fun id f' hm' => hmin (id, f') hm'⟩

/-- … and without rotation it is the first such in configuration order -/
theorem chosen_first_in_config_order {ids : List Nat} {key chosen : Nat} {prio : List (Nat × Nat)}
    (h : PickOk false ids (key, chosen, false, prio)) :
    ∃ f, (chosen, f) ∈ prio ∧ ∀ id, (id, f) ∈ prio → chosen ≤ id := by
  obtain ⟨_, _, f, hm, _, hfirst⟩ := h rfl
  exact ⟨f, hm, fun id hm' => hfirst rfl (id, f) hm' rfl⟩

/-- what `ares_send_query` logs, exactly: the priorities are those of the state it runs in, the server is a member
    of the priority list with the minimal failure count, the head of the list unless rotation is on, and with rotation
    its index is below `countBest` -/
theorem sendQuery_choice (s : St) (srv : Server) (s1 : St) (h : sqChoose none s = (some srv, s1)) :
    srv ∈ s.servers ∧ (∀ w ∈ s.servers, srv.failures ≤ w.failures) ∧
    (s.cfg.rotate = false → s.sortedServers.head? = some srv) ∧
    (s.cfg.rotate = true → ∃ i, i < countBest s.sortedServers ∧ s.sortedServers[i]? = some srv) := by
  obtain ⟨hm, hmin, hh⟩ := sqChoose_spec s srv s1 h
  refine ⟨mem_sortedServers.1 hm, fun w hw => hmin w (mem_sortedServers.2 hw), hh, ?_⟩
  intro hrot
  unfold sqChoose at h
  simp only [hrot, ↓reduceIte] at h
  split at h
  · simp at h
  · rename_i hn
    simp only [Prod.mk.injEq] at h
    refine ⟨_, Nat.mod_lt _ ?_, h.1⟩
    exact Nat.pos_of_ne_zero (by simpa using hn)

/-! ## success and failure -/

/-- **failure_demotes** (see `Cares.Chan.failure_demotes`) -/
theorem failure_demotes (s : St) (hn : s.IdsNodup) (id : Nat) (v : Server) (hv : s.server? id = some v) (tcp : Bool) :
    let s' := s.incFailures id tcp
    let v' := failedServer s v
    s'.IdsNodup ∧ v' ∈ s'.servers ∧ v'.failures = v.failures + 1 ∧
    (∀ w, w ∈ s'.servers ↔ w = v' ∨ (w ∈ s.servers ∧ w.id ≠ id)) ∧
    (s.better v).length ≤ (s'.better v').length ∧
    (∀ w ∈ s.servers, w.id ≠ id → w.failures ≤ v.failures → s'.precedes w v') ∧
    (∀ w ∈ s.servers, w.id ≠ id → s.precedes w v → s'.precedes w v') :=
  Cares.Chan.failure_demotes hn hv tcp

/-- **success_restores** (see `Cares.Chan.success_restores`) -/
theorem success_restores (s : St) (hn : s.IdsNodup) (id : Nat) (v : Server) (hv : s.server? id = some v) (tcp : Bool) :
    let s' := s.setGood id tcp
    let v' := goodServer v
    s'.IdsNodup ∧ v' ∈ s'.servers ∧ v'.failures = 0 ∧ (∀ w ∈ s'.servers, v'.failures ≤ w.failures) ∧
    (∀ w, w ∈ s'.servers ↔ w = v' ∨ (w ∈ s.servers ∧ w.id ≠ id)) ∧
    (s'.better v').length ≤ (s.better v).length ∧
    (∀ w ∈ s.servers, w.id ≠ id → (0 < w.failures ∨ id < w.id) → s'.precedes v' w) ∧
    (∀ w ∈ s'.servers, s'.precedes w v' → w.failures = 0 ∧ w.id < id) :=
  Cares.Chan.success_restores hn hv tcp

/-! ## probes -/

/-- **probe_only_when_eligible** -/
theorem probe_only_when_eligible (go : Call → St → St × Ret) (srvId key : Nat) (s : St) :
    (bodyProbe go srvId key s = (s, .ok) ∨ bodyProbe go srvId key s = (s.draw2.2, .ok)) ∨
    ∃ q pv, s.query? key = some q ∧ pv ∈ s.servers ∧ 0 < pv.failures ∧ pv.probePending = false ∧
      pv.nextRetry ≤ s.now ∧ pv.id ≠ srvId ∧ s.cfg.retryChance ≠ 0 ∧
      bodyProbe go srvId key s =
        ((go (.sendNolock (some pv.id) true true
              { name := q.name, qtype := q.qtype, qclass := q.qclass, rd := q.rd, edns := q.edns } .probe [])
            (s.draw2.2.modServer pv.id fun v => { v with probePending := true })).1, .ok) :=
  Cares.Chan.probe_only_when_eligible go srvId key s

/-- a probe request bypasses the cache and is created with `no_retries` -/
theorem probe_request_flags (go : Call → St → St × Ret) (reqSrv : Option Nat) (spec : ReqSpec) (s : St) :
    (∃ st s0, s0.cache = s.cache ∧
      bodySendNolock go reqSrv true true spec .probe [] s = ((go (.callback .probe [] st 0 none) s0).1, st)) ∨
    (∃ s', s'.cache = s.cache ∧
      (∃ q, s'.qs = s.qs ++ [q] ∧ q.key = s.nextKey ∧ q.noRetries = true ∧ q.tryCount = 0) ∧
      bodySendNolock go reqSrv true true spec .probe [] s = go (.sendQuery reqSrv s.nextKey) s') :=
  sendNolock_probe_flags go reqSrv true spec .probe [] s

/-- … and a `no_retries` request is never re-sent: `ares_requeue_query` ends it -/
theorem probe_never_resent (go : Call → St → St × Ret) (key : Nat) (st : Status) (inc : Bool)
    (rec : Option Reply) (deferred : Bool) (s : St) (q : Query) (hq : s.query? key = some q)
    (hnr : q.noRetries = true) :
    ∃ s' es, bodyRequeue go key st inc rec deferred s = ((go (.endQuery none key es rec) s').1, .timeout) :=
  requeue_noRetries_ends go key st inc rec deferred s q hq hnr

/-! ## non-vacuity: concrete runs (kernel-evaluated) -/

/-- three servers, server 0 has one failure -/
def exServers : List Server :=
  [{ id := 0, addr := "a", failures := 1 }, { id := 1, addr := "b" }, { id := 2, addr := "c" }]
def exSt : St := { alive := true, servers := exServers, obs := { rnd2 := [7, 9, 4, 11], rnd1 := [5] } }
def exSpec : ReqSpec := { name := "6578", qtype := 1 }

/-- a fresh request without rotation goes to server 1 — the first of the two servers without failures — and the log
    records the priorities `[(1,0), (2,0), (0,1)]` -/
example : (exec 60 (.sendNolock none false false exSpec (.user 1) []) exSt).1.picks =
    [(0, 1, false, [(1, 0), (2, 0), (0, 1)])] := by decide

/-- with rotation the observed draw 5 selects index `5 % countBest = 1`: server 2, one of the two best -/
example : (exec 60 (.sendNolock none false false exSpec (.user 1) []) { exSt with cfg := { rotate := true } }).1.picks =
    [(0, 2, false, [(1, 0), (2, 0), (0, 1)])] := by decide

/-- `PickOk` is not vacuous: picking server 2 without rotation violates it (server 1 has the same failure count and
    a smaller index) … -/
example : ¬ PickOk false [0, 1, 2] (0, 2, false, [(1, 0), (2, 0), (0, 1)]) := by
  intro h
  obtain ⟨_, _, f, hm, hmin, hfirst⟩ := h rfl
  have hf : f = 0 := by
    have := hmin (1, 0) (by simp)
    simpa using this
  subst hf
  have := hfirst rfl (1, 0) (by simp) rfl
  simp at this

/-- … and so does picking the failed server 0 -/
example : ¬ PickOk true [0, 1, 2] (0, 0, false, [(1, 0), (2, 0), (0, 1)]) := by
  intro h
  obtain ⟨_, _, f, hm, hmin, _⟩ := h rfl
  have hf : f = 0 := by
    have := hmin (1, 0) (by simp)
    simpa using this
  subst hf
  simp at hm

/-- with `retryChance = 1` the same request also sends a probe: a second request (key 1) explicitly to the failed
    server 0, owned by `probe`, with `no_retries`; server 0 is marked as being probed -/
example :
    let r := (exec 60 (.sendNolock none false false exSpec (.user 1) []) { exSt with cfg := { retryChance := 1 } }).1
    r.picks = [(0, 1, false, [(1, 0), (2, 0), (0, 1)]), (1, 0, true, [(1, 0), (2, 0), (0, 1)])] ∧
    r.qs.map (fun q => (q.key, q.noRetries, q.owner)) = [(0, false, .user 1), (1, true, .probe)] ∧
    r.servers.map (fun v => (v.id, v.probePending)) = [(0, true), (1, false), (2, false)] ∧
    r.outOfFuel = false ∧ r.modelFaults = [] := by decide

/-- a failure of server 1 moves it behind server 0 (tie on failures, larger index); a success of server 0 restores it
    to the front -/
example : (exSt.incFailures 1 false).sortedServers.map (·.id) = [2, 0, 1] ∧
    (exSt.setGood 0 false).sortedServers.map (·.id) = [0, 1, 2] ∧ exSt.IdsNodup := by
  unfold St.IdsNodup; decide

end Cares.C09
