import CaresLemmas.ChanPolicyPicksExec
import CaresLemmas.ChanPolicyRank
import CaresLemmas.ChanPolicyProbe
import CaresLemmas.ChanPolicyProbe2Run
import CaresLemmas.ChanPolicyProbe2Frame
import CaresLemmas.ChanPolicyProbe2CountRun
import CaresLemmas.ChanPolicyProbe2Seq
import CaresLemmas.ChanPolicyProbe2Once
import CaresLemmas.ChanPolicyProbe3Run
/-!
# C09 — Server selection follows the documented failover policy

Model: the channel model `Cares.Chan` (`CaresModel/Chan/Core.lean`): `St.sortedServers` (the `ares_slist` of servers,
`server_sort_cb`), `countBest` (`count_highest_prio_servers`), the choice in `bodySendQuery` (`ares_send_query`:
first, or `ares_random_server` among the best), `St.incFailures` / `St.setGood` (`server_increment_failures`,
`server_set_good`), `bodyProbe` (`ares_probe_failed_server`).  Free choices (the rotation draw, the probe lottery) come
from the observation `s.obs`; every theorem holds for all observations.

* `sortedServers_perm`, `sortedServers_sorted` — the priority list is a permutation of the configured servers sorted
  by `(failures, id)`; `sortedServers_strict`: strictly, when the ids are distinct.
* `picks_append_only`, `chosen_is_best` — for every fuel, call and state, the ghost pick log of the result extends the
  log of the start state, and every *new* entry `(key, chosen, requested, prio)` with `requested = false` (a fresh
  attempt, not a probe / same-server EDNS resend) satisfies `PickOk`: `prio` lists exactly the configured servers in
  priority order as they were at that moment, `chosen` has the minimal failure count among all of them, and without
  rotation it is the first such in configuration order (with rotation: one of the best, `chosen_among_countBest`).
* `failure_demotes`, `success_restores` — effect of a failure / success on the order (distinct ids assumed).
* `probe_only_when_eligible`, `sendNolock_probe_flags`, `requeue_noRetries_ends` — probes go only to a server with
  failures whose retry time has passed, that is not being probed and is not the user's server, only when
  `retryChance ≠ 0`; they are `noRetries` requests that bypass the cache and are never re-sent.
* whole runs (`exec fuel call s`): `probe_only_failed_servers_run` — the run with an assertion at every creation of a
  probe query (`execG`: the server has failures, its retry time has passed, the triggering request went to another
  server) is the run without assertions: no assertion ever fails; `probe_noninterference_run` — the completion of a
  probe query removes that query and changes nothing else any request can observe (frame form);
  `one_probe_per_send_partial` — on a channel without compound requests one `ares_send_nolock` creates at most two
  queries (the request and one probe; a probe's own send: one) plus two per request started by a callback reaction
  meanwhile; `send_query_probes_once` (every `go`): `ares_send_query` enters the lottery at most once, last;
  `failure_releases_probe_pending`, `failed_probe_releases_pending` — a server's failure clears `probe_pending` (F48-C09).
* the probe's completion callback releases the flag (F49-C09, repaired: `server_probe_cb` gets the probed server as its
  argument and resets `probe_pending` on every way a probe query can end): `probe_callback_releases` (closed form of
  the callback); `probe_pending_has_probe` — for every fuel, call and state, a completed run keeps the invariant
  `ProbeInv`: *a server is flagged only while a query owned by `probe <its id>` is stored*;
  `cancel_releases_probes` — after a completed `ares_cancel` every query that was linked is gone and a flagged server
  has a probe created during the cancel (none, when the callbacks start no request: then every flag is down);
  `probe_early_failure_releases` — the early failures of the probe's own `ares_send_nolock` reset the flag at once.
-/
namespace Cares.C09
open Cares.Chan

/-! ## the priority list -/

/-- the priority list is a permutation of the configured servers -/
theorem sortedServers_perm (s : St) : s.sortedServers.Perm s.servers := Cares.Chan.sortedServers_perm s

/-- sorted by `(failures, id)` -/
theorem sortedServers_sorted (s : St) : s.sortedServers.Pairwise srvLe := Cares.Chan.sortedServers_sorted s

/-- strictly sorted when the configuration indices are distinct (they are: `ares_servers_update` numbers them) -/
theorem sortedServers_strict (s : St) (h : s.IdsNodup) : s.sortedServers.Pairwise srvLt :=
  Cares.Chan.sortedServers_strict h

/-- position in the list = number of strictly better servers -/
theorem position_eq_better (s : St) (h : s.IdsNodup) (v : Server) (hv : v ∈ s.servers) :
    s.sortedServers[(s.better v).length]? = some v := Cares.Chan.position_eq_better h hv

/-! ## the choice -/

/-- the pick log is append-only, for every procedure, fuel and state -/
theorem picks_append_only (fuel : Nat) (c : Call) (s : St) : ∃ l, (exec fuel c s).1.picks = s.picks ++ l := by
  have h := (exec_pol (c0 := s.cfg) (n0 := s.now) (ids0 := s.servers.map Server.id) (p0 := s.picks) fuel c s
    ⟨⟨rfl, rfl, rfl⟩, [], by simp, by simp⟩).2
  obtain ⟨l, hl, _⟩ := h
  exact ⟨l, hl⟩

/-- **chosen_is_best**: every entry added to the pick log by any procedure run satisfies the failover policy
    (`PickOk`, with the configuration and the server identities of the start state — neither changes during a run:
    `exec_frame`). -/
theorem chosen_is_best (fuel : Nat) (c : Call) (s : St) :
    ∃ l, (exec fuel c s).1.picks = s.picks ++ l ∧ ∀ e ∈ l, PickOk s.cfg.rotate (s.servers.map (·.id)) e :=
  (exec_pol (c0 := s.cfg) (n0 := s.now) (ids0 := s.servers.map Server.id) (p0 := s.picks) fuel c s
    ⟨⟨rfl, rfl, rfl⟩, [], by simp, by simp⟩).2

/-- the frame used above: a run changes neither the configuration, nor the clock, nor the set of servers -/
theorem run_keeps_config (fuel : Nat) (c : Call) (s : St) :
    (exec fuel c s).1.cfg = s.cfg ∧ (exec fuel c s).1.now = s.now ∧
    (exec fuel c s).1.servers.map (·.id) = s.servers.map (·.id) :=
  exec_frame (c0 := s.cfg) (n0 := s.now) (ids0 := s.servers.map Server.id) fuel c s ⟨rfl, rfl, rfl⟩

/-- `PickOk` spelled out: the chosen server of a fresh attempt has the minimal failure count over all servers -/
theorem chosen_min_failures {rot : Bool} {ids : List Nat} {key chosen : Nat} {prio : List (Nat × Nat)}
    (h : PickOk rot ids (key, chosen, false, prio)) :
    (prio.map (·.1)).Perm ids ∧ ∃ f, (chosen, f) ∈ prio ∧ ∀ id f', (id, f') ∈ prio → f ≤ f' := by
  obtain ⟨hp, _, f, hm, hmin, _⟩ := h rfl
  exact ⟨hp, f, hm, fun id f' hm' => hmin (id, f') hm'⟩

/-- … and without rotation it is the first such in configuration order -/
theorem chosen_first_in_config_order {ids : List Nat} {key chosen : Nat} {prio : List (Nat × Nat)}
    (h : PickOk false ids (key, chosen, false, prio)) :
    ∃ f, (chosen, f) ∈ prio ∧ ∀ id, (id, f) ∈ prio → chosen ≤ id := by
  obtain ⟨_, _, f, hm, _, hfirst⟩ := h rfl
  exact ⟨f, hm, fun id hm' => hfirst rfl (id, f) hm' rfl⟩

/-- what `ares_send_query` logs, exactly: the priorities are those of the state it runs in, the server is a member
    of the priority list with the minimal failure count, the head of the list unless rotation is on, and with rotation
    its index is below `countBest` -/
theorem sendQuery_choice (s : St) (srv : Server) (s1 : St) (h : sqChoose none s = (some srv, s1)) :
    srv ∈ s.servers ∧ (∀ w ∈ s.servers, srv.failures ≤ w.failures) ∧
    (s.cfg.rotate = false → s.sortedServers.head? = some srv) ∧
    (s.cfg.rotate = true → ∃ i, i < countBest s.sortedServers ∧ s.sortedServers[i]? = some srv) := by
  obtain ⟨hm, hmin, hh⟩ := sqChoose_spec s srv s1 h
  refine ⟨mem_sortedServers.1 hm, fun w hw => hmin w (mem_sortedServers.2 hw), hh, ?_⟩
  intro hrot
  unfold sqChoose at h
  simp only [hrot, ↓reduceIte] at h
  split at h
  · simp at h
  · rename_i hn
    simp only [Prod.mk.injEq] at h
    refine ⟨_, Nat.mod_lt _ ?_, h.1⟩
    exact Nat.pos_of_ne_zero (by simpa using hn)

/-! ## success and failure -/

/-- **failure_demotes** (see `Cares.Chan.failure_demotes`) -/
theorem failure_demotes (s : St) (hn : s.IdsNodup) (id : Nat) (v : Server) (hv : s.server? id = some v) (tcp : Bool) :
    let s' := s.incFailures id tcp
    let v' := failedServer s v
    s'.IdsNodup ∧ v' ∈ s'.servers ∧ v'.failures = v.failures + 1 ∧
    (∀ w, w ∈ s'.servers ↔ w = v' ∨ (w ∈ s.servers ∧ w.id ≠ id)) ∧
    (s.better v).length ≤ (s'.better v').length ∧
    (∀ w ∈ s.servers, w.id ≠ id → w.failures ≤ v.failures → s'.precedes w v') ∧
    (∀ w ∈ s.servers, w.id ≠ id → s.precedes w v → s'.precedes w v') :=
  Cares.Chan.failure_demotes hn hv tcp

/-- **success_restores** (see `Cares.Chan.success_restores`) -/
theorem success_restores (s : St) (hn : s.IdsNodup) (id : Nat) (v : Server) (hv : s.server? id = some v) (tcp : Bool) :
    let s' := s.setGood id tcp
    let v' := goodServer v
    s'.IdsNodup ∧ v' ∈ s'.servers ∧ v'.failures = 0 ∧ (∀ w ∈ s'.servers, v'.failures ≤ w.failures) ∧
    (∀ w, w ∈ s'.servers ↔ w = v' ∨ (w ∈ s.servers ∧ w.id ≠ id)) ∧
    (s'.better v').length ≤ (s.better v).length ∧
    (∀ w ∈ s.servers, w.id ≠ id → (0 < w.failures ∨ id < w.id) → s'.precedes v' w) ∧
    (∀ w ∈ s'.servers, s'.precedes w v' → w.failures = 0 ∧ w.id < id) :=
  Cares.Chan.success_restores hn hv tcp

/-! ## probes -/

/-- **probe_only_when_eligible** -/
theorem probe_only_when_eligible (go : Call → St → St × Ret) (srvId key : Nat) (s : St) :
    (bodyProbe go srvId key s = (s, .ok) ∨ bodyProbe go srvId key s = (s.draw2.2, .ok)) ∨
    ∃ q pv, s.query? key = some q ∧ pv ∈ s.servers ∧ 0 < pv.failures ∧ pv.probePending = false ∧
      pv.nextRetry ≤ s.now ∧ pv.id ≠ srvId ∧ s.cfg.retryChance ≠ 0 ∧
      bodyProbe go srvId key s =
        ((go (.sendNolock (some pv.id) true true
              { name := q.name, qtype := q.qtype, qclass := q.qclass, rd := q.rd, edns := q.edns } (.probe pv.id) [])
            (s.draw2.2.modServer pv.id fun v => { v with probePending := true })).1, .ok) :=
  Cares.Chan.probe_only_when_eligible go srvId key s

/-- a probe request bypasses the cache and is created with `no_retries` -/
theorem probe_request_flags (go : Call → St → St × Ret) (reqSrv : Option Nat) (spec : ReqSpec) (pid : Nat) (s : St) :
    (∃ st s0, s0.cache = s.cache ∧
      bodySendNolock go reqSrv true true spec (.probe pid) [] s =
        ((go (.callback (.probe pid) [] st 0 none) s0).1, st)) ∨
    (∃ s', s'.cache = s.cache ∧
      (∃ q, s'.qs = s.qs ++ [q] ∧ q.key = s.nextKey ∧ q.noRetries = true ∧ q.tryCount = 0) ∧
      bodySendNolock go reqSrv true true spec (.probe pid) [] s = go (.sendQuery reqSrv s.nextKey) s') :=
  sendNolock_probe_flags go reqSrv true spec (.probe pid) [] s

/-- … and a `no_retries` request is never re-sent: `ares_requeue_query` ends it -/
theorem probe_never_resent (go : Call → St → St × Ret) (key : Nat) (st : Status) (inc : Bool)
    (rec : Option Reply) (deferred : Bool) (s : St) (q : Query) (hq : s.query? key = some q)
    (hnr : q.noRetries = true) :
    ∃ s' es, bodyRequeue go key st inc rec deferred s = ((go (.endQuery none key es rec) s').1, .timeout) :=
  requeue_noRetries_ends go key st inc rec deferred s q hq hnr

/-! ## non-vacuity: concrete runs (kernel-evaluated) -/

/-- three servers, server 0 has one failure -/
def exServers : List Server :=
  [{ id := 0, addr := "a", failures := 1 }, { id := 1, addr := "b" }, { id := 2, addr := "c" }]
def exSt : St := { alive := true, servers := exServers, obs := { rnd2 := [7, 9, 4, 11], rnd1 := [5] } }
def exSpec : ReqSpec := { name := "6578", qtype := 1 }

/-- a fresh request without rotation goes to server 1 — the first of the two servers without failures — and the log
    records the priorities `[(1,0), (2,0), (0,1)]` -/
example : (exec 60 (.sendNolock none false false exSpec (.user 1) []) exSt).1.picks =
    [(0, 1, false, [(1, 0), (2, 0), (0, 1)])] := by decide

/-- with rotation the observed draw 5 selects index `5 % countBest = 1`: server 2, one of the two best -/
example : (exec 60 (.sendNolock none false false exSpec (.user 1) []) { exSt with cfg := { rotate := true } }).1.picks =
    [(0, 2, false, [(1, 0), (2, 0), (0, 1)])] := by decide

/-- `PickOk` is not vacuous: picking server 2 without rotation violates it (server 1 has the same failure count and
    a smaller index) … -/
example : ¬ PickOk false [0, 1, 2] (0, 2, false, [(1, 0), (2, 0), (0, 1)]) := by
  intro h
  obtain ⟨_, _, f, hm, hmin, hfirst⟩ := h rfl
  have hf : f = 0 := by
    have := hmin (1, 0) (by simp)
    simpa using this
  subst hf
  have := hfirst rfl (1, 0) (by simp) rfl
  simp at this

/-- … and so does picking the failed server 0 -/
example : ¬ PickOk true [0, 1, 2] (0, 0, false, [(1, 0), (2, 0), (0, 1)]) := by
  intro h
  obtain ⟨_, _, f, hm, hmin, _⟩ := h rfl
  have hf : f = 0 := by
    have := hmin (1, 0) (by simp)
    simpa using this
  subst hf
  simp at hm

/-- with `retryChance = 1` the same request also sends a probe: a second request (key 1) explicitly to the failed
    server 0, owned by `probe 0` (the callback's argument is the probed server), with `no_retries`; server 0 is marked
    as being probed -/
example :
    let r := (exec 60 (.sendNolock none false false exSpec (.user 1) []) { exSt with cfg := { retryChance := 1 } }).1
    r.picks = [(0, 1, false, [(1, 0), (2, 0), (0, 1)]), (1, 0, true, [(1, 0), (2, 0), (0, 1)])] ∧
    r.qs.map (fun q => (q.key, q.noRetries, q.owner)) = [(0, false, .user 1), (1, true, .probe 0)] ∧
    r.servers.map (fun v => (v.id, v.probePending)) = [(0, true), (1, false), (2, false)] ∧
    r.outOfFuel = false ∧ r.modelFaults = [] := by decide

/-- a failure of server 1 moves it behind server 0 (tie on failures, larger index); a success of server 0 restores it
    to the front -/
example : (exSt.incFailures 1 false).sortedServers.map (·.id) = [2, 0, 1] ∧
    (exSt.setGood 0 false).sortedServers.map (·.id) = [0, 1, 2] ∧ exSt.IdsNodup := by
  unfold St.IdsNodup; decide

/-! ## probes over whole runs -/

/-- **probe_only_failed_servers_run.**  `execG` is `exec` with an assertion at the entry of every nested call
    (`guardGo`): a call `sendNolock … owner := probe pid` — the creation of a probe query — asserts `probeSendOk`
    and that `pid`, the callback's argument, is the server the probe is addressed to (spelled out by
    `probe_guard_spec` below), a call `probe srvId key` (`ares_probe_failed_server`) asserts `trigOk`;
    a failed assertion aborts the run the way running out of fuel does (`probe_guard_failure_is_visible`).
    For every fuel, every call whose own entry assertion holds — every call other than those two, in particular every
    API-level one (`probeGuard_api`) — and every state, the two runs are equal: no assertion fails.  In particular
    a run that does not run out of fuel completes without a failed assertion. -/
theorem probe_only_failed_servers_run (fuel : Nat) (c : Call) (s : St) (hc : ProbeGuard c s = true) :
    execG fuel c s = exec fuel c s ∧
    ((exec fuel c s).1.outOfFuel = false → (execG fuel c s).1.outOfFuel = false) := by
  have h := execG_eq_exec fuel c s hc
  exact ⟨h, fun hf => by rw [h]; exact hf⟩

/-- what is asserted when a probe query is created: probing is configured (`retryChance ≠ 0`); a server with the
    requested id has failures, its retry time has passed at this moment, and it has just been marked as being probed;
    the most recent server choice in the pick log — the request that triggered the probe — was an ordinary attempt
    (no server requested) at a *different* server, one that had no failures.  The probe itself is sent with
    `nocache`, `noretry`, no reactions, to that server explicitly, and its callback will release that same server
    (`pid = id`). -/
theorem probe_guard_spec (srv : Option Nat) (nocache noretry : Bool) (spec : ReqSpec) (pid : Nat) (react : List Nat)
    (s : St) (h : ProbeGuard (.sendNolock srv nocache noretry spec (.probe pid) react) s = true) :
    ∃ id, srv = some id ∧ pid = id ∧ nocache = true ∧ noretry = true ∧ react = [] ∧ s.cfg.retryChance ≠ 0 ∧
      (∃ v ∈ s.servers, v.id = id ∧ 0 < v.failures ∧ v.nextRetry ≤ s.now ∧ v.probePending = true) ∧
      ∃ key chosen prio, s.picks.getLast? = some (key, chosen, false, prio) ∧ chosen ≠ id ∧ (chosen, 0) ∈ prio :=
  probeGuard_spec srv nocache noretry spec pid react s h

/-- with distinct server indices (as `ares_servers_update` assigns them) the server found eligible is the one the
    probe is addressed to (`server? id`, what `ares_send_query` looks up for a requested server) -/
theorem probe_guard_server (id : Nat) (s : St) (hn : s.IdsNodup) (h : probeSendOk id s = true) :
    ∃ v, s.server? id = some v ∧ 0 < v.failures ∧ v.nextRetry ≤ s.now ∧ v.probePending = true :=
  probeSendOk_server id s hn h

/-- every call other than `probe` and a probe's `sendNolock` carries no assertion -/
theorem probeGuard_api (c : Call) (s : St) (h1 : ∀ a b, c ≠ .probe a b)
    (h2 : ∀ a b d e p f, c ≠ .sendNolock a b d e (.probe p) f) : ProbeGuard c s = true := by
  unfold ProbeGuard
  split
  · exact absurd rfl (h2 _ _ _ _ _ _)
  · exact absurd rfl (h1 _ _)
  · rfl

/-- a failed assertion sets the sticky flag `outOfFuel`, which the rest of the guarded run never clears -/
theorem probe_guard_failure_is_visible :
    (∀ go c s, ProbeGuard c s = false → (guardGo go c s).1.outOfFuel = true) ∧
    (∀ fuel c s, s.outOfFuel = true → (execG fuel c s).1.outOfFuel = true) :=
  ⟨guardGo_fail, execG_oof⟩

/-- **probe_noninterference_run** (frame form).  The completion of a probe query — `end_query` of a query owned by
    `probe`, with any status, any answer, from any state, run to its end — removes exactly that query from the store:
    every other query keeps all its fields; the pending and completed user tokens, the events, the query cache, the
    compound requests, the deferred-requeue array, the ghost logs and the fault logs are untouched (`SameOutcome`).
    (What a probe can do to other requests is confined to the servers' state — `probe_pending`, metrics — and to the
    connection it was attached to.  The stronger form "the user callbacks of a run do not depend on `retryChance`" is
    not a theorem of the model nor a property of the code: the lottery consumes random draws, and a probe whose
    write fails closes the connection it shares with other queries to that server — see the notes.) -/
theorem probe_noninterference_run (fuel : Nat) (srv : Option Nat) (key : Nat) (st : Status) (rec : Option Reply)
    (s : St) (q : Query) (pid : Nat) (hq : s.query? key = some q) (ho : q.owner = .probe pid) :
    let r := (exec fuel (.endQuery srv key st rec) s).1
    r.outOfFuel = false → r.qs = s.qs.filter (·.key != key) ∧ SameOutcome s r := by
  intro r hf
  by_cases h2 : fuel < 2
  · have := exec_endQuery_oof fuel h2 srv key st rec s q hq
    rw [this] at hf; cases hf
  · obtain ⟨n, rfl⟩ : ∃ n, fuel = n + 2 := ⟨fuel - 2, by omega⟩
    have e : r = endProbeSt pid srv key st rec q s := by
      show (exec (n + 2) (.endQuery srv key st rec) s).1 = _
      rw [exec_endQuery_probe n srv key st rec s q pid hq ho]
    rw [e]
    exact endProbeSt_frame pid srv key st rec q s

/-- … and the callback of a probe (`server_probe_cb`, whose argument is the probed server `pid`) does exactly one
    thing, whatever the status it is called with and whoever calls it (`end_query`, the walk of `ares_cancel` /
    `ares_destroy`, an early failure inside the probe's own `ares_send_nolock`): it resets `probe_pending` of every
    server record with id `pid`.  Every other server record is untouched, no flag is set, the ids keep their order, and
    nothing outside `servers` changes (`SameOutcome`, and literally: the result is `s` with that one field rewritten).
    (Repair of finding F49-C09; before it the callback was a no-op — `probe_callback_noop` — and a probe ended
    without `end_query` left the flag set for good.) -/
theorem probe_callback_releases (fuel : Nat) (pid : Nat) (react : List Nat) (st : Status) (timeouts : Nat)
    (rec : Option Reply) (s : St) :
    let r := exec (fuel + 1) (.callback (.probe pid) react st timeouts rec) s
    r = ({ s with servers := s.servers.map fun v => if v.id == pid then { v with probePending := false } else v }, .ok) ∧
    (∀ v ∈ r.1.servers, v.id = pid → v.probePending = false) ∧
    (∀ w : Server, w.id ≠ pid → (w ∈ r.1.servers ↔ w ∈ s.servers)) ∧
    (∀ v ∈ r.1.servers, v.probePending = true → ∃ w ∈ s.servers, w.id = v.id ∧ w.probePending = true) ∧
    r.1.servers.map (·.id) = s.servers.map (·.id) ∧ SameOutcome s r.1 := by
  intro r
  have e : r = (releaseProbe pid s, .ok) := exec_callback_probe fuel pid react st timeouts rec s
  obtain ⟨h1, h2, h3, h4⟩ := releaseProbe_spec pid s
  rw [e]
  exact ⟨rfl, h1, h2, h3, h4, SameOutcome.releaseProbe pid s⟩

/-- **failure_releases_probe_pending.**  `server_increment_failures` ends the server's probe episode: afterwards every
    server with that id has `probe_pending = false`, every other server is exactly as it was, and the ids (and their
    order) are unchanged.  (Finding F48-C09, repaired in `server_increment_failures`: the pinned C code cleared the
    flag only in `end_query(server ≠ NULL)`, and a failed probe is ended with `end_query(NULL)` — after one failed
    probe the server was never probed again.  Replay of the pinned run: `replay/stuck-probe.txt`.) -/
theorem failure_releases_probe_pending (s : St) (id : Nat) (tcp : Bool) :
    let s' := s.incFailures id tcp
    (∀ v ∈ s'.servers, v.id = id → v.probePending = false) ∧
    (∀ w : Server, w.id ≠ id → (w ∈ s'.servers ↔ w ∈ s.servers)) ∧
    s'.servers.map (·.id) = s.servers.map (·.id) :=
  incFailures_probePending s id tcp

/-- **failed_probe_releases_pending.**  Every way a probe fails counts a failure of the probed server and then hands
    the probe to `ares_requeue_query` — the time-out (`process_timeouts`, first conjunct, for every `go`), a
    connection that cannot be opened or a write that fails (`ares_send_query`; ECONNREFUSED on the write goes through
    `handle_conn_error` first: run `exShare` in `C09Runs.lean`).  Second conjunct, for every fuel and state: the whole
    run of that `requeue` on a probe (owner `probe pid`, `no_retries`) leaves the servers as the failure left them
    except that the probe's callback resets `probe_pending` of the probed server `pid` too (since the repair of
    F49-C09; `id = pid` on these paths), so when it completes the failed and the probed server have
    `probe_pending = false` and `ares_probe_failed_server` (which skips servers with the flag set,
    `probe_only_when_eligible`) can probe again once the retry time has passed. -/
theorem failed_probe_releases_pending :
    (∀ (go : Call → St → St × Ret) (s : St) (key : Nat) (q : Query) (c : Conn),
      s.byTimeout.head? = some key → s.query? key = some q → expired s.now q.deadline = true →
      q.conn.bind s.conn? = some c →
      bodyProcessTimeouts go s = go .processTimeouts (go (.requeue key .timeout true none false)
        ((s.modQuery key fun q => { q with timeouts := q.timeouts + 1 }).incFailures c.srv q.usingTcp)).1) ∧
    (∀ (fuel key : Nat) (st : Status) (inc : Bool) (rec : Option Reply) (deferred : Bool) (s : St) (q : Query)
      (id pid : Nat) (tcp : Bool), s.query? key = some q → q.owner = .probe pid → q.noRetries = true →
      let s1 := s.incFailures id tcp
      let r := (exec fuel (.requeue key st inc rec deferred) s1).1
      r.outOfFuel = false →
        r.servers = s1.servers.map (fun v => if v.id == pid then { v with probePending := false } else v) ∧
        ∀ v ∈ r.servers, v.id = id ∨ v.id = pid → v.probePending = false) := by
  refine ⟨?_, ?_⟩
  · intro go s key q c hh hq he hc
    unfold bodyProcessTimeouts
    simp only [hh, hq, he, hc, Bool.not_true, Bool.false_eq_true, ↓reduceIte]
  · intro fuel key st inc rec deferred s q id pid tcp hq ho hnr s1 r hf
    have hsv : r.servers = (releaseProbe pid s1).servers :=
      exec_requeue_probe_frame fuel key st inc rec deferred s1 q pid
        ((query?_incFailures s id tcp key).trans hq) ho hnr hf
    refine ⟨hsv, fun v hv hid => ?_⟩
    rw [hsv] at hv
    obtain ⟨h1, h2, _, _⟩ := releaseProbe_spec pid s1
    by_cases hp : v.id = pid
    · exact h1 v hv hp
    · rcases hid with hid | hid
      · exact (incFailures_probePending s id tcp).1 v ((h2 v hp).1 hv) hid
      · exact absurd hid hp

/-! ### F49-C09 (repaired): the probe's callback releases `probe_pending` on every way the probe can end -/

/-- **probe_pending_has_probe.**  `ProbeInv s` (`= ProbeInvH none s`): every stored query has a key below the
    allocation counter, and every server flagged `probe_pending` has a stored query owned by `probe <its id>`.
    For every fuel, every call and every state: a completed run keeps it (and the key counter never decreases).
    `preHole c` is `none` for every call except the two that belong to a probe episode itself — the probe's own
    `ares_send_nolock` and the probe's completion callback, `preHole = some <probed server>`: those may be entered with
    the flag of *that* server set and no query for it (`ares_probe_failed_server` sets the flag first; `ares_cancel`
    releases the query before the callback) and they too leave with the full invariant: the query now exists, or
    `server_probe_cb` has reset the flag.  This is the repaired property behind F49-C09: before the repair a probe
    ended by `ares_cancel` or by an early failure of its `ares_send_nolock` left the flag set with no probe query
    anywhere, for good. -/
theorem probe_pending_has_probe (fuel : Nat) (c : Call) (s : St) (h : ProbeInvH (preHole c) s) :
    let r := (exec fuel c s).1
    r.outOfFuel = false → ProbeInv r ∧ s.nextKey ≤ r.nextKey :=
  exec_probeInv fuel c s h

/-- every call other than a probe's own send / callback needs (and keeps) the plain invariant -/
theorem preHole_api (c : Call) (h1 : ∀ a b d e p f, c ≠ .sendNolock a b d e (.probe p) f)
    (h2 : ∀ p a b d e, c ≠ .callback (.probe p) a b d e) : preHole c = none := by
  cases c
  case sendNolock a b d e o f =>
    cases o
    case probe p => exact absurd rfl (h1 a b d e p f)
    all_goals rfl
  case callback o a b d e =>
    cases o
    case probe p => exact absurd rfl (h2 p a b d e)
    all_goals rfl
  all_goals rfl

/-- **cancel_releases_probes.**  Start state: `CancelPre s` — `ProbeInv s`, the keys linked in `all` have been
    allocated (`< nextKey`), and every stored probe query is linked in `all` (the last two follow from C01's invariant
    between API calls: the stored queries are exactly the linked ones; the first is `probe_pending_has_probe`).  For every fuel: when `ares_cancel` completes
    without raising a model fault,
    * the invariant holds again;
    * every query that was linked in `all` — the probes in flight among them — has left the store;
    * a server that is flagged afterwards has a probe query created **during** the cancel (key `≥` the old `nextKey`):
      the only way is a completion callback that starts a new request, which may legitimately probe the server again;
    * so if no query was created during the cancel (`nextKey` unchanged) — in particular on a channel without compound
      requests whose callbacks make no API calls (`clients = []`, `reactions = []`) — **every** server has
      `probe_pending = false`: each server that had a probe in flight can be probed again.
    (`ares_destroy` walks the same loop: `bodyCancelLoop` is covered by `probe_pending_has_probe`.) -/
theorem cancel_releases_probes (fuel : Nat) (s : St) (hp : CancelPre s) :
    let r := (exec fuel .cancel s).1
    r.outOfFuel = false → r.modelFaults = s.modelFaults →
      ProbeInv r ∧ (∀ k ∈ s.all, r.query? k = none) ∧
      (∀ v ∈ r.servers, v.probePending = true →
        ∃ k q, s.nextKey ≤ k ∧ r.query? k = some q ∧ q.owner = .probe v.id) ∧
      (r.nextKey = s.nextKey → ∀ v ∈ r.servers, v.probePending = false) ∧
      (s.clients = [] → s.reactions = [] → ∀ v ∈ r.servers, v.probePending = false) := by
  intro r hf hm
  obtain ⟨hinv, hle, hgone, hflag⟩ := exec_cancel_probes fuel s hp hf hm
  have hno : r.nextKey = s.nextKey → ∀ v ∈ r.servers, v.probePending = false := by
    intro hnk v hv
    cases hpv : v.probePending with
    | false => rfl
    | true =>
      obtain ⟨k, q, hk, hq, _⟩ := hflag v hv hpv
      have := hinv.1 q (query?_mem hq)
      rw [query?_key hq] at this
      have hnk' : (exec fuel .cancel s).1.nextKey = s.nextKey := hnk
      omega
  refine ⟨hinv, hgone, hflag, hno, fun hc hr => hno ?_⟩
  -- without compound requests and reactions a cancel creates no query
  have h1 := exec_count s.nextKey s.reactSeq fuel .cancel s 0 ⟨hc, by omega⟩
  have h2 : r.reactSeq = s.reactSeq := (exec_reactSeq fuel .cancel s hr).2
  have h3 : r.nextKey + 0 + 2 * s.reactSeq ≤ s.nextKey + 2 * r.reactSeq := h1.2
  have hle' : s.nextKey ≤ r.nextKey := hle
  omega

/-- **probe_early_failure_releases.**  The early failures of the probe's own `ares_send_nolock` — no server
    configured, or the request does not serialise (`nocache = true` for a probe, `probe_only_when_eligible`; in the C
    code also every out-of-memory exit before the query is linked: all of them `goto done` → callback, no
    `end_query`) — run the owner's callback on the spot; for a probe that is `server_probe_cb(server pid)`: the result
    is the state after the id draw with `probe_pending` of server `pid` reset (closed form, any fuel ≥ 2), so the
    server can be probed again.  For every `go` the shape "`callback` of the owner, then return" is
    `probe_request_flags` (first disjunct); for whole runs that continue into `ares_send_query`,
    `probe_pending_has_probe` with `c := sendNolock … (.probe pid)`. -/
theorem probe_early_failure_releases (fuel : Nat) (srv : Option Nat) (nocache noretry : Bool) (spec : ReqSpec)
    (pid : Nat) (react : List Nat) (s : St) :
    let s0 := (genQid 70000 s).2
    let run := exec (fuel + 2) (.sendNolock srv nocache noretry spec (.probe pid) react) s
    (s0.servers.isEmpty = true → run = (releaseProbe pid s0, .noserver)) ∧
    (s0.servers.isEmpty = false → nocache = true → nameTextLen spec.name > 255 →
      run = (releaseProbe pid s0, .formerr)) ∧
    (∀ v ∈ (releaseProbe pid s0).servers, v.id = pid → v.probePending = false) ∧
    (releaseProbe pid s0).servers.map (·.id) = s.servers.map (·.id) := by
  intro s0 run
  obtain ⟨h1, h2⟩ := exec_sendNolock_probe_early fuel srv nocache noretry spec pid react s
  obtain ⟨h3, _, _, h4⟩ := releaseProbe_spec pid s0
  refine ⟨h1, h2, h3, ?_⟩
  rw [h4]
  obtain ⟨o, f, e⟩ := genQid_shape 70000 s
  show (genQid 70000 s).2.servers.map _ = _
  rw [e]

/- **one_probe_per_send** (full statement): for every fuel and state, the run of one `sendNolock` creates at most one
   probe query *of its own* — not counting the queries created by the requests that completion callbacks start during
   the run (each of those is a `sendNolock` of its own, with a probe of its own).  Proved below for channels without a
   compound request (`ares_search` / `ares_getaddrinfo`: `clients = []`), with the requests started by callback
   *reactions* accounted for through the model's counter `reactSeq`.  Missing for the general case: the requests a
   compound request starts from its completion callback are not counted anywhere in the model's state, so the
   created queries cannot be attributed to the send that caused them. -/
/-- **one_probe_per_send_partial.**  Queries are numbered by `nextKey`, requests started by callback reactions by
    `reactSeq`.  On a channel without compound requests the whole run of one `ares_send_nolock` — every retry,
    connection failure, close, cancel and callback it causes included — creates at most two queries for itself (the
    request and one probe; with a requested server, as for a probe's own send, only the request) plus at most two for
    each request a reaction started during the run.  Without configured reactions: at most two (one) queries. -/
theorem one_probe_per_send_partial (fuel : Nat) (rs : Option Nat) (nocache noretry : Bool) (spec : ReqSpec)
    (owner : Owner) (react : List Nat) (s : St) (hc : s.clients = []) :
    let r := (exec fuel (.sendNolock rs nocache noretry spec owner react) s).1
    r.clients = [] ∧
    r.nextKey + 2 * s.reactSeq ≤ s.nextKey + (if rs.isSome then 1 else 2) + 2 * r.reactSeq ∧
    (s.reactions = [] → r.nextKey ≤ s.nextKey + (if rs.isSome then 1 else 2)) := by
  intro r
  obtain ⟨h1, h2⟩ := exec_sendNolock_count fuel rs nocache noretry spec owner react s hc
  refine ⟨h1, h2, fun hr => ?_⟩
  have h3 : r.reactSeq = s.reactSeq := (exec_reactSeq fuel _ s hr).2
  have h2' : r.nextKey + 2 * s.reactSeq ≤ s.nextKey + snBudget rs + 2 * r.reactSeq := h2
  rw [h3] at h2'
  show r.nextKey ≤ s.nextKey + snBudget rs
  omega

/-- the budgets behind it (no compound request, no reaction): `ares_send_query` creates at most one query — a probe —
    and only for an untried query without a requested server; `ares_probe_failed_server` at most one -/
theorem send_query_budget (fuel : Nat) (rs : Option Nat) (srvId key : Nat) (s : St) (hc : s.clients = [])
    (hr : s.reactions = []) :
    (exec fuel (.sendQuery rs key) s).1.nextKey ≤ s.nextKey + sqBudget rs key s ∧
    (exec fuel (.probe srvId key) s).1.nextKey ≤ s.nextKey + 1 := by
  have h1 := (exec_count (s.nextKey + sqBudget rs key s) s.reactSeq fuel (.sendQuery rs key) s 0 ⟨hc, by omega⟩).2
  have h2 := (exec_count (s.nextKey + 1) s.reactSeq fuel (.probe srvId key) s 0 ⟨hc, by omega⟩).2
  rw [(exec_reactSeq fuel _ s hr).2] at h1 h2
  constructor <;> omega

/-- **send_query_probes_once** (for every `go`, no hypothesis): `ares_send_query` consults the probe lottery at most
    once, as its very last step, and only for a request without a requested server that has not been tried before.
    `noProbe go` is `go` with the lottery switched off: the body either never calls `probe`, or it is the body without
    lottery followed by exactly one call `go (.probe srvId key)`.  Together with `probe_only_when_eligible` (the lottery
    makes at most one `sendNolock`, with a requested server — which therefore never enters the lottery itself) this is
    the call structure behind `one_probe_per_send_partial`. -/
theorem send_query_probes_once (go : Call → St → St × Ret) (reqSrv : Option Nat) (key : Nat) (s : St) :
    bodySendQuery go reqSrv key s = bodySendQuery (noProbe go) reqSrv key s ∨
    (reqSrv = none ∧ (∃ q, s.query? key = some q ∧ q.tryCount = 0) ∧
      (bodySendQuery (noProbe go) reqSrv key s).2 = .ok ∧
      ∃ srvId, bodySendQuery go reqSrv key s =
        ((go (.probe srvId key) (bodySendQuery (noProbe go) reqSrv key s).1).1, .ok)) :=
  bodySendQuery_once go reqSrv key s

/-! ### non-vacuity of the run theorems (more concrete runs: `CaresProps/C09Runs.lean`) -/

def exStP : St := { exSt with cfg := { retryChance := 1 } }

/-- the guarded run of the example (probe created for server 0) completes: every assertion on the way evaluates to
    true, and the probe exists at the end -/
example :
    let r := (execG 60 (.sendNolock none false false exSpec (.user 1) []) exStP).1
    r.outOfFuel = false ∧ r.qs.map (fun q => (q.key, q.owner)) = [(0, .user 1), (1, .probe 0)] ∧ r.nextKey = 2 := by
  decide

end Cares.C09
