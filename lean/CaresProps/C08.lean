import CaresLemmas.QcacheInv
/-!
# C08 — The query cache only replays fresh, matching, successful answers

Model: `Cares.Proto.Qcache` (`src/lib/ares_qcache.c`: key, insert filter/TTL rules, expiry list + case-insensitive
table with possibly coexisting equal keys, fetch, flush; TTL exposure of `ares_dns_write` / `ares_dns_rr_get_ttl`).
Histories: `Op = insert now req resp | fetch now req | flush`, `runOps` from the empty cache; requests that are
*stored* are ones the library can put on the wire (`WireReq`: one question, no `|` in the name — `ares_dns_write`
validates question names —, valid opcode); requests that are *looked up* are arbitrary API records (`ApiReq`).

* `key_injective`            — key equality (as the case-insensitive table sees it) ⇔ same opcode, RD, CD, type, class and
                               name up to case and one trailing dot; needs the numeric key format (F13) and `decide`
                               facts over the regenerated opcode / `tolower` tables;
* `hit_sound`                — for every history: a hit returns a response that an earlier `insert` of the history
                               stored for a request of the same cache class, that is still fresh
                               (`now < insert + min max_ttl ttl`), has rcode NOERROR/NXDOMAIN and no TC;
* `max_ttl_zero_never_hits`, `flush_empties`, `no_dangling`;
* `ttl_visible_decremented`  — on a hit every TTL visible through the wire path and through `ares_dns_rr_get_ttl` is
                               `(ttl − (now − insert))⁺` (needs F12 repaired: `RR_GET_TTL_DECREMENTS = 1`).
-/
namespace Cares.C08
open Cares.Proto.Qcache Cares.Generated.Proto

/-! ## table facts of the tree under check (side conditions) -/

/-- F13: type and class enter the key as numbers -/
theorem key_format_numeric : QCACHE_KEY_FORMAT = 1 := by decide

/-- F12: `ares_dns_rr_get_ttl` applies the record's `ttl_decrement` -/
theorem rr_get_ttl_decrements : RR_GET_TTL_DECREMENTS = 1 := by decide

/-- the table's hash (`ares_tolower`) and its key equality (`strcasecmp`, libc `tolower` in the C locale) fold alike -/
theorem tolower_tables_agree : ARES_TOLOWER = LIBC_TOLOWER := by decide +kernel

theorem calcKey_numeric (r : Req) : calcKey r = calcKeyWith true r := by
  unfold calcKey; rw [key_format_numeric]; rfl

/-! ## the key -/

/-- **key injective.**  For a request `a` the library can have stored an answer for and any request record `b`:
    the table treats their keys as equal iff they agree in opcode, RD, CD and, question by question, in type, class and
    name ignoring case and one trailing dot. -/
theorem key_injective (a b : Req) (ha : WireReq a) (hb : ApiReq b) : tkey a = tkey b ↔ sameCacheClass a b := by
  unfold tkey
  rw [calcKey_numeric, calcKey_numeric]
  constructor
  · exact nkey_class a b ha hb
  · rintro ⟨h1, h2, h3, h4⟩
    rw [lowerAll_calcKey, lowerAll_calcKey]
    unfold opPart flagPart
    rw [h1, h2, h3, h4]

/-! ## hits are sound -/

theorem effTtl_eq_min (m : Nat) (r : Resp) : effTtl m r = min m (ttlOf r) := by
  unfold effTtl; split <;> omega

theorem insert_entries (c : Cache) (now : Int) (req : Req) (resp : Resp) (e : Entry)
    (he : e ∈ (insert c now req resp).1.expire) :
    e ∈ c.expire ∨ (e.insertTs = now ∧ e.req = req ∧ e.resp = resp) := by
  by_cases hok : (insert c now req resp).2 = .ok
  · rw [(insert_ok_shape c now req resp hok).2.2] at he
    rcases (mem_slistInsert _ _ _).mp he with rfl | he
    · right; exact ⟨rfl, rfl, rfl⟩
    · left; exact he
  · rw [insert_not_ok c now req resp hok] at he; left; exact he

theorem expire_entries (c : Cache) (now : Int) (e : Entry) (he : e ∈ (expire c now).expire) : e ∈ c.expire := by
  obtain ⟨pre, hpre⟩ := expireLoop_suffix now c.expire c.table
  rw [hpre]; exact List.mem_append_right _ he

/-- every entry of a reachable cache was stored by an `insert` of the history, at the instant and for the request and
    response it records -/
theorem entries_from_inserts (ops : List Op) : ∀ (c : Cache) (past : List Op),
    (∀ e ∈ c.expire, Op.insert e.insertTs e.req e.resp ∈ past) →
    ∀ e ∈ (runOps c ops).expire, Op.insert e.insertTs e.req e.resp ∈ past ++ ops := by
  induction ops with
  | nil => intro c past h e he; simpa using h e he
  | cons op ops ih =>
    intro c past h e he
    have := ih (stepOp c op) (past ++ [op]) (by
      intro x hx
      cases op with
      | insert now req resp =>
        rcases insert_entries c now req resp x hx with hx | ⟨h1, h2, h3⟩
        · exact List.mem_append_left _ (h x hx)
        · rw [h1, h2, h3]; simp
      | fetch now req =>
        simp only [stepOp, fetch_cache] at hx
        exact List.mem_append_left _ (h x (expire_entries c now x hx))
      | flush => simp [stepOp, flush] at hx) e he
    simpa using this

/-- what a hit is -/
theorem fetch_hit (c : Cache) (now : Int) (req : Req) (e : Entry) (dec : Nat) (h : (fetch c now req).2 = .hit e dec) :
    e ∈ (expire c now).expire ∧ (tkey req, e.eid) ∈ (expire c now).table ∧
    dec = ((now - e.insertTs) % (2 ^ UINT_BITS : Nat)).toNat := by
  unfold fetch at h
  simp only [] at h
  split at h
  · cases h
  · rename_i id hid
    split at h
    · cases h
    · rename_i e' he'
      simp only [FetchResult.hit.injEq] at h
      obtain ⟨h1, h2⟩ := h
      subst h1
      have hm := List.mem_of_find?_eq_some he'
      have hp := List.find?_some he'
      simp only [decide_eq_true_eq] at hp
      exact ⟨hm, by rw [hp]; exact tableGet_some _ _ _ hid, h2.symm⟩

/-- a hit on a cache satisfying the invariant -/
theorem hit_sound_inv (c : Cache) (hc : CInv c) (now : Int) (req : Req) (hreq : ApiReq req) (e : Entry) (dec : Nat)
    (h : (fetch c now req).2 = .hit e dec) :
    e ∈ c.expire ∧ sameCacheClass e.req req ∧ now < e.insertTs + (min c.maxTtl (ttlOf e.resp) : Nat) ∧
    (e.resp.rcode = RCODE_NOERROR ∨ e.resp.rcode = RCODE_NXDOMAIN) ∧ e.resp.tc = false := by
  obtain ⟨hm, ht, _⟩ := fetch_hit c now req e dec h
  have hc1 := cinv_expire c now hc
  obtain ⟨e', he', h1, h2⟩ := hc1.live _ _ ht
  have hee : e' = e := uniq_eq hc1.uniq he' hm h1
  subst hee
  have hok := hc1.ok e' hm
  have hmax : (expire c now).maxTtl = c.maxTtl := rfl
  have hk : tkey e'.req = tkey req := by
    unfold tkey; rw [← hok.key]; exact h2
  have hfresh := expireLoop_fresh now c.expire c.table hc.sorted e' hm
  have hcache := hok.cacheable
  simp only [cacheable, Bool.and_eq_true, Bool.not_eq_true', decide_eq_true_eq] at hcache
  refine ⟨expire_entries c now e' hm, (key_injective e'.req req hok.wire hreq).mp hk, ?_, hcache.1, hcache.2⟩
  have := hok.expire
  rw [hmax, effTtl_eq_min] at this
  omega

/-- **hit sound.**  For every history of inserts (of sendable requests), fetches and flushes on a cache with any
    `max_ttl`: if a fetch at `now` for request `req` is answered from the cache, then the answer is a response that an
    earlier `insert` of the history stored, at `e.insertTs`, for a request `e.req` of the same cache class as `req`;
    it is still fresh (`now < insert + min max_ttl (lifetime its own TTLs allow)`), its rcode is NOERROR or NXDOMAIN
    and it is not truncated. -/
theorem hit_sound (maxTtl : Nat) (ops : List Op) (hops : ∀ op ∈ ops, OpOk op) (now : Int) (req : Req)
    (hreq : ApiReq req) (e : Entry) (dec : Nat)
    (h : (fetch (runOps (Cache.empty maxTtl) ops) now req).2 = .hit e dec) :
    Op.insert e.insertTs e.req e.resp ∈ ops ∧ sameCacheClass e.req req ∧
    now < e.insertTs + (min maxTtl (ttlOf e.resp) : Nat) ∧
    (e.resp.rcode = RCODE_NOERROR ∨ e.resp.rcode = RCODE_NXDOMAIN) ∧ e.resp.tc = false := by
  have hc := cinv_run ops _ (cinv_empty maxTtl) hops
  obtain ⟨h1, h2, h3, h4, h5⟩ := hit_sound_inv _ hc now req hreq e dec h
  have hmax : ∀ (ops : List Op) (c : Cache), (runOps c ops).maxTtl = c.maxTtl := by
    intro ops
    induction ops with
    | nil => intro c; rfl
    | cons op ops ih =>
      intro c
      simp only [runOps]; rw [ih]
      cases op with
      | insert now req resp => exact insert_maxTtl c now req resp
      | fetch now req => simp only [stepOp, fetch_cache]; rfl
      | flush => rfl
  rw [hmax] at h3
  refine ⟨?_, h2, h3, h4, h5⟩
  have := entries_from_inserts ops (Cache.empty maxTtl) [] (by intro x hx; simp [Cache.empty] at hx) e h1
  simpa using this

/-- the table never points at a released entry (no use-after-free in `ares_qcache_fetch`) -/
theorem no_dangling (c : Cache) (hc : CInv c) (now : Int) (req : Req) (h : (fetch c now req).2 = .dangling) : False := by
  unfold fetch at h
  simp only [] at h
  split at h
  · cases h
  · rename_i id hid
    split at h
    · rename_i hnone
      have hc1 := cinv_expire c now hc
      obtain ⟨e', he', h1, _⟩ := hc1.live _ _ (tableGet_some _ _ _ hid)
      have := List.find?_eq_none.mp hnone e' he'
      simp [h1] at this
    · cases h

/-! ## max_ttl = 0, flush -/

theorem effTtl_zero (r : Resp) : effTtl 0 r = 0 := by unfold effTtl; split <;> omega

theorem fetch_empty (m n : Nat) (now : Int) (req : Req) :
    (fetch ⟨m, n, [], []⟩ now req).2 = .miss ∧ (fetch ⟨m, n, [], []⟩ now req).1 = ⟨m, n, [], []⟩ := by
  simp [fetch, expire, expireLoop, tableGet]

/-- **max_ttl = 0 never hits**: in every history (no assumption on the requests at all) the cache stays empty and
    every fetch misses -/
theorem max_ttl_zero_never_hits (ops : List Op) (now : Int) (req : Req) :
    (fetch (runOps (Cache.empty 0) ops) now req).2 = .miss := by
  have key : ∀ (ops : List Op) (n : Nat), ∃ n', runOps ⟨0, n, [], []⟩ ops = ⟨0, n', [], []⟩ := by
    intro ops
    induction ops with
    | nil => intro n; exact ⟨n, rfl⟩
    | cons op ops ih =>
      intro n
      simp only [runOps]
      cases op with
      | insert now req resp =>
        have : stepOp ⟨0, n, [], []⟩ (.insert now req resp) = ⟨0, n, [], []⟩ := by
          simp only [stepOp, Cares.Proto.Qcache.insert, effTtl_zero, ↓reduceIte]
          split
          · rfl
          · split <;> rfl
        rw [this]; exact ih n
      | fetch now req =>
        have : stepOp ⟨0, n, [], []⟩ (.fetch now req) = ⟨0, n, [], []⟩ := (fetch_empty 0 n now req).2
        rw [this]; exact ih n
      | flush =>
        have : stepOp ⟨0, n, [], []⟩ .flush = ⟨0, n, [], []⟩ := by simp [stepOp, flush, flushLoop]
        rw [this]; exact ih n
  obtain ⟨n', hn⟩ := key ops 0
  unfold Cache.empty
  rw [hn]
  exact (fetch_empty 0 n' now req).1

/-- **flush empties**: after `ares_qcache_flush` on any reachable cache both the list and the table are empty, so
    every fetch misses until something new is stored -/
theorem flush_empties (c : Cache) (hc : CInv c) :
    (flush c).expire = [] ∧ (flush c).table = [] ∧ ∀ now req, (fetch (flush c) now req).2 = .miss := by
  have ht : (flush c).table = [] := by simp only [flush]; exact flushLoop_empty _ _ hc.live
  refine ⟨rfl, ht, ?_⟩
  intro now req
  have : flush c = ⟨c.maxTtl, c.nextId, [], []⟩ := by
    simp only [flush, flushLoop_empty _ _ hc.live]
  rw [this]
  exact (fetch_empty _ _ now req).1

theorem flush_empties_history (maxTtl : Nat) (ops : List Op) (hops : ∀ op ∈ ops, OpOk op) (now : Int) (req : Req) :
    (fetch (runOps (Cache.empty maxTtl) (ops ++ [.flush])) now req).2 = .miss := by
  have hrun : ∀ (ops : List Op) (c : Cache), runOps c (ops ++ [.flush]) = flush (runOps c ops) := by
    intro ops
    induction ops with
    | nil => intro c; rfl
    | cons op ops ih => intro c; exact ih _
  rw [hrun]
  exact (flush_empties _ (cinv_run ops _ (cinv_empty maxTtl) hops)).2.2 now req

/-! ## TTLs -/

/-- the TTL an application should see for a record cached `dec` seconds ago -/
def expectedTtl (ttl : Nat) (dec : Nat) : Nat := ttl - dec

/-- **TTLs visible are decremented.**  For every history in which time does not run backwards (every stored response
    was stored at or before `now`) and `max_ttl` is an `unsigned int`: on a hit, `ttl_decrement` is exactly the number
    of seconds the response has been cached, and for every resource record both the wire path (`ares_dns_write`:
    legacy buffer callbacks, `ares_dns_record_duplicate`) and `ares_dns_rr_get_ttl` (record API, addrinfo) show
    `(ttl − (now − insert))⁺`. -/
theorem ttl_visible_decremented (maxTtl : Nat) (hmax : maxTtl < 2 ^ UINT_BITS) (ops : List Op)
    (hops : ∀ op ∈ ops, OpOk op) (now : Int) (hmono : ∀ t rq rs, Op.insert t rq rs ∈ ops → t ≤ now)
    (req : Req) (hreq : ApiReq req) (e : Entry) (dec : Nat)
    (h : (fetch (runOps (Cache.empty maxTtl) ops) now req).2 = .hit e dec) :
    (dec : Int) = now - e.insertTs ∧
    ∀ rr ∈ e.resp.rrs, wireTtl dec rr.ttl = expectedTtl rr.ttl dec ∧ apiTtl dec rr.ttl = expectedTtl rr.ttl dec := by
  obtain ⟨h1, _, h3, _, _⟩ := hit_sound maxTtl ops hops now req hreq e dec h
  obtain ⟨_, _, hd⟩ := fetch_hit _ now req e dec h
  have hle := hmono _ _ _ h1
  have hlt : now - e.insertTs < (2 ^ UINT_BITS : Nat) := by
    have : (min maxTtl (ttlOf e.resp) : Nat) ≤ maxTtl := Nat.min_le_left _ _
    omega
  have hdec : (dec : Int) = now - e.insertTs := by
    rw [hd, Int.emod_eq_of_lt (by omega) hlt]
    omega
  refine ⟨hdec, ?_⟩
  intro rr _
  have hw : wireTtl dec rr.ttl = expectedTtl rr.ttl dec := by
    unfold wireTtl expectedTtl; split <;> omega
  refine ⟨hw, ?_⟩
  unfold apiTtl; rw [rr_get_ttl_decrements]; simpa using hw

/-! ## the pinned tree (kernel-checked counterexamples) and non-vacuity -/

section Examples

instance (a b : Req) : Decidable (sameCacheClass a b) := by unfold sameCacheClass; infer_instance

def nameEx : Chars := strChars "example.com"
def reqDS : Req := ⟨0, true, false, [⟨nameEx, 43, 1⟩]⟩
def reqDNSKEY : Req := ⟨0, true, false, [⟨nameEx, 48, 1⟩]⟩
def respEx : Resp := ⟨7, 0, false, [⟨1, 48, 300, 0⟩, ⟨1, 1, 100, 0⟩, ⟨3, 41, 0, 0⟩]⟩

/-- F13 on the pinned tree: with the mnemonic key format a DS (43) request has the key of a DNSKEY (48) request … -/
theorem c08_f13_pinned_key_collision :
    lowerAll (calcKeyWith false reqDS) = lowerAll (calcKeyWith false reqDNSKEY) ∧ ¬ sameCacheClass reqDS reqDNSKEY ∧
    lowerAll (calcKeyWith true reqDS) ≠ lowerAll (calcKeyWith true reqDNSKEY) := by decide +kernel

/-- F12 on the pinned tree: `ares_dns_rr_get_ttl` without the decrement shows TTL 100 after 3 s instead of 97 -/
theorem c08_f12_pinned_ttl_not_decremented : (100 : Nat) ≠ expectedTtl 100 3 ∧ wireTtl 3 100 = 97 := by decide

/-- result of a fetch as plain data: `(response id, ttl_decrement, TTLs through ares_dns_rr_get_ttl)` -/
def summary : FetchResult → Option (Nat × Nat × List Nat)
  | .hit e dec => some (e.resp.id, dec, e.resp.rrs.map fun rr => apiTtl dec rr.ttl)
  | _ => none

/-- non-vacuity: a history with a hit (other spelling of the name, trailing dot), the stale boundary, and a request of
    another type -/
example :
    let c := runOps (Cache.empty 3600) [.insert 100 reqDNSKEY respEx]
    summary (fetch c 103 ⟨0, true, false, [⟨strChars "EXAMPLE.com.", 48, 1⟩]⟩).2 = some (7, 3, [297, 97, 0]) ∧
    summary (fetch c 199 reqDNSKEY).2 = some (7, 99, [201, 1, 0]) ∧
    summary (fetch c 200 reqDNSKEY).2 = none ∧
    summary (fetch c 103 reqDS).2 = none := by decide +kernel

/-- a negative answer lives for `min(ttl, MINIMUM)` of the authority SOA -/
example :
    let neg : Resp := ⟨9, 3, false, [⟨2, 6, 50, 20⟩]⟩
    let c := runOps (Cache.empty 3600) [.insert 100 reqDS neg]
    summary (fetch c 119 reqDS).2 = some (9, 19, [31]) ∧ summary (fetch c 120 reqDS).2 = none := by decide +kernel

/-- two entries under one key: the table keeps the later one; when the *older* one expires the key is removed, so the
    later (still fresh) answer is no longer found — a miss, never a stale or wrong hit -/
example :
    let r1 : Resp := ⟨1, 0, false, [⟨1, 48, 10, 0⟩]⟩
    let r2 : Resp := ⟨2, 0, false, [⟨1, 48, 100, 0⟩]⟩
    let c := runOps (Cache.empty 3600) [.insert 100 reqDNSKEY r1, .insert 101 reqDNSKEY r2]
    summary (fetch c 105 reqDNSKEY).2 = some (2, 4, [96]) ∧ summary (fetch c 110 reqDNSKEY).2 = none := by
  decide +kernel

example : WireReq reqDNSKEY ∧ ApiReq reqDS := by
  refine ⟨⟨⟨_, rfl, by decide +kernel⟩, by decide⟩, ?_⟩
  unfold ApiReq; decide

end Examples

end Cares.C08
