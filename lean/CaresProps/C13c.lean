/-
C13 / C14 — the completion decision of ares_getaddrinfo, over the decision chain that tools/gen_hostcb.py regenerates from
host_callback() in /repo/src/lib/ares_getaddrinfo.c on every run (CaresModel/Generated/HostCb.lean).

* cancel / destroy end the request with that status and nothing else (no partial result);
* once an allocation failure was recorded for the request it ends with ARES_ENOMEM (F50-C14): a lookup never reports
  success while an accepted answer's addresses were lost;
* success is only reported with at least one address, and only when the last answer was converted (or carried no
  address records, or was malformed while another answer had given addresses);
* going on to the next candidate name happens only while no address is known;
* an address already known is never discarded by a failing sibling sub-request (`address_known_succeeds`), a no-data answer
  of an earlier candidate is remembered (`nodata_is_sticky`), and the final status is never invented (`finish_status_origin`);
* on the domain the channel model exercises (no allocation failures; the conversion yields success or no-data) the
  generated chain IS the hand-written model's chain: `gaiOnCb` is `gaiCbPre` followed by the generated decision
  (`gaiOnCb_follows_generated`), so the end-to-end theorems of C13b / C12c about the model's getaddrinfo client speak
  about the decision logic the C source has today.
-/
import CaresModel.Generated.HostCb
import CaresModel.Chan.Client
namespace Cares.C13c
open Cares.Chan Cares.Generated.HostCb

theorem cancel_no_partial (status addinfo : Status) (nodes nomem single : Bool) (nodata : Nat)
    (h : status = .destruction ∨ status = .cancelled) :
    (final status addinfo nodes nomem single nodata).1 = .finish status := by
  unfold final; rcases h with h | h <;> subst h <;> simp

theorem nomem_reported (status addinfo : Status) (nodes single : Bool) (nodata : Nat)
    (h1 : status ≠ .destruction) (h2 : status ≠ .cancelled) :
    (final status addinfo nodes true single nodata).1 = .finish .nomem := by
  unfold final; simp [h1, h2]

theorem success_has_address (status addinfo : Status) (nodes nomem single : Bool) (nodata : Nat)
    (hparse : status = .ok → addinfo = .ok → nodes = true)
    (h : (final status addinfo nodes nomem single nodata).1 = .finish .ok) : nodes = true := by
  unfold final at h
  repeat' split at h
  all_goals simp_all

theorem success_is_complete (status addinfo : Status) (nodes nomem single : Bool) (nodata : Nat)
    (h : (final status addinfo nodes nomem single nodata).1 = .finish .ok) :
    nomem = false ∧ (addinfo = .ok ∨ addinfo = .nodata ∨ addinfo = .badresp) := by
  unfold final at h
  repeat' split at h
  all_goals simp_all
  all_goals (by_cases h0 : addinfo = .ok <;> simp_all)

theorem next_only_without_address (status addinfo s : Status) (nodes nomem single : Bool) (nodata : Nat)
    (h : (final status addinfo nodes nomem single nodata).1 = .next s) :
    nodes = false ∧ nomem = false ∧ status ≠ .destruction ∧ status ≠ .cancelled := by
  unfold final at h
  repeat' split at h
  all_goals simp_all

theorem nodata_count_step (status addinfo : Status) (nodes nomem single : Bool) (nodata : Nat) :
    nodata ≤ (final status addinfo nodes nomem single nodata).2 ∧
    (final status addinfo nodes nomem single nodata).2 ≤ nodata + 1 := by
  unfold final
  repeat' split
  all_goals simp_all
  all_goals omega

/-- an address already obtained is never thrown away: whatever the sub-request's own status was (timeout, servfail, ... on
    the other address family), once an address is known and nothing was lost to an allocation failure the request succeeds -/
theorem address_known_succeeds (status addinfo : Status) (nodes_true : Bool) (single : Bool) (nodata : Nat)
    (hn : nodes_true = true) (h1 : status ≠ .destruction) (h2 : status ≠ .cancelled)
    (ha : addinfo = .ok ∨ addinfo = .nodata ∨ addinfo = .badresp) :
    (final status addinfo nodes_true false single nodata).1 = .finish .ok := by
  subst hn
  unfold final
  rcases ha with ha | ha | ha <;> subst ha <;> simp [h1, h2]

/-- a no-data answer seen for an earlier candidate is remembered: once the counter is non-zero, running out of candidates
    reports ARES_ENODATA, not the (less specific) status of the last candidate -/
theorem nodata_is_sticky (status addinfo s : Status) (nodes nomem single : Bool) (nodata : Nat) (hpos : 0 < nodata)
    (h : (final status addinfo nodes nomem single nodata).1 = .next s) : s = .nodata := by
  have hne : nodata ≠ 0 := by omega
  have hne1 : nodata + 1 ≠ 0 := by omega
  unfold final at h
  repeat' split at h
  all_goals simp_all

/-- the status a request ends with is never invented: it is the sub-request's status, the conversion's status, success, or
    out-of-memory -/
theorem finish_status_origin (status addinfo s : Status) (nodes nomem single : Bool) (nodata : Nat)
    (h : (final status addinfo nodes nomem single nodata).1 = .finish s) :
    s = status ∨ s = addinfo ∨ s = .ok ∨ s = .nomem := by
  unfold final at h
  repeat' split at h
  all_goals simp_all

/-- the hand-written channel model's completion chain (`gaiOnCb`, after the last sub-request of a candidate) -/
def modelFinal (st addinfo : Status) (nodes single : Bool) (nodata : Nat) : Act × Nat :=
  if st == .destruction || st == .cancelled then (.finish st, nodata)
  else if addinfo != .ok && addinfo != .nodata then (.finish addinfo, nodata)
  else if nodes then (.finish .ok, nodata)
  else if st == .notfound || st == .nodata || addinfo == .nodata then
    let nodata := if st == .nodata || addinfo == .nodata then nodata + 1 else nodata
    (.next (if nodata != 0 then .nodata else st), nodata)
  else if (st == .servfail || st == .refused) && single then
    (.next (if nodata != 0 then .nodata else st), nodata)
  else (.finish st, nodata)

theorem final_agrees_model (status addinfo : Status) (nodes single : Bool) (nodata : Nat)
    (ha : addinfo = .ok ∨ addinfo = .nodata) :
    final status addinfo nodes false single nodata = modelFinal status addinfo nodes single nodata := by
  -- by cases rather than by rewriting, so that a reordering of the operands of a condition in the C source is accepted
  rcases ha with ha | ha <;> subst ha <;> cases status <;> cases nodes <;> cases single <;> simp [final, modelFinal]

/-- the part of `gaiOnCb` before the completion chain: status of the sub-request, conversion of its answer -/
def gaiCbPre (c : Client) (st0 : Status) (timeouts : Nat) (rec : Option Reply) : Client × Status × Status × List ClientAct :=
  let st : Status := if st0 != .ok then st0 else
    match rec with
    | some r => replyToStatus r.rcode r.an
    | none => st0
  let c := { c with timeouts := c.timeouts + timeouts, remaining := c.remaining - 1 }
  let (c, addinfo, acts) : Client × Status × List ClientAct :=
    match st, rec with
    | .ok, some r =>
      if r.an == 0 then (c, .nodata, []) else
      let isA := r.qtype == 1
      let isAAAA := r.qtype == 28
      if !isA && !isAAAA then
        let nodes := (List.range r.an).map fun i => s!"{answerAddr 1 r.mark i}/{r.ttls.getD i (r.ttls.getLastD 300)}"
        let c := { c with addrs := c.addrs ++ nodes, hasV4 := true,
                          aiName := if hexLower c.aiName == hexLower r.name && c.aiName != "" then c.aiName else r.name }
        (c, .ok, [])
      else
        let nodes := (List.range r.an).map fun i => s!"{answerAddr r.qtype r.mark i}/{r.ttls.getD i (r.ttls.getLastD 300)}"
        let c := { c with addrs := c.addrs ++ nodes, hasV4 := c.hasV4 || isA,
                          aiName := if hexLower c.aiName == hexLower r.name && c.aiName != "" then c.aiName else r.name }
        let other := if r.id == c.qidA then c.qidAAAA else c.qidA
        (c, .ok, if c.hasV4 && c.remaining != 0 then [.noRetry other] else [])
    | _, _ => (c, .ok, [])
  (c, st, addinfo, acts)

/-- the completion chain of `gaiOnCb`, verbatim, as a function of what precedes it -/
def gaiFinish (cfg : Cfg) (c : Client) (st addinfo : Status) (acts : List ClientAct) : Client × List ClientAct :=
  if c.remaining != 0 then (c, acts) else
  if st == .destruction || st == .cancelled then (c, acts ++ [.finish st c.timeouts "ai="])
  else if addinfo != .ok && addinfo != .nodata then (c, acts ++ [.finish addinfo c.timeouts "ai="])
  else if !c.addrs.isEmpty then (c, acts ++ [.finish .ok c.timeouts (gaiDigest c)])
  else if st == .notfound || st == .nodata || addinfo == .nodata then
    let c := if st == .nodata || addinfo == .nodata then { c with nodataCnt := c.nodataCnt + 1 } else c
    let (c, a) := gaiNextLookup cfg 8 c (if c.nodataCnt != 0 then .nodata else st)
    (c, acts ++ a)
  else if (st == .servfail || st == .refused) && labelCnt c.lastName == 1 then
    let (c, a) := gaiNextLookup cfg 8 c (if c.nodataCnt != 0 then .nodata else st)
    (c, acts ++ a)
  else (c, acts ++ [.finish st c.timeouts "ai="])

theorem gaiOnCb_split (cfg : Cfg) (c : Client) (st0 : Status) (timeouts : Nat) (rec : Option Reply) :
    gaiOnCb cfg c st0 timeouts rec =
      gaiFinish cfg (gaiCbPre c st0 timeouts rec).1 (gaiCbPre c st0 timeouts rec).2.1
        (gaiCbPre c st0 timeouts rec).2.2.1 (gaiCbPre c st0 timeouts rec).2.2.2 := by
  rfl

theorem gaiFinish_modelFinal (cfg : Cfg) (c : Client) (st addinfo : Status) (acts : List ClientAct) :
    gaiFinish cfg c st addinfo acts =
      if c.remaining != 0 then (c, acts) else
      match modelFinal st addinfo (!c.addrs.isEmpty) (labelCnt c.lastName == 1) c.nodataCnt with
      | (.finish s, _) => (c, acts ++ [.finish s c.timeouts (if s == .ok && !c.addrs.isEmpty then gaiDigest c else "ai=")])
      | (.next s, n) =>
        let r := gaiNextLookup cfg 8 { c with nodataCnt := n } s
        (r.1, acts ++ r.2) := by
  unfold gaiFinish modelFinal
  by_cases h0 : c.remaining != 0
  · simp [h0]
  · simp only [h0]
    by_cases h1 : (st == .destruction || st == .cancelled) = true
    · simp [h1]; rcases (by simpa using h1 : st = .destruction ∨ st = .cancelled) with h | h <;> subst h <;> simp
    · simp only [h1]
      by_cases h2 : (addinfo != .ok && addinfo != .nodata) = true
      · have : (addinfo == .ok) = false := by simp at h2; simp [h2.1]
        simp [h2, this]
      · simp only [h2]
        by_cases h3 : (!c.addrs.isEmpty) = true
        · simp [h3]
        · simp only [h3]
          by_cases h4 : (st == .notfound || st == .nodata || addinfo == .nodata) = true
          · simp only [h4]
            by_cases h5 : (st == .nodata || addinfo == .nodata) = true
            · simp [h5]
            · simp [h5]
          · simp only [h4]
            by_cases h6 : ((st == .servfail || st == .refused) && labelCnt c.lastName == 1) = true
            · simp [h6]
            · simp only [h6]
              simp

theorem gaiCbPre_addinfo (c : Client) (st0 : Status) (timeouts : Nat) (rec : Option Reply) :
    (gaiCbPre c st0 timeouts rec).2.2.1 = .ok ∨ (gaiCbPre c st0 timeouts rec).2.2.1 = .nodata := by
  unfold gaiCbPre
  simp only []
  repeat' split
  all_goals simp

/-- the model's getaddrinfo client decides through the chain generated from the C source -/
theorem gaiOnCb_follows_generated (cfg : Cfg) (c : Client) (st0 : Status) (timeouts : Nat) (rec : Option Reply) :
    gaiOnCb cfg c st0 timeouts rec =
      (let p := gaiCbPre c st0 timeouts rec
       let c' := p.1
       if c'.remaining != 0 then (c', p.2.2.2) else
       match final p.2.1 p.2.2.1 (!c'.addrs.isEmpty) false (labelCnt c'.lastName == 1) c'.nodataCnt with
       | (.finish s, _) =>
         (c', p.2.2.2 ++ [.finish s c'.timeouts (if s == .ok && !c'.addrs.isEmpty then gaiDigest c' else "ai=")])
       | (.next s, n) =>
         let r := gaiNextLookup cfg 8 { c' with nodataCnt := n } s
         (r.1, p.2.2.2 ++ r.2)) := by
  rw [gaiOnCb_split, gaiFinish_modelFinal]
  simp only [final_agrees_model _ _ _ _ _ (gaiCbPre_addinfo c st0 timeouts rec)]

/-! non-vacuity: concrete points of the generated chain -/
example : (final .ok .ok true false false 0).1 = .finish .ok := by decide
example : (final .ok .nomem true false false 0).1 = .finish .nomem := by decide
example : (final .timeout .ok true true false 0).1 = .finish .nomem := by decide
example : (final .cancelled .ok true true false 0).1 = .finish .cancelled := by decide
example : final .notfound .ok false false false 0 = (.next .notfound, 0) := by decide
example : final .ok .nodata false false false 0 = (.next .nodata, 1) := by decide
example : (final .servfail .ok false false true 2).1 = .next .nodata := by decide
example : (final .servfail .ok false false false 2).1 = .finish .servfail := by decide
example : (final .timeout .ok true false false 0).1 = .finish .ok := by decide   -- address_known_succeeds: sibling timed out
example : (final .notfound .ok false false false 1).1 = .next .nodata := by decide   -- nodata_is_sticky

end Cares.C13c
