/-
Model of ares_reinit() / ares_reinit_thread() / ares_destroy() (src/lib/ares_init.c, src/lib/ares_destroy.c):
the channel lock `L`, the flag `reinit_pending`, the stored thread handle `channel->reinit_thread`, every
reload thread ever spawned, and one application thread that calls ares_reinit() any number of times and
finally ares_destroy().

The transition system is small-step and executable: `step c s st = none` means that the thread selected by
`st` is blocked (mutex owned by somebody else, join on a thread that has not finished) or has nothing to do.
It is parametric in

  * `prog`                 the reload thread's program, a straight-line sequence of abstract operations
                           (tools/gen_reinit.py re-extracts it from ares_reinit_thread() on every run),
  * `joinHoldsLock`        whether ares_reinit() joins the previous reload thread (and spawns the new one)
                           between its lock and unlock (the tree: true; upstream 1.34.5: false),
  * `destroyJoinHoldsLock` whether ares_destroy() joins the reload thread while holding `L` (the tree: false).

`L` is modelled as a plain mutex.  The real one is recursive; the difference can only be observed by a program
that locks `L` while holding it, which `NoLockAfterClear` (CaresProps/C11b.lean) excludes.  A reload thread is
represented by the operations it still has to execute (`[]` = it has finished, i.e. join returns).
-/
namespace Cares.Reinit

/-- abstract operations of the reload thread -/
inductive ROp where
  | readConfig     -- ares_init_by_sysconfig(channel): reads without L, then lock L; apply; unlock L (one atomic
                   --   step that needs L to be free - or skips the locked part when reading failed, `Step.cfgFail`)
  | lock           -- ares_channel_lock(channel)
  | unlock         -- ares_channel_unlock(channel)
  | flush          -- ares_qcache_flush(channel->qcache)
  | clearPending   -- channel->reinit_pending = ARES_FALSE
  deriving Repr, DecidableEq, Inhabited

structure Cfg where
  prog : List ROp
  joinHoldsLock : Bool
  destroyJoinHoldsLock : Bool
  deriving Repr, DecidableEq, Inhabited

/-- owner of the channel lock -/
inductive Owner where
  | free
  | app
  | thr (k : Nat)     -- the k-th reload thread that was spawned
  deriving Repr, DecidableEq, Inhabited

/-- program counter of the application thread -/
inductive APc where
  | idle       -- between API calls
  | rLock      -- ares_reinit: ares_channel_lock
  | rCheck     -- holds L: test sys_up / reinit_pending; return early or set reinit_pending
  | rJoin      -- if (channel->reinit_thread != NULL) ares_thread_join(...); channel->reinit_thread = NULL
  | rSpawn     -- ares_thread_create(&channel->reinit_thread, ares_reinit_thread, channel)
  | rUnlock    -- ares_channel_unlock (only if the lock was kept), return
  | dLock1     -- ares_destroy: ares_channel_lock
  | dMark      -- holds L: sys_up = FALSE; unlock
  | dJoin      -- join the reload thread if there is a handle
  | dLock2     -- ares_channel_lock
  | dClean     -- holds L: fail all queries, destroy server state; unlock
  | done       -- channel freed
  deriving Repr, DecidableEq, Inhabited

structure St where
  owner : Owner := .free
  pending : Bool := false            -- channel->reinit_pending
  sysUp : Bool := true               -- channel->sys_up
  thrs : List (List ROp) := []       -- reload threads in spawn order: what each still has to execute
  handle : Option Nat := none        -- channel->reinit_thread (index into `thrs`)
  apc : APc := .idle
  deriving Repr, DecidableEq, Inhabited

def St.init : St := {}

inductive Step where
  | callReinit          -- the application calls ares_reinit()
  | callDestroy         -- the application calls ares_destroy()
  | app                 -- the application thread executes its next step
  | spawnFail           -- ... or ares_thread_create() fails (at `rSpawn`)
  | thr (k : Nat)       -- reload thread k executes its next operation
  | cfgFail (k : Nat)   -- reload thread k: ares_init_by_sysconfig fails before it applies anything (L not needed)
  deriving Repr, DecidableEq, Inhabited

/-- reload thread `k` executes its next operation -/
def thrStep (s : St) (k : Nat) : Option St :=
  match s.thrs[k]? with
  | none => none
  | some [] => none
  | some (op :: rest) =>
    let adv : St := { s with thrs := s.thrs.set k rest }
    match op with
    | .lock => if s.owner = .free then some { adv with owner := .thr k } else none
    | .unlock => if s.owner = .thr k then some { adv with owner := .free } else some adv
    | .clearPending => some { adv with pending := false }
    | .flush => some adv
    | .readConfig => if s.owner = .free ∨ s.owner = .thr k then some adv else none

def cfgFailStep (s : St) (k : Nat) : Option St :=
  match s.thrs[k]? with
  | some (.readConfig :: rest) => some { s with thrs := s.thrs.set k rest }
  | _ => none

/-- would ares_thread_join() on the stored handle return? (no handle: nothing to join) -/
def joinable (s : St) : Bool :=
  match s.handle with
  | none => true
  | some h =>
    match s.thrs[h]? with
    | some [] => true
    | _ => false

/-- does the application thread hold L at this program point? -/
def appHolds (c : Cfg) : APc → Bool
  | .rCheck | .dMark | .dClean => true
  | .rJoin | .rSpawn | .rUnlock => c.joinHoldsLock
  | .dJoin => c.destroyJoinHoldsLock
  | _ => false

def appStep (c : Cfg) (s : St) : Option St :=
  match s.apc with
  | .idle => none
  | .rLock => if s.owner = .free then some { s with owner := .app, apc := .rCheck } else none
  | .rCheck =>
    if !s.sysUp || s.pending then some { s with owner := .free, apc := .idle }
    else if c.joinHoldsLock then some { s with pending := true, apc := .rJoin }
    else some { s with pending := true, owner := .free, apc := .rJoin }
  | .rJoin => if joinable s then some { s with handle := none, apc := .rSpawn } else none
  | .rSpawn => some { s with thrs := s.thrs ++ [c.prog], handle := some s.thrs.length, apc := .rUnlock }
  | .rUnlock => if c.joinHoldsLock then some { s with owner := .free, apc := .idle } else some { s with apc := .idle }
  | .dLock1 => if s.owner = .free then some { s with owner := .app, apc := .dMark } else none
  | .dMark =>
    if c.destroyJoinHoldsLock then some { s with sysUp := false, apc := .dJoin }
    else some { s with sysUp := false, owner := .free, apc := .dJoin }
  | .dJoin =>
    if joinable s then
      some { s with handle := none, apc := if c.destroyJoinHoldsLock then .dClean else .dLock2 }
    else none
  | .dLock2 => if s.owner = .free then some { s with owner := .app, apc := .dClean } else none
  | .dClean => some { s with owner := .free, apc := .done }
  | .done => none

/-- ares_thread_create() fails: reinit_pending is reset (under L: directly when L is still held, otherwise in a
    lock; reset; unlock section taken as one atomic step that needs L to be free) -/
def spawnFailStep (c : Cfg) (s : St) : Option St :=
  if s.apc = .rSpawn then
    if c.joinHoldsLock then some { s with pending := false, apc := .rUnlock }
    else if s.owner = .free then some { s with pending := false, apc := .rUnlock }
    else none
  else none

def step (c : Cfg) (s : St) : Step → Option St
  | .callReinit => if s.apc = .idle then some { s with apc := .rLock } else none
  | .callDestroy => if s.apc = .idle then some { s with apc := .dLock1 } else none
  | .app => appStep c s
  | .spawnFail => spawnFailStep c s
  | .thr k => thrStep s k
  | .cfgFail k => cfgFailStep s k

/-- run a schedule; `none` as soon as a scheduled step is not enabled -/
def run (c : Cfg) (s : St) : List Step → Option St
  | [] => some s
  | st :: r => match step c s st with
    | none => none
    | some s' => run c s' r

inductive Reachable (c : Cfg) : St → Prop where
  | init : Reachable c St.init
  | step {s s' : St} (st : Step) : Reachable c s → step c s st = some s' → Reachable c s'

/-- everything has terminated: ares_destroy() has returned and every reload thread has finished -/
def terminated (s : St) : Bool := s.apc == .done && s.thrs.all (fun r => r.isEmpty)

/-- the steps that can possibly be enabled in `s` -/
def candidates (s : St) : List Step :=
  [.callReinit, .callDestroy, .app, .spawnFail] ++
    (List.range s.thrs.length).flatMap (fun k => [.thr k, .cfgFail k])

/-- no thread can take a step (executable form) -/
def stuck (c : Cfg) (s : St) : Bool := (candidates s).all (fun st => (step c s st).isNone)

end Cares.Reinit
