/-
Model of ares_reinit() / ares_reinit_thread() / ares_destroy() (src/lib/ares_init.c, src/lib/ares_destroy.c):
the channel lock `L`, the flag `reinit_pending`, the stored thread handle `channel->reinit_thread`, every
reload thread ever spawned, N CALLER threads (N = `pcs.length`, fixed by the initial state, any N) that may each
call ares_reinit() any number of times in any interleaving - the application's threads and the configuration-change
watcher of the event thread (src/lib/event/ares_event_configchg.c) alike - and one designated DESTROYER thread that
calls ares_destroy() once.  The API contract (no call may be STARTED once ares_destroy() has been called) is the guard
of `Step.callReinit`; calls that are already in progress when ares_destroy() is called run on and interleave with it.

The transition system is small-step and executable: `step c s st = none` means that the thread selected by
`st` is blocked (mutex owned by somebody else, join on a thread that has not finished, ares_destroy() waiting for
the configuration-change watcher) or has nothing to do.  It is parametric in

  * `prog`                 the reload thread's program, a straight-line sequence of abstract operations
                           (tools/gen_reinit.py re-extracts it from ares_reinit_thread() on every run),
  * `joinHoldsLock`        whether ares_reinit() joins the previous reload thread (and spawns the new one)
                           between its lock and unlock (the tree: true; upstream 1.34.5: false),
  * `destroyJoinHoldsLock` whether ares_destroy() joins the reload thread while holding `L` (the tree: false),

and, through the initial state `St.init n waitCfg waitEv`, in the number `n` of caller threads and in how many of
them (the callers with index `< waitCfg`, `< waitEv`) ares_destroy() waits for before its join
(ares_event_configchg_destroy) and at its very end (ares_event_thread_destroy).

`L` is a mutex owned by at most one thread: caller `i`, the destroyer, or reload thread `k`.  The real one is
recursive; the difference can only be observed by a program that locks `L` while holding it, which
`NoLockAfterClear` (CaresProps/C11b.lean) excludes.  A thread blocked on `L` or in a join has no enabled step.
A reload thread is represented by the operations it still has to execute (`[]` = it has finished, i.e. join returns).
-/
namespace Cares.Reinit

/-- abstract operations of the reload thread -/
inductive ROp where
  | readConfig     -- ares_init_by_sysconfig(channel): reads without L, then lock L; apply; unlock L (one atomic
                   --   step that needs L to be free - or skips the locked part when reading failed, `Step.cfgFail`)
  | lock           -- ares_channel_lock(channel)
  | unlock         -- ares_channel_unlock(channel)
  | flush          -- ares_qcache_flush(channel->qcache)
  | clearPending   -- channel->reinit_pending = ARES_FALSE
  deriving Repr, DecidableEq, Inhabited

structure Cfg where
  prog : List ROp
  joinHoldsLock : Bool
  destroyJoinHoldsLock : Bool
  deriving Repr, DecidableEq, Inhabited

/-- owner of the channel lock -/
inductive Owner where
  | free
  | caller (i : Nat)  -- the i-th caller thread (inside ares_reinit)
  | destroyer         -- the thread inside ares_destroy
  | thr (k : Nat)     -- the k-th reload thread that was spawned
  deriving Repr, DecidableEq, Inhabited

/-- program counter of a caller thread (a thread that calls ares_reinit) -/
inductive APc where
  | idle       -- outside ares_reinit
  | rLock      -- ares_reinit: ares_channel_lock
  | rCheck     -- holds L: test sys_up / reinit_pending; return early or set reinit_pending
  | rJoin      -- if (channel->reinit_thread != NULL) ares_thread_join(...); channel->reinit_thread = NULL
  | rSpawn     -- ares_thread_create(&channel->reinit_thread, ares_reinit_thread, channel)
  | rUnlock    -- ares_channel_unlock (only if the lock was kept), return
  deriving Repr, DecidableEq, Inhabited

/-- program counter of the destroyer thread -/
inductive DPc where
  | idle       -- ares_destroy() has not been called yet
  | dLock1     -- ares_destroy: ares_channel_lock
  | dMark      -- holds L: sys_up = FALSE; unlock
  | dWait      -- ares_event_configchg_destroy(): waits until the watcher is outside ares_reinit()
  | dJoin      -- join the reload thread if there is a handle
  | dLock2     -- ares_channel_lock
  | dClean     -- holds L: fail all queries, destroy server state; unlock
  | dWaitEv    -- ares_event_thread_destroy(): joins the event thread
  | done       -- channel freed
  deriving Repr, DecidableEq, Inhabited

structure St where
  owner : Owner := .free
  pending : Bool := false            -- channel->reinit_pending
  sysUp : Bool := true               -- channel->sys_up
  thrs : List (List ROp) := []       -- reload threads in spawn order: what each still has to execute
  handle : Option Nat := none        -- channel->reinit_thread (index into `thrs`)
  pcs : List APc := []               -- the caller threads' program counters (length = number of callers, constant)
  dpc : DPc := .idle                 -- the destroyer's program counter
  waitCfg : Nat := 0                 -- ares_destroy() waits (at `dWait`) for the callers with index < waitCfg
  waitEv : Nat := 0                  -- ... and (at `dWaitEv`) for the callers with index < waitEv      (constants)
  deriving Repr, DecidableEq, Inhabited

/-- `n` caller threads, all outside ares_reinit(); nothing has happened yet -/
def St.init (n : Nat) (waitCfg waitEv : Nat := 0) : St :=
  { pcs := List.replicate n .idle, waitCfg := waitCfg, waitEv := waitEv }

inductive Step where
  | callReinit (i : Nat)  -- caller i calls ares_reinit()  (only while ares_destroy() has not been called)
  | callDestroy           -- the destroyer calls ares_destroy()
  | app (i : Nat)         -- caller i executes its next step inside ares_reinit()
  | spawnFail (i : Nat)   -- ... or its ares_thread_create() fails (at `rSpawn`)
  | destroy               -- the destroyer executes its next step inside ares_destroy()
  | thr (k : Nat)         -- reload thread k executes its next operation
  | cfgFail (k : Nat)     -- reload thread k: ares_init_by_sysconfig fails before it applies anything (L not needed)
  deriving Repr, DecidableEq, Inhabited

/-- reload thread `k` executes its next operation -/
def thrStep (s : St) (k : Nat) : Option St :=
  match s.thrs[k]? with
  | none => none
  | some [] => none
  | some (op :: rest) =>
    let adv : St := { s with thrs := s.thrs.set k rest }
    match op with
    | .lock => if s.owner = .free then some { adv with owner := .thr k } else none
    | .unlock => if s.owner = .thr k then some { adv with owner := .free } else some adv
    | .clearPending => some { adv with pending := false }
    | .flush => some adv
    | .readConfig => if s.owner = .free ∨ s.owner = .thr k then some adv else none

def cfgFailStep (s : St) (k : Nat) : Option St :=
  match s.thrs[k]? with
  | some (.readConfig :: rest) => some { s with thrs := s.thrs.set k rest }
  | _ => none

/-- would ares_thread_join() on the stored handle return? (no handle: nothing to join) -/
def joinable (s : St) : Bool :=
  match s.handle with
  | none => true
  | some h =>
    match s.thrs[h]? with
    | some [] => true
    | _ => false

/-- does a caller thread hold L at this program point? -/
def appHolds (c : Cfg) : APc → Bool
  | .rCheck => true
  | .rJoin | .rSpawn | .rUnlock => c.joinHoldsLock
  | _ => false

/-- does the destroyer hold L at this program point? -/
def dstHolds (c : Cfg) : DPc → Bool
  | .dMark | .dClean => true
  | .dWait | .dJoin => c.destroyJoinHoldsLock
  | _ => false

/-- caller `i` executes its next step inside ares_reinit() -/
def appStep (c : Cfg) (s : St) (i : Nat) : Option St :=
  match s.pcs[i]? with
  | none => none
  | some .idle => none
  | some .rLock => if s.owner = .free then some { s with owner := .caller i, pcs := s.pcs.set i .rCheck } else none
  | some .rCheck =>
    if !s.sysUp || s.pending then some { s with owner := .free, pcs := s.pcs.set i .idle }
    else if c.joinHoldsLock then some { s with pending := true, pcs := s.pcs.set i .rJoin }
    else some { s with pending := true, owner := .free, pcs := s.pcs.set i .rJoin }
  | some .rJoin => if joinable s then some { s with handle := none, pcs := s.pcs.set i .rSpawn } else none
  | some .rSpawn =>
    some { s with thrs := s.thrs ++ [c.prog], handle := some s.thrs.length, pcs := s.pcs.set i .rUnlock }
  | some .rUnlock =>
    if c.joinHoldsLock then some { s with owner := .free, pcs := s.pcs.set i .idle }
    else some { s with pcs := s.pcs.set i .idle }

/-- ares_thread_create() fails in caller `i`: reinit_pending is reset (under L: directly when L is still held,
    otherwise in a lock; reset; unlock section taken as one atomic step that needs L to be free) -/
def spawnFailStep (c : Cfg) (s : St) (i : Nat) : Option St :=
  if s.pcs[i]? = some .rSpawn then
    if c.joinHoldsLock then some { s with pending := false, pcs := s.pcs.set i .rUnlock }
    else if s.owner = .free then some { s with pending := false, pcs := s.pcs.set i .rUnlock }
    else none
  else none

/-- the callers with index `< n` are all outside ares_reinit() -/
def idleBelow (s : St) (n : Nat) : Bool := (s.pcs.take n).all (fun p => p == .idle)

/-- the destroyer executes its next step inside ares_destroy() -/
def dstStep (c : Cfg) (s : St) : Option St :=
  match s.dpc with
  | .idle => none
  | .dLock1 => if s.owner = .free then some { s with owner := .destroyer, dpc := .dMark } else none
  | .dMark =>
    if c.destroyJoinHoldsLock then some { s with sysUp := false, dpc := .dWait }
    else some { s with sysUp := false, owner := .free, dpc := .dWait }
  | .dWait => if idleBelow s s.waitCfg then some { s with dpc := .dJoin } else none
  | .dJoin =>
    if joinable s then
      some { s with handle := none, dpc := if c.destroyJoinHoldsLock then .dClean else .dLock2 }
    else none
  | .dLock2 => if s.owner = .free then some { s with owner := .destroyer, dpc := .dClean } else none
  | .dClean => some { s with owner := .free, dpc := .dWaitEv }
  | .dWaitEv => if idleBelow s s.waitEv then some { s with dpc := .done } else none
  | .done => none

def step (c : Cfg) (s : St) : Step → Option St
  | .callReinit i =>
    if s.pcs[i]? = some .idle ∧ s.dpc = .idle then some { s with pcs := s.pcs.set i .rLock } else none
  | .callDestroy => if s.dpc = .idle then some { s with dpc := .dLock1 } else none
  | .app i => appStep c s i
  | .spawnFail i => spawnFailStep c s i
  | .destroy => dstStep c s
  | .thr k => thrStep s k
  | .cfgFail k => cfgFailStep s k

/-- run a schedule; `none` as soon as a scheduled step is not enabled -/
def run (c : Cfg) (s : St) : List Step → Option St
  | [] => some s
  | st :: r => match step c s st with
    | none => none
    | some s' => run c s' r

/-- reachable from SOME initial state: any number of callers, any `waitCfg`, `waitEv` -/
inductive Reachable (c : Cfg) : St → Prop where
  | init (n waitCfg waitEv : Nat) : Reachable c (St.init n waitCfg waitEv)
  | step {s s' : St} (st : Step) : Reachable c s → step c s st = some s' → Reachable c s'

/-- everything has terminated: ares_destroy() has returned, every caller is outside ares_reinit() and every reload
    thread has finished -/
def terminated (s : St) : Bool :=
  s.dpc == .done && s.pcs.all (fun p => p == .idle) && s.thrs.all (fun r => r.isEmpty)

/-- the steps that can possibly be enabled in `s` -/
def candidates (s : St) : List Step :=
  [.callDestroy, .destroy] ++
    (List.range s.pcs.length).flatMap (fun i => [.callReinit i, .app i, .spawnFail i]) ++
    (List.range s.thrs.length).flatMap (fun k => [.thr k, .cfgFail k])

/-- no thread can take a step (executable form) -/
def stuck (c : Cfg) (s : St) : Bool := (candidates s).all (fun st => (step c s st).isNone)

end Cares.Reinit
