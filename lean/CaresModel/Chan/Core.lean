import CaresModel.Chan.Client
/-
Channel model — transitions.  `exec fuel call s` runs one C procedure of the request life cycle to
completion (including everything it calls, including user callbacks and the API calls those make),
by structural recursion on `fuel`; running out of fuel sets `outOfFuel` (never happens in the
correspondence runs; theorems hold for every fuel).
-/
namespace Cares.Chan

/-! ### small helpers -/

def hexDigit (n : Nat) : Char := if n < 10 then Char.ofNat (48 + n) else Char.ofNat (87 + n)
def hexVal (c : Char) : Nat := if c.isDigit then c.toNat - 48 else if c.toNat ≥ 97 then c.toNat - 87 else c.toNat - 55
def bytesToHex (b : List UInt8) : String :=
  String.ofList (b.flatMap fun x => [hexDigit (x.toNat / 16), hexDigit (x.toNat % 16)])
def hexToBytes (h : String) : List UInt8 :=
  let rec go : List Char → List UInt8
    | a :: b :: r => UInt8.ofNat (hexVal a * 16 + hexVal b) :: go r
    | _ => []
  go h.toList

/-- presentation-format normalisation of a name given as hex of its text: what writing and re-parsing
    does to escapes (`\DDD` and `\c` are decoded; reserved and non-printable bytes are re-escaped) -/
def normEscapes (h : String) : String :=
  let bytes := (hexToBytes h).map (·.toNat)
  let isDigit (b : Nat) : Bool := 48 ≤ b && b ≤ 57
  let rec dec : Nat → List Nat → List (Nat × Bool)   -- (byte, wasEscaped)
    | 0, _ => []
    | _, [] => []
    | n + 1, 92 :: a :: b :: c :: r =>
      if isDigit a && isDigit b && isDigit c then ((a - 48) * 100 + (b - 48) * 10 + (c - 48), true) :: dec n r
      else (a, true) :: dec n (b :: c :: r)
    | n + 1, 92 :: a :: r => (a, true) :: dec n r
    | n + 1, x :: r => (x, false) :: dec n r
  let reserved (b : Nat) : Bool := b == 46 || b == 59 || b == 92 || b == 40 || b == 41 || b == 64 || b == 36 || b == 34
  let enc (p : Nat × Bool) : List Nat :=
    let (b, esc) := p
    if esc && reserved b then [92, b]
    else if b < 33 || b > 126 then [92, 48 + b / 100, 48 + (b / 10) % 10, 48 + b % 10]
    else [b]
  bytesToHex (((dec (bytes.length + 1) bytes).flatMap enc).map UInt8.ofNat)

/-- the local address the virtual OS reports for variant `v` (harness: 198.51.100.1 / .2) -/
def selfAddr (v : Nat) : Cares.Proto.Cookie.Addr := { family := 2, bytes := [198, 51, 100, if v == 0 then 1 else 2] }

def St.tv (s : St) : Cares.Proto.Cookie.TimeVal :=
  { sec := Int.ofNat (100000 + s.now / 1000), usec := (s.now % 1000) * 1000 }

def St.emit (s : St) (e : String) : St := { s with ev := e :: s.ev }
def St.slog (s : St) (fd : Nat) (call : String) : St := { s with sockLog := s.sockLog ++ [(fd, call)] }
def St.ofault (s : St) (e : String) : St := { s with obsFaults := s.obsFaults ++ [e] }
def St.mfault (s : St) (e : String) : St := { s with modelFaults := s.modelFaults ++ [e] }

def St.query? (s : St) (k : Nat) : Option Query := s.qs.find? (·.key == k)
def St.conn? (s : St) (fd : Nat) : Option Conn := s.conns.find? (·.fd == fd)
def St.server? (s : St) (id : Nat) : Option Server := s.servers.find? (·.id == id)
def St.sock? (s : St) (fd : Nat) : Option VSock := s.socks.find? (·.fd == fd)

def St.setQuery (s : St) (q : Query) : St :=
  { s with qs := s.qs.map fun x => if x.key == q.key then q else x }
def St.setConn (s : St) (c : Conn) : St :=
  { s with conns := s.conns.map fun x => if x.fd == c.fd then c else x }
def St.setServer (s : St) (v : Server) : St :=
  { s with servers := s.servers.map fun x => if x.id == v.id then v else x }
def St.setSock (s : St) (v : VSock) : St :=
  { s with socks := s.socks.map fun x => if x.fd == v.fd then v else x }

def St.modQuery (s : St) (k : Nat) (f : Query → Query) : St :=
  { s with qs := s.qs.map fun x => if x.key == k then f x else x }
def St.modConn (s : St) (fd : Nat) (f : Conn → Conn) : St :=
  { s with conns := s.conns.map fun x => if x.fd == fd then f x else x }
def St.modServer (s : St) (id : Nat) (f : Server → Server) : St :=
  { s with servers := s.servers.map fun x => if x.id == id then f x else x }
def St.modSock (s : St) (fd : Nat) (f : VSock → VSock) : St :=
  { s with socks := s.socks.map fun x => if x.fd == fd then f x else x }

/-- insertion into a list sorted by `(failures, id)` -/
def insertServer (v : Server) : List Server → List Server
  | [] => [v]
  | x :: r =>
    if v.failures < x.failures || (v.failures == x.failures && v.id < x.id) then v :: x :: r
    else x :: insertServer v r

/-- channel->servers in slist order -/
def St.sortedServers (s : St) : List Server := s.servers.foldl (fun acc v => insertServer v acc) []

/-- count_highest_prio_servers -/
def countBest : List Server → Nat
  | [] => 0
  | x :: r => 1 + (r.takeWhile (fun y => y.failures == x.failures)).length

def deadlineMs : Deadline → Option Nat
  | .at ms => some ms
  | _ => none

/-- take one scripted socket fault for `call` if its counter reaches zero -/
def takeFault (call : String) : List ScriptedFault → Option Nat × List ScriptedFault
  | [] => (none, [])
  | f :: r =>
    if f.call == call then
      if f.nth ≤ 1 then (some f.err, r)
      else
        let (res, r') := takeFault call r
        -- the harness decrements every matching entry until one fires
        match res with
        | some e => (some e, { f with nth := f.nth - 1 } :: r')
        | none => (none, { f with nth := f.nth - 1 } :: r')
    else
      let (res, r') := takeFault call r
      (res, f :: r')

def St.fault (s : St) (call : String) : Option Nat × St :=
  let (e, fl) := takeFault call s.faults
  (e, { s with faults := fl })

def isWouldBlock (errno : Nat) : Bool := errno == 11 || errno == 115

def srvName (v : Server) (tcp : Bool) : String :=
  s!"{v.addr}:{v.udpPort}"
  |> fun base => let _ := tcp; base

/-! ### server state -/

/-- server_increment_failures -/
def St.incFailures (s : St) (id : Nat) (tcp : Bool) : St :=
  match s.server? id with
  | none => s
  | some v =>
    -- a failure of the server also ends any probe episode: whichever way the probe query ends (time-out, refused
    -- connection, failed write), the server may be probed again once its retry time has passed
    let v' := { v with failures := v.failures + 1, nextRetry := s.now + s.cfg.retryDelay, probePending := false }
    (s.setServer v').emit s!"srv({srvName v tcp},down,{if tcp then "tcp" else "udp"})"

/-- server_set_good -/
def St.setGood (s : St) (id : Nat) (tcp : Bool) : St :=
  match s.server? id with
  | none => s
  | some v =>
    let v' := { v with failures := 0, nextRetry := 0 }
    (s.setServer v').emit s!"srv({srvName v tcp},up,{if tcp then "tcp" else "udp"})"

/-! ### metrics (ares_metrics.c) -/

def clockBaseSec : Nat := 100000
def St.nowSec (s : St) : Nat := clockBaseSec + s.now / 1000

def bucketDivisor : Nat → Nat
  | 0 => 60 | 1 => 900 | 2 => 3600 | 3 => 86400 | _ => 0

def metricTs (bucket nowSec : Nat) (isPrev : Bool) : Nat :=
  if bucket ≥ 4 then (if isPrev then 0 else 1)
  else
    let d := bucketDivisor bucket
    if isPrev then (if d ≥ nowSec then 0 else (nowSec - d) / d) else nowSec / d

def recordBucket (i nowSec ms : Nat) (b : Bucket) : Bucket :=
  let ts := metricTs i nowSec false
  let b := if ts != b.ts then
      { b with prevTs := b.ts, prevTotalMs := b.totalMs, prevTotalCount := b.totalCount,
               ts := ts, totalMs := 0, totalCount := 0 }
    else b
  { b with totalCount := b.totalCount + 1, totalMs := b.totalMs + ms }

def recordBuckets (nowSec ms : Nat) : Nat → List Bucket → List Bucket
  | _, [] => []
  | i, b :: r => recordBucket i nowSec ms b :: recordBuckets nowSec ms (i + 1) r

/-- ares_metrics_record -/
def St.metricsRecord (s : St) (q : Query) (srv : Option Nat) (st : Status) (rec : Option Reply) : St :=
  match st, srv, rec with
  | .ok, some id, some r =>
    if r.rcode != 0 && r.rcode != 3 then s else
    let ms := if s.now - q.ts == 0 then 1 else s.now - q.ts
    s.modServer id fun v => { v with metrics := recordBuckets s.nowSec ms 0 v.metrics }
  | _, _, _ => s

def avgTimeout (nowSec : Nat) : Nat → List Bucket → Nat
  | _, [] => 0
  | i, b :: r =>
    let ts := metricTs i nowSec false
    if ts != b.ts || b.totalCount < 3 then
      let pts := metricTs i nowSec true
      if pts != b.prevTs || b.prevTotalCount < 3 then avgTimeout nowSec (i + 1) r
      else (b.prevTotalMs / b.prevTotalCount) * 5
    else (b.totalMs / b.totalCount) * 5

/-- ares_metrics_server_timeout -/
def St.serverTimeout (s : St) (v : Server) : Nat :=
  let t := avgTimeout s.nowSec 0 v.metrics
  let t := if t == 0 then s.cfg.timeout else t
  let t := if t < 250 then 250 else t
  let mx := if s.cfg.maxtimeout != 0 then s.cfg.maxtimeout else 5000
  if t > mx then mx else t

/-! ### socket state notification (ares_conn_sock_state_cb_update) -/

def St.notify (s : St) (fd : Nat) (r w : Bool) : St :=
  match s.conn? fd with
  | none => s
  | some c =>
    let s := if c.notR != r || c.notW != w then
        { (s.emit s!"st({fd},{if r then 1 else 0},{if w then 1 else 0})") with
          notifyLog := s.notifyLog ++ [(fd, r, w)] } else s
    s.modConn fd fun c => { c with notR := r, notW := w }

/-! ### by-timeout index -/

/-- slist insertion: before the first element whose deadline is ≥ the new one -/
def insertByDeadline (qs : List Query) (k ms : Nat) : List Nat → List Nat
  | [] => [k]
  | x :: r =>
    let xms := ((qs.find? (·.key == x)).bind fun q => deadlineMs q.deadline).getD 0
    if ms ≤ xms then k :: x :: r else x :: insertByDeadline qs k ms r

/-- ares_query_remove_from_conn -/
def St.removeFromConn (s : St) (k : Nat) : St :=
  match s.query? k with
  | none => s
  | some q =>
    let s := { s with byTimeout := s.byTimeout.erase k, pendingOrder := s.pendingOrder.erase k }
    let s := match q.conn with
      | some fd => s.modConn fd fun c => { c with queries := c.queries.erase k }
      | none => s
    -- the node may also sit in a connection list other than `q.conn` only if inConnList; it never does
    s.modQuery k fun q => { q with conn := none, inConnList := false, deadline := .none }

/-- ares_detach_query -/
def St.detach (s : St) (k : Nat) : St :=
  match s.query? k with
  | none => s
  | some q =>
    let s := s.removeFromConn k
    let s := { s with byQid := s.byQid.filter fun (id, k') => !(id == q.qid && k' == k) }
    let s := { s with all := s.all.erase k, listCopy := s.listCopy.map (·.erase k) }
    s

/-- ares_free_query -/
def St.freeQuery (s : St) (k : Nat) : St :=
  let s := s.detach k
  { s with qs := s.qs.filter (·.key != k) }

/-- end of an API call: replay the by-timeout insertions of this op in send order; a jittered deadline
    takes the observed value `obs qid` (remaining ms), which must lie inside the policy interval -/
def St.settle (s : St) : St :=
  let s := s.pendingOrder.foldl (fun s k =>
    match s.query? k with
    | none => s
    | some q =>
      match q.deadline with
      | .pending lo hi =>
        match s.obs.dls.find? (·.1 == q.qid) with
        | some (_, rem) =>
          let v := (Int.ofNat s.now + rem).toNat
          let s := if lo ≤ v && v ≤ hi then s
                   else s.ofault s!"deadline-out-of-policy(qid={q.qid},{v},[{lo},{hi}])"
          let s := s.modQuery q.key fun q => { q with deadline := .at v }
          { s with byTimeout := insertByDeadline s.qs q.key v s.byTimeout }
        | none => s.ofault s!"deadline-unobserved(qid={q.qid})"
      | .at ms => { s with byTimeout := insertByDeadline s.qs q.key ms (s.byTimeout.erase q.key) }
      | .none => s) s
  { s with pendingOrder := [] }

/-- ares_timeout(channel, maxtv, &tv) in milliseconds: the remaining time of the earliest deadline,
    capped by the caller's maximum; `none` = no limit (no query outstanding and no maximum given) -/
def St.timeoutHint (s : St) (maxtv : Option Nat) : Option Nat :=
  let rem : Option Nat := (s.byTimeout.head?.bind s.query?).bind fun q =>
    match q.deadline with
    | .at ms => some (ms - s.now)
    | _ => none
  match maxtv, rem with
  | none, r => r
  | some m, none => some m
  | some m, some r => some (min m r)

/-- read_answers: the next complete message of a TCP connection's in_buf.  `stream` holds the absolute end
    offset of every message the peer has written, `spos` the bytes read so far, `buffered` the bytes still
    in in_buf; a message is complete once its last byte has been read. -/
def nextTcpFrame (stream : List (Nat × Reply)) (spos buffered : Nat) : Option Reply :=
  match stream.find? (fun (e, _) => e > spos - buffered) with
  | some (e, r) => if e ≤ spos then some r else none
  | none => none

/-! ### the query cache as far as the channel needs it (ares_qcache.c; C08 owns the full model) -/

def cacheKeyName (h : String) : String := hexLower (stripDot h)

def sameKey (e : CacheEntry) (name : String) (qtype qclass : Nat) (rd : Bool) : Bool :=
  e.name == name && e.qtype == qtype && e.qclass == qclass && e.rd == rd

/-- ares_qcache_expire: every expired entry removes *its key* from the table (even when the table's
    entry for that key is a newer one) and leaves the expiry list -/
def St.cacheExpire (s : St) : St :=
  let dead := s.cache.filter fun e => e.expire ≤ s.nowSec
  let live := s.cache.filter fun e => e.expire > s.nowSec
  { s with cache := live.map fun e =>
      if dead.any (fun d => sameKey d e.name e.qtype e.qclass e.rd) then { e with inTable := false } else e }

def St.cacheFetch (s : St) (name : String) (qtype qclass : Nat) (rd : Bool) : Option CacheEntry :=
  s.cache.find? fun e => e.inTable && sameKey e (cacheKeyName name) qtype qclass rd

def minTtl (r : Reply) : Nat :=
  -- answers only carry TTLs in the simulator's replies; SOA / OPT are skipped by the C code
  (r.ttls.take r.an).foldl Nat.min 0xFFFFFFFF

def St.cacheInsert (s : St) (q : Query) (r : Reply) : St :=
  if s.cfg.cacheTtl == 0 then s else
  if r.rcode != 0 && r.rcode != 3 then s else
  if r.tc then s else
  let ttl := if r.rcode == 3 then (match r.soa with
      | some (t, m) => if t > m then m else t
      | none => 0) else minTtl r
  let ttl := if ttl > s.cfg.cacheTtl then s.cfg.cacheTtl else ttl
  if ttl == 0 then s else
  let key := cacheKeyName q.name
  let old := s.cache.map fun e => if sameKey e key q.qtype q.qclass q.rd then { e with inTable := false } else e
  { s with cache := old ++ [{ name := key, qtype := q.qtype, qclass := q.qclass,
                              rd := q.rd, expire := s.nowSec + ttl, insert := s.nowSec, reply := r }] }

/-! ### procedures -/

inductive Call where
  | sendNolock (srv : Option Nat) (nocache noretry : Bool) (spec : ReqSpec) (owner : Owner) (react : List Nat)
  | sendQuery (reqSrv : Option Nat) (key : Nat)
  | requeue (key : Nat) (st : Status) (inc : Bool) (rec : Option Reply) (deferred : Bool)
  | endQuery (srv : Option Nat) (key : Nat) (st : Status) (rec : Option Reply)
  | callback (owner : Owner) (react : List Nat) (st : Status) (timeouts : Nat) (rec : Option Reply)
  | reactions (l : List Nat)
  | closeConn (fd : Nat) (st : Status)
  | closeLoop (fd : Nat) (st : Status)
  | connError (fd : Nat) (critical : Bool) (st : Status)
  | flush (fd : Nat)
  | processWrite (fd : Nat)
  | processRead (fd : Nat)
  | readAnswers (fd : Nat)
  | processAnswer (fd : Nat) (r : Reply)
  | flushRequeue
  | processTimeouts
  | cleanupConns (todo : List Nat)
  | cancel
  | cancelLoop (st : Status) (fromAll : Bool)
  | destroy
  | probe (srv : Nat) (key : Nat)
  | clientStart (kind : String) (tok : Nat) (react : List Nat) (spec : ReqSpec) (family : Nat)
  | runActs (id : Nat) (acts : List ClientAct)
  | userCb (tok : Nat) (react : List Nat) (st : Status) (timeouts : Nat) (dg : String)
  deriving Repr, Inhabited

/-- result of a procedure: the C return status where one is used by the caller -/
abbrev Ret := Status

def St.oof (s : St) : St × Ret := ({ s with outOfFuel := true }, .other)

/-- pop an observed 2-byte draw -/
def St.draw2 (s : St) : Nat × St :=
  match s.obs.rnd2 with
  | [] => (0, s.ofault "rnd2-underflow")
  | x :: r => (x, { s with obs := { s.obs with rnd2 := r } })
def St.draw1 (s : St) : Nat × St :=
  match s.obs.rnd1 with
  | [] => (0, s.ofault "rnd1-underflow")
  | x :: r => (x, { s with obs := { s.obs with rnd1 := r } })

def St.peek8 (s : St) : List UInt8 :=
  match s.obs.rnd8 with
  | [] => List.replicate 8 0
  | x :: _ => hexToBytes x
def St.pop8 (s : St) : St :=
  match s.obs.rnd8 with
  | [] => s.ofault "rnd8-underflow"
  | _ :: r => { s with obs := { s.obs with rnd8 := r } }

/-- generate_unique_qid: keep drawing until the id is not in the table -/
def genQid : Nat → St → Nat × St
  | 0, s => (0, s.ofault "qid-loop")
  | n + 1, s =>
    if s.obs.rnd2.isEmpty then (70000 + s.nextKey, s.ofault "rnd2-underflow") else
    let (id, s) := s.draw2
    if s.byQid.any (·.1 == id) then genQid n s else (id, s)

/-- wire length of a name given as hex of its text form (no escapes in simulator names) -/
def nameWireLen (hex : String) : Nat :=
  let n := nameTextLen (stripDot hex)
  if n == 0 then 1 else n + 2

def frameLen (name : String) (edns : Bool) (cookie : String) : Nat :=
  2 + 12 + nameWireLen name + 4 +
    (if edns then 11 + (if cookie == "-" then 0 else 4 + cookie.length / 2) else 0)

def txEvent (t : Tx) : String :=
  s!"tx({t.n},fd={t.fd},{if t.tcp then "tcp" else "udp"},id={t.id},q={if t.name == "" then "-" else t.name},t={t.qtype},c={t.qclass},rd={if t.rd then 1 else 0},edns={if t.edns then 1 else 0},ck={t.cookie},len={t.len})"

/-- the virtual server sees one whole message -/
def St.recordTx (s : St) (fd : Nat) (tcp : Bool) (f : OutFrame) : St :=
  let n := s.txs.length
  -- the name as transmitted (0x20) is taken from the observation when present
  let name := match s.obs.txNames.find? (·.1 == n) with
    | some (_, nm) => if hexLower nm == hexLower f.name then nm else f.name
    | none => f.name
  let t : Tx := { n := n, fd := fd, tcp := tcp, id := f.qid, name := name, qtype := f.qtype, qclass := f.qclass,
                  rd := f.rd, edns := f.edns, cookie := f.cookie, len := f.len - 2, key := f.key }
  let s := ({ s with txs := s.txs ++ [t] }).slog fd "send"
  let s := s.modQuery f.key fun q => if q.qid == f.qid then { q with name := name } else q
  s.emit (txEvent t)

/-- result of one virtual sendto on a TCP socket: bytes accepted, or an errno -/
def tcpAccept (v : VSock) (len : Nat) : (Option Nat) × VSock :=
  match v.wl with
  | [] => (some len, v)
  | c :: r => if c == 0 then (none, { v with wl := r }) else (some (min c len), { v with wl := r })

/-- advance a TCP out queue by `n` accepted bytes, emitting a tx for each completed frame -/
def advanceOut : Nat → Nat → St → Nat → St
  | 0, _, s, _ => s
  | fuel + 1, fd, s, n =>
    match s.conn? fd with
    | none => s
    | some c =>
      match c.out with
      | [] => s
      | f :: rest =>
        let remaining := f.len - c.outOff
        if n ≥ remaining then
          let s := s.modConn fd fun c => { c with out := rest, outOff := 0 }
          let s := s.recordTx fd true f
          if n - remaining == 0 then s else advanceOut fuel fd s (n - remaining)
        else
          s.modConn fd fun c => { c with outOff := c.outOff + n }

def outBytes (c : Conn) : Nat := (c.out.map (·.len)).foldl (· + ·) 0 - c.outOff

/-- timedout(now, deadline) -/
def expired (now : Nat) (d : Deadline) : Bool :=
  match d with
  | .at ms => now ≥ ms
  | _ => false

def St.userCallback (s : St) (tok : Nat) (st : Status) (timeouts : Nat) (dg : String) : St :=
  let s := if s.destroyed then s.emit s!"MON:cb-after-destroy({tok})" else s
  let s := if s.doneToks.contains tok then s.emit s!"MON:cb-twice({tok})" else s
  let s := { s with pendingToks := s.pendingToks.erase tok, doneToks := s.doneToks ++ [tok] }
  s.emit s!"cb({tok},{st.name},to={timeouts},{dg})"

/-- `sendNolock` with the recursive calls abstracted as `go` -/
def bodySendNolock (go : Call → St → St × Ret) (reqSrv : Option Nat) (nocache : Bool) (noretry : Bool) (spec : ReqSpec) (owner : Owner) (react : List Nat) (s : St) : St × Ret :=
  let (qid, s) := genQid 70000 s
  if s.servers.isEmpty then
    let (s, _) := go (.callback owner react .noserver 0 none) s
    (s, .noserver)
  else
    let s := if nocache then s else s.cacheExpire
    match (if nocache then none else s.cacheFetch spec.name spec.qtype spec.qclass spec.rd) with
    | some e =>
      -- ares_dns_record_ttl_decrement: every TTL read from the cached record is reduced by the time cached
      let dec := s.nowSec - e.insert
      let (s, _) := go (.callback owner react .ok 0 (some { e.reply with ttls := e.reply.ttls.map (· - dec) })) s
      (s, .ok)
    | none =>
      -- ares_dns_record_duplicate_ex writes and re-parses the request: a name whose escaped text
      -- form does not fit is reported as EFORMERR through the callback
      if nameTextLen spec.name > 255 then
        let (s, _) := go (.callback owner react .formerr 0 none) s
        (s, .formerr)
      else
      let key := s.nextKey
      let usingTcp := s.cfg.usevc
      -- ares_apply_dns0x20 draws (len+7)/8 random bytes; only 1- and 2-byte draws are observed
      -- (the name it sees is the duplicated request's: escapes decoded, trailing dot gone)
      let sentName := normEscapes (stripDot spec.name)
      let nbytes := (nameTextLen sentName + 7) / 8
      let s := if s.cfg.dns0x20 && !usingTcp && nameTextLen sentName > 0 then
          (if nbytes == 1 then s.draw1.2 else if nbytes == 2 then s.draw2.2 else s) else s
      -- the request is duplicated by writing and re-parsing it: a trailing dot does not survive
      let q : Query := { key := key, qid := qid, owner := owner, react := react, name := sentName,
                         qtype := spec.qtype, qclass := spec.qclass, rd := spec.rd, edns := spec.edns,
                         usingTcp := usingTcp, noRetries := noretry }
      let s := { s with lastQid := qid, nextKey := key + 1, qs := s.qs ++ [q], all := s.all ++ [key],
                        byQid := s.byQid ++ [(qid, key)] }
      go (.sendQuery reqSrv key) s

/-- `sendQuery` with the recursive calls abstracted as `go` -/
def bodySendQuery (go : Call → St → St × Ret) (reqSrv : Option Nat) (key : Nat) (s : St) : St × Ret :=
  match s.query? key with
  | none => (s.mfault s!"uaf-query({key}) in ares_send_query", .other)
  | some q =>
  -- choose the server
  let sorted := s.sortedServers
  let (srv?, s) : Option Server × St :=
    match reqSrv with
    | some id => (s.server? id, s)
    | none =>
      if s.cfg.rotate then
        let nbest := countBest sorted
        if nbest == 0 then (none, s) else
        let (c, s) := s.draw1
        (sorted[c % nbest]?, s)
      else (sorted.head?, s)
  match srv? with
  | none => go (.endQuery none key .noserver none) s
  | some srv =>
  let s := { s with picks := s.picks ++ [(key, srv.id, reqSrv.isSome, sorted.map fun v => (v.id, v.failures))] }
  let probeDowned := reqSrv.isNone && srv.failures == 0 && q.tryCount == 0
  -- ares_fetch_connection
  let existing : Option Nat :=
    if q.usingTcp then srv.tcpConn
    else match srv.conns.head? with
      | none => none
      | some fd =>
        match s.conn? fd with
        | none => none
        | some c =>
          if c.tcp then none
          else if s.cfg.udpMax > 0 && c.total ≥ s.cfg.udpMax then none
          else some fd
  -- ares_open_connection
  let (connRes, s) : (Except Status Nat) × St :=
    match existing with
    | some fd => (.ok fd, s)
    | none =>
      let tcp := q.usingTcp
      let (f, s) := s.fault "socket"
      match f with
      | some _ => (.error .connrefused, s.emit s!"sock!({if tcp then "tcp" else "udp"})")
      | none =>
        let fd := s.nextFd
        let wl := if tcp then s.pendingWl else []
        let s := { s with nextFd := fd + 1,
                          pendingWl := if tcp then [] else s.pendingWl,
                          socks := s.socks ++ [({ fd := fd, tcp := tcp, wl := wl } : VSock)] }
        let s := (s.emit s!"sock({fd},{if tcp then "tcp" else "udp"},4)").slog fd "open"
        let port := if tcp then srv.tcpPort else srv.udpPort
        let s := s.modSock fd fun v => { v with peer := srv.addr, port := port }
        let (f, s) := s.fault "connect"
        let s := s.slog fd "connect"
        let connFail := match f with
          | some e => !isWouldBlock e
          | none => false
        let s := match f with
          | some _ => s.emit s!"conn!({fd},{srv.addr}#{port})"
          | none => s.emit s!"conn({fd},{srv.addr}#{port})"
        if connFail then
          let s := ((s.modSock fd fun v => { v with isOpen := false }).emit s!"close({fd})").slog fd "close"
          (.error .connrefused, s)
        else
          let (f, s) := s.fault "getsockname"
          match f with
          | some _ =>
            let s := ((s.modSock fd fun v => { v with isOpen := false }).emit s!"close({fd})").slog fd "close"
            (.error .connrefused, s)
          | none =>
            let c : Conn := { fd := fd, srv := srv.id, tcp := tcp, selfIp := s.selfVariant }
            let s := { s with conns := s.conns ++ [c] }
            let s := s.modServer srv.id fun v =>
              { v with conns := if tcp then v.conns ++ [fd] else fd :: v.conns,
                       tcpConn := if tcp then some fd else v.tcpConn }
            let s := s.notify fd true tcp
            (.ok fd, s)
  match connRes with
  | .error st =>
    -- ECONNREFUSED / EBADFAMILY are retryable
    let s := s.incFailures srv.id q.usingTcp
    go (.requeue key st true none false) s
  | .ok fd =>
  -- ares_conn_query_write: ares_cookie_apply first
  let cTcp := ((s.conn? fd).map (·.tcp)).getD q.usingTcp
  let cSelf := ((s.conn? fd).map (·.selfIp)).getD 0
  let srvNow0 := (s.server? srv.id).getD srv
  let reqOpt : Cares.Proto.Cookie.ReqOpt := if q.edns then some q.reqCookie else none
  let ao := Cares.Proto.Cookie.apply srvNow0.cookie { selfIp := selfAddr cSelf, tcp := cTcp } s.tv s.peek8 reqOpt
  let s := if ao.draws > 0 then s.pop8 else s
  let s := s.modServer srv.id fun v => { v with cookie := ao.ck }
  let newCk : Option (List UInt8) := ao.req.join
  let cookie := match newCk with
    | some b => bytesToHex b
    | none => "-"
  let s := s.modQuery key fun q => { q with reqCookie := newCk, cookie := cookie }
  let q := { q with reqCookie := newCk, cookie := cookie }
  let frame : OutFrame := { len := frameLen q.name q.edns cookie, key := key, qid := q.qid, name := q.name,
                            qtype := q.qtype, qclass := q.qclass, rd := q.rd, edns := q.edns, cookie := cookie }
  let s := s.modConn fd fun c => { c with out := c.out ++ [frame] }
  let s := { s with writeLog := s.writeLog ++ [key] }
  let c := (s.conn? fd).getD default
  let (wst, s) : Status × St :=
    if c.tcp && !c.connected then (.ok, s)
    else if s.cfg.pendingWrite && !s.notifyPending && c.tcp then
      (.ok, ({ s with notifyPending := true }).emit "pendingwrite")
    else
      let (s, r) := go (.flush fd) s
      (r, s)
  match wst with
  | .ok =>
    match s.query? key, s.conn? fd with
    | some q, some _ =>
      -- ares_calc_query_timeout
      let srvNow := (s.server? srv.id).getD srv
      let timeout := s.serverTimeout srvNow
      let nsrv := s.servers.length
      let rounds := q.tryCount / nsrv
      let timeplus := if rounds > 0 then timeout * 2 ^ rounds else timeout
      let timeplus := if s.cfg.maxtimeout != 0 && timeplus > s.cfg.maxtimeout then s.cfg.maxtimeout else timeplus
      let (dl, s) : Deadline × St :=
        if rounds > 0 then
          let (_, s) := s.draw2
          let lo := max timeout (timeplus - timeplus / 2)
          let hi := max timeout timeplus
          (.pending (s.now + lo) (s.now + hi), s)
        else (.at (s.now + max timeplus timeout), s)
      let s := { s with byTimeout := s.byTimeout.erase key }
      -- ares_llist_node_destroy(query->node_queries_to_conn): leave whatever list it was still in
      let s := match q.conn with
        | some old => s.modConn old fun c => { c with queries := c.queries.erase key }
        | none => s
      let s := s.modQuery key fun q => { q with ts := s.now, deadline := dl, conn := some fd, inConnList := true }
      -- the skip-list insertion is replayed by `settle` at the end of the op, in send order, once the
      -- jittered values have been observed (entries sent in this op cannot expire within it)
      let s := { s with pendingOrder := s.pendingOrder.erase key ++ [key] }
      let s := s.modConn fd fun c => { c with queries := c.queries.erase key ++ [key], total := c.total + 1 }
      if probeDowned then
        let (s, _) := go (.probe srv.id key) s
        (s, .ok)
      else (s, .ok)
    | none, _ => (s.mfault s!"uaf-query({key}) after write in ares_send_query", .other)
    | _, none => (s.mfault s!"uaf-conn({fd}) after write in ares_send_query", .other)
  | .nomem => go (.endQuery (some srv.id) key .nomem none) s
  | .connrefused | .badfamily =>
    let (s, _) := go (.connError fd true wst) s
    -- the C code goes on to use `query` here whatever the callbacks run by the close did
    -- the close may have run callbacks that cancelled this query: re-validate through the qid table
    match (s.byQid.find? (fun (id, k) => id == q.qid && k == key)).bind (fun _ => s.query? key) with
    | none => (s, .cancelled)
    | some _ =>
      let (s, r) := go (.requeue key wst true none false) s
      (s, if r == .timeout then .connrefused else r)
  | wst' =>
    let s := s.incFailures srv.id q.usingTcp
    go (.requeue key wst' true none false) s

/-- `probe` with the recursive calls abstracted as `go` -/
def bodyProbe (go : Call → St → St × Ret) (srvId : Nat) (key : Nat) (s : St) : St × Ret :=
  match s.query? key with
  | none => (s, .ok)
  | some q =>
  let sorted := s.sortedServers
  match sorted.getLast? with
  | none => (s, .ok)
  | some last =>
    if last.failures == 0 || s.cfg.retryChance == 0 then (s, .ok) else
    let (r, s) := s.draw2
    if r % s.cfg.retryChance != 0 then (s, .ok) else
    match sorted.find? (fun v => v.failures > 0 && !v.probePending && s.now ≥ v.nextRetry) with
    | none => (s, .ok)
    | some pv =>
      if pv.id == srvId then (s, .ok) else
      let s := s.modServer pv.id fun v => { v with probePending := true }
      let (s, _) := go (.sendNolock (some pv.id) true true
        { name := q.name, qtype := q.qtype, qclass := q.qclass, rd := q.rd, edns := q.edns } (.probe pv.id) []) s
      (s, .ok)

/-- `flush` with the recursive calls abstracted as `go` -/
def bodyFlush (go : Call → St → St × Ret) (fd : Nat) (s : St) : St × Ret :=
  match s.conn? fd with
  | none => (s.mfault s!"uaf-conn({fd}) in ares_conn_flush", .other)
  | some c =>
    match c.out with
    | [] => (s.notify fd true false, .ok)
    | f :: rest =>
      if !c.tcp then
        let (e, s) := s.fault "sendto"
        match e with
        | some errno =>
          let s := (s.emit s!"send!({fd},{errno})").slog fd "send"
          if isWouldBlock errno then
            let s := s.notify fd true true
            (s.notify fd true false, .ok)
          else (s, .connrefused)
        | none =>
          let s := s.recordTx fd false f
          let s := s.notify fd true false
          let s := s.modConn fd fun c => { c with out := rest }
          go (.flush fd) s
      else
        if !c.connected then
          -- ares_conn_write refuses to write on an unconnected TCP socket: would block
          let s := s.notify fd true true
          (s, .ok)
        else
        let (e, s) := s.fault "sendto"
        match e with
        | some errno =>
          let s := (s.emit s!"send!({fd},{errno})").slog fd "send"
          if isWouldBlock errno then (s.notify fd true true, .ok) else (s, .connrefused)
        | none =>
          let total := outBytes c
          let v := (s.sock? fd).getD default
          let (acc, v) := tcpAccept v total
          let s := (s.setSock v).slog fd "send"
          match acc with
          | none =>
            let s := s.emit s!"send({fd},again)"
            (s.notify fd true true, .ok)
          | some n =>
            let s := if n != total then s.emit s!"send({fd},{n}/{total})" else s
            let s := advanceOut (c.out.length + 1) fd s n
            let s := if n == total then s.notify fd true false else s
            let c' := (s.conn? fd).getD c
            (s.notify fd true (outBytes c' != 0), .ok)

/-- `requeue` with the recursive calls abstracted as `go` -/
def bodyRequeue (go : Call → St → St × Ret) (key : Nat) (st : Status) (inc : Bool) (rec : Option Reply) (deferred : Bool) (s : St) : St × Ret :=
  match s.query? key with
  | none => (s.mfault s!"uaf-query({key}) in ares_requeue_query", .other)
  | some _ =>
    let maxTries := s.servers.length * s.cfg.tries
    let s := s.removeFromConn key
    let s := s.modQuery key fun q =>
      { q with errorStatus := if st != .ok then st else q.errorStatus,
               tryCount := if inc then q.tryCount + 1 else q.tryCount }
    let q := (s.query? key).getD default
    if q.tryCount < maxTries && !q.noRetries then
      if deferred then
        -- ares_append_requeue
        ({ s with requeueArr := s.requeueArr ++ [(q.qid, none)] }, .ok)
      else go (.sendQuery none key) s
    else
      let es := if q.errorStatus == .ok then .timeout else q.errorStatus
      let s := s.modQuery key fun q => { q with errorStatus := es }
      let (s, _) := go (.endQuery none key es rec) s
      (s, .timeout)

/-- `endQuery` with the recursive calls abstracted as `go` -/
def bodyEndQuery (go : Call → St → St × Ret) (srv : Option Nat) (key : Nat) (st : Status) (rec : Option Reply) (s : St) : St × Ret :=
  match s.query? key with
  | none => (s.mfault s!"uaf-query({key}) in end_query", .other)
  | some q =>
    let s := match srv with
      | some id => s.modServer id fun v => { v with probePending := false }
      | none => s
    let s := s.metricsRecord q srv st rec
    let s := s.detach key
    let (s, _) := go (.callback q.owner q.react st q.timeouts rec) s
    (s.freeQuery key, .ok)

/-- `callback` with the recursive calls abstracted as `go` -/
def bodyCallback (go : Call → St → St × Ret) (owner : Owner) (react : List Nat) (st : Status) (timeouts : Nat) (rec : Option Reply) (s : St) : St × Ret :=
  match owner with
  | .probe id =>
    -- server_probe_cb(arg = the probed server): whichever way the probe query ends (end_query, the cancel / destroy
    -- walk, an early failure inside ares_send_nolock), the probe episode of that server is over
    (s.modServer id fun v => { v with probePending := false }, .ok)
  | .client id =>
    -- completion callback of a compound request (ares_query_dnsrec_cb, search_callback, …):
    -- the pure client logic decides what happens next
    match s.client? id with
    | none => (s.mfault s!"uaf-client({id}) in completion callback", .other)
    | some c =>
      let (c', acts) := clientOnCb s.cfg c st timeouts rec
      let s := s.modClient id fun _ => c'
      go (.runActs id acts) s
  | .user tok => go (.userCb tok react st timeouts (digest rec)) s

/-- `userCb` with the recursive calls abstracted as `go` -/
def bodyUserCb (go : Call → St → St × Ret) (tok : Nat) (react : List Nat) (st : Status) (timeouts : Nat) (dg : String) (s : St) : St × Ret :=
  let s := s.userCallback tok st timeouts dg
  if s.destroying || s.destroyed then (s, .ok) else go (.reactions react) s

/-- `reactions` with the recursive calls abstracted as `go` -/
def bodyReactions (go : Call → St → St × Ret) (l : List Nat) (s : St) : St × Ret :=
  match l with
  | [] => (s, .ok)
  | i :: rest =>
    if s.destroying || s.destroyed then (s, .ok) else
    let s := match s.reactions.find? (·.1 == i) with
      | none => s
      | some (_, r) =>
        if r.kind == "cancel" then
          (go .cancel (s.emit "react(cancel)")).1
        else if r.kind == "send" then
          -- every request started by a reaction gets a fresh token
          let tok := 10000 + s.reactSeq
          let s := { s with reactSeq := s.reactSeq + 1 }
          let s := s.emit s!"react(send,{tok})"
          let s := { s with pendingToks := s.pendingToks ++ [tok] }
          let (s, st) := go (.sendNolock none false false { name := r.name, qtype := r.qtype } (.user tok) r.react) s
          s.emit s!"ret({tok},{st.name})"
        else s
    go (.reactions rest) s

/-- `connError` with the recursive calls abstracted as `go` -/
def bodyConnError (go : Call → St → St × Ret) (fd : Nat) (critical : Bool) (st : Status) (s : St) : St × Ret :=
  match s.conn? fd with
  | none => (s.mfault s!"uaf-conn({fd}) in handle_conn_error", .other)
  | some c =>
    let s := if critical then s.incFailures c.srv c.tcp else s
    go (.closeConn fd st) s

/-- `closeConn` with the recursive calls abstracted as `go` -/
def bodyCloseConn (go : Call → St → St × Ret) (fd : Nat) (st : Status) (s : St) : St × Ret :=
  match s.conn? fd with
  | none => (s.mfault s!"uaf-conn({fd}) in ares_close_connection", .other)
  | some c =>
    let s := s.modServer c.srv fun v =>
      { v with conns := v.conns.erase fd, tcpConn := if c.tcp then none else v.tcpConn }
    let s := s.modConn fd fun c => { c with unlinked := true, out := [], outOff := 0, inBytes := 0, inMsgs := [] }
    go (.closeLoop fd st) s

/-- `closeLoop` with the recursive calls abstracted as `go` -/
def bodyCloseLoop (go : Call → St → St × Ret) (fd : Nat) (st : Status) (s : St) : St × Ret :=
  match s.conn? fd with
  | none => (s.mfault s!"uaf-conn({fd}) in ares_requeue_queries", .other)
  | some c =>
    match c.queries with
    | k :: _ =>
      let (s, _) := go (.requeue k st true none false) s
      -- guard against a query that could not be unlinked (cannot happen: requeue removes it)
      let s := s.modConn fd fun c => { c with queries := c.queries.erase k }
      go (.closeLoop fd st) s
    | [] =>
      let s := s.notify fd false false
      let s := ((s.modSock fd fun v => { v with isOpen := false }).emit s!"close({fd})").slog fd "close"
      ({ s with conns := s.conns.filter (·.fd != fd) }, .ok)

/-- `processWrite` with the recursive calls abstracted as `go` -/
def bodyProcessWrite (go : Call → St → St × Ret) (fd : Nat) (s : St) : St × Ret :=
  match s.conn? fd with
  | none => (s, .ok)
  | some c =>
    if c.unlinked then (s, .ok) else
    let s := s.modConn fd fun c => { c with connected := true }
    let (s, r) := go (.flush fd) s
    if r != .ok then go (.connError fd true r) s else (s, .ok)

/-- `processRead` with the recursive calls abstracted as `go` -/
def bodyProcessRead (go : Call → St → St × Ret) (fd : Nat) (s : St) : St × Ret :=
  match s.conn? fd, s.sock? fd with
  | some c, some v =>
    if c.unlinked then (s, .ok) else
    if !c.tcp then
      -- read_conn_packets, UDP: loop until the socket would block
      let (e, s) := s.fault "recvfrom"
      let s := s.slog fd "recv"
      match e with
      | some errno =>
        let s := s.emit s!"recv!({fd})"
        if isWouldBlock errno then go (.readAnswers fd) s
        else
          let (s, _) := go (.connError fd true .connrefused) s
          (s, .connrefused)
      | none =>
        match v.rx with
        | [] => go (.readAnswers fd) s
        | r :: rest =>
          let s := s.modSock fd fun v => { v with rx := rest }
          if r.wrongsrc then go (.readAnswers fd) s
          else
            let s := s.modConn fd fun c =>
              { c with inMsgs := c.inMsgs ++ [(c.inBytes + 2 + r.len, r)], inBytes := c.inBytes + 2 + r.len,
                       connected := true }
            go (.processRead fd) s
    else
      let (e, s) := s.fault "recvfrom"
      let s := s.slog fd "recv"
      match e with
      | some errno =>
        let s := s.emit s!"recv!({fd})"
        if isWouldBlock errno then go (.readAnswers fd) s
        else
          let (s, _) := go (.connError fd true .connrefused) s
          (s, .connrefused)
      | none =>
        let avail := v.slen - v.spos
        if avail == 0 then
          if v.reset || v.eof then
            let (s, _) := go (.connError fd true .connrefused) s
            (s, .connrefused)
          else go (.readAnswers fd) s
        else
          let (n, chunks, again) : Nat × List Nat × Bool :=
            match v.chunks with
            | [] => (avail, [], false)
            | c :: r => if c == 0 then (0, r, true) else (min c avail, r, false)
          if again then
            go (.readAnswers fd) (s.modSock fd fun v => { v with chunks := chunks })
          else
            let s := s.modSock fd fun v => { v with chunks := chunks, spos := v.spos + n }
            -- messages whose last byte has now arrived become visible in in_buf
            let s := s.modConn fd fun c => { c with inBytes := c.inBytes + n, connected := true }
            go (.readAnswers fd) s
  | _, _ => (s, .ok)

/-- `readAnswers` with the recursive calls abstracted as `go` -/
def bodyReadAnswers (go : Call → St → St × Ret) (fd : Nat) (s : St) : St × Ret :=
  match s.conn? fd, s.sock? fd with
  | some c, some v =>
    -- next complete frame in in_buf?
    let next : Option Reply :=
      if !c.tcp then (c.inMsgs.head?).map (·.2)
      else
        -- stream positions are absolute: a message is complete when its end offset ≤ bytes read so far
        nextTcpFrame v.stream v.spos c.inBytes
    match next with
    | none => go .flushRequeue s
    | some r =>
      let s := s.modConn fd fun c =>
        { c with inMsgs := c.inMsgs.drop 1, inBytes := c.inBytes - (2 + r.len) }
      let (s, st) := go (.processAnswer fd r) s
      -- the completion callback may have closed this very connection: re-validate by descriptor
      match s.conn? fd with
      | none => go .flushRequeue s
      | some c' =>
        if c'.unlinked then go .flushRequeue s else
        if st != .ok then
          let (s, _) := go (.connError fd true st) s
          go .flushRequeue s
        else go (.readAnswers fd) s
  | _, _ => (s.mfault s!"uaf-conn({fd}) in read_answers", .other)

/-- `flushRequeue` with the recursive calls abstracted as `go` -/
def bodyFlushRequeue (go : Call → St → St × Ret)  (s : St) : St × Ret :=
  match s.requeueArr with
  | [] => (s, .ok)
  | (qid, srv) :: rest =>
    let s := { s with requeueArr := rest }
    match s.byQid.find? (·.1 == qid) with
    | none => go .flushRequeue s      -- query disappeared
    | some (_, key) =>
      let (s, _) := go (.sendQuery srv key) s
      go .flushRequeue s

/-- `processAnswer` with the recursive calls abstracted as `go` -/
def bodyProcessAnswer (go : Call → St → St × Ret) (fd : Nat) (r : Reply) (s : St) : St × Ret :=
  match s.conn? fd with
  | none => (s.mfault s!"uaf-conn({fd}) in process_answer", .other)
  | some c =>
    if r.empty then (s, .ok) else
    if r.garbage then (s, .badresp) else
    match s.byQid.find? (·.1 == r.id) with
    | none => (s, .ok)
    | some (_, key) =>
      match s.query? key with
      | none => (s.mfault s!"dangling-qid({r.id})", .other)
      | some q =>
        -- the reply must arrive on the connection the query is currently assigned to
      if q.conn != some fd then (s, .ok) else
      let sameQ := q.qtype == r.qtype && q.qclass == r.qclass &&
          (if s.cfg.dns0x20 && !q.usingTcp then q.name == r.name else hexLower q.name == hexLower r.name)
        if !sameQ then (s, .ok) else
        -- ares_cookie_validate
        let srvNow := (s.server? c.srv).getD default
        let respCk : Option (List UInt8) := if r.hasOpt then r.cookie.map hexToBytes else none
        let vo := Cares.Proto.Cookie.validate srvNow.cookie { cookieTry := q.cookieTry, usingTcp := q.usingTcp }
                    (if q.edns then q.reqCookie else none) respCk r.rcode s.tv
        let s := s.modServer c.srv fun v => { v with cookie := vo.ck }
        let s := s.modQuery key fun q => { q with cookieTry := vo.q.cookieTry, usingTcp := vo.q.usingTcp }
        let (s, _) := if vo.requeue then go (.requeue key .ok false none true) s else (s, Status.ok)
        if vo.verdict == .drop then (s, .ok) else
        let q := (s.query? key).getD q
        let s := { s with accepted := s.accepted ++ [(fd, key, r)] }
        -- the query leaves the connection's list; the connection may now be cleaned up later
        let s := s.modConn (q.conn.getD fd) fun c => { c with queries := c.queries.erase key }
        let s := s.modQuery key fun q => { q with inConnList := false }
        -- issue_might_be_edns / rewrite_without_edns
        let ednsIssue := r.rcode == 1 && q.edns &&
          (!r.hasOpt || (q.reqCookie.isSome && r.hasOpt))
        if ednsIssue then
          let s := s.removeFromConn key
          let s := s.modQuery key fun q => { q with edns := false, reqCookie := none, cookie := "-" }
          ({ s with requeueArr := s.requeueArr ++ [(q.qid, some c.srv)] }, .ok)
        else if r.tc && !c.tcp && !s.cfg.igntc then
          let s := s.removeFromConn key
          let s := s.modQuery key fun q => { q with usingTcp := true }
          ({ s with requeueArr := s.requeueArr ++ [(q.qid, none)] }, .ok)
        else if !s.cfg.nocheckresp && (r.rcode == 2 || r.rcode == 4 || r.rcode == 5) then
          let st : Status := if r.rcode == 2 then .servfail else if r.rcode == 4 then .notimp else .refused
          let s := s.incFailures c.srv q.usingTcp
          let (s, _) := go (.requeue key st true (some r) true) s
          (s, .ok)
        else
          let s := s.cacheInsert q r
          let s := s.setGood c.srv q.usingTcp
          let (s, _) := go (.endQuery (some c.srv) key .ok (some r)) s
          (s, .ok)

/-- `processTimeouts` with the recursive calls abstracted as `go` -/
def bodyProcessTimeouts (go : Call → St → St × Ret)  (s : St) : St × Ret :=
  match s.byTimeout.head? with
  | none => (s, .ok)
  | some key =>
    match s.query? key with
    | none => (s.mfault s!"dangling-timeout({key})", .other)
    | some q =>
      if !expired s.now q.deadline then (s, .ok) else
      match q.conn.bind s.conn? with
      | none => (s.mfault s!"timeout-without-conn({key})", .other)
      | some c =>
        let s := s.modQuery key fun q => { q with timeouts := q.timeouts + 1 }
        let s := s.incFailures c.srv q.usingTcp
        let (s, _) := go (.requeue key .timeout true none false) s
        go .processTimeouts s

/-- `cleanupConns` with the recursive calls abstracted as `go` -/
def bodyCleanupConns (go : Call → St → St × Ret) (todo : List Nat) (s : St) : St × Ret :=
  match todo with
  | [] => (s, .ok)
  | fd :: rest =>
    match s.conn? fd with
    | none => go (.cleanupConns rest) s
    | some c =>
      let failures := ((s.server? c.srv).map (·.failures)).getD 0
      let doit := c.queries.isEmpty && !c.unlinked &&
        (!s.cfg.stayopen || failures > 0 || (!c.tcp && s.cfg.udpMax > 0 && c.total ≥ s.cfg.udpMax))
      let s := if doit then (go (.closeConn fd .ok) s).1 else s
      go (.cleanupConns rest) s

/-- `clientStart` with the recursive calls abstracted as `go` -/
def bodyClientStart (go : Call → St → St × Ret) (kind : String) (tok : Nat) (react : List Nat) (spec : ReqSpec) (family : Nat) (s : St) : St × Ret :=
  let id := s.nextClient
  let (c, acts) := clientStart s.cfg id kind tok react spec family
  let s := { s with clients := s.clients ++ [c], nextClient := id + 1 }
  go (.runActs id acts) s

/-- `runActs` with the recursive calls abstracted as `go` -/
def bodyRunActs (go : Call → St → St × Ret) (id : Nat) (acts : List ClientAct) (s : St) : St × Ret :=
  match acts with
  | [] => (s, .ok)
  | .send spec :: rest =>
    let (s, st) := go (.sendNolock none false false spec (.client id) []) s
    let (s, st') := go (.runActs id rest) s
    (s, if rest.isEmpty then st else st')
  | .sendSlot spec slot :: rest =>
    -- the id ares_send_nolock is about to give the query (not `lastQid` afterwards: the call may go on to send a
    -- probe to a failed server, which is a later query with its own id)
    let qid := (genQid 70000 s).1
    let (s, st) := go (.sendNolock none false false spec (.client id) []) s
    -- ares_query_nolock stores the query id through its out parameter only when the query went on the wire: an answer
    -- from the query cache completes inside the call and leaves the out parameter alone (the callback it ran may
    -- already have started the next candidate's queries and recorded their ids)
    let s := if st == .ok && s.byQid.any (·.1 == qid) then s.modClient id fun c =>
        if slot == 0 then { c with qidA := qid } else { c with qidAAAA := qid } else s
    let (s, st') := go (.runActs id rest) s
    (s, if rest.isEmpty then st else st')
  | .noRetry qid :: rest =>
    let s := match s.byQid.find? (·.1 == qid) with
      | some (_, key) => s.modQuery key fun q => { q with noRetries := true }
      | none => s
    go (.runActs id rest) s
  | .finish st timeouts dg :: _ =>
    -- user callback first, then the compound request's state is released
    match s.client? id with
    | none => (s.mfault s!"uaf-client({id}) at completion", .other)
    | some c =>
      let (s, _) := go (.userCb c.tok c.react st timeouts dg) s
      ({ s with clients := s.clients.filter (·.id != id) }, st)

/-- `cancel` with the recursive calls abstracted as `go` -/
def bodyCancel (go : Call → St → St × Ret)  (s : St) : St × Ret :=
  let s := if s.all.isEmpty then s else
    -- swap list heads: only queries present on entry are cancelled
    let s := { s with listCopy := s.all :: s.listCopy, all := [] }
    let (s, _) := go (.cancelLoop .cancelled false) s
    { s with listCopy := s.listCopy.drop 1 }
  let fds := (s.sortedServers.map (·.conns)).flatten
  go (.cleanupConns fds) s

/-- `cancelLoop` with the recursive calls abstracted as `go` -/
def bodyCancelLoop (go : Call → St → St × Ret) (st : Status) (fromAll : Bool) (s : St) : St × Ret :=
  -- always take the first remaining entry of the list being walked
  match (if fromAll then s.all.head? else (s.listCopy.head?).bind (·.head?)) with
  | none => (s, .ok)
  | some key =>
    match s.query? key with
    | none => (s.mfault s!"uaf-query({key}) in cancel/destroy walk", .other)
    | some q =>
      -- the query is released before its callback runs
      let s := s.freeQuery key
      let (s, _) := go (.callback q.owner q.react st 0 none) s
      go (.cancelLoop st fromAll) s

/-- `destroy` with the recursive calls abstracted as `go` -/
def bodyDestroy (go : Call → St → St × Ret)  (s : St) : St × Ret :=
  -- ares_destroy walks channel->all_queries itself
  let s := { s with destroying := true }
  let (s, _) := go (.cancelLoop .destruction true) s
  let fds := (s.sortedServers.map (·.conns)).flatten
  let s := fds.foldl (fun s fd => (go (.closeConn fd .ok) s).1) s
  ({ s with destroyed := true, destroying := false, alive := false }, .ok)

/-- one procedure, recursive calls through `go` -/
def execBody (go : Call → St → St × Ret) (call : Call) (s : St) : St × Ret :=
  match call with
  | .sendNolock reqSrv nocache noretry spec owner react => bodySendNolock go reqSrv nocache noretry spec owner react s
  | .sendQuery reqSrv key => bodySendQuery go reqSrv key s
  | .probe srvId key => bodyProbe go srvId key s
  | .flush fd => bodyFlush go fd s
  | .requeue key st inc rec deferred => bodyRequeue go key st inc rec deferred s
  | .endQuery srv key st rec => bodyEndQuery go srv key st rec s
  | .callback owner react st timeouts rec => bodyCallback go owner react st timeouts rec s
  | .userCb tok react st timeouts dg => bodyUserCb go tok react st timeouts dg s
  | .reactions l => bodyReactions go l s
  | .connError fd critical st => bodyConnError go fd critical st s
  | .closeConn fd st => bodyCloseConn go fd st s
  | .closeLoop fd st => bodyCloseLoop go fd st s
  | .processWrite fd => bodyProcessWrite go fd s
  | .processRead fd => bodyProcessRead go fd s
  | .readAnswers fd => bodyReadAnswers go fd s
  | .flushRequeue  => bodyFlushRequeue go  s
  | .processAnswer fd r => bodyProcessAnswer go fd r s
  | .processTimeouts  => bodyProcessTimeouts go  s
  | .cleanupConns todo => bodyCleanupConns go todo s
  | .clientStart kind tok react spec family => bodyClientStart go kind tok react spec family s
  | .runActs id acts => bodyRunActs go id acts s
  | .cancel  => bodyCancel go  s
  | .cancelLoop st fromAll => bodyCancelLoop go st fromAll s
  | .destroy  => bodyDestroy go  s

/-- run a procedure to completion: structural recursion on `fuel` (open recursion through `execBody`) -/
def exec : Nat → Call → St → St × Ret
  | 0, _, s => s.oof
  | fuel + 1, call, s => execBody (exec fuel) call s

end Cares.Chan
