import CaresModel.Chan.Types
/-
Compound requests layered on raw sends (ares_query.c, ares_search.c, …) as *pure* state machines:
`clientStart` is the entry point, `clientOnCb` the completion callback of one of the client's sub-requests;
both return the actions the C code performs next.  `Chan.Core.exec` runs the actions and is otherwise
independent of the individual request kinds.
-/
namespace Cares.Chan

def hexLower (h : String) : String :=
  -- lower-case an ASCII string given as hex pairs
  let cs := h.toList
  let rec go : List Char → List Char
    | a :: b :: r =>
      -- 0x41..0x5a -> 0x61..0x7a : high nibble 4→6, 5→7 (for 5: only 0x50..0x5a)
      let lowDigit := b.toNat
      let isLowOk5 := (b.isDigit) || b == 'a'
      if a == '4' && !(b == '0') then '6' :: b :: go r
      else if a == '5' && isLowOk5 then '7' :: b :: go r
      else
        let _ := lowDigit
        a :: b :: go r
    | r => r
  String.ofList (go cs)

def stripDot (h : String) : String :=
  if h.length ≥ 2 && (h.drop (h.length - 2)).toString == "2e" then (h.take (h.length - 2)).toString else h

def nameTextLen (hex : String) : Nat := hex.length / 2

structure ReqSpec where
  name : String
  qtype : Nat
  qclass : Nat := 1
  rd : Bool := true
  edns : Bool := false
  deriving Repr, Inhabited


inductive ClientAct where
  | send (spec : ReqSpec)                                 -- ares_send_nolock(…, callback = this client's)
  | sendSlot (spec : ReqSpec) (slot : Nat)                -- the same, remembering the query id (0: qid_a, 1: qid_aaaa)
  | noRetry (qid : Nat)                                   -- terminate_retries: query->no_retries = TRUE
  | finish (st : Status) (timeouts : Nat) (digest : String) -- user callback, then release the client
  deriving Repr, Inhabited

/-! ### callback digest -/

def toHexNat (n : Nat) : String := String.ofList (Nat.toDigits 16 n)

/-- text of the address carried by answer `i` of the virtual server's reply (see harness/h_sim.c) -/
def answerAddr (qtype mark i : Nat) : String :=
  if qtype == 28 then
    let g6 := mark / 256 % 256
    let g7 := (mark % 256) * 256 + (i + 1)
    if g6 == 0 then s!"2001::{toHexNat g7}" else s!"2001::{toHexNat g6}:{toHexNat g7}"
  else s!"10.{mark / 256 % 256}.{mark % 256}.{i + 1}"


def digest (r : Option Reply) : String :=
  match r with
  | none => "-"
  | some r =>
    let addrs := (List.range (min r.an 4)).map fun i =>
      let ttl := (r.ttls.getD i (r.ttls.getLastD 300))
      s!",{answerAddr r.qtype r.mark i}/{ttl}"
    s!"rc={r.rcode},an={r.an}" ++ String.join addrs

/-- ares_dns_query_reply_tostatus -/
def replyToStatus (rcode an : Nat) : Status :=
  match rcode with
  | 0 => if an > 0 then .ok else .nodata
  | 1 => .formerr
  | 2 => .servfail
  | 3 => .notfound
  | 4 => .notimp
  | 5 => .refused
  | _ => .ok

def hexDots (h : String) : Nat :=
  let rec go : List Char → Nat
    | a :: b :: r => (if a == '2' && b == 'e' then 1 else 0) + go r
    | _ => 0
  go h.toList

/-- ares_name_label_cnt -/
def labelCnt (h : String) : Nat := hexDots h + 1

/-- ares_search_name_list without HOSTALIASES (the simulator never sets it) -/
def searchNames (c : Cfg) (name : String) : List String :=
  let endsDot := name.length ≥ 2 && (name.drop (name.length - 2)).toString == "2e"
  if endsDot || c.nosearch then [name] else
  let nd := labelCnt name - 1
  let cat (d : String) : String := name ++ "2e" ++ (if d == "2e" then "" else d)
  (if nd ≥ c.ndots then [name] else []) ++ c.domains.map cat ++ (if nd < c.ndots then [name] else [])

/-- ares_is_onion_domain: the name is "onion" / "onion." or ends in ".onion" / ".onion." (any case) -/
def isOnion (name : String) : Bool :=
  let n := hexLower (stripDot name)
  n == "6f6e696f6e" || (n.length ≥ 12 && (n.drop (n.length - 12)).toString == "2e6f6e696f6e")

def St.client? (s : St) (id : Nat) : Option Client := s.clients.find? (·.id == id)
def St.modClient (s : St) (id : Nat) (f : Client → Client) : St :=
  { s with clients := s.clients.map fun c => if c.id == id then f c else c }

/-- next step of a search: send the next candidate (ares_search_next) -/
def searchNextAct (c : Client) : Client × List ClientAct :=
  match c.names with
  | [] => (c, [.finish .formerr c.timeouts "-"])
  | n :: rest =>
    ({ c with names := rest, lastName := n },
     [.send { name := n, qtype := c.qtype, qclass := c.qclass, rd := c.rd, edns := c.edns }])

/-! ### ares_getaddrinfo -/

def hexToText (h : String) : String :=
  let rec go : List Char → List Char
    | a :: b :: r =>
      let v (c : Char) : Nat := if c.isDigit then c.toNat - 48 else if c.toNat ≥ 97 then c.toNat - 87 else c.toNat - 55
      Char.ofNat (v a * 16 + v b) :: go r
    | _ => []
  String.ofList (go h.toList)

/-- is the text an IPv4 literal as fake_addrinfo sees it (digits and exactly three dots, each part ≤ 255) -/
def isV4Literal (h : String) : Bool :=
  let t := hexToText h
  let parts := t.splitOn "."
  parts.length == 4 && parts.all (fun p => !p.isEmpty && p.all Char.isDigit && p.length ≤ 3 && p.toNat! ≤ 255)

/-- ares_is_localhost -/
def isLocalhost (h : String) : Bool :=
  let n := hexLower h
  n == "6c6f63616c686f7374" || (n.length ≥ 20 && (n.drop (n.length - 20)).toString == "2e6c6f63616c686f7374")

def gaiDigest (c : Client) : String :=
  "ai=" ++ String.join (c.addrs.map (· ++ ";")) ++ (if c.aiName == "" then "" else "name=" ++ hexToText c.aiName)

/-- next_dns_lookup -/
def gaiNextDns (cfg : Cfg) (c : Client) : Option (Client × List ClientAct) :=
  match c.names with
  | [] => none
  | n :: rest =>
    let spec (t : Nat) : ReqSpec := { name := n, qtype := t, qclass := 1, rd := !cfg.norecurse, edns := cfg.ednsFlag }
    let c := { c with names := rest, lastName := n }
    if c.family == 2 then some ({ c with remaining := c.remaining + 1 }, [.sendSlot (spec 1) 0])
    else if c.family == 10 then some ({ c with remaining := c.remaining + 1 }, [.sendSlot (spec 28) 1])
    else some ({ c with remaining := c.remaining + 2 }, [.sendSlot (spec 1) 0, .sendSlot (spec 28) 1])

/-- next_lookup (the hosts file is empty in the simulator and localhost names are not generated) -/
def gaiNextLookup (cfg : Cfg) : Nat → Client → Status → Client × List ClientAct
  | 0, c, st => (c, [.finish st c.timeouts "ai="])
  | fuel + 1, c, st =>
    match c.lookups with
    | 'b' :: rest =>
      if !isLocalhost c.name then
        match gaiNextDns cfg c with
        | some r => r
        | none => gaiNextLookup cfg fuel { c with lookups := rest } st
      else gaiNextLookup cfg fuel { c with lookups := rest } st
    | 'f' :: rest => gaiNextLookup cfg fuel { c with lookups := rest } st
    | _ => (c, [.finish st c.timeouts "ai="])

def gaiStart (cfg : Cfg) (id tok : Nat) (react : List Nat) (spec : ReqSpec) (family : Nat) : Client × List ClientAct :=
  let c : Client := { id := id, kind := "gai", tok := tok, react := react, name := spec.name, family := family,
                      lookups := cfg.lookups.toList }
  if family != 0 && family != 2 && family != 10 then (c, [.finish .notimp 0 "ai="])
  else if isOnion spec.name then (c, [.finish .notfound 0 "ai="])
  else if isV4Literal spec.name then
    -- fake_addrinfo (an IPv4 literal is returned whatever the family: F32-C13)
    let t := hexToText spec.name
    (c, [.finish .ok 0 s!"ai={t}/0;cn=>{t}/0;"])
  else gaiNextLookup cfg 8 { c with names := searchNames cfg spec.name } .connrefused

/-- host_callback (behind ares_query_nolock's status conversion) -/
def gaiOnCb (cfg : Cfg) (c : Client) (st0 : Status) (timeouts : Nat) (rec : Option Reply) : Client × List ClientAct :=
  let st : Status := if st0 != .ok then st0 else
    match rec with
    | some r => replyToStatus r.rcode r.an
    | none => st0
  let c := { c with timeouts := c.timeouts + timeouts, remaining := c.remaining - 1 }
  -- ares_parse_into_addrinfo
  let (c, addinfo, acts) : Client × Status × List ClientAct :=
    match st, rec with
    | .ok, some r =>
      if r.an == 0 then (c, .nodata, []) else
      let isA := r.qtype == 1
      let isAAAA := r.qtype == 28
      if !isA && !isAAAA then
        -- the virtual server answers other types with A records too
        let nodes := (List.range r.an).map fun i => s!"{answerAddr 1 r.mark i}/{r.ttls.getD i (r.ttls.getLastD 300)}"
        let c := { c with addrs := c.addrs ++ nodes, hasV4 := true,
                          aiName := if hexLower c.aiName == hexLower r.name && c.aiName != "" then c.aiName else r.name }
        (c, .ok, [])
      else
        let nodes := (List.range r.an).map fun i => s!"{answerAddr r.qtype r.mark i}/{r.ttls.getD i (r.ttls.getLastD 300)}"
        let c := { c with addrs := c.addrs ++ nodes, hasV4 := c.hasV4 || isA,
                          aiName := if hexLower c.aiName == hexLower r.name && c.aiName != "" then c.aiName else r.name }
        -- terminate_retries on the other request once an IPv4 address is known
        let other := if r.id == c.qidA then c.qidAAAA else c.qidA
        (c, .ok, if c.hasV4 && c.remaining != 0 then [.noRetry other] else [])
    | _, _ => (c, .ok, [])
  if c.remaining != 0 then (c, acts) else
  if st == .destruction || st == .cancelled then (c, acts ++ [.finish st c.timeouts "ai="])
  else if addinfo != .ok && addinfo != .nodata then (c, acts ++ [.finish addinfo c.timeouts "ai="])
  else if !c.addrs.isEmpty then (c, acts ++ [.finish .ok c.timeouts (gaiDigest c)])
  else if st == .notfound || st == .nodata || addinfo == .nodata then
    let c := if st == .nodata || addinfo == .nodata then { c with nodataCnt := c.nodataCnt + 1 } else c
    let (c, a) := gaiNextLookup cfg 8 c (if c.nodataCnt != 0 then .nodata else st)
    (c, acts ++ a)
  else if (st == .servfail || st == .refused) && labelCnt c.lastName == 1 then
    let (c, a) := gaiNextLookup cfg 8 c (if c.nodataCnt != 0 then .nodata else st)
    (c, acts ++ a)
  else (c, acts ++ [.finish st c.timeouts "ai="])

/-- entry points: ares_query_nolock, ares_search_int -/
def clientStart (cfg : Cfg) (id : Nat) (kind : String) (tok : Nat) (react : List Nat) (spec : ReqSpec)
    (family : Nat := 0) : Client × List ClientAct :=
  if kind == "gai" then gaiStart cfg id tok react spec family
  else if kind == "query" then
    ({ id := id, kind := kind, tok := tok, react := react },
     [.send { spec with rd := !cfg.norecurse, edns := cfg.ednsFlag }])
  else
    let c : Client := { id := id, kind := "search", tok := tok, react := react, qtype := spec.qtype,
                        qclass := spec.qclass, rd := spec.rd, edns := spec.edns }
    if isOnion spec.name then (c, [.finish .notfound 0 "-"])
    else searchNextAct { c with names := searchNames cfg spec.name }

/-- completion callbacks: ares_query_dnsrec_cb, search_callback -/
def clientOnCb (cfg : Cfg) (c : Client) (st : Status) (timeouts : Nat) (rec : Option Reply) :
    Client × List ClientAct :=
  if c.kind == "gai" then gaiOnCb cfg c st timeouts rec
  else if c.kind == "query" then
    let st' := if st != .ok then st else
      match rec with
      | some r => replyToStatus r.rcode r.an
      | none => st
    (c, [.finish st' timeouts (digest rec)])
  else
    let c := { c with timeouts := c.timeouts + timeouts }
    let my : Status := match rec with
      | some r => replyToStatus r.rcode r.an
      | none => st
    let goOn : Bool :=
      my == .nodata || my == .notfound ||
      ((my == .servfail || my == .refused) && labelCnt c.lastName == 1)
    if !goOn then (c, [.finish my c.timeouts (digest rec)]) else
    let c := if my == .nodata then { c with everNodata := true } else c
    if !c.names.isEmpty then searchNextAct c
    else if c.everNodata then (c, [.finish .nodata c.timeouts "-"])
    else (c, [.finish my c.timeouts "-"])


end Cares.Chan
