import CaresModel.Chan.Types
/-
Compound requests layered on raw sends (ares_query.c, ares_search.c, …) as *pure* state machines:
`clientStart` is the entry point, `clientOnCb` the completion callback of one of the client's sub-requests;
both return the actions the C code performs next.  `Chan.Core.exec` runs the actions and is otherwise
independent of the individual request kinds.
-/
namespace Cares.Chan

def hexLower (h : String) : String :=
  -- lower-case an ASCII string given as hex pairs
  let cs := h.toList
  let rec go : List Char → List Char
    | a :: b :: r =>
      -- 0x41..0x5a -> 0x61..0x7a : high nibble 4→6, 5→7 (for 5: only 0x50..0x5a)
      let lowDigit := b.toNat
      let isLowOk5 := (b.isDigit) || b == 'a'
      if a == '4' && !(b == '0') then '6' :: b :: go r
      else if a == '5' && isLowOk5 then '7' :: b :: go r
      else
        let _ := lowDigit
        a :: b :: go r
    | r => r
  String.ofList (go cs)

def stripDot (h : String) : String :=
  if h.length ≥ 2 && (h.drop (h.length - 2)).toString == "2e" then (h.take (h.length - 2)).toString else h

def nameTextLen (hex : String) : Nat := hex.length / 2

structure ReqSpec where
  name : String
  qtype : Nat
  qclass : Nat := 1
  rd : Bool := true
  edns : Bool := false
  deriving Repr, Inhabited


inductive ClientAct where
  | send (spec : ReqSpec)                                 -- ares_send_nolock(…, callback = this client's)
  | finish (st : Status) (timeouts : Nat) (digest : String) -- user callback, then release the client
  deriving Repr, Inhabited

/-! ### callback digest -/

def digest (r : Option Reply) : String :=
  match r with
  | none => "-"
  | some r =>
    let addrs := (List.range (min r.an 4)).map fun i =>
      let ttl := (r.ttls.getD i (r.ttls.getLastD 300))
      s!",10.{r.mark / 256 % 256}.{r.mark % 256}.{i + 1}/{ttl}"
    s!"rc={r.rcode},an={r.an}" ++ String.join addrs

/-- ares_dns_query_reply_tostatus -/
def replyToStatus (rcode an : Nat) : Status :=
  match rcode with
  | 0 => if an > 0 then .ok else .nodata
  | 1 => .formerr
  | 2 => .servfail
  | 3 => .notfound
  | 4 => .notimp
  | 5 => .refused
  | _ => .ok

def hexDots (h : String) : Nat :=
  let rec go : List Char → Nat
    | a :: b :: r => (if a == '2' && b == 'e' then 1 else 0) + go r
    | _ => 0
  go h.toList

/-- ares_name_label_cnt -/
def labelCnt (h : String) : Nat := hexDots h + 1

/-- ares_search_name_list without HOSTALIASES (the simulator never sets it) -/
def searchNames (c : Cfg) (name : String) : List String :=
  let endsDot := name.length ≥ 2 && (name.drop (name.length - 2)).toString == "2e"
  if endsDot || c.nosearch then [name] else
  let nd := labelCnt name - 1
  let cat (d : String) : String := name ++ "2e" ++ (if d == "2e" then "" else d)
  (if nd ≥ c.ndots then [name] else []) ++ c.domains.map cat ++ (if nd < c.ndots then [name] else [])

/-- ares_is_onion_domain: the name is "onion" / "onion." or ends in ".onion" / ".onion." (any case) -/
def isOnion (name : String) : Bool :=
  let n := hexLower (stripDot name)
  n == "6f6e696f6e" || (n.length ≥ 12 && (n.drop (n.length - 12)).toString == "2e6f6e696f6e")

def St.client? (s : St) (id : Nat) : Option Client := s.clients.find? (·.id == id)
def St.modClient (s : St) (id : Nat) (f : Client → Client) : St :=
  { s with clients := s.clients.map fun c => if c.id == id then f c else c }

/-- next step of a search: send the next candidate (ares_search_next) -/
def searchNextAct (c : Client) : Client × List ClientAct :=
  match c.names with
  | [] => (c, [.finish .formerr c.timeouts "-"])
  | n :: rest =>
    ({ c with names := rest, lastName := n },
     [.send { name := n, qtype := c.qtype, qclass := c.qclass, rd := c.rd, edns := c.edns }])

/-- entry points: ares_query_nolock, ares_search_int -/
def clientStart (cfg : Cfg) (id : Nat) (kind : String) (tok : Nat) (react : List Nat) (spec : ReqSpec) :
    Client × List ClientAct :=
  if kind == "query" then
    ({ id := id, kind := kind, tok := tok, react := react },
     [.send { spec with rd := !cfg.norecurse, edns := cfg.ednsFlag }])
  else
    let c : Client := { id := id, kind := "search", tok := tok, react := react, qtype := spec.qtype,
                        qclass := spec.qclass, rd := spec.rd, edns := spec.edns }
    if isOnion spec.name then (c, [.finish .notfound 0 "-"])
    else searchNextAct { c with names := searchNames cfg spec.name }

/-- completion callbacks: ares_query_dnsrec_cb, search_callback -/
def clientOnCb (_cfg : Cfg) (c : Client) (st : Status) (timeouts : Nat) (rec : Option Reply) :
    Client × List ClientAct :=
  if c.kind == "query" then
    let st' := if st != .ok then st else
      match rec with
      | some r => replyToStatus r.rcode r.an
      | none => st
    (c, [.finish st' timeouts (digest rec)])
  else
    let c := { c with timeouts := c.timeouts + timeouts }
    let my : Status := match rec with
      | some r => replyToStatus r.rcode r.an
      | none => st
    let goOn : Bool :=
      my == .nodata || my == .notfound ||
      ((my == .servfail || my == .refused) && labelCnt c.lastName == 1)
    if !goOn then (c, [.finish my c.timeouts (digest rec)]) else
    let c := if my == .nodata then { c with everNodata := true } else c
    if !c.names.isEmpty then searchNextAct c
    else if c.everNodata then (c, [.finish .nodata c.timeouts "-"])
    else (c, [.finish my c.timeouts "-"])


end Cares.Chan
