import CaresModel.Proto.Cookie
/-
Channel model — state.  Models the request life cycle of
  ares_send.c, ares_process.c, ares_conn.c, ares_close_sockets.c, ares_cancel.c, ares_destroy.c,
  ares_timeout.c, legacy/ares_getsock.c
against a virtual socket layer (the one implemented by harness/h_sim.c).

Pointers are ids: a query is a key into `qs`, a connection is its descriptor number (never reused by
the virtual socket layer), a server is its configuration index.  Released objects are removed from
their store; a C frame that goes on using a local pointer to a released object is a modelled fault.
Messages are abstract (id, question, rcode, flags, OPT/cookie, answers with TTLs and a marker).
-/
namespace Cares.Chan

inductive Status where
  | ok | nodata | formerr | servfail | notfound | notimp | refused | badquery | badname | badfamily
  | badresp | connrefused | timeout | eof | efile | nomem | destruction | badstr | cancelled | noserver
  | other
  deriving DecidableEq, Repr, Inhabited

def Status.name : Status → String
  | .ok => "ok" | .nodata => "nodata" | .formerr => "formerr" | .servfail => "servfail"
  | .notfound => "notfound" | .notimp => "notimp" | .refused => "refused" | .badquery => "badquery"
  | .badname => "badname" | .badfamily => "badfamily" | .badresp => "badresp"
  | .connrefused => "connrefused" | .timeout => "timeout" | .eof => "eof" | .efile => "efile"
  | .nomem => "nomem" | .destruction => "destruction" | .badstr => "badstr"
  | .cancelled => "cancelled" | .noserver => "noserver" | .other => "other"

/-- channel configuration as given to `chan` (ares_init_options + ares_set_servers_ports_csv) -/
structure Cfg where
  flags : Nat := 0
  tries : Nat := 3
  timeout : Nat := 2000
  maxtimeout : Nat := 0
  rotate : Bool := false
  udpMax : Nat := 0
  cacheTtl : Nat := 0
  retryChance : Nat := 0
  retryDelay : Nat := 5000
  pendingWrite : Bool := false
  ndots : Nat := 1
  domains : List String := []     -- search domains (hex of text form)
  lookups : String := "b"
  deriving Repr, Inhabited

def Cfg.flag (c : Cfg) (bit : Nat) : Bool := (c.flags / (2 ^ bit)) % 2 = 1
def Cfg.usevc (c : Cfg) := c.flag 0
def Cfg.igntc (c : Cfg) := c.flag 2
def Cfg.stayopen (c : Cfg) := c.flag 4
def Cfg.nocheckresp (c : Cfg) := c.flag 7
def Cfg.dns0x20 (c : Cfg) := c.flag 10
def Cfg.norecurse (c : Cfg) := c.flag 3
def Cfg.nosearch (c : Cfg) := c.flag 5
def Cfg.ednsFlag (c : Cfg) := c.flag 8

/-- abstract DNS response as built by the virtual server for transmission `tx` -/
structure Reply where
  id : Nat
  name : String            -- question name, hex of the text form
  qtype : Nat
  qclass : Nat
  rcode : Nat
  tc : Bool := false
  hasOpt : Bool := false
  cookie : Option String := none   -- hex of the COOKIE option value
  an : Nat := 0                    -- number of answer records
  ttls : List Nat := []            -- TTL of each answer
  mark : Nat := 0                  -- marker carried in the answer addresses
  soa : Option (Nat × Nat) := none -- (ttl, minimum) of an authority SOA
  garbage : Bool := false
  empty : Bool := false
  wrongsrc : Bool := false
  len : Nat := 0
  deriving Repr, Inhabited, DecidableEq

inductive Owner where
  | user (tok : Nat)      -- application callback identified by its token
  | probe (srv : Nat)     -- server_probe_cb; its argument is the probed server
  | client (id : Nat)     -- completion callback of a compound request (ares_query / ares_search / …)
  deriving Repr, DecidableEq, Inhabited

/-- per-request deadline; `pending lo hi` = sent with jitter, exact value observed at the end of the op -/
inductive Deadline where
  | none
  | at (ms : Nat)
  | pending (lo hi : Nat)
  deriving Repr, DecidableEq, Inhabited

structure Query where
  key : Nat
  qid : Nat
  owner : Owner
  react : List Nat := []
  name : String            -- hex of the name as sent (0x20 case applied)
  qtype : Nat
  qclass : Nat
  rd : Bool := true
  edns : Bool := false
  cookie : String := "-"   -- cookie option of the request as last sent (hex, for the tx event)
  reqCookie : Option (List UInt8) := none   -- COOKIE option currently stored in the request's OPT RR
  usingTcp : Bool := false
  tryCount : Nat := 0
  noRetries : Bool := false
  errorStatus : Status := .ok
  timeouts : Nat := 0
  cookieTry : Nat := 0
  conn : Option Nat := none
  inConnList : Bool := false
  deadline : Deadline := .none
  ts : Nat := 0
  deriving Repr, Inhabited

/-- one queued outbound frame (2-byte length prefix included in `len`) -/
structure OutFrame where
  len : Nat
  key : Nat                -- query it belongs to (for the tx event fields)
  qid : Nat
  name : String
  qtype : Nat
  qclass : Nat
  rd : Bool
  edns : Bool
  cookie : String
  deriving Repr, Inhabited

structure Conn where
  fd : Nat
  srv : Nat
  tcp : Bool
  connected : Bool := false
  total : Nat := 0
  queries : List Nat := []          -- queries_to_conn, in order
  notR : Bool := false
  notW : Bool := false
  out : List OutFrame := []         -- out_buf
  outOff : Nat := 0                 -- bytes of the first frame already written
  inBytes : Nat := 0                -- bytes buffered in in_buf
  inMsgs : List (Nat × Reply) := [] -- stream positions: (end offset in the inbound stream, message)
  unlinked : Bool := false          -- being closed: no longer reachable from server / fd table
  selfIp : Nat := 0                 -- which local address getsockname reported (variant number)
  deriving Repr, Inhabited

structure Bucket where
  ts : Nat := 0
  prevTs : Nat := 0
  totalMs : Nat := 0
  totalCount : Nat := 0
  prevTotalMs : Nat := 0
  prevTotalCount : Nat := 0
  deriving Repr, Inhabited

structure Server where
  id : Nat
  addr : String
  udpPort : Nat := 53
  tcpPort : Nat := 53
  failures : Nat := 0
  conns : List Nat := []            -- fds; UDP newest first, TCP last
  tcpConn : Option Nat := none
  nextRetry : Nat := 0              -- 0 = unset; absolute ms
  probePending : Bool := false
  metrics : List Bucket := [{}, {}, {}, {}, {}]
  cookie : Cares.Proto.Cookie.CookieSt := Cares.Proto.Cookie.CookieSt.cleared
  deriving Repr, Inhabited

/-- virtual socket (the harness's side of the wire) -/
structure VSock where
  fd : Nat
  tcp : Bool
  isOpen : Bool := true
  peer : String := ""
  port : Nat := 0
  rx : List Reply := []             -- queued datagrams (UDP)
  stream : List (Nat × Reply) := [] -- TCP: (end offset, message) of every message appended to the stream
  slen : Nat := 0
  spos : Nat := 0
  chunks : List Nat := []
  eof : Bool := false
  reset : Bool := false
  wl : List Nat := []               -- write acceptance sizes
  srvBytes : Nat := 0               -- bytes received by the virtual server
  deriving Repr, Inhabited

structure Tx where
  n : Nat
  fd : Nat
  tcp : Bool
  id : Nat
  name : String
  qtype : Nat
  qclass : Nat
  rd : Bool
  edns : Bool
  cookie : String
  len : Nat
  key : Nat := 0           -- ghost: the query this transmission belongs to
  deriving Repr, Inhabited

structure Reaction where
  kind : String
  name : String := ""
  qtype : Nat := 1
  tok : Nat := 0
  react : List Nat := []
  deriving Repr, Inhabited

/-- a compound request layered on raw sends: `qquery` of ares_query.c, `search_query` of ares_search.c -/
structure Client where
  id : Nat
  kind : String              -- "query" | "search"
  tok : Nat
  react : List Nat := []
  names : List String := []  -- remaining candidate names (hex of text form)
  lastName : String := ""    -- candidate whose request is outstanding
  qtype : Nat := 1
  qclass : Nat := 1
  rd : Bool := true
  edns : Bool := false
  timeouts : Nat := 0
  everNodata : Bool := false
  -- ares_getaddrinfo (struct host_query)
  name : String := ""          -- the name as given (hex)
  family : Nat := 0            -- AF_UNSPEC 0 / AF_INET 2 / AF_INET6 10
  lookups : List Char := []    -- remaining_lookups
  remaining : Nat := 0         -- DNS answers still waited for
  nodataCnt : Nat := 0
  addrs : List String := []    -- collected nodes, rendered "addr/ttl"
  hasV4 : Bool := false
  aiName : String := ""        -- ai->name (hex)
  qidA : Nat := 0
  qidAAAA : Nat := 0
  deriving Repr, Inhabited

structure CacheEntry where
  name : String      -- lower-cased hex name, trailing dot stripped
  qtype : Nat
  qclass : Nat
  rd : Bool
  expire : Nat       -- seconds
  insert : Nat       -- seconds
  reply : Reply
  inTable : Bool := true   -- still the table's entry for its key
  deriving Repr, Inhabited

structure ScriptedFault where
  call : String
  nth : Nat
  err : Nat
  deriving Repr, Inhabited

/-- what the implementation was seen to do where the code leaves a choice to the RNG -/
structure Obs where
  rnd1 : List Nat := []            -- 1-byte draws, in order
  rnd2 : List Nat := []            -- 2-byte draws (little endian), in order
  rnd8 : List String := []         -- 8-byte draws that generated a client cookie (hex), in order
  txNames : List (Nat × String) := []   -- (tx number, name as transmitted)
  txCookies : List (Nat × String) := []
  dls : List (Nat × Int) := []     -- (qid, remaining ms) at the end of the op
  deriving Repr, Inhabited

structure St where
  cfg : Cfg := {}
  alive : Bool := false            -- channel exists
  now : Nat := 0
  servers : List Server := []
  conns : List Conn := []
  qs : List Query := []
  nextKey : Nat := 0
  all : List Nat := []
  byQid : List (Nat × Nat) := []
  byTimeout : List Nat := []
  listCopy : List (List Nat) := []  -- stack of lists being walked by ares_cancel / ares_destroy
  socks : List VSock := []
  nextFd : Nat := 100
  faults : List ScriptedFault := []
  pendingWl : List Nat := []
  txs : List Tx := []
  cache : List CacheEntry := []
  reactions : List (Nat × Reaction) := []
  pendingToks : List Nat := []     -- accepted, callback not yet made
  doneToks : List Nat := []        -- callback made (in order)
  notifyPending : Bool := false
  ev : List String := []           -- events of the current op, newest first
  obs : Obs := {}
  modelFaults : List String := []  -- use of a released object / dangling index entry (safety faults)
  obsFaults : List String := []    -- the observation offered no (or an out-of-policy) value for a free choice
  outOfFuel : Bool := false
  destroyed : Bool := false
  destroying : Bool := false
  selfVariant : Nat := 0           -- local address the virtual OS currently reports
  lastQid : Nat := 0               -- id of the query created by the latest ares_send_nolock
  clients : List Client := []
  nextClient : Nat := 0
  reactSeq : Nat := 0
  pendingOrder : List Nat := []    -- keys whose jittered deadline awaits observation, in send order
  requeueArr : List (Nat × Option Nat) := []
  /- ghost history (never read by the transitions; the theorems are stated over it) -/
  writeLog : List Nat := []                      -- query key of every frame handed to a connection's out buffer
  notifyLog : List (Nat × Bool × Bool) := []     -- every socket-state notification made: (fd, read, write)
  sockLog : List (Nat × String) := []            -- every virtual socket call: (fd, call), oldest first
  accepted : List (Nat × Nat × Reply) := []      -- (fd it arrived on, query key, reply) that passed all checks
  picks : List (Nat × Nat × Bool × List (Nat × Nat)) := []  -- (query key, chosen server, requested, [(server, failures)])  -- read_answers' deferred requeue array: (qid, server)
  deriving Repr, Inhabited

end Cares.Chan
