import CaresModel.Generated.ProtoConsts
/-!
# `Proto.Cookie` — RFC 7873 client cookies as implemented by `src/lib/ares_cookie.c`

`apply` models `ares_cookie_apply(dnsrec, conn, now)` (called before every write of a request) and `validate`
models `ares_cookie_validate(query, dnsresp, conn, now, &requeue)` (called before a response is accepted), both as
pure functions.  The code is followed statement by statement, including

* `timeval_is_set` — defined from the table the generator *observed* in the compiled code
  (`Generated.Proto.TIMEVAL_IS_SET_su`), so the model follows the tree under check on the `&&` / `||` question (F18);
* `ares_addr_equal` on two unknown local addresses (AF_UNSPEC) and whether `ares_cookie_validate` records support
  while no client cookie is in use — both likewise *observed* (`ADDR_EQUAL_UNSPEC`, `VALIDATE_LEARNS_WHEN_CLEARED`:
  F30-C17);
* `timeval_expired` / `ares_timeval_diff` with the exact integer arithmetic (`sec` is a signed 64-bit value, `usec`
  unsigned; equal `usec` fields take the borrow branch);
* the three timers as *used* (the unsupported-state retry uses the regression constant);
* the constants, regenerated from source (`Generated.Proto.COOKIE_*`).

Not modelled: allocation failure in `ares_dns_rr_set_opt` (allocation succeeds), the other EDNS options of the
request (they are left alone by the code), the position of the COOKIE option inside the OPT record.

Conventions: `Bytes = List UInt8`; a request's EDNS state is `ReqOpt = Option (Option Bytes)`:
`none` = no OPT RR, `some none` = OPT RR without COOKIE option, `some (some c)` = COOKIE option with value `c`.
A response's cookie is `Option Bytes` (`none` = no OPT RR or no COOKIE option: `ares_dns_cookie_fetch` = NULL).
-/
namespace Cares.Proto.Cookie
open Cares.Generated.Proto

abbrev Bytes := List UInt8

/-- `ares_timeval_t`: `sec` is `ares_int64_t`, `usec` is `unsigned int` -/
structure TimeVal where
  sec : Int
  usec : Nat
deriving DecidableEq, Repr, Inhabited

def TimeVal.zero : TimeVal := ⟨0, 0⟩

/-- `timeval_is_set`, read off the table observed in the compiled code (pinned tree: `sec ≠ 0 && usec ≠ 0`) -/
def isSetTable (s10 s01 s11 s00 : Bool) (tv : TimeVal) : Bool :=
  if tv.sec ≠ 0 then (if tv.usec ≠ 0 then s11 else s10) else (if tv.usec ≠ 0 then s01 else s00)

def timevalIsSet (tv : TimeVal) : Bool :=
  isSetTable TIMEVAL_IS_SET_10 TIMEVAL_IS_SET_01 TIMEVAL_IS_SET_11 TIMEVAL_IS_SET_00 tv

/-- the pinned tree's `timeval_is_set` (`&&`), kept for the kernel-checked counterexample of F18 -/
def timevalIsSetAnd (tv : TimeVal) : Bool := tv.sec ≠ 0 && tv.usec ≠ 0
/-- the repaired `timeval_is_set` (`||`) -/
def timevalIsSetOr (tv : TimeVal) : Bool := tv.sec ≠ 0 || tv.usec ≠ 0

/-- `ares_timeval_diff(&d, start, stop)` followed by `d.sec * 1000 + d.usec / 1000` (milliseconds, signed).
    `usec` fields are `< 1000000` as produced by `ares_tvnow`, so the unsigned subtraction cannot wrap. -/
def diffMs (start stop : TimeVal) : Int :=
  if stop.usec > start.usec then
    (stop.sec - start.sec) * 1000 + ((stop.usec - start.usec) / 1000 : Nat)
  else
    (stop.sec - start.sec - 1) * 1000 + ((stop.usec + 1000000 - start.usec) / 1000 : Nat)

/-- `timeval_expired(tv, now, millisecs)` -/
def expired (tv now : TimeVal) (ms : Nat) : Bool := decide (diffMs tv now ≥ (ms : Int))

/-- `struct ares_addr` as far as `ares_addr_equal` looks at it -/
structure Addr where
  family : Nat
  bytes : Bytes
deriving DecidableEq, Repr, Inhabited

def Addr.zero : Addr := ⟨0, []⟩

/-- `ares_addr_equal`: AF_INET / AF_INET6 addresses are compared; what two unknown addresses (AF_UNSPEC, the
    `self_ip` of a connection whose socket functions have no `getsockname`) yield is observed by the generator
    (`ADDR_EQUAL_UNSPEC`: 0 on the pinned tree — F30-C17 —, 1 after the repair); any other family: never equal -/
def addrEqualWith (unspecEq : Bool) (a b : Addr) : Bool :=
  if a.family ≠ b.family then false
  else if a.family = AF_INET then a.bytes.take 4 == b.bytes.take 4
  else if a.family = AF_INET6 then a.bytes.take 16 == b.bytes.take 16
  else if a.family = AF_UNSPEC then unspecEq
  else false

def addrEqual (a b : Addr) : Bool := addrEqualWith (ADDR_EQUAL_UNSPEC == 1) a b

/-- `ares_cookie_state_t` -/
inductive CState where
  | initial | generated | supported | unsupported
deriving DecidableEq, Repr, Inhabited

/-- `ares_cookie_t` (`server_len` is `server.length`) -/
structure CookieSt where
  state : CState
  client : Bytes
  clientTs : TimeVal
  clientIp : Addr
  server : Bytes
  unsupportedTs : TimeVal
deriving DecidableEq, Repr, Inhabited

def zeroClient : Bytes := List.replicate COOKIE_CLIENT_LEN 0

/-- `ares_cookie_clear`: `memset` + `state = INITIAL` (also the state of a freshly created server) -/
def CookieSt.cleared : CookieSt :=
  { state := .initial, client := zeroClient, clientTs := .zero, clientIp := .zero, server := [],
    unsupportedTs := .zero }

/-- what `ares_cookie_apply` reads of the connection -/
structure Conn where
  selfIp : Addr
  tcp : Bool
deriving DecidableEq, Repr, Inhabited

abbrev ReqOpt := Option (Option Bytes)

/-- `ares_cookie_generate` with the 8 random bytes `fresh` -/
def generate (c : CookieSt) (conn : Conn) (now : TimeVal) (fresh : Bytes) : CookieSt :=
  { c with client := fresh, clientTs := now, clientIp := conn.selfIp }

/-- `ares_cookie_clear_server` -/
def clearServer (c : CookieSt) : CookieSt := { c with server := [] }

/-- result of `applyWith`: new per-server state, the request's EDNS state after the call, number of calls of
    `ares_rand_bytes` (each would use 8 new random bytes; `apply_draws_le_one` shows there is at most one) -/
structure ApplyOut where
  ck : CookieSt
  req : ReqOpt
  draws : Nat
deriving DecidableEq, Repr

/-- step 3 of `ares_cookie_apply`: "look for regression" -/
def regress (isSet : TimeVal → Bool) (c : CookieSt) (now : TimeVal) : CookieSt :=
  if c.state = .supported && isSet c.unsupportedTs && expired c.unsupportedTs now COOKIE_REGRESSION_TIMEOUT_MS
  then CookieSt.cleared else c

/-- step 4, first half: the server is known not to support cookies and the timer (the *regression* constant, as
    coded; the comment in the source says 300 s) has not expired: no cookie is sent -/
def quiet (c : CookieSt) (now : TimeVal) : Bool :=
  c.state = .unsupported && !expired c.unsupportedTs now COOKIE_REGRESSION_TIMEOUT_MS

/-- step 4, second half: "we want to try to learn again" -/
def relearn (c : CookieSt) : CookieSt := if c.state = .unsupported then CookieSt.cleared else c

/-- step 5: generate a new cookie in the INITIAL state -/
def genInitial (c : CookieSt) (conn : Conn) (now : TimeVal) (fresh : Bytes) : CookieSt :=
  if c.state = .initial then { generate c conn now fresh with state := .generated } else c

/-- step 6 condition: the client address changed -/
def ipChanged (c : CookieSt) (conn : Conn) : Bool :=
  (c.state = .generated || c.state = .supported) && !addrEqual conn.selfIp c.clientIp

def genIp (c : CookieSt) (conn : Conn) (now : TimeVal) (fresh : Bytes) : CookieSt :=
  if ipChanged c conn then generate (clearServer c) conn now fresh else c

/-- step 7 condition: the client cookie has reached its maximum age -/
def rotationDue (c : CookieSt) (now : TimeVal) : Bool :=
  c.state = .supported && expired c.clientTs now COOKIE_CLIENT_TIMEOUT_MS

def genRotate (c : CookieSt) (conn : Conn) (now : TimeVal) (fresh : Bytes) : CookieSt :=
  if rotationDue c now then generate (clearServer c) conn now fresh else c

/-- `ares_cookie_apply`, parametric in `timeval_is_set` -/
def applyWith (isSet : TimeVal → Bool) (c : CookieSt) (conn : Conn) (now : TimeVal) (fresh : Bytes)
    (req : ReqOpt) : ApplyOut :=
  match req with
  | none => ⟨c, none, 0⟩                              -- no OPT RR: nothing to do
  | some _ =>
    if conn.tcp then ⟨c, some none, 0⟩                -- no cookies on TCP: delete the option
    else
      let c1 := regress isSet c now
      if quiet c1 now then ⟨c1, some none, 0⟩
      else
        let c2 := relearn c1
        let c3 := genInitial c2 conn now fresh
        let c4 := genIp c3 conn now fresh
        let c5 := genRotate c4 conn now fresh
        ⟨c5, some (some (c5.client ++ c5.server)),
         (if c2.state = .initial then 1 else 0) + (if ipChanged c3 conn then 1 else 0) +
         (if rotationDue c4 now then 1 else 0)⟩

def apply := applyWith timevalIsSet

/-- the per-query fields `ares_cookie_validate` touches -/
structure QState where
  cookieTry : Nat
  usingTcp : Bool
deriving DecidableEq, Repr, Inhabited

inductive Verdict where
  | accept | drop
deriving DecidableEq, Repr

/-- result of `validateWith`; `requeue` = the query was handed to `ares_requeue_query` (without counting a try);
    `oob` = the 8-byte `memcmp` would read past a request cookie shorter than 8 bytes -/
structure ValidateOut where
  ck : CookieSt
  q : QState
  verdict : Verdict
  requeue : Bool
  oob : Bool
deriving DecidableEq, Repr

/-- does a reply with a server cookie move a *cleared* state (INITIAL / UNSUPPORTED: no client cookie in use) to
    SUPPORTED?  Observed by the generator: yes on the pinned tree, no after the repair of F30-C17 (support is only
    recorded while a client cookie is in use, otherwise the all-zero cookie of the cleared state could be sent). -/
def learnsWhenCleared : Bool := VALIDATE_LEARNS_WHEN_CLEARED == 1

/-- `ares_cookie_validate`, parametric in `timeval_is_set`.  `reqCookie` is the COOKIE option of the request as it
    was last written, `respCookie` that of the response, `rcode` the response's (extended) rcode. -/
def validateWith (isSet : TimeVal → Bool) (c : CookieSt) (q : QState) (reqCookie respCookie : Option Bytes)
    (rcode : Nat) (now : TimeVal) : ValidateOut :=
  let respLen := match respCookie with | some r => r.length | none => 0
  -- invalid cookie length: drop
  if respCookie.isSome && (respLen < 8 || respLen > 40) then ⟨c, q, .drop, false, false⟩ else
  match reqCookie with
  | none => ⟨c, q, .accept, false, false⟩             -- did not request cookies
  | some rq =>
    let oob := decide (rq.length < 8) && respCookie.isSome
    -- 8-byte prefix must be the client cookie we sent
    if (match respCookie with | some r => rq.take 8 != r.take 8 | none => false) then ⟨c, q, .drop, false, oob⟩ else
    -- a server cookie came back: the server supports cookies
    let c1 := match respCookie with
      | some r =>
        if decide (r.length > 8) && (learnsWhenCleared || c.state = .generated || c.state = .supported) then
          let c' := { c with state := .supported, unsupportedTs := .zero }
          if c'.client == rq.take COOKIE_CLIENT_LEN then { c' with server := r.drop 8 } else c'
        else c
      | none => c
    if rcode = RCODE_BADCOOKIE then
      if respCookie.isNone then ⟨c1, q, .drop, false, oob⟩ else
      let n := q.cookieTry + 1
      ⟨c1, { cookieTry := n, usingTcp := q.usingTcp || decide (n ≥ COOKIE_RESEND_MAX) }, .drop, true, oob⟩
    else if respLen > 8 then ⟨c1, q, .accept, false, oob⟩
    else if c1.state = .supported then
      let c2 := if !isSet c1.unsupportedTs then { c1 with unsupportedTs := now } else c1
      ⟨c2, q, .drop, false, oob⟩
    else if c1.state = .generated then
      ⟨{ CookieSt.cleared with state := .unsupported, unsupportedTs := now }, q, .accept, false, oob⟩
    else ⟨c1, q, .accept, false, oob⟩

def validate := validateWith timevalIsSet

end Cares.Proto.Cookie
