import CaresModel.Generated.ProtoConsts
/-!
# `Proto.Qcache` — the query cache of `src/lib/ares_qcache.c`

Modelled as it is written:

* `calcKey` = `ares_qcache_calc_key`: `OPCODE|FLAGS[|QTYPE|QCLASS|QNAME]…`, RD/CD only, one trailing dot stripped.
  The type/class rendering follows the tree under check: the generator observes the format
  (`Generated.Proto.QCACHE_KEY_FORMAT`: 0 = the `*_tostr` mnemonics of the pinned tree, where every type without a
  mnemonic is `"UNKNOWN"` — F13 —, 1 = decimal numbers).
* the cache = a case-insensitive string table (`ares_htable_strvp` created with *no* value destructor, keys compared
  with `strcasecmp`) plus an expiry-ordered list (`ares_slist`).  Entries with equal keys can coexist in the list; the
  table keeps the latest one; expiring *any* entry removes its key from the table — also when the table holds a newer
  entry under that key.  Entries have an identity (`eid`, the C pointer).
* `insert` = `ares_qcache_insert_int` (rcode and TC filter, min TTL over non-OPT/SOA/SIG records or `min(ttl,
  MINIMUM)` of the first authority SOA for NXDOMAIN, cap by `max_ttl`, TTL 0 refused), `expire`, `fetch`
  (expire-then-lookup, `ttl_decrement = (unsigned)(now − insert)`), `flush`.
* TTL exposure: `wireTtl` (`ares_dns_write_rr`: `ttl_decrement > ttl ? 0 : ttl − ttl_decrement`, the legacy buffer
  path) and `apiTtl` (`ares_dns_rr_get_ttl`, observed: `Generated.Proto.RR_GET_TTL_DECREMENTS`, F12).

Characters are `Nat` codes (`Chars = List Nat`); names are the C strings held by the record (no NUL inside).
Allocation succeeds.  `Entry.req` is a ghost field (the request the entry was stored for); no operation reads it.
-/
namespace Cares.Proto.Qcache
open Cares.Generated.Proto

abbrev Chars := List Nat

structure Question where
  name : Chars
  qtype : Nat
  qclass : Nat
deriving DecidableEq, Repr, Inhabited

structure Req where
  opcode : Nat
  rd : Bool
  cd : Bool
  questions : List Question
deriving DecidableEq, Repr, Inhabited

/-- a resource record as far as the cache looks at it: section, type, TTL, and the MINIMUM field if it is a SOA -/
structure RR where
  sect : Nat
  rtype : Nat
  ttl : Nat
  soaMin : Nat
deriving DecidableEq, Repr, Inhabited

/-- a response as far as the cache looks at it; `id` stands for the rest of the message (identity of the answer) -/
structure Resp where
  id : Nat
  rcode : Nat
  tc : Bool
  rrs : List RR
deriving DecidableEq, Repr, Inhabited

/-! ## key -/

/-- `strcasecmp` folding (libc `tolower`, C locale) -/
def lower (c : Nat) : Nat := LIBC_TOLOWER.getD c c

def lowerAll (s : Chars) : Chars := s.map lower

def strChars (s : String) : Chars := s.toList.map Char.toNat

def bar : Nat := 124
def dot : Nat := 46

/-- decimal digits, most significant first (`ares_buf_append_num_dec(buf, n, 0)`); structural recursion on a fuel
    argument so that the kernel can evaluate it -/
def decAux : Nat → Nat → Chars
  | 0, _ => []
  | f + 1, n => if n < 10 then [48 + n] else decAux f (n / 10) ++ [48 + n % 10]

def decChars (n : Nat) : Chars := decAux (n + 1) n

/-- `name_len = strlen(name); if (name_len && name[name_len-1] == '.') name_len--` -/
def stripDot (name : Chars) : Chars :=
  if name.getLast? = some dot then name.dropLast else name

def flagChars (rd cd : Bool) : Chars :=
  (if rd then strChars "rd" else []) ++ (if cd then strChars "cd" else [])

def typeChars (numeric : Bool) (t : Nat) : Chars := if numeric then decChars t else strChars (recTypeStr t)
def classChars (numeric : Bool) (c : Nat) : Chars := if numeric then decChars c else strChars (classStr c)

def questionKey (numeric : Bool) (q : Question) : Chars :=
  bar :: typeChars numeric q.qtype ++ bar :: classChars numeric q.qclass ++ bar :: stripDot q.name

def questionsKey (numeric : Bool) : List Question → Chars
  | [] => []
  | q :: qs => questionKey numeric q ++ questionsKey numeric qs

def calcKeyWith (numeric : Bool) (r : Req) : Chars :=
  strChars (opcodeStr r.opcode) ++ bar :: flagChars r.rd r.cd ++ questionsKey numeric r.questions

/-- `ares_qcache_calc_key` of the tree under check -/
def calcKey (r : Req) : Chars := calcKeyWith (QCACHE_KEY_FORMAT == 1) r

/-- the table's view of a key (`strcasecmp` equality ⇔ equal folded strings) -/
def tkey (r : Req) : Chars := lowerAll (calcKey r)

/-! ## cache state -/

structure Entry where
  eid : Nat
  key : Chars
  resp : Resp
  expireTs : Int
  insertTs : Int
  req : Req
deriving DecidableEq, Repr, Inhabited

structure Cache where
  maxTtl : Nat
  nextId : Nat
  table : List (Chars × Nat)
  expire : List Entry
deriving Repr, Inhabited

def Cache.empty (maxTtl : Nat) : Cache := { maxTtl := maxTtl, nextId := 0, table := [], expire := [] }

def tableRemove (k : Chars) (t : List (Chars × Nat)) : List (Chars × Nat) := t.filter (fun p => p.1 ≠ k)
def tableInsert (k : Chars) (v : Nat) (t : List (Chars × Nat)) : List (Chars × Nat) := (k, v) :: tableRemove k t
def tableGet (k : Chars) (t : List (Chars × Nat)) : Option Nat := (t.find? (fun p => p.1 = k)).map (·.2)

/-- sorted insert by `expire_ts` (after the entries that do not expire later) -/
def slistInsert (e : Entry) : List Entry → List Entry
  | [] => [e]
  | x :: xs => if x.expireTs ≤ e.expireTs then x :: slistInsert e xs else e :: x :: xs

/-! ## TTL of a response -/

def UINT_MAX : Nat := 2 ^ UINT_BITS - 1

/-- `ares_qcache_calc_minttl` -/
def minTtl : List RR → Nat
  | [] => UINT_MAX
  | rr :: rs =>
    if rr.rtype = REC_TYPE_OPT ∨ rr.rtype = REC_TYPE_SOA ∨ rr.rtype = REC_TYPE_SIG then minTtl rs
    else min rr.ttl (minTtl rs)

/-- `ares_qcache_soa_minimum`: first SOA of the authority section -/
def soaMinimum : List RR → Nat
  | [] => 0
  | rr :: rs =>
    if rr.sect = SECTION_AUTHORITY ∧ rr.rtype = REC_TYPE_SOA then (if rr.ttl > rr.soaMin then rr.soaMin else rr.ttl)
    else soaMinimum rs

def ttlOf (r : Resp) : Nat := if r.rcode = RCODE_NXDOMAIN then soaMinimum r.rrs else minTtl r.rrs

/-- an answer of a kind the cache accepts at all -/
def cacheable (r : Resp) : Bool := (r.rcode = RCODE_NOERROR ∨ r.rcode = RCODE_NXDOMAIN) && !r.tc

/-! ## operations -/

inductive InsResult where
  | ok | notimp | refused
deriving DecidableEq, Repr

/-- the lifetime given to an accepted response: `if (ttl > qcache->max_ttl) ttl = qcache->max_ttl` -/
def effTtl (maxTtl : Nat) (r : Resp) : Nat := if ttlOf r > maxTtl then maxTtl else ttlOf r

/-- `ares_qcache_insert` / `ares_qcache_insert_int` -/
def insert (c : Cache) (nowSec : Int) (req : Req) (resp : Resp) : Cache × InsResult :=
  if resp.rcode ≠ RCODE_NOERROR ∧ resp.rcode ≠ RCODE_NXDOMAIN then (c, .notimp)
  else if resp.tc then (c, .notimp)
  else if effTtl c.maxTtl resp = 0 then (c, .refused)
  else
    let e : Entry := { eid := c.nextId, key := calcKey req, resp := resp,
                       expireTs := nowSec + (effTtl c.maxTtl resp : Int), insertTs := nowSec, req := req }
    ({ c with nextId := c.nextId + 1, table := tableInsert (lowerAll e.key) e.eid c.table,
              expire := slistInsert e c.expire }, .ok)

/-- the loop of `ares_qcache_expire(cache, now)`: pop while the first entry has `expire_ts ≤ now`, removing the
    entry's *key* from the table each time -/
def expireLoop (nowSec : Int) : List Entry → List (Chars × Nat) → List Entry × List (Chars × Nat)
  | [], t => ([], t)
  | e :: es, t => if e.expireTs > nowSec then (e :: es, t) else expireLoop nowSec es (tableRemove (lowerAll e.key) t)

def expire (c : Cache) (nowSec : Int) : Cache :=
  let r := expireLoop nowSec c.expire c.table
  { c with expire := r.1, table := r.2 }

/-- `ares_qcache_flush` = `ares_qcache_expire(cache, NULL)`: every entry is popped -/
def flushLoop : List Entry → List (Chars × Nat) → List (Chars × Nat)
  | [], t => t
  | e :: es, t => flushLoop es (tableRemove (lowerAll e.key) t)

def flush (c : Cache) : Cache := { c with expire := [], table := flushLoop c.expire c.table }

inductive FetchResult where
  | miss
  /-- the cached response and the `ttl_decrement` it is handed out with -/
  | hit (e : Entry) (dec : Nat)
  /-- the table points at an entry that is no longer in the list (would be a use-after-free in C) -/
  | dangling
deriving Repr

/-- `ares_qcache_fetch` -/
def fetch (c : Cache) (nowSec : Int) (req : Req) : Cache × FetchResult :=
  let c1 := expire c nowSec
  match tableGet (tkey req) c1.table with
  | none => (c1, .miss)
  | some id =>
    match c1.expire.find? (fun e => e.eid = id) with
    | none => (c1, .dangling)
    | some e => (c1, .hit e ((nowSec - e.insertTs) % (2 ^ UINT_BITS : Nat)).toNat)

/-! ## TTLs as seen by the application -/

/-- TTL written by `ares_dns_write_rr` (legacy `unsigned char *abuf` path, `ares_dns_record_duplicate`) -/
def wireTtl (dec ttl : Nat) : Nat := if dec > ttl then 0 else ttl - dec

/-- TTL returned by `ares_dns_rr_get_ttl` (record API, `ares_parse_into_addrinfo`) -/
def apiTtl (dec ttl : Nat) : Nat := if RR_GET_TTL_DECREMENTS == 1 then wireTtl dec ttl else ttl

end Cares.Proto.Qcache
