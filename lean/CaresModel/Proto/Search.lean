import CaresModel.Text.Hosts
/-
Model of the search-list logic (C12): `ares_search_name_list`, `ares_search_eligible`,
`ares_name_label_cnt`, `ares_cat_domain` (src/lib/ares_search.c) and the pure fold over per-candidate
outcomes performed by `search_callback` (ares_search.c) and by `next_lookup` / `host_callback`
(src/lib/ares_getaddrinfo.c, DNS lookups of one address family).

An *outcome* is the status a candidate ends with: for `ares_search` the status derived from the reply
(`ares_dns_query_reply_tostatus`) or the failure status of the request / of sending it; for
`ares_getaddrinfo` the request status where a successful answer without addresses counts as
`ARES_ENODATA` and a successful answer with addresses as `ARES_SUCCESS`.
The walks follow the tree with the repair of F21; `searchWalkPinned` keeps the pinned final-status rule.
-/
namespace Cares.Proto
open Cares.Text

abbrev Name := Bytes
abbrev Outcome := Status

/-- the part of the channel configuration the search logic reads -/
structure Config where
  ndots : Nat := 1
  domains : List Name := []
  noSearch : Bool := false       -- ARES_FLAG_NOSEARCH
  noAliases : Bool := false      -- ARES_FLAG_NOALIASES
  aliases : AliasSrc := .unset   -- HOSTALIASES
  deriving Repr, DecidableEq

def dots (n : Name) : Nat := n.count 46

/-- `ares_name_label_cnt` -/
def labelCnt (n : Name) : Nat := dots n + 1

/-- `ares_cat_domain(name, domain)` -/
def catDomain (name domain : Name) : Name := name ++ [46] ++ (if domain == [46] then [] else domain)

/-- `ares_search_eligible` -/
def eligible (c : Config) (name : Name) : Bool := !(name.getLast? == some 46) && !c.noSearch

/-- `ares_search_name_list(channel, name, &names, &n)` -/
def nameList (c : Config) (name : Name) : Except Status (List Name) :=
  match lookupHostaliases c.noAliases c.aliases name with
  | .ok alias => .ok [alias]
  | .error .enotfound =>
    if !eligible c name then .ok [name]
    else
      let nd := labelCnt name - 1
      .ok ((if nd ≥ c.ndots then [name] else []) ++ c.domains.map (catDomain name) ++
           (if nd < c.ndots then [name] else []))
  | .error e => .error e

/-- does the walk go on to the next candidate after this outcome? -/
def soft (cand : Name) (o : Outcome) : Bool :=
  o == .enodata || o == .enotfound || ((o == .eservfail || o == .erefused) && labelCnt cand == 1)

/-- outcome of the `i`-th candidate; a vector that is too short reads as a timeout (a hard error) -/
def outcomeAt (os : List Outcome) (i : Nat) : Outcome := os.getD i .etimeout

/-- `search_callback` as a fold.  `fixed = true`: final status is ENODATA whenever any candidate had
    no data (repaired); `false`: only when the last candidate returned ENOTFOUND (pinned, F21). -/
def searchLoop (fixed : Bool) : List Name → List Outcome → Bool → List Name → List Name × Status
  | [], _, _, sent => (sent, .eformerr)            -- no candidate at all: not reachable from nameList
  | cand :: rest, os, everNodata, sent =>
    let o := os.headD .etimeout
    let sent' := sent ++ [cand]
    if !soft cand o then (sent', o)
    else
      let ever := everNodata || o == .enodata
      match rest with
      | [] =>
        if fixed then (sent', if ever then .enodata else o)
        else (sent', if o == .enotfound && ever then .enodata else o)
      | _ :: _ => searchLoop fixed rest (os.drop 1) ever sent'

/-- `next_lookup` / `host_callback` (one address family, DNS lookups only) as a fold -/
def gaiLoop : List Name → List Outcome → Bool → List Name → List Name × Status
  | [], _, _, sent => (sent, .econnrefused)
  | cand :: rest, os, anyNodata, sent =>
    let o := os.headD .etimeout
    let sent' := sent ++ [cand]
    if !soft cand o then (sent', o)
    else
      let any := anyNodata || o == .enodata
      match rest with
      | [] => (sent', if any then .enodata else o)
      | _ :: _ => gaiLoop rest (os.drop 1) any sent'

/-! ### specification of the walk (used by the C12 theorems) -/

/-- index of the first candidate whose outcome is data or a hard error -/
def stopAt : List Name → List Outcome → Option Nat
  | [], _ => none
  | n :: ns, os => if !soft n (os.headD .etimeout) then some 0 else (stopAt ns (os.drop 1)).map (· + 1)

/-- the candidates up to and including the one the walk stops at (all of them if it never stops) -/
def takeUntilStop (names : List Name) (os : List Outcome) : List Name :=
  match stopAt names os with
  | some i => names.take (i + 1)
  | none => names

/-- did one of the first `n` candidates end with ENODATA? -/
def anyNodata (n : Nat) (os : List Outcome) : Bool := (List.range n).any (fun j => outcomeAt os j == .enodata)

/-- names sent and final status of `ares_search()` for the given per-candidate outcomes -/
def searchWalk (c : Config) (name : Name) (os : List Outcome) : List Name × Status :=
  match nameList c name with
  | .error e => ([], e)
  | .ok names => searchLoop true names os false []

def searchWalkPinned (c : Config) (name : Name) (os : List Outcome) : List Name × Status :=
  match nameList c name with
  | .error e => ([], e)
  | .ok names => searchLoop false names os false []

/-- the same for the DNS part of `ares_getaddrinfo()` (single family) -/
def gaiWalk (c : Config) (name : Name) (os : List Outcome) : List Name × Status :=
  match nameList c name with
  | .error e => ([], e)
  | .ok names => gaiLoop names os false []

end Cares.Proto
