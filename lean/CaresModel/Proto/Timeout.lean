import CaresModel.Generated.ProtoConsts
import CaresModel.Generated.ProtoCalc
/-!
# `Proto.Timeout` — latency metrics and the per-attempt timeout

* `Metrics.record` = `ares_metrics_record` (five buckets: 1 min, 15 min, 1 h, 1 day, since inception; each with the
  current and the previous period), `serverTimeout` = `ares_metrics_server_timeout` (first bucket with at least
  `MIN_COUNT_FOR_AVERAGE` samples in the current or previous period → `AVG_TIMEOUT_MULTIPLIER` × average, else the
  configured timeout; clamped to `[MIN_TIMEOUT_MS, maxtimeout or MAX_TIMEOUT_MS]`) — `src/lib/ares_metrics.c`.
* `calcQueryTimeout` = the static `ares_calc_query_timeout` of `src/lib/ares_process.c`: `rounds = try_count /
  num_servers`, `timeplus <<= rounds` on 64-bit words, cap by `maxtimeout`, jitter from a 16-bit random number,
  floor at the base timeout.  The shift is modelled on `Nat` with two flags set exactly where C misbehaves:
  `ub` (shift count ≥ width: undefined behaviour) and `ovf` (bits shifted out of the 64-bit word: the value wraps).
  Whether the tree under check guards the shift is observed by the generator (`Generated.Proto.CALC_SHIFT_GUARDED`).
* the jitter `(size_t)((float)timeplus * (((float)r / USHRT_MAX) * 0.5f))` is modelled **exactly** (IEEE-754
  binary32, round-to-nearest-even, as x86-64/SSE evaluates it: `FLT_EVAL_METHOD = 0`) by `jitterExact`, using
  rational arithmetic on `Nat`; the theorems use the interval fact `jitterOk` (`d ≤ timeplus·(1/2 + 2⁻²⁴ + 2⁻⁴⁹)`), which
  `jitterExact` is proved to satisfy (`jitterExact_ok`).

Constants are regenerated from source.  Time is `(sec : Int, usec : Nat)` as in `ares_timeval_t`.
-/
namespace Cares.Proto.Timeout
open Cares.Generated.Proto

def WORD : Nat := 2 ^ SIZE_T_BITS
def UINT : Nat := 2 ^ UINT_BITS

/-! ## metrics -/

/-- `ares_server_metrics_t` -/
structure Bucket where
  ts : Int := 0
  latMin : Nat := 0
  latMax : Nat := 0
  totalMs : Nat := 0
  totalCount : Nat := 0
  prevTs : Int := 0
  prevTotalMs : Nat := 0
  prevTotalCount : Nat := 0
deriving DecidableEq, Repr, Inhabited

abbrev Metrics := List Bucket

def Metrics.init : Metrics := List.replicate METRIC_COUNT {}

/-- `ares_metric_timestamp(bucket, now, is_previous)` (C division truncates toward zero) -/
def metricTs (bucket : Nat) (nowSec : Int) (isPrev : Bool) : Int :=
  if bucket = METRIC_INCEPTION then (if isPrev then METRIC_INCEPTION_TS_PREV else METRIC_INCEPTION_TS_CUR)
  else
    match METRIC_DIVISORS[bucket]? with
    | none => 0
    | some d =>
      if isPrev then (if (d : Int) ≥ nowSec then 0 else Int.tdiv (nowSec - d) d)
      else Int.tdiv nowSec d

/-- milliseconds between two time stamps as `ares_timeval_diff` + `sec*1000 + usec/1000` compute them -/
def diffMs (startSec : Int) (startUsec : Nat) (stopSec : Int) (stopUsec : Nat) : Int :=
  if stopUsec > startUsec then (stopSec - startSec) * 1000 + ((stopUsec - startUsec) / 1000 : Nat)
  else (stopSec - startSec - 1) * 1000 + ((stopUsec + 1000000 - startUsec) / 1000 : Nat)

/-- one bucket's update in `ares_metrics_record` -/
def Bucket.add (b : Bucket) (ts : Int) (queryMs : Nat) : Bucket :=
  let b1 : Bucket := if ts ≠ b.ts then
      { ts := ts, latMin := 0, latMax := 0, totalMs := 0, totalCount := 0,
        prevTs := b.ts, prevTotalMs := b.totalMs, prevTotalCount := b.totalCount } else b
  let b2 := if b1.latMin = 0 ∨ b1.latMin > queryMs then { b1 with latMin := queryMs } else b1
  let b3 := if queryMs > b2.latMax then { b2 with latMax := queryMs } else b2
  { b3 with totalCount := (b3.totalCount + 1) % WORD, totalMs := (b3.totalMs + queryMs) % WORD }

def recordGo (nowSec : Int) (queryMs : Nat) : Nat → List Bucket → List Bucket
  | _, [] => []
  | i, b :: bs => b.add (metricTs i nowSec false) queryMs :: recordGo nowSec queryMs (i + 1) bs

/-- `ares_metrics_record(query, server, status, dnsrec)`: `statusOk` = `status == ARES_SUCCESS`, `sent` = `query->ts`,
    `now` = `ares_tvnow()` -/
def Metrics.record (m : Metrics) (statusOk : Bool) (rcode : Nat) (sentSec : Int) (sentUsec : Nat)
    (nowSec : Int) (nowUsec : Nat) : Metrics :=
  if !statusOk then m
  else if rcode ≠ RCODE_NOERROR ∧ rcode ≠ RCODE_NXDOMAIN then m
  else
    let q0 := ((diffMs sentSec sentUsec nowSec nowUsec) % (UINT : Int)).toNat      -- (unsigned int) cast
    let q := if q0 = 0 then 1 else q0
    recordGo nowSec q 0 m

/-- the loop of `ares_metrics_server_timeout`: average × multiplier of the first usable bucket, 0 if none -/
def avgGo (nowSec : Int) : Nat → List Bucket → Nat
  | _, [] => 0
  | i, b :: bs =>
    if metricTs i nowSec false ≠ b.ts ∨ b.totalCount < MIN_COUNT_FOR_AVERAGE then
      if metricTs i nowSec true ≠ b.prevTs ∨ b.prevTotalCount < MIN_COUNT_FOR_AVERAGE then avgGo nowSec (i + 1) bs
      else (b.prevTotalMs / b.prevTotalCount * AVG_TIMEOUT_MULTIPLIER) % WORD
    else (b.totalMs / b.totalCount * AVG_TIMEOUT_MULTIPLIER) % WORD

/-- `ares_metrics_server_timeout(server, now)` with `cfgTimeout = channel->timeout`, `maxtimeout = channel->maxtimeout` -/
def serverTimeout (m : Metrics) (cfgTimeout maxtimeout : Nat) (nowSec : Int) : Nat :=
  let t0 := avgGo nowSec 0 m
  let t1 := if t0 = 0 then cfgTimeout else t0
  let t2 := if t1 < MIN_TIMEOUT_MS then MIN_TIMEOUT_MS else t1
  let cap := if maxtimeout ≠ 0 then maxtimeout else MAX_TIMEOUT_MS
  if t2 > cap then cap else t2

/-! ## binary32 arithmetic (exact) -/

/-- a positive binary32 value `m · 2^e` with `2²³ ≤ m ≤ 2²⁴` -/
structure F32 where
  m : Nat
  e : Int
deriving DecidableEq, Repr

def pow2 (k : Nat) : Nat := 2 ^ k

/-- ⌊log₂ n⌋ by structural recursion on a fuel argument (kernel-evaluable) -/
def log2Aux : Nat → Nat → Nat
  | 0, _ => 0
  | f + 1, n => if n ≥ 2 then log2Aux f (n / 2) + 1 else 0

def log2 (n : Nat) : Nat := log2Aux n n

/-- ⌊log₂ (n/d)⌋ for `n, d > 0` -/
def floorLog2Ratio (n d : Nat) : Int :=
  let s : Int := (log2 n : Int) - (log2 d : Int)
  -- n/d ∈ (2^(s-1), 2^(s+1))
  if s ≥ 0 then (if n ≥ d * pow2 s.toNat then s else s - 1)
  else (if n * pow2 (-s).toNat ≥ d then s else s - 1)

/-- round the positive rational `n/d` to binary32 (round-to-nearest, ties to even; no overflow/underflow in the
    ranges used here) -/
def roundF32 (n d : Nat) : F32 :=
  let e : Int := floorLog2Ratio n d - 23
  let num := n * pow2 (-e).toNat      -- (`toNat` of a negative number is 0: only one of the two scalings is active)
  let den := d * pow2 e.toNat
  let q := num / den
  let r := num % den
  let q' := if 2 * r > den ∨ (2 * r = den ∧ q % 2 = 1) then q + 1 else q
  ⟨q', e⟩      -- (a carry to 2²⁴ is left as it is: same value, and nothing here depends on a normalised mantissa)

/-- binary32 product, correctly rounded -/
def F32.mul (a b : F32) : F32 :=
  let e := a.e + b.e
  roundF32 (a.m * b.m * pow2 e.toNat) (pow2 (-e).toNat)

/-- conversion to an unsigned integer (truncation) -/
def F32.trunc (a : F32) : Nat := a.m * pow2 a.e.toNat / pow2 (-a.e).toNat

/-- `(size_t)((float)timeplus * (((float)r / USHRT_MAX) * 0.5f))` -/
def jitterExact (timeplus r : Nat) : Nat :=
  if r = 0 ∨ timeplus = 0 then 0
  else
    let fr := roundF32 r USHRT_MAX                 -- (float)r / 65535.0f
    let dm : F32 := ⟨fr.m, fr.e - 1⟩               -- * 0.5f (exact)
    let ft := roundF32 timeplus 1                  -- (float)timeplus
    (ft.mul dm).trunc

/-- the interval the theorems rely on: the jitter takes away at most `timeplus · (1/2 + 2⁻²⁴ + 2⁻⁴⁹)` — half, plus the two
    binary32 roundings (of a large `timeplus` and of the product); `CaresLemmas/Float32.lean` proves that `jitterExact`
    lies in it -/
def jitterOk (timeplus d : Nat) : Prop := d * 2 ^ 49 ≤ timeplus * (2 ^ 24 + 1) ^ 2

instance (t d : Nat) : Decidable (jitterOk t d) := by unfold jitterOk; infer_instance

/-! ## `ares_calc_query_timeout` -/

structure CalcOut where
  /-- the value returned (milliseconds) -/
  timeplus : Nat
  /-- shift count ≥ width of `size_t`: undefined behaviour in C (the value is then meaningless) -/
  ub : Bool
  /-- high bits lost in the doubling, or the jitter subtraction wrapped -/
  ovf : Bool
  /-- a 16-bit random number was drawn -/
  drew : Bool
deriving DecidableEq, Repr

/-- `SIZE_MAX >> 1`: where the repaired doubling saturates (still a non-negative `ares_int64_t` for `timeadd`) -/
def MAX_TIMEPLUS : Nat := (WORD - 1) >>> 1

/-- `timeplus <<= rounds` as the tree under check does it: `guarded` = the repaired code saturates at `SIZE_MAX >> 1`
    instead of shifting bits out or shifting by ≥ 64 -/
def shiftStep (guarded : Bool) (timeout rounds : Nat) : Nat × Bool × Bool :=
  if rounds = 0 then (timeout, false, false)
  else if guarded then
    (if rounds ≥ SIZE_T_BITS ∨ timeout > MAX_TIMEPLUS >>> rounds then MAX_TIMEPLUS else timeout <<< rounds, false, false)
  else if rounds ≥ SIZE_T_BITS then (0, true, false)
  else ((timeout <<< rounds) % WORD, false, decide (timeout <<< rounds ≥ WORD))

/-- everything before the jitter: doubling and cap -/
def preJitter (guarded : Bool) (timeout maxtimeout rounds : Nat) : Nat × Bool × Bool :=
  let s := shiftStep guarded timeout rounds
  (if maxtimeout ≠ 0 ∧ s.1 > maxtimeout then maxtimeout else s.1, s.2.1, s.2.2)

/-- `ares_calc_query_timeout` with the jitter amount given by `jit` (a function of the capped `timeplus`).
    `timeout` is the value of `ares_metrics_server_timeout`, `tryCount = query->try_count`,
    `nservers = ares_slist_len(channel->servers)`. -/
def calcWith (guarded : Bool) (jit : Nat → Nat) (timeout maxtimeout tryCount nservers : Nat) : CalcOut :=
  if nservers = 0 then ⟨0, false, false, false⟩
  else
    let rounds := tryCount / nservers
    let p := preJitter guarded timeout maxtimeout rounds
    let d := if rounds > 0 then jit p.1 else 0
    let t := if d > p.1 then (p.1 + WORD - d) % WORD else p.1 - d
    ⟨if t < timeout then timeout else t, p.2.1, p.2.2 || decide (d > p.1), decide (rounds > 0)⟩

/-- the function of the tree under check, `r` = the 16-bit random number drawn when `rounds > 0` -/
def calcQueryTimeout (timeout maxtimeout tryCount nservers r : Nat) : CalcOut :=
  calcWith (CALC_SHIFT_GUARDED == 1) (fun tp => jitterExact tp r) timeout maxtimeout tryCount nservers

end Cares.Proto.Timeout
